import IOptGen.Meta
import Mathlib.Algebra.Order.Field.Rat
import Mathlib.Algebra.Order.Field.Basic
import Mathlib.Tactic.Positivity
import Mathlib.Tactic.Linarith
import Mathlib.Tactic.Push
/-!
# Declared metadata of the shipped problem instances: the Boolean check and its meaning (for C18, C10)

`Gen.metaRowsPacked` (regenerated from the running Python classes) has one row per shipped instance.
`metaOK` is the decidable well-formedness check evaluated by the kernel on every row
(`BenchMeta1..4`), `MetaWF` is what it means over the rationals.
-/

namespace BenchMeta
open Gen

/-! ### exact dyadic comparisons mean comparisons of the rational values -/

theorem two_pow_pos (k : Nat) : (0 : Rat) < (2 : Rat) ^ k := by positivity

theorem toRat_lt_iff (a b : Dy) : Dy.lt a b = true ↔ a.toRat < b.toRat := by
  unfold Dy.lt Dy.toRat
  rw [decide_eq_true_iff, div_lt_div_iff₀ (two_pow_pos _) (two_pow_pos _)]
  constructor
  · intro h
    have : ((a.1 * (2 : Int) ^ b.2 : Int) : Rat) < ((b.1 * (2 : Int) ^ a.2 : Int) : Rat) := by exact_mod_cast h
    push_cast at this; exact this
  · intro h
    have : ((a.1 * (2 : Int) ^ b.2 : Int) : Rat) < ((b.1 * (2 : Int) ^ a.2 : Int) : Rat) := by push_cast; exact h
    exact_mod_cast this

theorem toRat_le_iff (a b : Dy) : Dy.le a b = true ↔ a.toRat ≤ b.toRat := by
  unfold Dy.le Dy.toRat
  rw [decide_eq_true_iff, div_le_div_iff₀ (two_pow_pos _) (two_pow_pos _)]
  constructor
  · intro h
    have : ((a.1 * (2 : Int) ^ b.2 : Int) : Rat) ≤ ((b.1 * (2 : Int) ^ a.2 : Int) : Rat) := by exact_mod_cast h
    push_cast at this; exact this
  · intro h
    have : ((a.1 * (2 : Int) ^ b.2 : Int) : Rat) ≤ ((b.1 * (2 : Int) ^ a.2 : Int) : Rat) := by push_cast; exact h
    exact_mod_cast this

/-- the double is (plus or minus) zero -/
def dyIsZero (d : Dy) : Bool := d.1 == 0

theorem toRat_eq_zero_of_isZero {d : Dy} (h : dyIsZero d = true) : d.toRat = 0 := by
  unfold dyIsZero at h
  have : d.1 = 0 := by simpa using h
  simp [Dy.toRat, this]

/-! ### the well-formedness check -/

/-- all the declared lengths agree with the declared dimension -/
def lenOK (r : MetaRow) : Bool :=
  r.dimension == r.nFloat && r.dimension == r.nNames && r.lower.length == r.dimension &&
  r.upper.length == r.dimension && r.optPoint.length == r.dimension

/-- `lower_i < upper_i` and `lower_i ≤ optPoint_i ≤ upper_i`, exactly -/
def boundsOK (r : MetaRow) : Bool :=
  (List.zip r.lower r.upper).all (fun p => Dy.lt p.1 p.2) &&
  (List.zip r.lower r.optPoint).all (fun p => Dy.le p.1 p.2) &&
  (List.zip r.optPoint r.upper).all (fun p => Dy.le p.1 p.2)

/-- the Boolean well-formedness check of one metadata row (property C18, first sentence) -/
def metaOK (r : MetaRow) : Bool :=
  lenOK r && boundsOK r && r.nObjectives == 1 && r.nOptima == 1

/-- what `metaOK` means -/
structure MetaWF (r : MetaRow) : Prop where
  dim_nFloat : r.dimension = r.nFloat
  dim_nNames : r.dimension = r.nNames
  len_lower : r.lower.length = r.dimension
  len_upper : r.upper.length = r.dimension
  len_opt : r.optPoint.length = r.dimension
  one_objective : r.nObjectives = 1
  one_optimum : r.nOptima = 1
  lower_lt_upper : List.Forall₂ (fun l u => l.toRat < u.toRat) r.lower r.upper
  lower_le_opt : List.Forall₂ (fun l p => l.toRat ≤ p.toRat) r.lower r.optPoint
  opt_le_upper : List.Forall₂ (fun p u => p.toRat ≤ u.toRat) r.optPoint r.upper

theorem forall₂_of_zip_all {α β : Type} (p : α × β → Bool) (R : α → β → Prop)
    (hp : ∀ a b, p (a, b) = true → R a b) :
    ∀ (l : List α) (u : List β), l.length = u.length → (List.zip l u).all p = true → List.Forall₂ R l u
  | [], [], _, _ => List.Forall₂.nil
  | [], _ :: _, h, _ => by simp at h
  | _ :: _, [], h, _ => by simp at h
  | a :: l, b :: u, h, hall => by
    simp only [List.zip_cons_cons, List.all_cons, Bool.and_eq_true] at hall
    exact List.Forall₂.cons (hp a b hall.1)
      (forall₂_of_zip_all p R hp l u (by simpa using h) hall.2)

theorem metaWF_of_metaOK {r : MetaRow} (h : metaOK r = true) : MetaWF r := by
  simp only [metaOK, lenOK, boundsOK, Bool.and_eq_true, beq_iff_eq] at h
  obtain ⟨⟨⟨⟨⟨⟨⟨h1, h2⟩, h3⟩, h4⟩, h5⟩, ⟨⟨b1, b2⟩, b3⟩⟩, h6⟩, h7⟩ := h
  exact
    { dim_nFloat := h1, dim_nNames := h2, len_lower := h3, len_upper := h4, len_opt := h5
      one_objective := h6, one_optimum := h7
      lower_lt_upper := forall₂_of_zip_all _ _ (fun a b hab => (toRat_lt_iff a b).1 hab) _ _ (by omega) b1
      lower_le_opt := forall₂_of_zip_all _ _ (fun a b hab => (toRat_le_iff a b).1 hab) _ _ (by omega) b2
      opt_le_upper := forall₂_of_zip_all _ _ (fun a b hab => (toRat_le_iff a b).1 hab) _ _ (by omega) b3 }

/-! ### from a kernel-evaluated block of the table to a statement about indices

Kernel-evaluation note.  The kernel's `whnf` cache hashes a `Nat` literal by its low machine word only,
and the low word of every metadata row is the family code; evaluating `f row` for hundreds of literal rows
therefore makes every cache lookup compare structurally-equal-up-to-the-literal terms (measured: 250 rows
80 s, growing quadratically).  `tag n row` (= `row`) keeps a distinct small literal `n` inside every term
that mentions the row, which restores good hashing (250 rows: 4 s).  The list is walked once. -/

/-- `tag i row = row`; only there to make kernel terms hash differently per row -/
def tag (i row : Nat) : Nat := row + (i - i)

@[simp] theorem tag_eq (i row : Nat) : tag i row = row := by simp [tag]

/-- skip `s` rows, then check `f` on the next `n` rows (or up to the end of the table) -/
def checkBlock (f : Nat → Bool) : List Nat → Nat → Nat → Bool
  | [], _, _ => true
  | _ :: t, s+1, n => checkBlock f t s n
  | x :: t, 0, n+1 => f (tag n x) && checkBlock f t 0 n
  | _ :: _, 0, 0 => true

theorem checkBlock_sound (f : Nat → Bool) :
    ∀ (l : List Nat) (s n : Nat), checkBlock f l s n = true →
      ∀ i, s ≤ i → i < s + n → ∀ h : i < l.length, f l[i] = true
  | [], _, _, _, _, _, _, h => by simp at h
  | _ :: t, s+1, n, hc, i, hs, hn, h => by
    obtain ⟨j, rfl⟩ : ∃ j, i = j + 1 := ⟨i - 1, by omega⟩
    simp only [List.getElem_cons_succ]
    exact checkBlock_sound f t s n (by simpa [checkBlock] using hc) j (by omega) (by omega) _
  | x :: t, 0, n+1, hc, i, _, hn, h => by
    simp only [checkBlock, tag_eq, Bool.and_eq_true] at hc
    cases i with
    | zero => simpa using hc.1
    | succ j =>
      simp only [List.getElem_cons_succ]
      exact checkBlock_sound f t 0 n hc.2 j (by omega) (by omega) _
  | _ :: _, 0, 0, _, i, _, hn, _ => by omega

/-- array form: a checked block gives the property for every index in the block -/
theorem block_sound {f : Nat → Bool} (arr : Array Nat) (s n : Nat)
    (h : checkBlock f arr.toList s n = true) :
    ∀ i, s ≤ i → i < s + n → i < arr.size → f arr[i]! = true := by
  intro i hs hn hi
  rw [getElem!_pos arr i hi]
  have := checkBlock_sound f arr.toList s n h i hs hn (by simpa using hi)
  simpa using this

theorem getElem!_eq_toList (arr : Array Nat) (i : Nat) (h : i < arr.size) :
    arr[i]! = arr.toList[i]'(by simpa using h) := by
  rw [getElem!_pos arr i h]; simp

/-- the row-level check used on the packed table -/
def rowOK (row : Nat) : Bool := metaOK (metaDecode row)

/-! ### the two open families (any dimension): metadata as functions of `n` -/

/-- the double `0.0` -/
def dyZero : Dy := (0, 1074)
/-- the double `-2.2` -/
def dyM2_2 : Dy := Dy.ofBits 0xc00199999999999a
/-- the double `1.8` -/
def dy1_8 : Dy := Dy.ofBits 0x3ffccccccccccccd
/-- the double `-1.0` -/
def dyM1 : Dy := Dy.ofBits 0xbff0000000000000
/-- the double `1.0` -/
def dy1 : Dy := Dy.ofBits 0x3ff0000000000000

/-- metadata of `Rastrigin(n)`: box `[-2.2, 1.8]^n`, optimum `0` at the origin -/
def rastriginMeta (n : Nat) : MetaRow :=
  { family := 5, arg0 := n, arg1 := 0, dimension := n, nFloat := n, nNames := n, nObjectives := 1,
    nConstraints := 0, nOptima := 1, lower := List.replicate n dyM2_2, upper := List.replicate n dy1_8,
    optPoint := List.replicate n dyZero, optValue := dyZero }

/-- metadata of `XSquared(n)`: box `[-1, 1]^n`, optimum `0` at the origin -/
def xsquaredMeta (n : Nat) : MetaRow :=
  { family := 6, arg0 := n, arg1 := 0, dimension := n, nFloat := n, nNames := n, nObjectives := 1,
    nConstraints := 0, nOptima := 1, lower := List.replicate n dyM1, upper := List.replicate n dy1,
    optPoint := List.replicate n dyZero, optValue := dyZero }

theorem forall₂_replicate {α β : Type} (R : α → β → Prop) (a : α) (b : β) (h : R a b) :
    ∀ n, List.Forall₂ R (List.replicate n a) (List.replicate n b)
  | 0 => List.Forall₂.nil
  | n + 1 => List.Forall₂.cons h (forall₂_replicate R a b h n)

theorem rastriginMeta_wf (n : Nat) : MetaWF (rastriginMeta n) :=
  { dim_nFloat := rfl, dim_nNames := rfl, len_lower := List.length_replicate ..
    len_upper := List.length_replicate .., len_opt := List.length_replicate ..
    one_objective := rfl, one_optimum := rfl
    lower_lt_upper := forall₂_replicate (fun l u : Dy => l.toRat < u.toRat) dyM2_2 dy1_8
      ((toRat_lt_iff dyM2_2 dy1_8).1 (by decide +kernel)) n
    lower_le_opt := forall₂_replicate (fun l u : Dy => l.toRat ≤ u.toRat) dyM2_2 dyZero
      ((toRat_le_iff dyM2_2 dyZero).1 (by decide +kernel)) n
    opt_le_upper := forall₂_replicate (fun l u : Dy => l.toRat ≤ u.toRat) dyZero dy1_8
      ((toRat_le_iff dyZero dy1_8).1 (by decide +kernel)) n }

theorem xsquaredMeta_wf (n : Nat) : MetaWF (xsquaredMeta n) :=
  { dim_nFloat := rfl, dim_nNames := rfl, len_lower := List.length_replicate ..
    len_upper := List.length_replicate .., len_opt := List.length_replicate ..
    one_objective := rfl, one_optimum := rfl
    lower_lt_upper := forall₂_replicate (fun l u : Dy => l.toRat < u.toRat) dyM1 dy1
      ((toRat_lt_iff dyM1 dy1).1 (by decide +kernel)) n
    lower_le_opt := forall₂_replicate (fun l u : Dy => l.toRat ≤ u.toRat) dyM1 dyZero
      ((toRat_le_iff dyM1 dyZero).1 (by decide +kernel)) n
    opt_le_upper := forall₂_replicate (fun l u : Dy => l.toRat ≤ u.toRat) dyZero dy1
      ((toRat_le_iff dyZero dy1).1 (by decide +kernel)) n }

/-- field-wise Boolean equality of metadata rows -/
def rowBEq (r s : MetaRow) : Bool :=
  r.family == s.family && r.arg0 == s.arg0 && r.arg1 == s.arg1 && r.dimension == s.dimension &&
  r.nFloat == s.nFloat && r.nNames == s.nNames && r.nObjectives == s.nObjectives &&
  r.nConstraints == s.nConstraints && r.nOptima == s.nOptima && r.lower == s.lower &&
  r.upper == s.upper && r.optPoint == s.optPoint && r.optValue == s.optValue

theorem eq_of_rowBEq {r s : MetaRow} (h : rowBEq r s = true) : r = s := by
  cases r; cases s
  simp only [rowBEq, Bool.and_eq_true, beq_iff_eq] at h
  simp only [MetaRow.mk.injEq]
  tauto

/-- a row of family 5 (6) is exactly `rastriginMeta` (`xsquaredMeta`) of its argument, and the
argument is at least 1 -/
def openRowOK (row : Nat) : Bool :=
  let r := metaDecode row
  (r.family != 5 || (rowBEq r (rastriginMeta r.arg0) && 1 ≤ r.arg0)) &&
  (r.family != 6 || (rowBEq r (xsquaredMeta r.arg0) && 1 ≤ r.arg0))

/-- the table has a row of family `fam` with argument `n` -/
def hasRow (rows : List Nat) (fam n : Nat) : Bool :=
  rows.any fun row => Dy.word row 0 == fam && Dy.word row 1 == n

end BenchMeta

namespace BenchMeta
open Gen

/-- the `arg0` words of the rows of family `fam` among the first `n` rows, in table order -/
def famArgs (fam : Nat) : List Nat → Nat → List Nat
  | [], _ => []
  | _ :: _, 0 => []
  | x :: t, n+1 =>
    if Dy.word (tag n x) 0 == fam then Dy.word (tag n x) 1 :: famArgs fam t n else famArgs fam t n

theorem famArgs_sound (fam : Nat) :
    ∀ (l : List Nat) (n a : Nat), a ∈ famArgs fam l n →
      ∃ i, ∃ h : i < l.length, Dy.word l[i] 0 = fam ∧ Dy.word l[i] 1 = a
  | [], _, _, h => by simp [famArgs] at h
  | _ :: _, 0, _, h => by simp [famArgs] at h
  | x :: t, n+1, a, h => by
    simp only [famArgs, tag_eq] at h
    split at h
    · rename_i hf
      rcases List.mem_cons.1 h with rfl | h'
      · exact ⟨0, by simp, by simpa using hf, rfl⟩
      · obtain ⟨i, hi, h1, h2⟩ := famArgs_sound fam t n a h'
        exact ⟨i + 1, by simpa using hi, by simpa using h1, by simpa using h2⟩
    · obtain ⟨i, hi, h1, h2⟩ := famArgs_sound fam t n a h
      exact ⟨i + 1, by simpa using hi, by simpa using h1, by simpa using h2⟩

theorem metaDecode_family (row : Nat) : (metaDecode row).family = Dy.word row 0 := rfl
theorem metaDecode_arg0 (row : Nat) : (metaDecode row).arg0 = Dy.word row 1 := rfl

/-- if `n` is among the arguments of the rows of family `fam`, and every row of that family is `mk` of its
argument, then the table contains the row `mk n` -/
theorem table_has_row (arr : Array Nat) (fam n K : Nat) (mk : Nat → MetaRow)
    (hargs : n ∈ famArgs fam arr.toList K)
    (hrows : ∀ i < arr.size, (metaDecode arr[i]!).family = fam →
      metaDecode arr[i]! = mk (metaDecode arr[i]!).arg0) :
    ∃ i, i < arr.size ∧ metaDecode arr[i]! = mk n := by
  obtain ⟨i, hi, hf, ha⟩ := famArgs_sound fam _ _ n hargs
  have hi' : i < arr.size := by simpa using hi
  have hrow := getElem!_eq_toList arr i hi'
  refine ⟨i, hi', ?_⟩
  have h := hrows i hi' (by rw [metaDecode_family, hrow]; exact hf)
  rw [h, metaDecode_arg0, hrow, ha]

end BenchMeta
