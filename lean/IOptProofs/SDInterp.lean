import IOptProofs.SDInterpDefs
import IOptProofs.SDLinks
/-!
# The containers of `search_data.py`, taken from the SOURCE TEXT, are the model `SD`

`IOptGen/SearchDataCtlSrc.lean` (regenerated from `iOpt/method/search_data.py` on every run) holds the body of every method of
`CharacteristicsQueue`, `SearchData`, `SearchDataDualQueue` as a statement tree.  `IOptProofs/SDInterpDefs.lean` interprets such
trees, generically, over the model state `SD.State` (heap of items + `len(_allTrials)` + `curIter`), calling the other methods
through THEIR generated trees (`resolve`, `envN`).  Here the interpretation of the generated trees is proved to be the model:

* `insertDataItem_src` (both classes, with / without hint; `_wf`: any iteration bound on a well-linked container) = `SD.insert`;
* `find_src` = `SD.find`; `refillQueue_src` = `SD.refill`; `clearQueue_src` = `SD.clearQueue`;
  `getDataItemWithMaxGlobalR_src` = `SD.popMaxGlobal`; `insertFirstDataItem_src` = `SD.insertFirst` (all states);
* `getDataItemWithMaxR_dual_src` = `SD.popCurrent` (global and local; through `popCurrentO`, which keeps "fuel exhausted" apart
  from `IndexError`, `popCurrent_eq_O`, `popCurExpect_model`);
* `characteristicsQueue_Insert_src`, `characteristicsQueue_src`, `characteristicsQueue_init_src` = the DEPQ contract
  (`SD.qinsert`, head removal, clear); `getCount_src`, `getLastItem_src`, `saveLoadProgress_src`;
* `Examples`: runs of the interpreter on the generated trees over `ℕ`, instances of the theorems, and seeded edits of the trees
  (pointer writes reordered, the flag tested before it is reassigned, `Clear` re-creating the queue without `maxlen`).

Hypotheses.  `Closed s`: no dangling references (`first`, `left`, `right` are `None` or items of `trials`) — true of every object
graph Python can build; the model gives such references an ad-hoc meaning, the semantics is `stuck` on them.  Iteration bound:
`ifuel = len(_allTrials)` (the cut of `SD.walk`; no well-formedness needed), or any `ifuel ≥ len(_allTrials)` on a well-linked
container (`RepL`, the link part of `SD.WF`).  Result types: `MOut.view` forgets `curIter`; `View.ofModel` reads a model result.

Where source and model differ (stated in the theorems, not hidden):
* on an EMPTY container (`first = None`) `for … in self` raises `StopIteration` out of `__iter__` (a plain function, not a
  generator), so `FindDataItemByOneDimensionalPoint`, `RefillQueue`, and through them `InsertDataItem` without hint and
  `GetDataItemWithMaxGlobalR` with an empty queue raise `StopIteration`; the model says `AttributeError` / `IndexError`
  (`insExpect`, `popExpect`);
* the base class never touches the local queue, `SD.clearQueue` / `SD.refill` reset `lq` whatever `dual` is: equal when
  `s.dual = false → s.lq = []` (`refillState`, `clearQueue_src'`).
-/

set_option linter.unusedSimpArgs false
set_option linter.unusedSectionVars false
set_option linter.unusedVariables false

namespace SDInterp
open SD Gen.ProcSrc Gen.SearchDataCtl

/-! ### table look-ups on the strings of the generated trees (all by evaluation) -/
theorem ex_0 : exprTable.lookup "key" = some (Expr.var "key") := rfl
theorem ex_1 : exprTable.lookup "dataItem" = some (Expr.var "dataItem") := rfl
theorem ex_2 : exprTable.lookup "newDataItem" = some (Expr.var "newDataItem") := rfl
theorem ex_3 : exprTable.lookup "rightDataItem" = some (Expr.var "rightDataItem") := rfl
theorem ex_4 : exprTable.lookup "leftDataItem" = some (Expr.var "leftDataItem") := rfl
theorem ex_5 : exprTable.lookup "x" = some (Expr.var "x") := rfl
theorem ex_6 : exprTable.lookup "item" = some (Expr.var "item") := rfl
theorem ex_7 : exprTable.lookup "itr" = some (Expr.var "itr") := rfl
theorem ex_8 : exprTable.lookup "flag" = some (Expr.var "flag") := rfl
theorem ex_9 : exprTable.lookup "tmp" = some (Expr.var "tmp") := rfl
theorem ex_10 : exprTable.lookup "None" = some (Expr.litNone) := rfl
theorem ex_11 : exprTable.lookup "True" = some (Expr.litTrue) := rfl
theorem ex_12 : exprTable.lookup "False" = some (Expr.litFalse) := rfl
theorem ex_13 : exprTable.lookup "'GetLastItem: List is empty'" = some (Expr.litStr) := rfl
theorem ex_14 : exprTable.lookup "self" = some (Expr.self) := rfl
theorem ex_15 : exprTable.lookup "self.__firstDataItem" = some (Expr.fFirst) := rfl
theorem ex_16 : exprTable.lookup "self.curIter" = some (Expr.fCur) := rfl
theorem ex_17 : exprTable.lookup "newDataItem.GetX()" = some (Expr.acc (Acc.getX) (Expr.var "newDataItem")) := rfl
theorem ex_18 : exprTable.lookup "rightDataItem.GetLeft()" = some (Expr.acc (Acc.getLeft) (Expr.var "rightDataItem")) := rfl
theorem ex_19 : exprTable.lookup "newDataItem.globalR" = some (Expr.acc (Acc.globalR) (Expr.var "newDataItem")) := rfl
theorem ex_20 : exprTable.lookup "newDataItem.localR" = some (Expr.acc (Acc.localR) (Expr.var "newDataItem")) := rfl
theorem ex_21 : exprTable.lookup "rightDataItem.globalR" = some (Expr.acc (Acc.globalR) (Expr.var "rightDataItem")) := rfl
theorem ex_22 : exprTable.lookup "rightDataItem.localR" = some (Expr.acc (Acc.localR) (Expr.var "rightDataItem")) := rfl
theorem ex_23 : exprTable.lookup "itr.globalR" = some (Expr.acc (Acc.globalR) (Expr.var "itr")) := rfl
theorem ex_24 : exprTable.lookup "itr.localR" = some (Expr.acc (Acc.localR) (Expr.var "itr")) := rfl
theorem ex_25 : exprTable.lookup "rightDataItem is None" = some (Expr.isNone (Expr.var "rightDataItem")) := rfl
theorem ex_26 : exprTable.lookup "self.curIter is None" = some (Expr.isNone (Expr.fCur)) := rfl
theorem ex_27 : exprTable.lookup "item.GetX() > x" = some (Expr.gt (Expr.acc (Acc.getX) (Expr.var "item")) (Expr.var "x")) := rfl
theorem ex_28 : exprTable.lookup "self._RGlobalQueue.IsEmpty()" = some (Expr.call0 (Expr.fGq) "IsEmpty") := rfl
theorem ex_29 : exprTable.lookup "self.__RLocalQueue.IsEmpty()" = some (Expr.call0 (Expr.fLq) "IsEmpty") := rfl
theorem ex_30 : exprTable.lookup "self._RGlobalQueue.GetBestItem()[0]" = some (Expr.idx0 (Expr.call0 (Expr.fGq) "GetBestItem")) := rfl
theorem ex_31 : exprTable.lookup "bestItem[0]" = some (Expr.idx0 (Expr.var "bestItem")) := rfl
theorem ex_32 : exprTable.lookup "bestItem[1] != bestItem[0].globalR" = some (Expr.ne
  (Expr.idx1 (Expr.var "bestItem"))
  (Expr.acc (Acc.globalR) (Expr.idx0 (Expr.var "bestItem")))) := rfl
theorem ex_33 : exprTable.lookup "bestItem[1] != bestItem[0].localR" = some (Expr.ne
  (Expr.idx1 (Expr.var "bestItem"))
  (Expr.acc (Acc.localR) (Expr.idx0 (Expr.var "bestItem")))) := rfl
theorem ex_34 : exprTable.lookup "self.__baseQueue.popfirst()" = some (Expr.qPopfirst) := rfl
theorem ex_35 : exprTable.lookup "self.__baseQueue.is_empty()" = some (Expr.qIsEmpty) := rfl
theorem ex_36 : exprTable.lookup "self.__baseQueue.maxlen" = some (Expr.qMaxlen) := rfl
theorem ex_37 : exprTable.lookup "len(self.__baseQueue)" = some (Expr.qLen) := rfl
theorem ex_38 : exprTable.lookup "len(self._allTrials)" = some (Expr.lenAll) := rfl
theorem ex_39 : exprTable.lookup "self._allTrials[-1]" = some (Expr.lastAll) := rfl
theorem ce_0 : calleeTable.lookup "self.__baseQueue.clear" = some (Callee.qClear) := rfl
theorem ce_1 : calleeTable.lookup "self.__baseQueue.insert" = some (Callee.qInsert) := rfl
theorem ce_2 : calleeTable.lookup "self._RGlobalQueue.Clear" = some (Callee.method (Expr.fGq) "Clear") := rfl
theorem ce_3 : calleeTable.lookup "self._RGlobalQueue.Insert" = some (Callee.method (Expr.fGq) "Insert") := rfl
theorem ce_4 : calleeTable.lookup "self._RGlobalQueue.GetBestItem" = some (Callee.method (Expr.fGq) "GetBestItem") := rfl
theorem ce_5 : calleeTable.lookup "self.__RLocalQueue.Clear" = some (Callee.method (Expr.fLq) "Clear") := rfl
theorem ce_6 : calleeTable.lookup "self.__RLocalQueue.Insert" = some (Callee.method (Expr.fLq) "Insert") := rfl
theorem ce_7 : calleeTable.lookup "self.__RLocalQueue.GetBestItem" = some (Callee.method (Expr.fLq) "GetBestItem") := rfl
theorem ce_8 : calleeTable.lookup "self.FindDataItemByOneDimensionalPoint" = some (Callee.method (Expr.self) "FindDataItemByOneDimensionalPoint") := rfl
theorem ce_9 : calleeTable.lookup "self.RefillQueue" = some (Callee.method (Expr.self) "RefillQueue") := rfl
theorem ce_10 : calleeTable.lookup "self.ClearQueue" = some (Callee.method (Expr.self) "ClearQueue") := rfl
theorem ce_11 : calleeTable.lookup "newDataItem.SetLeft" = some (Callee.setLeft (Expr.var "newDataItem")) := rfl
theorem ce_12 : calleeTable.lookup "rightDataItem.SetLeft" = some (Callee.setLeft (Expr.var "rightDataItem")) := rfl
theorem ce_13 : calleeTable.lookup "newDataItem.SetRight" = some (Callee.setRight (Expr.var "newDataItem")) := rfl
theorem ce_14 : calleeTable.lookup "leftDataItem.SetRight" = some (Callee.setRight (Expr.var "leftDataItem")) := rfl
theorem ce_15 : calleeTable.lookup "newDataItem.GetLeft().SetRight" = some (Callee.setRight (Expr.acc (Acc.getLeft) (Expr.var "newDataItem"))) := rfl
theorem ce_16 : calleeTable.lookup "self._allTrials.append" = some (Callee.append) := rfl
theorem ce_17 : calleeTable.lookup "self.curIter.GetRight" = some (Callee.pure (Expr.acc (Acc.getRight) (Expr.fCur))) := rfl
theorem ce_18 : calleeTable.lookup "print" = some (Callee.print) := rfl
theorem lv_0 : lvalTable.lookup "flag" = some (LVal.loc "flag") := rfl
theorem lv_1 : lvalTable.lookup "rightDataItem" = some (LVal.loc "rightDataItem") := rfl
theorem lv_2 : lvalTable.lookup "tmp" = some (LVal.loc "tmp") := rfl
theorem lv_3 : lvalTable.lookup "bestItem" = some (LVal.loc "bestItem") := rfl
theorem lv_4 : lvalTable.lookup "item" = some (LVal.loc "item") := rfl
theorem lv_5 : lvalTable.lookup "itr" = some (LVal.loc "itr") := rfl
theorem lv_6 : lvalTable.lookup "self.curIter" = some (LVal.cur) := rfl
theorem lv_7 : lvalTable.lookup "self.__firstDataItem" = some (LVal.first) := rfl

theorem rs_gq_Clear (b : Bool) : resolve b .gq "Clear" = some (.cq, characteristicsQueue_ClearParams, characteristicsQueue_Clear) := rfl
theorem rs_lq_Clear (b : Bool) : resolve b .lq "Clear" = some (.cq, characteristicsQueue_ClearParams, characteristicsQueue_Clear) := rfl
theorem rs_gq_Insert (b : Bool) : resolve b .gq "Insert" = some (.cq, characteristicsQueue_InsertParams, characteristicsQueue_Insert) := rfl
theorem rs_lq_Insert (b : Bool) : resolve b .lq "Insert" = some (.cq, characteristicsQueue_InsertParams, characteristicsQueue_Insert) := rfl
theorem rs_gq_GetBestItem (b : Bool) : resolve b .gq "GetBestItem" = some (.cq, characteristicsQueue_GetBestItemParams, characteristicsQueue_GetBestItem) := rfl
theorem rs_lq_GetBestItem (b : Bool) : resolve b .lq "GetBestItem" = some (.cq, characteristicsQueue_GetBestItemParams, characteristicsQueue_GetBestItem) := rfl
theorem rs_gq_IsEmpty (b : Bool) : resolve b .gq "IsEmpty" = some (.cq, characteristicsQueue_IsEmptyParams, characteristicsQueue_IsEmpty) := rfl
theorem rs_lq_IsEmpty (b : Bool) : resolve b .lq "IsEmpty" = some (.cq, characteristicsQueue_IsEmptyParams, characteristicsQueue_IsEmpty) := rfl
theorem rs_gq_GetMaxLen (b : Bool) : resolve b .gq "GetMaxLen" = some (.cq, characteristicsQueue_GetMaxLenParams, characteristicsQueue_GetMaxLen) := rfl
theorem rs_lq_GetMaxLen (b : Bool) : resolve b .lq "GetMaxLen" = some (.cq, characteristicsQueue_GetMaxLenParams, characteristicsQueue_GetMaxLen) := rfl
theorem rs_gq_GetLen (b : Bool) : resolve b .gq "GetLen" = some (.cq, characteristicsQueue_GetLenParams, characteristicsQueue_GetLen) := rfl
theorem rs_lq_GetLen (b : Bool) : resolve b .lq "GetLen" = some (.cq, characteristicsQueue_GetLenParams, characteristicsQueue_GetLen) := rfl
theorem rs_base_ClearQueue : resolve false .sd "ClearQueue" = some (.base, searchData_ClearQueueParams, searchData_ClearQueue) := rfl
theorem rs_base_InsertDataItem : resolve false .sd "InsertDataItem" = some (.base, searchData_InsertDataItemParams, searchData_InsertDataItem) := rfl
theorem rs_sd_InsertFirstDataItem (b : Bool) : resolve b .sd "InsertFirstDataItem" = some (.base, searchData_InsertFirstDataItemParams, searchData_InsertFirstDataItem) := by cases b <;> rfl
theorem rs_sd_FindDataItemByOneDimensionalPoint (b : Bool) : resolve b .sd "FindDataItemByOneDimensionalPoint" = some (.base, searchData_FindDataItemByOneDimensionalPointParams, searchData_FindDataItemByOneDimensionalPoint) := by cases b <;> rfl
theorem rs_base_GetDataItemWithMaxGlobalR : resolve false .sd "GetDataItemWithMaxGlobalR" = some (.base, searchData_GetDataItemWithMaxGlobalRParams, searchData_GetDataItemWithMaxGlobalR) := rfl
theorem rs_base_RefillQueue : resolve false .sd "RefillQueue" = some (.base, searchData_RefillQueueParams, searchData_RefillQueue) := rfl
theorem rs_sd_GetCount (b : Bool) : resolve b .sd "GetCount" = some (.base, searchData_GetCountParams, searchData_GetCount) := by cases b <;> rfl
theorem rs_sd_GetLastItem (b : Bool) : resolve b .sd "GetLastItem" = some (.base, searchData_GetLastItemParams, searchData_GetLastItem) := by cases b <;> rfl
theorem rs_sd_iter (b : Bool) : resolve b .sd "__iter__" = some (.base, searchData_iterParams, searchData_iter) := by cases b <;> rfl
theorem rs_sd_next (b : Bool) : resolve b .sd "__next__" = some (.base, searchData_nextParams, searchData_next) := by cases b <;> rfl
theorem rs_dual_ClearQueue : resolve true .sd "ClearQueue" = some (.dual, searchDataDualQueue_ClearQueueParams, searchDataDualQueue_ClearQueue) := rfl
theorem rs_dual_InsertDataItem : resolve true .sd "InsertDataItem" = some (.dual, searchDataDualQueue_InsertDataItemParams, searchDataDualQueue_InsertDataItem) := rfl
theorem rs_dual_GetDataItemWithMaxGlobalR : resolve true .sd "GetDataItemWithMaxGlobalR" = some (.dual, searchDataDualQueue_GetDataItemWithMaxGlobalRParams, searchDataDualQueue_GetDataItemWithMaxGlobalR) := rfl
theorem rs_dual_GetDataItemWithMaxLocalR : resolve true .sd "GetDataItemWithMaxLocalR" = some (.dual, searchDataDualQueue_GetDataItemWithMaxLocalRParams, searchDataDualQueue_GetDataItemWithMaxLocalR) := rfl
theorem rs_dual_RefillQueue : resolve true .sd "RefillQueue" = some (.dual, searchDataDualQueue_RefillQueueParams, searchDataDualQueue_RefillQueue) := rfl

@[simp] theorem toOpt_ofOpt {χ κ : Type} (o : Option Nat) : (Val.ofOpt o : Val χ κ).toOpt = some o := by cases o <;> rfl
theorem toOpt_ref {χ κ : Type} (i : Nat) : (Val.ref i : Val χ κ).toOpt = some (some i) := rfl
theorem toOpt_none {χ κ : Type} : (Val.none : Val χ κ).toOpt = some none := rfl
theorem ofOpt_some {χ κ : Type} (i : Nat) : (Val.ofOpt (some i) : Val χ κ) = .ref i := rfl
theorem ofOpt_none {χ κ : Type} : (Val.ofOpt none : Val χ κ) = .none := rfl

theorem envN_succ {χ κ : Type} (c : Ctx χ κ) (d : Nat) (o : Obj) (m : String) (args : List (Val χ κ)) (g : Heap χ κ) :
    envN c (d+1) o m args g =
      match resolve g.s.dual o m with
      | none => .stuck
      | some (cls, params, body) => runBody c (envN c d) { cls := cls, self := o } params body args g := rfl

/-- symbolic execution of the interpreter: unfold one layer, look the strings up -/
syntax "sd_simp" (" [" Lean.Parser.Tactic.simpLemma,* "]")? (Lean.Parser.Tactic.location)? : tactic
macro_rules
  | `(tactic| sd_simp $[[$xs,*]]? $[$loc]?) => do
    let xs : Array (Lean.TSyntax `Lean.Parser.Tactic.simpLemma) := match xs with | some xs => xs.getElems | none => #[]
    `(tactic| simp only [runBody, bindParams, execList, execStmt, evalCallee, evalArgs, evalExpr, bindTargets, assignLVal,
      setLink, readAcc, MOut.toEOut, Frame.isSd, Heap.queue, Heap.setQueue, toOpt_ofOpt, toOpt_ref, toOpt_none, ofOpt_some, ofOpt_none,
      List.length_cons, List.length_nil, ↓reduceIte, List.zip_cons_cons, List.zip_nil_right, List.zip_nil_left, List.lookup_cons,
      List.lookup_nil, String.reduceBEq, beq_self_eq_true, Bool.and_self, Bool.and_true, Bool.true_and, and_self, and_true, true_and,
      bne_iff_ne, ne_eq, reduceCtorEq, not_false_eq_true, decide_true, decide_false, Bool.not_eq_true, Bool.false_eq_true,
      ex_0, ex_1, ex_2, ex_3, ex_4, ex_5, ex_6, ex_7, ex_8, ex_9, ex_10, ex_11, ex_12, ex_13, ex_14, ex_15, ex_16, ex_17, ex_18, ex_19, ex_20, ex_21, ex_22, ex_23, ex_24, ex_25, ex_26, ex_27, ex_28, ex_29, ex_30, ex_31, ex_32, ex_33, ex_34, ex_35, ex_36, ex_37, ex_38, ex_39, ce_0, ce_1, ce_2, ce_3, ce_4, ce_5, ce_6, ce_7, ce_8, ce_9, ce_10, ce_11, ce_12, ce_13, ce_14, ce_15, ce_16, ce_17, ce_18, lv_0, lv_1, lv_2, lv_3, lv_4, lv_5, lv_6, lv_7, rs_gq_Clear, rs_lq_Clear, rs_gq_Insert, rs_lq_Insert, rs_gq_GetBestItem, rs_lq_GetBestItem, rs_gq_IsEmpty, rs_lq_IsEmpty, rs_gq_GetMaxLen, rs_lq_GetMaxLen, rs_gq_GetLen, rs_lq_GetLen, rs_base_ClearQueue, rs_base_InsertDataItem, rs_sd_InsertFirstDataItem, rs_sd_FindDataItemByOneDimensionalPoint, rs_base_GetDataItemWithMaxGlobalR, rs_base_RefillQueue, rs_sd_GetCount, rs_sd_GetLastItem, rs_sd_iter, rs_sd_next, rs_dual_ClearQueue, rs_dual_InsertDataItem, rs_dual_GetDataItemWithMaxGlobalR, rs_dual_GetDataItemWithMaxLocalR, rs_dual_RefillQueue, $xs,*] $[$loc]?)

section
variable {χ κ : Type}

/-! ### the methods of `CharacteristicsQueue` are the DEPQ contract -/

theorem cq_Insert_gq (c : Ctx χ κ) (d : Nat) (k : κ) (i : Nat) (g : Heap χ κ) :
    envN c (d+1) .gq "Insert" [.key k, .ref i] g =
      .done { g with s := { g.s with gq := qinsert c.le g.s.maxlen k i g.s.gq } } .none := by
  rw [envN_succ]
  sd_simp [characteristicsQueue_InsertParams, characteristicsQueue_Insert]

theorem cq_Insert_lq (c : Ctx χ κ) (d : Nat) (k : κ) (i : Nat) (g : Heap χ κ) :
    envN c (d+1) .lq "Insert" [.key k, .ref i] g =
      .done { g with s := { g.s with lq := qinsert c.le g.s.maxlen k i g.s.lq } } .none := by
  rw [envN_succ]
  sd_simp [characteristicsQueue_InsertParams, characteristicsQueue_Insert]

theorem cq_Clear_gq (c : Ctx χ κ) (d : Nat) (g : Heap χ κ) :
    envN c (d+1) .gq "Clear" [] g = .done { g with s := { g.s with gq := [] } } .none := by
  rw [envN_succ]
  sd_simp [characteristicsQueue_ClearParams, characteristicsQueue_Clear]

theorem cq_Clear_lq (c : Ctx χ κ) (d : Nat) (g : Heap χ κ) :
    envN c (d+1) .lq "Clear" [] g = .done { g with s := { g.s with lq := [] } } .none := by
  rw [envN_succ]
  sd_simp [characteristicsQueue_ClearParams, characteristicsQueue_Clear]

theorem cq_IsEmpty_gq (c : Ctx χ κ) (d : Nat) (g : Heap χ κ) :
    envN c (d+1) .gq "IsEmpty" [] g = .done g (.bool g.s.gq.isEmpty) := by
  rw [envN_succ]
  sd_simp [characteristicsQueue_IsEmptyParams, characteristicsQueue_IsEmpty]

theorem cq_IsEmpty_lq (c : Ctx χ κ) (d : Nat) (g : Heap χ κ) :
    envN c (d+1) .lq "IsEmpty" [] g = .done g (.bool g.s.lq.isEmpty) := by
  rw [envN_succ]
  sd_simp [characteristicsQueue_IsEmptyParams, characteristicsQueue_IsEmpty]

theorem cq_GetBestItem_gq (c : Ctx χ κ) (d : Nat) (g : Heap χ κ) :
    envN c (d+1) .gq "GetBestItem" [] g =
      match g.s.gq with
      | [] => .raised g .indexError
      | (k, i) :: t => .done { g with s := { g.s with gq := t } } (.pair i k) := by
  rw [envN_succ]
  sd_simp [characteristicsQueue_GetBestItemParams, characteristicsQueue_GetBestItem]
  cases g.s.gq with
  | nil => rfl
  | cons e t => obtain ⟨k, i⟩ := e; rfl

theorem cq_GetBestItem_lq (c : Ctx χ κ) (d : Nat) (g : Heap χ κ) :
    envN c (d+1) .lq "GetBestItem" [] g =
      match g.s.lq with
      | [] => .raised g .indexError
      | (k, i) :: t => .done { g with s := { g.s with lq := t } } (.pair i k) := by
  rw [envN_succ]
  sd_simp [characteristicsQueue_GetBestItemParams, characteristicsQueue_GetBestItem]
  cases g.s.lq with
  | nil => rfl
  | cons e t => obtain ⟨k, i⟩ := e; rfl

theorem cq_GetLen_gq (c : Ctx χ κ) (d : Nat) (g : Heap χ κ) :
    envN c (d+1) .gq "GetLen" [] g = .done g (.nat g.s.gq.length) := by
  rw [envN_succ]
  sd_simp [characteristicsQueue_GetLenParams, characteristicsQueue_GetLen]

theorem cq_GetMaxLen_gq (c : Ctx χ κ) (d : Nat) (g : Heap χ κ) :
    envN c (d+1) .gq "GetMaxLen" [] g = .done g (match g.s.maxlen with | some n => .nat n | none => .none) := by
  rw [envN_succ]
  sd_simp [characteristicsQueue_GetMaxLenParams, characteristicsQueue_GetMaxLen]
  rfl

/-! ### the iterator protocol of `SearchData` -/

theorem sd_iter (c : Ctx χ κ) (d : Nat) (g : Heap χ κ) :
    envN c (d+1) .sd "__iter__" [] g =
      match g.s.first with
      | none => .raised { g with cur := none } .stopIteration
      | some i => .done { g with cur := some i } (.obj .sd) := by
  rw [envN_succ]
  sd_simp [searchData_iterParams, searchData_iter, otherTable]
  cases hf : g.s.first <;> sd_simp [hf]

theorem sd_next (c : Ctx χ κ) (d : Nat) (g : Heap χ κ) :
    envN c (d+1) .sd "__next__" [] g =
      match g.cur with
      | none => .raised g .stopIteration
      | some i =>
        match g.s.trials[i]? with
        | some it => .done { g with cur := it.right } (.ref i)
        | none => .stuck := by
  rw [envN_succ]
  sd_simp [searchData_nextParams, searchData_next, otherTable]
  cases hc : g.cur with
  | none => sd_simp [hc]
  | some i =>
    sd_simp [hc]
    cases ht : g.s.trials[i]? with
    | none => sd_simp [ht]
    | some it => sd_simp [ht]

end

section
variable {χ κ : Type}

/-! ### closure: no dangling references -/

/-- `o` is `None` or one of the first `N` heap objects -/
def InR (N : Nat) (o : Option Nat) : Prop := ∀ i, o = some i → i < N

/-- the first `N` heap objects exist and their links stay among them -/
def ClosedA (tr : Array (Item χ κ)) (N : Nat) : Prop :=
  N ≤ tr.size ∧ ∀ j it, j < N → tr[j]? = some it → InR N it.left ∧ InR N it.right

/-- a container without dangling references: `first` and every `left` / `right` is `None` or an item of `trials`
(every object graph that Python can build is closed) -/
def Closed (s : State χ κ) : Prop := InR s.trials.size s.first ∧ ClosedA s.trials s.trials.size

theorem InR_none (N : Nat) : InR N none := by intro i h; cases h

theorem ClosedA.get {tr : Array (Item χ κ)} {N : Nat} (h : ClosedA tr N) {i : Nat} (hi : i < N) :
    ∃ it, tr[i]? = some it ∧ InR N it.left ∧ InR N it.right := by
  have hs : i < tr.size := Nat.lt_of_lt_of_le hi h.1
  exact ⟨tr[i], Array.getElem?_eq_getElem hs, h.2 i _ hi (Array.getElem?_eq_getElem hs)⟩

/-! ### `FindDataItemByOneDimensionalPoint` -/

/-- the test of the model's `find` -/
def gtP (c : Ctx χ κ) (s : State χ κ) (x : χ) (i : Nat) : Bool :=
  match s.trials[i]? with
  | some it => c.lt x it.x
  | none => false

theorem find_eq_gtP (c : Ctx χ κ) (s : State χ κ) (x : χ) : SD.find c.lt s x = (traversal s).find? (gtP c s x) := rfl

/-- the body of the loop of `FindDataItemByOneDimensionalPoint` -/
def findBody : List Stmt := [.ite "item.GetX() > x" [.ret "item"] []]

theorem find_shape : searchData_FindDataItemByOneDimensionalPoint = [.forEach "item" "self" findBody, .ret "None"] := rfl

/-- what `__next__` does (`sd_next`) -/
def NextSpec (next : Heap χ κ → MOut χ κ) : Prop :=
  ∀ h, next h =
    match h.cur with
    | none => .raised h .stopIteration
    | some i =>
      match h.s.trials[i]? with
      | some it => .done { h with cur := it.right } (.ref i)
      | none => .stuck

theorem nextSpec_envN (c : Ctx χ κ) (d : Nat) : NextSpec (fun h => envN c (d+1) .sd "__next__" [] h) := fun h => sd_next c d h

theorem findBody_spec (c : Ctx χ κ) (env : MEnv χ κ) (fr : Frame) (x : χ) (g : Heap χ κ) (l : Locals χ κ) (i : Nat)
    (it : Item χ κ) (hit : g.s.trials[i]? = some it) (hx : l.lookup "x" = some (.coord x)) :
    execList c env fr findBody ⟨g, ("item", .ref i) :: l⟩ =
      if c.lt x it.x then .returned ⟨g, ("item", .ref i) :: l⟩ (.ref i) else .normal ⟨g, ("item", .ref i) :: l⟩ := by
  cases hlt : c.lt x it.x <;> sd_simp [findBody, hit, hx, hlt]

theorem find_loop (c : Ctx χ κ) (N : Nat) (x : χ) (next : Heap χ κ → MOut χ κ) (body : IState χ κ → Out χ κ)
    (hnext : NextSpec next)
    (hbody : ∀ g l i it, g.s.trials[i]? = some it → l.lookup "x" = some (.coord x) →
      body ⟨g, ("item", .ref i) :: l⟩ =
        if c.lt x it.x then .returned ⟨g, ("item", .ref i) :: l⟩ (.ref i) else .normal ⟨g, ("item", .ref i) :: l⟩) :
    ∀ (n : Nat) (s : State χ κ) (na : Nat) (l : Locals χ κ) (o : Option Nat), InR N o → ClosedA s.trials N →
      l.lookup "x" = some (.coord x) →
      ∃ cur' l', iterLoop n next body "item" ⟨⟨s, na, o⟩, l⟩ =
        match (walk s n o).find? (gtP c s x) with
        | some i => .returned ⟨⟨s, na, cur'⟩, l'⟩ (.ref i)
        | none => .normal ⟨⟨s, na, cur'⟩, l'⟩ := by
  intro n
  unfold NextSpec at hnext
  induction n with
  | zero =>
    intro s na l o _ _ _
    refine ⟨o, l, ?_⟩
    cases o <;> simp only [iterLoop, walk, List.find?_nil]
  | succ n ih =>
    intro s na l o ho hcl hx
    cases o with
    | none =>
      refine ⟨none, l, ?_⟩
      simp only [iterLoop, hnext, walk, List.find?_nil]
    | some i =>
      obtain ⟨it, hit, -, hr⟩ := hcl.get (ho i rfl)
      have hb : gtP c s x i = c.lt x it.x := by simp only [gtP, hit]
      simp only [iterLoop, hnext, hit, walk, List.find?_cons, hb, Option.bind_some, hbody ⟨s, na, it.right⟩ l i it hit hx]
      cases hlt : c.lt x it.x with
      | true => exact ⟨it.right, ("item", .ref i) :: l, rfl⟩
      | false =>
        obtain ⟨cur', l', h⟩ := ih s na (("item", .ref i) :: l) it.right hr hcl
          (by simp only [List.lookup_cons, String.reduceBEq, hx])
        refine ⟨cur', l', ?_⟩
        simp only [Bool.false_eq_true, ↓reduceIte]
        exact h

/-- **`FindDataItemByOneDimensionalPoint`, source tree, on any closed heap**: `StopIteration` (out of `__iter__`) on an empty
container, otherwise the first item of the walk (cut at `ifuel` items) whose coordinate is `> x`, or `None` -/
theorem find_call (c : Ctx χ κ) (d N : Nat) (x : χ) (s : State χ κ) (na : Nat) (cu : Option Nat) (hf : InR N s.first)
    (hcl : ClosedA s.trials N) :
    ∃ cur', envN c (d+2) .sd "FindDataItemByOneDimensionalPoint" [.coord x] ⟨s, na, cu⟩ =
      match s.first with
      | none => .raised ⟨s, na, none⟩ .stopIteration
      | some _ => .done ⟨s, na, cur'⟩ (.ofOpt ((walk s c.ifuel s.first).find? (gtP c s x))) := by
  cases hfi : s.first with
  | none =>
    refine ⟨none, ?_⟩
    rw [envN_succ, rs_sd_FindDataItemByOneDimensionalPoint, find_shape]
    sd_simp [searchData_FindDataItemByOneDimensionalPointParams, sd_iter, hfi]
  | some i0 =>
    obtain ⟨cur', l', h⟩ := find_loop c N x _ _ (nextSpec_envN c d)
      (fun g l i it h1 h2 => findBody_spec c (envN c (d+1)) { cls := .base, self := .sd } x g l i it h1 h2) c.ifuel s na
      [("self", .obj .sd), ("x", .coord x)] (some i0) (hfi ▸ hf) hcl (by simp only [List.lookup_cons, String.reduceBEq])
    refine ⟨cur', ?_⟩
    rw [envN_succ, rs_sd_FindDataItemByOneDimensionalPoint, find_shape]
    simp only [runBody, bindParams, searchData_FindDataItemByOneDimensionalPointParams, List.length_cons, List.length_nil,
      ↓reduceIte, List.zip_cons_cons, List.zip_nil_right, execList, execStmt, lv_4, ex_14, evalExpr, sd_iter, hfi, h]
    cases (walk s c.ifuel (some i0)).find? (gtP c s x) <;> sd_simp


/-! ### the pointer writes and the queue inserts of `InsertDataItem` -/

theorem modify_push_size {α : Type} (tr : Array α) (a : α) (f : α → α) : (tr.push a).modify tr.size f = tr.push (f a) := by
  apply Array.ext
  · simp
  · intro i h1 h2
    simp only [Array.getElem_modify, Array.getElem_push]
    simp only [Array.size_push] at h2
    by_cases h : i < tr.size
    · have : ¬ tr.size = i := by omega
      simp [h, this]
    · have : tr.size = i := by omega
      simp [this]

theorem modify_push_lt {α : Type} (tr : Array α) (a : α) (f : α → α) (i : Nat) (h : i < tr.size) :
    (tr.push a).modify i f = (tr.modify i f).push a := by
  apply Array.ext
  · simp
  · intro j h1 h2
    simp only [Array.getElem_modify, Array.getElem_push, Array.size_modify]
    by_cases hj : j < tr.size
    · simp [hj]
    · have : ¬ i = j := by omega
      simp [hj, this]

theorem setLeft_size (s : State χ κ) (i : Nat) (v : Option Nat) : (setLeft s i v).trials.size = s.trials.size := by
  simp [setLeft]
theorem setRight_size (s : State χ κ) (i : Nat) (v : Option Nat) : (setRight s i v).trials.size = s.trials.size := by
  simp [setRight]

theorem setLeft_get (s : State χ κ) (i j : Nat) (v : Option Nat) :
    (setLeft s i v).trials[j]? = if i = j then (s.trials[j]?).map (fun it => { it with left := v }) else s.trials[j]? := by
  simp [setLeft, Array.getElem?_modify]
theorem setRight_get (s : State χ κ) (i j : Nat) (v : Option Nat) :
    (setRight s i v).trials[j]? = if i = j then (s.trials[j]?).map (fun it => { it with right := v }) else s.trials[j]? := by
  simp [setRight, Array.getElem?_modify]

/-- the four pointer writes and the `append` of `InsertDataItem` (shared by both classes) -/
def links5 : List Stmt := [
    .call [] "newDataItem.SetLeft" ["rightDataItem.GetLeft()"],
    .call [] "rightDataItem.SetLeft" ["newDataItem"],
    .call [] "newDataItem.SetRight" ["rightDataItem"],
    .call [] "newDataItem.GetLeft().SetRight" ["newDataItem"],
    .call [] "self._allTrials.append" ["newDataItem"]]

theorem links_spec (c : Ctx χ κ) (env : MEnv χ κ) (cls : Cls) (hcls : cls = .base ∨ cls = .dual) (s : State χ κ) (cu : Option Nat)
    (l : Locals χ κ) (ni r : Nat) (rit nit : Item χ κ)
    (hn : l.lookup "newDataItem" = some (.ref ni)) (hr : l.lookup "rightDataItem" = some (.ref r))
    (hne : r ≠ ni) (h0r : s.trials[r]? = some rit) (h0n : s.trials[ni]? = some nit) :
    execList c env ⟨cls, .sd⟩ links5 ⟨⟨s, ni, cu⟩, l⟩ =
      match rit.left with
      | none => .raised ⟨⟨setRight (setLeft (setLeft s ni rit.left) r (some ni)) ni (some r), ni, cu⟩, l⟩ .attributeError
      | some lf =>
        if lf < s.trials.size then
          .normal ⟨⟨setRight (setRight (setLeft (setLeft s ni rit.left) r (some ni)) ni (some r)) lf (some ni), ni + 1, cu⟩, l⟩
        else .stuck := by
  have hni : ni < s.trials.size := by
    by_contra h
    rw [Array.getElem?_eq_none (by omega)] at h0n
    cases h0n
  have hrs : r < s.trials.size := by
    by_contra h
    rw [Array.getElem?_eq_none (by omega)] at h0r
    cases h0r
  have e3 : (setRight (setLeft (setLeft s ni rit.left) r (some ni)) ni (some r)).trials[ni]? =
      some { nit with left := rit.left, right := some r } := by
    simp [setRight_get, setLeft_get, hne, h0n]
  rcases hcls with rfl | rfl <;>
  · sd_simp [links5, hn, hr, h0r, hni, hrs, setLeft_size, setRight_size, e3]
    cases hl : rit.left with
    | none => sd_simp
    | some lf =>
      by_cases hlf : lf < s.trials.size
      · sd_simp [hn, hlf, hni, setLeft_size, setRight_size]
      · sd_simp [hlf, setLeft_size, setRight_size]

theorem links_none (c : Ctx χ κ) (env : MEnv χ κ) (cls : Cls) (g : Heap χ κ)
    (l : Locals χ κ) (ni : Nat)
    (hn : l.lookup "newDataItem" = some (.ref ni)) (hr : l.lookup "rightDataItem" = some .none) :
    execList c env ⟨cls, .sd⟩ links5 ⟨g, l⟩ = .raised ⟨g, l⟩ .attributeError := by
  sd_simp [links5, hn, hr]

/-- the queue part of `SearchData.InsertDataItem` -/
def qsBase : List Stmt := [
    .call [] "self._RGlobalQueue.Insert" ["newDataItem.globalR", "newDataItem"],
    .ite "flag" [
      .call [] "self._RGlobalQueue.Insert" ["rightDataItem.globalR", "rightDataItem"]] []]

/-- the queue part of `SearchDataDualQueue.InsertDataItem` -/
def qsDual : List Stmt := [
    .call [] "self._RGlobalQueue.Insert" ["newDataItem.globalR", "newDataItem"],
    .call [] "self.__RLocalQueue.Insert" ["newDataItem.localR", "newDataItem"],
    .ite "flag" [
      .call [] "self._RGlobalQueue.Insert" ["rightDataItem.globalR", "rightDataItem"],
      .call [] "self.__RLocalQueue.Insert" ["rightDataItem.localR", "rightDataItem"]] []]

/-- the queue after `Insert(new)` and, when `f`, `Insert(right)` -/
def insQ2 (c : Ctx χ κ) (m : Option Nat) (f : Bool) (kn : κ) (ni : Nat) (kr : κ) (r : Nat) (q : List (κ × Nat)) :
    List (κ × Nat) :=
  if f then qinsert c.le m kr r (qinsert c.le m kn ni q) else qinsert c.le m kn ni q

theorem qsBase_spec (c : Ctx χ κ) (d : Nat) (s : State χ κ) (na : Nat) (cu : Option Nat)
    (l : Locals χ κ) (ni r : Nat) (f : Bool) (rit nit : Item χ κ)
    (hn : l.lookup "newDataItem" = some (.ref ni)) (hr : l.lookup "rightDataItem" = some (.ref r))
    (hf : l.lookup "flag" = some (.bool f))
    (h0r : s.trials[r]? = some rit) (h0n : s.trials[ni]? = some nit) :
    execList c (envN c (d+1)) ⟨.base, .sd⟩ qsBase ⟨⟨s, na, cu⟩, l⟩ =
      .normal ⟨⟨{ s with gq := insQ2 c s.maxlen f nit.globalR ni rit.globalR r s.gq }, na, cu⟩, l⟩ := by
  cases f <;> sd_simp [qsBase, hn, hr, hf, h0r, h0n, cq_Insert_gq, insQ2]

theorem qsDual_spec (c : Ctx χ κ) (d : Nat) (s : State χ κ) (na : Nat) (cu : Option Nat)
    (l : Locals χ κ) (ni r : Nat) (f : Bool) (rit nit : Item χ κ)
    (hn : l.lookup "newDataItem" = some (.ref ni)) (hr : l.lookup "rightDataItem" = some (.ref r))
    (hf : l.lookup "flag" = some (.bool f))
    (h0r : s.trials[r]? = some rit) (h0n : s.trials[ni]? = some nit) :
    execList c (envN c (d+1)) ⟨.dual, .sd⟩ qsDual ⟨⟨s, na, cu⟩, l⟩ =
      .normal ⟨⟨{ s with gq := insQ2 c s.maxlen f nit.globalR ni rit.globalR r s.gq,
                         lq := insQ2 c s.maxlen f nit.localR ni rit.localR r s.lq }, na, cu⟩, l⟩ := by
  cases f <;> sd_simp [qsDual, hn, hr, hf, h0r, h0n, cq_Insert_gq, cq_Insert_lq, insQ2]

/-- the prologue of `InsertDataItem` (shared by both classes) -/
def pre2 : List Stmt := [
    .assign "flag" "True",
    .ite "rightDataItem is None" [
      .call ["rightDataItem"] "self.FindDataItemByOneDimensionalPoint" ["newDataItem.GetX()"],
      .assign "flag" "False"] []]

theorem insert_shape : searchData_InsertDataItem = pre2 ++ (links5 ++ qsBase) := rfl
theorem insertDual_shape : searchDataDualQueue_InsertDataItem = pre2 ++ (links5 ++ qsDual) := rfl

theorem execList_append (c : Ctx χ κ) (env : MEnv χ κ) (fr : Frame) (a b : List Stmt) (st : IState χ κ) :
    execList c env fr (a ++ b) st =
      match execList c env fr a st with
      | .normal st' => execList c env fr b st'
      | o => o := by
  induction a generalizing st with
  | nil => simp only [List.nil_append, execList]
  | cons x a ih =>
    simp only [List.cons_append, execList]
    cases execStmt c env fr x st with
    | normal st' => exact ih st'
    | returned st' v => rfl
    | raised st' e => rfl
    | stuck => rfl
    | outOfFuel => rfl

/-- the locals after the prologue -/
def insLocals (ni : Nat) (r : Option Nat) (f : Bool) (l0 : Locals χ κ) : Prop :=
  l0.lookup "newDataItem" = some (.ref ni) ∧ l0.lookup "rightDataItem" = some (.ofOpt r) ∧ l0.lookup "flag" = some (.bool f)

/-- the prologue with a hint -/
theorem pre2_hint (c : Ctx χ κ) (env : MEnv χ κ) (cls : Cls) (g : Heap χ κ) (ni h : Nat) :
    ∃ l', execList c env ⟨cls, .sd⟩ pre2 ⟨g, [("self", .obj .sd), ("newDataItem", .ref ni), ("rightDataItem", .ref h)]⟩ =
      .normal ⟨g, l'⟩ ∧ insLocals ni (some h) true l' := by
  refine ⟨("flag", .bool true) :: [("self", .obj .sd), ("newDataItem", .ref ni), ("rightDataItem", .ref h)], ?_, ?_⟩
  · sd_simp [pre2]
  · simp only [insLocals, List.lookup_cons, String.reduceBEq, ofOpt_some, and_self]

/-- the prologue without a hint on an empty container: `StopIteration` out of `FindDataItemByOneDimensionalPoint` -/
theorem pre2_empty (c : Ctx χ κ) (d : Nat) (cls : Cls) (s : State χ κ) (na : Nat)
    (cu : Option Nat) (ni : Nat) (nit : Item χ κ) (h0n : s.trials[ni]? = some nit) (hfi : s.first = none) :
    ∃ l', execList c (envN c (d+2)) ⟨cls, .sd⟩ pre2
        ⟨⟨s, na, cu⟩, [("self", .obj .sd), ("newDataItem", .ref ni), ("rightDataItem", .none)]⟩ =
      .raised ⟨⟨s, na, none⟩, l'⟩ .stopIteration := by
  obtain ⟨cur', hfc⟩ := find_call c d 0 nit.x s na cu (by rw [hfi]; exact InR_none 0)
    ⟨Nat.zero_le _, fun j it hj => absurd hj (Nat.not_lt_zero j)⟩
  rw [hfi] at hfc
  refine ⟨("flag", .bool true) :: [("self", .obj .sd), ("newDataItem", .ref ni), ("rightDataItem", .none)], ?_⟩
  sd_simp [pre2, h0n, hfc]

/-- the prologue without a hint: `FindDataItemByOneDimensionalPoint(newDataItem.GetX())` -/
theorem pre2_find (c : Ctx χ κ) (d N : Nat) (cls : Cls) (s : State χ κ) (na : Nat)
    (cu : Option Nat) (ni : Nat) (nit : Item χ κ) (h0n : s.trials[ni]? = some nit)
    (hf : InR N s.first) (hcl : ClosedA s.trials N) (i0 : Nat) (hfi : s.first = some i0) :
    ∃ cur' l', execList c (envN c (d+2)) ⟨cls, .sd⟩ pre2
        ⟨⟨s, na, cu⟩, [("self", .obj .sd), ("newDataItem", .ref ni), ("rightDataItem", .none)]⟩ =
      .normal ⟨⟨s, na, cur'⟩, l'⟩ ∧ insLocals ni ((walk s c.ifuel s.first).find? (gtP c s nit.x)) false l' := by
  obtain ⟨cur', hfc⟩ := find_call c d N nit.x s na cu hf hcl
  rw [hfi] at hfc
  refine ⟨cur', ("flag", .bool false) :: ("rightDataItem", .ofOpt ((walk s c.ifuel (some i0)).find? (gtP c s nit.x))) ::
    ("flag", .bool true) :: [("self", .obj .sd), ("newDataItem", .ref ni), ("rightDataItem", .none)], ?_, ?_⟩
  · sd_simp [pre2, h0n, hfc]
  · simp only [insLocals, List.lookup_cons, String.reduceBEq, and_self, hfi]

theorem modify_push_size' {α : Type} (tr : Array α) (a : α) (f : α → α) (n : Nat) (h : n = tr.size) :
    (tr.push a).modify n f = tr.push (f a) := by subst h; exact modify_push_size tr a f

/-- the three writes that touch the new item, on the heap with the pending item, are the model's `s2` -/
theorem chain_eq (s : State χ κ) (new : Item χ κ) (L : Option Nat) (r : Nat) (hr : r < s.trials.size) :
    setRight (setLeft (setLeft { s with trials := s.trials.push new } s.trials.size L) r (some s.trials.size))
        s.trials.size (some r) =
      setLeft { s with trials := s.trials.push { new with left := L, right := some r } } r (some s.trials.size) := by
  simp only [setLeft, setRight]
  congr 1
  rw [modify_push_size, modify_push_lt _ _ _ _ hr, modify_push_size' _ _ _ _ (by simp), modify_push_lt _ _ _ _ hr]

theorem push_get_lt {α : Type} (tr : Array α) (a : α) (i : Nat) (h : i < tr.size) : (tr.push a)[i]? = tr[i]? := by
  simp [Array.getElem?_push, Nat.ne_of_lt h]

theorem insert_tail_base (c : Ctx χ κ) (d : Nat) (s : State χ κ) (new : Item χ κ) (cu : Option Nat) (l : Locals χ κ)
    (r : Nat) (f : Bool) (rit : Item χ κ) (hl : insLocals s.trials.size (some r) f l)
    (hrit : s.trials[r]? = some rit) (hL : InR s.trials.size rit.left) :
    ∃ g', execList c (envN c (d+1)) ⟨.base, .sd⟩ (links5 ++ qsBase)
        ⟨⟨{ s with trials := s.trials.push new }, s.trials.size, cu⟩, l⟩ =
      match rit.left with
      | none => .raised ⟨g', l⟩ .attributeError
      | some lf =>
        .normal ⟨⟨{ setRight (setLeft { s with trials := s.trials.push { new with left := some lf, right := some r } }
                      r (some s.trials.size)) lf (some s.trials.size) with
                    gq := insQ2 c s.maxlen f new.globalR s.trials.size rit.globalR r s.gq }, s.trials.size + 1, cu⟩, l⟩ := by
  obtain ⟨hn, hr, hf⟩ := hl
  have hrs : r < s.trials.size := by
    by_contra h
    rw [Array.getElem?_eq_none (by omega)] at hrit
    cases hrit
  have hne : r ≠ s.trials.size := Nat.ne_of_lt hrs
  have h0r : ({ s with trials := s.trials.push new } : State χ κ).trials[r]? = some rit := by
    simp only [push_get_lt _ _ _ hrs, hrit]
  have h0n : ({ s with trials := s.trials.push new } : State χ κ).trials[s.trials.size]? = some new := by
    simp
  rw [execList_append, links_spec c _ .base (Or.inl rfl) _ cu l _ r rit new hn hr hne h0r h0n]
  cases hlf : rit.left with
  | none => exact ⟨_, rfl⟩
  | some lf =>
    refine ⟨⟨s, 0, none⟩, ?_⟩
    have hlf' : lf < s.trials.size := hL lf hlf
    have hlt : lf < ({ s with trials := s.trials.push new } : State χ κ).trials.size := by
      simp only [Array.size_push]; omega
    simp only [hlt, ↓reduceIte, chain_eq s new (some lf) r hrs]
    have hlne : lf ≠ s.trials.size := Nat.ne_of_lt hlf'
    have e4n : (setRight (setLeft { s with trials := s.trials.push { new with left := some lf, right := some r } }
        r (some s.trials.size)) lf (some s.trials.size)).trials[s.trials.size]? =
        some { new with left := some lf, right := some r } := by
      simp [setRight_get, setLeft_get, hlne, hne]
    by_cases hlr : lf = r
    · have e4r : (setRight (setLeft { s with trials := s.trials.push { new with left := some lf, right := some r } }
          r (some s.trials.size)) lf (some s.trials.size)).trials[r]? =
          some { rit with left := some s.trials.size, right := some s.trials.size } := by
        simp [setRight_get, setLeft_get, hlr, push_get_lt _ _ _ hrs, hrit]
      rw [qsBase_spec c d _ _ cu l _ r f _ _ hn hr hf e4r e4n]
      rfl
    · have e4r : (setRight (setLeft { s with trials := s.trials.push { new with left := some lf, right := some r } }
          r (some s.trials.size)) lf (some s.trials.size)).trials[r]? =
          some { rit with left := some s.trials.size } := by
        simp [setRight_get, setLeft_get, hlr, push_get_lt _ _ _ hrs, hrit]
      rw [qsBase_spec c d _ _ cu l _ r f _ _ hn hr hf e4r e4n]
      rfl
theorem insert_tail_dual (c : Ctx χ κ) (d : Nat) (s : State χ κ) (new : Item χ κ) (cu : Option Nat) (l : Locals χ κ)
    (r : Nat) (f : Bool) (rit : Item χ κ) (hl : insLocals s.trials.size (some r) f l)
    (hrit : s.trials[r]? = some rit) (hL : InR s.trials.size rit.left) :
    ∃ g', execList c (envN c (d+1)) ⟨.dual, .sd⟩ (links5 ++ qsDual)
        ⟨⟨{ s with trials := s.trials.push new }, s.trials.size, cu⟩, l⟩ =
      match rit.left with
      | none => .raised ⟨g', l⟩ .attributeError
      | some lf =>
        .normal ⟨⟨{ setRight (setLeft { s with trials := s.trials.push { new with left := some lf, right := some r } }
                      r (some s.trials.size)) lf (some s.trials.size) with
                    gq := insQ2 c s.maxlen f new.globalR s.trials.size rit.globalR r s.gq,
                    lq := insQ2 c s.maxlen f new.localR s.trials.size rit.localR r s.lq }, s.trials.size + 1, cu⟩, l⟩ := by
  obtain ⟨hn, hr, hf⟩ := hl
  have hrs : r < s.trials.size := by
    by_contra h
    rw [Array.getElem?_eq_none (by omega)] at hrit
    cases hrit
  have hne : r ≠ s.trials.size := Nat.ne_of_lt hrs
  have h0r : ({ s with trials := s.trials.push new } : State χ κ).trials[r]? = some rit := by
    simp only [push_get_lt _ _ _ hrs, hrit]
  have h0n : ({ s with trials := s.trials.push new } : State χ κ).trials[s.trials.size]? = some new := by
    simp
  rw [execList_append, links_spec c _ .dual (Or.inr rfl) _ cu l _ r rit new hn hr hne h0r h0n]
  cases hlf : rit.left with
  | none => exact ⟨_, rfl⟩
  | some lf =>
    refine ⟨⟨s, 0, none⟩, ?_⟩
    have hlf' : lf < s.trials.size := hL lf hlf
    have hlt : lf < ({ s with trials := s.trials.push new } : State χ κ).trials.size := by
      simp only [Array.size_push]; omega
    simp only [hlt, ↓reduceIte, chain_eq s new (some lf) r hrs]
    have hlne : lf ≠ s.trials.size := Nat.ne_of_lt hlf'
    have e4n : (setRight (setLeft { s with trials := s.trials.push { new with left := some lf, right := some r } }
        r (some s.trials.size)) lf (some s.trials.size)).trials[s.trials.size]? =
        some { new with left := some lf, right := some r } := by
      simp [setRight_get, setLeft_get, hlne, hne]
    by_cases hlr : lf = r
    · have e4r : (setRight (setLeft { s with trials := s.trials.push { new with left := some lf, right := some r } }
          r (some s.trials.size)) lf (some s.trials.size)).trials[r]? =
          some { rit with left := some s.trials.size, right := some s.trials.size } := by
        simp [setRight_get, setLeft_get, hlr, push_get_lt _ _ _ hrs, hrit]
      rw [qsDual_spec c d _ _ cu l _ r f _ _ hn hr hf e4r e4n]
      rfl
    · have e4r : (setRight (setLeft { s with trials := s.trials.push { new with left := some lf, right := some r } }
          r (some s.trials.size)) lf (some s.trials.size)).trials[r]? =
          some { rit with left := some s.trials.size } := by
        simp [setRight_get, setLeft_get, hlr, push_get_lt _ _ _ hrs, hrit]
      rw [qsDual_spec c d _ _ cu l _ r f _ _ hn hr hf e4r e4n]
      rfl

/-! ### `InsertDataItem` = `SD.insert` -/

theorem gtP_lt {c : Ctx χ κ} {s : State χ κ} {x : χ} {i : Nat} (h : gtP c s x i = true) : i < s.trials.size := by
  by_contra hn
  simp only [gtP, Array.getElem?_eq_none (Nat.le_of_not_lt hn)] at h
  cases h

/-- the pending item is invisible to the walk of a closed container -/
theorem find_push (c : Ctx χ κ) (s : State χ κ) (new : Item χ κ) (x : χ) (hcl : ClosedA s.trials s.trials.size) :
    ∀ (n : Nat) (o : Option Nat), InR s.trials.size o →
      (walk { s with trials := s.trials.push new } n o).find? (gtP c { s with trials := s.trials.push new } x) =
        (walk s n o).find? (gtP c s x) := by
  intro n
  induction n with
  | zero => intro o _; cases o <;> rfl
  | succ n ih =>
    intro o ho
    cases o with
    | none => rfl
    | some i =>
      have hi := ho i rfl
      obtain ⟨it, hit, -, hr⟩ := hcl.get hi
      have hp : ({ s with trials := s.trials.push new } : State χ κ).trials[i]? = some it := by
        simp only [push_get_lt _ _ _ hi, hit]
      simp only [walk, List.find?_cons, gtP, hp, hit, Option.bind_some]
      cases c.lt x it.x with
      | true => rfl
      | false => exact ih it.right hr

theorem closedA_push {s : State χ κ} (new : Item χ κ) (hcl : ClosedA s.trials s.trials.size) :
    ClosedA ({ s with trials := s.trials.push new } : State χ κ).trials s.trials.size := by
  refine ⟨by simp only [Array.size_push]; omega, fun j it hj hit => ?_⟩
  simp only [push_get_lt _ _ _ hj] at hit
  exact hcl.2 j it hj hit

/-- the model's `insert` when the right neighbour and its left neighbour exist -/
theorem insert_ok (lt : χ → χ → Bool) (le : κ → κ → Bool) (s : State χ κ) (new : Item χ κ) (hint : Option Nat) (r lf : Nat)
    (rit : Item χ κ) (hro : hint = some r ∨ (hint = none ∧ SD.find lt s new.x = some r))
    (hrit : s.trials[r]? = some rit) (hlf : rit.left = some lf) :
    SD.insert lt le s new hint =
      .ok { setRight (setLeft { s with trials := s.trials.push { new with left := some lf, right := some r } }
              r (some s.trials.size)) lf (some s.trials.size) with
            gq := if hint.isSome then qinsert le s.maxlen rit.globalR r (qinsert le s.maxlen new.globalR s.trials.size s.gq)
                  else qinsert le s.maxlen new.globalR s.trials.size s.gq,
            lq := if s.dual then
                    (if hint.isSome then qinsert le s.maxlen rit.localR r (qinsert le s.maxlen new.localR s.trials.size s.lq)
                     else qinsert le s.maxlen new.localR s.trials.size s.lq)
                  else s.lq } := by
  rcases hro with rfl | ⟨rfl, hfind⟩
  · simp only [SD.insert, hrit, hlf]
    cases s.dual <;> rfl
  · simp only [SD.insert, hfind, hrit, hlf]
    cases s.dual <;> rfl

theorem insert_err_find (lt : χ → χ → Bool) (le : κ → κ → Bool) (s : State χ κ) (new : Item χ κ) (hint : Option Nat)
    (hro : hint = none ∧ SD.find lt s new.x = none) :
    SD.insert lt le s new hint = .error .attributeError := by
  obtain ⟨rfl, hfind⟩ := hro
  simp only [SD.insert, hfind]

theorem insert_err_left (lt : χ → χ → Bool) (le : κ → κ → Bool) (s : State χ κ) (new : Item χ κ) (hint : Option Nat) (r : Nat)
    (rit : Item χ κ) (hro : hint = some r ∨ (hint = none ∧ SD.find lt s new.x = some r))
    (hrit : s.trials[r]? = some rit) (hlf : rit.left = none) :
    SD.insert lt le s new hint = .error .attributeError := by
  rcases hro with rfl | ⟨rfl, hfind⟩
  · simp only [SD.insert, hrit, hlf]
  · simp only [SD.insert, hfind, hrit, hlf]

/-- the heap in which a caller has created `new` (the next heap object) and not yet inserted it -/
def Heap.pending (s : State χ κ) (new : Item χ κ) (cu : Option Nat := none) : Heap χ κ :=
  { s := { s with trials := s.trials.push new }, nall := s.trials.size, cur := cu }

/-- what `InsertDataItem` must do according to the model; on an EMPTY container without hint the source raises
`StopIteration` (out of `__iter__`) where the model says `AttributeError` -/
def insExpect (c : Ctx χ κ) (s : State χ κ) (new : Item χ κ) (hint : Option Nat) : View χ κ :=
  if hint = none ∧ s.first = none then .err .stopIteration
  else View.ofModel ((SD.insert c.lt c.le s new hint).map fun s' => (s', Val.none))

theorem insQ2_eq (c : Ctx χ κ) (m : Option Nat) (f : Bool) (kn : κ) (ni : Nat) (kr : κ) (r : Nat) (q : List (κ × Nat)) :
    insQ2 c m f kn ni kr r q = if f then qinsert c.le m kr r (qinsert c.le m kn ni q) else qinsert c.le m kn ni q := rfl

theorem insertDataItem_src_fuel (c : Ctx χ κ) (d : Nat) (s : State χ κ) (new : Item χ κ) (hint : Option Nat) (cu : Option Nat)
    (hd : s.dual = false) (hcl : Closed s) (hh : InR s.trials.size hint) (hfuel : walk s c.ifuel s.first = traversal s) :
    (call c (d+2) .sd "InsertDataItem" [.ref s.trials.size, .ofOpt hint] (Heap.pending s new cu)).view =
      insExpect c s new hint := by
  obtain ⟨hfirst, hcl⟩ := hcl
  have h0n : ({ s with trials := s.trials.push new } : State χ κ).trials[s.trials.size]? = some new := by simp
  unfold call Heap.pending
  rw [envN_succ]
  have hres : resolve (Heap.s ⟨{ s with trials := s.trials.push new }, s.trials.size, cu⟩).dual .sd "InsertDataItem" =
      some (.base, searchData_InsertDataItemParams, searchData_InsertDataItem) := by
    show resolve s.dual _ _ = _
    rw [hd]; rfl
  rw [hres]
  simp only [insert_shape, runBody, bindParams, searchData_InsertDataItemParams, List.length_cons,
    List.length_nil, ↓reduceIte, List.zip_cons_cons, List.zip_nil_right, execList_append _ _ _ pre2]
  cases hint with
  | some h =>
    obtain ⟨l', hex, hl'⟩ := pre2_hint c (envN c (d+2)) .base ⟨{ s with trials := s.trials.push new }, s.trials.size, cu⟩
      s.trials.size h
    obtain ⟨rit, hrit, hL, -⟩ := hcl.get (hh h rfl)
    obtain ⟨g', htail⟩ := insert_tail_base c (d+1) s new cu l' h true rit hl' hrit hL
    simp only [insExpect, ofOpt_some, hex, htail, reduceCtorEq, false_and, ↓reduceIte]
    cases hlf : rit.left with
    | none =>
      simp only [MOut.view, insert_err_left c.lt c.le s new (some h) h rit (Or.inl rfl) hrit hlf, Except.map, View.ofModel,
        Exc.ofErr]
    | some lf =>
      simp only [MOut.view, insert_ok c.lt c.le s new (some h) h lf rit (Or.inl rfl) hrit hlf, Except.map, View.ofModel, hd,
        insQ2_eq, Option.isSome_some, ↓reduceIte, Bool.false_eq_true, setRight_size, setLeft_size, Array.size_push]
      rfl
  | none =>
    obtain hfi | ⟨i0, hfi⟩ : s.first = none ∨ ∃ i0, s.first = some i0 := by
      cases s.first with
      | none => exact Or.inl rfl
      | some i => exact Or.inr ⟨i, rfl⟩
    · obtain ⟨l', hex⟩ := pre2_empty c d .base { s with trials := s.trials.push new } s.trials.size cu s.trials.size new h0n hfi
      simp only [ofOpt_none, hex, MOut.view]
      simp only [insExpect, hfi, and_self, ↓reduceIte]
    · obtain ⟨cur', l', hex, hl'⟩ := pre2_find c d s.trials.size .base { s with trials := s.trials.push new } s.trials.size cu
        s.trials.size new h0n hfirst (closedA_push new hcl) i0 hfi
      have hfe : (walk { s with trials := s.trials.push new } c.ifuel s.first).find?
          (gtP c { s with trials := s.trials.push new } new.x) = SD.find c.lt s new.x := by
        rw [find_push c s new new.x hcl _ _ hfirst, hfuel]; rfl
      rw [show ({ s with trials := s.trials.push new } : State χ κ).first = s.first from rfl, hfe] at hl'
      simp only [ofOpt_none, hex]
      rw [show insExpect c s new none = View.ofModel ((SD.insert c.lt c.le s new none).map fun s' => (s', Val.none)) from by
        simp only [insExpect, hfi, reduceCtorEq, and_false, ↓reduceIte]]
      cases hfind : SD.find c.lt s new.x with
      | none =>
        rw [hfind] at hl'
        rw [execList_append, links_none c _ .base _ l' s.trials.size hl'.1 hl'.2.1]
        simp only [MOut.view, insert_err_find c.lt c.le s new none ⟨rfl, hfind⟩, Except.map, View.ofModel, Exc.ofErr]
      | some r =>
        rw [hfind] at hl'
        have hr : r < s.trials.size := by
          rw [find_eq_gtP] at hfind
          exact gtP_lt (List.find?_some hfind)
        obtain ⟨rit, hrit, hL, -⟩ := hcl.get hr
        obtain ⟨g', htail⟩ := insert_tail_base c (d+1) s new cur' l' r false rit hl' hrit hL
        rw [show d + 1 + 1 = d + 2 from rfl] at htail
        simp only [htail]
        cases hlf : rit.left with
        | none =>
          simp only [MOut.view, insert_err_left c.lt c.le s new none r rit (Or.inr ⟨rfl, hfind⟩) hrit hlf, Except.map,
            View.ofModel, Exc.ofErr]
        | some lf =>
          simp only [MOut.view, insert_ok c.lt c.le s new none r lf rit (Or.inr ⟨rfl, hfind⟩) hrit hlf, Except.map, View.ofModel,
            hd, insQ2_eq, Option.isSome_none, ↓reduceIte, Bool.false_eq_true, setRight_size, setLeft_size, Array.size_push]
          rfl
theorem insertDataItemDual_src_fuel (c : Ctx χ κ) (d : Nat) (s : State χ κ) (new : Item χ κ) (hint : Option Nat) (cu : Option Nat)
    (hd : s.dual = true) (hcl : Closed s) (hh : InR s.trials.size hint) (hfuel : walk s c.ifuel s.first = traversal s) :
    (call c (d+2) .sd "InsertDataItem" [.ref s.trials.size, .ofOpt hint] (Heap.pending s new cu)).view =
      insExpect c s new hint := by
  obtain ⟨hfirst, hcl⟩ := hcl
  have h0n : ({ s with trials := s.trials.push new } : State χ κ).trials[s.trials.size]? = some new := by simp
  unfold call Heap.pending
  rw [envN_succ]
  have hres : resolve (Heap.s ⟨{ s with trials := s.trials.push new }, s.trials.size, cu⟩).dual .sd "InsertDataItem" =
      some (.dual, searchDataDualQueue_InsertDataItemParams, searchDataDualQueue_InsertDataItem) := by
    show resolve s.dual _ _ = _
    rw [hd]; rfl
  rw [hres]
  simp only [insertDual_shape, runBody, bindParams, searchDataDualQueue_InsertDataItemParams, List.length_cons,
    List.length_nil, ↓reduceIte, List.zip_cons_cons, List.zip_nil_right, execList_append _ _ _ pre2]
  cases hint with
  | some h =>
    obtain ⟨l', hex, hl'⟩ := pre2_hint c (envN c (d+2)) .dual ⟨{ s with trials := s.trials.push new }, s.trials.size, cu⟩
      s.trials.size h
    obtain ⟨rit, hrit, hL, -⟩ := hcl.get (hh h rfl)
    obtain ⟨g', htail⟩ := insert_tail_dual c (d+1) s new cu l' h true rit hl' hrit hL
    simp only [insExpect, ofOpt_some, hex, htail, reduceCtorEq, false_and, ↓reduceIte]
    cases hlf : rit.left with
    | none =>
      simp only [MOut.view, insert_err_left c.lt c.le s new (some h) h rit (Or.inl rfl) hrit hlf, Except.map, View.ofModel,
        Exc.ofErr]
    | some lf =>
      simp only [MOut.view, insert_ok c.lt c.le s new (some h) h lf rit (Or.inl rfl) hrit hlf, Except.map, View.ofModel, hd,
        insQ2_eq, Option.isSome_some, ↓reduceIte, Bool.false_eq_true, setRight_size, setLeft_size, Array.size_push]
  | none =>
    obtain hfi | ⟨i0, hfi⟩ : s.first = none ∨ ∃ i0, s.first = some i0 := by
      cases s.first with
      | none => exact Or.inl rfl
      | some i => exact Or.inr ⟨i, rfl⟩
    · obtain ⟨l', hex⟩ := pre2_empty c d .dual { s with trials := s.trials.push new } s.trials.size cu s.trials.size new h0n hfi
      simp only [ofOpt_none, hex, MOut.view]
      simp only [insExpect, hfi, and_self, ↓reduceIte]
    · obtain ⟨cur', l', hex, hl'⟩ := pre2_find c d s.trials.size .dual { s with trials := s.trials.push new } s.trials.size cu
        s.trials.size new h0n hfirst (closedA_push new hcl) i0 hfi
      have hfe : (walk { s with trials := s.trials.push new } c.ifuel s.first).find?
          (gtP c { s with trials := s.trials.push new } new.x) = SD.find c.lt s new.x := by
        rw [find_push c s new new.x hcl _ _ hfirst, hfuel]; rfl
      rw [show ({ s with trials := s.trials.push new } : State χ κ).first = s.first from rfl, hfe] at hl'
      simp only [ofOpt_none, hex]
      rw [show insExpect c s new none = View.ofModel ((SD.insert c.lt c.le s new none).map fun s' => (s', Val.none)) from by
        simp only [insExpect, hfi, reduceCtorEq, and_false, ↓reduceIte]]
      cases hfind : SD.find c.lt s new.x with
      | none =>
        rw [hfind] at hl'
        rw [execList_append, links_none c _ .dual _ l' s.trials.size hl'.1 hl'.2.1]
        simp only [MOut.view, insert_err_find c.lt c.le s new none ⟨rfl, hfind⟩, Except.map, View.ofModel, Exc.ofErr]
      | some r =>
        rw [hfind] at hl'
        have hr : r < s.trials.size := by
          rw [find_eq_gtP] at hfind
          exact gtP_lt (List.find?_some hfind)
        obtain ⟨rit, hrit, hL, -⟩ := hcl.get hr
        obtain ⟨g', htail⟩ := insert_tail_dual c (d+1) s new cur' l' r false rit hl' hrit hL
        rw [show d + 1 + 1 = d + 2 from rfl] at htail
        simp only [htail]
        cases hlf : rit.left with
        | none =>
          simp only [MOut.view, insert_err_left c.lt c.le s new none r rit (Or.inr ⟨rfl, hfind⟩) hrit hlf, Except.map,
            View.ofModel, Exc.ofErr]
        | some lf =>
          simp only [MOut.view, insert_ok c.lt c.le s new none r lf rit (Or.inr ⟨rfl, hfind⟩) hrit hlf, Except.map, View.ofModel,
            hd, insQ2_eq, Option.isSome_none, ↓reduceIte, Bool.false_eq_true, setRight_size, setLeft_size, Array.size_push]

/-- **`InsertDataItem`, source tree = model, both classes.**  -/
theorem insertDataItem_src_walk (c : Ctx χ κ) (d : Nat) (s : State χ κ) (new : Item χ κ) (hint : Option Nat) (cu : Option Nat)
    (hcl : Closed s) (hh : InR s.trials.size hint) (hfuel : walk s c.ifuel s.first = traversal s) :
    (call c (d+2) .sd "InsertDataItem" [.ref s.trials.size, .ofOpt hint] (Heap.pending s new cu)).view =
      insExpect c s new hint := by
  cases hd : s.dual with
  | false => exact insertDataItem_src_fuel c d s new hint cu hd hcl hh hfuel
  | true => exact insertDataItemDual_src_fuel c d s new hint cu hd hcl hh hfuel

/-- a well-linked container (`RepL`, the link part of `SD.WF`) is walked completely by any fuel `≥` its size -/
theorem walk_of_repL {s : State χ κ} {t : List Nat} (h : RepL s.trials s.first t) {n : Nat} (hn : s.trials.size ≤ n) :
    walk s n s.first = traversal s := by
  obtain ⟨k, rfl⟩ := Nat.exists_eq_add_of_le hn
  have := walkA_seg h.seg k
  rw [walkA_none, List.append_nil, h.length_eq, headOr_none, ← h.first_eq] at this
  rw [walk_eq_walkA, this, h.traversal_eq]

theorem Seg_links {tr : Array (Item χ κ)} {prev nxt : Option Nat} {t : List Nat} (h : Seg tr prev t nxt) :
    ∀ a ∈ t, ∃ it, tr[a]? = some it ∧ (it.left = prev ∨ ∃ b ∈ t, it.left = some b) ∧
      (it.right = nxt ∨ ∃ b ∈ t, it.right = some b) := by
  induction t generalizing prev with
  | nil => intro a ha; cases ha
  | cons a rest ih =>
    intro x hx
    obtain ⟨ia, hia, hl, hr⟩ := linkOf_eq_some.1 h.1
    rcases List.mem_cons.1 hx with rfl | hx
    · refine ⟨ia, hia, Or.inl hl, ?_⟩
      cases rest with
      | nil => exact Or.inl hr
      | cons b rest' => exact Or.inr ⟨b, by simp, hr⟩
    · obtain ⟨it, hit, hl', hr'⟩ := ih h.2 x hx
      refine ⟨it, hit, Or.inr ?_, ?_⟩
      · rcases hl' with hl' | ⟨b, hb, hl'⟩
        · exact ⟨a, by simp, hl'⟩
        · exact ⟨b, List.mem_cons_of_mem _ hb, hl'⟩
      · rcases hr' with hr' | ⟨b, hb, hr'⟩
        · exact Or.inl hr'
        · exact Or.inr ⟨b, List.mem_cons_of_mem _ hb, hr'⟩

/-- the link part of `SD.WF` implies closedness -/
theorem closed_of_repL {s : State χ κ} {t : List Nat} (h : RepL s.trials s.first t) : Closed s := by
  refine ⟨?_, Nat.le_refl _, fun j it hj hit => ?_⟩
  · intro i hi
    rw [h.first_eq] at hi
    exact h.mem_iff.1 (List.mem_of_mem_head? hi)
  · obtain ⟨it', hit', hl, hr⟩ := Seg_links h.seg j (h.mem_iff.2 hj)
    rw [hit] at hit'; cases hit'
    constructor
    · intro i hi
      rcases hl with hl | ⟨b, hb, hl⟩
      · rw [hl] at hi; cases hi
      · rw [hl] at hi; cases hi; exact h.mem_iff.1 hb
    · intro i hi
      rcases hr with hr | ⟨b, hb, hr⟩
      · rw [hr] at hi; cases hi
      · rw [hr] at hi; cases hi; exact h.mem_iff.1 hb

/-- **`InsertDataItem`, source tree = model** (both classes, with or without the hint), with the iteration bound of the model
(`ifuel = len(_allTrials)`), on every container without dangling references: the interpretation of the generated tree of
`SearchData.InsertDataItem` / `SearchDataDualQueue.InsertDataItem` (whichever `s.dual` selects), called with the freshly created
item (`Heap.pending`) and the hint, ends in exactly the state `SD.insert` computes, or raises `AttributeError` exactly when
`SD.insert` says so.  Only difference (`insExpect`): without hint on an EMPTY container the source raises `StopIteration`. -/
theorem insertDataItem_src (c : Ctx χ κ) (d : Nat) (s : State χ κ) (new : Item χ κ) (hint : Option Nat) (cu : Option Nat)
    (hcl : Closed s) (hh : InR s.trials.size hint) (hfuel : c.ifuel = s.trials.size) :
    (call c (d+2) .sd "InsertDataItem" [.ref s.trials.size, .ofOpt hint] (Heap.pending s new cu)).view =
      insExpect c s new hint :=
  insertDataItem_src_walk c d s new hint cu hcl hh (by rw [hfuel]; rfl)

/-- … and on a well-linked container (`RepL`: the link part of `SD.WF`) for EVERY iteration bound `≥ len(_allTrials)`:
the cut of the walk never happens. -/
theorem insertDataItem_src_wf (c : Ctx χ κ) (d : Nat) (s : State χ κ) (t : List Nat) (new : Item χ κ) (hint : Option Nat)
    (cu : Option Nat) (hwf : RepL s.trials s.first t) (hh : InR s.trials.size hint) (hfuel : s.trials.size ≤ c.ifuel) :
    (call c (d+2) .sd "InsertDataItem" [.ref s.trials.size, .ofOpt hint] (Heap.pending s new cu)).view =
      View.ofModel ((SD.insert c.lt c.le s new hint).map fun s' => (s', Val.none)) := by
  rw [insertDataItem_src_walk c d s new hint cu (closed_of_repL hwf) hh (walk_of_repL hwf hfuel), insExpect]
  have : s.first ≠ none := by
    rw [hwf.first_eq]
    intro h
    exact hwf.ne_nil (List.head?_eq_none_iff.1 h)
  simp only [this, and_false, ↓reduceIte]

/-! ### `RefillQueue` = `SD.refill` -/

/-- one step of the model's `refill` -/
def rstep (c : Ctx χ κ) (acc : State χ κ) (i : Nat) : State χ κ :=
  match acc.trials[i]? with
  | some it => { acc with gq := qIns c.le acc acc.gq it.globalR i,
                          lq := if acc.dual then qIns c.le acc acc.lq it.localR i else acc.lq }
  | none => acc

theorem refill_eq_rstep (c : Ctx χ κ) (s : State χ κ) : SD.refill c.le s = (traversal s).foldl (rstep c) (clearQueue s) := rfl

theorem rstep_trials (c : Ctx χ κ) (acc : State χ κ) (i : Nat) : (rstep c acc i).trials = acc.trials := by
  unfold rstep; cases acc.trials[i]? <;> rfl
theorem rstep_dual (c : Ctx χ κ) (acc : State χ κ) (i : Nat) : (rstep c acc i).dual = acc.dual := by
  unfold rstep; cases acc.trials[i]? <;> rfl

theorem walk_congr {s s' : State χ κ} (h : s'.trials = s.trials) (n : Nat) (o : Option Nat) : walk s' n o = walk s n o := by
  rw [walk_eq_walkA, walk_eq_walkA, h]

theorem refill_loop (c : Ctx χ κ) (N : Nat) (b : Bool) (next : Heap χ κ → MOut χ κ) (body : IState χ κ → Out χ κ)
    (hnext : NextSpec next)
    (hbody : ∀ (s : State χ κ) na cu l i it, s.dual = b → s.trials[i]? = some it →
      body ⟨⟨s, na, cu⟩, ("itr", .ref i) :: l⟩ = .normal ⟨⟨rstep c s i, na, cu⟩, ("itr", .ref i) :: l⟩) :
    ∀ (n : Nat) (s : State χ κ) (na : Nat) (l : Locals χ κ) (o : Option Nat), s.dual = b → InR N o → ClosedA s.trials N →
      ∃ cur' l', iterLoop n next body "itr" ⟨⟨s, na, o⟩, l⟩ = .normal ⟨⟨(walk s n o).foldl (rstep c) s, na, cur'⟩, l'⟩ := by
  intro n
  unfold NextSpec at hnext
  induction n with
  | zero =>
    intro s na l o _ _ _
    refine ⟨o, l, ?_⟩
    cases o <;> simp only [iterLoop, walk, List.foldl_nil]
  | succ n ih =>
    intro s na l o hd ho hcl
    cases o with
    | none =>
      refine ⟨none, l, ?_⟩
      simp only [iterLoop, hnext, walk, List.foldl_nil]
    | some i =>
      obtain ⟨it, hit, -, hr⟩ := hcl.get (ho i rfl)
      obtain ⟨cur', l', h⟩ := ih (rstep c s i) na (("itr", .ref i) :: l) it.right (by rw [rstep_dual, hd]) hr
        (by rw [rstep_trials]; exact hcl)
      refine ⟨cur', l', ?_⟩
      simp only [iterLoop, hnext, hit, walk, List.foldl_cons, Option.bind_some, hbody s na it.right l i it hd hit, h,
        walk_congr (rstep_trials c s i)]

/-- the body of the loop of `SearchData.RefillQueue` -/
def refillBody : List Stmt := [.call [] "self._RGlobalQueue.Insert" ["itr.globalR", "itr"]]
/-- the body of the loop of `SearchDataDualQueue.RefillQueue` -/
def refillBodyDual : List Stmt := [
  .call [] "self._RGlobalQueue.Insert" ["itr.globalR", "itr"],
  .call [] "self.__RLocalQueue.Insert" ["itr.localR", "itr"]]

theorem refill_shape : searchData_RefillQueue = [.call [] "self._RGlobalQueue.Clear" [], .forEach "itr" "self" refillBody] := rfl
theorem refillDual_shape : searchDataDualQueue_RefillQueue =
    [.call [] "self.ClearQueue" [], .forEach "itr" "self" refillBodyDual] := rfl

theorem refillBody_spec (c : Ctx χ κ) (d : Nat) (s : State χ κ) (na : Nat) (cu : Option Nat) (l : Locals χ κ) (i : Nat)
    (it : Item χ κ) (hd : s.dual = false) (hit : s.trials[i]? = some it) :
    execList c (envN c (d+1)) ⟨.base, .sd⟩ refillBody ⟨⟨s, na, cu⟩, ("itr", .ref i) :: l⟩ =
      .normal ⟨⟨rstep c s i, na, cu⟩, ("itr", .ref i) :: l⟩ := by
  sd_simp [refillBody, hit, cq_Insert_gq, rstep, hd, qIns]

theorem refillBodyDual_spec (c : Ctx χ κ) (d : Nat) (s : State χ κ) (na : Nat) (cu : Option Nat) (l : Locals χ κ) (i : Nat)
    (it : Item χ κ) (hd : s.dual = true) (hit : s.trials[i]? = some it) :
    execList c (envN c (d+1)) ⟨.dual, .sd⟩ refillBodyDual ⟨⟨s, na, cu⟩, ("itr", .ref i) :: l⟩ =
      .normal ⟨⟨rstep c s i, na, cu⟩, ("itr", .ref i) :: l⟩ := by
  sd_simp [refillBodyDual, hit, cq_Insert_gq, cq_Insert_lq, rstep, hd, qIns]

/-- `SearchData.RefillQueue` on any closed heap -/
theorem refill_call (c : Ctx χ κ) (d N : Nat) (s : State χ κ) (na : Nat) (cu : Option Nat) (hd : s.dual = false)
    (hf : InR N s.first) (hcl : ClosedA s.trials N) :
    ∃ cur', envN c (d+2) .sd "RefillQueue" [] ⟨s, na, cu⟩ =
      match s.first with
      | none => .raised ⟨{ s with gq := [] }, na, none⟩ .stopIteration
      | some _ => .done ⟨(walk s c.ifuel s.first).foldl (rstep c) { s with gq := [] }, na, cur'⟩ .none := by
  have hres : resolve (Heap.s ⟨s, na, cu⟩).dual .sd "RefillQueue" = some (.base, searchData_RefillQueueParams, searchData_RefillQueue) := by
    show resolve s.dual _ _ = _
    rw [hd]; rfl
  cases hfi : s.first with
  | none =>
    refine ⟨none, ?_⟩
    rw [envN_succ, hres, refill_shape]
    sd_simp [searchData_RefillQueueParams, cq_Clear_gq, sd_iter, hfi]
  | some i0 =>
    obtain ⟨cur', l', h⟩ := refill_loop c N false _ _ (nextSpec_envN c d)
      (fun s na cu l i it h1 h2 => refillBody_spec c d s na cu l i it h1 h2) c.ifuel { s with gq := [] } na
      [("self", .obj .sd)] (some i0) hd (hfi ▸ hf) hcl
    refine ⟨cur', ?_⟩
    rw [walk_congr (show ({ s with gq := [] } : State χ κ).trials = s.trials from rfl)] at h
    simp only [hfi] at h
    rw [envN_succ, hres, refill_shape]
    simp only [runBody, bindParams, searchData_RefillQueueParams, List.length_cons, List.length_nil,
      ↓reduceIte, List.zip_nil_right, List.zip_nil_left, execList, execStmt, lv_5, ex_14, ce_2, evalCallee, evalArgs, evalExpr, Frame.isSd,
      beq_self_eq_true, Bool.true_and, bne_iff_ne, ne_eq, reduceCtorEq, not_false_eq_true, decide_true,
      cq_Clear_gq, MOut.toEOut, bindTargets, sd_iter, hfi, h]

/-! ### `ClearQueue` -/

theorem clearQueue_call (c : Ctx χ κ) (d : Nat) (s : State χ κ) (na : Nat) (cu : Option Nat) (hd : s.dual = false) :
    envN c (d+2) .sd "ClearQueue" [] ⟨s, na, cu⟩ = .done ⟨{ s with gq := [] }, na, cu⟩ .none := by
  have hres : resolve (Heap.s ⟨s, na, cu⟩).dual .sd "ClearQueue" = some (.base, searchData_ClearQueueParams, searchData_ClearQueue) := by
    show resolve s.dual _ _ = _
    rw [hd]; rfl
  rw [envN_succ, hres]
  sd_simp [searchData_ClearQueueParams, searchData_ClearQueue, cq_Clear_gq]

theorem clearQueueDual_call (c : Ctx χ κ) (d : Nat) (s : State χ κ) (na : Nat) (cu : Option Nat) (hd : s.dual = true) :
    envN c (d+2) .sd "ClearQueue" [] ⟨s, na, cu⟩ = .done ⟨clearQueue s, na, cu⟩ .none := by
  have hres : resolve (Heap.s ⟨s, na, cu⟩).dual .sd "ClearQueue" =
      some (.dual, searchDataDualQueue_ClearQueueParams, searchDataDualQueue_ClearQueue) := by
    show resolve s.dual _ _ = _
    rw [hd]; rfl
  rw [envN_succ, hres]
  sd_simp [searchDataDualQueue_ClearQueueParams, searchDataDualQueue_ClearQueue, cq_Clear_gq, cq_Clear_lq, clearQueue]

/-- `SearchDataDualQueue.RefillQueue` on any closed heap -/
theorem refillDual_call (c : Ctx χ κ) (d N : Nat) (s : State χ κ) (na : Nat) (cu : Option Nat) (hd : s.dual = true)
    (hf : InR N s.first) (hcl : ClosedA s.trials N) :
    ∃ cur', envN c (d+3) .sd "RefillQueue" [] ⟨s, na, cu⟩ =
      match s.first with
      | none => .raised ⟨clearQueue s, na, none⟩ .stopIteration
      | some _ => .done ⟨(walk s c.ifuel s.first).foldl (rstep c) (clearQueue s), na, cur'⟩ .none := by
  have hres : resolve (Heap.s ⟨s, na, cu⟩).dual .sd "RefillQueue" =
      some (.dual, searchDataDualQueue_RefillQueueParams, searchDataDualQueue_RefillQueue) := by
    show resolve s.dual _ _ = _
    rw [hd]; rfl
  have hcq := clearQueueDual_call c d s na cu hd
  have hit : envN c (d+2) .sd "__iter__" [] ⟨clearQueue s, na, cu⟩ =
      match s.first with
      | none => .raised ⟨clearQueue s, na, none⟩ .stopIteration
      | some i => .done ⟨clearQueue s, na, some i⟩ (.obj .sd) := sd_iter c (d+1) _
  cases hfi : s.first with
  | none =>
    refine ⟨none, ?_⟩
    rw [envN_succ, hres, refillDual_shape]
    rw [hfi] at hit
    sd_simp [searchDataDualQueue_RefillQueueParams, hcq, hit]
  | some i0 =>
    obtain ⟨cur', l', h⟩ := refill_loop c N true (fun h => envN c (d+2) .sd "__next__" [] h)
      (fun st => execList c (envN c (d+2)) ⟨.dual, .sd⟩ refillBodyDual st) (nextSpec_envN c (d+1))
      (fun s na cu l i it h1 h2 => refillBodyDual_spec c (d+1) s na cu l i it h1 h2) c.ifuel (clearQueue s) na
      [("self", .obj .sd)] (some i0) hd (hfi ▸ hf) hcl
    refine ⟨cur', ?_⟩
    rw [walk_congr (show (clearQueue s).trials = s.trials from rfl)] at h
    rw [envN_succ, hres, refillDual_shape]
    rw [hfi] at hit
    simp only [runBody, bindParams, searchDataDualQueue_RefillQueueParams, List.length_cons, List.length_nil,
      ↓reduceIte, List.zip_nil_right, List.zip_nil_left, execList, execStmt, lv_5, ex_14, ce_10, evalCallee, evalArgs, evalExpr,
      MOut.toEOut, bindTargets, hcq, hit, h]

/-! ### `GetDataItemWithMaxGlobalR` (base class) = `SD.popMaxGlobal` -/

theorem rstep_lq (c : Ctx χ κ) (acc : State χ κ) (L : List (κ × Nat)) (i : Nat) (hd : acc.dual = false) :
    rstep c { acc with lq := L } i = { rstep c acc i with lq := L } := by
  unfold rstep
  cases h : acc.trials[i]? with
  | none => simp only [h]
  | some it => simp only [h, hd, Bool.false_eq_true, ↓reduceIte, qIns]

theorem foldl_rstep_lq (c : Ctx χ κ) (L : List (κ × Nat)) (t : List Nat) :
    ∀ (acc : State χ κ), acc.dual = false →
      t.foldl (rstep c) { acc with lq := L } = { t.foldl (rstep c) acc with lq := L } := by
  induction t with
  | nil => intro acc _; rfl
  | cons i t ih =>
    intro acc hd
    rw [List.foldl_cons, List.foldl_cons, rstep_lq c acc L i hd, ih (rstep c acc i) (by rw [rstep_dual, hd])]

/-- on a non-dual container the local queue is a ghost: `refill` leaves it empty -/
theorem foldl_rstep_lq_eq (c : Ctx χ κ) (t : List Nat) :
    ∀ (acc : State χ κ), acc.dual = false → (t.foldl (rstep c) acc).lq = acc.lq := by
  induction t with
  | nil => intro acc _; rfl
  | cons i t ih =>
    intro acc hd
    rw [List.foldl_cons, ih (rstep c acc i) (by rw [rstep_dual, hd])]
    unfold rstep
    cases h : acc.trials[i]? with
    | none => rfl
    | some it => simp only [hd, Bool.false_eq_true, ↓reduceIte]

/-- what `RefillQueue` of the BASE class leaves: the model's `refill`, except that the (non-existent) local queue is not touched -/
theorem refill_base_eq (c : Ctx χ κ) (s : State χ κ) (hd : s.dual = false) :
    (traversal s).foldl (rstep c) { s with gq := [] } = { SD.refill c.le s with lq := s.lq } := by
  rw [refill_eq_rstep]
  exact foldl_rstep_lq c s.lq (traversal s) (clearQueue s) hd

/-- what `GetDataItemWithMaxGlobalR` of the base class must do according to the model; when the queue AND the container are
empty the source raises `StopIteration` (out of `__iter__` in `RefillQueue`) where the model says `IndexError` -/
def popExpect (c : Ctx χ κ) (s : State χ κ) (na : Nat) : View χ κ :=
  if s.gq.isEmpty = true ∧ s.first = none then .err .stopIteration
  else match SD.popMaxGlobal c.le s with
    | .ok (s', i, _) => .ok { s' with lq := s.lq } na (.ref i)
    | .error e => .err (Exc.ofErr e)

theorem getMaxGlobalR_call (c : Ctx χ κ) (d N : Nat) (s : State χ κ) (na : Nat) (cu : Option Nat) (hd : s.dual = false)
    (hf : InR N s.first) (hcl : ClosedA s.trials N) (hfuel : walk s c.ifuel s.first = traversal s) :
    (envN c (d+3) .sd "GetDataItemWithMaxGlobalR" [] ⟨s, na, cu⟩).view = popExpect c s na := by
  have hres : resolve (Heap.s ⟨s, na, cu⟩).dual .sd "GetDataItemWithMaxGlobalR" =
      some (.base, searchData_GetDataItemWithMaxGlobalRParams, searchData_GetDataItemWithMaxGlobalR) := by
    show resolve s.dual _ _ = _
    rw [hd]; rfl
  have hemp : ∀ g : Heap χ κ, envN c (d+2) .gq "IsEmpty" [] g = .done g (.bool g.s.gq.isEmpty) := cq_IsEmpty_gq c (d+1)
  have hbest : ∀ g : Heap χ κ, envN c (d+2) .gq "GetBestItem" [] g =
      match g.s.gq with
      | [] => .raised g .indexError
      | (k, i) :: t => .done { g with s := { g.s with gq := t } } (.pair i k) := cq_GetBestItem_gq c (d+1)
  obtain ⟨cur', hrf⟩ := refill_call c d N s na cu hd hf hcl
  rw [envN_succ, hres]
  cases hq : s.gq with
  | cons e t =>
    obtain ⟨k, i⟩ := e
    sd_simp [searchData_GetDataItemWithMaxGlobalRParams, searchData_GetDataItemWithMaxGlobalR, hemp, hbest, hq, List.isEmpty_cons]
    simp only [MOut.view, popExpect, popMaxGlobal, hq, List.isEmpty_cons, Bool.false_eq_true, false_and, ↓reduceIte]
  | nil =>
    obtain hfi | ⟨i0, hfi⟩ : s.first = none ∨ ∃ i0, s.first = some i0 := by
      cases s.first with
      | none => exact Or.inl rfl
      | some i => exact Or.inr ⟨i, rfl⟩
    · rw [hfi] at hrf
      sd_simp [searchData_GetDataItemWithMaxGlobalRParams, searchData_GetDataItemWithMaxGlobalR, hemp, hbest, hq, List.isEmpty_nil, hrf]
      simp only [MOut.view, popExpect, hq, hfi, List.isEmpty_nil, and_self, ↓reduceIte]
    · rw [hfi] at hrf
      rw [← hfi, hfuel, refill_base_eq c s hd] at hrf
      sd_simp [searchData_GetDataItemWithMaxGlobalRParams, searchData_GetDataItemWithMaxGlobalR, hemp, hbest, hq, List.isEmpty_nil, hrf]
      simp only [popExpect, popMaxGlobal, hq, hfi, List.isEmpty_nil, reduceCtorEq, and_false, ↓reduceIte]
      cases hg : (refill c.le s).gq with
      | nil => simp only [MOut.view, Exc.ofErr]
      | cons e t => obtain ⟨k, i⟩ := e; simp only [MOut.view]

/-! ### headline ties on heaps that are model states (`Heap.ofState`) -/

theorem walk_size (s : State χ κ) : walk s s.trials.size s.first = traversal s := rfl

/-- **`FindDataItemByOneDimensionalPoint`, source tree = `SD.find`** on every container without dangling references, with the
iteration bound of the model: the state is unchanged and the returned item is `SD.find lt s x` (`None` ↔ `none`).
On an EMPTY container the source raises `StopIteration` (the `raise` in `__iter__` is not inside a generator). -/
theorem find_src_walk (c : Ctx χ κ) (d : Nat) (s : State χ κ) (x : χ) (cu : Option Nat) (hcl : Closed s)
    (hfuel : walk s c.ifuel s.first = traversal s) :
    (call c (d+1) .sd "FindDataItemByOneDimensionalPoint" [.coord x] (Heap.ofState s cu)).view =
      if s.first = none then .err .stopIteration else .ok s s.trials.size (.ofOpt (SD.find c.lt s x)) := by
  obtain ⟨cur', h⟩ := find_call c d s.trials.size x s s.trials.size cu hcl.1 hcl.2
  unfold call Heap.ofState
  rw [h]
  cases hfi : s.first with
  | none => simp only [MOut.view, ↓reduceIte]
  | some i0 =>
    rw [hfi] at hfuel
    simp only [MOut.view, reduceCtorEq, ↓reduceIte, hfuel, find_eq_gtP]

theorem find_src (c : Ctx χ κ) (d : Nat) (s : State χ κ) (x : χ) (cu : Option Nat) (hcl : Closed s)
    (hfuel : c.ifuel = s.trials.size) :
    (call c (d+1) .sd "FindDataItemByOneDimensionalPoint" [.coord x] (Heap.ofState s cu)).view =
      if s.first = none then .err .stopIteration else .ok s s.trials.size (.ofOpt (SD.find c.lt s x)) :=
  find_src_walk c d s x cu hcl (by rw [hfuel]; rfl)

theorem repL_first_ne {s : State χ κ} {t : List Nat} (hwf : RepL s.trials s.first t) : s.first ≠ none := by
  rw [hwf.first_eq]
  intro h
  exact hwf.ne_nil (List.head?_eq_none_iff.1 h)

/-- … on a well-linked container, for every iteration bound `≥ len(_allTrials)` -/
theorem find_src_wf (c : Ctx χ κ) (d : Nat) (s : State χ κ) (t : List Nat) (x : χ) (cu : Option Nat)
    (hwf : RepL s.trials s.first t) (hfuel : s.trials.size ≤ c.ifuel) :
    (call c (d+1) .sd "FindDataItemByOneDimensionalPoint" [.coord x] (Heap.ofState s cu)).view =
      .ok s s.trials.size (.ofOpt (SD.find c.lt s x)) := by
  rw [find_src_walk c d s x cu (closed_of_repL hwf) (walk_of_repL hwf hfuel)]
  simp only [repL_first_ne hwf, ↓reduceIte]

/-- what `RefillQueue` must leave according to the model: `SD.refill`; the base class does not touch the local queue (which a
non-dual container does not have: `s.lq = []` there, and then this IS `SD.refill`) -/
def refillState (c : Ctx χ κ) (s : State χ κ) : State χ κ :=
  if s.dual then SD.refill c.le s else { SD.refill c.le s with lq := s.lq }

theorem refill_lq_nondual (c : Ctx χ κ) (s : State χ κ) (hd : s.dual = false) : (SD.refill c.le s).lq = [] := by
  rw [refill_eq_rstep, foldl_rstep_lq_eq c _ (clearQueue s) hd]; rfl

theorem refillState_eq (c : Ctx χ κ) (s : State χ κ) (h : s.dual = false → s.lq = []) : refillState c s = SD.refill c.le s := by
  unfold refillState
  cases hd : s.dual with
  | true => rfl
  | false =>
    simp only [Bool.false_eq_true, ↓reduceIte]
    have := refill_lq_nondual c s hd
    rw [h hd, ← this]

/-- **`RefillQueue`, source tree = `SD.refill`** (both classes), on every container without dangling references, with the
iteration bound of the model.  On an EMPTY container the source raises `StopIteration`. -/
theorem refillQueue_src_walk (c : Ctx χ κ) (d : Nat) (s : State χ κ) (cu : Option Nat) (hcl : Closed s)
    (hfuel : walk s c.ifuel s.first = traversal s) :
    (call c (d+2) .sd "RefillQueue" [] (Heap.ofState s cu)).view =
      if s.first = none then .err .stopIteration else .ok (refillState c s) s.trials.size .none := by
  unfold call Heap.ofState refillState
  cases hd : s.dual with
  | false =>
    obtain ⟨cur', h⟩ := refill_call c (d+1) s.trials.size s s.trials.size cu hd hcl.1 hcl.2
    rw [h]
    obtain hfi | ⟨i0, hfi⟩ : s.first = none ∨ ∃ i0, s.first = some i0 := by
      cases s.first with
      | none => exact Or.inl rfl
      | some i => exact Or.inr ⟨i, rfl⟩
    · simp only [hfi, MOut.view, ↓reduceIte]
    · rw [hfuel, refill_base_eq c s hd]
      simp only [hfi, MOut.view, reduceCtorEq, ↓reduceIte, Bool.false_eq_true]
  | true =>
    obtain ⟨cur', h⟩ := refillDual_call c d s.trials.size s s.trials.size cu hd hcl.1 hcl.2
    rw [h]
    obtain hfi | ⟨i0, hfi⟩ : s.first = none ∨ ∃ i0, s.first = some i0 := by
      cases s.first with
      | none => exact Or.inl rfl
      | some i => exact Or.inr ⟨i, rfl⟩
    · simp only [hfi, MOut.view, ↓reduceIte]
    · rw [hfuel, ← refill_eq_rstep]
      simp only [hfi, MOut.view, reduceCtorEq, ↓reduceIte]

theorem refillQueue_src (c : Ctx χ κ) (d : Nat) (s : State χ κ) (cu : Option Nat) (hcl : Closed s)
    (hfuel : c.ifuel = s.trials.size) :
    (call c (d+2) .sd "RefillQueue" [] (Heap.ofState s cu)).view =
      if s.first = none then .err .stopIteration else .ok (refillState c s) s.trials.size .none :=
  refillQueue_src_walk c d s cu hcl (by rw [hfuel]; rfl)

/-- … on a well-linked container whose local queue exists only if it is dual, for every bound `≥ len(_allTrials)`: exactly `SD.refill` -/
theorem refillQueue_src_wf (c : Ctx χ κ) (d : Nat) (s : State χ κ) (t : List Nat) (cu : Option Nat)
    (hwf : RepL s.trials s.first t) (hlq : s.dual = false → s.lq = []) (hfuel : s.trials.size ≤ c.ifuel) :
    (call c (d+2) .sd "RefillQueue" [] (Heap.ofState s cu)).view = .ok (SD.refill c.le s) s.trials.size .none := by
  rw [refillQueue_src_walk c d s cu (closed_of_repL hwf) (walk_of_repL hwf hfuel), refillState_eq c s hlq]
  simp only [repL_first_ne hwf, ↓reduceIte]

/-- **`ClearQueue`, source tree = `SD.clearQueue`**: the dual class clears both queues (= `SD.clearQueue`), the base class
its only queue (= `SD.clearQueue` when `s.lq = []`) -/
theorem clearQueue_src (c : Ctx χ κ) (d : Nat) (s : State χ κ) (cu : Option Nat) :
    (call c (d+1) .sd "ClearQueue" [] (Heap.ofState s cu)).view =
      .ok (if s.dual then clearQueue s else { s with gq := [] }) s.trials.size .none := by
  unfold call Heap.ofState
  rcases Bool.eq_false_or_eq_true s.dual with hd | hd
  · rw [clearQueueDual_call c d s _ cu hd]; simp only [hd, ↓reduceIte, MOut.view]
  · rw [clearQueue_call c d s _ cu hd]; simp only [hd, Bool.false_eq_true, ↓reduceIte, MOut.view]

theorem clearQueue_src' (c : Ctx χ κ) (d : Nat) (s : State χ κ) (cu : Option Nat) (hlq : s.dual = false → s.lq = []) :
    (call c (d+1) .sd "ClearQueue" [] (Heap.ofState s cu)).view = .ok (clearQueue s) s.trials.size .none := by
  rw [clearQueue_src]
  rcases Bool.eq_false_or_eq_true s.dual with hd | hd
  · simp only [hd, ↓reduceIte]
  · have := hlq hd
    simp only [hd, Bool.false_eq_true, ↓reduceIte, clearQueue]
    rw [← this]

/-- **`GetDataItemWithMaxGlobalR` (base class), source tree = `SD.popMaxGlobal`** (`popExpect`: same new state, same item, same
`IndexError`; `StopIteration` when queue and container are both empty) -/
theorem getDataItemWithMaxGlobalR_src (c : Ctx χ κ) (d : Nat) (s : State χ κ) (cu : Option Nat) (hd : s.dual = false)
    (hcl : Closed s) (hfuel : c.ifuel = s.trials.size) :
    (call c (d+2) .sd "GetDataItemWithMaxGlobalR" [] (Heap.ofState s cu)).view = popExpect c s s.trials.size :=
  getMaxGlobalR_call c d s.trials.size s s.trials.size cu hd hcl.1 hcl.2 (by rw [hfuel]; rfl)

theorem popMaxGlobal_lq (c : Ctx χ κ) (s : State χ κ) (hd : s.dual = false) (hlq : s.lq = []) (s' : State χ κ) (i : Nat) (k : κ)
    (h : SD.popMaxGlobal c.le s = .ok (s', i, k)) : s'.lq = [] ∧ s'.trials.size = s.trials.size := by
  unfold popMaxGlobal at h
  cases hq : s.gq.isEmpty with
  | false =>
    simp only [hq, Bool.false_eq_true, ↓reduceIte] at h
    cases hg : s.gq with
    | nil => rw [hg] at h; cases h
    | cons e t =>
      obtain ⟨k', i'⟩ := e
      rw [hg] at h
      simp only [Except.ok.injEq, Prod.mk.injEq] at h
      rw [← h.1]
      exact ⟨hlq, rfl⟩
  | true =>
    simp only [hq, ↓reduceIte] at h
    cases hg : (refill c.le s).gq with
    | nil => rw [hg] at h; cases h
    | cons e t =>
      obtain ⟨k', i'⟩ := e
      rw [hg] at h
      simp only [Except.ok.injEq, Prod.mk.injEq] at h
      rw [← h.1]
      refine ⟨refill_lq_nondual c s hd, ?_⟩
      show (refill c.le s).trials.size = _
      rw [refill_eq_rstep]
      have : ∀ (t : List Nat) (acc : State χ κ), (t.foldl (rstep c) acc).trials = acc.trials := by
        intro t
        induction t with
        | nil => intro acc; rfl
        | cons j t ih => intro acc; rw [List.foldl_cons, ih, rstep_trials]
      rw [this]; rfl

/-- … on a well-linked non-dual container (no local queue), for every iteration bound `≥ len(_allTrials)`: exactly the model -/
theorem getDataItemWithMaxGlobalR_src_wf (c : Ctx χ κ) (d : Nat) (s : State χ κ) (t : List Nat) (cu : Option Nat)
    (hd : s.dual = false) (hlq : s.lq = []) (hwf : RepL s.trials s.first t) (hfuel : s.trials.size ≤ c.ifuel) :
    (call c (d+2) .sd "GetDataItemWithMaxGlobalR" [] (Heap.ofState s cu)).view =
      View.ofModel ((SD.popMaxGlobal c.le s).map fun r => (r.1, Val.ref r.2.1)) := by
  have hcl := closed_of_repL hwf
  unfold call Heap.ofState
  rw [getMaxGlobalR_call c d s.trials.size s s.trials.size cu hd hcl.1 hcl.2 (walk_of_repL hwf hfuel), popExpect]
  simp only [repL_first_ne hwf, and_false, ↓reduceIte]
  cases hp : SD.popMaxGlobal c.le s with
  | error e => rfl
  | ok r =>
    obtain ⟨s', i, k⟩ := r
    obtain ⟨h1, h2⟩ := popMaxGlobal_lq c s hd hlq s' i k hp
    simp only [Except.map, View.ofModel, h2, hlq]
    rw [← h1]


/-! ### `InsertFirstDataItem`, `GetCount`, `GetLastItem` -/

/-- **`InsertFirstDataItem`, source tree = `SD.insertFirst`** (inherited by the dual class): called with the two freshly
created items (the next two heap objects), for ALL states -/
theorem insertFirstDataItem_src (c : Ctx χ κ) (d : Nat) (s : State χ κ) (l r : Item χ κ) (cu : Option Nat) :
    (call c d .sd "InsertFirstDataItem" [.ref s.trials.size, .ref (s.trials.size + 1)]
      ⟨{ s with trials := (s.trials.push l).push r }, s.trials.size, cu⟩).view =
      .ok (SD.insertFirst s l r) (s.trials.size + 2) .none := by
  have h1 : s.trials.size < ((s.trials.push l).push r).size := by simp only [Array.size_push]; omega
  have h2 : s.trials.size + 1 < ((s.trials.push l).push r).size := by simp only [Array.size_push]; omega
  have harr : (((s.trials.push l).push r).modify s.trials.size fun it => { it with right := some (s.trials.size + 1) }).modify
      (s.trials.size + 1) (fun it => { it with left := some s.trials.size }) =
      (s.trials.push { l with right := some (s.trials.size + 1) }).push { r with left := some s.trials.size } := by
    rw [modify_push_lt _ _ _ _ (by simp only [Array.size_push]; omega), modify_push_size, modify_push_size' _ _ _ _ (by simp)]
  unfold call
  rw [envN_succ, rs_sd_InsertFirstDataItem]
  sd_simp [searchData_InsertFirstDataItemParams, searchData_InsertFirstDataItem, h1, h2, setRight_size, setLeft_size]
  simp only [MOut.view, insertFirst, setLeft, setRight, harr]

/-- **`GetCount`** = `len(_allTrials)` -/
theorem getCount_src (c : Ctx χ κ) (d : Nat) (g : Heap χ κ) :
    call c d .sd "GetCount" [] g = .done g (.nat g.nall) := by
  unfold call
  rw [envN_succ, rs_sd_GetCount]
  sd_simp [searchData_GetCountParams, searchData_GetCount]

/-- **`GetLastItem`**: the item appended last; on an empty list the `IndexError` is caught, a line is printed, `None` is returned -/
theorem getLastItem_src (c : Ctx χ κ) (d : Nat) (g : Heap χ κ) :
    call c d .sd "GetLastItem" [] g = .done g (if g.nall = 0 then .none else .ref (g.nall - 1)) := by
  unfold call
  rw [envN_succ, rs_sd_GetLastItem]
  by_cases h : g.nall = 0
  · sd_simp [searchData_GetLastItemParams, searchData_GetLastItem, excTable, h]
  · sd_simp [searchData_GetLastItemParams, searchData_GetLastItem, excTable, h]

/-! ### the methods of `CharacteristicsQueue` as headline statements -/

/-- **`CharacteristicsQueue.Insert(key, item)`** is the DEPQ contract `SD.qinsert` on the queue of the object -/
theorem characteristicsQueue_Insert_src (c : Ctx χ κ) (d : Nat) (s : State χ κ) (k : κ) (i : Nat) (cu : Option Nat) :
    (call c d .gq "Insert" [.key k, .ref i] (Heap.ofState s cu)).view =
        .ok { s with gq := SD.qIns c.le s s.gq k i } s.trials.size .none ∧
      (call c d .lq "Insert" [.key k, .ref i] (Heap.ofState s cu)).view =
        .ok { s with lq := SD.qIns c.le s s.lq k i } s.trials.size .none := by
  unfold call
  rw [cq_Insert_gq, cq_Insert_lq]
  exact ⟨rfl, rfl⟩

/-- **`CharacteristicsQueue.GetBestItem()`** removes and returns the head (`IndexError` on an empty queue);
**`Clear()`** empties the queue and keeps `maxlen`; **`IsEmpty()`**, **`GetLen()`**, **`GetMaxLen()`** read it -/
theorem characteristicsQueue_src (c : Ctx χ κ) (d : Nat) (s : State χ κ) (cu : Option Nat) :
    (call c d .gq "GetBestItem" [] (Heap.ofState s cu)).view =
        (match s.gq with
         | [] => .err .indexError
         | (k, i) :: t => .ok { s with gq := t } s.trials.size (.pair i k)) ∧
      (call c d .gq "Clear" [] (Heap.ofState s cu)).view = .ok { s with gq := [] } s.trials.size .none ∧
      (call c d .gq "IsEmpty" [] (Heap.ofState s cu)).view = .ok s s.trials.size (.bool s.gq.isEmpty) ∧
      (call c d .gq "GetLen" [] (Heap.ofState s cu)).view = .ok s s.trials.size (.nat s.gq.length) ∧
      (call c d .gq "GetMaxLen" [] (Heap.ofState s cu)).view =
        .ok s s.trials.size (match s.maxlen with | some n => .nat n | none => .none) := by
  unfold call
  rw [cq_GetBestItem_gq, cq_Clear_gq, cq_IsEmpty_gq, cq_GetLen_gq, cq_GetMaxLen_gq]
  refine ⟨?_, rfl, rfl, rfl, rfl⟩
  show (match s.gq with | [] => _ | (k, i) :: t => _ : MOut χ κ).view = _
  cases s.gq with
  | nil => rfl
  | cons e t => obtain ⟨k, i⟩ := e; rfl

/-! ### `CharacteristicsQueue.__init__` -/
theorem ce_depq : calleeTable.lookup "DEPQ" = some .depqNew := rfl
theorem lv_baseQueue : lvalTable.lookup "self.__baseQueue" = some .baseQueue := rfl
theorem rs_gq_init (b : Bool) : resolve b .gq "__init__" = some (.cq, characteristicsQueue_initParams, characteristicsQueue_init) := rfl

/-- **`CharacteristicsQueue.__init__(maxlen)`**: an empty queue with that `maxlen` -/
theorem characteristicsQueue_init_src (c : Ctx χ κ) (d : Nat) (s : State χ κ) (m : Option Nat) (cu : Option Nat) :
    (call c d .gq "__init__" [match m with | some n => .nat n | none => .none] (Heap.ofState s cu)).view =
      .ok { s with gq := [], maxlen := m } s.trials.size .none := by
  unfold call
  rw [envN_succ, rs_gq_init]
  cases m <;> sd_simp [characteristicsQueue_initParams, characteristicsQueue_init, ce_depq, lv_baseQueue] <;> rfl
/-! ### the dual-queue `GetDataItemWithMaxGlobalR` / `GetDataItemWithMaxLocalR` = `SD.popCurrent` -/

/-- "refill if the queue is empty, then pop": `none` when the queue is still empty -/
def popStep (c : Ctx χ κ) (glob : Bool) (s : State χ κ) : Option (State χ κ × Nat × κ) :=
  let s1 := if (selq glob s).isEmpty then refill c.le s else s
  match selq glob s1 with
  | [] => none
  | (k, i) :: t => some (setq glob s1 t, i, k)

/-- `SD.popCurrent` with "fuel exhausted" (`none`) kept apart from the model's `IndexError` -/
def popCurrentO (c : Ctx χ κ) (glob : Bool) : Nat → State χ κ → Option (Except Err (State χ κ × Nat × κ))
  | 0, _ => none
  | fuel+1, s =>
    match popStep c glob s with
    | none => some (.error .indexError)
    | some (s', i, k) =>
      match s'.trials[i]? with
      | none => some (.error .attributeError)
      | some it => if c.ne k (curOf glob it) then popCurrentO c glob fuel s' else some (.ok (s', i, k))

/-- `popCurrentO` refines the model's `popCurrent`: the model reports exhausted fuel as `IndexError` -/
theorem popCurrent_eq_O (c : Ctx χ κ) (glob : Bool) (fuel : Nat) (s : State χ κ) :
    SD.popCurrent c.le c.ne glob fuel s = (popCurrentO c glob fuel s).getD (.error .indexError) := by
  induction fuel generalizing s with
  | zero => rfl
  | succ n ih =>
    cases glob
    · simp only [popCurrent, popCurrentO, popStep, selq, setq, curOf, Bool.false_eq_true, ↓reduceIte]
      cases hq : (if s.lq.isEmpty = true then refill c.le s else s).lq with
      | nil => rfl
      | cons e t =>
        obtain ⟨k, i⟩ := e
        simp only []
        cases ht : (if s.lq.isEmpty = true then refill c.le s else s).trials[i]? with
        | none => rfl
        | some it =>
          simp only []
          cases c.ne k it.localR with
          | true => simp only [↓reduceIte]; exact ih _
          | false => rfl
    · simp only [popCurrent, popCurrentO, popStep, selq, setq, curOf, ↓reduceIte]
      cases hq : (if s.gq.isEmpty = true then refill c.le s else s).gq with
      | nil => rfl
      | cons e t =>
        obtain ⟨k, i⟩ := e
        simp only []
        cases ht : (if s.gq.isEmpty = true then refill c.le s else s).trials[i]? with
        | none => rfl
        | some it =>
          simp only []
          cases c.ne k it.globalR with
          | true => simp only [↓reduceIte]; exact ih _
          | false => rfl

theorem mem_qinsertRaw_sub (le : κ → κ → Bool) (k : κ) (v : Nat) (q : List (κ × Nat)) (e : κ × Nat)
    (h : e ∈ qinsertRaw le k v q) : e = (k, v) ∨ e ∈ q := by
  induction q with
  | nil => simp only [qinsertRaw, List.mem_singleton] at h; exact Or.inl h
  | cons a t ih =>
    obtain ⟨k', v'⟩ := a
    simp only [qinsertRaw] at h
    by_cases hle : le k k' = true
    · simp only [hle, ↓reduceIte, List.mem_cons] at h
      rcases h with h | h
      · exact Or.inr (h ▸ List.mem_cons_self)
      · rcases ih h with h | h
        · exact Or.inl h
        · exact Or.inr (List.mem_cons_of_mem _ h)
    · simp only [hle, Bool.false_eq_true, ↓reduceIte, List.mem_cons] at h
      rcases h with h | h
      · exact Or.inl h
      · exact Or.inr (List.mem_cons.2 h)

theorem mem_qinsert_sub (le : κ → κ → Bool) (m : Option Nat) (k : κ) (v : Nat) (q : List (κ × Nat)) (e : κ × Nat)
    (h : e ∈ qinsert le m k v q) : e = (k, v) ∨ e ∈ q := by
  unfold qinsert at h
  cases m with
  | none => exact mem_qinsertRaw_sub le k v q e h
  | some n =>
    simp only at h
    by_cases hn : n < (qinsertRaw le k v q).length
    · simp only [hn, ↓reduceIte] at h
      exact mem_qinsertRaw_sub le k v q e (List.dropLast_subset _ h)
    · simp only [hn, ↓reduceIte] at h
      exact mem_qinsertRaw_sub le k v q e h

/-- every queue entry refers to one of the first `N` heap objects -/
def QIn (N : Nat) (s : State χ κ) : Prop := (∀ e ∈ s.gq, e.2 < N) ∧ (∀ e ∈ s.lq, e.2 < N)

theorem rstep_qin (c : Ctx χ κ) (N : Nat) (acc : State χ κ) (i : Nat) (hi : i < N) (h : QIn N acc) : QIn N (rstep c acc i) := by
  unfold rstep
  cases hg : acc.trials[i]? with
  | none => exact h
  | some it =>
    refine ⟨fun e he => ?_, fun e he => ?_⟩
    · rcases mem_qinsert_sub _ _ _ _ _ _ he with rfl | he
      · exact hi
      · exact h.1 e he
    · by_cases hd : acc.dual = true
      · simp only [hd, ↓reduceIte] at he
        rcases mem_qinsert_sub _ _ _ _ _ _ he with rfl | he
        · exact hi
        · exact h.2 e he
      · simp only [hd, Bool.false_eq_true, ↓reduceIte] at he
        exact h.2 e he

theorem foldl_rstep_qin (c : Ctx χ κ) (N : Nat) (t : List Nat) (ht : ∀ i ∈ t, i < N) :
    ∀ acc : State χ κ, QIn N acc → QIn N (t.foldl (rstep c) acc) := by
  induction t with
  | nil => intro acc h; exact h
  | cons i t ih =>
    intro acc h
    rw [List.foldl_cons]
    exact ih (fun j hj => ht j (List.mem_cons_of_mem _ hj)) _ (rstep_qin c N acc i (ht i List.mem_cons_self) h)

theorem foldl_rstep_trials (c : Ctx χ κ) (t : List Nat) : ∀ acc : State χ κ, (t.foldl (rstep c) acc).trials = acc.trials := by
  induction t with
  | nil => intro acc; rfl
  | cons j t ih => intro acc; rw [List.foldl_cons, ih, rstep_trials]

theorem rstep_first (c : Ctx χ κ) (acc : State χ κ) (i : Nat) : (rstep c acc i).first = acc.first := by
  unfold rstep; cases acc.trials[i]? <;> rfl

theorem foldl_rstep_first (c : Ctx χ κ) (t : List Nat) : ∀ acc : State χ κ, (t.foldl (rstep c) acc).first = acc.first := by
  induction t with
  | nil => intro acc; rfl
  | cons j t ih => intro acc; rw [List.foldl_cons, ih, rstep_first]

theorem foldl_rstep_dual (c : Ctx χ κ) (t : List Nat) : ∀ acc : State χ κ, (t.foldl (rstep c) acc).dual = acc.dual := by
  induction t with
  | nil => intro acc; rfl
  | cons j t ih => intro acc; rw [List.foldl_cons, ih, rstep_dual]

theorem refill_trials' (c : Ctx χ κ) (s : State χ κ) : (refill c.le s).trials = s.trials := by
  rw [refill_eq_rstep, foldl_rstep_trials]; rfl
theorem refill_first' (c : Ctx χ κ) (s : State χ κ) : (refill c.le s).first = s.first := by
  rw [refill_eq_rstep, foldl_rstep_first]; rfl
theorem refill_dual' (c : Ctx χ κ) (s : State χ κ) : (refill c.le s).dual = s.dual := by
  rw [refill_eq_rstep, foldl_rstep_dual]; rfl

theorem walk_mem_lt {s : State χ κ} {N : Nat} (hcl : ClosedA s.trials N) :
    ∀ (n : Nat) (o : Option Nat), InR N o → ∀ i ∈ walk s n o, i < N := by
  intro n
  induction n with
  | zero => intro o _ i hi; cases o <;> cases hi
  | succ n ih =>
    intro o ho i hi
    cases o with
    | none => cases hi
    | some j =>
      obtain ⟨it, hit, -, hr⟩ := hcl.get (ho j rfl)
      simp only [walk, hit, Option.bind_some, List.mem_cons] at hi
      rcases hi with rfl | hi
      · exact ho _ rfl
      · exact ih it.right hr i hi

/-- what the dual-queue pops need of the container: it is a `SearchDataDualQueue`, not empty, closed, walked completely by the
iteration bound, and its queues refer to existing items.  All of it is preserved by the pops. -/
structure DInv (c : Ctx χ κ) (N : Nat) (s : State χ κ) : Prop where
  dual : s.dual = true
  first : ∃ i0, s.first = some i0
  inr : InR N s.first
  closed : ClosedA s.trials N
  fuel : walk s c.ifuel s.first = traversal s
  qin : QIn N s

theorem traversal_mem_lt {c : Ctx χ κ} {N : Nat} {s : State χ κ} (h : DInv c N s) : ∀ i ∈ traversal s, i < N := by
  rw [← h.fuel]
  exact walk_mem_lt h.closed _ _ h.inr

theorem DInv_refill {c : Ctx χ κ} {N : Nat} {s : State χ κ} (h : DInv c N s) : DInv c N (refill c.le s) := by
  have ht := refill_trials' c s
  have hf := refill_first' c s
  refine ⟨by rw [refill_dual', h.dual], by rw [hf]; exact h.first, by rw [hf]; exact h.inr, by rw [ht]; exact h.closed, ?_, ?_⟩
  · rw [walk_congr ht, hf, traversal_congr ht hf]; exact h.fuel
  · rw [refill_eq_rstep]
    exact foldl_rstep_qin c N _ (traversal_mem_lt h) _ ⟨fun e he => absurd he List.not_mem_nil, fun e he => absurd he List.not_mem_nil⟩

theorem DInv_setq {c : Ctx χ κ} {N : Nat} {s : State χ κ} (h : DInv c N s) (glob : Bool) (e : κ × Nat) (t : List (κ × Nat))
    (hq : selq glob s = e :: t) : DInv c N (setq glob s t) ∧ e.2 < N := by
  have ht : (setq glob s t).trials = s.trials := setq_trials glob s t
  have hf : (setq glob s t).first = s.first := setq_first glob s t
  refine ⟨⟨by rw [setq_dual, h.dual], by rw [hf]; exact h.first, by rw [hf]; exact h.inr, by rw [ht]; exact h.closed, ?_, ?_⟩, ?_⟩
  · rw [walk_congr ht, hf, traversal_congr ht hf]; exact h.fuel
  · cases glob
    · simp only [selq, Bool.false_eq_true, ↓reduceIte] at hq
      exact ⟨h.qin.1, fun e' he' => h.qin.2 e' (by rw [hq]; exact List.mem_cons_of_mem _ he')⟩
    · simp only [selq, ↓reduceIte] at hq
      exact ⟨fun e' he' => h.qin.1 e' (by rw [hq]; exact List.mem_cons_of_mem _ he'), h.qin.2⟩
  · cases glob
    · simp only [selq, Bool.false_eq_true, ↓reduceIte] at hq
      exact h.qin.2 e (by rw [hq]; exact List.mem_cons_self)
    · simp only [selq, ↓reduceIte] at hq
      exact h.qin.1 e (by rw [hq]; exact List.mem_cons_self)

theorem popStep_inv {c : Ctx χ κ} {N : Nat} {s : State χ κ} (h : DInv c N s) (glob : Bool) (s' : State χ κ) (i : Nat) (k : κ)
    (hp : popStep c glob s = some (s', i, k)) : DInv c N s' ∧ i < N := by
  unfold popStep at hp
  have h1 : DInv c N (if (selq glob s).isEmpty then refill c.le s else s) := by
    by_cases he : (selq glob s).isEmpty = true
    · simp only [he, ↓reduceIte]; exact DInv_refill h
    · simp only [he, Bool.false_eq_true, ↓reduceIte]; exact h
  revert hp
  generalize (if (selq glob s).isEmpty then refill c.le s else s) = s1 at h1
  intro hp
  cases hq : selq glob s1 with
  | nil => simp only [hq] at hp; cases hp
  | cons e t =>
    obtain ⟨k', i'⟩ := e
    simp only [hq, Option.some.injEq, Prod.mk.injEq] at hp
    obtain ⟨rfl, rfl, rfl⟩ := hp
    exact DInv_setq h1 glob _ t hq

/-- how the outcome of the `while` loop of the dual-queue pops is read against `popCurrentO` -/
def LoopRes (na : Nat) (o : Out χ κ) : Option (Except Err (State χ κ × Nat × κ)) → Prop
  | none => o = .outOfFuel
  | some (.error e) => ∃ st, o = .raised st (Exc.ofErr e)
  | some (.ok (s2, i2, k2)) => ∃ cu2 l2, o = .normal ⟨⟨s2, na, cu2⟩, l2⟩ ∧ l2.lookup "bestItem" = some (.pair i2 k2)

/-- what "refill if empty; `bestItem = GetBestItem()`" does (`popStep`) -/
def StepSpec (c : Ctx χ κ) (glob : Bool) (N : Nat) (step : IState χ κ → Out χ κ) : Prop :=
  ∀ s na cu l, DInv c N s → ∃ cu' g', step ⟨⟨s, na, cu⟩, l⟩ =
    match popStep c glob s with
    | none => .raised ⟨g', l⟩ .indexError
    | some (s', i, k) => .normal ⟨⟨s', na, cu'⟩, ("bestItem", .pair i k) :: l⟩

/-- what the loop condition `bestItem[1] != bestItem[0].<characteristic>` evaluates to -/
def CndSpec (c : Ctx χ κ) (glob : Bool) (cnd : IState χ κ → EOut χ κ) : Prop :=
  ∀ (g : Heap χ κ) l i k it, l.lookup "bestItem" = some (.pair i k) → g.s.trials[i]? = some it →
    cnd ⟨g, l⟩ = .val (.bool (c.ne k (curOf glob it))) g

theorem popLoop (c : Ctx χ κ) (glob : Bool) (N : Nat) (cnd : IState χ κ → EOut χ κ) (step : IState χ κ → Out χ κ)
    (hcnd : CndSpec c glob cnd) (hstep : StepSpec c glob N step) :
    ∀ (n : Nat) (s : State χ κ) (na : Nat) (cu : Option Nat) (l : Locals χ κ) (i : Nat) (k : κ) (it : Item χ κ), DInv c N s →
      l.lookup "bestItem" = some (.pair i k) → s.trials[i]? = some it →
      LoopRes na (whileLoop n cnd step ⟨⟨s, na, cu⟩, l⟩)
        (if c.ne k (curOf glob it) then popCurrentO c glob n s else some (.ok (s, i, k))) := by
  intro n
  induction n with
  | zero =>
    intro s na cu l i k it hinv hl hit
    rw [whileLoop, hcnd ⟨s, na, cu⟩ l i k it hl hit]
    cases hne : c.ne k (curOf glob it) with
    | true => simp only [↓reduceIte, popCurrentO, LoopRes]
    | false => simp only [Bool.false_eq_true, ↓reduceIte, LoopRes]; exact ⟨cu, l, rfl, hl⟩
  | succ n ih =>
    intro s na cu l i k it hinv hl hit
    rw [whileLoop, hcnd ⟨s, na, cu⟩ l i k it hl hit]
    cases hne : c.ne k (curOf glob it) with
    | false => simp only [Bool.false_eq_true, ↓reduceIte, LoopRes]; exact ⟨cu, l, rfl, hl⟩
    | true =>
      simp only [↓reduceIte, popCurrentO]
      obtain ⟨cu', g', hs⟩ := hstep s na cu l hinv
      rw [hs]
      cases hp : popStep c glob s with
      | none => simp only [LoopRes, Exc.ofErr]; exact ⟨_, rfl⟩
      | some r =>
        obtain ⟨s', i', k'⟩ := r
        obtain ⟨hinv', hi'⟩ := popStep_inv hinv glob s' i' k' hp
        obtain ⟨it', hit', -, -⟩ := hinv'.closed.get hi'
        simp only [hit']
        exact ih s' na cu' (("bestItem", .pair i' k') :: l) i' k' it' hinv'
          (by simp only [List.lookup_cons, beq_self_eq_true]) hit'

/-- the two statements "refill if empty; `bestItem = GetBestItem()`" of the global / local pop -/
def pairG : List Stmt := [
    .ite "self._RGlobalQueue.IsEmpty()" [.call [] "self.RefillQueue" []] [],
    .call ["bestItem"] "self._RGlobalQueue.GetBestItem" []]
def pairL : List Stmt := [
    .ite "self.__RLocalQueue.IsEmpty()" [.call [] "self.RefillQueue" []] [],
    .call ["bestItem"] "self.__RLocalQueue.GetBestItem" []]

theorem popG_shape : searchDataDualQueue_GetDataItemWithMaxGlobalR =
    pairG ++ [.while "bestItem[1] != bestItem[0].globalR" pairG, .ret "bestItem[0]"] := rfl
theorem popL_shape : searchDataDualQueue_GetDataItemWithMaxLocalR =
    pairL ++ [.while "bestItem[1] != bestItem[0].localR" pairL, .ret "bestItem[0]"] := rfl

theorem refillDual_done (c : Ctx χ κ) (d N : Nat) (s : State χ κ) (na : Nat) (cu : Option Nat) (h : DInv c N s) :
    ∃ cur', envN c (d+3) .sd "RefillQueue" [] ⟨s, na, cu⟩ = .done ⟨refill c.le s, na, cur'⟩ .none := by
  obtain ⟨cur', hr⟩ := refillDual_call c d N s na cu h.dual h.inr h.closed
  obtain ⟨i0, hfi⟩ := h.first
  refine ⟨cur', ?_⟩
  rw [hr, h.fuel, ← refill_eq_rstep, hfi]

theorem pairG_spec (c : Ctx χ κ) (d N : Nat) : StepSpec c true N (fun st => execList c (envN c (d+3)) ⟨.dual, .sd⟩ pairG st) := by
  intro s na cu l h
  have hemp : ∀ g : Heap χ κ, envN c (d+3) .gq "IsEmpty" [] g = .done g (.bool g.s.gq.isEmpty) := cq_IsEmpty_gq c (d+2)
  have hbest : ∀ g : Heap χ κ, envN c (d+3) .gq "GetBestItem" [] g =
      match g.s.gq with
      | [] => .raised g .indexError
      | (k, i) :: t => .done { g with s := { g.s with gq := t } } (.pair i k) := cq_GetBestItem_gq c (d+2)
  obtain ⟨cur', hrf⟩ := refillDual_done c d N s na cu h
  cases hq : s.gq with
  | cons e t =>
    obtain ⟨k, i⟩ := e
    refine ⟨cu, ⟨s, na, cu⟩, ?_⟩
    sd_simp [pairG, hemp, hbest, hq, List.isEmpty_cons, popStep, selq, setq]
  | nil =>
    cases hq' : (refill c.le s).gq with
    | nil =>
      refine ⟨cu, ⟨refill c.le s, na, cur'⟩, ?_⟩
      sd_simp [pairG, hemp, hbest, hq, List.isEmpty_nil, hrf, hq', popStep, selq, setq]
    | cons e t =>
      obtain ⟨k, i⟩ := e
      refine ⟨cur', ⟨s, na, cu⟩, ?_⟩
      sd_simp [pairG, hemp, hbest, hq, List.isEmpty_nil, hrf, hq', popStep, selq, setq]

theorem pairL_spec (c : Ctx χ κ) (d N : Nat) : StepSpec c false N (fun st => execList c (envN c (d+3)) ⟨.dual, .sd⟩ pairL st) := by
  intro s na cu l h
  have hemp : ∀ g : Heap χ κ, envN c (d+3) .lq "IsEmpty" [] g = .done g (.bool g.s.lq.isEmpty) := cq_IsEmpty_lq c (d+2)
  have hbest : ∀ g : Heap χ κ, envN c (d+3) .lq "GetBestItem" [] g =
      match g.s.lq with
      | [] => .raised g .indexError
      | (k, i) :: t => .done { g with s := { g.s with lq := t } } (.pair i k) := cq_GetBestItem_lq c (d+2)
  obtain ⟨cur', hrf⟩ := refillDual_done c d N s na cu h
  cases hq : s.lq with
  | cons e t =>
    obtain ⟨k, i⟩ := e
    refine ⟨cu, ⟨s, na, cu⟩, ?_⟩
    sd_simp [pairL, hemp, hbest, hq, List.isEmpty_cons, popStep, selq, setq]
  | nil =>
    cases hq' : (refill c.le s).lq with
    | nil =>
      refine ⟨cu, ⟨refill c.le s, na, cur'⟩, ?_⟩
      sd_simp [pairL, hemp, hbest, hq, List.isEmpty_nil, hrf, hq', popStep, selq, setq]
    | cons e t =>
      obtain ⟨k, i⟩ := e
      refine ⟨cur', ⟨s, na, cu⟩, ?_⟩
      sd_simp [pairL, hemp, hbest, hq, List.isEmpty_nil, hrf, hq', popStep, selq, setq]

theorem cndG_spec (c : Ctx χ κ) (env : MEnv χ κ) (fr : Frame) :
    CndSpec c true (fun s => evalExpr c env fr s.l (.ne (.idx1 (.var "bestItem")) (.acc .globalR (.idx0 (.var "bestItem")))) s.g) := by
  intro g l i k it hl hit
  sd_simp [hl, hit, curOf]

theorem cndL_spec (c : Ctx χ κ) (env : MEnv χ κ) (fr : Frame) :
    CndSpec c false (fun s => evalExpr c env fr s.l (.ne (.idx1 (.var "bestItem")) (.acc .localR (.idx0 (.var "bestItem")))) s.g) := by
  intro g l i k it hl hit
  sd_simp [hl, hit, curOf]

/-- what the dual-queue pops must do according to the model (`popCurrentO` = `SD.popCurrent` with exhausted fuel kept apart) -/
def popCurExpect (c : Ctx χ κ) (glob : Bool) (s : State χ κ) (na : Nat) : View χ κ :=
  match popCurrentO c glob (c.wfuel + 1) s with
  | none => .outOfFuel
  | some (.ok (s', i, _)) => .ok s' na (.ref i)
  | some (.error e) => .err (Exc.ofErr e)

/-- the tail `while …: …; return bestItem[0]` after the first pop -/
theorem popTail (c : Ctx χ κ) (env : MEnv χ κ) (glob : Bool) (N : Nat) (cond : String) (ce : Expr) (pair : List Stmt)
    (hce : exprTable.lookup cond = some ce)
    (hcnd : CndSpec c glob (fun s => evalExpr c env ⟨.dual, .sd⟩ s.l ce s.g))
    (hstep : StepSpec c glob N (fun st => execList c env ⟨.dual, .sd⟩ pair st))
    (s : State χ κ) (na : Nat) (cu : Option Nat) (l : Locals χ κ) (i : Nat) (k : κ) (it : Item χ κ) (hinv : DInv c N s)
    (hit : s.trials[i]? = some it) :
    (match execList c env ⟨.dual, .sd⟩ [.while cond pair, .ret "bestItem[0]"] ⟨⟨s, na, cu⟩, ("bestItem", .pair i k) :: l⟩ with
      | .normal st => MOut.done st.g .none
      | .returned st v => .done st.g v
      | .raised st e => .raised st.g e
      | .stuck => .stuck
      | .outOfFuel => .outOfFuel : MOut χ κ).view =
    match (if c.ne k (curOf glob it) then popCurrentO c glob c.wfuel s else some (.ok (s, i, k))) with
    | none => .outOfFuel
    | some (.ok (s', i, _)) => .ok s' na (.ref i)
    | some (.error e) => .err (Exc.ofErr e) := by
  have h := popLoop c glob N _ _ hcnd hstep c.wfuel s na cu (("bestItem", .pair i k) :: l) i k it hinv
    (by simp only [List.lookup_cons, beq_self_eq_true]) hit
  simp only [execList, execStmt, hce]
  revert h
  generalize (if c.ne k (curOf glob it) then popCurrentO c glob c.wfuel s else some (.ok (s, i, k))) = r
  intro h
  match r, h with
  | none, h => simp only [LoopRes] at h; simp only [h, MOut.view]
  | some (.error e), h => obtain ⟨st, h⟩ := h; simp only [h, MOut.view]
  | some (.ok (s2, i2, k2)), h =>
    obtain ⟨cu2, l2, h, hl2⟩ := h
    simp only [h]
    sd_simp [hl2]
    simp only [MOut.view]

theorem popStart (c : Ctx χ κ) (glob : Bool) (N : Nat) (s : State χ κ) (hinv : DInv c N s) :
    popCurrentO c glob (c.wfuel + 1) s =
      match popStep c glob s with
      | none => some (.error .indexError)
      | some (s', i, k) =>
        match s'.trials[i]? with
        | none => some (.error .attributeError)
        | some it => if c.ne k (curOf glob it) then popCurrentO c glob c.wfuel s' else some (.ok (s', i, k)) := rfl

/-- **`SearchDataDualQueue.GetDataItemWithMaxGlobalR`, source tree = `SD.popCurrent … glob := true`** -/
theorem popG_call (c : Ctx χ κ) (d N : Nat) (s : State χ κ) (na : Nat) (cu : Option Nat) (hinv : DInv c N s) :
    (envN c (d+4) .sd "GetDataItemWithMaxGlobalR" [] ⟨s, na, cu⟩).view = popCurExpect c true s na := by
  have hres : resolve (Heap.s ⟨s, na, cu⟩).dual .sd "GetDataItemWithMaxGlobalR" =
      some (.dual, searchDataDualQueue_GetDataItemWithMaxGlobalRParams, searchDataDualQueue_GetDataItemWithMaxGlobalR) := by
    show resolve s.dual _ _ = _
    rw [hinv.dual]; rfl
  rw [envN_succ, hres, popG_shape, popCurExpect, popStart c true N s hinv]
  simp only [runBody, bindParams, searchDataDualQueue_GetDataItemWithMaxGlobalRParams, List.length_nil, ↓reduceIte,
    List.zip_nil_right, List.zip_nil_left, execList_append _ _ _ pairG]
  obtain ⟨cu', g', hs⟩ := pairG_spec c d N s na cu [("self", .obj .sd)] hinv
  simp only [] at hs
  rw [hs]
  cases hp : popStep c true s with
  | none => simp only [MOut.view, Exc.ofErr]
  | some r =>
    obtain ⟨s', i, k⟩ := r
    obtain ⟨hinv', hi⟩ := popStep_inv hinv true s' i k hp
    obtain ⟨it, hit, -, -⟩ := hinv'.closed.get hi
    simp only [hit]
    exact popTail c (envN c (d+3)) true N _ _ pairG ex_32 (cndG_spec c _ _) (pairG_spec c d N) s' na cu' _ i k it hinv' hit
/-- **`SearchDataDualQueue.GetDataItemWithMaxLocalR`, source tree = `SD.popCurrent … glob := false`** -/
theorem popL_call (c : Ctx χ κ) (d N : Nat) (s : State χ κ) (na : Nat) (cu : Option Nat) (hinv : DInv c N s) :
    (envN c (d+4) .sd "GetDataItemWithMaxLocalR" [] ⟨s, na, cu⟩).view = popCurExpect c false s na := by
  have hres : resolve (Heap.s ⟨s, na, cu⟩).dual .sd "GetDataItemWithMaxLocalR" =
      some (.dual, searchDataDualQueue_GetDataItemWithMaxLocalRParams, searchDataDualQueue_GetDataItemWithMaxLocalR) := by
    show resolve s.dual _ _ = _
    rw [hinv.dual]; rfl
  rw [envN_succ, hres, popL_shape, popCurExpect, popStart c false N s hinv]
  simp only [runBody, bindParams, searchDataDualQueue_GetDataItemWithMaxLocalRParams, List.length_nil, ↓reduceIte,
    List.zip_nil_right, List.zip_nil_left, execList_append _ _ _ pairL]
  obtain ⟨cu', g', hs⟩ := pairL_spec c d N s na cu [("self", .obj .sd)] hinv
  simp only [] at hs
  rw [hs]
  cases hp : popStep c false s with
  | none => simp only [MOut.view, Exc.ofErr]
  | some r =>
    obtain ⟨s', i, k⟩ := r
    obtain ⟨hinv', hi⟩ := popStep_inv hinv false s' i k hp
    obtain ⟨it, hit, -, -⟩ := hinv'.closed.get hi
    simp only [hit]
    exact popTail c (envN c (d+3)) false N _ _ pairL ex_33 (cndL_spec c _ _) (pairL_spec c d N) s' na cu' _ i k it hinv' hit

/-- the model's `popCurrent` in the picture of an outcome -/
def popCurModel (c : Ctx χ κ) (glob : Bool) (s : State χ κ) (na : Nat) : View χ κ :=
  match SD.popCurrent c.le c.ne glob (c.wfuel + 1) s with
  | .ok (s', i, _) => .ok s' na (.ref i)
  | .error e => .err (Exc.ofErr e)

/-- unless the `while` bound is hit, `popCurExpect` IS the model's `popCurrent` at fuel `wfuel + 1` (the model itself reports an
exhausted fuel as `IndexError`) -/
theorem popCurExpect_model (c : Ctx χ κ) (glob : Bool) (s : State χ κ) (na : Nat) :
    popCurExpect c glob s na = .outOfFuel ∨ popCurExpect c glob s na = popCurModel c glob s na := by
  unfold popCurExpect popCurModel
  rw [popCurrent_eq_O]
  cases popCurrentO c glob (c.wfuel + 1) s with
  | none => exact Or.inl rfl
  | some r =>
    right
    simp only [Option.getD_some]
    cases r with
    | error e => rfl
    | ok v => rfl

/-- **the dual-queue pops, source tree = model** (`popCurExpect`, see `popCurExpect_model`), on a non-empty
`SearchDataDualQueue` without dangling references, with the iteration bound of the model -/
theorem getDataItemWithMaxR_dual_src (c : Ctx χ κ) (d : Nat) (s : State χ κ) (cu : Option Nat) (hd : s.dual = true)
    (hcl : Closed s) (hne : s.first ≠ none) (hq : QIn s.trials.size s) (hfuel : c.ifuel = s.trials.size) :
    (call c (d+3) .sd "GetDataItemWithMaxGlobalR" [] (Heap.ofState s cu)).view = popCurExpect c true s s.trials.size ∧
      (call c (d+3) .sd "GetDataItemWithMaxLocalR" [] (Heap.ofState s cu)).view = popCurExpect c false s s.trials.size := by
  have hinv : DInv c s.trials.size s :=
    ⟨hd, by cases hf : s.first with
            | none => exact absurd hf hne
            | some i => exact ⟨i, rfl⟩, hcl.1, hcl.2, by rw [hfuel]; rfl, hq⟩
  exact ⟨popG_call c d _ s _ cu hinv, popL_call c d _ s _ cu hinv⟩

/-- … on a well-linked dual container, for every iteration bound `≥ len(_allTrials)` -/
theorem getDataItemWithMaxR_dual_src_wf (c : Ctx χ κ) (d : Nat) (s : State χ κ) (t : List Nat) (cu : Option Nat)
    (hd : s.dual = true) (hwf : RepL s.trials s.first t) (hq : QIn s.trials.size s) (hfuel : s.trials.size ≤ c.ifuel) :
    (call c (d+3) .sd "GetDataItemWithMaxGlobalR" [] (Heap.ofState s cu)).view = popCurExpect c true s s.trials.size ∧
      (call c (d+3) .sd "GetDataItemWithMaxLocalR" [] (Heap.ofState s cu)).view = popCurExpect c false s s.trials.size := by
  have hcl := closed_of_repL hwf
  have hinv : DInv c s.trials.size s :=
    ⟨hd, by cases hf : s.first with
            | none => exact absurd hf (repL_first_ne hwf)
            | some i => exact ⟨i, rfl⟩, hcl.1, hcl.2, walk_of_repL hwf hfuel, hq⟩
  exact ⟨popG_call c d _ s _ cu hinv, popL_call c d _ s _ cu hinv⟩
theorem rs_sd_SaveProgress (b : Bool) : resolve b .sd "SaveProgress" = some (.base, searchData_SaveProgressParams, searchData_SaveProgress) := by
  cases b <;> rfl
theorem rs_sd_LoadProgress (b : Bool) : resolve b .sd "LoadProgress" = some (.base, searchData_LoadProgressParams, searchData_LoadProgress) := by
  cases b <;> rfl

/-- **`SaveProgress` / `LoadProgress`** have empty bodies: nothing happens, `None` is returned -/
theorem saveLoadProgress_src (c : Ctx χ κ) (d : Nat) (g : Heap χ κ) (v : Val χ κ) :
    call c d .sd "SaveProgress" [v] g = .done g .none ∧ call c d .sd "LoadProgress" [v] g = .done g .none := by
  unfold call
  rw [envN_succ, envN_succ, rs_sd_SaveProgress, rs_sd_LoadProgress]
  constructor <;> sd_simp [searchData_SaveProgressParams, searchData_SaveProgress, searchData_LoadProgressParams, searchData_LoadProgress]
end
end SDInterp

/-! ## Non-vacuity, and what the ties exclude: concrete runs on small containers (`χ = κ = ℕ`) -/
namespace SDInterp.Examples
open SD Gen.ProcSrc Gen.SearchDataCtl

/-- comparisons of `ℕ`, iteration bound `n`, `while` bound 10 -/
def C (n : Nat) : Ctx Nat Nat :=
  { lt := fun a b => decide (a < b), le := fun a b => decide (a ≤ b), ne := fun a b => a != b, ifuel := n, wfuel := 10 }

def mk (x g : Nat) (lR : Nat := 0) : Item Nat Nat := { x := x, globalR := g, localR := lR }

/-- a decidable picture of an item: `x`, `left`, `right`, `globalR`, `localR` -/
structure ItemS where
  x : Nat
  left : Option Nat
  right : Option Nat
  gR : Nat
  lR : Nat
deriving DecidableEq

/-- a decidable picture of a state -/
structure StateS where
  trials : List ItemS
  first : Option Nat
  gq : List (Nat × Nat)
  lq : List (Nat × Nat)
  maxlen : Option Nat
  dual : Bool
deriving DecidableEq

def snapS (s : State Nat Nat) : StateS :=
  { trials := s.trials.toList.map fun it => ⟨it.x, it.left, it.right, it.globalR, it.localR⟩, first := s.first, gq := s.gq,
    lq := s.lq, maxlen := s.maxlen, dual := s.dual }

/-- a decidable picture of an outcome -/
inductive Snap where
  | ok (s : StateS) (nall : Nat) (v : Val Nat Nat)
  | err (e : Exc)
  | stuck
  | outOfFuel
deriving DecidableEq

def snap (v : View Nat Nat) : Snap :=
  match v with
  | .ok s na r => .ok (snapS s) na r
  | .err e => .err e
  | .stuck => .stuck
  | .outOfFuel => .outOfFuel

/-- the container after `InsertFirstDataItem(0, 100)`, then `InsertDataItem(50)`, `InsertDataItem(25, hint = item 2)`;
`maxlen = 2` -/
def s2 : State Nat Nat := SD.insertFirst { maxlen := some 2 } (mk 0 0) (mk 100 7)
def s3 : State Nat Nat := match SD.insert (C 0).lt (C 0).le s2 (mk 50 3) none with | .ok s => s | .error _ => s2
def s4 : State Nat Nat := match SD.insert (C 0).lt (C 0).le s3 (mk 25 9) (some 2) with | .ok s => s | .error _ => s3

example : snapS s4 = ⟨[⟨0, none, some 3, 0, 0⟩, ⟨100, some 2, none, 7, 0⟩, ⟨50, some 3, some 1, 3, 0⟩, ⟨25, some 0, some 2, 9, 0⟩],
    some 0, [(9, 3), (3, 2)], [], some 2, false⟩ := by decide +kernel

/-- the interpreter RUN on the generated trees gives the model's results: `InsertFirstDataItem`, `InsertDataItem` without and
with hint (the second one evicts through `maxlen`), `FindDataItemByOneDimensionalPoint`, `GetDataItemWithMaxGlobalR` twice and
a third time through `RefillQueue` -/
example : snap (call (C 0) 0 .sd "InsertFirstDataItem" [.ref 0, .ref 1] ⟨{ maxlen := some 2, trials := #[mk 0 0, mk 100 7] }, 0, none⟩).view =
      .ok (snapS s2) 2 .none ∧
    snap (call (C 2) 2 .sd "InsertDataItem" [.ref 2, .none] (Heap.pending s2 (mk 50 3))).view = .ok (snapS s3) 3 .none ∧
    snap (call (C 3) 2 .sd "InsertDataItem" [.ref 3, .ref 2] (Heap.pending s3 (mk 25 9))).view = .ok (snapS s4) 4 .none ∧
    snap (call (C 4) 1 .sd "FindDataItemByOneDimensionalPoint" [.coord 30] (Heap.ofState s4)).view =
      .ok (snapS s4) 4 (.ref 2) ∧
    snap (call (C 4) 1 .sd "FindDataItemByOneDimensionalPoint" [.coord 100] (Heap.ofState s4)).view =
      .ok (snapS s4) 4 .none := by decide +kernel

example : snap (call (C 4) 2 .sd "GetDataItemWithMaxGlobalR" [] (Heap.ofState s4)).view =
      .ok (snapS { s4 with gq := [(3, 2)] }) 4 (.ref 3) ∧
    snap (call (C 4) 2 .sd "GetDataItemWithMaxGlobalR" [] (Heap.ofState { s4 with gq := [] })).view =
      .ok (snapS { s4 with gq := [(7, 1)] }) 4 (.ref 3) ∧
    snap (popExpect (C 4) { s4 with gq := [] } 4) = .ok (snapS { s4 with gq := [(7, 1)] }) 4 (.ref 3) := by decide +kernel

/-! ### seeded edits of the source: is the edited tree still the model? -/

/-- the model's answer in the same picture -/
def snapIns (s : State Nat Nat) (new : Item Nat Nat) (hint : Option Nat) : Snap :=
  snap (View.ofModel ((SD.insert (C 0).lt (C 0).le s new hint).map fun s' => (s', Val.none)))

/-- the generated tree of `InsertDataItem`, run as a tree, is the model on these inputs (base line for the edits below) -/
example : snap (runTree (C 3) 3 .base .sd searchData_InsertDataItemParams searchData_InsertDataItem [.ref 3, .ref 2]
      (Heap.pending s3 (mk 25 9))).view = snapIns s3 (mk 25 9) (some 2) ∧
    snap (runTree (C 3) 3 .base .sd searchData_InsertDataItemParams searchData_InsertDataItem [.ref 3, .none]
      (Heap.pending s3 (mk 25 9))).view = snapIns s3 (mk 25 9) none := by decide +kernel

/-- `InsertDataItem` with the first two pointer writes swapped (`rightDataItem.SetLeft(newDataItem)` BEFORE
`newDataItem.SetLeft(rightDataItem.GetLeft())`) -/
def insSwap12 : List Stmt :=
  [
    .assign "flag" "True",
    .ite "rightDataItem is None" [
      .call ["rightDataItem"] "self.FindDataItemByOneDimensionalPoint" ["newDataItem.GetX()"],
      .assign "flag" "False"] [],
    .call [] "rightDataItem.SetLeft" ["newDataItem"],
    .call [] "newDataItem.SetLeft" ["rightDataItem.GetLeft()"],
    .call [] "newDataItem.SetRight" ["rightDataItem"],
    .call [] "newDataItem.GetLeft().SetRight" ["newDataItem"],
    .call [] "self._allTrials.append" ["newDataItem"],
    .call [] "self._RGlobalQueue.Insert" ["newDataItem.globalR", "newDataItem"],
    .ite "flag" [
      .call [] "self._RGlobalQueue.Insert" ["rightDataItem.globalR", "rightDataItem"]] []]

/-- **the tie is sensitive to the order of the pointer writes**: with writes 1 and 2 swapped the interpreter is not stuck and
the result is NOT the model (the new item becomes its own left and right neighbour, the old left neighbour keeps pointing at the
right one) -/
theorem swap12_not_model :
    snap (runTree (C 3) 3 .base .sd searchData_InsertDataItemParams insSwap12 [.ref 3, .ref 2] (Heap.pending s3 (mk 25 9))).view ≠
      snapIns s3 (mk 25 9) (some 2) := by decide +kernel

example : snap (runTree (C 3) 3 .base .sd searchData_InsertDataItemParams insSwap12 [.ref 3, .ref 2] (Heap.pending s3 (mk 25 9))).view =
    .ok ⟨[⟨0, none, some 2, 0, 0⟩, ⟨100, some 2, none, 7, 0⟩, ⟨50, some 3, some 1, 3, 0⟩, ⟨25, some 3, some 3, 9, 0⟩],
      some 0, [(9, 3), (3, 2)], [], some 2, false⟩ 4 .none := by decide +kernel

/-- `InsertDataItem` with writes 2 and 3 swapped (`newDataItem.SetRight(rightDataItem)` BEFORE `rightDataItem.SetLeft(newDataItem)`) -/
def insSwap23 : List Stmt :=
  [
    .assign "flag" "True",
    .ite "rightDataItem is None" [
      .call ["rightDataItem"] "self.FindDataItemByOneDimensionalPoint" ["newDataItem.GetX()"],
      .assign "flag" "False"] [],
    .call [] "newDataItem.SetLeft" ["rightDataItem.GetLeft()"],
    .call [] "newDataItem.SetRight" ["rightDataItem"],
    .call [] "rightDataItem.SetLeft" ["newDataItem"],
    .call [] "newDataItem.GetLeft().SetRight" ["newDataItem"],
    .call [] "self._allTrials.append" ["newDataItem"],
    .call [] "self._RGlobalQueue.Insert" ["newDataItem.globalR", "newDataItem"],
    .ite "flag" [
      .call [] "self._RGlobalQueue.Insert" ["rightDataItem.globalR", "rightDataItem"]] []]

/-- … whereas swapping writes 2 and 3 (they touch different fields of different items) is STILL the model on these inputs -/
theorem swap23_still_model :
    snap (runTree (C 3) 3 .base .sd searchData_InsertDataItemParams insSwap23 [.ref 3, .ref 2] (Heap.pending s3 (mk 25 9))).view =
        snapIns s3 (mk 25 9) (some 2) ∧
      snap (runTree (C 3) 3 .base .sd searchData_InsertDataItemParams insSwap23 [.ref 3, .none] (Heap.pending s3 (mk 25 9))).view =
        snapIns s3 (mk 25 9) none := by decide +kernel

/-- `InsertDataItem` with `flag = False` moved to the end: the `if flag:` test sees the value from before the reassignment -/
def insStaleFlag : List Stmt :=
  [
    .assign "flag" "True",
    .ite "rightDataItem is None" [
      .call ["rightDataItem"] "self.FindDataItemByOneDimensionalPoint" ["newDataItem.GetX()"]] [],
    .call [] "newDataItem.SetLeft" ["rightDataItem.GetLeft()"],
    .call [] "rightDataItem.SetLeft" ["newDataItem"],
    .call [] "newDataItem.SetRight" ["rightDataItem"],
    .call [] "newDataItem.GetLeft().SetRight" ["newDataItem"],
    .call [] "self._allTrials.append" ["newDataItem"],
    .call [] "self._RGlobalQueue.Insert" ["newDataItem.globalR", "newDataItem"],
    .ite "flag" [
      .call [] "self._RGlobalQueue.Insert" ["rightDataItem.globalR", "rightDataItem"]] [],
    .assign "flag" "False"]

/-- **the flag matters**: tested before it is reassigned, the call WITHOUT hint also queues the right neighbour: not the model
(the entry `(3, 2)` is queued a second time and, with `maxlen = 2`, evicts the entry of the new item); WITH a hint nothing changes -/
theorem staleFlag_not_model :
    snap (runTree (C 3) 3 .base .sd searchData_InsertDataItemParams insStaleFlag [.ref 3, .none] (Heap.pending s3 (mk 25 1))).view ≠
        snapIns s3 (mk 25 1) none ∧
      snap (runTree (C 3) 3 .base .sd searchData_InsertDataItemParams insStaleFlag [.ref 3, .ref 2] (Heap.pending s3 (mk 25 1))).view =
        snapIns s3 (mk 25 1) (some 2) := by decide +kernel

example : (match snap (runTree (C 3) 3 .base .sd searchData_InsertDataItemParams insStaleFlag [.ref 3, .none]
      (Heap.pending s3 (mk 25 1))).view with | .ok s _ _ => some s.gq | _ => none) = some [(3, 2), (3, 2)] ∧
    (match snapIns s3 (mk 25 1) none with | .ok s _ _ => some s.gq | _ => none) = some [(3, 2), (1, 3)] := by decide +kernel

/-- `CharacteristicsQueue.Clear` re-creating the queue WITHOUT `maxlen`: `self.__baseQueue = DEPQ()` -/
def clearRecreate : List Stmt := [.call ["self.__baseQueue"] "DEPQ" []]

/-- **`Clear` must keep `maxlen`**: the re-created queue is unbounded, which is NOT `SD.clearQueue` on a bounded container
(and cannot be told apart on an unbounded one) -/
theorem clearRecreate_not_model :
    snap (runTree (C 0) 0 .cq .gq characteristicsQueue_ClearParams clearRecreate [] (Heap.ofState s4)).view ≠
        .ok (snapS (clearQueue s4)) 4 .none ∧
      snap (runTree (C 0) 0 .cq .gq characteristicsQueue_ClearParams characteristicsQueue_Clear [] (Heap.ofState s4)).view =
        .ok (snapS (clearQueue s4)) 4 .none ∧
      snap (runTree (C 0) 0 .cq .gq characteristicsQueue_ClearParams clearRecreate [] (Heap.ofState { s4 with maxlen := none })).view =
        .ok (snapS (clearQueue { s4 with maxlen := none })) 4 .none := by decide +kernel

/-- statements outside the tables are not silently accepted: an unknown callee, an unknown expression, a private attribute used
in the text of another class, `append` of an item that is not the next heap object, a dangling reference -/
example : snap (runTree (C 3) 3 .base .sd ["self"] [.call [] "self._allTrials.clear" []] [] (Heap.ofState s4)).view = .stuck ∧
    snap (runTree (C 3) 3 .base .sd ["self"] [.ret "self._allTrials[0]"] [] (Heap.ofState s4)).view = .stuck ∧
    snap (runTree (C 3) 3 .dual .sd ["self"] [.ret "self.__firstDataItem"] [] (Heap.ofState s4)).view = .stuck ∧
    snap (runTree (C 3) 3 .base .sd ["self", "newDataItem"] [.call [] "self._allTrials.append" ["newDataItem"]] [.ref 2]
      (Heap.ofState s4)).view = .stuck ∧
    snap (call (C 3) 1 .sd "FindDataItemByOneDimensionalPoint" [.coord 30] (Heap.ofState { s4 with first := some 9 })).view = .stuck := by
  decide +kernel

/-- the empty container: the source raises `StopIteration` where the model says `AttributeError` / `IndexError` -/
example : snap (call (C 0) 2 .sd "InsertDataItem" [.ref 0, .none] (Heap.pending {} (mk 5 5))).view = .err .stopIteration ∧
    snapIns {} (mk 5 5) none = .err .attributeError ∧
    snap (call (C 0) 2 .sd "GetDataItemWithMaxGlobalR" [] (Heap.ofState {})).view = .err .stopIteration ∧
    (match SD.popMaxGlobal (C 0).le ({} : State Nat Nat) with | .error e => some e | .ok _ => none) = some .indexError := by
  decide +kernel

/-- a dual-queue container with a stale entry at the head of the global queue: item 2 was queued with key 9, its
characteristic is now 3 -/
def sd : State Nat Nat := { s3 with dual := true, gq := [(9, 2), (7, 1)], lq := [] }

/-- the interpreter RUN on the generated trees of the dual-queue pops: the stale head is skipped (`while`), the local queue is
refilled first; the results are the model's `popCurrent` -/
example : snap (call (C 3) 3 .sd "GetDataItemWithMaxGlobalR" [] (Heap.ofState sd)).view = snap (popCurModel (C 3) true sd 3) ∧
    snap (call (C 3) 3 .sd "GetDataItemWithMaxGlobalR" [] (Heap.ofState sd)).view =
      .ok (snapS { sd with gq := [] }) 3 (.ref 1) ∧
    snap (call (C 3) 3 .sd "GetDataItemWithMaxLocalR" [] (Heap.ofState sd)).view = snap (popCurModel (C 3) false sd 3) ∧
    snap (popCurExpect (C 3) true sd 3) = snap (popCurModel (C 3) true sd 3) := by decide +kernel

/-- with a `while` bound that is too small the interpreter says so (the model would say `IndexError`) -/
example : snap (call { C 3 with wfuel := 0 } 3 .sd "GetDataItemWithMaxGlobalR" [] (Heap.ofState sd)).view = .outOfFuel := by
  decide +kernel

/-! ### the hypotheses of the tie theorems are satisfiable -/

theorem closed_s4 : Closed s4 := by
  refine ⟨?_, Nat.le_refl _, ?_⟩
  · intro i h; cases h; decide
  · intro j it hj hit
    have hj' : j < 4 := hj
    match j, hj' with
    | 0, _ | 1, _ | 2, _ | 3, _ => cases hit; constructor <;> intro i h <;> cases h <;> decide

theorem closed_sd : Closed sd := by
  refine ⟨?_, Nat.le_refl _, ?_⟩
  · intro i h; cases h; decide
  · intro j it hj hit
    have hj' : j < 3 := hj
    match j, hj' with
    | 0, _ | 1, _ | 2, _ => cases hit; constructor <;> intro i h <;> cases h <;> decide

/-- the tie theorems instantiated on these containers (their hypotheses are satisfiable) -/
example := insertDataItem_src (C 4) 0 s4 (mk 10 1) none none closed_s4 (InR_none _) rfl
example := insertDataItem_src (C 4) 0 s4 (mk 10 1) (some 3) none closed_s4 (by intro i h; cases h; decide) rfl
example := find_src (C 4) 0 s4 30 none closed_s4 rfl
example := refillQueue_src (C 4) 0 s4 none closed_s4 rfl
example := getDataItemWithMaxGlobalR_src (C 4) 0 s4 none rfl closed_s4 rfl
example := getDataItemWithMaxR_dual_src (C 3) 0 sd none rfl closed_sd (by decide)
  ⟨by intro e he; simp only [sd, List.mem_cons, List.not_mem_nil, or_false] at he; rcases he with rfl | rfl <;> decide,
   by intro e he; cases he⟩ rfl
example := insertFirstDataItem_src (C 0) 0 ({} : State Nat Nat) (mk 0 0) (mk 100 7) none

theorem repL_s4 : RepL s4.trials s4.first [0, 3, 2, 1] := by
  refine ⟨by decide, by decide, by decide, ?_⟩
  refine ⟨by decide, by decide, by decide, by decide, trivial⟩

/-- … and the well-formed versions, at an iteration bound larger than the container -/
example := insertDataItem_src_wf (C 50) 0 s4 _ (mk 10 1) (some 3) none repL_s4 (by intro i h; cases h; decide) (by decide)
example := getDataItemWithMaxGlobalR_src_wf (C 50) 0 s4 _ none rfl rfl repL_s4 (by decide)
end SDInterp.Examples
