import IOptProofs.ProcessStop
import Mathlib.Order.Defs.LinearOrder
/-!
# The running Python `min` of the selected lengths is the minimum (over a linear order)

The model's `minOpt`/`foldMin` reproduce Python's `min(old.delta, min_delta)` with `<` only.  Over a
linear order (where the model's `<`, `≤` are the order's) this is the least element.
-/

set_option linter.unusedSectionVars false

section
variable {α : Type} [LinearOrder α]

namespace Proc
open AGP AGP.Ctl

theorem minOpt_some (a b : α) : minOpt a (some b) = min a b := by
  simp only [minOpt, min_def]
  by_cases h : b < a
  · simp [h, not_le.2 h]
  · simp [h, not_lt.1 h]

/-- `foldMin` returns a lower bound that is attained -/
theorem foldMin_spec (acc : Option α) (ds : List α) :
    (acc = none ∧ ds = [] ∧ foldMin acc ds = none) ∨
    ∃ m, foldMin acc ds = some m ∧ (∀ d ∈ ds, m ≤ d) ∧ (∀ a, acc = some a → m ≤ a) ∧ (m ∈ ds ∨ acc = some m) := by
  induction ds generalizing acc with
  | nil =>
    cases acc with
    | none => left; exact ⟨rfl, rfl, rfl⟩
    | some a => right; exact ⟨a, rfl, by simp, by simp, .inr rfl⟩
  | cons d ds ih =>
    right
    have hstep : foldMin acc (d :: ds) = foldMin (some (minOpt d acc)) ds := rfl
    rw [hstep]
    rcases ih (some (minOpt d acc)) with ⟨h, -⟩ | ⟨m, hm, h1, h2, h3⟩
    · cases h
    · have hle := h2 _ rfl
      refine ⟨m, hm, ?_, ?_, ?_⟩
      · intro x hx
        rcases List.mem_cons.1 hx with rfl | hx
        · refine le_trans hle ?_
          cases acc with
          | none => exact le_refl _
          | some a => rw [minOpt_some]; exact min_le_left _ _
        · exact h1 x hx
      · intro a ha; subst ha
        refine le_trans hle ?_
        rw [minOpt_some]; exact min_le_right _ _
      · rcases h3 with h3 | h3
        · left; exact List.mem_cons_of_mem _ h3
        · cases acc with
          | none => left; simp only [minOpt, Option.some.injEq] at h3; rw [← h3]; exact List.mem_cons_self
          | some a =>
            rw [minOpt_some, Option.some.injEq] at h3
            rcases le_total d a with h | h
            · left; rw [← h3, min_eq_left h]; exact List.mem_cons_self
            · right; rw [← h3, min_eq_right h]

/-- the running minimum is below a threshold iff one of the elements is -/
theorem foldMin_lt_iff (acc : Option α) (ds : List α) (eps : α) :
    (∃ m, foldMin acc ds = some m ∧ m < eps) ↔ (∃ a, acc = some a ∧ a < eps) ∨ ∃ d ∈ ds, d < eps := by
  rcases foldMin_spec acc ds with ⟨h1, h2, h3⟩ | ⟨m, hm, h1, h2, h3⟩
  · subst h1; subst h2; simp [foldMin]
  · constructor
    · rintro ⟨m', hm', hlt⟩
      rw [hm] at hm'; cases hm'
      rcases h3 with h3 | h3
      · right; exact ⟨m, h3, hlt⟩
      · left; exact ⟨m, h3, hlt⟩
    · rintro (⟨a, ha, hlt⟩ | ⟨d, hd, hlt⟩)
      · exact ⟨m, hm, lt_of_le_of_lt (h2 a ha) hlt⟩
      · exact ⟨m, hm, lt_of_le_of_lt (h1 d hd) hlt⟩

end Proc
end
