import IOptProofs.GrishDefs
/-! kernel-evaluated certificates (V), (G), (P) of the Grishagin functions 36..40 (one block per file, identical template;
one theorem per function so that the kernel's reduction cache is released between functions) -/
namespace Grish
set_option maxRecDepth 100000
theorem grish_ok_36 : grishOK 36 = true := by decide +kernel
theorem grish_ok_37 : grishOK 37 = true := by decide +kernel
theorem grish_ok_38 : grishOK 38 = true := by decide +kernel
theorem grish_ok_39 : grishOK 39 = true := by decide +kernel
theorem grish_ok_40 : grishOK 40 = true := by decide +kernel
theorem grish_block_7 : ∀ k ∈ List.range' 36 5, grishOK k = true := by
  intro k hk
  simp only [List.mem_range'_1] at hk
  obtain ⟨h1, h2⟩ := hk
  have : k = 36 ∨ k = 37 ∨ k = 38 ∨ k = 39 ∨ k = 40 := by omega
  rcases this with rfl | rfl | rfl | rfl | rfl
  · exact grish_ok_36
  · exact grish_ok_37
  · exact grish_ok_38
  · exact grish_ok_39
  · exact grish_ok_40
end Grish
