import IOptModel.SearchData
import Mathlib.Order.Defs.LinearOrder
import Mathlib.Order.Basic

/-!
# The bounded priority queue of `SearchData` (helper lemmas for C19)

`SD.qinsertRaw` / `SD.qinsert` over a linear order, instantiated with the Boolean comparison
`leB a b = decide (a ≤ b)`.
-/

namespace SD

/-- Boolean `<` of a linear order (the instantiation of the model's `lt`) -/
abbrev ltB {α : Type} [LinearOrder α] : α → α → Bool := fun a b => decide (a < b)
/-- Boolean `≤` of a linear order (the instantiation of the model's `le`) -/
abbrev leB {α : Type} [LinearOrder α] : α → α → Bool := fun a b => decide (a ≤ b)
/-- Boolean `≠` of a linear order (the instantiation of the model's `ne`) -/
abbrev neB {α : Type} [LinearOrder α] : α → α → Bool := fun a b => decide (a ≠ b)

/-- keys along the queue are non-increasing -/
def QSorted {κ β : Type} [LinearOrder κ] (q : List (κ × β)) : Prop :=
  q.Pairwise (fun a b => a.1 ≥ b.1)

section
variable {κ β : Type} [LinearOrder κ]

theorem QSorted.nil : QSorted ([] : List (κ × β)) := List.Pairwise.nil

theorem QSorted.tail {e : κ × β} {q : List (κ × β)} (h : QSorted (e :: q)) : QSorted q :=
  (List.pairwise_cons.1 h).2

theorem QSorted.head_ge {e : κ × β} {q : List (κ × β)} (h : QSorted (e :: q)) :
    ∀ e' ∈ q, e'.1 ≤ e.1 := (List.pairwise_cons.1 h).1

theorem QSorted.sublist {q q' : List (κ × β)} (hs : q'.Sublist q) (h : QSorted q) : QSorted q' :=
  List.Pairwise.sublist hs h

theorem qinsertRaw_nil (k : κ) (v : β) : qinsertRaw leB k v ([] : List (κ × β)) = [(k, v)] := rfl

theorem qinsertRaw_cons_le {k k' : κ} (v v' : β) (t : List (κ × β)) (h : k ≤ k') :
    qinsertRaw leB k v ((k', v') :: t) = (k', v') :: qinsertRaw leB k v t := by
  simp [qinsertRaw, leB, h]

theorem qinsertRaw_cons_not_le {k k' : κ} (v v' : β) (t : List (κ × β)) (h : ¬ k ≤ k') :
    qinsertRaw leB k v ((k', v') :: t) = (k, v) :: (k', v') :: t := by
  simp [qinsertRaw, leB, h]

/-- the explicit position of the new entry: after the maximal prefix of entries with key `≥ k` -/
theorem qinsertRaw_eq (k : κ) (v : β) (q : List (κ × β)) :
    qinsertRaw leB k v q =
      q.takeWhile (fun e => decide (k ≤ e.1)) ++ (k, v) :: q.dropWhile (fun e => decide (k ≤ e.1)) := by
  induction q with
  | nil => rfl
  | cons e t ih =>
    obtain ⟨k', v'⟩ := e
    by_cases h : k ≤ k'
    · rw [qinsertRaw_cons_le _ _ _ h, ih]
      simp [h]
    · rw [qinsertRaw_cons_not_le _ _ _ h]
      simp [h]

theorem qinsertRaw_length (k : κ) (v : β) (q : List (κ × β)) :
    (qinsertRaw leB k v q).length = q.length + 1 := by
  induction q with
  | nil => rfl
  | cons e t ih =>
    obtain ⟨k', v'⟩ := e
    by_cases h : k ≤ k'
    · rw [qinsertRaw_cons_le _ _ _ h]; simp [ih]
    · rw [qinsertRaw_cons_not_le _ _ _ h]; simp

theorem qinsertRaw_ne_nil (k : κ) (v : β) (q : List (κ × β)) : qinsertRaw leB k v q ≠ [] := by
  intro h
  have := qinsertRaw_length k v q
  rw [h] at this
  simp at this

theorem qinsertRaw_perm (k : κ) (v : β) (q : List (κ × β)) :
    (qinsertRaw leB k v q).Perm ((k, v) :: q) := by
  induction q with
  | nil => exact List.Perm.refl _
  | cons e t ih =>
    obtain ⟨k', v'⟩ := e
    by_cases h : k ≤ k'
    · rw [qinsertRaw_cons_le _ _ _ h]
      exact (List.Perm.cons _ ih).trans (List.Perm.swap _ _ _)
    · rw [qinsertRaw_cons_not_le _ _ _ h]

theorem mem_qinsertRaw {k : κ} {v : β} {q : List (κ × β)} {e : κ × β} :
    e ∈ qinsertRaw leB k v q ↔ e = (k, v) ∨ e ∈ q := by
  rw [(qinsertRaw_perm k v q).mem_iff, List.mem_cons]

theorem qinsertRaw_sorted (k : κ) (v : β) {q : List (κ × β)} (h : QSorted q) :
    QSorted (qinsertRaw leB k v q) := by
  induction q with
  | nil => exact List.pairwise_singleton _ _
  | cons e t ih =>
    obtain ⟨k', v'⟩ := e
    have ht := h.tail
    have hh := h.head_ge
    by_cases hk : k ≤ k'
    · rw [qinsertRaw_cons_le _ _ _ hk]
      refine List.pairwise_cons.2 ⟨?_, ih ht⟩
      intro e' he'
      rcases mem_qinsertRaw.1 he' with rfl | he'
      · exact hk
      · exact hh e' he'
    · rw [qinsertRaw_cons_not_le _ _ _ hk]
      refine List.pairwise_cons.2 ⟨?_, h⟩
      intro e' he'
      have hk' : k' ≤ k := le_of_not_ge hk
      rcases List.mem_cons.1 he' with rfl | he'
      · exact hk'
      · exact le_trans (hh e' he') hk'

/-- stability: the new entry goes after every entry with key `≥ k` and (in a sorted queue) before
every entry with key `< k`; the old entries keep their relative order. -/
theorem qinsertRaw_split (k : κ) (v : β) {q : List (κ × β)} (h : QSorted q) :
    ∃ a b, q = a ++ b ∧ qinsertRaw leB k v q = a ++ (k, v) :: b ∧
      (∀ e ∈ a, k ≤ e.1) ∧ (∀ e ∈ b, e.1 < k) := by
  induction q with
  | nil => exact ⟨[], [], rfl, rfl, by simp, by simp⟩
  | cons e t ih =>
    obtain ⟨k', v'⟩ := e
    by_cases hk : k ≤ k'
    · obtain ⟨a, b, hq, hr, ha, hb⟩ := ih h.tail
      refine ⟨(k', v') :: a, b, by rw [hq]; rfl, by rw [qinsertRaw_cons_le _ _ _ hk, hr]; rfl, ?_, hb⟩
      intro e he
      rcases List.mem_cons.1 he with rfl | he
      · exact hk
      · exact ha e he
    · refine ⟨[], (k', v') :: t, rfl, by rw [qinsertRaw_cons_not_le _ _ _ hk]; rfl, by simp, ?_⟩
      intro e he
      rcases List.mem_cons.1 he with rfl | he
      · exact lt_of_not_ge hk
      · exact lt_of_le_of_lt (h.head_ge e he) (lt_of_not_ge hk)

/-! ### `qinsert` (with the `maxlen` eviction) -/

theorem qinsert_none (k : κ) (v : β) (q : List (κ × β)) :
    qinsert leB none k v q = qinsertRaw leB k v q := rfl

theorem qinsert_some (n : Nat) (k : κ) (v : β) (q : List (κ × β)) :
    qinsert leB (some n) k v q =
      if n < (qinsertRaw leB k v q).length then (qinsertRaw leB k v q).dropLast
      else qinsertRaw leB k v q := rfl

theorem qinsert_sublist (m : Option Nat) (k : κ) (v : β) (q : List (κ × β)) :
    (qinsert leB m k v q).Sublist (qinsertRaw leB k v q) := by
  cases m with
  | none => exact List.Sublist.refl _
  | some n =>
    rw [qinsert_some]
    split
    · exact List.dropLast_sublist _
    · exact List.Sublist.refl _

theorem qinsert_sorted (m : Option Nat) (k : κ) (v : β) {q : List (κ × β)} (h : QSorted q) :
    QSorted (qinsert leB m k v q) :=
  (qinsertRaw_sorted k v h).sublist (qinsert_sublist m k v q)

theorem mem_qinsert {m : Option Nat} {k : κ} {v : β} {q : List (κ × β)} {e : κ × β}
    (h : e ∈ qinsert leB m k v q) : e = (k, v) ∨ e ∈ q :=
  mem_qinsertRaw.1 ((qinsert_sublist m k v q).subset h)

/-- no eviction happens while the bound is not exceeded -/
theorem qinsert_eq_raw_of_le {n : Nat} (k : κ) (v : β) {q : List (κ × β)} (h : q.length < n) :
    qinsert leB (some n) k v q = qinsertRaw leB k v q := by
  rw [qinsert_some, qinsertRaw_length, if_neg (by omega)]

/-- The eviction drops the last (smallest, newest among equals) entry: what is dropped is `≤`
everything retained. -/
theorem qinsert_evict (n : Nat) (k : κ) (v : β) {q : List (κ × β)} (h : QSorted q)
    (hn : n ≤ q.length) :
    ∃ d, qinsertRaw leB k v q = qinsert leB (some n) k v q ++ [d] ∧
      ∀ e ∈ qinsert leB (some n) k v q, d.1 ≤ e.1 := by
  have hlen := qinsertRaw_length k v q
  have hne := qinsertRaw_ne_nil k v q
  rw [qinsert_some, if_pos (by omega)]
  refine ⟨(qinsertRaw leB k v q).getLast hne, (List.dropLast_concat_getLast hne).symm, ?_⟩
  intro e he
  have hs := qinsertRaw_sorted k v h
  rw [← List.dropLast_concat_getLast hne] at hs
  have := (List.pairwise_append.1 hs).2.2 e he _ (List.mem_singleton.2 rfl)
  exact this

/-- A bounded queue is the length-`n` prefix of the unbounded one (no sortedness needed). -/
theorem qinsert_take (n : Nat) (k : κ) (v : β) (L : List (κ × β)) :
    qinsert leB (some n) k v (L.take n) = (qinsertRaw leB k v L).take n := by
  rw [qinsert_some, qinsertRaw_length]
  by_cases hL : L.length < n
  · rw [List.take_of_length_le (by omega), if_neg (by omega),
      List.take_of_length_le (by rw [qinsertRaw_length]; omega)]
  · have hL' : n ≤ L.length := by omega
    rw [if_pos (by rw [List.length_take]; omega)]
    clear hL
    induction L generalizing n with
    | nil =>
      have : n = 0 := by simpa using hL'
      subst this; rfl
    | cons e t ih =>
      obtain ⟨k', v'⟩ := e
      cases n with
      | zero => simp [qinsertRaw]
      | succ n =>
        have ht : n ≤ t.length := by simpa using hL'
        by_cases hk : k ≤ k'
        · rw [List.take_succ_cons, qinsertRaw_cons_le _ _ _ hk, qinsertRaw_cons_le _ _ _ hk,
            List.dropLast_cons_of_ne_nil (qinsertRaw_ne_nil _ _ _), ih n ht, List.take_succ_cons]
        · have hd : (List.take (n + 1) ((k', v') :: t)).dropLast = List.take n ((k', v') :: t) := by
            rw [List.dropLast_eq_take, List.length_take, List.take_take]
            congr 1
            simp only [List.length_cons] at hL' ⊢
            omega
          rw [qinsertRaw_cons_not_le v v' t hk]
          show (qinsertRaw leB k v ((k', v') :: List.take n t)).dropLast
              = (k, v) :: List.take n ((k', v') :: t)
          rw [qinsertRaw_cons_not_le _ _ _ hk, List.dropLast_cons_of_ne_nil (List.cons_ne_nil _ _)]
          congr 1

/-! ### Sequences of insertions -/

/-- insert all entries of `es` (oldest first) into `q` -/
def qinsertAll (m : Option Nat) (es : List (κ × β)) (q : List (κ × β)) : List (κ × β) :=
  es.foldl (fun acc e => qinsert leB m e.1 e.2 acc) q

/-- the unbounded queue built from `es` = the stable descending sort of `es` -/
def qsortAll (es : List (κ × β)) : List (κ × β) := qinsertAll none es []

theorem qinsertAll_nil (m : Option Nat) (q : List (κ × β)) : qinsertAll m [] q = q := rfl

theorem qinsertAll_cons (m : Option Nat) (e : κ × β) (es q : List (κ × β)) :
    qinsertAll m (e :: es) q = qinsertAll m es (qinsert leB m e.1 e.2 q) := rfl

theorem qinsertAll_append (m : Option Nat) (es es' q : List (κ × β)) :
    qinsertAll m (es ++ es') q = qinsertAll m es' (qinsertAll m es q) := by
  simp [qinsertAll, List.foldl_append]

theorem qinsertAll_snoc (m : Option Nat) (e : κ × β) (es q : List (κ × β)) :
    qinsertAll m (es ++ [e]) q = qinsert leB m e.1 e.2 (qinsertAll m es q) := by
  rw [qinsertAll_append]; rfl

theorem qinsertAll_sorted (m : Option Nat) (es : List (κ × β)) {q : List (κ × β)} (h : QSorted q) :
    QSorted (qinsertAll m es q) := by
  induction es generalizing q with
  | nil => exact h
  | cons e es ih => exact ih (qinsert_sorted m e.1 e.2 h)

theorem qinsertAll_none_perm (es q : List (κ × β)) :
    (qinsertAll none es q).Perm (es ++ q) := by
  induction es generalizing q with
  | nil => exact List.Perm.refl _
  | cons e es ih =>
    rw [qinsertAll_cons]
    refine (ih _).trans ?_
    rw [qinsert_none]
    refine (List.Perm.append_left es (qinsertRaw_perm e.1 e.2 q)).trans ?_
    exact List.perm_middle

theorem qsortAll_perm (es : List (κ × β)) : (qsortAll es).Perm es := by
  have := qinsertAll_none_perm es ([] : List (κ × β))
  simpa [qsortAll] using this

theorem qsortAll_sorted (es : List (κ × β)) : QSorted (qsortAll es) :=
  qinsertAll_sorted none es QSorted.nil

theorem qsortAll_length (es : List (κ × β)) : (qsortAll es).length = es.length :=
  (qsortAll_perm es).length_eq

theorem qinsertAll_some_take (n : Nat) (es L : List (κ × β)) :
    qinsertAll (some n) es (L.take n) = (qinsertAll none es L).take n := by
  induction es generalizing L with
  | nil => rfl
  | cons e es ih =>
    rw [qinsertAll_cons, qinsertAll_cons, qinsert_take, qinsert_none, ih]

/-- the bounded queue is the length-`n` prefix of the unbounded queue -/
theorem qinsertAll_some_eq_take (n : Nat) (es : List (κ × β)) :
    qinsertAll (some n) es [] = (qsortAll es).take n := by
  have := qinsertAll_some_take n es ([] : List (κ × β))
  simpa [qsortAll] using this

theorem qinsertAll_nil_eq (m : Option Nat) (es : List (κ × β)) :
    qinsertAll m es [] = match m with
      | none => qsortAll es
      | some n => (qsortAll es).take n := by
  cases m with
  | none => rfl
  | some n => exact qinsertAll_some_eq_take n es

theorem qinsertAll_nil_sublist (m : Option Nat) (es : List (κ × β)) :
    (qinsertAll m es []).Sublist (qsortAll es) := by
  rw [qinsertAll_nil_eq]
  cases m with
  | none => exact List.Sublist.refl _
  | some n => exact List.take_sublist _ _

theorem mem_of_mem_qinsertAll_nil {m : Option Nat} {es : List (κ × β)} {e : κ × β}
    (h : e ∈ qinsertAll m es []) : e ∈ es :=
  (qsortAll_perm es).mem_iff.1 ((qinsertAll_nil_sublist m es).subset h)

theorem qinsertAll_nil_length (m : Option Nat) (es : List (κ × β)) :
    (qinsertAll m es []).length = match m with
      | none => es.length
      | some n => min n es.length := by
  rw [qinsertAll_nil_eq]
  cases m with
  | none => exact qsortAll_length es
  | some n => simp [qsortAll_length]

/-- the head of a freshly built (non-degenerate) queue is a maximal entry -/
theorem qinsertAll_nil_head {m : Option Nat} {es : List (κ × β)} (hes : es ≠ []) (hm : m ≠ some 0) :
    ∃ e rest, qinsertAll m es [] = e :: rest ∧ e ∈ es ∧ ∀ e' ∈ es, e'.1 ≤ e.1 := by
  have hlen := qsortAll_length es
  have hsorted := qsortAll_sorted es
  have hperm := qsortAll_perm es
  cases hS : qsortAll es with
  | nil =>
    rw [hS] at hlen
    exact absurd (List.length_eq_zero_iff.1 hlen.symm) hes
  | cons e S' =>
    rw [hS] at hsorted hperm
    have hmax : ∀ e' ∈ es, e'.1 ≤ e.1 := by
      intro e' he'
      rcases List.mem_cons.1 (hperm.mem_iff.2 he') with rfl | h'
      · exact le_refl _
      · exact hsorted.head_ge e' h'
    have hmem : e ∈ es := hperm.mem_iff.1 List.mem_cons_self
    rw [qinsertAll_nil_eq, hS]
    cases m with
    | none => exact ⟨e, S', rfl, hmem, hmax⟩
    | some n =>
      cases n with
      | zero => exact absurd rfl hm
      | succ n => exact ⟨e, S'.take n, rfl, hmem, hmax⟩

/-- stability of the insertion sort: entries with equal keys stay in insertion order -/
theorem qinsertRaw_filter_key (k : κ) (v : β) {q : List (κ × β)} (h : QSorted q) (k0 : κ) :
    (qinsertRaw leB k v q).filter (fun e => decide (e.1 = k0)) =
      q.filter (fun e => decide (e.1 = k0)) ++ (if k = k0 then [(k, v)] else []) := by
  obtain ⟨a, b, hq, hr, ha, hb⟩ := qinsertRaw_split k v h
  rw [hr, hq]
  by_cases hk : k = k0
  · subst hk
    have hbf : b.filter (fun e => decide (e.1 = k)) = [] := by
      rw [List.filter_eq_nil_iff]
      intro e he
      have := hb e he
      simp [ne_of_lt this]
    simp [List.filter_append, hbf]
  · simp [List.filter_append, hk]

theorem qinsertAll_none_filter_key (es : List (κ × β)) {q : List (κ × β)} (h : QSorted q) (k0 : κ) :
    (qinsertAll none es q).filter (fun e => decide (e.1 = k0)) =
      q.filter (fun e => decide (e.1 = k0)) ++ es.filter (fun e => decide (e.1 = k0)) := by
  induction es generalizing q with
  | nil => simp [qinsertAll]
  | cons e es ih =>
    rw [qinsertAll_cons, ih (qinsert_sorted none e.1 e.2 h), qinsert_none,
      qinsertRaw_filter_key _ _ h, List.append_assoc]
    congr 1
    obtain ⟨ek, ev⟩ := e
    by_cases hk : ek = k0 <;> simp [hk]

theorem qsortAll_stable (es : List (κ × β)) (k0 : κ) :
    (qsortAll es).filter (fun e => decide (e.1 = k0)) = es.filter (fun e => decide (e.1 = k0)) := by
  have := qinsertAll_none_filter_key es (QSorted.nil (κ := κ) (β := β)) k0
  simpa [qsortAll] using this

end
end SD
