import IOptProofs.ShekelTab
import Mathlib.Analysis.Calculus.MeanValue
import Mathlib.Topology.Order.Compact
/-!
# Shekel: consequences of the table clauses `ShekelTables`, in the words of C18

true minimum and maximum over `[0,10]` exist; the table values are within `1e-4` of them; every true
extremiser (and every near-extremiser) is within `1e-3` of the table location; `sup |f'|` over the box
is within `0.1 %` of the table constant, which (times `1.001`) is a Lipschitz constant of `f` on the box.
-/

namespace Shk
namespace ShekelTables

variable {f f' : ℝ → ℝ} {vmin pmin vmax pmax L : ℝ} (h : ShekelTables f f' vmin pmin vmax pmax L)
include h

theorem continuous : Continuous f :=
  continuous_iff_continuousAt.2 fun x => (h.deriv x).continuousAt

/-- a global minimiser on `[0,10]` exists -/
theorem exists_min : ∃ xs, 0 ≤ xs ∧ xs ≤ 10 ∧ ∀ x, 0 ≤ x → x ≤ 10 → f xs ≤ f x := by
  obtain ⟨xs, hxs, hmin⟩ := (isCompact_Icc (a := (0 : ℝ)) (b := 10)).exists_isMinOn
    ⟨0, by norm_num⟩ h.continuous.continuousOn
  exact ⟨xs, hxs.1, hxs.2, fun x h0 h10 => hmin ⟨h0, h10⟩⟩

/-- a global maximiser on `[0,10]` exists -/
theorem exists_max : ∃ xs, 0 ≤ xs ∧ xs ≤ 10 ∧ ∀ x, 0 ≤ x → x ≤ 10 → f x ≤ f xs := by
  obtain ⟨xs, hxs, hmax⟩ := (isCompact_Icc (a := (0 : ℝ)) (b := 10)).exists_isMaxOn
    ⟨0, by norm_num⟩ h.continuous.continuousOn
  exact ⟨xs, hxs.1, hxs.2, fun x h0 h10 => hmax ⟨h0, h10⟩⟩

/-- the true minimum is within `1e-4` of the tabulated one -/
theorem min_value (xs : ℝ) (h0 : 0 ≤ xs) (h10 : xs ≤ 10) (hmin : ∀ x, 0 ≤ x → x ≤ 10 → f xs ≤ f x) :
    |f xs - vmin| ≤ 1e-4 := by
  have h1 := h.min_lower xs h0 h10
  have h2 := hmin pmin h.pmin_in.1 h.pmin_in.2
  have h3 := h.min_upper
  rw [abs_le]; constructor <;> linarith

/-- the true maximum is within `1e-4` of the tabulated one -/
theorem max_value (xs : ℝ) (h0 : 0 ≤ xs) (h10 : xs ≤ 10) (hmax : ∀ x, 0 ≤ x → x ≤ 10 → f x ≤ f xs) :
    |f xs - vmax| ≤ 1e-4 := by
  have h1 := h.max_upper xs h0 h10
  have h2 := hmax pmax h.pmax_in.1 h.pmax_in.2
  have h3 := h.max_lower
  rw [abs_le]; constructor <;> linarith

/-- every point whose value is within `5e-7` of the minimum lies within `1e-3` of the table location -/
theorem near_min (x : ℝ) (h0 : 0 ≤ x) (h10 : x ≤ 10) (hx : ∀ y, 0 ≤ y → y ≤ 10 → f x < f y + 5e-7) :
    |x - pmin| ≤ 1e-3 := by
  by_contra hne
  obtain ⟨q, q0, q10, hq⟩ := h.min_loc
  have := hq x h0 h10 (not_le.1 hne)
  have := hx q q0 q10
  linarith

/-- every global minimiser lies within `1e-3` of the table location -/
theorem minimiser_near (xs : ℝ) (h0 : 0 ≤ xs) (h10 : xs ≤ 10) (hmin : ∀ x, 0 ≤ x → x ≤ 10 → f xs ≤ f x) :
    |xs - pmin| ≤ 1e-3 :=
  h.near_min xs h0 h10 fun y y0 y10 => by have := hmin y y0 y10; linarith

/-- every point whose value is within `3e-9` of the maximum lies within `1e-3` of the table location -/
theorem near_max (x : ℝ) (h0 : 0 ≤ x) (h10 : x ≤ 10) (hx : ∀ y, 0 ≤ y → y ≤ 10 → f y - 3e-9 < f x) :
    |x - pmax| ≤ 1e-3 := by
  by_contra hne
  obtain ⟨q, q0, q10, hq⟩ := h.max_loc
  have := hq x h0 h10 (not_le.1 hne)
  have := hx q q0 q10
  linarith

/-- every global maximiser lies within `1e-3` of the table location -/
theorem maximiser_near (xs : ℝ) (h0 : 0 ≤ xs) (h10 : xs ≤ 10) (hmax : ∀ x, 0 ≤ x → x ≤ 10 → f x ≤ f xs) :
    |xs - pmax| ≤ 1e-3 :=
  h.near_max xs h0 h10 fun y y0 y10 => by have := hmax y y0 y10; linarith

/-- `1.001 L` is a Lipschitz constant of `f` on the box (mean value theorem) -/
theorem lipschitz (x y : ℝ) (hx0 : 0 ≤ x) (hx10 : x ≤ 10) (hy0 : 0 ≤ y) (hy10 : y ≤ 10) :
    |f x - f y| ≤ 1.001 * L * |x - y| := by
  have := Convex.norm_image_sub_le_of_norm_hasDerivWithin_le (f := f) (f' := f') (s := Set.Icc 0 10)
    (C := 1.001 * L) (x := y) (y := x) (fun z _ => (h.deriv z).hasDerivWithinAt)
    (fun z hz => by rw [Real.norm_eq_abs]; exact h.lip_upper z hz.1 hz.2) (convex_Icc 0 10)
    ⟨hy0, hy10⟩ ⟨hx0, hx10⟩
  simpa [Real.norm_eq_abs] using this

/-- `L > 0` is not assumed: the tabulated constant is positive whenever `f'` is not identically zero;
here: `L ≥ 0` follows from the upper clause -/
theorem L_nonneg : 0 ≤ L := by
  have := h.lip_upper 0 le_rfl (by norm_num)
  have := abs_nonneg (f' 0)
  nlinarith

/-- `sup_{[0,10]} |f'|` is within `0.1 %` of the tabulated Lipschitz constant -/
theorem sup_deriv : |sSup ((fun x => |f' x|) '' Set.Icc (0 : ℝ) 10) - L| ≤ 0.001 * L := by
  set S := (fun x => |f' x|) '' Set.Icc (0 : ℝ) 10 with hS
  have hne : S.Nonempty := ⟨_, ⟨0, ⟨le_rfl, by norm_num⟩, rfl⟩⟩
  have hub : ∀ b ∈ S, b ≤ 1.001 * L := by
    rintro b ⟨x, hx, rfl⟩
    exact h.lip_upper x hx.1 hx.2
  have hbdd : BddAbove S := ⟨_, hub⟩
  have h1 : sSup S ≤ 1.001 * L := csSup_le hne hub
  obtain ⟨w, w0, w10, hw⟩ := h.lip_lower
  have h2 : 0.999 * L ≤ sSup S := hw.trans (le_csSup hbdd ⟨w, ⟨w0, w10⟩, rfl⟩)
  rw [abs_le]; constructor <;> linarith

end ShekelTables
end Shk
