import IOptProofs.GrishDefs
/-! kernel-evaluated certificates (V), (G), (P) of the Grishagin functions 96..100 (one block per file, identical template;
one theorem per function so that the kernel's reduction cache is released between functions) -/
namespace Grish
set_option maxRecDepth 100000
theorem grish_ok_96 : grishOK 96 = true := by decide +kernel
theorem grish_ok_97 : grishOK 97 = true := by decide +kernel
theorem grish_ok_98 : grishOK 98 = true := by decide +kernel
theorem grish_ok_99 : grishOK 99 = true := by decide +kernel
theorem grish_ok_100 : grishOK 100 = true := by decide +kernel
theorem grish_block_19 : ∀ k ∈ List.range' 96 5, grishOK k = true := by
  intro k hk
  simp only [List.mem_range'_1] at hk
  obtain ⟨h1, h2⟩ := hk
  have : k = 96 ∨ k = 97 ∨ k = 98 ∨ k = 99 ∨ k = 100 := by omega
  rcases this with rfl | rfl | rfl | rfl | rfl
  · exact grish_ok_96
  · exact grish_ok_97
  · exact grish_ok_98
  · exact grish_ok_99
  · exact grish_ok_100
end Grish
