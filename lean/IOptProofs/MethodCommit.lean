import IOptProofs.MethodPrepare
/-!
# `commit` re-establishes the invariant
-/
set_option linter.unusedSectionVars false

namespace AGP

/-! ## Lists of the form `pre ++ a :: b :: post` with one element inserted -/
section Ins
variable {β : Type} {pre post : List β} {a b n b' : β}

theorem forall_ins {P : β → Prop} (h : ∀ it ∈ pre ++ a :: b :: post, P it) (hn : P n) (hb : P b → P b') :
    ∀ it ∈ pre ++ a :: n :: b' :: post, P it := by
  intro it hit
  simp only [List.mem_append, List.mem_cons] at hit h
  rcases hit with hit | rfl | rfl | rfl | hit
  · exact h it (Or.inl hit)
  · exact h it (Or.inr (Or.inl rfl))
  · exact hn
  · exact hb (h b (Or.inr (Or.inr (Or.inl rfl))))
  · exact h it (Or.inr (Or.inr (Or.inr hit)))

theorem exists_ins {P : β → Prop} (h : ∃ it ∈ pre ++ a :: b :: post, P it) (hb : P b → P b') :
    ∃ it ∈ pre ++ a :: n :: b' :: post, P it := by
  obtain ⟨it, hit, hP⟩ := h
  simp only [List.mem_append, List.mem_cons] at hit ⊢
  rcases hit with hit | rfl | rfl | hit
  · exact ⟨it, Or.inl hit, hP⟩
  · exact ⟨it, Or.inr (Or.inl rfl), hP⟩
  · exact ⟨b', Or.inr (Or.inr (Or.inr (Or.inl rfl))), hb hP⟩
  · exact ⟨it, Or.inr (Or.inr (Or.inr (Or.inr hit))), hP⟩

theorem head_ins (l l' : List β) : (pre ++ a :: l).head? = (pre ++ a :: l').head? := by
  cases pre <;> simp

theorem last_ins {P : β → Prop} (h : ∀ l ∈ (pre ++ a :: b :: post).getLast?, P l) (hb : P b → P b') :
    ∀ l ∈ (pre ++ a :: n :: b' :: post).getLast?, P l := by
  intro l hl
  rw [List.getLast?_append] at hl h
  cases post with
  | nil =>
    simp at hl h
    subst hl; exact hb h
  | cons c t =>
    simp only [List.getLast?_cons_cons] at hl h
    exact h l hl

end Ins

variable {α : Type} [Field α] [LinearOrder α] [IsStrictOrderedRing α] [Fns α]

theorem findItem_of_mem {l : List (Item α)} {b : Item α} (hnd : (l.map (·.id)).Nodup) (hb : b ∈ l) :
    findItem l b.id = some b := by
  obtain ⟨l₁, l₂, rfl⟩ := List.append_of_mem hb
  exact findItem_append b l₁ l₂ (ids_ne_of_nodup hnd)

section Commit
variable {p : Params α} {s : State α} {pr : Prep α}

theorem better_eq (h : PrepSpec p s pr) (z : α) : better pr z = decide (z < pr.s.Z) := by
  obtain ⟨bi, hbi, hid, _, hz⟩ := h.inv.best
  have := findItem_of_mem h.inv.ids_nodup hbi
  rw [hid] at this
  simp [better, this, hz]

theorem cZ_eq (h : PrepSpec p s pr) (z : α) : cZ pr z = if z < pr.s.Z then z else pr.s.Z := by
  simp [cZ, better_eq h]

theorem cZ_le (h : PrepSpec p s pr) (z : α) : cZ pr z ≤ pr.s.Z ∧ cZ pr z ≤ z := by
  rw [cZ_eq h]; split
  · rename_i hlt; exact ⟨hlt.le, le_rfl⟩
  · rename_i hlt; exact ⟨le_rfl, not_lt.1 hlt⟩

theorem commit_items (h : PrepSpec p s pr) (z : α) {pre post : List (Item α)}
    (e : pr.s.items = pre ++ pr.left :: pr.old :: post) :
    (commit p pr z).items = pre ++ pr.left :: cNew2 p pr z :: cOld2 p pr z :: post := by
  have hnd := h.inv.ids_nodup
  rw [e] at hnd
  have hpre : ∀ c ∈ pre ++ [pr.left], c.id ≠ pr.old.id := by
    have : ((pre ++ [pr.left]) ++ pr.old :: post).map (·.id) = (pre ++ pr.left :: pr.old :: post).map (·.id) := by simp
    exact ids_ne_of_nodup (l₁ := pre ++ [pr.left]) (by rw [this]; exact hnd)
  rw [commit_eq]
  show insertBefore (cNew2 p pr z) (cOld2 p pr z) pr.s.items = _
  rw [e]
  have := insertBefore_append (cNew2 p pr z) (cOld2 p pr z) pr.old (pre ++ [pr.left]) post rfl hpre
  simpa using this

omit s in
theorem commit_M_mono (hL : FnsLaws α) (z : α) : pr.s.M ≤ (commit p pr z).M := by
  rw [commit_eq]
  show pr.s.M ≤ (cM2 p pr z).1
  exact le_trans (calcM_spec hL _ _ _ _).1 (calcM_spec hL _ _ _ _).1

omit s in
/-- if no recalculation is pending after `commit`, then `M` and `Z` did not change -/
theorem commit_recalc_false (hL : FnsLaws α) (z : α) (hrc : (cM2 p pr z).2 = false) :
    (cM2 p pr z).1 = pr.s.M ∧ cZ pr z = pr.s.Z := by
  have sp1 := (calcM_spec hL pr.s.M (cRc0 pr z) pr.left (cNew1 p pr z)).2.2
  have sp2 := (calcM_spec hL (cM1 p pr z).1 (cM1 p pr z).2 (cNew1 p pr z) (cOld1 p pr)).2.2
  change ((cM1 p pr z).1 = pr.s.M ∧ (cM1 p pr z).2 = cRc0 pr z) ∨ _ at sp1
  change ((cM2 p pr z).1 = (cM1 p pr z).1 ∧ (cM2 p pr z).2 = (cM1 p pr z).2) ∨
    (_ ∧ _ ∧ _ ∧ (cM2 p pr z).2 = true) at sp2
  rcases sp2 with ⟨h21, h22⟩ | ⟨_, _, _, h22⟩
  · rw [hrc] at h22
    rcases sp1 with ⟨h11, h12⟩ | ⟨_, _, _, h12⟩
    · rw [← h22] at h12
      have hb : better pr z = false := by
        unfold cRc0 at h12
        by_contra hb
        simp only [Bool.not_eq_false] at hb
        rw [if_pos hb] at h12
        exact Bool.false_ne_true h12
      refine ⟨h21.trans h11, ?_⟩
      simp [cZ, hb]
    · change (cM1 p pr z).2 = true at h12
      rw [← h22] at h12; exact absurd h12 Bool.false_ne_true
  · rw [hrc] at h22; exact absurd h22 Bool.false_ne_true

theorem commit_invItems (hL : FnsLaws α) (h : PrepSpec p s pr) (z : α) :
    InvItems p (commit p pr z) := by
  obtain ⟨pre, post, e, hQ⟩ := h.decomp
  have I := h.inv
  have hit := commit_items h z e
  have hab : Neighbours pr.s.items pr.left pr.old := ⟨pre, post, e⟩
  have sp1 := calcM_spec hL pr.s.M (cRc0 pr z) pr.left (cNew1 p pr z)
  have sp2 := calcM_spec hL (cM1 p pr z).1 (cM1 p pr z).2 (cNew1 p pr z) (cOld1 p pr)
  change pr.s.M ≤ (cM1 p pr z).1 ∧ _ ∧ _ at sp1
  change (cM1 p pr z).1 ≤ (cM2 p pr z).1 ∧ _ ∧ _ at sp2
  have hM01 : pr.s.M ≤ (cM2 p pr z).1 := le_trans sp1.1 sp2.1
  have hMeq : (commit p pr z).M = (cM2 p pr z).1 := by rw [commit_eq]
  have hZeq : (commit p pr z).Z = cZ pr z := by rw [commit_eq]
  have hbesteq : (commit p pr z).best = cBest pr z := by rw [commit_eq]
  have hnexteq : (commit p pr z).nextId = pr.s.nextId + 1 := by rw [commit_eq]
  have hxr := I.x_range
  have hlx := hxr pr.left hab.mem_left
  have hox := hxr pr.old hab.mem_right
  refine ⟨?_, ?_, ?_, ?_, ?_, ?_, ?_, ?_, ?_, ?_, ?_, ?_, ?_, ?_, ?_, ?_, ?_, ?_⟩
  · -- sorted
    rw [hit]
    have := I.sorted; rw [e] at this
    exact isChain_insert this h.inside.1 h.inside.2 (fun _ hz => hz)
  · rw [hit, head_ins _ (pr.old :: post), ← e]; exact I.head0
  · rw [hit]
    have := I.last1; rw [e] at this
    exact last_ins this (fun hb => hb)
  · -- ev_iff
    rw [hit]
    have := I.ev_iff; rw [e] at this
    refine forall_ins this ?_ (fun hb => hb)
    show true = true ↔ 0 < pr.x ∧ pr.x < 1
    simp only [true_iff]
    exact ⟨lt_of_le_of_lt hlx.1 h.inside.1, lt_of_lt_of_le h.inside.2 hox.2⟩
  · -- ids_nodup
    rw [hit]
    have hnd := I.ids_nodup; rw [e] at hnd
    have hlt := I.ids_lt; rw [e] at hlt
    have hp : (List.map (·.id) (pre ++ pr.left :: cNew2 p pr z :: cOld2 p pr z :: post)).Perm
        (pr.s.nextId :: List.map (·.id) (pre ++ pr.left :: pr.old :: post)) := by
      have := @List.perm_middle _ pr.s.nextId (pre.map (·.id) ++ [pr.left.id]) (pr.old.id :: post.map (·.id))
      have h1 : (cNew2 p pr z).id = pr.s.nextId := rfl
      have h2 : (cOld2 p pr z).id = pr.old.id := rfl
      simpa [h1, h2] using this
    rw [hp.nodup_iff, List.nodup_cons]
    refine ⟨?_, hnd⟩
    intro hmem
    obtain ⟨c, hc, hcid⟩ := List.mem_map.1 hmem
    have := hlt c hc
    omega
  · rw [hnexteq, hit, I.nextId_eq, e]; simp only [List.length_append, List.length_cons]; omega
  · rw [hnexteq, hit]
    have := I.ids_lt; rw [e] at this
    refine forall_ins (b := pr.old) (fun it hi => Nat.lt_succ_of_lt (this it hi)) ?_ (fun hb => hb)
    show pr.s.nextId < pr.s.nextId + 1
    omega
  · -- delta
    rw [hit]
    have := I.delta; rw [e] at this
    exact isChain_insert this rfl rfl (fun _ hz => hz)
  · rw [hMeq]; exact le_trans I.M_ge hM01
  · -- slope
    rw [hit, hMeq]
    have := I.slope; rw [e] at this
    have this' := this.imp (S := fun a b => a.ev = true → b.ev = true → |b.z - a.z| / b.delta ≤ (cM2 p pr z).1)
      (fun a b hab h1 h2 => le_trans (hab h1 h2) hM01)
    refine isChain_insert this' ?_ ?_ (fun _ hz => hz)
    · intro h1 _
      exact le_trans (sp1.2.1 h1) sp2.1
    · intro _ h2
      exact sp2.2.1 h2.symm
  · -- Z_le
    rw [hit, hZeq]
    have := I.Z_le; rw [e] at this
    refine forall_ins (fun it hi hev => le_trans (cZ_le h z).1 (this it hi hev)) ?_ (fun hb => hb)
    intro _; exact (cZ_le h z).2
  · -- best
    rw [hit, hZeq, hbesteq]
    by_cases hb : z < pr.s.Z
    · refine ⟨cNew2 p pr z, by simp, ?_, rfl, ?_⟩
      · simp [cBest, better_eq h, hb]; rfl
      · rw [cZ_eq h, if_pos hb]; rfl
    · have hb1 : cBest pr z = pr.s.best := by simp [cBest, better_eq h, hb]
      have hb2 : cZ pr z = pr.s.Z := by rw [cZ_eq h, if_neg hb]
      rw [hb1, hb2]
      have := I.best; rw [e] at this
      exact exists_ins this (fun hb => hb)
  · -- best_first
    rw [hit, hZeq, hbesteq]
    have hbf := I.best_first; rw [e] at hbf
    have hzl := I.Z_le; rw [e] at hzl
    have hlt := I.ids_lt; rw [e] at hlt
    by_cases hb : z < pr.s.Z
    · have hb1 : cBest pr z = pr.s.nextId := by simp [cBest, better_eq h, hb]
      have hb2 : cZ pr z = z := by rw [cZ_eq h, if_pos hb]
      rw [hb1, hb2]
      refine forall_ins (b := pr.old) ?_ (fun _ _ => le_rfl) (fun hb => hb)
      intro it hi hev hz
      have := hzl it hi hev
      rw [hz] at this
      exact absurd hb (not_lt.2 this)
    · have hb1 : cBest pr z = pr.s.best := by simp [cBest, better_eq h, hb]
      have hb2 : cZ pr z = pr.s.Z := by rw [cZ_eq h, if_neg hb]
      rw [hb1, hb2]
      refine forall_ins hbf ?_ (fun hb => hb)
      intro _ _
      obtain ⟨bi, hbi, hid, _⟩ := I.best
      have := I.ids_lt bi hbi
      show pr.s.best ≤ pr.s.nextId
      omega
  · rw [commit_eq]; show pr.s.iters + 1 = pr.s.nTrials + 1
    rw [I.iters_eq]
  · have hn' : (commit p pr z).nTrials = pr.s.nTrials + 1 := by rw [commit_eq]
    rw [hn', hit, I.nTrials_eq, e]
    have h1 : (cNew2 p pr z).ev = true := rfl
    have h2 : (cOld2 p pr z).ev = pr.old.ev := rfl
    simp only [List.countP_append, List.countP_cons, h1, h2, if_true]
    omega
  · rw [hit]
    have := I.hv_eq; rw [e] at this
    exact forall_ins this (fun _ => rfl) (fun hb => hb)
  · rw [hit]
    have := I.point_eq; rw [e] at this
    exact forall_ins this h.point_eq (fun hb => hb)
  · -- fresh
    intro hrc
    have hrc' : (cM2 p pr z).2 = false := by rw [commit_eq] at hrc; exact hrc
    obtain ⟨hM', hZ'⟩ := commit_recalc_false hL z hrc'
    have F := I.fresh h.recalc_false
    rw [hit, hMeq, hZeq]
    refine ⟨?_, ?_⟩
    · rw [head_ins _ (pr.old :: post), ← e]; exact F.headR
    · have hc := F.chainR; rw [e, ← hM', ← hZ'] at hc
      exact isChain_insert hc rfl rfl (fun _ hz => hz)

theorem commit_inv (hL : FnsLaws α) (h : PrepSpec p s pr) (z : α) :
    Inv p (commit p pr z) := by
  refine ⟨commit_invItems hL h z, ?_⟩
  intro _
  obtain ⟨pre, post, e, hQ⟩ := h.decomp
  rw [commit_items h z e]
  have hq : (commit p pr z).queue =
      qinsert (qinsert pr.s.queue (cNew2 p pr z).R (cNew2 p pr z).id) (cOld2 p pr z).R (cOld2 p pr z).id := by
    rw [commit_eq]
  rw [hq]
  refine ⟨qinsert_sorted _ _ _ (qinsert_sorted _ _ _ hQ.sorted), ?_⟩
  refine (qinsert_perm _ _ _).trans ?_
  refine ((qinsert_perm _ _ _).cons _).trans ?_
  refine ((hQ.perm.cons _).cons _).trans ?_
  have step : (qkey (cOld2 p pr z) :: qkey (cNew2 p pr z) ::
        ((pre.map qkey ++ [qkey pr.left]) ++ post.map qkey)).Perm
      ((pre.map qkey ++ [qkey pr.left]) ++ qkey (cNew2 p pr z) :: qkey (cOld2 p pr z) :: post.map qkey) :=
    (List.Perm.swap _ _ _).trans ((List.perm_middle.symm.cons _).trans List.perm_middle.symm)
  simpa [qkey] using step

end Commit
end AGP
