import IOptProofs.GrishDefs
/-! kernel-evaluated certificates (V), (G), (P) of the Grishagin functions 46..50 (one block per file, identical template;
one theorem per function so that the kernel's reduction cache is released between functions) -/
namespace Grish
set_option maxRecDepth 100000
theorem grish_ok_46 : grishOK 46 = true := by decide +kernel
theorem grish_ok_47 : grishOK 47 = true := by decide +kernel
theorem grish_ok_48 : grishOK 48 = true := by decide +kernel
theorem grish_ok_49 : grishOK 49 = true := by decide +kernel
theorem grish_ok_50 : grishOK 50 = true := by decide +kernel
theorem grish_block_9 : ∀ k ∈ List.range' 46 5, grishOK k = true := by
  intro k hk
  simp only [List.mem_range'_1] at hk
  obtain ⟨h1, h2⟩ := hk
  have : k = 46 ∨ k = 47 ∨ k = 48 ∨ k = 49 ∨ k = 50 := by omega
  rcases this with rfl | rfl | rfl | rfl | rfl
  · exact grish_ok_46
  · exact grish_ok_47
  · exact grish_ok_48
  · exact grish_ok_49
  · exact grish_ok_50
end Grish
