import IOptProofs.EvFin
/-!
# Evolvent, forward direction: the induction proofs, generic in the dimension

Everything here takes the finite facts `F : EvFacts n` as a hypothesis and works for digit lists of
ARBITRARY length `m` (induction on the list).  The coordinate sums `Yc n s ds i` are used instead of
the list-valued `cubeY`; `cubeY_spec` is the bridge.
-/

namespace Ev

/-- `y` is the centre of a grid cell on one axis at density `m`, in units of `2^-(m+1)`:
`|y| ≤ 2^m - 1` and `y ≡ 2^m - 1 (mod 2)` (i.e. `y = 2k + 1 - 2^m` with `0 ≤ k < 2^m`).
For `m ≥ 1` this is "`y` odd and `|y| ≤ 2^m - 1`" (`cell_iff_odd`); for `m = 0` it is `y = 0`. -/
def cell (m : Nat) (y : Int) : Prop :=
  -((2:Int)^m - 1) ≤ y ∧ y ≤ (2:Int)^m - 1 ∧ (y + (2:Int)^m - 1) % 2 = 0

theorem two_pow_pos_int (m : Nat) : (0:Int) < (2:Int)^m := Int.pow_pos (by omega)

theorem cell_zero (y : Int) : cell 0 y ↔ y = 0 := by
  simp only [cell, Int.pow_zero]; omega

theorem cell_iff_odd {m : Nat} (hm : 0 < m) (y : Int) :
    cell m y ↔ (y % 2 = 1 ∧ -((2:Int)^m - 1) ≤ y ∧ y ≤ (2:Int)^m - 1) := by
  obtain ⟨k, rfl⟩ : ∃ k, m = k + 1 := ⟨m - 1, by omega⟩
  simp only [cell, Int.pow_succ]
  generalize (2:Int)^k = P
  omega

section Generic
variable {n : Nat} (F : EvFacts n)
include F

theorem stateAfter_valid {s : St} (hs : validState n s) {ds : List Nat}
    (hd : validDigits n ds) : validState n (stateAfter n s ds) := by
  induction ds generalizing s with
  | nil => exact hs
  | cons d ds ih =>
    rw [validDigits_cons] at hd
    exact ih (F.closed s d hs hd.1).1 hd.2

theorem signs_lengths {s : St} (hs : validState n s) {ds : List Nat}
    (hd : validDigits n ds) : ∀ o ∈ signs n s ds, o.length = n := by
  induction ds generalizing s with
  | nil => intro o ho; cases ho
  | cons d ds ih =>
    rw [validDigits_cons] at hd
    intro o ho
    rw [signs_cons, List.mem_cons] at ho
    rcases ho with rfl | ho
    · exact (F.closed s d hs hd.1).2.1
    · exact ih (F.closed s d hs hd.1).1 hd.2 o ho

/-- `cubeY` has length `n` and its coordinates are the sums `Yc` from the initial state -/
theorem cubeY_spec {ds : List Nat} (hn : 0 < n) (hd : validDigits n ds) :
    (cubeY n ds).length = n ∧ ∀ i, i < n → getI (cubeY n ds) i = Yc n (St.init n) ds i :=
  cubeY_getI_of_lengths n ds (signs_lengths F (validState_init hn) hd)

/-- every coordinate of every image is a cell centre (general start state) -/
theorem Yc_cell {s : St} (hs : validState n s) {ds : List Nat} (hd : validDigits n ds)
    {i : Nat} (hi : i < n) : cell ds.length (Yc n s ds i) := by
  induction ds generalizing s with
  | nil => rw [Yc_nil, List.length_nil, cell_zero]
  | cons d ds ih =>
    rw [validDigits_cons] at hd
    obtain ⟨hs', ho⟩ := F.closed s d hs hd.1
    have hR := ih hs' hd.2
    have hoi := signVec_getI ho hi
    rw [Yc_cons, List.length_cons]
    simp only [cell, Int.pow_succ] at hR ⊢
    have hP := two_pow_pos_int ds.length
    generalize (2:Int)^ds.length = P at hR hP ⊢
    generalize Yc n (step n s d).1 ds i = R at hR ⊢
    rcases hoi with h | h <;> rw [h] <;> omega

/-- (C07, injectivity) digit lists of the same length reaching the same point are equal -/
theorem Yc_inj {s : St} (hs : validState n s) {ds ds' : List Nat} (hd : validDigits n ds)
    (hd' : validDigits n ds') (hl : ds.length = ds'.length)
    (he : ∀ i, i < n → Yc n s ds i = Yc n s ds' i) : ds = ds' := by
  induction ds generalizing s ds' with
  | nil => cases ds' with
    | nil => rfl
    | cons => simp at hl
  | cons d ds ih =>
    cases ds' with
    | nil => simp at hl
    | cons d' ds' =>
      rw [validDigits_cons] at hd hd'
      simp only [List.length_cons, Nat.add_right_cancel_iff] at hl
      obtain ⟨hs1, ho1⟩ := F.closed s d hs hd.1
      obtain ⟨hs2, ho2⟩ := F.closed s d' hs hd'.1
      -- the leading offsets agree coordinate-wise
      have hoo : ∀ i, i < n → getI (step n s d).2 i = getI (step n s d').2 i := by
        intro i hi
        have e := he i hi
        have c1 := Yc_cell F hs1 hd.2 hi
        have c2 := Yc_cell F hs2 hd'.2 hi
        rw [Yc_cons, Yc_cons, ← hl] at e
        rw [← hl] at c2
        simp only [cell] at c1 c2
        have hP := two_pow_pos_int ds.length
        generalize (2:Int)^ds.length = P at e c1 c2 hP
        generalize Yc n (step n s d).1 ds i = R at e c1
        generalize Yc n (step n s d').1 ds' i = R' at e c2
        rcases signVec_getI ho1 hi with h | h <;> rcases signVec_getI ho2 hi with h' | h' <;>
          rw [h, h'] at e ⊢ <;> omega
      have hdd : d = d' := F.inj s d d' hs hd.1 hd'.1 (ext_getI ho1.1 ho2.1 hoo)
      subst hdd
      have : ds = ds' := by
        apply ih hs1 hd.2 hd'.2 hl
        intro i hi
        have e := he i hi
        rw [Yc_cons, Yc_cons, ← hl] at e
        omega
      rw [this]

/-- (C07, surjectivity) every vector of cell centres is reached, from any valid start state -/
theorem Yc_surj (m : Nat) {s : St} (hs : validState n s) {y : List Int} (hy : y.length = n)
    (hc : ∀ i, i < n → cell m (getI y i)) :
    ∃ ds, ds.length = m ∧ validDigits n ds ∧ ∀ i, i < n → Yc n s ds i = getI y i := by
  induction m generalizing s y with
  | zero =>
    refine ⟨[], rfl, validDigits_nil n, fun i hi => ?_⟩
    have := hc i hi
    rw [cell_zero] at this
    rw [Yc_nil, this]
  | succ m ih =>
    -- leading offset: the sign of each coordinate; remainder: one level finer
    let o : List Int := y.map fun v => if 0 < v then 1 else -1
    let r : List Int := y.map fun v => v - (if 0 < v then 1 else -1) * (2:Int)^m
    have ho : signVec n o := by
      apply signVec_of_getI (by simp [o, hy])
      intro i hi
      rw [getI_map (by rw [hy]; exact hi)]
      split <;> simp
    obtain ⟨d, hd, hstep⟩ := F.surj s o hs ho
    obtain ⟨hs', _⟩ := F.closed s d hs hd
    have hr : r.length = n := by simp [r, hy]
    have hrc : ∀ i, i < n → cell m (getI r i) := by
      intro i hi
      have := hc i hi
      rw [getI_map (by rw [hy]; exact hi)]
      simp only [cell, Int.pow_succ] at this ⊢
      have hP := two_pow_pos_int m
      generalize (2:Int)^m = P at this hP ⊢
      generalize getI y i = v at this ⊢
      split <;> omega
    obtain ⟨ds, hl, hv, hY⟩ := ih hs' hr hrc
    refine ⟨d :: ds, by simp [hl], validDigits_cons.2 ⟨hd, hv⟩, fun i hi => ?_⟩
    rw [Yc_cons, hY i hi, hstep, hl, getI_map (by rw [hy]; exact hi),
      getI_map (by rw [hy]; exact hi)]
    omega

/-! ### continuity -/

/-- after the last child, always the last child: all offsets equal the exit corner -/
theorem Yc_replicate_last {s : St} (hs : validState n s) (k : Nat) {i : Nat} (hi : i < n) :
    Yc n s (List.replicate k (2^n - 1)) i = getI (step n s (2^n - 1)).2 i * ((2:Int)^k - 1) := by
  have hL : 2^n - 1 < 2^n := Nat.sub_lt (Nat.two_pow_pos n) Nat.one_pos
  induction k generalizing s with
  | zero => simp
  | succ k ih =>
    obtain ⟨hs', ho⟩ := F.closed s _ hs hL
    rw [List.replicate_succ, Yc_cons, ih hs', F.selfL s hs, List.length_replicate, Int.pow_succ]
    generalize (2:Int)^k = P
    rcases signVec_getI ho hi with h | h <;> rw [h] <;> omega

/-- after the first child, always the first child: all offsets equal the entry corner -/
theorem Yc_replicate_zero {s : St} (hs : validState n s) (k : Nat) {i : Nat} (hi : i < n) :
    Yc n s (List.replicate k 0) i = getI (step n s 0).2 i * ((2:Int)^k - 1) := by
  have h0 : 0 < 2^n := Nat.two_pow_pos n
  induction k generalizing s with
  | zero => simp
  | succ k ih =>
    obtain ⟨hs', ho⟩ := F.closed s _ hs h0
    rw [List.replicate_succ, Yc_cons, ih hs', F.self0 s hs, List.length_replicate, Int.pow_succ]
    generalize (2:Int)^k = P
    rcases signVec_getI ho hi with h | h <;> rw [h] <;> omega

omit F in
theorem indexOf_replicate_zero (n k : Nat) : indexOf n (List.replicate k 0) = 0 := by
  induction k with
  | zero => rfl
  | succ k ih => rw [List.replicate_succ, indexOf_cons, ih]; simp

omit F in
theorem indexOf_replicate_last (n k : Nat) :
    indexOf n (List.replicate k (2^n - 1)) + 1 = (2^n)^k := by
  induction k with
  | zero => rfl
  | succ k ih =>
    rw [List.replicate_succ, indexOf_cons, List.length_replicate, Nat.add_assoc, ih, Nat.pow_succ]
    have hB : 0 < 2^n := Nat.two_pow_pos n
    calc (2^n - 1) * (2^n)^k + (2^n)^k = ((2^n - 1) + 1) * (2^n)^k := by
          rw [Nat.add_mul, Nat.one_mul]
      _ = (2^n)^k * 2^n := by rw [Nat.sub_add_cancel hB, Nat.mul_comm]

omit F in
theorem eq_replicate_zero {ds : List Nat} (h : indexOf n ds = 0) (hv : validDigits n ds) :
    ds = List.replicate ds.length 0 := by
  apply indexOf_inj hv (validDigits_replicate (Nat.two_pow_pos n)) (by simp)
  rw [h, indexOf_replicate_zero]

omit F in
theorem eq_replicate_last {ds : List Nat} (h : indexOf n ds + 1 = (2^n)^ds.length)
    (hv : validDigits n ds) : ds = List.replicate ds.length (2^n - 1) := by
  have hL : 2^n - 1 < 2^n := Nat.sub_lt (Nat.two_pow_pos n) Nat.one_pos
  apply indexOf_inj hv (validDigits_replicate hL) (by simp)
  have := indexOf_replicate_last n ds.length
  omega

/-- (C08) consecutive subintervals are mapped to cells that differ in exactly one coordinate, by
exactly one cell width (`2` in these units) — from any valid start state -/
theorem Yc_adjacent {s : St} (hs : validState n s) {ds ds' : List Nat} (hd : validDigits n ds)
    (hd' : validDigits n ds') (hl : ds.length = ds'.length)
    (hi : indexOf n ds' = indexOf n ds + 1) :
    ∃ c, c < n ∧ (∀ i, i < n → i ≠ c → Yc n s ds i = Yc n s ds' i) ∧
      (Yc n s ds c - Yc n s ds' c = 2 ∨ Yc n s ds c - Yc n s ds' c = -2) := by
  induction ds generalizing s ds' with
  | nil => cases ds' with
    | nil => simp [indexOf] at hi
    | cons => simp at hl
  | cons a t ih =>
    cases ds' with
    | nil => simp at hl
    | cons a' t' =>
      rw [validDigits_cons] at hd hd'
      simp only [List.length_cons, Nat.add_right_cancel_iff] at hl
      rw [indexOf_cons, indexOf_cons, ← hl] at hi
      have b1 := indexOf_lt hd.2
      have b2 := indexOf_lt hd'.2
      rw [← hl] at b2
      have hQ : 0 < (2^n)^t.length := Nat.pow_pos (Nat.two_pow_pos n)
      -- either the leading digits agree, or a' = a+1 with extreme tails
      have key : (a' = a ∧ indexOf n t' = indexOf n t + 1) ∨
          (a' = a + 1 ∧ indexOf n t + 1 = (2^n)^t.length ∧ indexOf n t' = 0) := by
        generalize (2^n)^t.length = Q at hi b1 b2 hQ
        rcases Nat.lt_trichotomy a a' with h | h | h
        · have h1 : (a + 1) * Q ≤ a' * Q := Nat.mul_le_mul_right Q h
          rw [Nat.add_mul, Nat.one_mul] at h1
          have h2 : a' * Q = (a + 1) * Q := by rw [Nat.add_mul, Nat.one_mul]; omega
          have h3 : a' = a + 1 := Nat.eq_of_mul_eq_mul_right hQ h2
          right; exact ⟨h3, by omega, by omega⟩
        · subst h; left; exact ⟨rfl, by omega⟩
        · have h1 : (a' + 1) * Q ≤ a * Q := Nat.mul_le_mul_right Q h
          rw [Nat.add_mul, Nat.one_mul] at h1
          omega
      rcases key with ⟨rfl, hi'⟩ | ⟨rfl, hmax, hzero⟩
      · -- same leading digit: recurse into the common child
        obtain ⟨hs1, _⟩ := F.closed s a' hs hd.1
        obtain ⟨c, hc, h1, h2⟩ := ih hs1 hd.2 hd'.2 hl hi'
        refine ⟨c, hc, fun i hin hic => ?_, ?_⟩
        · rw [Yc_cons, Yc_cons, h1 i hin hic, hl]
        · rw [Yc_cons, Yc_cons, ← hl]; omega
      · -- a' = a + 1, t = L L ... L, t' = 0 0 ... 0
        have hL : 2^n - 1 < 2^n := Nat.sub_lt (Nat.two_pow_pos n) Nat.one_pos
        have h0 : 0 < 2^n := Nat.two_pow_pos n
        have et := eq_replicate_last hmax hd.2
        have et' := eq_replicate_zero hzero hd'.2
        obtain ⟨hsa, hoa⟩ := F.closed s a hs hd.1
        obtain ⟨hsb, hob⟩ := F.closed s (a+1) hs hd'.1
        obtain ⟨_, hoX⟩ := F.closed _ (2^n - 1) hsa hL
        obtain ⟨_, hoE⟩ := F.closed _ 0 hsb h0
        obtain ⟨c, hc, g1, g2, g3, g4⟩ := F.glue s a hs hd'.1
        have expand : ∀ i, i < n →
            Yc n s (a :: t) i = getI (step n s a).2 i * (2:Int)^t.length +
              getI (step n (step n s a).1 (2^n - 1)).2 i * ((2:Int)^t.length - 1) ∧
            Yc n s ((a+1) :: t') i = getI (step n s (a+1)).2 i * (2:Int)^t.length +
              getI (step n (step n s (a+1)).1 0).2 i * ((2:Int)^t.length - 1) := by
          intro i hin
          constructor
          · rw [Yc_cons]
            conv => lhs; rw [et]
            rw [Yc_replicate_last F hsa _ hin, List.length_replicate]
          · rw [Yc_cons]
            conv => lhs; rw [et']
            rw [Yc_replicate_zero F hsb _ hin, List.length_replicate, ← hl]
        refine ⟨c, hc, fun i hin hic => ?_, ?_⟩
        · obtain ⟨e1, e2⟩ := expand i hin
          rw [e1, e2, (g4 i hin hic).1, (g4 i hin hic).2]
        · obtain ⟨e1, e2⟩ := expand c hc
          rw [e1, e2, g2, g3]
          generalize (2:Int)^t.length = P
          rcases signVec_getI hoa hc with h | h <;> rcases signVec_getI hob hc with h' | h' <;>
            rw [h, h'] at g1 ⊢ <;> first | omega | exact absurd rfl g1

omit F in
/-- (C08, nesting) appending one digit refines the cell: `Y' = 2·Y + o` -/
theorem Yc_snoc (s : St) (ds : List Nat) (d : Nat) (i : Nat) :
    Yc n s (ds ++ [d]) i = 2 * Yc n s ds i + getI (step n (stateAfter n s ds) d).2 i := by
  rw [Yc_append, Yc_cons, Yc_nil]
  simp only [List.length_cons, List.length_nil, Nat.zero_add, Int.pow_zero, Int.pow_succ]
  omega

/-- (C08, coordinate bound) if the length-`p` prefixes are equal or consecutive subintervals, then
all coordinates are within `2·2^(m-p+1) - 2` and all but one within `2^(m-p+1) - 2` -/
theorem Yc_coord_bound {s : St} (hs : validState n s) {ds ds' : List Nat} (hd : validDigits n ds)
    (hd' : validDigits n ds') (hl : ds.length = ds'.length) (p : Nat)
    (hidx : indexOf n (ds.take p) = indexOf n (ds'.take p) ∨
            indexOf n (ds'.take p) = indexOf n (ds.take p) + 1 ∨
            indexOf n (ds.take p) = indexOf n (ds'.take p) + 1) :
    ∃ c, c < n ∧
      (∀ i, i < n → i ≠ c →
        -(2 * (2:Int)^(ds.length - p)) < Yc n s ds i - Yc n s ds' i ∧
        Yc n s ds i - Yc n s ds' i < 2 * (2:Int)^(ds.length - p)) ∧
      -(4 * (2:Int)^(ds.length - p)) < Yc n s ds c - Yc n s ds' c ∧
      Yc n s ds c - Yc n s ds' c < 4 * (2:Int)^(ds.length - p) := by
  have hn : 0 < n := Nat.lt_of_le_of_lt (Nat.zero_le _) hs.1
  have hpv := validDigits_take hd p
  have hpv' := validDigits_take hd' p
  have hrv := validDigits_drop hd p
  have hrv' := validDigits_drop hd' p
  have hpl : (ds.take p).length = (ds'.take p).length := by
    simp [List.length_take, hl]
  have hrl : (ds.drop p).length = ds.length - p := by simp
  have hrl' : (ds'.drop p).length = ds.length - p := by simp [hl]
  -- decomposition of both sums
  have dec : ∀ i, Yc n s ds i = Yc n s (ds.take p) i * (2:Int)^(ds.length - p) +
      Yc n (stateAfter n s (ds.take p)) (ds.drop p) i := by
    intro i
    conv => lhs; rw [← List.take_append_drop p ds]
    rw [Yc_append, hrl]
  have dec' : ∀ i, Yc n s ds' i = Yc n s (ds'.take p) i * (2:Int)^(ds.length - p) +
      Yc n (stateAfter n s (ds'.take p)) (ds'.drop p) i := by
    intro i
    conv => lhs; rw [← List.take_append_drop p ds']
    rw [Yc_append, hrl']
  have cR : ∀ i, i < n → cell (ds.length - p) (Yc n (stateAfter n s (ds.take p)) (ds.drop p) i) := by
    intro i hi
    have := Yc_cell F (stateAfter_valid F hs hpv) hrv hi
    rwa [hrl] at this
  have cR' : ∀ i, i < n →
      cell (ds.length - p) (Yc n (stateAfter n s (ds'.take p)) (ds'.drop p) i) := by
    intro i hi
    have := Yc_cell F (stateAfter_valid F hs hpv') hrv' hi
    rwa [hrl'] at this
  -- the prefixes' points: equal or adjacent
  have hpre : ∃ c, c < n ∧
      (∀ i, i < n → i ≠ c → Yc n s (ds.take p) i = Yc n s (ds'.take p) i) ∧
      (Yc n s (ds.take p) c - Yc n s (ds'.take p) c = 0 ∨
       Yc n s (ds.take p) c - Yc n s (ds'.take p) c = 2 ∨
       Yc n s (ds.take p) c - Yc n s (ds'.take p) c = -2) := by
    rcases hidx with h | h | h
    · have := indexOf_inj hpv hpv' hpl h
      exact ⟨0, hn, fun i _ _ => by rw [this], Or.inl (by rw [this]; omega)⟩
    · obtain ⟨c, hc, h1, h2⟩ := Yc_adjacent F hs hpv hpv' hpl h
      exact ⟨c, hc, h1, Or.inr h2⟩
    · obtain ⟨c, hc, h1, h2⟩ := Yc_adjacent F hs hpv' hpv hpl.symm h
      exact ⟨c, hc, fun i hi hic => (h1 i hi hic).symm, Or.inr (by omega)⟩
  obtain ⟨c, hc, h1, h2⟩ := hpre
  refine ⟨c, hc, fun i hi hic => ?_, ?_⟩
  · have a1 := cR i hi
    have a2 := cR' i hi
    rw [dec i, dec' i, h1 i hi hic]
    simp only [cell] at a1 a2
    generalize (2:Int)^(ds.length - p) = Q at a1 a2 ⊢
    generalize Yc n s (ds'.take p) i * Q = Z
    omega
  · have a1 := cR c hc
    have a2 := cR' c hc
    rw [dec c, dec' c]
    simp only [cell] at a1 a2
    generalize (2:Int)^(ds.length - p) = Q at a1 a2 ⊢
    generalize Yc n s (ds.take p) c = A at h2 ⊢
    generalize Yc n s (ds'.take p) c = B at h2 ⊢
    rcases h2 with h | h | h
    · have : A = B := by omega
      subst this; generalize A * Q = Z; omega
    · have : A = B + 2 := by omega
      subst this; rw [Int.add_mul]; generalize B * Q = Z; omega
    · have : A = B + (-2) := by omega
      subst this; rw [Int.add_mul]; generalize B * Q = Z; omega

end Generic

end Ev
