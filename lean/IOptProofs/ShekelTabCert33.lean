import IOptProofs.ShekelTabDefs
/-! kernel-evaluated C18 table certificates (min / max / Lipschitz tables) of the Shekel functions 660..679
(one block per file, identical template; four kernel evaluations of 5 rows each keep the memory near 1 GB) -/
namespace Shk
set_option maxRecDepth 100000 in
theorem shekel_tab_block_33_a : ∀ i ∈ List.range' 660 5, shekelTabOK i = true := by decide +kernel
set_option maxRecDepth 100000 in
theorem shekel_tab_block_33_b : ∀ i ∈ List.range' 665 5, shekelTabOK i = true := by decide +kernel
set_option maxRecDepth 100000 in
theorem shekel_tab_block_33_c : ∀ i ∈ List.range' 670 5, shekelTabOK i = true := by decide +kernel
set_option maxRecDepth 100000 in
theorem shekel_tab_block_33_d : ∀ i ∈ List.range' 675 5, shekelTabOK i = true := by decide +kernel
theorem shekel_tab_block_33 : ∀ i ∈ List.range' 660 20, shekelTabOK i = true := by
  intro i hi
  have hi' := List.mem_range'_1.1 hi
  if h1 : i < 665 then exact shekel_tab_block_33_a i (List.mem_range'_1.2 ⟨by omega, by omega⟩) else
  if h2 : i < 670 then exact shekel_tab_block_33_b i (List.mem_range'_1.2 ⟨by omega, by omega⟩) else
  if h3 : i < 675 then exact shekel_tab_block_33_c i (List.mem_range'_1.2 ⟨by omega, by omega⟩) else
  exact shekel_tab_block_33_d i (List.mem_range'_1.2 ⟨by omega, by omega⟩)
end Shk
