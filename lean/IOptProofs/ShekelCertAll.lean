import IOptProofs.ShekelCert0
import IOptProofs.ShekelCert1
import IOptProofs.ShekelCert2
import IOptProofs.ShekelCert3
import IOptProofs.ShekelCert4
import IOptProofs.ShekelCert5
import IOptProofs.ShekelCert6
import IOptProofs.ShekelCert7
import IOptProofs.ShekelCert8
import IOptProofs.ShekelCert9
import IOptProofs.ShekelCert10
import IOptProofs.ShekelCert11
import IOptProofs.ShekelCert12
import IOptProofs.ShekelCert13
import IOptProofs.ShekelCert14
import IOptProofs.ShekelCert15
import IOptProofs.ShekelCert16
import IOptProofs.ShekelCert17
import IOptProofs.ShekelCert18
import IOptProofs.ShekelCert19
/-! all 1000 Shekel C10 certificates, assembled from the 20 kernel-evaluated blocks -/
namespace Shk
theorem shekel_all : ∀ i < 1000, shekelOK i = true := by
  intro i hi
  if h0 : i < 50 then exact shekel_block_0 i (List.mem_range'_1.2 ⟨by omega, by omega⟩) else
  if h1 : i < 100 then exact shekel_block_1 i (List.mem_range'_1.2 ⟨by omega, by omega⟩) else
  if h2 : i < 150 then exact shekel_block_2 i (List.mem_range'_1.2 ⟨by omega, by omega⟩) else
  if h3 : i < 200 then exact shekel_block_3 i (List.mem_range'_1.2 ⟨by omega, by omega⟩) else
  if h4 : i < 250 then exact shekel_block_4 i (List.mem_range'_1.2 ⟨by omega, by omega⟩) else
  if h5 : i < 300 then exact shekel_block_5 i (List.mem_range'_1.2 ⟨by omega, by omega⟩) else
  if h6 : i < 350 then exact shekel_block_6 i (List.mem_range'_1.2 ⟨by omega, by omega⟩) else
  if h7 : i < 400 then exact shekel_block_7 i (List.mem_range'_1.2 ⟨by omega, by omega⟩) else
  if h8 : i < 450 then exact shekel_block_8 i (List.mem_range'_1.2 ⟨by omega, by omega⟩) else
  if h9 : i < 500 then exact shekel_block_9 i (List.mem_range'_1.2 ⟨by omega, by omega⟩) else
  if h10 : i < 550 then exact shekel_block_10 i (List.mem_range'_1.2 ⟨by omega, by omega⟩) else
  if h11 : i < 600 then exact shekel_block_11 i (List.mem_range'_1.2 ⟨by omega, by omega⟩) else
  if h12 : i < 650 then exact shekel_block_12 i (List.mem_range'_1.2 ⟨by omega, by omega⟩) else
  if h13 : i < 700 then exact shekel_block_13 i (List.mem_range'_1.2 ⟨by omega, by omega⟩) else
  if h14 : i < 750 then exact shekel_block_14 i (List.mem_range'_1.2 ⟨by omega, by omega⟩) else
  if h15 : i < 800 then exact shekel_block_15 i (List.mem_range'_1.2 ⟨by omega, by omega⟩) else
  if h16 : i < 850 then exact shekel_block_16 i (List.mem_range'_1.2 ⟨by omega, by omega⟩) else
  if h17 : i < 900 then exact shekel_block_17 i (List.mem_range'_1.2 ⟨by omega, by omega⟩) else
  if h18 : i < 950 then exact shekel_block_18 i (List.mem_range'_1.2 ⟨by omega, by omega⟩) else
  if h19 : i < 1000 then exact shekel_block_19 i (List.mem_range'_1.2 ⟨by omega, by omega⟩) else
  omega
end Shk
