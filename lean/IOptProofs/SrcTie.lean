import IOptModel.Method
import IOptGen.MethodSrc
import Mathlib.Tactic.Ring
import Mathlib.Tactic.FieldSimp
import Mathlib.Algebra.Order.Field.Basic
/-!
# The hand-written model of `Method` equals the translation of the CURRENT source text

`IOptGen/MethodSrc.lean` is regenerated on every run by `harness/src2lean.py` from the source text of
`iOpt/method/method.py` (symbolic execution of the Python AST).  The theorems below state that the
functions of the hand-written model `IOptModel/Method.lean` — the ones every property theorem is about —
are these translations.  A change of a formula, of a comparison or of a branch in the source changes the
generated definitions and one of these theorems stops checking.

The first group holds over the raw numeric classes (hence also for the `Float` instance that the driver
executes): the expression trees are identical.  The second group (`nextX`) holds over ordered fields:
the source multiplies by `dg = ±1.0` where the model adds or subtracts.
-/
set_option linter.unusedSectionVars false

namespace SrcTie
open AGP Gen.Src

section raw
variable {α : Type} [Add α] [Sub α] [Mul α] [Div α] [Neg α] [LT α] [LE α]
  [DecidableLT α] [DecidableLE α] [OfNat α 0] [OfNat α 1] [OfNat α 2] [OfNat α 4] [Fns α]

/-- what the arithmetic reads from an item of the model: `GetIndex()` is 0 for evaluated items, -2 for end points -/
def pt (it : Item α) : Pt α := ⟨it.x, it.z, if it.ev then 0 else -2, it.delta⟩

/-- `Method.CalculateDelta` -/
theorem calcDelta_src (n : Nat) (lx rx : α) : calcDelta n lx rx = calculateDelta lx rx n := rfl

/-- `Method.CalculateGlobalR`, all three branches -/
theorem calcR_src (r M Z : α) (left cur : Item α) :
    calcR r M Z left cur = calculateGlobalR (pt left) (pt cur) r M Z := by
  cases hl : left.ev <;> cases hc : cur.ev <;> simp [calcR, calculateGlobalR, pt, hl, hc]

/-- `Method.CalculateM`: the new estimate and the recalc flag -/
theorem calcM_src (M : α) (recalc : Bool) (left cur : Item α) :
    calcM M recalc left cur
      = (calculateM_M (pt left) (pt cur) M, calculateM_recalc (pt left) (pt cur) M recalc) := by
  cases hl : left.ev <;> cases hc : cur.ev <;>
    simp only [calcM, calculateM_M, calculateM_recalc, pt, hl, hc, GT.gt] <;>
    first
      | (by_cases h : M < Fns.abs (left.z - cur.z) / cur.delta <;> simp [h])
      | simp

/-- `min(old.delta, self.min_delta)` in `CalculateIterationPoint` -/
theorem minDelta_src (old : Item α) (md : Option α) :
    AGP.minOpt old.delta md = iterationPoint_minDelta (pt old) md := by
  cases md <;> rfl

/-- `Method.CheckStopCondition` (finite `min_delta`) -/
theorem stopCond_src (p : Params α) (s : State α) (d : α) (h : s.minDelta = some d) :
    stopCond p s = checkStopCondition d p.eps s.iters p.itersLimit := by
  simp only [stopCond, h, checkStopCondition, ge_iff_le]
  by_cases h1 : d < p.eps <;> by_cases h2 : p.itersLimit ≤ s.iters <;> simp [h1, h2]

/-- `Method.CheckStopCondition` while `min_delta` is still `inf`: only the budget counts -/
theorem stopCond_inf (p : Params α) (s : State α) (h : s.minDelta = none) :
    stopCond p s = decide (p.itersLimit ≤ s.iters) := by
  simp [stopCond, h]

/-- `Method.UpdateOptimum` for two evaluated points: the comparison that `commit` makes -/
theorem updateOptimum_src (best new : Item α) (hb : best.ev = true) (hn : new.ev = true) :
    updateOptimum_taken (pt best) (pt new) = decide (new.z < best.z) ∧
    ∀ Z : α, updateOptimum_Z (pt best) (pt new) Z = if new.z < best.z then new.z else Z := by
  simp [updateOptimum_taken, updateOptimum_Z, pt, hb, hn]

theorem updateOptimum_recalc_src (best new : Item α) (hb : best.ev = true) (hn : new.ev = true) (rc : Bool) :
    updateOptimum_recalc (pt best) (pt new) rc = if new.z < best.z then true else rc := by
  simp [updateOptimum_recalc, pt, hb, hn]

end raw

section field
variable {α : Type} [Field α] [LinearOrder α] [IsStrictOrderedRing α] [Fns α]

/-- `Method.CalculateNextPointCoordinate`: the returned coordinate is the model's `nextX`, and the function
raises exactly when the model's `prepare` reports `outsideInterval` -/
theorem nextX_src (p : Params α) (M : α) (left cur : Item α) :
    calculateNextPointCoordinate (pt left) (pt cur) p.r M p.n
      = if nextX p M left cur ≤ left.x ∨ cur.x ≤ nextX p M left cur then none
        else some (nextX p M left cur) := by
  have e1 : ∀ a q : α, a - (AGP.half * 1 * q) / p.r = a - AGP.half * q / p.r := by
    intro a q; simp [Gen.Src.half, AGP.half]
  have e2 : ∀ a q : α, a - (AGP.half * (-1) * q) / p.r = a + AGP.half * q / p.r := by
    intro a q; simp only [Gen.Src.half, AGP.half]; ring
  have e0 : (Gen.Src.half : α) = AGP.half := rfl
  unfold calculateNextPointCoordinate nextX
  cases hl : left.ev <;> cases hc : cur.ev
  all_goals simp only [pt, hl, hc, GT.gt, ge_iff_le, Bool.false_eq_true, if_false, if_true,
    beq_self_eq_true, (by decide : ((-2 : Int) = 0) = False), (by decide : ((0 : Int) = -2) = False),
    (by decide : ((false == true) = true) = False), (by decide : ((true == false) = true) = False), e0]
  · by_cases h : 0 < cur.z - left.z
    · rw [if_pos h, if_pos h, e1]
    · rw [if_neg h, if_neg h, e2]
  · by_cases h : 0 < cur.z - left.z
    · rw [if_pos h, if_pos h, e1]
    · rw [if_neg h, if_neg h, e2]

end field

end SrcTie
