import IOptProofs.HillDefs
/-! kernel-evaluated certificates (V), (G), (P), (L) of the Hill functions 480..499 (one block per file, identical template) -/
namespace Hill
set_option maxRecDepth 100000 in
theorem hill_block_24 : ∀ i ∈ List.range' 480 20, hillOK i = true := by decide +kernel
end Hill
