import IOptProofs.EvInvFin
/-! # Finite facts about `Ev.node` / `Ev.numbr` for N = 6 (kernel evaluation) -/
namespace Ev.Inv
theorem nodeOK6 : ∀ d < 2^6, nodeOK 6 d = true := by decide +kernel
theorem numbrOK6 : ∀ u ∈ allSigns 6, numbrOK 6 u = true := by decide +kernel
end Ev.Inv
