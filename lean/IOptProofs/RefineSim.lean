import IOptProofs.RefineDefs
import IOptProofs.RefineSD
import IOptProofs.MethodRun
/-!
# The simulation relation between the concrete run and the list-level run

`RepSD sd items`: the pointer-level container `sd` holds the item list `items` (same ids in the
same order with consistent links, same coordinates, same characteristics).
`Sim c s`: the concrete state `c` represents the list-level state `s`.
The lemmas show that every container call of the method preserves the relation.
-/
set_option linter.unusedSectionVars false

namespace AGP
variable {α : Type} [Field α] [LinearOrder α] [IsStrictOrderedRing α] [Fns α]

/-! ## `xrOf` under the container operations -/

theorem xrOf_insTrials (tr : Array (SD.Item α (Option α))) (new : SD.Item α (Option α)) (l r i : Nat)
    (hl : l < tr.size) (hr : r < tr.size) (hlr : l ≠ r) :
    xrOf (SD.insTrials tr new l r) i =
      if i = tr.size then some (new.x, new.globalR) else xrOf tr i := by
  unfold xrOf
  rw [SD.insTrials_getElem? tr new l r i hl hr hlr]
  by_cases h1 : i = tr.size
  · simp [h1]
  · by_cases h2 : i = l
    · subst h2
      rw [if_neg h1, if_pos rfl, if_neg h1]
      cases tr[i]? <;> rfl
    · by_cases h3 : i = r
      · subst h3
        rw [if_neg h1, if_neg h2, if_pos rfl, if_neg h1]
        cases tr[i]? <;> rfl
      · simp [h1, h2, h3]

theorem xrOf_setGlobalR (sd : SD.State α (Option α)) (j : Nat) (k : Option α) (i : Nat) :
    xrOf (SD.setGlobalR sd j k).trials i =
      if i = j then (xrOf sd.trials i).map (fun xr => (xr.1, k)) else xrOf sd.trials i := by
  unfold xrOf SD.setGlobalR
  simp only [Array.getElem?_modify]
  by_cases h : j = i
  · subst h
    cases sd.trials[j]? <;> simp
  · have h' : ¬ i = j := fun e => h e.symm
    simp [h, h']

theorem xOf_of_xrOf {tr : Array (SD.Item α (Option α))} {i : Nat} {x : α} {R : Option α}
    (h : xrOf tr i = some (x, R)) : SD.xOf tr i = some x := by
  unfold xrOf at h
  unfold SD.xOf
  cases hg : tr[i]? with
  | none => rw [hg] at h; cases h
  | some it =>
    rw [hg] at h
    simp only [Option.map_some, Option.some.injEq, Prod.mk.injEq] at h
    simp [h.1]

theorem get_of_xrOf {tr : Array (SD.Item α (Option α))} {i : Nat} {x : α} {R : Option α}
    (h : xrOf tr i = some (x, R)) : ∃ cit, tr[i]? = some cit ∧ cit.x = x ∧ cit.globalR = R := by
  unfold xrOf at h
  cases hg : tr[i]? with
  | none => rw [hg] at h; cases h
  | some it =>
    rw [hg] at h
    simp only [Option.map_some, Option.some.injEq, Prod.mk.injEq] at h
    exact ⟨it, rfl, h.1, h.2⟩

theorem left_of_linkOf {tr : Array (SD.Item α (Option α))} {a : Nat} {l r : Option Nat}
    (h : SD.linkOf tr a = some (l, r)) : tr[a]?.bind (·.left) = l := by
  obtain ⟨ia, hia, hl, -⟩ := SD.linkOf_eq_some.1 h
  rw [hia]; exact hl

/-! ## the representation relation -/

/-- the container `sd` holds the item list `items`: the linked list of `sd` is the id list of
`items` (`SD.Rep`: mutual links, every id once, sorted), and every item's coordinate and
characteristic are the ones stored under its id -/
structure RepSD (sd : SD.State α (Option α)) (items : List (Item α)) : Prop where
  rep : SD.Rep sd.trials sd.first (items.map (·.id))
  xr : ∀ it ∈ items, xrOf sd.trials it.id = some (it.x, it.R)

section RepSD
variable {sd : SD.State α (Option α)} {items : List (Item α)}

theorem RepSD.traversal (h : RepSD sd items) : SD.traversal sd = items.map (·.id) :=
  h.rep.traversal_eq

theorem RepSD.wf (h : RepSD sd items) : SD.WF sd := h.rep.wf

theorem RepSD.nodup (h : RepSD sd items) : (items.map (·.id)).Nodup := h.rep.nodup

theorem RepSD.id_lt (h : RepSD sd items) {it : Item α} (hit : it ∈ items) : it.id < sd.trials.size :=
  h.rep.mem_iff.1 (List.mem_map_of_mem hit)

theorem RepSD.length (h : RepSD sd items) : items.length = sd.trials.size := by
  have := h.rep.length_eq
  simpa using this

theorem RepSD.xOf (h : RepSD sd items) {it : Item α} (hit : it ∈ items) :
    SD.xOf sd.trials it.id = some it.x := xOf_of_xrOf (h.xr it hit)

theorem RepSD.inj (h : RepSD sd items) {a b : Item α} (ha : a ∈ items) (hb : b ∈ items)
    (hab : a.id = b.id) : a = b :=
  List.inj_on_of_nodup_map h.nodup ha hb hab

theorem RepSD.congr {sd' : SD.State α (Option α)} (h : RepSD sd items) (h1 : sd'.trials = sd.trials)
    (h2 : sd'.first = sd.first) : RepSD sd' items :=
  ⟨by rw [h1, h2]; exact h.rep, by rw [h1]; exact h.xr⟩

/-- the `left` pointer of an item is the id of its left neighbour in the list -/
theorem RepSD.left_ptr {pre post : List (Item α)} {a b : Item α}
    (h : RepSD sd (pre ++ a :: b :: post)) : sd.trials[b.id]?.bind (·.left) = some a.id := by
  have hs := h.rep.seg
  rw [List.map_append, List.map_cons, List.map_cons, SD.Seg_append, SD.Seg_cons, SD.Seg_cons] at hs
  exact left_of_linkOf hs.2.2.1

/-- the item view of a stored item -/
theorem RepSD.item (h : RepSD sd items) {attr : Nat → Attr α} (ha : ∀ it ∈ items, attr it.id = it.attr)
    {it : Item α} (hit : it ∈ items) : itemOf sd attr it.id = it := by
  unfold itemOf
  rw [h.xr it hit, ha it hit]
  rfl

theorem RepSD.map_item (h : RepSD sd items) {attr : Nat → Attr α}
    (ha : ∀ it ∈ items, attr it.id = it.attr) :
    (items.map (·.id)).map (itemOf sd attr) = items := by
  rw [List.map_map]
  conv_rhs => rw [← List.map_id items]
  apply List.map_congr_left
  intro it hit
  exact h.item ha hit

end RepSD

/-! ## the simulation relation -/

/-- the concrete state `c` represents the list-level state `s` -/
structure Sim (c : CState α) (s : State α) : Prop where
  rs : RepSD c.sd s.items
  attr : ∀ it ∈ s.items, c.attr it.id = it.attr
  gq : c.sd.gq = s.queue
  maxlen : c.sd.maxlen = none
  dual : c.sd.dual = false
  size : c.sd.trials.size = s.nextId
  M : c.M = s.M
  Z : c.Z = s.Z
  best : c.best = s.best
  recalc : c.recalc = s.recalc
  iters : c.iters = s.iters
  minDelta : c.minDelta = s.minDelta
  nTrials : c.nTrials = s.nTrials
  best_mem : ∃ bi ∈ s.items, bi.id = s.best

theorem Sim.item {c : CState α} {s : State α} (h : Sim c s) {it : Item α} (hit : it ∈ s.items) :
    c.item it.id = it := h.rs.item h.attr hit

/-- the abstraction of a concrete state in the relation is the list-level state -/
theorem Sim.abs {c : CState α} {s : State α} (h : Sim c s) : absState c = s := by
  obtain ⟨items, queue, M, Z, best, recalc, iters, minDelta, nTrials, nextId⟩ := s
  unfold absState
  have h1 : (SD.traversal c.sd).map c.item = items := by
    rw [h.rs.traversal]; exact h.rs.map_item h.attr
  rw [h1, h.gq, h.M, h.Z, h.best, h.recalc, h.iters, h.minDelta, h.nTrials, h.size]

/-! ## the container calls of the renewal step -/

/-- `b.globalR = …` (and the rewritten attributes) of one stored item: the list with `b` replaced
by `b'` (same id, same coordinate) -/
theorem RepSD.setItem {sd : SD.State α (Option α)} {l1 l2 : List (Item α)} {b : Item α}
    (h : RepSD sd (l1 ++ b :: l2)) (b' : Item α) (hid : b'.id = b.id) (hx : b'.x = b.x) :
    RepSD (SD.setGlobalR sd b.id b'.R) (l1 ++ b' :: l2) := by
  have hids : (l1 ++ b' :: l2).map (·.id) = (l1 ++ b :: l2).map (·.id) := by simp [hid]
  refine ⟨?_, ?_⟩
  · rw [hids]; exact SD.Rep_setGlobalR _ _ h.rep
  · intro it hit
    rw [xrOf_setGlobalR]
    have hnd := h.nodup
    rw [List.map_append, List.map_cons] at hnd
    rcases List.mem_append.1 hit with h1 | h1
    · have hne : it.id ≠ b.id := by
        intro e
        exact (List.nodup_append.1 hnd).2.2 it.id (List.mem_map_of_mem h1) b.id (by simp) e
      rw [if_neg hne]
      exact h.xr it (by simp [h1])
    · rcases List.mem_cons.1 h1 with rfl | h2
      · rw [if_pos hid, hid, h.xr b (by simp)]
        simp [hx]
      · have hne : it.id ≠ b.id := by
          intro e
          have := (List.nodup_cons.1 (List.nodup_append.1 hnd).2.1).1
          exact this (by rw [← e]; exact List.mem_map_of_mem h2)
        rw [if_neg hne]
        exact h.xr it (by simp [h2])

/-- `InsertDataItem(new, b)` with the hint `b` between the neighbours `a`, `b` whose coordinates
enclose the new one: the call succeeds, the new item gets the id `len(_allTrials)`, it is linked
between `a` and `b`, and the queue receives `(new.R, new)` and then `(b.R, b)`. -/
theorem RepSD.insertNew {sd : SD.State α (Option α)} {pre post : List (Item α)} {a b : Item α}
    (h : RepSD sd (pre ++ a :: b :: post)) (new : Item α) (hid : new.id = sd.trials.size)
    (hax : a.x ≤ new.x) (hbx : new.x ≤ b.x) (hd : sd.dual = false) (hm : sd.maxlen = none) :
    ∃ sd', SD.insert ltF keyLe sd (sdItem new.x new.R) (some b.id) = .ok sd' ∧
      RepSD sd' (pre ++ a :: new :: b :: post) ∧
      sd'.gq = qinsert (qinsert sd.gq new.R new.id) b.R b.id ∧
      sd'.maxlen = none ∧ sd'.dual = false ∧ sd'.trials.size = sd.trials.size + 1 := by
  have hbm : b ∈ pre ++ a :: b :: post := by simp
  have ham : a ∈ pre ++ a :: b :: post := by simp
  obtain ⟨rit, hrit, -, hritR⟩ := get_of_xrOf (h.xr b hbm)
  have hleft : rit.left = some a.id := by
    have := h.left_ptr
    rw [hrit] at this
    exact this
  have hins := SD.insert_hint_eq ltF keyLe sd (sdItem new.x new.R) b.id a.id rit hrit hleft
  have hrep0 : SD.Rep sd.trials sd.first (pre.map (·.id) ++ a.id :: b.id :: post.map (·.id)) := by
    have := h.rep
    rwa [List.map_append, List.map_cons, List.map_cons] at this
  obtain ⟨hl, hr, hlr⟩ := hrep0.split_facts
  have hsorted := hrep0.sorted
  rw [List.pairwise_append, List.pairwise_cons, List.pairwise_cons] at hsorted
  have hxa := h.xOf ham
  have hxb := h.xOf hbm
  have hrep1 := SD.Rep_insTrials (sdItem new.x new.R) hrep0
    (by
      intro i hi xi hxi
      rcases List.mem_append.1 hi with hi | hi
      · have := hsorted.2.2 i hi a.id (by simp) xi a.x hxi hxa
        exact le_trans this hax
      · simp only [List.mem_singleton] at hi
        subst hi
        rw [hxa] at hxi; cases hxi
        exact hax)
    (by
      intro i hi xi hxi
      rcases List.mem_cons.1 hi with rfl | hi
      · rw [hxb] at hxi; cases hxi
        exact hbx
      · have := hsorted.2.1.2.1 i hi b.x xi hxb hxi
        exact le_trans hbx this)
  refine ⟨_, hins, ⟨?_, ?_⟩, ?_, hm, hd, ?_⟩
  · show SD.Rep (SD.insTrials sd.trials (sdItem new.x new.R) a.id b.id) sd.first _
    have : (pre ++ a :: new :: b :: post).map (·.id) =
        pre.map (·.id) ++ a.id :: sd.trials.size :: b.id :: post.map (·.id) := by simp [hid]
    rw [this]
    exact hrep1
  · intro it hit
    show xrOf (SD.insTrials sd.trials (sdItem new.x new.R) a.id b.id) it.id = _
    rw [xrOf_insTrials _ _ _ _ _ hl hr hlr]
    by_cases hn : it = new
    · subst hn
      rw [if_pos hid]
      rfl
    · have hold : it ∈ pre ++ a :: b :: post := by
        simp only [List.mem_append, List.mem_cons] at hit ⊢
        rcases hit with h1 | h1 | h1 | h1 | h1
        · exact Or.inl h1
        · exact Or.inr (Or.inl h1)
        · exact absurd h1 hn
        · exact Or.inr (Or.inr (Or.inl h1))
        · exact Or.inr (Or.inr (Or.inr h1))
      have := h.id_lt hold
      rw [if_neg (by omega)]
      exact h.xr it hold
  · show SD.qinsert keyLe sd.maxlen rit.globalR b.id
        (SD.qinsert keyLe sd.maxlen (sdItem new.x new.R).globalR sd.trials.size sd.gq) = _
    rw [hm, hritR, hid]
    rfl
  · show (SD.insTrials sd.trials (sdItem new.x new.R) a.id b.id).size = _
    rw [SD.insTrials_size]

/-! ## the first iteration -/

theorem half_bounds : (0 : α) ≤ half ∧ (half : α) ≤ 1 := by
  unfold half
  constructor
  · positivity
  · rw [div_le_one (by norm_num)]; norm_num

theorem cFirst_sim (p : Params α) (z : α) :
    ∃ c, cFirst p z = some c ∧ Sim c (firstIteration p z) := by
  -- the three items of the list-level model
  let left : Item α := { id := 0, x := 0, point := p.image 0, z := Fns.big, hv := 0, ev := false, delta := 0, R := none }
  let middle0 : Item α := { id := 2, x := half, point := p.image half, z := z, hv := z, ev := true,
                            delta := calcDelta p.n 0 half, R := none }
  let right0 : Item α := { id := 1, x := 1, point := p.image 1, z := Fns.big, hv := 0, ev := false,
                           delta := calcDelta p.n half 1, R := none }
  let middle : Item α := { middle0 with R := some (calcR p.r 1 z left middle0) }
  let right : Item α := { right0 with R := some (calcR p.r 1 z middle right0) }
  let sd0 := SD.insertFirst ({} : SD.State α (Option α)) (sdItem left.x left.R) (sdItem right.x right.R)
  have hrep0 : RepSD sd0 ([] ++ left :: right :: []) := by
    refine ⟨?_, ?_⟩
    · exact SD.Rep_insertFirst none false (sdItem left.x left.R) (sdItem right.x right.R) rfl rfl
        (by show (0 : α) ≤ 1; exact zero_le_one)
    · intro it hit
      simp only [List.nil_append, List.mem_cons, List.not_mem_nil, or_false] at hit
      rcases hit with rfl | rfl <;> rfl
  obtain ⟨sd, hins, hrs, hgq, hm, hd, hsz⟩ :=
    hrep0.insertNew middle rfl half_bounds.1 half_bounds.2 rfl rfl
  refine ⟨{ sd := sd
            attr := fun i => if i = 0 then left.attr else if i = 1 then right.attr else middle.attr
            M := 1, Z := z, best := 2, recalc := true, iters := 1, minDelta := none, nTrials := 1 }, ?_, ?_⟩
  · unfold cFirst
    simp only []
    rw [show SD.insert ltF keyLe _ _ (some 1) = .ok sd from hins]
  · refine ⟨hrs, ?_, ?_, hm, hd, ?_, rfl, rfl, rfl, rfl, rfl, rfl, rfl, ⟨middle, List.mem_cons_of_mem _ List.mem_cons_self, rfl⟩⟩
    · intro it hit
      simp only [firstIteration, List.mem_cons, List.not_mem_nil, or_false] at hit
      rcases hit with rfl | rfl | rfl <;> rfl
    · rw [hgq]; rfl
    · rw [hsz]; rfl

/-! ## recalculation: `ClearQueue`, the loop of `CalculateGlobalR`, `RefillQueue` -/

/-- `CalculateGlobalR` reads `z`, the index and `delta` only -/
theorem calcR_congr (r M Z : α) {a a' b b' : Item α} (h1 : a.z = a'.z) (h2 : a.ev = a'.ev)
    (h3 : b.z = b'.z) (h4 : b.ev = b'.ev) (h5 : b.delta = b'.delta) :
    calcR r M Z a b = calcR r M Z a' b' := by
  simp only [calcR, h1, h2, h3, h4, h5]

/-- the characteristic `CalculateGlobalR(item_i, left)` writes, as a function of the `left` pointer -/
def newR (p : Params α) (c : CState α) (o : Option Nat) (i : Nat) : Option α :=
  match o with
  | none => none
  | some l => some (calcR p.r c.M c.Z (c.item l) (c.item i))

theorem cCalcR_eq (p : Params α) (c : CState α) :
    cCalcR p c = fun sd i => SD.setGlobalR sd i (newR p c (sd.trials[i]?.bind (·.left)) i) := by
  funext sd i
  unfold cCalcR newR
  cases sd.trials[i]?.bind (·.left) <;> rfl

/-- `recalcItems` follows the list; the pointer-level loop follows the `left` pointers: same values -/
theorem recalcItems_eq_map (p : Params α) (c : CState α) (tr : Array (SD.Item α (Option α)))
    (nxt : Option Nat) (items : List (Item α)) (o : Option (Item α))
    (hseg : SD.Seg tr (o.map (·.id)) (items.map (·.id)) nxt)
    (ho : ∀ l, o = some l → (c.attr l.id).z = l.z ∧ (c.attr l.id).ev = l.ev)
    (ha : ∀ it ∈ items, c.attr it.id = it.attr) :
    recalcItems p.r c.M c.Z o items =
      items.map fun it => { it with R := newR p c (tr[it.id]?.bind (·.left)) it.id } := by
  induction items generalizing o with
  | nil => cases o <;> rfl
  | cons it t ih =>
    rw [List.map_cons, SD.Seg_cons] at hseg
    have hleft := left_of_linkOf hseg.1
    have hait := ha it List.mem_cons_self
    have hz : (c.item it.id).z = it.z := by show (c.attr it.id).z = _; rw [hait]; rfl
    have hev : (c.item it.id).ev = it.ev := by show (c.attr it.id).ev = _; rw [hait]; rfl
    have hde : (c.item it.id).delta = it.delta := by show (c.attr it.id).delta = _; rw [hait]; rfl
    cases o with
    | none =>
      simp only [recalcItems, List.map_cons]
      rw [hleft]
      refine congrArg₂ _ rfl ?_
      exact ih (some { it with R := none }) hseg.2
        (by intro l hl; cases hl; exact ⟨by rw [hait]; rfl, by rw [hait]; rfl⟩)
        (fun it' hit' => ha it' (List.mem_cons_of_mem _ hit'))
    | some l =>
      obtain ⟨hlz, hlev⟩ := ho l rfl
      simp only [recalcItems, List.map_cons]
      rw [hleft]
      have hR : newR p c (Option.map (fun x => x.id) (some l)) it.id = some (calcR p.r c.M c.Z l it) := by
        show some (calcR p.r c.M c.Z (c.item l.id) (c.item it.id)) = _
        rw [calcR_congr p.r c.M c.Z (a := c.item l.id) (a' := l) (b := c.item it.id) (b' := it)
          hlz hlev hz hev hde]
      rw [hR]
      refine congrArg₂ _ rfl ?_
      exact ih (some { it with R := some (calcR p.r c.M c.Z l it) }) hseg.2
        (by intro l' hl'; cases hl'; exact ⟨by rw [hait]; rfl, by rw [hait]; rfl⟩)
        (fun it' hit' => ha it' (List.mem_cons_of_mem _ hit'))

theorem entriesOf_items {tr : Array (SD.Item α (Option α))} {items : List (Item α)}
    (h : ∀ it ∈ items, xrOf tr it.id = some (it.x, it.R)) :
    SD.entriesOf SD.Item.globalR tr (items.map (·.id)) = items.map qkey := by
  induction items with
  | nil => rfl
  | cons it t ih =>
    obtain ⟨cit, hcit, -, hR⟩ := get_of_xrOf (h it List.mem_cons_self)
    have := ih (fun it' hit' => h it' (List.mem_cons_of_mem _ hit'))
    unfold SD.entriesOf at this ⊢
    rw [List.map_cons, List.filterMap_cons, hcit]
    simp only [Option.map_some, List.map_cons]
    rw [this, hR]
    rfl

theorem foldl_qkey_eq_refillQueue (items : List (Item α)) :
    List.foldl (fun q e => SD.qinsertRaw keyLe e.1 e.2 q) [] (items.map qkey) = refillQueue items := by
  unfold refillQueue
  rw [List.foldl_map]
  rfl

/-- `RefillQueue` on a container holding `items` -/
theorem RepSD.refill {sd : SD.State α (Option α)} {items : List (Item α)} (h : RepSD sd items)
    (hd : sd.dual = false) (hm : sd.maxlen = none) :
    RepSD (SD.refill keyLe sd) items ∧ (SD.refill keyLe sd).gq = refillQueue items ∧
      (SD.refill keyLe sd).maxlen = none ∧ (SD.refill keyLe sd).dual = false ∧
      (SD.refill keyLe sd).trials = sd.trials := by
  rw [SD.refill_any keyLe sd hd hm]
  refine ⟨h.congr rfl rfl, ?_, hm, hd, rfl⟩
  show List.foldl _ [] (SD.entriesOf SD.Item.globalR sd.trials (SD.traversal sd)) = _
  rw [h.traversal, entriesOf_items h.xr, foldl_qkey_eq_refillQueue]

theorem cRecalcAll_sim {p : Params α} {c : CState α} {s : State α} (h : Sim c s) :
    Sim (cRecalcAll p c) (recalcAll p s) := by
  by_cases hrc : s.recalc = true
  · have hrc' : c.recalc = true := by rw [h.recalc]; exact hrc
    -- the list-level side
    have e : recalcAll p s = { s with
        items := recalcItems p.r s.M s.Z none s.items
        queue := refillQueue (recalcItems p.r s.M s.Z none s.items)
        recalc := false } := by
      simp [recalcAll, hrc]
    -- the loop
    have hloop := SD.foldl_setGlobalR (newR p c) (s.items.map (·.id)) (SD.clearQueue c.sd)
    simp only [] at hloop
    obtain ⟨hf, -, -, hml, hdl, hsz, htr⟩ := hloop
    have ec : cRecalcAll p c = { c with
        sd := SD.refill keyLe ((s.items.map (·.id)).foldl
          (fun sd i => SD.setGlobalR sd i (newR p c (sd.trials[i]?.bind (·.left)) i)) (SD.clearQueue c.sd))
        recalc := false } := by
      unfold cRecalcAll
      rw [if_pos hrc', cCalcR_eq]
      have : SD.traversal (SD.clearQueue c.sd) = s.items.map (·.id) := by
        rw [SD.traversal_congr (s := c.sd) (s' := SD.clearQueue c.sd) rfl rfl, h.rs.traversal]
      simp only [this]
    generalize hsd1 : (s.items.map (·.id)).foldl
      (fun sd i => SD.setGlobalR sd i (newR p c (sd.trials[i]?.bind (·.left)) i)) (SD.clearQueue c.sd)
      = sd1 at ec hf hml hdl hsz htr
    -- the items after the recalculation
    have hitems : recalcItems p.r s.M s.Z none s.items =
        s.items.map fun it => { it with R := newR p c (c.sd.trials[it.id]?.bind (·.left)) it.id } := by
      rw [← h.M, ← h.Z]
      exact recalcItems_eq_map p c c.sd.trials none s.items none h.rs.rep.seg (by intro l hl; cases hl) h.attr
    have hids : (recalcItems p.r s.M s.Z none s.items).map (·.id) = s.items.map (·.id) := by
      rw [hitems, List.map_map]; rfl
    have hrs1 : RepSD sd1 (recalcItems p.r s.M s.Z none s.items) := by
      refine ⟨?_, ?_⟩
      · rw [hids, hf]
        refine SD.Rep_of_view_eq (tr := c.sd.trials) hsz ?_ ?_ h.rs.rep
        · intro a
          unfold SD.linkOf
          rw [htr a]
          show Option.map _ (Option.map _ c.sd.trials[a]?) = Option.map _ c.sd.trials[a]?
          cases c.sd.trials[a]? with
          | none => rfl
          | some it => by_cases ha : a ∈ s.items.map (·.id) <;> simp [ha]
        · intro a
          unfold SD.xOf
          rw [htr a]
          show Option.map _ (Option.map _ c.sd.trials[a]?) = Option.map _ c.sd.trials[a]?
          cases c.sd.trials[a]? with
          | none => rfl
          | some it => by_cases ha : a ∈ s.items.map (·.id) <;> simp [ha]
      · rw [hitems]
        intro it' hit'
        obtain ⟨it, hit, rfl⟩ := List.mem_map.1 hit'
        obtain ⟨cit, hcit, hx, -⟩ := get_of_xrOf (h.rs.xr it hit)
        unfold xrOf
        rw [htr it.id]
        show Option.map _ (Option.map _ c.sd.trials[it.id]?) = _
        rw [hcit]
        simp [List.mem_map_of_mem (f := fun x : Item α => x.id) hit, hx]
    obtain ⟨hrs2, hgq2, hm2, hd2, -⟩ := hrs1.refill (by rw [hdl]; exact h.dual) (by rw [hml]; exact h.maxlen)
    rw [e, ec]
    refine ⟨hrs2, ?_, hgq2, hm2, hd2, ?_, h.M, h.Z, h.best, rfl, h.iters, h.minDelta, h.nTrials, ?_⟩
    · show ∀ it ∈ recalcItems p.r s.M s.Z none s.items, c.attr it.id = it.attr
      rw [hitems]
      intro it' hit'
      obtain ⟨it, hit, rfl⟩ := List.mem_map.1 hit'
      exact h.attr it hit
    · show (SD.refill keyLe sd1).trials.size = s.nextId
      rw [SD.refill_any keyLe sd1 (by rw [hdl]; exact h.dual) (by rw [hml]; exact h.maxlen)]
      show sd1.trials.size = _
      rw [hsz]; exact h.size
    · obtain ⟨bi, hbi, hbid⟩ := h.best_mem
      show ∃ bi ∈ recalcItems p.r s.M s.Z none s.items, bi.id = s.best
      rw [hitems]
      exact ⟨_, List.mem_map_of_mem hbi, hbid⟩
  · have hrc1 : s.recalc = false := by simpa using hrc
    have hrc' : c.recalc = false := by rw [h.recalc]; exact hrc1
    have e : recalcAll p s = s := by simp [recalcAll, hrc1]
    have ec : cRecalcAll p c = c := by simp [cRecalcAll, hrc']
    rw [e, ec]; exact h

/-! ## selection: `prepare` in a form that can be inverted -/

/-- the state after recalculation and the refill of an empty queue -/
def prepState (p : Params α) (s : State α) : State α :=
  if (recalcAll p s).queue.isEmpty then
    { recalcAll p s with queue := refillQueue (recalcAll p s).items }
  else recalcAll p s

/-- the rest of `prepare` -/
def prepBody (p : Params α) (s : State α) : Except (State α × Raise) (Prep α) :=
  match s.queue with
  | [] => .error (s, .emptyQueue)
  | (_, oid) :: q =>
    let s := { s with queue := q }
    match findItem s.items oid with
    | none => .error (s, .emptyQueue)
    | some old =>
      let s := { s with minDelta := some (minOpt old.delta s.minDelta) }
      match leftOf s.items oid with
      | none => .error (s, .leftIsNone)
      | some left =>
        let x := nextX p s.M left old
        if x ≤ left.x ∨ old.x ≤ x then .error (s, .outsideInterval)
        else .ok { s := s, old := old, left := left, x := x, point := p.image x }

theorem prepare_eq_body (p : Params α) (s : State α) : prepare p s = prepBody p (prepState p s) := rfl

/-- what a successful `prepare` did -/
theorem prepare_ok_inv {p : Params α} {s : State α} {pr : Prep α} (hp : prepare p s = .ok pr) :
    ∃ k oid q, (prepState p s).queue = (k, oid) :: q ∧
      findItem (prepState p s).items oid = some pr.old ∧
      leftOf (prepState p s).items oid = some pr.left ∧
      pr.s = { prepState p s with queue := q,
                                  minDelta := some (minOpt pr.old.delta (prepState p s).minDelta) } ∧
      pr.x = nextX p (prepState p s).M pr.left pr.old ∧ pr.left.x < pr.x ∧ pr.x < pr.old.x ∧
      pr.point = p.image pr.x := by
  rw [prepare_eq_body] at hp
  generalize prepState p s = s2 at hp ⊢
  unfold prepBody at hp
  cases hq : s2.queue with
  | nil => rw [hq] at hp; simp at hp
  | cons e q =>
    obtain ⟨k, oid⟩ := e
    rw [hq] at hp
    simp only [] at hp
    cases hf : findItem s2.items oid with
    | none => rw [hf] at hp; simp at hp
    | some old =>
      rw [hf] at hp
      simp only [] at hp
      cases hl : leftOf s2.items oid with
      | none => rw [hl] at hp; simp at hp
      | some left =>
        rw [hl] at hp
        simp only [] at hp
        split at hp
        · cases hp
        · rename_i hno
          simp only [Except.ok.injEq] at hp
          subst hp
          rw [not_or, not_le, not_le] at hno
          exact ⟨k, oid, q, rfl, hf, hl, rfl, rfl, hno.1, hno.2, rfl⟩

theorem leftOf_some {l : List (Item α)} {id : Nat} {a : Item α} (h : leftOf l id = some a) :
    ∃ pre b post, l = pre ++ a :: b :: post ∧ b.id = id := by
  induction l with
  | nil => simp [leftOf] at h
  | cons c t ih =>
    cases t with
    | nil => simp [leftOf] at h
    | cons d t' =>
      rw [leftOf] at h
      by_cases hd : d.id = id
      · simp only [hd, beq_self_eq_true, if_true, Option.some.injEq] at h
        subst h
        exact ⟨[], d, t', rfl, hd⟩
      · have hb : (d.id == id) = false := by simpa using hd
        simp only [hb, Bool.false_eq_true, if_false] at h
        obtain ⟨pre, b, post, e, hbid⟩ := ih h
        exact ⟨c :: pre, b, post, by rw [e]; rfl, hbid⟩

theorem findItem_some {l : List (Item α)} {id : Nat} {b : Item α} (h : findItem l id = some b) :
    b ∈ l ∧ b.id = id := by
  unfold findItem at h
  refine ⟨List.mem_of_find?_eq_some h, ?_⟩
  have := List.find?_some h
  simpa using this

/-- the selected item and its left neighbour are neighbours of the list -/
theorem RepSD.decomp {sd : SD.State α (Option α)} {items : List (Item α)} (h : RepSD sd items)
    {oid : Nat} {old left : Item α} (hf : findItem items oid = some old)
    (hl : leftOf items oid = some left) :
    ∃ pre post, items = pre ++ left :: old :: post ∧ old.id = oid := by
  obtain ⟨pre, b, post, e, hb⟩ := leftOf_some hl
  obtain ⟨hold, hoid⟩ := findItem_some hf
  have : b = old := h.inj (by rw [e]; simp) hold (by rw [hb, hoid])
  subst this
  exact ⟨pre, post, e, hoid⟩

/-! ## selection: the concrete side -/

theorem popMaxGlobal_eq {χ κ : Type} (le : κ → κ → Bool) (s : SD.State χ κ) {k : κ} {i : Nat}
    {t : List (κ × Nat)}
    (h : (if s.gq.isEmpty then SD.refill le s else s).gq = (k, i) :: t) :
    SD.popMaxGlobal le s = .ok ({ (if s.gq.isEmpty then SD.refill le s else s) with gq := t }, i, k) := by
  unfold SD.popMaxGlobal
  simp only []
  generalize (if s.gq.isEmpty then SD.refill le s else s) = s2 at h ⊢
  rw [h]

/-- the concrete state handed to the evaluation -/
def cPrepState (c1 : CState α) (sd' : SD.State α (Option α)) (oid : Nat) : CState α :=
  { c1 with sd := sd', minDelta := some (minOpt (c1.attr oid).delta c1.minDelta) }

theorem cPrepare_eq_ok (p : Params α) (c : CState α) (sd' : SD.State α (Option α)) (oid l : Nat)
    (k : Option α)
    (hpop : SD.popMaxGlobal keyLe (cRecalcAll p c).sd = .ok (sd', oid, k))
    (hl : sd'.trials[oid]?.bind (·.left) = some l)
    (hin : ¬ (nextX p (cRecalcAll p c).M ((cPrepState (cRecalcAll p c) sd' oid).item l)
                ((cPrepState (cRecalcAll p c) sd' oid).item oid) ≤ ((cPrepState (cRecalcAll p c) sd' oid).item l).x ∨
              ((cPrepState (cRecalcAll p c) sd' oid).item oid).x ≤
                nextX p (cRecalcAll p c).M ((cPrepState (cRecalcAll p c) sd' oid).item l)
                  ((cPrepState (cRecalcAll p c) sd' oid).item oid))) :
    cPrepare p c = .ok
      { c := cPrepState (cRecalcAll p c) sd' oid, old := oid, left := l
        x := nextX p (cRecalcAll p c).M ((cPrepState (cRecalcAll p c) sd' oid).item l)
              ((cPrepState (cRecalcAll p c) sd' oid).item oid)
        point := p.image (nextX p (cRecalcAll p c).M ((cPrepState (cRecalcAll p c) sd' oid).item l)
              ((cPrepState (cRecalcAll p c) sd' oid).item oid)) } := by
  unfold cPrepare
  simp only [hpop, hl]
  split
  · rename_i h
    exact absurd h hin
  · rfl

/-- the container after the refill of an empty queue (`GetDataItemWithMaxGlobalR`, first half) -/
def cPrepSD (p : Params α) (c : CState α) : SD.State α (Option α) :=
  if (cRecalcAll p c).sd.gq.isEmpty then SD.refill keyLe (cRecalcAll p c).sd else (cRecalcAll p c).sd

theorem prepState_sim {p : Params α} {c : CState α} {s : State α} (h : Sim c s) :
    Sim { cRecalcAll p c with sd := cPrepSD p c } (prepState p s) := by
  have h1 := cRecalcAll_sim (p := p) h
  unfold prepState cPrepSD
  rw [h1.gq]
  by_cases he : (recalcAll p s).queue.isEmpty = true
  · rw [if_pos he, if_pos he]
    obtain ⟨hrs, hgq, hm, hd, htr⟩ := h1.rs.refill h1.dual h1.maxlen
    exact ⟨hrs, h1.attr, hgq, hm, hd, by rw [htr]; exact h1.size, h1.M, h1.Z, h1.best, h1.recalc,
      h1.iters, h1.minDelta, h1.nTrials, h1.best_mem⟩
  · rw [if_neg he, if_neg he]
    exact h1

theorem cPrepSD_trials {p : Params α} {c : CState α} {s : State α} (h : Sim c s) :
    (cPrepSD p c).trials = (cRecalcAll p c).sd.trials := by
  have h1 := cRecalcAll_sim (p := p) h
  unfold cPrepSD
  split
  · exact (h1.rs.refill h1.dual h1.maxlen).2.2.2.2
  · rfl

/-- **Selection in lock step.**  If the list-level `prepare` succeeds on `s` and `c` represents `s`,
then `GetDataItemWithMaxGlobalR` on the recalculated container returns the id of the item `prepare`
selected, with the key at the head of the list-level queue; the remaining queue is `pr.s.queue`;
`cPrepare` succeeds, selects the same neighbour (through the `left` pointer) and the same new
coordinate, and the resulting states are again related. -/
theorem cPrepare_sim {p : Params α} {c : CState α} {s : State α} {pr : Prep α} (h : Sim c s)
    (hp : prepare p s = .ok pr) :
    ∃ cpr sd' k q, (prepState p s).queue = (k, pr.old.id) :: q ∧
      SD.popMaxGlobal keyLe (cRecalcAll p c).sd = .ok (sd', pr.old.id, k) ∧
      sd'.gq = pr.s.queue ∧ sd'.trials = (cRecalcAll p c).sd.trials ∧
      sd'.trials[pr.old.id]?.bind (·.left) = some pr.left.id ∧
      cPrepare p c = .ok cpr ∧ cpr.c.sd = sd' ∧ Sim cpr.c pr.s ∧
      cpr.old = pr.old.id ∧ cpr.left = pr.left.id ∧ cpr.x = pr.x ∧ cpr.point = pr.point ∧
      (∃ pre post, pr.s.items = pre ++ pr.left :: pr.old :: post) ∧
      pr.left.x < pr.x ∧ pr.x < pr.old.x := by
  obtain ⟨k, oid, q, hq, hf, hl, hs, hx, hlt1, hlt2, hpt⟩ := prepare_ok_inv hp
  have h2s := prepState_sim (p := p) h
  obtain ⟨pre, post, e, hoid⟩ := h2s.rs.decomp hf hl
  subst hoid
  have hgq2 : (cPrepSD p c).gq = (k, pr.old.id) :: q := by rw [← hq]; exact h2s.gq
  have hpop : SD.popMaxGlobal keyLe (cRecalcAll p c).sd
      = .ok ({ cPrepSD p c with gq := q }, pr.old.id, k) := popMaxGlobal_eq keyLe _ hgq2
  have hrs' : RepSD { cPrepSD p c with gq := q } (prepState p s).items := h2s.rs.congr rfl rfl
  have hlp : ({ cPrepSD p c with gq := q } : SD.State α (Option α)).trials[pr.old.id]?.bind (·.left)
      = some pr.left.id := by
    have := hrs'
    rw [e] at this
    exact this.left_ptr
  have hattr : ∀ it ∈ (prepState p s).items,
      (cPrepState (cRecalcAll p c) { cPrepSD p c with gq := q } pr.old.id).attr it.id = it.attr :=
    h2s.attr
  have hitL : (cPrepState (cRecalcAll p c) { cPrepSD p c with gq := q } pr.old.id).item pr.left.id
      = pr.left := hrs'.item hattr (by rw [e]; simp)
  have hitO : (cPrepState (cRecalcAll p c) { cPrepSD p c with gq := q } pr.old.id).item pr.old.id
      = pr.old := hrs'.item hattr (by rw [e]; simp)
  have hM : (cRecalcAll p c).M = (prepState p s).M := h2s.M
  have hcp := cPrepare_eq_ok p c { cPrepSD p c with gq := q } pr.old.id pr.left.id k hpop hlp
    (by
      rw [hitL, hitO, hM, ← hx, not_or, not_le, not_le]
      exact ⟨hlt1, hlt2⟩)
  rw [hitL, hitO, hM, ← hx] at hcp
  have hps : pr.s.items = (prepState p s).items := by rw [hs]
  refine ⟨_, _, k, q, hq, hpop, by rw [hs], cPrepSD_trials h, hlp, hcp, rfl, ?_, rfl, rfl, rfl, hpt.symm,
    ⟨pre, post, by rw [hps]; exact e⟩, hlt1, hlt2⟩
  rw [hs]
  refine ⟨hrs', h2s.attr, rfl, h2s.maxlen, h2s.dual, h2s.size, h2s.M, h2s.Z, h2s.best, h2s.recalc,
    h2s.iters, ?_, h2s.nTrials, h2s.best_mem⟩
  show some (minOpt ((cRecalcAll p c).attr pr.old.id).delta (cRecalcAll p c).minDelta) = _
  have ha : (cRecalcAll p c).attr pr.old.id = pr.old.attr := h2s.attr pr.old (by rw [e]; simp)
  have hmd : (cRecalcAll p c).minDelta = (prepState p s).minDelta := h2s.minDelta
  rw [ha, hmd]
  rfl

/-! ## renewal: `commit` -/

/-- `cCommit` computes the same new items, `M`, `Z`, `best` as `commit` (in the equational form
`commit_eq`) once the views of the two neighbours and the scalars agree -/
theorem cCommit_eq (p : Params α) (cpr : CPrep α) (pr : Prep α) (z : α)
    (hl : cpr.c.item cpr.left = pr.left) (ho : cpr.c.item cpr.old = pr.old)
    (hn : cpr.c.sd.trials.size = pr.s.nextId) (hx : cpr.x = pr.x) (hpt : cpr.point = pr.point)
    (hM : cpr.c.M = pr.s.M) (hZ : cpr.c.Z = pr.s.Z) (hbest : cpr.c.best = pr.s.best)
    (hrc : cpr.c.recalc = pr.s.recalc)
    (hb : decide (z < (cpr.c.attr cpr.c.best).z) = better pr z) :
    cCommit p cpr z =
      match SD.insert ltF keyLe (SD.setGlobalR cpr.c.sd cpr.old (cOld2 p pr z).R)
          (sdItem (cNew2 p pr z).x (cNew2 p pr z).R) (some cpr.old) with
      | .error _ => none
      | .ok sd2 =>
        some { cpr.c with
          sd := sd2
          attr := setAttr (setAttr cpr.c.attr cpr.old (cOld2 p pr z).attr) pr.s.nextId (cNew2 p pr z).attr
          M := (cM2 p pr z).1, Z := cZ pr z, best := cBest pr z, recalc := (cM2 p pr z).2
          iters := cpr.c.iters + 1, nTrials := cpr.c.nTrials + 1 } := by
  unfold cCommit
  simp only [hb]
  simp only [hl, ho, hn, hx, hpt, hM, hZ, hbest, hrc]
  rfl

theorem setGlobalR_size (sd : SD.State α (Option α)) (i : Nat) (k : Option α) :
    (SD.setGlobalR sd i k).trials.size = sd.trials.size := by
  simp [SD.setGlobalR]

/-- **Renewal in lock step**: `old.globalR = …; InsertDataItem(new, old)` on the container does what
`commit` does on the list. -/
theorem cCommit_sim {p : Params α} {cpr : CPrep α} {pr : Prep α} (h : Sim cpr.c pr.s)
    (hold : cpr.old = pr.old.id) (hleft : cpr.left = pr.left.id) (hx : cpr.x = pr.x)
    (hpt : cpr.point = pr.point) {pre post : List (Item α)}
    (e : pr.s.items = pre ++ pr.left :: pr.old :: post) (h1 : pr.left.x < pr.x) (h2 : pr.x < pr.old.x)
    (z : α) : ∃ c', cCommit p cpr z = some c' ∧ Sim c' (commit p pr z) := by
  have hlm : pr.left ∈ pr.s.items := by rw [e]; simp
  have hom : pr.old ∈ pr.s.items := by rw [e]; simp
  have hl : cpr.c.item cpr.left = pr.left := by rw [hleft]; exact h.item hlm
  have ho : cpr.c.item cpr.old = pr.old := by rw [hold]; exact h.item hom
  obtain ⟨bi, hbi, hbid⟩ := h.best_mem
  have hfi : findItem pr.s.items pr.s.best = some bi := by
    rw [← hbid]; exact findItem_of_mem h.rs.nodup hbi
  have hz : (cpr.c.attr cpr.c.best).z = bi.z := by
    rw [h.best, ← hbid, h.attr bi hbi]; rfl
  have hb : decide (z < (cpr.c.attr cpr.c.best).z) = better pr z := by
    rw [hz]; unfold better; rw [hfi]; rfl
  rw [cCommit_eq p cpr pr z hl ho h.size hx hpt h.M h.Z h.best h.recalc hb]
  -- the container calls
  have hrs0 : RepSD cpr.c.sd ((pre ++ [pr.left]) ++ pr.old :: post) := by
    have := h.rs
    rw [e] at this
    simpa using this
  have hrs1 := hrs0.setItem (cOld2 p pr z) rfl rfl
  have hrs1' : RepSD (SD.setGlobalR cpr.c.sd pr.old.id (cOld2 p pr z).R)
      (pre ++ pr.left :: cOld2 p pr z :: post) := by simpa using hrs1
  obtain ⟨sd', hins, hrs2, hgq2, hm2, hd2, hsz2⟩ := hrs1'.insertNew (cNew2 p pr z)
    (by rw [setGlobalR_size, h.size]; rfl) (le_of_lt h1) (le_of_lt h2) h.dual h.maxlen
  have hins' : SD.insert ltF keyLe (SD.setGlobalR cpr.c.sd cpr.old (cOld2 p pr z).R)
      (sdItem (cNew2 p pr z).x (cNew2 p pr z).R) (some cpr.old) = .ok sd' := by
    rw [hold]; exact hins
  rw [hins']
  refine ⟨_, rfl, ?_⟩
  -- the list-level side
  have hnd := h.rs.nodup
  rw [e] at hnd
  have hpre : ∀ c ∈ pre ++ [pr.left], c.id ≠ pr.old.id := by
    have : ((pre ++ [pr.left]) ++ pr.old :: post).map (·.id) = (pre ++ pr.left :: pr.old :: post).map (·.id) := by
      simp
    exact ids_ne_of_nodup (l₁ := pre ++ [pr.left]) (by rw [this]; exact hnd)
  have hitems : insertBefore (cNew2 p pr z) (cOld2 p pr z) pr.s.items
      = pre ++ pr.left :: cNew2 p pr z :: cOld2 p pr z :: post := by
    rw [e]
    have := insertBefore_append (cNew2 p pr z) (cOld2 p pr z) pr.old (pre ++ [pr.left]) post rfl hpre
    simpa using this
  have hlt : ∀ it ∈ pr.s.items, it.id < pr.s.nextId := by
    intro it hit; rw [← h.size]; exact h.rs.id_lt hit
  rw [commit_eq]
  refine ⟨?_, ?_, ?_, hm2, hd2, ?_, rfl, rfl, rfl, rfl, ?_, h.minDelta, ?_, ?_⟩
  · show RepSD sd' (insertBefore (cNew2 p pr z) (cOld2 p pr z) pr.s.items)
    rw [hitems]; exact hrs2
  · show ∀ it ∈ insertBefore (cNew2 p pr z) (cOld2 p pr z) pr.s.items,
      setAttr (setAttr cpr.c.attr cpr.old (cOld2 p pr z).attr) pr.s.nextId (cNew2 p pr z).attr it.id = it.attr
    rw [hitems]
    have hold_attr : ∀ it ∈ pr.s.items, it.id ≠ pr.old.id →
        setAttr (setAttr cpr.c.attr cpr.old (cOld2 p pr z).attr) pr.s.nextId (cNew2 p pr z).attr it.id
          = it.attr := by
      intro it hit hne
      have := hlt it hit
      unfold setAttr
      rw [if_neg (by omega), hold, if_neg hne]
      exact h.attr it hit
    intro it hit
    simp only [List.mem_append, List.mem_cons] at hit
    rcases hit with hi | rfl | rfl | rfl | hi
    · exact hold_attr it (by rw [e]; simp [hi]) (hpre it (by simp [hi]))
    · exact hold_attr _ hlm (hpre _ (by simp))
    · unfold setAttr
      exact if_pos rfl
    · have := hlt pr.old hom
      unfold setAttr
      rw [if_neg (by show pr.old.id ≠ pr.s.nextId; omega), hold]
      exact if_pos rfl
    · refine hold_attr it (by rw [e]; simp [hi]) ?_
      intro hid
      rw [List.map_append] at hnd
      have h3 := (List.nodup_append.1 hnd).2.1
      rw [List.map_cons, List.map_cons, List.nodup_cons, List.nodup_cons] at h3
      exact h3.2.1 (by rw [← hid]; exact List.mem_map_of_mem hi)
  · show sd'.gq = qinsert (qinsert pr.s.queue (cNew2 p pr z).R (cNew2 p pr z).id) (cOld2 p pr z).R (cOld2 p pr z).id
    rw [hgq2]
    show qinsert (qinsert cpr.c.sd.gq _ _) _ _ = _
    rw [h.gq]
  · show sd'.trials.size = pr.s.nextId + 1
    rw [hsz2, setGlobalR_size, h.size]
  · show cpr.c.iters + 1 = pr.s.iters + 1
    rw [h.iters]
  · show cpr.c.nTrials + 1 = pr.s.nTrials + 1
    rw [h.nTrials]
  · show ∃ b ∈ insertBefore (cNew2 p pr z) (cOld2 p pr z) pr.s.items, b.id = cBest pr z
    rw [hitems]
    unfold cBest
    split
    · exact ⟨cNew2 p pr z, by simp, rfl⟩
    · rw [e] at hbi
      exact exists_ins (P := fun it => it.id = pr.s.best) (n := cNew2 p pr z) (b := pr.old)
        (b' := cOld2 p pr z) ⟨bi, hbi, hbid⟩ (fun hb => hb)

/-! ## whole iterations and runs -/

/-- one iteration in lock step -/
theorem cIterate_sim {p : Params α} {c : CState α} {s : State α} {pr : Prep α} (h : Sim c s)
    (hp : prepare p s = .ok pr) (z : α) :
    ∃ c', cIterate p c z = some c' ∧ Sim c' (commit p pr z) := by
  obtain ⟨cpr, sd', k, q, -, -, -, -, -, hcp, -, hsim, hold, hleft, hx, hpt, ⟨pre, post, e⟩, h1, h2⟩ :=
    cPrepare_sim h hp
  obtain ⟨c', hc', hs'⟩ := cCommit_sim (p := p) hsim hold hleft hx hpt e h1 h2 z
  refine ⟨c', ?_, hs'⟩
  unfold cIterate
  rw [hcp]
  exact hc'

theorem cRun_snoc (p : Params α) (l : List α) (z : α) {c : CState α} (h : cRun p l = some c) :
    cRun p (l ++ [z]) = cIterate p c z := by
  cases l with
  | nil => cases h
  | cons z0 zs =>
    have h' : zs.foldl (fun oc z => oc.bind fun c => cIterate p c z) (cFirst p z0) = some c := h
    show (zs ++ [z]).foldl (fun oc z => oc.bind fun c => cIterate p c z) (cFirst p z0) = _
    rw [List.foldl_append, h']
    rfl

/-- **The concrete run represents every reachable list-level state**: along any run of the
list-level model the concrete run on the same objective values succeeds and ends in a state related
to the list-level state. -/
theorem reach_sim {p : Params α} {s : State α} {log : List (List α × α)} (h : Reach p s log) :
    ∃ c, cRun p (log.map (·.2)) = some c ∧ Sim c s := by
  refine Reach.induction (P := fun s log => ∃ c, cRun p (log.map (·.2)) = some c ∧ Sim c s) ?_ ?_ h
  · intro z
    obtain ⟨c, hc, hs⟩ := cFirst_sim p z
    exact ⟨c, hc, hs⟩
  · intro s log pr z _ ih hp
    obtain ⟨c, hc, hs⟩ := ih
    obtain ⟨c', hc', hs'⟩ := cIterate_sim hs hp z
    refine ⟨c', ?_, hs'⟩
    rw [List.map_append, List.map_cons, List.map_nil, cRun_snoc p _ z hc]
    exact hc'

/-! ## an executable list-level run (for computed examples) -/

/-- one step of `lRun` -/
def lStep (p : Params α) (o : Option (State α × List (List α × α))) (z : α) :
    Option (State α × List (List α × α)) :=
  o.bind fun sl => match prepare p sl.1 with
    | .ok pr => some (commit p pr z, sl.2 ++ [(pr.point, z)])
    | .error _ => none

/-- the list-level run for the objective values `zs`: final state and evaluation log -/
def lRun (p : Params α) : List α → Option (State α × List (List α × α))
  | [] => none
  | z :: zs => zs.foldl (lStep p) (some (firstIteration p z, [(firstPoint p, z)]))

theorem lStep_reach {p : Params α} {acc : List α} {o : Option (State α × List (List α × α))}
    (h : ∀ s log, o = some (s, log) → Reach p s log ∧ log.map (·.2) = acc) (z : α) :
    ∀ s log, lStep p o z = some (s, log) → Reach p s log ∧ log.map (·.2) = acc ++ [z] := by
  intro s log hs
  cases o with
  | none => cases hs
  | some sl =>
    obtain ⟨s0, log0⟩ := sl
    obtain ⟨hre, hlog⟩ := h s0 log0 rfl
    unfold lStep at hs
    simp only [Option.bind_some] at hs
    cases hp : prepare p s0 with
    | error e => rw [hp] at hs; cases hs
    | ok pr =>
      rw [hp] at hs
      simp only [Option.some.injEq, Prod.mk.injEq] at hs
      obtain ⟨rfl, rfl⟩ := hs
      exact ⟨hre.step z hp, by rw [List.map_append, hlog]; rfl⟩

theorem lFold_reach {p : Params α} (zs : List α) {acc : List α}
    {o : Option (State α × List (List α × α))}
    (h : ∀ s log, o = some (s, log) → Reach p s log ∧ log.map (·.2) = acc) :
    ∀ s log, zs.foldl (lStep p) o = some (s, log) → Reach p s log ∧ log.map (·.2) = acc ++ zs := by
  induction zs generalizing acc o with
  | nil => simpa using h
  | cons z zs ih =>
    intro s log hs
    rw [List.foldl_cons] at hs
    have := ih (lStep_reach h z) s log hs
    simpa using this

/-- what `lRun` returns is a reachable state with its log, and the logged values are `zs` -/
theorem lRun_reach {p : Params α} {zs : List α} {s : State α} {log : List (List α × α)}
    (h : lRun p zs = some (s, log)) : Reach p s log ∧ log.map (·.2) = zs := by
  cases zs with
  | nil => cases h
  | cons z zs =>
    have := lFold_reach (p := p) zs (acc := [z])
      (o := some (firstIteration p z, [(firstPoint p, z)]))
      (by
        intro s log hs
        simp only [Option.some.injEq, Prod.mk.injEq] at hs
        obtain ⟨rfl, rfl⟩ := hs
        exact ⟨Reach.first p z, rfl⟩) s log h
    simpa using this

end AGP
