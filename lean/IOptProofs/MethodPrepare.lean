import IOptProofs.MethodInv
/-!
# `prepare` never raises under the invariant, and what it returns
-/
set_option linter.unusedSectionVars false

namespace AGP
variable {α : Type} [Field α] [LinearOrder α] [IsStrictOrderedRing α] [Fns α]

/-- What `prepare p s = .ok pr` guarantees about `pr` when `Inv p s` holds. -/
structure PrepSpec (p : Params α) (s : State α) (pr : Prep α) : Prop where
  inv : InvItems p pr.s
  recalc_false : pr.s.recalc = false
  M_eq : pr.s.M = s.M
  Z_eq : pr.s.Z = s.Z
  best_eq : pr.s.best = s.best
  nextId_eq : pr.s.nextId = s.nextId
  iters_eq : pr.s.iters = s.iters
  nTrials_eq : pr.s.nTrials = s.nTrials
  /-- the items are those of `s` up to the recalculated characteristics -/
  items_eq : pr.s.items.map eraseR = s.items.map eraseR
  minDelta_eq : pr.s.minDelta = some (minOpt pr.old.delta s.minDelta)
  /-- `left`, `old` are neighbours, and the queue holds every item but `old` -/
  decomp : ∃ pre post, pr.s.items = pre ++ pr.left :: pr.old :: post ∧
    QueueOK (pre ++ pr.left :: post) pr.s.queue
  /-- the popped item has the largest characteristic -/
  argmax : ∀ it ∈ pr.s.items, keyLe it.R pr.old.R = true
  x_eq : pr.x = nextX p pr.s.M pr.left pr.old
  inside : pr.left.x < pr.x ∧ pr.x < pr.old.x
  point_eq : pr.point = p.image pr.x

theorem PrepSpec.neighbours {p : Params α} {s : State α} {pr : Prep α} (h : PrepSpec p s pr) :
    Neighbours pr.s.items pr.left pr.old := by
  obtain ⟨pre, post, e, _⟩ := h.decomp
  exact ⟨pre, post, e⟩

/-- the new point is strictly inside the interval -/
theorem nextX_inside (hL : FnsLaws α) {p : Params α} {s : State α} (hr : 1 < p.r) (hn : 0 < p.n)
    (h : InvItems p s) {a b : Item α} (hab : Neighbours s.items a b) :
    a.x < nextX p s.M a b ∧ nextX p s.M a b < b.x := by
  have hlt := h.nb_lt hab
  unfold nextX
  by_cases hev : a.ev = b.ev
  · have hb : (a.ev == b.ev) = true := by simpa using hev
    have hab' : a.ev = true ∧ b.ev = true := by
      rcases h.nb_ev hab with h1 | h1
      · exact ⟨h1, hev ▸ h1⟩
      · exact ⟨hev.symm ▸ h1, h1⟩
    have hδ := h.nb_delta_pos hL hn hab
    have hpow := h.nb_delta_pow hL hn hab
    have hsl := h.nb_slope hab hab'.1 hab'.2
    have hM := h.M_pos
    have hw : 0 < b.x - a.x := sub_pos.2 hlt
    have hle : |b.z - a.z| / s.M ≤ b.delta := by
      rw [div_le_iff₀ hδ] at hsl
      rw [div_le_iff₀ hM]; linarith
    have h0 : 0 ≤ |b.z - a.z| / s.M := div_nonneg (abs_nonneg _) hM.le
    have ht : (|b.z - a.z| / s.M) ^ p.n ≤ b.x - a.x := by
      rw [← hpow]; exact pow_le_pow_left₀ h0 hle _
    have ht0 : 0 ≤ (|b.z - a.z| / s.M) ^ p.n := pow_nonneg h0 _
    have hr0 : 0 < p.r := lt_trans one_pos hr
    have hq0 : 0 ≤ half * (|b.z - a.z| / s.M) ^ p.n / p.r := by
      unfold half; positivity
    have hq : half * (|b.z - a.z| / s.M) ^ p.n / p.r < (b.x - a.x) / 2 := by
      have h1 : half * (|b.z - a.z| / s.M) ^ p.n / p.r ≤ ((b.x - a.x) / 2) / p.r := by
        apply div_le_div_of_nonneg_right _ hr0.le
        unfold half; linarith
      have h2 : ((b.x - a.x) / 2) / p.r < (b.x - a.x) / 2 := div_lt_self (by linarith) hr
      linarith
    have hmid : (half : α) * (a.x + b.x) = (a.x + b.x) / 2 := by unfold half; ring
    simp only [hb, if_true, hL.powN_eq, hL.abs_eq, hmid]
    split
    · constructor <;> linarith
    · constructor <;> linarith
  · have hb : (a.ev == b.ev) = false := by simpa using hev
    have hmid : (half : α) * (a.x + b.x) = (a.x + b.x) / 2 := by unfold half; ring
    simp only [hb, hmid]
    constructor <;> (simp only [Bool.false_eq_true, if_false]; linarith)

theorem prepare_spec (hL : FnsLaws α) {p : Params α} {s : State α} (hr : 1 < p.r) (hn : 0 < p.n)
    (h : Inv p s) : ∃ pr, prepare p s = .ok pr ∧ PrepSpec p s pr := by
  obtain ⟨I1, hrc⟩ := recalcAll_inv h
  have F := I1.fresh hrc
  have Q := I1.queue hrc
  have hI := I1.toInvItems
  -- an evaluated item, which has a `some` characteristic
  obtain ⟨bi, hbi, _, hbe, _⟩ := hI.best
  have hbx := (hI.ev_iff bi hbi).1 hbe
  obtain ⟨a', ha'⟩ := hI.exists_left hbi hbx.1.ne'
  have hbiR : bi.R = some (calcR p.r (recalcAll p s).M (recalcAll p s).Z a' bi) :=
    isChain_iff_neighbours.1 F.chainR a' bi ha'
  -- the queue is not empty
  cases hq : (recalcAll p s).queue with
  | nil =>
    have := Q.perm.length_eq
    rw [hq] at this
    simp only [List.length_nil, List.length_map] at this
    exact absurd (List.length_eq_zero_iff.1 this.symm) hI.items_ne_nil
  | cons e q =>
    obtain ⟨k, oid⟩ := e
    have hmem : (k, oid) ∈ (recalcAll p s).items.map qkey := Q.perm.mem_iff.1 (by rw [hq]; simp)
    obtain ⟨b, hb, hbk⟩ := List.mem_map.1 hmem
    have hbR : b.R = k := congrArg Prod.fst hbk
    have hbid : b.id = oid := congrArg Prod.snd hbk
    -- maximality
    have hmax : ∀ it ∈ (recalcAll p s).items, keyLe it.R k = true := by
      intro it hit
      have h1 : qkey it ∈ (recalcAll p s).queue := Q.perm.mem_iff.2 (List.mem_map_of_mem hit)
      have hs := Q.sorted
      unfold QSorted at hs
      rw [hq] at h1 hs
      rcases List.mem_cons.1 h1 with h1 | h1
      · have : it.R = k := congrArg Prod.fst h1
        rw [this]; exact keyLe_refl k
      · exact (List.pairwise_cons.1 hs).1 _ h1
    have hksome : ∃ kv, k = some kv := by
      have := hmax bi hbi
      rw [hbiR] at this
      cases k with
      | none => simp at this
      | some kv => exact ⟨kv, rfl⟩
    obtain ⟨kv, hkv⟩ := hksome
    -- `b` is not the head
    have hbx0 : b.x ≠ 0 := by
      intro hx0
      cases hl : (recalcAll p s).items with
      | nil => rw [hl] at hb; simp at hb
      | cons f t =>
        have hf : f.x = 0 := hI.head0 f (by simp [hl])
        have hfR : f.R = none := F.headR f (by simp [hl])
        have hpw := hI.pairwise
        rw [hl] at hb hpw
        rcases List.mem_cons.1 hb with rfl | ht
        · rw [hfR, hkv] at hbR; simp at hbR
        · have := (List.pairwise_cons.1 hpw).1 b ht
          rw [hf, hx0] at this; exact lt_irrefl _ this
    obtain ⟨a, hab⟩ := hI.exists_left hb hbx0
    obtain ⟨pre, post, e⟩ := hab
    have hnd := hI.ids_nodup
    rw [e] at hnd
    have hpre : ∀ c ∈ pre ++ [a], c.id ≠ b.id := by
      have : ((pre ++ [a]) ++ b :: post).map (·.id) = (pre ++ a :: b :: post).map (·.id) := by simp
      exact ids_ne_of_nodup (l₁ := pre ++ [a]) (by rw [this]; exact hnd)
    have h2 : findItem (recalcAll p s).items oid = some b := by
      rw [e, ← hbid]
      have := findItem_append b (pre ++ [a]) post hpre
      simpa using this
    have h3 : leftOf (recalcAll p s).items oid = some a := by
      rw [e, ← hbid]; exact leftOf_append a b pre post hpre
    have h4 := nextX_inside hL hr hn hI ⟨pre, post, e⟩
    refine ⟨_, prepare_eq_ok p s k oid q b a hq h2 h3 h4, ?_⟩
    have hQ' : QueueOK (pre ++ a :: post) q := by
      refine ⟨?_, ?_⟩
      · have hs := Q.sorted
        unfold QSorted at hs ⊢
        rw [hq] at hs
        exact (List.pairwise_cons.1 hs).2
      · have hp := Q.perm
        rw [hq, e] at hp
        have h5 : (List.map qkey (pre ++ a :: b :: post)).Perm ((k, oid) :: List.map qkey (pre ++ a :: post)) := by
          have : pre ++ a :: b :: post = (pre ++ [a]) ++ b :: post := by simp
          rw [this, List.map_append, List.map_cons, ← hbk]
          refine List.perm_middle.trans ?_
          simp
        exact (List.perm_cons _).1 (hp.trans h5)
    refine ⟨?_, hrc, recalcAll_M p s, recalcAll_Z p s, recalcAll_best p s, recalcAll_nextId p s,
      recalcAll_iters p s, recalcAll_nTrials p s, recalcAll_items_erase p s, ?_, ⟨pre, post, e, hQ'⟩, ?_, rfl, h4, rfl⟩
    · exact ⟨hI.sorted, hI.head0, hI.last1, hI.ev_iff, hI.ids_nodup, hI.nextId_eq, hI.ids_lt, hI.delta,
        hI.M_ge, hI.slope, hI.Z_le, hI.best, hI.best_first, hI.iters_eq, hI.nTrials_eq, hI.hv_eq,
        hI.point_eq, hI.fresh⟩
    · show some (minOpt b.delta (recalcAll p s).minDelta) = _
      rw [recalcAll_minDelta]
    · intro it hit
      show keyLe it.R b.R = true
      rw [hbR]; exact hmax it hit

end AGP
