import IOptModel.Process
import IOptGen.ProcessSrc
/-!
# A semantics for the statement trees of `IOptGen/ProcessSrc.lean` in terms of the model's primitive steps

`IOptGen/ProcessSrc.lean` is regenerated from the SOURCE TEXT of `iOpt/method/process.py` on every run.  This file gives the
statement trees (`Gen.ProcSrc.Stmt`) a meaning, by structural recursion over the tree (fuel for `while`), GENERIC in the tree:
the interpreter never looks at which function it is executing.  Source strings are opaque keys looked up in small tables
(`primTable`, `condTable`, `assignTable`, `retTable`, `intLits`, `procTable`, and the three literals `"_"`, `"listener"` /
`"self.__listeners"`, `"BaseException"`); whatever is not in a table makes the result `stuck`.
`IOptProofs/ProcInterp.lean` proves that the interpretation of the generated trees IS `Proc.doGlobalIteration` / `Proc.solve`.

No Mathlib, no proofs: everything here is executable.
-/

section
variable {α : Type} [Add α] [Sub α] [Mul α] [Div α] [Neg α] [LT α] [LE α]
  [DecidableLT α] [DecidableLE α] [OfNat α 0] [OfNat α 1] [OfNat α 2] [OfNat α 4] [Fns α]

namespace ProcInterp
open AGP Proc Gen.ProcSrc

/-! ### `AGP.commit` cut along the method calls of the source -/

/-- the successful end of `Method.CalculateFunctionals`: `solution.numberOfGlobalTrials += 1`
(the value itself is stored on the pending new point, `Locals.zval`) -/
def recordTrial (s : State α) : State α := { s with nTrials := s.nTrials + 1 }

/-- `Method.UpdateOptimum(newpoint)`; the new point is referred to by the id it will get when inserted (`pr.s.nextId`) -/
def updateOptimum (pr : Prep α) (z : α) (s : State α) : State α :=
  let bestZ := (findItem s.items s.best).map (·.z)
  let better := match bestZ with
    | some bz => decide (z < bz)
    | none => true
  if better then { s with best := pr.s.nextId, recalc := true, Z := z } else s

/-- `Method.RenewSearchData(newpoint, oldpoint)`: the two lengths, the two `CalculateM`, the two `CalculateGlobalR`
(with the CURRENT `M`, `Z`, `recalc` of the method), `InsertDataItem` (which hands out the id `len(_allTrials)`) -/
def renewSearchData (p : Params α) (pr : Prep α) (z : α) (s : State α) : State α :=
  let new0 : Item α := { id := s.nextId, x := pr.x, point := pr.point, z := z, hv := z, ev := true,
                         delta := 0, R := none }
  let old1 := { pr.old with delta := calcDelta p.n pr.x pr.old.x }
  let new1 := { new0 with delta := calcDelta p.n pr.left.x pr.x }
  let (M, recalc) := calcM s.M s.recalc pr.left new1
  let (M, recalc) := calcM M recalc new1 old1
  let new2 := { new1 with R := some (calcR p.r M s.Z pr.left new1) }
  let old2 := { old1 with R := some (calcR p.r M s.Z new2 old1) }
  let items := insertBefore new2 old2 s.items
  let q := qinsert s.queue new2.R new2.id
  let q := qinsert q old2.R old2.id
  { s with items := items, queue := q, M := M, recalc := recalc, nextId := s.nextId + 1 }

/-- `Method.FinalizeIteration()` -/
def finalizeIteration (s : State α) : State α := { s with iters := s.iters + 1 }

/-! ### interpreter state -/

/-- the fields of the `Process` object (and of everything it owns) -/
structure Glob (α : Type) where
  /-- the model state -/
  ps : PState α
  /-- `self.__first_iteration` -/
  first : Bool

/-- the state of a `Process` whose flag agrees with the model's encoding (`m = none` iff no first iteration yet) -/
def Glob.ofP (ps : PState α) : Glob α := { ps := ps, first := ps.m.isNone }

/-- the Python locals of one activation that matter -/
structure Locals (α : Type) where
  /-- integer parameters (`number`) -/
  ints : List (String × Nat) := []
  /-- `savedNewPoints`: ids of the new trials -/
  saved : Option (List Nat) := none
  /-- `newpoint, oldpoint` as returned by `CalculateIterationPoint` -/
  pend : Option (Prep α) := none
  /-- the value `CalculateFunctionals` stored on `newpoint` -/
  zval : Option α := none
  status : Option Bool := none
  /-- `result` is bound -/
  result : Bool := false
  /-- `startTime` is bound -/
  startTime : Bool := false

structure IState (α : Type) where
  g : Glob α
  l : Locals α

/-- outcome of a statement (list) -/
inductive Out (α : Type) where
  | normal (st : IState α)
  /-- a `return` was executed -/
  | returned (st : IState α)
  /-- an exception is propagating -/
  | raised (st : IState α) (e : Raise)
  /-- the tree left the interpreted fragment -/
  | stuck

/-- outcome of a whole function: corresponds to `Proc.Res` (`done g` ~ `{ s := g.ps, raised := none }`,
`raised g e` ~ `{ s := g.ps, raised := some e }`) -/
inductive POut (α : Type) where
  | done (g : Glob α)
  | raised (g : Glob α) (e : Raise)
  | stuck

/-- what the primitives are interpreted over: the parameters, the objective oracle (call index, point ↦ value or raise),
and the local-refinement oracle (`none`: `parameters.refineSolution` is false) -/
structure Ctx (α : Type) where
  p : Params α
  f : Nat → List α → Option α
  refine : PState α → Option (LocalResult α)

/-! ### tables -/

inductive Prim where
  | beforeMethodStart | firstIteration | appendLast | calcIterationPoint | appendNew | calcFunctionals
  | updateOptimum | renewSearchData | finalizeIteration | onEndIteration
  | now | printExc | doLocalRefinement | getResults | totalSeconds | checkStop | onMethodStop
deriving Repr, DecidableEq

/-- the primitive calls: (targets, callee, arguments) exactly as in the source ↦ primitive -/
def primTable : List ((List String × String × List String) × Prim) := [
  (([], "listener.BeforeMethodStart", ["self.method"]), .beforeMethodStart),
  (([], "self.method.FirstIteration", []), .firstIteration),
  (([], "savedNewPoints.append", ["self.searchData.GetLastItem()"]), .appendLast),
  ((["newpoint", "oldpoint"], "self.method.CalculateIterationPoint", []), .calcIterationPoint),
  (([], "savedNewPoints.append", ["newpoint"]), .appendNew),
  (([], "self.method.CalculateFunctionals", ["newpoint"]), .calcFunctionals),
  (([], "self.method.UpdateOptimum", ["newpoint"]), .updateOptimum),
  (([], "self.method.RenewSearchData", ["newpoint", "oldpoint"]), .renewSearchData),
  (([], "self.method.FinalizeIteration", []), .finalizeIteration),
  (([], "listener.OnEndIteration", ["savedNewPoints", "self.GetResults()"]), .onEndIteration),
  ((["startTime"], "datetime.now", []), .now),
  (([], "print", ["'Exception was thrown'"]), .printExc),
  (([], "self.DoLocalRefinement", ["-1"]), .doLocalRefinement),
  ((["result"], "self.GetResults", []), .getResults),
  ((["result.solvingTime"], "(datetime.now() - startTime).total_seconds", []), .totalSeconds),
  ((["status"], "self.method.CheckStopCondition", []), .checkStop),
  (([], "listener.OnMethodStop", ["self.searchData", "self.GetResults()", "status"]), .onMethodStop)]

/-- where a primitive may stand: the notifications only inside `for listener in self.__listeners` (the model logs one event
per notification round, so the body of that loop is run once and must not do anything but notify);
`status = CheckStopCondition()` anywhere; everything else only outside -/
def Prim.allowed (inL : Bool) : Prim → Bool
  | .beforeMethodStart | .onEndIteration | .onMethodStop => inL
  | .checkStop => true
  | _ => !inL

inductive Cond where
  | firstIter | notStop | refineRequested
deriving Repr, DecidableEq

def condTable : List (String × Cond) := [
  ("self.__first_iteration is True", .firstIter),
  ("not self.method.CheckStopCondition()", .notStop),
  ("self.parameters.refineSolution", .refineRequested)]

inductive Asg where
  | savedEmpty | firstFalse
deriving Repr, DecidableEq

/-- the assignments `target = value` -/
def assignTable : List ((String × String) × Asg) := [
  (("savedNewPoints", "[]"), .savedEmpty),
  (("self.__first_iteration", "False"), .firstFalse)]

/-- `return` expressions -/
def retTable : List String := ["result"]

/-- integer literals -/
def intLits : List (String × Nat) := [("1", 1)]

/-- the functions of `process.py` that are interpreted through their own tree: callee ↦ (parameters, defaults, body) -/
def procTable : List (String × (List String × List String × List Stmt)) := [
  ("self.DoGlobalIteration", (doGlobalIterationParams, doGlobalIterationDefaults, doGlobalIteration))]

/-! ### primitives -/

def IState.setPs (st : IState α) (ps : PState α) : IState α := { st with g := { st.g with ps := ps } }

def evalCond (c : Ctx α) : Cond → IState α → Bool
  | .firstIter, st => st.g.first
  | .notStop, st => !stopNow c.p st.g.ps
  | .refineRequested, st => (c.refine st.g.ps).isSome

def execAssign : Asg → IState α → Out α
  | .savedEmpty, st => .normal { st with l := { st.l with saved := some [] } }
  | .firstFalse, st => .normal { st with g := { st.g with first := false } }

def execPrim (c : Ctx α) : Prim → IState α → Out α
  | .beforeMethodStart, st =>
    let ps := st.g.ps
    .normal (st.setPs { ps with log := ps.log ++ [Event.beforeStart] })
  | .firstIteration, st =>
    let ps := st.g.ps
    match ps.m with
    | some _ => .stuck                     -- the model describes `FirstIteration` on a fresh method only
    | none =>
      let pt := firstPoint c.p
      let ps := { ps with calls := ps.calls + 1 }
      match c.f (ps.calls - 1) pt with
      | none => .raised (st.setPs ps) .objective
      | some z => .normal (st.setPs { ps with m := some (firstIteration c.p z), evals := ps.evals ++ [(pt, z)] })
  | .appendLast, st =>
    match st.g.ps.m, st.l.saved with
    | some s, some sv => .normal { st with l := { st.l with saved := some (sv ++ [s.nextId - 1]) } }
    | _, _ => .stuck
  | .calcIterationPoint, st =>
    let ps := st.g.ps
    match ps.m with
    | none => .stuck
    | some s =>
      match prepare c.p s with
      | .error (s', e) => .raised (st.setPs { ps with m := some s' }) e
      | .ok pr => .normal { g := { st.g with ps := { ps with m := some pr.s } }, l := { st.l with pend := some pr, zval := none } }
  | .appendNew, st =>
    match st.l.pend, st.l.saved with
    | some pr, some sv => .normal { st with l := { st.l with saved := some (sv ++ [pr.s.nextId]) } }
    | _, _ => .stuck
  | .calcFunctionals, st =>
    let ps := st.g.ps
    match st.l.pend, ps.m with
    | some pr, some s =>
      let ps := { ps with calls := ps.calls + 1 }
      match c.f (ps.calls - 1) pr.point with
      | none => .raised (st.setPs ps) .objective
      | some z => .normal { g := { st.g with ps := { ps with m := some (recordTrial s), evals := ps.evals ++ [(pr.point, z)] } },
                            l := { st.l with zval := some z } }
    | _, _ => .stuck
  | .updateOptimum, st =>
    match st.l.pend, st.l.zval, st.g.ps.m with
    | some pr, some z, some s => .normal (st.setPs { st.g.ps with m := some (updateOptimum pr z s) })
    | _, _, _ => .stuck
  | .renewSearchData, st =>
    match st.l.pend, st.l.zval, st.g.ps.m with
    | some pr, some z, some s => .normal (st.setPs { st.g.ps with m := some (renewSearchData c.p pr z s) })
    | _, _, _ => .stuck
  | .finalizeIteration, st =>
    match st.g.ps.m with
    | some s => .normal (st.setPs { st.g.ps with m := some (finalizeIteration s) })
    | none => .stuck
  | .onEndIteration, st =>
    match st.l.saved with
    | some sv => .normal (st.setPs { st.g.ps with log := st.g.ps.log ++ [Event.endIteration sv] })
    | none => .stuck
  | .now, st => .normal { st with l := { st.l with startTime := true } }
  | .printExc, st => .normal (st.setPs { st.g.ps with log := st.g.ps.log ++ [Event.exceptionPrinted] })
  | .doLocalRefinement, st =>
    match c.refine st.g.ps with
    | some lr => .normal (st.setPs (doLocalRefinement st.g.ps lr))
    | none => .stuck
  | .getResults, st => .normal { st with l := { st.l with result := true } }
  | .totalSeconds, st => if st.l.result && st.l.startTime then .normal st else .stuck
  | .checkStop, st => .normal { st with l := { st.l with status := some (stopNow c.p st.g.ps) } }
  | .onMethodStop, st =>
    match st.l.status with
    | some b => .normal (st.setPs { st.g.ps with log := st.g.ps.log ++ [Event.methodStop b] })
    | none => .stuck

/-! ### control -/

/-- an integer expression: a literal of `intLits` or an integer local -/
def evalNat (ints : List (String × Nat)) (e : String) : Option Nat :=
  match intLits.lookup e with
  | some n => some n
  | none => ints.lookup e

/-- `for _ in range(n)` -/
def loopN : Nat → (IState α → Out α) → IState α → Out α
  | 0, _, st => .normal st
  | k+1, b, st =>
    match b st with
    | .normal st' => loopN k b st'
    | o => o

/-- `while cond: body`; as in `Proc.solveLoop`, running out of fuel ends the loop -/
def whileLoop : Nat → (IState α → Bool) → (IState α → Out α) → IState α → Out α
  | 0, _, _, st => .normal st
  | fuel+1, cnd, b, st =>
    if cnd st then
      match b st with
      | .normal st' => whileLoop fuel cnd b st'
      | o => o
    else .normal st

/-- what a call of a function of `procTable` does: (argument expressions, the caller's integer locals, object) ↦ outcome -/
abbrev ProcEnv (α : Type) := String → Option (List String → List (String × Nat) → Glob α → POut α)

mutual
/-- one statement.  `inL`: inside `for listener in self.__listeners` -/
def execStmt (c : Ctx α) (env : ProcEnv α) (fuel : Nat) (inL : Bool) : Stmt → IState α → Out α
  | .call ts callee args, st =>
    match primTable.lookup (ts, callee, args) with
    | some pr => if pr.allowed inL then execPrim c pr st else .stuck
    | none =>
      match env callee with
      | none => .stuck
      | some h =>
        if ts = [] ∧ inL = false then
          match h args st.l.ints st.g with
          | .done g => .normal { st with g := g }
          | .raised g e => .raised { st with g := g } e
          | .stuck => .stuck
        else .stuck
  | .assign t v, st =>
    match assignTable.lookup (t, v) with
    | some a => if inL then .stuck else execAssign a st
    | none => .stuck
  | .forRange v cnt body, st =>
    if v = "_" then
      match evalNat st.l.ints cnt with
      | some n => loopN n (fun s => execList c env fuel inL body s) st
      | none => .stuck
    else .stuck
  | .forEach v coll body, st =>
    if v = "listener" ∧ coll = "self.__listeners" ∧ inL = false then execList c env fuel true body st else .stuck
  | .ite cond thn els, st =>
    match condTable.lookup cond with
    | some cd => if evalCond c cd st then execList c env fuel inL thn st else execList c env fuel inL els st
    | none => .stuck
  | .while cond body, st =>
    match condTable.lookup cond with
    | some cd => whileLoop fuel (evalCond c cd) (fun s => execList c env fuel inL body s) st
    | none => .stuck
  | .tryExcept body exc handler, st =>
    if exc = "BaseException" then
      match execList c env fuel inL body st with
      | .raised st' _ => execList c env fuel inL handler st'
      | o => o
    else .stuck
  | .ret v, st => if retTable.contains v ∧ st.l.result = true then .returned st else .stuck
  | .other _, _ => .stuck

/-- a statement list: stops at the first outcome that is not `normal` -/
def execList (c : Ctx α) (env : ProcEnv α) (fuel : Nat) (inL : Bool) : List Stmt → IState α → Out α
  | [], st => .normal st
  | s :: rest, st =>
    match execStmt c env fuel inL s st with
    | .normal st' => execList c env fuel inL rest st'
    | o => o
end

/-- a function body run on fresh locals holding the integer parameters -/
def runBody (c : Ctx α) (env : ProcEnv α) (fuel : Nat) (body : List Stmt) (ints : List (String × Nat)) (g : Glob α) : POut α :=
  match execList c env fuel false body { g := g, l := { ints := ints } } with
  | .normal st => .done st.g
  | .returned st => .done st.g
  | .raised st e => .raised st.g e
  | .stuck => .stuck

/-- evaluate the argument expressions and bind them to the parameters, in order -/
def bindAll (callerInts : List (String × Nat)) : List String → List String → Option (List (String × Nat))
  | [], [] => some []
  | x :: xs, e :: es =>
    match evalNat callerInts e, bindAll callerInts xs es with
    | some v, some rest => some ((x, v) :: rest)
    | _, _ => none
  | _, _ => none

/-- positional arguments, then the trailing defaults; the first parameter must be `self` -/
def bindArgs (params defaults args : List String) (callerInts : List (String × Nat)) : Option (List (String × Nat)) :=
  match params with
  | "self" :: ps =>
    let missing := ps.length - args.length
    if args.length ≤ ps.length ∧ missing ≤ defaults.length then
      bindAll callerInts ps (args ++ defaults.drop (defaults.length - missing))
    else none
  | _ => none

/-- the functions callable at call depth `d` -/
def envN (c : Ctx α) (fuel : Nat) : Nat → ProcEnv α
  | 0 => fun _ => none
  | d+1 => fun name =>
    match procTable.lookup name with
    | none => none
    | some (params, defaults, body) =>
      some fun args callerInts g =>
        match bindArgs params defaults args callerInts with
        | none => .stuck
        | some ints => runBody c (envN c fuel d) fuel body ints g

/-- run a function body: call depth `depth`, `while`-fuel `fuel` -/
def run (c : Ctx α) (depth fuel : Nat) (body : List Stmt) (ints : List (String × Nat)) (g : Glob α) : POut α :=
  runBody c (envN c fuel depth) fuel body ints g

/-- the `Proc.Res` an outcome stands for -/
def POut.toRes : POut α → Option (Res α)
  | .done g => some { s := g.ps }
  | .raised g e => some { s := g.ps, raised := some e }
  | .stuck => none

/-- the outcome a `Proc.Res` stands for -/
def POut.ofRes (r : Res α) : POut α :=
  match r.raised with
  | none => .done (Glob.ofP r.s)
  | some e => .raised (Glob.ofP r.s) e

end ProcInterp
end
