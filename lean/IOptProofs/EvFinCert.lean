import IOptProofs.EvFin
/-!
# Kernel evaluation of the certificates `EvCert n`, n = 2..5, and the resulting `EvFacts n`

(`n = 6, 7`: `EvFinCert6.lean`, `EvFinCert7.lean`; the dispatch on `n`: `EvDimFacts.lean`.)

`decide +kernel`: the kernel evaluates the Boolean certificate (no extra axioms, no `native_decide`).
Thanks to the reflection-equivariance used in `EvFin.lean` the certificate has only `n · 2^n` rows,
so no chunking is needed (all four take a few seconds together).
-/

namespace Ev

theorem evCert2 : EvCert 2 = true := by decide +kernel
theorem evCert3 : EvCert 3 = true := by decide +kernel
theorem evCert4 : EvCert 4 = true := by decide +kernel
theorem evCert5 : EvCert 5 = true := by decide +kernel

theorem evFacts2 : EvFacts 2 := evFacts_of_cert evCert2
theorem evFacts3 : EvFacts 3 := evFacts_of_cert evCert3
theorem evFacts4 : EvFacts 4 := evFacts_of_cert evCert4
theorem evFacts5 : EvFacts 5 := evFacts_of_cert evCert5

end Ev
