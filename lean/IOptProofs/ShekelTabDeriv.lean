import IOptProofs.ShekelTabDefs
import IOptProofs.BenchShekel
import Mathlib.Analysis.Calculus.Deriv.Inv
import Mathlib.Analysis.Calculus.Deriv.Pow
import Mathlib.Analysis.Calculus.Deriv.Add
import Mathlib.Analysis.Calculus.Deriv.Mul
/-!
# Shekel: the derivative over ℝ and the soundness of its interval bounds

* `dtermR`, `dfR`: the derivative of `termR` / `fR` (`HasDerivAt`);
* `Hr kb k c U = kb U / (k U² + c)²` and its monotonicity on both sides of the turning point `3 k U² = c`;
* `hU_sound`, `hL_sound`: the integer bounds `hU`, `hL` enclose `Hr` on `[n, f]`;
* `SP`, `SN`: the positive and the negative part of `f' · 2^P` in scaled coordinates, enclosed by
  `sPL ≤ SP ≤ sPU`, `sNL ≤ SN ≤ sNU`.
-/

namespace Shk

/-! ### the derivative -/

/-- the derivative of `x ↦ -termR E t x`: `2 k (x-a)/(k (x-a)² + c)²` -/
noncomputable def dtermR (E : Nat) (t : NTerm) (x : ℝ) : ℝ :=
  2 * ((t.1 : ℝ) / 2 ^ E) * (x - (t.2.1 : ℝ) / 2 ^ E) /
    ((t.1 : ℝ) / 2 ^ E * (x - (t.2.1 : ℝ) / 2 ^ E) ^ 2 + (t.2.2 : ℝ) / 2 ^ (3 * E)) ^ 2

/-- the derivative of `fR E ts` -/
noncomputable def dfR (E : Nat) (ts : List NTerm) (x : ℝ) : ℝ := (ts.map fun t => dtermR E t x).sum

theorem termR_den_pos (E : Nat) (t : NTerm) (hc : 0 < t.2.2) (x : ℝ) :
    0 < (t.1 : ℝ) / 2 ^ E * (x - (t.2.1 : ℝ) / 2 ^ E) ^ 2 + (t.2.2 : ℝ) / 2 ^ (3 * E) := by
  have hcR : (0 : ℝ) < t.2.2 := by exact_mod_cast hc
  have hk : (0 : ℝ) ≤ t.1 := Nat.cast_nonneg _
  positivity

theorem termR_hasDerivAt (E : Nat) (t : NTerm) (hc : 0 < t.2.2) (x : ℝ) :
    HasDerivAt (termR E t) (-dtermR E t x) x := by
  have hpos := termR_den_pos E t hc x
  have h1 : HasDerivAt (fun x : ℝ => (t.1 : ℝ) / 2 ^ E * (x - (t.2.1 : ℝ) / 2 ^ E) ^ 2 + (t.2.2 : ℝ) / 2 ^ (3 * E))
      ((t.1 : ℝ) / 2 ^ E * ((2 : ℕ) * (x - (t.2.1 : ℝ) / 2 ^ E) ^ (2 - 1) * 1)) x :=
    ((((hasDerivAt_id x).sub_const ((t.2.1 : ℝ) / 2 ^ E)).pow 2).const_mul ((t.1 : ℝ) / 2 ^ E)).add_const _
  have h2 := h1.inv hpos.ne'
  have e : termR E t = fun x : ℝ =>
      ((t.1 : ℝ) / 2 ^ E * (x - (t.2.1 : ℝ) / 2 ^ E) ^ 2 + (t.2.2 : ℝ) / 2 ^ (3 * E))⁻¹ := by
    funext y; unfold termR; rw [one_div]
  rw [e]
  refine h2.congr_deriv ?_
  unfold dtermR
  simp only [Nat.cast_ofNat, Nat.add_one_sub_one, pow_one, mul_one]
  ring

theorem fR_hasDerivAt (E : Nat) : ∀ (ts : List NTerm), (∀ t ∈ ts, 0 < t.2.2) → ∀ x : ℝ,
    HasDerivAt (fR E ts) (dfR E ts x) x
  | [], _, x => by
    have : fR E [] = fun _ => (0 : ℝ) := by funext y; simp [fR]
    rw [this]; simpa [dfR] using hasDerivAt_const x (0 : ℝ)
  | t :: ts, h, x => by
    have ih := fR_hasDerivAt E ts (fun t ht => h t (List.mem_cons_of_mem _ ht)) x
    have ht := termR_hasDerivAt E t (h t List.mem_cons_self) x
    have e : fR E (t :: ts) = fun x => -(termR E t x) + fR E ts x := by
      funext y; unfold fR; simp only [List.map_cons, List.sum_cons]; ring
    rw [e]
    have h3 : HasDerivAt (fun x => -(termR E t x) + fR E ts x) (-(-dtermR E t x) + dfR E ts x) x :=
      ht.neg.add ih
    refine h3.congr_deriv ?_
    simp [dfR]

/-! ### the function `Hr` -/

/-- `U ↦ kb U/(k U² + c)²` -/
noncomputable def Hr (kb k c U : ℝ) : ℝ := kb * U / (k * U ^ 2 + c) ^ 2

theorem Hr_zero (kb k c : ℝ) : Hr kb k c 0 = 0 := by simp [Hr]

theorem Hr_nonneg {kb k c U : ℝ} (hkb : 0 ≤ kb) (hk : 0 ≤ k) (hc : 0 < c) (hU : 0 ≤ U) : 0 ≤ Hr kb k c U := by
  unfold Hr; positivity

theorem Hr_neg (kb k c U : ℝ) : Hr kb k c (-U) = -Hr kb k c U := by
  unfold Hr; rw [neg_sq]; ring

/-- the key identity behind the monotonicity of `Hr` -/
theorem Hr_key (k c u v : ℝ) :
    v * (k * u ^ 2 + c) ^ 2 - u * (k * v ^ 2 + c) ^ 2
      = (v - u) * (c ^ 2 - 2 * c * (k * u * v) - (k * u * v) * (k * u ^ 2 + k * u * v + k * v ^ 2)) := by
  ring

/-- `Hr` increases on `[0, v]` when `3 k v² ≤ c` -/
theorem Hr_mono_inc {kb k c u v : ℝ} (hkb : 0 ≤ kb) (hk : 0 ≤ k) (hc : 0 < c) (hu : 0 ≤ u) (huv : u ≤ v)
    (h3 : 3 * (k * v ^ 2) ≤ c) : Hr kb k c u ≤ Hr kb k c v := by
  unfold Hr
  have hv : 0 ≤ v := hu.trans huv
  have d1 : 0 < (k * u ^ 2 + c) ^ 2 := by positivity
  have d2 : 0 < (k * v ^ 2 + c) ^ 2 := by positivity
  rw [div_le_div_iff₀ d1 d2]
  have ha0 : 0 ≤ k * u ^ 2 := by positivity
  have hb0 : 0 ≤ k * u * v := by positivity
  have hab : k * u ^ 2 ≤ k * u * v := by nlinarith [mul_nonneg hk hu]
  have hbd : k * u * v ≤ k * v ^ 2 := by nlinarith [mul_nonneg hk hv]
  have hb : k * u * v ≤ c / 3 := by linarith
  have hs : k * u ^ 2 + k * u * v + k * v ^ 2 ≤ c := by linarith
  have hprod : (k * u * v) * (k * u ^ 2 + k * u * v + k * v ^ 2) ≤ c / 3 * c :=
    mul_le_mul hb hs (by positivity) (by positivity)
  have hbr : 0 ≤ c ^ 2 - 2 * c * (k * u * v) - (k * u * v) * (k * u ^ 2 + k * u * v + k * v ^ 2) := by
    nlinarith
  have hkey := Hr_key k c u v
  have : 0 ≤ v * (k * u ^ 2 + c) ^ 2 - u * (k * v ^ 2 + c) ^ 2 := by
    rw [hkey]; exact mul_nonneg (by linarith) hbr
  nlinarith

/-- `Hr` decreases on `[u, ∞)` when `c ≤ 3 k u²` -/
theorem Hr_mono_dec {kb k c u v : ℝ} (hkb : 0 ≤ kb) (hk : 0 ≤ k) (hc : 0 < c) (hu : 0 ≤ u) (huv : u ≤ v)
    (h3 : c ≤ 3 * (k * u ^ 2)) : Hr kb k c v ≤ Hr kb k c u := by
  unfold Hr
  have hv : 0 ≤ v := hu.trans huv
  have d1 : 0 < (k * u ^ 2 + c) ^ 2 := by positivity
  have d2 : 0 < (k * v ^ 2 + c) ^ 2 := by positivity
  rw [div_le_div_iff₀ d2 d1]
  have hab : k * u ^ 2 ≤ k * u * v := by nlinarith [mul_nonneg hk hu]
  have hbd : k * u * v ≤ k * v ^ 2 := by nlinarith [mul_nonneg hk hv]
  have hb : c / 3 ≤ k * u * v := by linarith
  have hs : c ≤ k * u ^ 2 + k * u * v + k * v ^ 2 := by linarith
  have hprod : c / 3 * c ≤ (k * u * v) * (k * u ^ 2 + k * u * v + k * v ^ 2) :=
    mul_le_mul hb hs hc.le (by positivity)
  have hbr : c ^ 2 - 2 * c * (k * u * v) - (k * u * v) * (k * u ^ 2 + k * u * v + k * v ^ 2) ≤ 0 := by
    nlinarith
  have hkey := Hr_key k c u v
  have : v * (k * u ^ 2 + c) ^ 2 - u * (k * v ^ 2 + c) ^ 2 ≤ 0 := by
    rw [hkey]; exact mul_nonpos_of_nonneg_of_nonpos (by linarith) hbr
  nlinarith

/-- the crude bound: numerator at the far end, denominator at the near end -/
theorem Hr_mix {kb k c n U f : ℝ} (hkb : 0 ≤ kb) (hk : 0 ≤ k) (hc : 0 < c) (hn : 0 ≤ n) (hnU : n ≤ U)
    (hUf : U ≤ f) : Hr kb k c U ≤ kb * f / (k * n ^ 2 + c) ^ 2 := by
  unfold Hr
  have hU : 0 ≤ U := hn.trans hnU
  have h1 : k * n ^ 2 + c ≤ k * U ^ 2 + c := by
    have := mul_le_mul_of_nonneg_left (pow_le_pow_left₀ hn hnU 2) hk
    linarith
  have hpos : 0 < k * n ^ 2 + c := by positivity
  have h2 : (k * n ^ 2 + c) ^ 2 ≤ (k * U ^ 2 + c) ^ 2 := pow_le_pow_left₀ hpos.le h1 2
  exact div_le_div₀ (mul_nonneg hkb (hU.trans hUf)) (mul_le_mul_of_nonneg_left hUf hkb) (by positivity) h2

/-! ### the integer bounds of `Hr` -/

/-- well-formedness of a prepared term -/
structure DTok (d : DT) : Prop where
  cpos : 0 < d.c
  c3lo : 3 * d.c3 ≤ d.c
  c3hi : d.c < 3 * (d.c3 + 1)

theorem mkDT_ok (B : Nat) (t : NTerm) (hc : 0 < t.2.2) : DTok (mkDT B t) := by
  refine ⟨hc, ?_, ?_⟩
  · show 3 * (t.2.2 / 3) ≤ t.2.2; omega
  · show t.2.2 < 3 * (t.2.2 / 3 + 1); omega

/-- `Hr` with the coefficients of a prepared term -/
noncomputable def HrD (d : DT) (U : ℝ) : ℝ := Hr d.kb d.k d.c U

theorem qd_cast (d : DT) (m : Nat) : ((qd d m : Nat) : ℝ) = (d.k : ℝ) * (m : ℝ) ^ 2 := by
  show ((d.k * (m * m) : Nat) : ℝ) = _
  push_cast; ring

theorem dn2_cast (d : DT) (m : Nat) : ((dn2 d m : Nat) : ℝ) = ((d.k : ℝ) * (m : ℝ) ^ 2 + d.c) ^ 2 := by
  show (((d.k * (m * m) + d.c) * (d.k * (m * m) + d.c) : Nat) : ℝ) = _
  push_cast; ring

theorem dn2_pos (d : DT) (ok : DTok d) (m : Nat) : 0 < dn2 d m := by
  show 0 < (d.k * (m * m) + d.c) * (d.k * (m * m) + d.c)
  have := ok.cpos
  positivity

theorem floor_div_le (N D : Nat) : ((N / D : Nat) : ℝ) ≤ (N : ℝ) / D := Nat.cast_div_le

theorem lt_floor_div_succ (N D : Nat) (hD : 0 < D) : (N : ℝ) / D < ((N / D : Nat) : ℝ) + 1 := by
  have h := Nat.lt_mul_div_succ N hD
  have hDR : (0 : ℝ) < D := by exact_mod_cast hD
  rw [div_lt_iff₀ hDR]
  have : (N : ℝ) < (D : ℝ) * (((N / D : Nat) : ℝ) + 1) := by exact_mod_cast h
  linarith

theorem HrD_nat (d : DT) (m : Nat) : HrD d m = ((d.kb * m : Nat) : ℝ) / (dn2 d m : ℝ) := by
  unfold HrD Hr; rw [dn2_cast]; push_cast; rfl

theorem hv_le (d : DT) (m : Nat) : ((hv d m : Nat) : ℝ) ≤ HrD d m := by
  rw [HrD_nat]; exact floor_div_le _ _

theorem lt_hv (d : DT) (ok : DTok d) (m : Nat) : HrD d m < ((Nat.succ (hv d m) : Nat) : ℝ) := by
  rw [HrD_nat, Nat.succ_eq_add_one, Nat.cast_add, Nat.cast_one]
  exact lt_floor_div_succ _ _ (dn2_pos d ok m)

theorem DTok.kR (d : DT) : (0 : ℝ) ≤ d.k := Nat.cast_nonneg _
theorem DTok.kbR (d : DT) : (0 : ℝ) ≤ d.kb := Nat.cast_nonneg _
theorem DTok.cR {d : DT} (ok : DTok d) : (0 : ℝ) < d.c := by exact_mod_cast ok.cpos

/-- `qd d f ≤ c3` gives `3 k f² ≤ c` -/
theorem incr_of_ble {d : DT} (ok : DTok d) {f : Nat} (h : Nat.ble (qd d f) d.c3 = true) :
    3 * ((d.k : ℝ) * (f : ℝ) ^ 2) ≤ d.c := by
  have h1 : qd d f ≤ d.c3 := Nat.le_of_ble_eq_true h
  have h2 : 3 * qd d f ≤ d.c := by have := ok.c3lo; omega
  have : ((3 * qd d f : Nat) : ℝ) ≤ d.c := by exact_mod_cast h2
  rw [Nat.cast_mul, qd_cast] at this
  exact_mod_cast this

/-- `c3 < qd d n` gives `c ≤ 3 k n²` -/
theorem decr_of_blt {d : DT} (ok : DTok d) {n : Nat} (h : Nat.blt d.c3 (qd d n) = true) :
    (d.c : ℝ) ≤ 3 * ((d.k : ℝ) * (n : ℝ) ^ 2) := by
  have h1 : d.c3 < qd d n := lt_of_blt h
  have h2 : d.c ≤ 3 * qd d n := by have := ok.c3hi; omega
  have : (d.c : ℝ) ≤ ((3 * qd d n : Nat) : ℝ) := by exact_mod_cast h2
  rw [Nat.cast_mul, qd_cast] at this
  exact_mod_cast this

theorem hU_sound (d : DT) (ok : DTok d) (n f : Nat) (U : ℝ) (hn : (n : ℝ) ≤ U) (hf : U ≤ (f : ℝ)) :
    HrD d U ≤ ((hU d n f : Nat) : ℝ) := by
  have hn0 : (0 : ℝ) ≤ n := Nat.cast_nonneg n
  have hU0 : 0 ≤ U := hn0.trans hn
  have hk := DTok.kR d
  have hkb := DTok.kbR d
  have hc := ok.cR
  unfold hU
  cases h0 : Nat.beq f 0 with
  | true =>
    have : f = 0 := Nat.eq_of_beq_eq_true h0
    subst this
    have hU' : U = 0 := le_antisymm (by simpa using hf) hU0
    simp [hU', HrD, Hr_zero]
  | false =>
    simp only [cond_false]
    cases h1 : Nat.ble (qd d f) d.c3 with
    | true =>
      simp only [cond_true]
      exact (Hr_mono_inc hkb hk hc hU0 hf (incr_of_ble ok h1)).trans (lt_hv d ok f).le
    | false =>
      simp only [cond_false]
      cases h2 : Nat.blt d.c3 (qd d n) with
      | true =>
        simp only [cond_true]
        exact (Hr_mono_dec hkb hk hc hn0 hn (decr_of_blt ok h2)).trans (lt_hv d ok n).le
      | false =>
        simp only [cond_false]
        refine (Hr_mix hkb hk hc hn0 hn hf).trans ?_
        have := lt_floor_div_succ (d.kb * f) (dn2 d n) (dn2_pos d ok n)
        rw [dn2_cast] at this
        show _ ≤ ((Nat.succ ((d.kb * f) / dn2 d n) : Nat) : ℝ)
        rw [Nat.succ_eq_add_one]
        push_cast at this ⊢
        exact this.le

theorem hL_sound (d : DT) (ok : DTok d) (n f : Nat) (U : ℝ) (hn : (n : ℝ) ≤ U) (hf : U ≤ (f : ℝ)) :
    ((hL d n f : Nat) : ℝ) ≤ HrD d U := by
  have hn0 : (0 : ℝ) ≤ n := Nat.cast_nonneg n
  have hU0 : 0 ≤ U := hn0.trans hn
  have hk := DTok.kR d
  have hkb := DTok.kbR d
  have hc := ok.cR
  have hpos : 0 ≤ HrD d U := Hr_nonneg hkb hk hc hU0
  unfold hL
  cases h0 : Nat.beq n 0 with
  | true => simpa using hpos
  | false =>
    simp only [cond_false]
    cases h1 : Nat.ble (qd d f) d.c3 with
    | true =>
      simp only [cond_true]
      refine (hv_le d n).trans (Hr_mono_inc hkb hk hc hn0 hn ?_)
      have h3 := incr_of_ble ok h1
      have : U ^ 2 ≤ (f : ℝ) ^ 2 := pow_le_pow_left₀ hU0 hf 2
      nlinarith
    | false =>
      simp only [cond_false]
      cases h2 : Nat.blt d.c3 (qd d n) with
      | true =>
        simp only [cond_true]
        refine (hv_le d f).trans (Hr_mono_dec hkb hk hc hU0 hf ?_)
        have h3 := decr_of_blt ok h2
        have : (n : ℝ) ^ 2 ≤ U ^ 2 := pow_le_pow_left₀ hn0 hn 2
        nlinarith
      | false =>
        simp only [cond_false]
        have hmin : ((hLs d n f : Nat) : ℝ) ≤ (hv d n : ℝ) ∧ ((hLs d n f : Nat) : ℝ) ≤ (hv d f : ℝ) := by
          unfold hLs
          cases h3 : Nat.ble (hv d n) (hv d f) with
          | true =>
            have : hv d n ≤ hv d f := Nat.le_of_ble_eq_true h3
            exact ⟨le_rfl, by exact_mod_cast this⟩
          | false =>
            have : ¬ hv d n ≤ hv d f := fun h => by
              rw [Nat.ble_eq_true_of_le h] at h3; cases h3
            exact ⟨by simp only [cond_false]; exact_mod_cast (Nat.le_of_not_le this), le_rfl⟩
        rcases le_or_gt (3 * ((d.k : ℝ) * U ^ 2)) (d.c : ℝ) with h3 | h3
        · exact hmin.1.trans ((hv_le d n).trans (Hr_mono_inc hkb hk hc hn0 hn h3))
        · exact hmin.2.trans ((hv_le d f).trans (Hr_mono_dec hkb hk hc hU0 hf h3.le))

/-! ### the four sums -/

theorem sumD_nil (h : DT → Nat) : sumD h [] = 0 := rfl
theorem sumD_cons (h : DT → Nat) (d : DT) (ds : List DT) : sumD h (d :: ds) = h d + sumD h ds := rfl

theorem sum_le_sumD (h : DT → Nat) (φ : DT → ℝ) : ∀ ds : List DT, (∀ d ∈ ds, φ d ≤ (h d : ℝ)) →
    (ds.map φ).sum ≤ ((sumD h ds : Nat) : ℝ)
  | [], _ => by simp [sumD_nil]
  | d :: ds, H => by
    have ih := sum_le_sumD h φ ds (fun d hd => H d (List.mem_cons_of_mem _ hd))
    have h1 := H d List.mem_cons_self
    rw [sumD_cons]; push_cast
    simp only [List.map_cons, List.sum_cons]
    linarith

theorem sumD_le_sum (h : DT → Nat) (φ : DT → ℝ) : ∀ ds : List DT, (∀ d ∈ ds, (h d : ℝ) ≤ φ d) →
    ((sumD h ds : Nat) : ℝ) ≤ (ds.map φ).sum
  | [], _ => by simp [sumD_nil]
  | d :: ds, H => by
    have ih := sumD_le_sum h φ ds (fun d hd => H d (List.mem_cons_of_mem _ hd))
    have h1 := H d List.mem_cons_self
    rw [sumD_cons]; push_cast
    simp only [List.map_cons, List.sum_cons]
    linarith

/-- positive part of `f' · 2^P` at the scaled point `y` -/
noncomputable def SP (ds : List DT) (y : ℝ) : ℝ := (ds.map fun d => HrD d (max (y - d.a) 0)).sum
/-- negative part of `f' · 2^P` at the scaled point `y` -/
noncomputable def SN (ds : List DT) (y : ℝ) : ℝ := (ds.map fun d => HrD d (max ((d.a : ℝ) - y) 0)).sum

theorem cast_tsub (m n : Nat) : ((m - n : Nat) : ℝ) = max ((m : ℝ) - n) 0 := by
  rcases Nat.le_total n m with h | h
  · rw [Nat.cast_sub h, max_eq_left]
    have : (n : ℝ) ≤ m := by exact_mod_cast h
    linarith
  · rw [Nat.sub_eq_zero_of_le h, max_eq_right]
    · simp
    · have : (m : ℝ) ≤ n := by exact_mod_cast h
      linarith

section box
variable (ds : List DT) (hok : ∀ d ∈ ds, DTok d) (lo hi : Nat) (y : ℝ) (h1 : (lo : ℝ) ≤ y) (h2 : y ≤ (hi : ℝ))
include hok h1 h2

theorem sPU_sound : SP ds y ≤ ((sPU ds lo hi : Nat) : ℝ) := by
  refine sum_le_sumD _ _ ds fun d hd => hU_sound d (hok d hd) _ _ _ ?_ ?_
  · show ((lo - d.a : Nat) : ℝ) ≤ _
    rw [cast_tsub]; exact max_le_max (by linarith) le_rfl
  · show _ ≤ ((hi - d.a : Nat) : ℝ)
    rw [cast_tsub]; exact max_le_max (by linarith) le_rfl

theorem sPL_sound : ((sPL ds lo hi : Nat) : ℝ) ≤ SP ds y := by
  refine sumD_le_sum _ _ ds fun d hd => hL_sound d (hok d hd) _ _ _ ?_ ?_
  · show ((lo - d.a : Nat) : ℝ) ≤ _
    rw [cast_tsub]; exact max_le_max (by linarith) le_rfl
  · show _ ≤ ((hi - d.a : Nat) : ℝ)
    rw [cast_tsub]; exact max_le_max (by linarith) le_rfl

theorem sNU_sound : SN ds y ≤ ((sNU ds lo hi : Nat) : ℝ) := by
  refine sum_le_sumD _ _ ds fun d hd => hU_sound d (hok d hd) _ _ _ ?_ ?_
  · show ((d.a - hi : Nat) : ℝ) ≤ _
    rw [cast_tsub]; exact max_le_max (by linarith) le_rfl
  · show _ ≤ ((d.a - lo : Nat) : ℝ)
    rw [cast_tsub]; exact max_le_max (by linarith) le_rfl

theorem sNL_sound : ((sNL ds lo hi : Nat) : ℝ) ≤ SN ds y := by
  refine sumD_le_sum _ _ ds fun d hd => hL_sound d (hok d hd) _ _ _ ?_ ?_
  · show ((d.a - hi : Nat) : ℝ) ≤ _
    rw [cast_tsub]; exact max_le_max (by linarith) le_rfl
  · show _ ≤ ((d.a - lo : Nat) : ℝ)
    rw [cast_tsub]; exact max_le_max (by linarith) le_rfl

end box

/-! ### the link between `dfR` and `SP - SN` -/

theorem Hr_split (kb k c U : ℝ) : Hr kb k c U = Hr kb k c (max U 0) - Hr kb k c (max (-U) 0) := by
  rcases le_total 0 U with h | h
  · rw [max_eq_left h, max_eq_right (by linarith), Hr_zero, sub_zero]
  · rw [max_eq_right h, max_eq_left (by linarith), Hr_zero, Hr_neg]; ring

theorem dtermR_scaled (E : Nat) (t : NTerm) (hc : 0 < t.2.2) (x : ℝ) :
    dtermR E t x * 2 ^ P
      = Hr ((2 * t.1 * 2 ^ (4 * E + P) : Nat) : ℝ) t.1 t.2.2 (x * 2 ^ E - t.2.1) := by
  have hpos := termR_den_pos E t hc x
  unfold dtermR Hr
  have h3 : (2 : ℝ) ^ (3 * E) = (2 ^ E) ^ 3 := pow_mul' 2 3 E
  have h4 : (2 : ℝ) ^ (4 * E + P) = (2 ^ E) ^ 4 * 2 ^ P := by rw [pow_add, pow_mul' 2 4 E]
  rw [h3] at hpos ⊢
  push_cast
  rw [h4]
  have hs : (0 : ℝ) < 2 ^ E := by positivity
  set s : ℝ := 2 ^ E with hsdef
  have hcR : (0 : ℝ) < t.2.2 := by exact_mod_cast hc
  have hk : (0 : ℝ) ≤ t.1 := Nat.cast_nonneg _
  have hd2 : (0 : ℝ) < (t.1 : ℝ) * (x * s - t.2.1) ^ 2 + t.2.2 := by positivity
  rw [div_mul_eq_mul_div, div_eq_div_iff (by positivity) (by positivity)]
  field_simp

theorem dfR_scaled (E : Nat) : ∀ (ts : List NTerm), (∀ t ∈ ts, 0 < t.2.2) → ∀ x : ℝ,
    dfR E ts x * 2 ^ P
      = SP (ts.map (mkDT (2 ^ (4 * E + P)))) (x * 2 ^ E) - SN (ts.map (mkDT (2 ^ (4 * E + P)))) (x * 2 ^ E)
  | [], _, x => by simp [dfR, SP, SN]
  | t :: ts, h, x => by
    have ih := dfR_scaled E ts (fun t ht => h t (List.mem_cons_of_mem _ ht)) x
    have ht := dtermR_scaled E t (h t List.mem_cons_self) x
    unfold dfR SP SN at *
    simp only [List.map_cons, List.sum_cons, add_mul]
    rw [ih, ht, Hr_split]
    have e1 : -(x * 2 ^ E - (t.2.1 : ℝ)) = (t.2.1 : ℝ) - x * 2 ^ E := by ring
    rw [e1]
    show _ = Hr ((2 * t.1 * 2 ^ (4 * E + P) : Nat) : ℝ) t.1 t.2.2 (max (x * 2 ^ E - (t.2.1 : ℝ)) 0) + _ -
      (Hr ((2 * t.1 * 2 ^ (4 * E + P) : Nat) : ℝ) t.1 t.2.2 (max ((t.2.1 : ℝ) - x * 2 ^ E) 0) + _)
    ring

end Shk
