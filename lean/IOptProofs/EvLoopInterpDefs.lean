import IOptModel.Evolvent
import IOptGen.EvolventLoopsSrc
/-!
# A semantics for the statement trees of `Evolvent.__GetYonX` / `__GetXonY` (`IOptGen/EvolventLoopsSrc.lean`)

`IOptGen/EvolventLoopsSrc.lean` is regenerated from the SOURCE TEXT of `iOpt/evolvent/evolvent.py` on every run: the bodies of the two
level loops `Evolvent.__GetYonX`, `Evolvent.__GetXonY` as statement trees (`Gen.ProcSrc.Stmt`).  In `IOptProofs/EvInterpDefs.lean` these two
methods are PRIMITIVES (interpreted by `Ev.imageCube` / `Ev.inverseCube`); this file opens them.  The meaning of a tree is given in two
structurally recursive passes, both GENERIC in the tree (neither looks at which method it is working on):

1. `resolveS` / `resolveL` : `Stmt → Option RStmt`.  Every source string is an opaque key of a small table (`lvTable`, `numTable`, `intTable`,
   `digTable`, `condTable`, `primTable`, `attrTable`, `collTable`, `retTable`, `paramTable`, and the two literals `"dtype=np.int32"`,
   `"dtype=np.double"`); the tables give each string a typed meaning (an lvalue, a numeric / integer / digit expression, a condition, …).
   A string that is not in the table that its position asks for makes the WHOLE tree unresolvable (`none` = stuck), and so do
   `for … in range(count)`, `while`, `try` and every statement the generator could not classify.
2. `execS` / `execL` : the resolved tree is run on a state (`LState`) holding
   * the attributes the methods read: `self.numberOfFloatVariables` (`n`), `self.evolventDensity` (`m`), `self.nexpExtended` (`nexp`), and
     the CONTENT of `self.yValues` (`y : List α`);
   * the numeric locals `d`, `r`, `r1`, `x` and the parameter `_x` (values in `α`);
   * the integer locals `it`, `l`, `i`, `j` (values in `Int`; `i` is both a loop index and the temporary of the element swaps);
   * the integer arrays `iu`, `iv`, `iw`, `u`, `v`, `w` (`List Int`);
   * the digit `iis` (a natural number: see below).
   A local that was never assigned has no value; reading it is stuck.  An element access `a[k]` with `k` negative or `k ≥ len(a)` is
   stuck (Python: `IndexError`, or a wrap-around for negative `k`, which the source never relies on).

What the tables say about the numbers:
* `0.0`, `1.0`, `0.5` are `0`, `1`, `Ev.half = 1/2` of the carrier; `+ - * /`, `<`, `>=` are the carrier's; `np.double(_x)` is `_x`.
* an integer array element in a numeric product (`r * iu[i]`, `r * u[i]`) is cast by `ofInt` (`k ↦ k`, `-(k+1) ↦ -(k+1)` through `NatCast`).
  The MODEL uses `Ev.addSigned` (a sign test) instead of this product; `IOptProofs/EvLoopInterp.lean` proves the two agree in every ordered
  field, the entries being `±1`.
* `iis` is kept as the DIGIT it denotes, a natural number: `iis = int(d)` is `TruncNat.toNat d`; `iis = self.nexpExtended - 1.0` is the digit
  `2^N - 1` (`nexpExtended` is `2^N`, an exactly representable integer; the model's `yLoop` says the same); where `iis` occurs in a numeric
  expression (`d - iis`, `x + r1 * iis`) it is cast through `NatCast`.
* `self.__CalculateNode(iis, self.numberOfFloatVariables, iu, iv)` and `self.__CalculateNumbr(u, v)` stay PRIMITIVES, interpreted by
  `Ev.node n iis` (returns `l`; OVERWRITES the two arrays, which must exist, be distinct and have `N` entries) and `Ev.numbr n u` (returns
  `(iis, l, v)`; `v` is overwritten in place and the third target must be the same variable `v`).  Their integer bit loops are tied to
  the source by the complete regenerated tables for `N ≤ 7` (`IOptProofs/EvNodeTable.lean`) and, for every `N ≥ 2`, `Ev.node` / `Ev.numbr`
  are mutually inverse (`Ev.Inv.nodeOK_all`, `IOptProofs/EvGenNode.lean`).
* `return self.yValues` returns the scratch array itself (`Out.yRef`), `return np.copy(self.yValues)` a copy of its content.

No Mathlib, no proofs: everything here is executable.
-/

set_option linter.constructorNameAsVariable false

section
variable {α : Type} [Add α] [Sub α] [Mul α] [Div α] [Neg α] [LT α] [LE α]
  [DecidableLT α] [DecidableLE α] [OfNat α 0] [OfNat α 1] [OfNat α 2] [NatCast α] [TruncNat α]

namespace EvLoop
open Gen.ProcSrc

/-! ### variables and state -/

/-- the numeric locals (`xArg` is the parameter `_x`) -/
inductive NumVar where
  | d | r | r1 | x | xArg
deriving DecidableEq, Repr

/-- the integer locals -/
inductive IntVar where
  | it | l | i | j
deriving DecidableEq, Repr

/-- the integer arrays -/
inductive ArrVar where
  | iu | iv | iw | u | v | w
deriving DecidableEq, Repr

structure LState (α : Type) where
  /-- `self.numberOfFloatVariables` -/
  n : Nat
  /-- `self.evolventDensity` -/
  m : Nat
  /-- `self.nexpExtended` -/
  nexp : α
  /-- content of `self.yValues` -/
  y : List α
  num : NumVar → Option α := fun _ => none
  int : IntVar → Option Int := fun _ => none
  arr : ArrVar → Option (List Int) := fun _ => none
  /-- the digit `iis` -/
  iis : Option Nat := none

def LState.setNum (st : LState α) (v : NumVar) (a : α) : LState α :=
  { st with num := fun w => if w = v then some a else st.num w }

def LState.setInt (st : LState α) (v : IntVar) (k : Int) : LState α :=
  { st with int := fun w => if w = v then some k else st.int w }

def LState.setArr (st : LState α) (a : ArrVar) (l : List Int) : LState α :=
  { st with arr := fun w => if w = a then some l else st.arr w }

def LState.setDig (st : LState α) (k : Nat) : LState α := { st with iis := some k }

def LState.setY (st : LState α) (y : List α) : LState α := { st with y := y }

/-! ### the typed meaning of the source strings -/

/-- an index: the literal `0` or an integer local -/
inductive Idx where
  | zero
  | var (v : IntVar)
deriving DecidableEq, Repr

/-- integer expressions -/
inductive IExpr where
  | lit (k : Int)
  | var (v : IntVar)
  /-- `a[i]` -/
  | elem (a : ArrVar) (i : Idx)
  | mul (a b : IExpr)
  | neg (a : IExpr)
deriving DecidableEq, Repr

/-- numeric expressions -/
inductive NExpr where
  /-- `0.0` (and the `0` a number is compared with) -/
  | zero
  /-- `0.5` -/
  | half
  /-- `1.0` -/
  | one
  | var (v : NumVar)
  /-- `self.nexpExtended` -/
  | nexp
  /-- `self.yValues[i]` -/
  | yElem (i : Idx)
  /-- an integer used as a number -/
  | ofInt (e : IExpr)
  /-- the digit `iis` used as a number -/
  | dig
  | add (a b : NExpr)
  | sub (a b : NExpr)
  | mul (a b : NExpr)
  | div (a b : NExpr)
deriving DecidableEq, Repr

/-- digit expressions -/
inductive DExpr where
  /-- `self.nexpExtended - 1.0`, the last digit `2^N - 1` -/
  | last
deriving DecidableEq, Repr

inductive Cond where
  /-- `self.numberOfFloatVariables == 1` -/
  | nIsOne
  /-- `a >= b` -/
  | ge (a b : NExpr)
  /-- `a < b` -/
  | lt (a b : NExpr)
  /-- `a == b` on integers -/
  | ieq (a b : IExpr)
deriving DecidableEq, Repr

/-- what may stand left of `=` (or be the target of a call, or a loop variable) -/
inductive LV where
  | num (v : NumVar)
  | int (v : IntVar)
  /-- `iis` -/
  | dig
  /-- a whole integer array (target of `np.ones` / `np.zeros`, argument of the two primitives) -/
  | arr (a : ArrVar)
  /-- `a[i]` -/
  | elem (a : ArrVar) (i : Idx)
  /-- `self.yValues` (target of `np.zeros(…, dtype=np.double)`) -/
  | yAll
  /-- `self.yValues[i]` -/
  | yElem (i : Idx)
deriving DecidableEq, Repr

inductive Prim where
  /-- `np.double(e)` -/
  | double
  /-- `np.ones(k, dtype=np.int32)` -/
  | ones
  /-- `np.zeros(k, dtype=…)` -/
  | zeros
  /-- `int(e)` -/
  | int
  /-- `self.__CalculateNode(iis, N, u, v)` -/
  | node
  /-- `self.__CalculateNumbr(u, v)` -/
  | numbr
deriving DecidableEq, Repr

inductive Attr where
  | n
deriving DecidableEq, Repr

inductive Coll where
  /-- `range(0, self.numberOfFloatVariables)` -/
  | rangeN
  /-- `range(0, self.evolventDensity)` -/
  | rangeM
deriving DecidableEq, Repr

inductive RetKind where
  /-- `self.yValues` -/
  | yRef
  /-- `np.copy(self.yValues)` -/
  | yCopy
  | num (v : NumVar)
deriving DecidableEq, Repr

/-! ### tables -/

def lvTable : List (String × LV) := [
  ("d", .num .d), ("r", .num .r), ("r1", .num .r1), ("x", .num .x),
  ("it", .int .it), ("l", .int .l), ("i", .int .i), ("j", .int .j),
  ("iis", .dig),
  ("iu", .arr .iu), ("iv", .arr .iv), ("iw", .arr .iw), ("u", .arr .u), ("v", .arr .v), ("w", .arr .w),
  ("iu[0]", .elem .iu .zero), ("iu[it]", .elem .iu (.var .it)), ("iu[i]", .elem .iu (.var .i)),
  ("iv[0]", .elem .iv .zero), ("iv[it]", .elem .iv (.var .it)),
  ("iw[i]", .elem .iw (.var .i)),
  ("u[0]", .elem .u .zero), ("u[it]", .elem .u (.var .it)), ("u[i]", .elem .u (.var .i)),
  ("v[0]", .elem .v .zero), ("v[it]", .elem .v (.var .it)),
  ("w[i]", .elem .w (.var .i)),
  ("self.yValues", .yAll),
  ("self.yValues[0]", .yElem .zero), ("self.yValues[i]", .yElem (.var .i))]

/-- numeric expressions (right-hand sides of numeric targets, arguments of `np.double` / `int`) -/
def numTable : List (String × NExpr) := [
  ("0.0", .zero), ("0.5", .half), ("1.0", .one),
  ("_x", .var .xArg), ("d", .var .d),
  ("_x - 0.5", .sub (.var .xArg) .half),
  ("d * self.nexpExtended", .mul (.var .d) .nexp),
  ("d - iis", .sub (.var .d) .dig),
  ("r * 0.5", .mul (.var .r) .half),
  ("self.yValues[i] + r * iu[i]", .add (.yElem (.var .i)) (.mul (.var .r) (.ofInt (.elem .iu (.var .i))))),
  ("self.yValues[0] + 0.5", .add (.yElem .zero) .half),
  ("self.yValues[i] - r * u[i]", .sub (.yElem (.var .i)) (.mul (.var .r) (.ofInt (.elem .u (.var .i))))),
  ("r1 / self.nexpExtended", .div (.var .r1) .nexp),
  ("x + r1 * iis", .add (.var .x) (.mul (.var .r1) .dig))]

/-- integer expressions (right-hand sides of integer targets) -/
def intTable : List (String × IExpr) := [
  ("0", .lit 0), ("1", .lit 1), ("-1", .lit (-1)),
  ("i", .var .i), ("it", .var .it), ("l", .var .l),
  ("iu[0]", .elem .iu .zero), ("iu[it]", .elem .iu (.var .it)),
  ("iv[0]", .elem .iv .zero), ("iv[it]", .elem .iv (.var .it)),
  ("u[0]", .elem .u .zero), ("u[it]", .elem .u (.var .it)),
  ("v[0]", .elem .v .zero), ("v[it]", .elem .v (.var .it)),
  ("iu[i] * iw[i]", .mul (.elem .iu (.var .i)) (.elem .iw (.var .i))),
  ("iw[i] * -iv[i]", .mul (.elem .iw (.var .i)) (.neg (.elem .iv (.var .i)))),
  ("u[i] * w[i]", .mul (.elem .u (.var .i)) (.elem .w (.var .i))),
  ("w[i] * -v[i]", .mul (.elem .w (.var .i)) (.neg (.elem .v (.var .i))))]

/-- right-hand sides of `iis = …` -/
def digTable : List (String × DExpr) := [("self.nexpExtended - 1.0", .last)]

def condTable : List (String × Cond) := [
  ("self.numberOfFloatVariables == 1", .nIsOne),
  ("_x >= 1.0", .ge (.var .xArg) .one),
  ("l == 0", .ieq (.var .l) (.lit 0)),
  ("l == it", .ieq (.var .l) (.var .it)),
  ("self.yValues[i] < 0", .lt (.yElem (.var .i)) .zero)]

def primTable : List (String × Prim) := [
  ("np.double", .double), ("np.ones", .ones), ("np.zeros", .zeros), ("int", .int),
  ("self.__CalculateNode", .node), ("self.__CalculateNumbr", .numbr)]

/-- integer attributes that may be read (as an array size, as the dimension argument of `__CalculateNode`) -/
def attrTable : List (String × Attr) := [("self.numberOfFloatVariables", .n)]

def collTable : List (String × Coll) := [
  ("range(0, self.numberOfFloatVariables)", .rangeN),
  ("range(0, self.evolventDensity)", .rangeM)]

def retTable : List (String × RetKind) := [
  ("self.yValues", .yRef), ("np.copy(self.yValues)", .yCopy), ("x", .num .x)]

/-- the numeric parameters -/
def paramTable : List (String × NumVar) := [("_x", .xArg)]

/-! ### pass 1: resolution of the strings -/

/-- resolved statements -/
inductive RStmt where
  | setNum (v : NumVar) (e : NExpr)
  | setInt (v : IntVar) (e : IExpr)
  | setDig (e : DExpr)
  /-- `a[i] = e` -/
  | setElem (a : ArrVar) (i : Idx) (e : IExpr)
  /-- `self.yValues[i] = e` -/
  | setY (i : Idx) (e : NExpr)
  /-- `a = np.ones(N, dtype=np.int32)` -/
  | ones (a : ArrVar)
  /-- `a = np.zeros(N, dtype=np.int32)` -/
  | zerosInt (a : ArrVar)
  /-- `self.yValues = np.zeros(N, dtype=np.double)` -/
  | zerosY
  /-- `iis = int(e)` -/
  | trunc (e : NExpr)
  /-- `l = self.__CalculateNode(iis, N, u, v)` -/
  | node (l : IntVar) (u v : ArrVar)
  /-- `iis, l, v = self.__CalculateNumbr(u, v)` -/
  | numbr (l : IntVar) (u v : ArrVar)
  | ite (c : Cond) (thn els : List RStmt)
  | for (v : IntVar) (c : Coll) (body : List RStmt)
  | ret (k : RetKind)
deriving Repr

def lv (s : String) : Option LV := lvTable.lookup s

/-- a call of a primitive -/
def resolveCall : Prim → List String → List String → Option RStmt
  | .double, [t], [e] =>
    match lv t, numTable.lookup e with
    | some (.num tx), some e => some (.setNum tx e)
    | _, _ => none
  | .ones, [t], [k, dt] =>
    match lv t, attrTable.lookup k with
    | some (.arr a), some .n => if dt = "dtype=np.int32" then some (.ones a) else none
    | _, _ => none
  | .zeros, [t], [k, dt] =>
    match lv t, attrTable.lookup k with
    | some (.arr a), some .n => if dt = "dtype=np.int32" then some (.zerosInt a) else none
    | some .yAll, some .n => if dt = "dtype=np.double" then some .zerosY else none
    | _, _ => none
  | .int, [t], [e] =>
    match lv t, numTable.lookup e with
    | some .dig, some e => some (.trunc e)
    | _, _ => none
  | .node, [t], [e, k, a1, a2] =>
    match lv t, lv e, attrTable.lookup k, lv a1, lv a2 with
    | some (.int tl), some .dig, some .n, some (.arr au), some (.arr av) => some (.node tl au av)
    | _, _, _, _, _ => none
  | .numbr, [t1, t2, t3], [a1, a2] =>
    match lv t1, lv t2, lv t3, lv a1, lv a2 with
    | some .dig, some (.int tl), some (.arr tv), some (.arr au), some (.arr av) => if tv = av then some (.numbr tl au av) else none
    | _, _, _, _, _ => none
  | _, _, _ => none

/-- `target = value` (`value` not a call): the table for the right-hand side is chosen by the kind of the target -/
def resolveAssign (t v : String) : Option RStmt :=
  match lv t with
  | some (.num tx) => (numTable.lookup v).map (.setNum tx)
  | some (.int tx) => (intTable.lookup v).map (.setInt tx)
  | some .dig => (digTable.lookup v).map .setDig
  | some (.elem a i) => (intTable.lookup v).map (.setElem a i)
  | some (.yElem i) => (numTable.lookup v).map (.setY i)
  | _ => none

mutual
def resolveS : Stmt → Option RStmt
  | .assign t v => resolveAssign t v
  | .call ts callee args =>
    match primTable.lookup callee with
    | some p => resolveCall p ts args
    | none => none
  | .ite c thn els =>
    match condTable.lookup c, resolveL thn, resolveL els with
    | some c, some thn, some els => some (.ite c thn els)
    | _, _, _ => none
  | .forEach v coll body =>
    match lv v, collTable.lookup coll, resolveL body with
    | some (.int tx), some c, some body => some (.for tx c body)
    | _, _, _ => none
  | .ret v => (retTable.lookup v).map .ret
  | .forRange _ _ _ => none
  | .while _ _ => none
  | .tryExcept _ _ _ => none
  | .other _ => none

def resolveL : List Stmt → Option (List RStmt)
  | [] => some []
  | s :: rest =>
    match resolveS s, resolveL rest with
    | some s, some rest => some (s :: rest)
    | _, _ => none
end

/-! ### pass 2: execution -/

/-- an integer used as a number -/
def ofInt : Int → α
  | .ofNat k => (k : α)
  | .negSucc k => -((k + 1 : Nat) : α)

def evalIdx (st : LState α) : Idx → Option Nat
  | .zero => some 0
  | .var v =>
    match st.int v with
    | some k => if 0 ≤ k then some k.toNat else none
    | none => none

def evalI (st : LState α) : IExpr → Option Int
  | .lit k => some k
  | .var v => st.int v
  | .elem a i =>
    match st.arr a, evalIdx st i with
    | some l, some k => l[k]?
    | _, _ => none
  | .mul a b =>
    match evalI st a, evalI st b with
    | some x, some y => some (x * y)
    | _, _ => none
  | .neg a =>
    match evalI st a with
    | some x => some (-x)
    | none => none

def evalN (st : LState α) : NExpr → Option α
  | .zero => some 0
  | .half => some Ev.half
  | .one => some 1
  | .var v => st.num v
  | .nexp => some st.nexp
  | .yElem i =>
    match evalIdx st i with
    | some k => st.y[k]?
    | none => none
  | .ofInt e =>
    match evalI st e with
    | some k => some (ofInt k)
    | none => none
  | .dig =>
    match st.iis with
    | some k => some (k : α)
    | none => none
  | .add a b =>
    match evalN st a, evalN st b with
    | some x, some y => some (x + y)
    | _, _ => none
  | .sub a b =>
    match evalN st a, evalN st b with
    | some x, some y => some (x - y)
    | _, _ => none
  | .mul a b =>
    match evalN st a, evalN st b with
    | some x, some y => some (x * y)
    | _, _ => none
  | .div a b =>
    match evalN st a, evalN st b with
    | some x, some y => some (x / y)
    | _, _ => none

def evalD (st : LState α) : DExpr → Nat
  | .last => 2 ^ st.n - 1

def evalC (st : LState α) : Cond → Option Bool
  | .nIsOne => some (st.n == 1)
  | .ge a b =>
    match evalN st a, evalN st b with
    | some x, some y => some (decide (y ≤ x))
    | _, _ => none
  | .lt a b =>
    match evalN st a, evalN st b with
    | some x, some y => some (decide (x < y))
    | _, _ => none
  | .ieq a b =>
    match evalI st a, evalI st b with
    | some x, some y => some (x == y)
    | _, _ => none

/-- what a `return` hands out -/
inductive Out (α : Type) where
  /-- the scratch array `self.yValues` itself -/
  | yRef
  /-- a new array with this content -/
  | copy (c : List α)
  | num (x : α)
  /-- fell off the end -/
  | unit
deriving DecidableEq

/-- outcome of a statement (list) -/
inductive Res (α : Type) where
  | normal (st : LState α)
  | returned (st : LState α) (out : Out α)
  | stuck

def collRange (st : LState α) : Coll → List Nat
  | .rangeN => List.range st.n
  | .rangeM => List.range st.m

/-- `for v in <list of integers>` -/
def forLoop : List Nat → (Nat → LState α → Res α) → LState α → Res α
  | [], _, st => .normal st
  | i :: is, b, st =>
    match b i st with
    | .normal st' => forLoop is b st'
    | o => o

/-- the statements without sub-statements -/
def execSimple : RStmt → LState α → Res α
  | .setNum v e, st =>
    match evalN st e with
    | some a => .normal (st.setNum v a)
    | none => .stuck
  | .setInt v e, st =>
    match evalI st e with
    | some k => .normal (st.setInt v k)
    | none => .stuck
  | .setDig e, st => .normal (st.setDig (evalD st e))
  | .setElem a i e, st =>
    match evalI st e, st.arr a, evalIdx st i with
    | some x, some l, some k => if k < l.length then .normal (st.setArr a (l.set k x)) else .stuck
    | _, _, _ => .stuck
  | .setY i e, st =>
    match evalN st e, evalIdx st i with
    | some x, some k => if k < st.y.length then .normal (st.setY (st.y.set k x)) else .stuck
    | _, _ => .stuck
  | .ones a, st => .normal (st.setArr a (List.replicate st.n 1))
  | .zerosInt a, st => .normal (st.setArr a (List.replicate st.n 0))
  | .zerosY, st => .normal (st.setY (List.replicate st.n 0))
  | .trunc e, st =>
    match evalN st e with
    | some a => .normal (st.setDig (TruncNat.toNat a))
    | none => .stuck
  | .node tl au av, st =>
    match st.iis, st.arr au, st.arr av with
    | some d, some a, some b =>
      if au ≠ av ∧ a.length = st.n ∧ b.length = st.n then
        let r := Ev.node st.n d
        .normal (((st.setInt tl r.1).setArr au r.2.1).setArr av r.2.2)
      else .stuck
    | _, _, _ => .stuck
  | .numbr tl au av, st =>
    match st.arr au, st.arr av with
    | some a, some b =>
      if au ≠ av ∧ a.length = st.n ∧ b.length = st.n then
        let r := Ev.numbr st.n a
        .normal (((st.setDig r.1).setInt tl r.2.1).setArr av r.2.2)
      else .stuck
    | _, _ => .stuck
  | .ret .yRef, st => .returned st .yRef
  | .ret .yCopy, st => .returned st (.copy st.y)
  | .ret (.num v), st =>
    match st.num v with
    | some a => .returned st (.num a)
    | none => .stuck
  | .ite _ _ _, _ => .stuck
  | .for _ _ _, _ => .stuck

mutual
def execS : RStmt → LState α → Res α
  | .ite c thn els, st =>
    match evalC st c with
    | some true => execL thn st
    | some false => execL els st
    | none => .stuck
  | .for v c body, st => forLoop (collRange st c) (fun i s => execL body (s.setInt v i)) st
  | s, st => execSimple s st

/-- a statement list: stops at the first outcome that is not `normal` -/
def execL : List RStmt → LState α → Res α
  | [], st => .normal st
  | s :: rest, st =>
    match execS s st with
    | .normal st' => execL rest st'
    | o => o
end

/-- bind the numeric arguments to the parameters, in order; the first parameter must be `self` -/
def bindArgs : List String → List α → LState α → Option (LState α)
  | [], [], st => some st
  | p :: ps, a :: as, st =>
    match paramTable.lookup p with
    | some v => bindArgs ps as (st.setNum v a)
    | none => none
  | _, _, _ => none

def bindParams (params : List String) (args : List α) (st : LState α) : Option (LState α) :=
  match params with
  | "self" :: ps => bindArgs ps args st
  | _ => none

/-- run a method body on an object with `numberOfFloatVariables = n`, `evolventDensity = m`, `nexpExtended = nexp` and
`self.yValues` holding `y`; the result is the final content of `self.yValues` and what was returned; `none` = stuck -/
def run (params : List String) (body : List Stmt) (n m : Nat) (nexp : α) (y : List α) (args : List α) :
    Option (List α × Out α) :=
  match bindParams params args { n := n, m := m, nexp := nexp, y := y }, resolveL body with
  | some st, some b =>
    match execL b st with
    | .normal st' => some (st'.y, .unit)
    | .returned st' out => some (st'.y, out)
    | .stuck => none
  | _, _ => none

end EvLoop
end
