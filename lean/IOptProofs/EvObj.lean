import IOptModel.EvObj
/-!
# Heap lemmas and single-call facts for the `Evolvent` object model (`IOptModel/EvObj.lean`)

Helper file for `IOptProps/C17.lean` (evolvent queries are pure).  Only core Lean is used.

* `Heap.size`, `read`/`write`/`alloc` algebra.
* `EvObj.step_*` : facts about ONE call of `EvObj.step`, phrased with raw refs (`h.size`,
  `o.scratch`) and no further vocabulary:
  sizes, freshness of the allocated refs, honesty of the `wrote`/`allocated` reports, the frame
  property (`step_read_of_ne_scratch`), the output values, the length of the scratch array.
* `EvObj.stepNoCopy` : the NEGATIVE control — `GetImage` for `N = 1` WITHOUT the final `np.copy`
  (`return self.yValues`), used in `IOptProps/C17.lean` to show that the frame theorem is not vacuous.
-/

set_option linter.unusedSectionVars false

/-- induction on a list from the right (appending one element) -/
theorem EvObj.list_snoc_induction {β : Type} {motive : List β → Prop} (nil : motive [])
    (snoc : ∀ (l : List β) (a : β), motive l → motive (l ++ [a])) : ∀ l, motive l := by
  intro l
  have h : ∀ l : List β, motive l.reverse := by
    intro l
    induction l with
    | nil => exact nil
    | cons a l ih => rw [List.reverse_cons]; exact snoc _ _ ih
  have := h l.reverse
  rwa [List.reverse_reverse] at this

namespace Heap
variable {α : Type}

/-- number of arrays in the heap; valid refs are exactly the `r < h.size` -/
def size (h : Heap α) : Nat := h.cells.size

@[simp] theorem size_write (h : Heap α) (r : Nat) (v : List α) : (h.write r v).size = h.size := by
  simp [size, write]

@[simp] theorem size_alloc (h : Heap α) (v : List α) : (h.alloc v).1.size = h.size + 1 := by
  simp [size, alloc]

@[simp] theorem alloc_snd (h : Heap α) (v : List α) : (h.alloc v).2 = h.size := rfl

theorem read_write_same (h : Heap α) {r : Nat} (v : List α) (hr : r < h.size) :
    (h.write r v).read r = v := by
  simp only [size] at hr
  simp [read, write, hr]

theorem read_write_ne (h : Heap α) {r r' : Nat} (v : List α) (hne : r' ≠ r) :
    (h.write r v).read r' = h.read r' := by
  have : r ≠ r' := fun e => hne e.symm
  simp [read, write, Array.getElem?_setIfInBounds_ne, this]

theorem read_alloc_new (h : Heap α) (v : List α) : (h.alloc v).1.read h.size = v := by
  simp [read, alloc, size]

theorem read_alloc_ne (h : Heap α) (v : List α) {r : Nat} (hne : r ≠ h.size) :
    (h.alloc v).1.read r = h.read r := by
  simp only [size] at hne
  simp only [read, alloc, Array.getElem?_push]
  rw [if_neg hne]

theorem read_alloc_old (h : Heap α) (v : List α) {r : Nat} (hr : r < h.size) :
    (h.alloc v).1.read r = h.read r :=
  read_alloc_ne h v (Nat.ne_of_lt hr)

theorem read_of_size_le (h : Heap α) {r : Nat} (hr : h.size ≤ r) : h.read r = [] := by
  simp only [size] at hr
  simp [read, Array.getElem?_eq_none hr]

end Heap

section
variable {α : Type} [Add α] [Sub α] [Mul α] [Div α] [Neg α] [LT α] [LE α]
  [DecidableLT α] [DecidableLE α] [OfNat α 0] [OfNat α 1] [OfNat α 2] [NatCast α] [TruncNat α]

namespace Ev

theorem length_p2d (lower upper y : List α) :
    (p2d lower upper y).length = min y.length (min lower.length upper.length) := by
  simp [p2d]

theorem length_d2p (lower upper y : List α) :
    (d2p lower upper y).length = min y.length (min lower.length upper.length) := by
  simp [d2p]

theorem imageCube_one (m : Nat) (x : α) : imageCube 1 m x = [x - half] := by
  simp [imageCube]

end Ev

namespace EvObj

/-! ## `init` -/

theorem init_heap (h : Heap α) (n m lo hi : Nat) :
    (init h n m lo hi).1 = (h.alloc (List.replicate n 0)).1 := rfl

theorem init_obj (h : Heap α) (n m lo hi : Nat) :
    (init h n m lo hi).2 =
      { n := n, m := m, lower := (h.alloc (List.replicate n 0)).1.read lo,
        upper := (h.alloc (List.replicate n 0)).1.read hi, scratch := h.size } := rfl

/-! ## explicit form of `step`, one lemma per branch -/

theorem step_image_one (h : Heap α) (o : Obj α) (x : α) (hn : o.n = 1) :
    step h o (.image x) =
      let y0 := (h.read o.scratch).set 0 (x - Ev.half)
      let h2 := (h.write o.scratch y0).write o.scratch (Ev.p2d o.lower o.upper y0)
      { heap := (h2.alloc (h2.read o.scratch)).1, obj := o, out := .array h2.size,
        wrote := [o.scratch], allocated := [h2.size] } := by
  simp [step, hn, Heap.alloc, Heap.size]

theorem step_image_ne_one (h : Heap α) (o : Obj α) (x : α) (hn : o.n ≠ 1) :
    step h o (.image x) =
      let h1 := (h.alloc (List.replicate o.n 0)).1
      let s := h.size
      let cube := Ev.imageCube o.n o.m x
      let h3 := (h1.write s cube).write s (Ev.p2d o.lower o.upper cube)
      { heap := (h3.alloc (h3.read s)).1, obj := { o with scratch := s }, out := .array h3.size,
        wrote := [s], allocated := [s, h3.size] } := by
  simp [step, hn, Heap.alloc, Heap.size]

theorem step_inverse (h : Heap α) (o : Obj α) (arg : Nat) :
    step h o (.inverse arg) =
      let h1 := (h.alloc (h.read arg)).1
      let s := h.size
      let cube := Ev.d2p o.lower o.upper (h1.read s)
      { heap := h1.write s cube, obj := { o with scratch := s },
        out := .number (Ev.inverseCube o.n o.m cube), wrote := [s], allocated := [s] } := rfl

/-- `GetPreimages` is literally the same code as `GetInverseImage` -/
theorem step_preimages (h : Heap α) (o : Obj α) (arg : Nat) :
    step h o (.preimages arg) = step h o (.inverse arg) := rfl

theorem step_setBounds (h : Heap α) (o : Obj α) (lo hi : Nat) :
    step h o (.setBounds lo hi) =
      { heap := h, obj := { o with lower := h.read lo, upper := h.read hi }, out := .unit,
        wrote := [], allocated := [] } := rfl

/-! ## facts about one call -/

/-- case analysis on a call: `N = 1` image, `N ≠ 1` image, inverse, setBounds (`preimages` reduces
to `inverse`) -/
theorem step_cases {P : Op α → Prop} (o : Obj α) (op : Op α)
    (h1 : ∀ x, o.n = 1 → P (.image x)) (h2 : ∀ x, o.n ≠ 1 → P (.image x))
    (h3 : ∀ a, P (.inverse a)) (h3' : ∀ a, P (.preimages a)) (h4 : ∀ lo hi, P (.setBounds lo hi)) :
    P op := by
  cases op with
  | image x => by_cases hn : o.n = 1; exact h1 x hn; exact h2 x hn
  | inverse a => exact h3 a
  | preimages a => exact h3' a
  | setBounds lo hi => exact h4 lo hi

theorem step_n (h : Heap α) (o : Obj α) (op : Op α) : (step h o op).obj.n = o.n := by
  refine step_cases (P := fun op => (step h o op).obj.n = o.n) o op ?_ ?_ ?_ ?_ ?_
  · intro x hn; rw [step_image_one h o x hn]
  · intro x hn; rw [step_image_ne_one h o x hn]
  · intro a; rfl
  · intro a; rfl
  · intro lo hi; rfl

theorem step_m (h : Heap α) (o : Obj α) (op : Op α) : (step h o op).obj.m = o.m := by
  refine step_cases (P := fun op => (step h o op).obj.m = o.m) o op ?_ ?_ ?_ ?_ ?_
  · intro x hn; rw [step_image_one h o x hn]
  · intro x hn; rw [step_image_ne_one h o x hn]
  · intro a; rfl
  · intro a; rfl
  · intro lo hi; rfl

/-- the private bounds change only in `SetBounds`, which copies the CURRENT contents of its
arguments -/
theorem step_bounds (h : Heap α) (o : Obj α) (op : Op α) :
    ((step h o op).obj.lower, (step h o op).obj.upper) =
      match op with
      | .setBounds lo hi => (h.read lo, h.read hi)
      | _ => (o.lower, o.upper) := by
  refine step_cases (P := fun op => ((step h o op).obj.lower, (step h o op).obj.upper) =
      match op with
      | .setBounds lo hi => (h.read lo, h.read hi)
      | _ => (o.lower, o.upper)) o op ?_ ?_ ?_ ?_ ?_
  · intro x hn; rw [step_image_one h o x hn]
  · intro x hn; rw [step_image_ne_one h o x hn]
  · intro a; rfl
  · intro a; rfl
  · intro lo hi; rfl

/-- the heap only grows -/
theorem step_size_le (h : Heap α) (o : Obj α) (op : Op α) : h.size ≤ (step h o op).heap.size := by
  refine step_cases (P := fun op => h.size ≤ (step h o op).heap.size) o op ?_ ?_ ?_ ?_ ?_
  · intro x hn; rw [step_image_one h o x hn]; simp
  · intro x hn; rw [step_image_ne_one h o x hn]; simp; omega
  · intro a; rw [step_inverse]; simp
  · intro a; rw [step_preimages, step_inverse]; simp
  · intro lo hi; rw [step_setBounds]; exact Nat.le_refl _

/-- every ref reported as allocated is fresh (did not exist before the call, exists after it) -/
theorem step_allocated_fresh (h : Heap α) (o : Obj α) (op : Op α) :
    ∀ r ∈ (step h o op).allocated, h.size ≤ r ∧ r < (step h o op).heap.size := by
  refine step_cases (P := fun op => ∀ r ∈ (step h o op).allocated,
    h.size ≤ r ∧ r < (step h o op).heap.size) o op ?_ ?_ ?_ ?_ ?_
  · intro x hn; rw [step_image_one h o x hn]; simp
  · intro x hn; rw [step_image_ne_one h o x hn]; simp; omega
  · intro a; rw [step_inverse]; simp
  · intro a; rw [step_preimages, step_inverse]; simp
  · intro lo hi; rw [step_setBounds]; simp

/-- every ref reported as written is the object's scratch array before the call, or was
allocated by this very call -/
theorem step_wrote (h : Heap α) (o : Obj α) (op : Op α) :
    ∀ r ∈ (step h o op).wrote, r = o.scratch ∨ r ∈ (step h o op).allocated := by
  refine step_cases (P := fun op => ∀ r ∈ (step h o op).wrote,
    r = o.scratch ∨ r ∈ (step h o op).allocated) o op ?_ ?_ ?_ ?_ ?_
  · intro x hn; rw [step_image_one h o x hn]; simp
  · intro x hn; rw [step_image_ne_one h o x hn]; simp
  · intro a; rw [step_inverse]; simp
  · intro a; rw [step_preimages, step_inverse]; simp
  · intro lo hi; rw [step_setBounds]; simp

/-- every ref reported as written is the object's scratch array before or after the call -/
theorem step_wrote_scratch (h : Heap α) (o : Obj α) (op : Op α) :
    ∀ r ∈ (step h o op).wrote, r = o.scratch ∨ r = (step h o op).obj.scratch := by
  refine step_cases (P := fun op => ∀ r ∈ (step h o op).wrote,
    r = o.scratch ∨ r = (step h o op).obj.scratch) o op ?_ ?_ ?_ ?_ ?_
  · intro x hn; rw [step_image_one h o x hn]; simp
  · intro x hn; rw [step_image_ne_one h o x hn]; simp
  · intro a; rw [step_inverse]; simp
  · intro a; rw [step_preimages, step_inverse]; simp
  · intro lo hi; rw [step_setBounds]; simp

/-- the reports are honest: an array that is reported neither as written nor as allocated has the
same contents after the call -/
theorem step_read_of_not_reported (h : Heap α) (o : Obj α) (op : Op α) (r : Nat)
    (hw : r ∉ (step h o op).wrote) (ha : r ∉ (step h o op).allocated) :
    (step h o op).heap.read r = h.read r := by
  revert hw ha
  refine step_cases (P := fun op => r ∉ (step h o op).wrote → r ∉ (step h o op).allocated →
    (step h o op).heap.read r = h.read r) o op ?_ ?_ ?_ ?_ ?_
  · intro x hn; rw [step_image_one h o x hn]
    simp only [List.mem_singleton, Heap.size_write]
    intro hw ha
    rw [Heap.read_alloc_ne _ _ (by simpa using ha), Heap.read_write_ne _ _ hw,
      Heap.read_write_ne _ _ hw]
  · intro x hn; rw [step_image_ne_one h o x hn]
    simp only [Heap.size_write, Heap.size_alloc, List.mem_cons, List.not_mem_nil,
      or_false, not_or]
    intro hw ha
    rw [Heap.read_alloc_ne _ _ (by simpa using ha.2), Heap.read_write_ne _ _ hw,
      Heap.read_write_ne _ _ hw, Heap.read_alloc_ne _ _ hw]
  · intro a; rw [step_inverse]
    simp only [List.mem_singleton]
    intro hw _
    rw [Heap.read_write_ne _ _ hw, Heap.read_alloc_ne _ _ hw]
  · intro a; rw [step_preimages, step_inverse]
    simp only [List.mem_singleton]
    intro hw _
    rw [Heap.read_write_ne _ _ hw, Heap.read_alloc_ne _ _ hw]
  · intro lo hi; rw [step_setBounds]; intro _ _; rfl

/-- FRAME: a call changes no pre-existing array other than the scratch array -/
theorem step_read_of_ne_scratch (h : Heap α) (o : Obj α) (op : Op α) {r : Nat}
    (hr : r < h.size) (hne : r ≠ o.scratch) : (step h o op).heap.read r = h.read r := by
  apply step_read_of_not_reported
  · intro hw
    rcases step_wrote h o op r hw with e | ha
    · exact hne e
    · have := (step_allocated_fresh h o op r ha).1; omega
  · intro ha
    have := (step_allocated_fresh h o op r ha).1; omega

/-- the scratch ref after the call is the old one or a fresh one -/
theorem step_scratch (h : Heap α) (o : Obj α) (op : Op α) :
    (step h o op).obj.scratch = o.scratch ∨
      (h.size ≤ (step h o op).obj.scratch ∧ (step h o op).obj.scratch < (step h o op).heap.size) := by
  refine step_cases (P := fun op => (step h o op).obj.scratch = o.scratch ∨
      (h.size ≤ (step h o op).obj.scratch ∧ (step h o op).obj.scratch < (step h o op).heap.size))
    o op ?_ ?_ ?_ ?_ ?_
  · intro x hn; rw [step_image_one h o x hn]; simp
  · intro x hn; rw [step_image_ne_one h o x hn]; simp; omega
  · intro a; rw [step_inverse]; simp
  · intro a; rw [step_preimages, step_inverse]; simp
  · intro lo hi; rw [step_setBounds]; simp

/-- the scratch ref after the call is the old one or one allocated by this very call -/
theorem step_scratch_alloc (h : Heap α) (o : Obj α) (op : Op α) :
    (step h o op).obj.scratch = o.scratch ∨ (step h o op).obj.scratch ∈ (step h o op).allocated := by
  refine step_cases (P := fun op => (step h o op).obj.scratch = o.scratch ∨
      (step h o op).obj.scratch ∈ (step h o op).allocated) o op ?_ ?_ ?_ ?_ ?_
  · intro x hn; rw [step_image_one h o x hn]; simp
  · intro x hn; rw [step_image_ne_one h o x hn]; simp
  · intro a; rw [step_inverse]; simp
  · intro a; rw [step_preimages, step_inverse]; simp
  · intro lo hi; rw [step_setBounds]; simp

/-- a returned array is fresh and is NOT the scratch array (`np.copy`) -/
theorem step_out_array (h : Heap α) (o : Obj α) (op : Op α) {r : Nat}
    (hs : o.scratch < h.size) (ho : (step h o op).out = .array r) :
    h.size ≤ r ∧ r < (step h o op).heap.size ∧ r ≠ (step h o op).obj.scratch := by
  revert ho
  refine step_cases (P := fun op => (step h o op).out = .array r →
    h.size ≤ r ∧ r < (step h o op).heap.size ∧ r ≠ (step h o op).obj.scratch) o op ?_ ?_ ?_ ?_ ?_
  · intro x hn; rw [step_image_one h o x hn]
    simp only [Heap.size_write, Out.array.injEq, Heap.size_alloc]
    intro e; subst e; omega
  · intro x hn; rw [step_image_ne_one h o x hn]
    simp only [Heap.size_write, Out.array.injEq, Heap.size_alloc]
    intro e; subst e; omega
  · intro a; rw [step_inverse]; intro e; cases e
  · intro a; rw [step_preimages, step_inverse]; intro e; cases e
  · intro lo hi; rw [step_setBounds]; intro e; cases e

/-! ## output values -/

/-- `GetImage`, `N = 1` (in place on the existing scratch array, which must have one element) -/
theorem step_image_value_one (h : Heap α) (o : Obj α) (x : α) (hn : o.n = 1)
    (hs : o.scratch < h.size) (hl : (h.read o.scratch).length = 1) :
    (step h o (.image x)).out = .array h.size ∧
      (step h o (.image x)).heap.read h.size = Ev.getImage o.n o.m o.lower o.upper x := by
  rw [step_image_one h o x hn]
  simp only [Heap.size_write, true_and]
  have hs1 : o.scratch < (h.write o.scratch ((h.read o.scratch).set 0 (x - Ev.half))).size := by
    simpa using hs
  have e := Heap.read_alloc_new ((h.write o.scratch ((h.read o.scratch).set 0 (x - Ev.half))).write
    o.scratch (Ev.p2d o.lower o.upper ((h.read o.scratch).set 0 (x - Ev.half))))
  simp only [Heap.size_write] at e
  rw [e, Heap.read_write_same _ _ hs1, Ev.getImage, hn, Ev.imageCube_one]
  generalize h.read o.scratch = v at hl
  match v, hl with
  | [a], _ => rfl

/-- `GetImage`, `N ≠ 1` (fresh scratch array) -/
theorem step_image_value_ne_one (h : Heap α) (o : Obj α) (x : α) (hn : o.n ≠ 1) :
    (step h o (.image x)).out = .array (h.size + 1) ∧
      (step h o (.image x)).heap.read (h.size + 1) = Ev.getImage o.n o.m o.lower o.upper x := by
  rw [step_image_ne_one h o x hn]
  simp only [Heap.size_write, Heap.size_alloc, true_and]
  have hs1 : h.size < ((h.alloc (List.replicate o.n 0)).1.write h.size
      (Ev.imageCube o.n o.m x)).size := by simp
  have e := Heap.read_alloc_new (((h.alloc (List.replicate o.n 0)).1.write h.size
    (Ev.imageCube o.n o.m x)).write h.size (Ev.p2d o.lower o.upper (Ev.imageCube o.n o.m x)))
  simp only [Heap.size_write, Heap.size_alloc] at e
  rw [e, Heap.read_write_same _ _ hs1, Ev.getImage]

/-- `GetImage`, every `N` -/
theorem step_image_value (h : Heap α) (o : Obj α) (x : α)
    (hs : o.scratch < h.size) (hl : o.n = 1 → (h.read o.scratch).length = 1) :
    ∃ r, (step h o (.image x)).out = .array r ∧
      (step h o (.image x)).heap.read r = Ev.getImage o.n o.m o.lower o.upper x := by
  by_cases hn : o.n = 1
  · exact ⟨_, step_image_value_one h o x hn hs (hl hn)⟩
  · exact ⟨_, step_image_value_ne_one h o x hn⟩

/-- `GetInverseImage` -/
theorem step_inverse_value (h : Heap α) (o : Obj α) (arg : Nat) :
    (step h o (.inverse arg)).out =
      .number (Ev.getInverseImage o.n o.m o.lower o.upper (h.read arg)) := by
  rw [step_inverse]
  simp only [Heap.read_alloc_new, Ev.getInverseImage]

/-- `GetPreimages` -/
theorem step_preimages_value (h : Heap α) (o : Obj α) (arg : Nat) :
    (step h o (.preimages arg)).out =
      .number (Ev.getInverseImage o.n o.m o.lower o.upper (h.read arg)) := by
  rw [step_preimages, step_inverse_value]

/-! ## the scratch array keeps one element when `N = 1` -/

theorem step_scratch_len (h : Heap α) (o : Obj α) (op : Op α) (hn : o.n = 1)
    (hs : o.scratch < h.size) (hlo : o.lower.length = 1) (hup : o.upper.length = 1)
    (hl : (h.read o.scratch).length = 1)
    (harg : ∀ a, op = .inverse a ∨ op = .preimages a → (h.read a).length = 1) :
    ((step h o op).heap.read (step h o op).obj.scratch).length = 1 := by
  cases op with
  | image x =>
    rw [step_image_one h o x hn]
    have hs1 : o.scratch < (h.write o.scratch ((h.read o.scratch).set 0 (x - Ev.half))).size := by
      simpa using hs
    show ((Heap.alloc _ _).1.read o.scratch).length = 1
    rw [Heap.read_alloc_old _ _ (by simpa using hs), Heap.read_write_same _ _ hs1, Ev.length_p2d]
    simp [hl, hlo, hup]
  | inverse a =>
    rw [step_inverse]
    simp only [Heap.read_alloc_new]
    rw [Heap.read_write_same _ _ (by simp), Ev.length_d2p]
    simp [harg a (Or.inl rfl), hlo, hup]
  | preimages a =>
    rw [step_preimages, step_inverse]
    simp only [Heap.read_alloc_new]
    rw [Heap.read_write_same _ _ (by simp), Ev.length_d2p]
    simp [harg a (Or.inr rfl), hlo, hup]
  | setBounds lo hi => rw [step_setBounds]; exact hl

/-! ## the single-call invariant -/

/-- the refs an operation receives from the caller -/
def Op.args : Op α → List Nat
  | .image _ => []
  | .inverse a => [a]
  | .preimages a => [a]
  | .setBounds lo hi => [lo, hi]

/-- the refs an output hands to the caller -/
def Out.refs : Out α → List Nat
  | .array r => [r]
  | .number _ => []
  | .unit => []

theorem Out.mem_refs {out : Out α} {r : Nat} : r ∈ out.refs ↔ out = .array r := by
  cases out <;> simp [Out.refs, eq_comm]

/-- State invariant of an `Evolvent` object living in heap `h`, relative to
`base` (number of arrays that existed before the object was created), the dimension `n` and the
list `ret` of refs returned to the caller so far:
the scratch array is a valid ref, was allocated after the object's creation, was never returned;
every returned ref is valid; the private bounds have `n` entries; for `n = 1` the scratch array has
one entry. -/
structure Inv (base n : Nat) (ret : List Nat) (h : Heap α) (o : Obj α) : Prop where
  n_eq : o.n = n
  lower_len : o.lower.length = n
  upper_len : o.upper.length = n
  scratch_ge : base ≤ o.scratch
  scratch_lt : o.scratch < h.size
  scratch_not_ret : o.scratch ∉ ret
  ret_lt : ∀ r ∈ ret, r < h.size
  scratch_len : n = 1 → (h.read o.scratch).length = 1

/-- the invariant holds right after `__init__` -/
theorem Inv.init (h : Heap α) (n m lo hi : Nat) (hlo : lo < h.size) (hhi : hi < h.size)
    (hll : (h.read lo).length = n) (hhl : (h.read hi).length = n) :
    Inv h.size n [] (init h n m lo hi).1 (init h n m lo hi).2 := by
  rw [init_heap, init_obj]
  refine ⟨rfl, ?_, ?_, Nat.le_refl _, by simp, by simp, by simp, ?_⟩
  · show ((h.alloc _).1.read lo).length = n
    rw [Heap.read_alloc_old _ _ hlo, hll]
  · show ((h.alloc _).1.read hi).length = n
    rw [Heap.read_alloc_old _ _ hhi, hhl]
  · intro hn
    show ((h.alloc _).1.read h.size).length = 1
    rw [Heap.read_alloc_new]; simp [hn]

/-- the private bounds right after `__init__` are the contents of the two arrays -/
theorem init_bounds (h : Heap α) (n m lo hi : Nat) (hlo : lo < h.size) (hhi : hi < h.size) :
    ((init h n m lo hi).2.lower, (init h n m lo hi).2.upper) = (h.read lo, h.read hi) := by
  rw [init_obj]
  show ((h.alloc _).1.read lo, (h.alloc _).1.read hi) = _
  rw [Heap.read_alloc_old _ _ hlo, Heap.read_alloc_old _ _ hhi]

/-- one call preserves the invariant, provided every argument ref is an array that existed before
the object was created or was returned earlier, and has `n` entries -/
theorem Inv.step {base n : Nat} {ret : List Nat} {h : Heap α} {o : Obj α}
    (hi : Inv base n ret h o) (op : Op α)
    (hargs : ∀ r ∈ op.args, (r < base ∨ r ∈ ret) ∧ (h.read r).length = n) :
    Inv base n (ret ++ (step h o op).out.refs) (step h o op).heap (step h o op).obj := by
  have hsz := step_size_le h o op
  have hsc := step_scratch h o op
  refine ⟨?_, ?_, ?_, ?_, ?_, ?_, ?_, ?_⟩
  · rw [step_n]; exact hi.n_eq
  · have hb := step_bounds h o op
    cases op with
    | setBounds lo hi' =>
      have := congrArg Prod.fst hb
      simp only at this
      rw [this]; exact (hargs lo (by simp [Op.args])).2
    | image x => have := congrArg Prod.fst hb; simp only at this; rw [this]; exact hi.lower_len
    | inverse a => have := congrArg Prod.fst hb; simp only at this; rw [this]; exact hi.lower_len
    | preimages a => have := congrArg Prod.fst hb; simp only at this; rw [this]; exact hi.lower_len
  · have hb := step_bounds h o op
    cases op with
    | setBounds lo hi' =>
      have := congrArg Prod.snd hb
      simp only at this
      rw [this]; exact (hargs hi' (by simp [Op.args])).2
    | image x => have := congrArg Prod.snd hb; simp only at this; rw [this]; exact hi.upper_len
    | inverse a => have := congrArg Prod.snd hb; simp only at this; rw [this]; exact hi.upper_len
    | preimages a => have := congrArg Prod.snd hb; simp only at this; rw [this]; exact hi.upper_len
  · rcases hsc with e | ⟨h1, _⟩
    · rw [e]; exact hi.scratch_ge
    · have := hi.scratch_ge; have := hi.scratch_lt; omega
  · rcases hsc with e | ⟨_, h2⟩
    · rw [e]; have := hi.scratch_lt; omega
    · exact h2
  · intro hmem
    rcases List.mem_append.1 hmem with hm | hm
    · rcases hsc with e | ⟨h1, _⟩
      · rw [e] at hm; exact hi.scratch_not_ret hm
      · have := hi.ret_lt _ hm; omega
    · exact (step_out_array h o op hi.scratch_lt (Out.mem_refs.1 hm)).2.2 rfl
  · intro r hmem
    rcases List.mem_append.1 hmem with hm | hm
    · have := hi.ret_lt _ hm; omega
    · exact (step_out_array h o op hi.scratch_lt (Out.mem_refs.1 hm)).2.1
  · intro hn
    have hn1 : o.n = 1 := by rw [hi.n_eq, hn]
    apply step_scratch_len h o op hn1 hi.scratch_lt (by rw [hi.lower_len, hn])
      (by rw [hi.upper_len, hn]) (hi.scratch_len hn)
    intro a ha
    rw [← hn]
    rcases ha with e | e <;> subst e <;> exact (hargs a (by simp [Op.args])).2

/-- under the invariant, a ref the caller can name (existing before the object was created, or
returned earlier) is valid and is not the scratch array -/
theorem Inv.known {base n : Nat} {ret : List Nat} {h : Heap α} {o : Obj α}
    (hi : Inv base n ret h o) {r : Nat} (hr : r < base ∨ r ∈ ret) :
    r < h.size ∧ r ≠ o.scratch := by
  have := hi.scratch_ge; have := hi.scratch_lt
  rcases hr with hr | hr
  · omega
  · exact ⟨hi.ret_lt r hr, fun e => hi.scratch_not_ret (e ▸ hr)⟩

/-! ## negative control: `GetImage` without the final `np.copy` -/

/-- `step` with `GetImage` changed to `return self.yValues` (no `np.copy`) when `N = 1`: the
returned ref IS the scratch ref.  NOT the model of the library; used only to show that the frame
theorem of `IOptProps/C17.lean` can fail for a different implementation. -/
def stepNoCopy (h : Heap α) (o : Obj α) : Op α → StepResult α
  | .image x =>
    if o.n == 1 then
      let y0 := (h.read o.scratch).set 0 (x - Ev.half)
      let h1 := h.write o.scratch y0
      let h2 := h1.write o.scratch (Ev.p2d o.lower o.upper y0)
      { heap := h2, obj := o, out := .array o.scratch, wrote := [o.scratch], allocated := [] }
    else step h o (.image x)
  | op => step h o op

end EvObj
end
