import IOptProofs.S3Defs
/-! kernel-evaluated certificates of StronginC3: value clause, global clause, location clause, metadata row -/
namespace S3
set_option maxRecDepth 100000
theorem certV_true : certV = true := by decide +kernel
theorem certG_true : certG = true := by decide +kernel
theorem certP_true : certP = true := by decide +kernel

/-- the certified lower bound of `(A+B)(w)` exceeds the certified upper bound of `(A+B)(p)`: `f(w) < f(p)` -/
theorem certW_true : Nat.blt (ub PX (Nat.add PX 1) PY (Nat.add PY 1)) (lbA WX WX WY WY) = true := by decide +kernel

/-- the doubles `0.0`, `-1.0`, `4.0`, `3.0` -/
def dy0 : Dy := Dy.ofBits 0
def dyM1 : Dy := Dy.ofBits 0xbff0000000000000
def dy4 : Dy := Dy.ofBits 0x4010000000000000
def dy3 : Dy := Dy.ofBits 0x4008000000000000

/-- what the metadata row (read from the running `StronginC3()` object) declares -/
theorem metaRow_spec :
    metaRow.family = 7 ∧ metaRow.dimension = 2 ∧ metaRow.nFloat = 2 ∧ metaRow.nObjectives = 1 ∧
    metaRow.nConstraints = 3 ∧ metaRow.nOptima = 1 ∧
    metaRow.lower = [dy0, dyM1] ∧ metaRow.upper = [dy4, dy3] ∧
    metaRow.optPoint = [pD, pD] ∧ metaRow.optValue = vD := by decide +kernel

/-- the last row is the only row of family code 7 -/
theorem family7_rows : famRows 7 Gen.metaRowsPacked.toList 1000000 = [Gen.metaRowsPacked.back!] := by
  decide +kernel

theorem metaRows_length_le : Gen.metaRowsPacked.toList.length ≤ 1000000 := by decide +kernel

theorem lits_lengths : Gen.S3.objectiveLits.length = 9 ∧ Gen.S3.constraint0Lits.length = 6 ∧
    Gen.S3.constraint1Lits.length = 8 ∧ Gen.S3.constraint2Lits.length = 5 := by decide

end S3
