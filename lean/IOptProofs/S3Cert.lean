import IOptProofs.S3Defs
/-! kernel-evaluated certificates of StronginC3: value clause, global clause, location clause -/
namespace S3
set_option maxRecDepth 100000
theorem certV_true : certV = true := by decide +kernel
theorem certG_true : certG = true := by decide +kernel
theorem certP_true : certP = true := by decide +kernel
end S3
