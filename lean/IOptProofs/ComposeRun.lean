import IOptProofs.MethodProc
import IOptProofs.ProcessBatch
import IOptProofs.ProcessStop
/-!
# Compositions (worker m), part 3: the canonical sequence `iterN` from a reachable process state

Over an ordered field with the laws of the library functions, `1 < r`, `0 < n`: the states of the
canonical sequence are reachable (`ProcOK`), and with an objective that never raises the sequence never
ends.
-/
set_option linter.unusedSectionVars false

namespace Proc
open AGP AGP.Ctl
variable {α : Type} [Field α] [LinearOrder α] [IsStrictOrderedRing α] [Fns α]
variable {p : Params α} {f : Nat → List α → Option α}

theorem iterN_procOK {k : Nat} {ps ps' : PState α} {ids : List Nat} (h : ProcOK p ps)
    (hk : iterN p f k ps = .ok (ps', ids)) : ProcOK p ps' := by
  induction k generalizing ps ids with
  | zero => simp only [iterN, Except.ok.injEq, Prod.mk.injEq] at hk; obtain ⟨rfl, -⟩ := hk; exact h
  | succ k ih =>
    rw [iterN] at hk
    split at hk
    · cases hk
    · next ps1 id h1 =>
      split at hk
      · cases hk
      · next ps2 ids2 h2 => cases hk; exact ih (oneIteration_procOK h h1) h2

/-- with an objective that never raises the canonical sequence has every length -/
theorem iterN_total (hL : FnsLaws α) (hr : 1 < p.r) (hn : 0 < p.n) (htot : ∀ i pt, f i pt ≠ none)
    (k : Nat) {ps : PState α} (h : ProcOK p ps) : ∃ ps' ids, iterN p f k ps = .ok (ps', ids) := by
  have hra := doGlobalIteration_total hL hr hn htot k (saved := []) h
  obtain ⟨ps', ids, hi, -⟩ := doGlobalIteration_ok hra
  exact ⟨ps', ids, hi⟩

/-- splitting off the last pass of a successful run -/
theorem iterN_succ_ok {k : Nat} {ps ps' : PState α} {ids : List Nat}
    (h : iterN p f (k + 1) ps = .ok (ps', ids)) :
    ∃ psk idsk id, iterN p f k ps = .ok (psk, idsk) ∧ oneIteration p f psk = .ok (ps', id) ∧
      ids = idsk ++ [id] := by
  rw [iterN_succ'] at h
  split at h
  · cases h
  · next psk idsk hk =>
    split at h
    · cases h
    · next ps1 id h1 => cases h; exact ⟨psk, idsk, id, hk, h1, rfl⟩

/-- a successful run of length `a + b` has a successful prefix of length `a` -/
theorem iterN_prefix_ok {a b : Nat} {ps ps2 : PState α} {ids : List Nat}
    (h : iterN p f (a + b) ps = .ok (ps2, ids)) :
    ∃ ps1 ids1, iterN p f a ps = .ok (ps1, ids1) ∧ ps1.evals <+: ps2.evals := by
  rw [iterN_add] at h
  split at h
  · cases h
  · next ps1 ids1 h1 =>
    split at h
    · cases h
    · next ps2' ids2 h2 => cases h; exact ⟨ps1, ids1, h1, iterN_evals_prefix h2⟩

end Proc
