import IOptProofs.EvInterpDefs
import IOptProofs.EvObj
import IOptProps.C17
/-!
# The public methods of `Evolvent`, taken from the SOURCE TEXT, are the steps of the heap model `EvObj`

`IOptGen/EvolventCtlSrc.lean` (regenerated from `iOpt/evolvent/evolvent.py` on every run) holds the bodies of `Evolvent.__init__`,
`SetBounds`, `GetImage`, `GetInverseImage`, `GetPreimages`, `__TransformP2D`, `__TransformD2P` as statement trees.
`IOptProofs/EvInterpDefs.lean` interprets such trees, generically, on heap + object + locals, accumulating the reports `wrote` and
`allocated`.  Here, for every carrier `α` with the operator classes of the model (hence also `Float`):

* `getImage_src`, `getInverseImage_src`, `getPreimages_src`, `setBounds_src`: the interpretation of the generated tree of the method
  = `EvObj.step h o op` — the same heap, the same object (`Self.ofObj`: the model's `Obj` plus `nexpValue`, `nexpExtended`, which no
  public method touches), the same output, and EQUAL LISTS `wrote` / `allocated` (same refs, same order; the interpreter reports a ref
  written in place once, at its first write, and allocations in source order, and this is the model's bookkeeping);
* `init_src`: the generated tree of `__init__`, from an object with no attribute, = `EvObj.init`, `nexpExtended = Ev.nexp N`;
* `callOp_src`, `session_src`: under the invariant `EvObj.Inv`, resp. for every valid session `Setup.Valid` of `IOptProps/C17.lean`,
  the calls run through the generated trees are the model's `step`s, resp. the model's `s.run ops`;
* hypotheses (all part of `EvObj.Inv` / `Setup.ArgsOK`): the private bounds have at least `N` entries, the array argument of an inverse
  query has `N` entries, for `N = 1` the scratch array has one entry, the constructor's refs are valid.  They are needed: where an
  index is out of range the source raises `IndexError` (the interpreter is stuck) while the model's `zipWith` truncates
  (`Examples`, last section);
* helper facts: `Ev.length_imageCube_gen` (`__GetYonX` yields `N` coordinates for EVERY carrier), `elemLoop_zipWith` (the element-wise
  in-place loop is the model's `zipWith`), `call_p2d` / `call_d2p` (the generated trees of the two private transforms are `Ev.p2d` /
  `Ev.d2p` of the scratch array written back to the SAME ref);
* `Examples`: runs of the interpreter on the generated trees over `ℚ` (`N = 1`, `N = 2`, the two sessions of C17), and seeded edits
  (`return self.yValues`, `self.yValues = y`, `np.asarray(y)`, `SetBounds` without copies, `__TransformP2D` before `__GetYonX`, no
  `__TransformD2P`, `np.zeros` before `N` is stored, no doubling loop) on which the interpretation is stuck or is NOT the model.

Where the source does more than the model records (none of it observable through the public methods):
`__GetYonX` (`N ≥ 2`) ends with `return np.copy(self.yValues)`, an array that `GetImage` discards at once; `__GetXonY` (`N ≥ 2`) leaves
residuals in the scratch array, which is never read again before it is replaced; the bounds attributes are arrays of their own in
Python, kept by value here (see `EvInterpDefs`).  `EvObj.init` reads the two bounds arrays AFTER allocating the scratch array, the
source before: the same for valid refs.
-/

set_option linter.unusedSectionVars false

/-! ### heap algebra -/
namespace Heap
variable {α : Type}

theorem write_write (h : Heap α) (r : Nat) (a b : List α) : (h.write r a).write r b = h.write r b := by
  simp [write, Array.setIfInBounds_setIfInBounds]

theorem write_read_self (h : Heap α) {r : Nat} (hr : r < h.size) : h.write r (h.read r) = h := by
  simp only [size] at hr
  cases h with
  | mk cells =>
    simp only [write, read, Heap.mk.injEq]
    simp only at hr
    apply Array.ext
    · simp
    · intro i h1 h2
      simp only [Array.size_setIfInBounds] at h1
      by_cases e : r = i
      · subst e; simp [hr]
      · rw [Array.getElem_setIfInBounds_ne _ e]

end Heap

section
variable {α : Type} [Add α] [Sub α] [Mul α] [Div α] [Neg α] [LT α] [LE α]
  [DecidableLT α] [DecidableLE α] [OfNat α 0] [OfNat α 1] [OfNat α 2] [NatCast α] [TruncNat α]

/-! ### the length of `Ev.imageCube`, for every carrier -/
namespace Ev

theorem nodeLoop_length : ∀ (fuel i iis iff : Nat) (k1 : Int) (l : Nat) (iq : Int) (acc : List Int),
    (nodeLoop i fuel iis iff k1 l iq acc).2.2.length = acc.length + fuel := by
  intro fuel
  induction fuel with
  | zero => intro i iis iff k1 l iq acc; simp [nodeLoop]
  | succ fuel ih =>
    intro i iis iff k1 l iq acc
    rw [nodeLoop]
    simp only
    split
    · split <;> (rw [ih]; simp; omega)
    · split <;> (rw [ih]; simp; omega)

theorem node_length (n d : Nat) : (node n d).2.1.length = n ∧ (node n d).2.2.length = n := by
  unfold node
  split
  · simp
  · rename_i h0
    split
    · rename_i h1
      have hn : n ≠ 0 := by
        intro e; subst e; simp at h0 h1; omega
      simp; omega
    · have := nodeLoop_length n 0 d (2^n) (-1) 0 1 []
      simp only [List.length_set]
      simpa using this

theorem length_swap0' (l : List Int) (it : Nat) : (swap0 l it).length = l.length := by
  simp [swap0]

theorem step_length (n : Nat) (s : St) (d : Nat) (hs : s.iw.length = n) :
    (step n s d).1.iw.length = n ∧ (step n s d).2.length = n := by
  have h := node_length n d
  simp only [step, List.length_zipWith, length_swap0', h.1, h.2, hs, Nat.min_self, and_self]

theorem yLoop_length (n : Nat) (x1 : Bool) : ∀ (fuel : Nat) (d r : α) (s : St) (y : List α),
    s.iw.length = n → y.length = n → (yLoop n x1 fuel d r s y).length = n := by
  intro fuel
  induction fuel with
  | zero => intro d r s y _ hy; simpa [yLoop] using hy
  | succ fuel ih =>
    intro d r s y hs hy
    rw [yLoop]
    simp only
    apply ih
    · exact (step_length n s _ hs).1
    · rw [List.length_zipWith, hy, (step_length n s _ hs).2, Nat.min_self]

/-- `__GetYonX` yields `N` coordinates, whatever the carrier -/
theorem length_imageCube_gen (n m : Nat) (x : α) : (imageCube n m x).length = n := by
  unfold imageCube
  split
  · rename_i h; simp at h; simp [h]
  · apply yLoop_length <;> simp [St.init]

end Ev

namespace EvInterp
open EvObj Gen.ProcSrc

/-! ### the element-wise loop `for i in range(k, k+cnt): y[i] = f(y[i], lo[i], up[i])` as a pure function -/

/-- the loop on the content of the array; an index out of range stops it -/
def elemLoop (f : α → α → α → α) (lo up : List α) : Nat → Nat → List α → List α
  | _, 0, y => y
  | k, cnt+1, y =>
    match y[k]?, lo[k]?, up[k]? with
    | some a, some l, some u => elemLoop f lo up (k+1) cnt (y.set k (f a l u))
    | _, _, _ => y

theorem elemLoop_length (f : α → α → α → α) (lo up : List α) : ∀ (cnt k : Nat) (y : List α),
    (elemLoop f lo up k cnt y).length = y.length := by
  intro cnt
  induction cnt with
  | zero => intro k y; rfl
  | succ cnt ih =>
    intro k y
    rw [elemLoop]
    split
    · rw [ih, List.length_set]
    · rfl

theorem elemLoop_eq (f : α → α → α → α) (lo up : List α) : ∀ (cnt k : Nat) (y : List α),
    k + cnt = y.length → k + cnt ≤ lo.length → k + cnt ≤ up.length →
    elemLoop f lo up k cnt y =
      y.take k ++ List.zipWith (fun yi (lu : α × α) => f yi lu.1 lu.2) (y.drop k) ((lo.zip up).drop k) := by
  intro cnt
  induction cnt with
  | zero =>
    intro k y hy _ _
    have : y.length ≤ k := by omega
    simp [elemLoop, List.drop_eq_nil_of_le this, List.take_of_length_le this]
  | succ cnt ih =>
    intro k y hy hlo hup
    have hk : k < y.length := by omega
    have hkl : k < lo.length := by omega
    have hku : k < up.length := by omega
    have hkz : k < (lo.zip up).length := by simp; omega
    rw [elemLoop]
    simp only [List.getElem?_eq_getElem hk, List.getElem?_eq_getElem hkl, List.getElem?_eq_getElem hku]
    rw [ih (k+1) _ (by simp; omega) (by omega) (by omega)]
    rw [List.drop_eq_getElem_cons hk, List.drop_eq_getElem_cons hkz, List.zipWith_cons_cons]
    simp only [List.getElem_zip]
    have hl : (List.take k y).length = k := by rw [List.length_take]; omega
    rw [List.take_set, List.drop_set_of_lt (by omega), List.take_succ_eq_append_getElem hk,
      List.set_append_right k _ (Nat.le_of_eq hl), hl]
    simp

/-- the whole loop over an array with `n` entries is the `zipWith` of the model -/
theorem elemLoop_zipWith (f : α → α → α → α) (lo up y : List α) (n : Nat) (hy : y.length = n)
    (hlo : n ≤ lo.length) (hup : n ≤ up.length) :
    elemLoop f lo up 0 n y = List.zipWith (fun yi (lu : α × α) => f yi lu.1 lu.2) y (lo.zip up) := by
  rw [elemLoop_eq f lo up n 0 y (by omega) (by omega) (by omega)]
  simp

/-! ### the reports -/

theorem addOnce_nil (r : Nat) : addOnce r [] = [r] := rfl

theorem addOnce_of_mem {r : Nat} {l : List Nat} (h : r ∈ l) : addOnce r l = l := by
  simp [addOnce, h]

theorem mem_addOnce (r : Nat) (l : List Nat) : r ∈ addOnce r l := by
  unfold addOnce
  split
  · rename_i h; simpa using h
  · simp

theorem addOnce_idem (r : Nat) (l : List Nat) : addOnce r (addOnce r l) = addOnce r l :=
  addOnce_of_mem (mem_addOnce r l)

/-! ### table look-ups on the strings of the generated trees -/
theorem lk_copy : primTable.lookup "np.copy" = some .copy := by decide
theorem lk_array : primTable.lookup "np.array" = some .arrayDouble := by decide
theorem lk_zeros : primTable.lookup "np.zeros" = some .zerosDouble := by decide
theorem lk_getYonX : primTable.lookup "self.__GetYonX" = some .getYonX := by decide
theorem lk_getXonY : primTable.lookup "self.__GetXonY" = some .getXonY := by decide
theorem lk_p2d_prim : primTable.lookup "self.__TransformP2D" = none := by decide
theorem lk_d2p_prim : primTable.lookup "self.__TransformD2P" = none := by decide
theorem lk_tScratch : targetTable.lookup "self.yValues" = some .scratch := by decide
theorem lk_tLower : targetTable.lookup "self.lowerBoundOfFloatVariables" = some .lower := by decide
theorem lk_tUpper : targetTable.lookup "self.upperBoundOfFloatVariables" = some .upper := by decide
theorem lk_tX : targetTable.lookup "x" = some .localNum := by decide
theorem lk_aN : assignTargets.lookup "self.numberOfFloatVariables" = some .n := by decide
theorem lk_aM : assignTargets.lookup "self.evolventDensity" = some .m := by decide
theorem lk_aNexpValue : assignTargets.lookup "self.nexpValue" = some .nexpValue := by decide
theorem lk_aNexp : assignTargets.lookup "self.nexpExtended" = some .nexp := by decide
theorem lk_aElem : assignTargets.lookup "self.yValues[i]" = some .elem := by decide
theorem lk_coll : collTable.lookup "range(0, self.numberOfFloatVariables)" = some .rangeN := by decide
theorem lk_retCopy : retTable.lookup "np.copy(self.yValues)" = some .copyScratch := by decide
theorem lk_retX : retTable.lookup "x" = some .localNum := by decide
theorem lk_procP2D : procTable.lookup "self.__TransformP2D" =
    some (Gen.EvolventCtl.transformP2DParams, Gen.EvolventCtl.transformP2D) := by rfl
theorem lk_procD2P : procTable.lookup "self.__TransformD2P" =
    some (Gen.EvolventCtl.transformD2PParams, Gen.EvolventCtl.transformD2P) := by rfl

/-- the right-hand side of the assignment in the generated tree of `__TransformP2D` -/
def p2dExpr : String := "self.yValues[i] * (self.upperBoundOfFloatVariables[i] - self.lowerBoundOfFloatVariables[i]) + (self.upperBoundOfFloatVariables[i] + self.lowerBoundOfFloatVariables[i]) / 2"
/-- the right-hand side of the assignment in the generated tree of `__TransformD2P` -/
def d2pExpr : String := "(self.yValues[i] - (self.upperBoundOfFloatVariables[i] + self.lowerBoundOfFloatVariables[i]) / 2) / (self.upperBoundOfFloatVariables[i] - self.lowerBoundOfFloatVariables[i])"

theorem lk_p2dExpr : elemExprTable.lookup p2dExpr = some .p2d := by decide +kernel
theorem lk_d2pExpr : elemExprTable.lookup d2pExpr = some .d2p := by decide +kernel

theorem lookup_setLocal (x : String) (v : LVal α) (l : List (String × LVal α)) : (setLocal x v l).lookup x = some v := by
  simp [setLocal]

/-! ### the element-wise loop of the interpreter -/

/-- `for i in range(k, k+cnt): self.yValues[i] = expr` on a valid scratch array that is long enough: `elemLoop` written back to
the SAME ref -/
theorem elem_loop (env : ProcEnv α) (expr : String) (ex : ElemExpr)
    (hf : elemExprTable.lookup expr = some ex) (s : Nat) (lo up : List α) :
    ∀ (cnt k : Nat) (st : IState α), st.self.scratch = some s → st.self.lower = some lo → st.self.upper = some up →
      s < st.heap.size → k + cnt ≤ (st.heap.read s).length → k + cnt ≤ lo.length → k + cnt ≤ up.length →
      ∃ ls, forLoop (List.range' k cnt)
          (fun i s' => execList env [.assign "self.yValues[i]" expr] { s' with locals := setLocal "i" (.int i) s'.locals }) st =
        .normal { st with heap := st.heap.write s (elemLoop ex.fn lo up k cnt (st.heap.read s)), locals := ls,
                          wrote := if cnt = 0 then st.wrote else addOnce s st.wrote } := by
  intro cnt
  induction cnt with
  | zero =>
    intro k st _ _ _ hs _ _ _
    refine ⟨st.locals, ?_⟩
    simp only [List.range'_zero, forLoop, elemLoop, Heap.write_read_self _ hs, ↓reduceIte]
  | succ cnt ih =>
    intro k st hsc hlo hup hs hy hl hu
    have hk : k < (st.heap.read s).length := by omega
    have hkl : k < lo.length := by omega
    have hku : k < up.length := by omega
    have hs' : s < (st.heap.write s ((st.heap.read s).set k (ex.fn (st.heap.read s)[k] lo[k] up[k]))).size := by simpa using hs
    obtain ⟨ls, h⟩ := ih (k+1)
      { st with heap := st.heap.write s ((st.heap.read s).set k (ex.fn (st.heap.read s)[k] lo[k] up[k])),
                locals := setLocal "i" (.int k) st.locals, wrote := addOnce s st.wrote }
      hsc hlo hup hs' (by simp only [Heap.read_write_same _ _ hs, List.length_set]; omega) (by omega) (by omega)
    refine ⟨ls, ?_⟩
    simp only [List.range'_succ, forLoop, execList, execStmt, lk_aElem, execAssign, hf, lookup_setLocal, hsc, hlo, hup, execElem,
      List.getElem?_eq_getElem hk, List.getElem?_eq_getElem hkl, List.getElem?_eq_getElem hku] at h ⊢
    rw [h]
    simp only [Heap.read_write_same _ _ hs, Heap.write_write, addOnce_idem, ite_self, Nat.add_eq_zero_iff, Nat.succ_ne_self,
      and_false, ↓reduceIte]
    rw [elemLoop]
    simp only [List.getElem?_eq_getElem hk, List.getElem?_eq_getElem hkl, List.getElem?_eq_getElem hku]

theorem bind_self : bindParams (α := α) ["self"] [] = some [] := by
  simp [bindParams]

/-- a call, at depth `d+1`, of a method of the shape `for i in range(0, N): self.yValues[i] = expr` on a valid scratch array with `N`
entries: the per-coordinate function mapped over the array, written back to the SAME ref; the caller's locals survive -/
theorem call_elem_method (d : Nat) (callee expr : String) (ex : ElemExpr) (hprim : primTable.lookup callee = none)
    (hproc : procTable.lookup callee =
      some (["self"], [.forEach "i" "range(0, self.numberOfFloatVariables)" [.assign "self.yValues[i]" expr]]))
    (hex : elemExprTable.lookup expr = some ex) (st : IState α) (s n : Nat) (lo up : List α)
    (hsc : st.self.scratch = some s) (hn : st.self.n = some n) (hlo : st.self.lower = some lo) (hup : st.self.upper = some up)
    (hs : s < st.heap.size) (hy : (st.heap.read s).length = n) (hl : n ≤ lo.length) (hu : n ≤ up.length) :
    execStmt (envN (d+1)) (.call [] callee []) st =
      .normal { st with heap := st.heap.write s
                          (List.zipWith (fun yi (lu : α × α) => ex.fn yi lu.1 lu.2) (st.heap.read s) (lo.zip up)),
                        wrote := if n = 0 then st.wrote else addOnce s st.wrote } := by
  obtain ⟨ls, h⟩ := elem_loop (envN d) expr ex hex s lo up n 0 { st with locals := [] } hsc hlo hup hs
    (by simp only [Nat.zero_add]; omega) (by omega) (by omega)
  simp only [execStmt, execList] at h
  simp only [execStmt, hprim, envN, hproc, bind_self, and_self, ↓reduceIte, execList, evalColl, lk_coll, hn, Option.map_some,
    List.range_eq_range', h, elemLoop_zipWith ex.fn lo up _ n hy hl hu]

theorem p2d_shape : Gen.EvolventCtl.transformP2D =
    [.forEach "i" "range(0, self.numberOfFloatVariables)" [.assign "self.yValues[i]" p2dExpr]] := rfl
theorem d2p_shape : Gen.EvolventCtl.transformD2P =
    [.forEach "i" "range(0, self.numberOfFloatVariables)" [.assign "self.yValues[i]" d2pExpr]] := rfl

/-- `self.__TransformP2D()` through its GENERATED tree: `Ev.p2d` of the scratch array, written back in place -/
theorem call_p2d (d : Nat) (st : IState α) (s n : Nat) (lo up : List α)
    (hsc : st.self.scratch = some s) (hn : st.self.n = some n) (hlo : st.self.lower = some lo) (hup : st.self.upper = some up)
    (hs : s < st.heap.size) (hy : (st.heap.read s).length = n) (hl : n ≤ lo.length) (hu : n ≤ up.length) :
    execStmt (envN (d+1)) (.call [] "self.__TransformP2D" []) st =
      .normal { st with heap := st.heap.write s (Ev.p2d lo up (st.heap.read s)),
                        wrote := if n = 0 then st.wrote else addOnce s st.wrote } := by
  rw [call_elem_method d "self.__TransformP2D" p2dExpr .p2d lk_p2d_prim (by rw [lk_procP2D, p2d_shape]; rfl) lk_p2dExpr
    st s n lo up hsc hn hlo hup hs hy hl hu]
  rfl

/-- `self.__TransformD2P()` through its GENERATED tree: `Ev.d2p` of the scratch array, written back in place -/
theorem call_d2p (d : Nat) (st : IState α) (s n : Nat) (lo up : List α)
    (hsc : st.self.scratch = some s) (hn : st.self.n = some n) (hlo : st.self.lower = some lo) (hup : st.self.upper = some up)
    (hs : s < st.heap.size) (hy : (st.heap.read s).length = n) (hl : n ≤ lo.length) (hu : n ≤ up.length) :
    execStmt (envN (d+1)) (.call [] "self.__TransformD2P" []) st =
      .normal { st with heap := st.heap.write s (Ev.d2p lo up (st.heap.read s)),
                        wrote := if n = 0 then st.wrote else addOnce s st.wrote } := by
  rw [call_elem_method d "self.__TransformD2P" d2pExpr .d2p lk_d2p_prim (by rw [lk_procD2P, d2p_shape]; rfl) lk_d2pExpr
    st s n lo up hsc hn hlo hup hs hy hl hu]
  rfl

/-! ### the other statements of the generated trees, one lemma each -/

theorem nl_x : numLits.lookup "x" = none := by decide
theorem ne_x : numExprs.lookup "x" = none := by decide

theorem evalNum_x (st : IState α) (x : α) (hx : st.locals.lookup "x" = some (.num x)) : evalNum st "x" = some x := by
  simp only [evalNum, nl_x, ne_x, hx]

/-- `self.__GetYonX(x)`, `N = 1`: `self.yValues[0] = x - 0.5` in place -/
theorem stmt_getYonX_one (env : ProcEnv α) (st : IState α) (x : α) (m s : Nat)
    (hx : st.locals.lookup "x" = some (.num x)) (hn : st.self.n = some 1) (hm : st.self.m = some m)
    (hsc : st.self.scratch = some s) (hy : (st.heap.read s).length = 1) :
    execStmt env (.call [] "self.__GetYonX" ["x"]) st =
      .normal { st with heap := st.heap.write s ((st.heap.read s).set 0 (x - Ev.half)), wrote := addOnce s st.wrote } := by
  have h0 : (st.heap.read s)[0]? = some ((st.heap.read s)[0]'(by omega)) := List.getElem?_eq_getElem (by omega)
  simp only [execStmt, lk_getYonX, evalPrim, evalNum_x st x hx, hn, hm, hsc, BEq.rfl, ↓reduceIte, h0]
  rfl

/-- `self.__GetYonX(x)`, `N ≠ 1`: a fresh zero array becomes the scratch array and is filled in place with `Ev.imageCube` -/
theorem stmt_getYonX_ne (env : ProcEnv α) (st : IState α) (x : α) (n m s : Nat)
    (hx : st.locals.lookup "x" = some (.num x)) (hn : st.self.n = some n) (hm : st.self.m = some m)
    (hsc : st.self.scratch = some s) (hn1 : n ≠ 1) :
    execStmt env (.call [] "self.__GetYonX" ["x"]) st =
      .normal { st with heap := (st.heap.alloc (List.replicate n 0)).1.write st.heap.size (Ev.imageCube n m x),
                        self := { st.self with scratch := some st.heap.size },
                        wrote := addOnce st.heap.size st.wrote, allocated := st.allocated ++ [st.heap.size] } := by
  have hb : (n == 1) = false := by simpa using hn1
  simp only [execStmt, lk_getYonX, evalPrim, evalNum_x st x hx, hn, hm, hsc, hb, Bool.false_eq_true, ↓reduceIte]
  rfl

/-- `return np.copy(self.yValues)`: a fresh array -/
theorem stmt_retCopy (env : ProcEnv α) (st : IState α) (s : Nat) (hsc : st.self.scratch = some s) :
    execStmt env (.ret "np.copy(self.yValues)") st =
      .returned { st with heap := (st.heap.alloc (st.heap.read s)).1, allocated := st.allocated ++ [st.heap.size] }
        (.array st.heap.size) := by
  simp only [execStmt, lk_retCopy, execRet, hsc]
  rfl

/-- `self.yValues = np.array(y, dtype=np.double)`: a fresh copy of the argument becomes the scratch array -/
theorem stmt_storeArray (env : ProcEnv α) (st : IState α) (r : Nat) (hy : st.locals.lookup "y" = some (.ref r)) :
    execStmt env (.call ["self.yValues"] "np.array" ["y", "dtype=np.double"]) st =
      .normal { st with heap := (st.heap.alloc (st.heap.read r)).1, self := { st.self with scratch := some st.heap.size },
                        allocated := st.allocated ++ [st.heap.size] } := by
  simp only [execStmt, lk_array, evalPrim, ↓reduceIte, evalArr, hy, lk_tScratch, store]
  rfl

/-- `x = self.__GetXonY()` -/
theorem stmt_getXonY (env : ProcEnv α) (st : IState α) (n m s : Nat) (hn : st.self.n = some n) (hm : st.self.m = some m)
    (hsc : st.self.scratch = some s) :
    execStmt env (.call ["x"] "self.__GetXonY" []) st =
      .normal { st with locals := setLocal "x" (.num (Ev.inverseCube n m (st.heap.read s))) st.locals,
                        wrote := if n == 1 then st.wrote else addOnce s st.wrote } := by
  simp only [execStmt, lk_getXonY, evalPrim, hn, hm, hsc, lk_tX, store]

/-- `return x` -/
theorem stmt_retX (env : ProcEnv α) (st : IState α) (v : α) (hx : st.locals.lookup "x" = some (.num v)) :
    execStmt env (.ret "x") st = .returned st (.number v) := by
  simp only [execStmt, lk_retX, execRet, hx]

/-- `self.lowerBoundOfFloatVariables = np.copy(lowerBoundOfFloatVariables)`: the private copy, kept by value -/
theorem stmt_copyLower (env : ProcEnv α) (st : IState α) (r : Nat)
    (hy : st.locals.lookup "lowerBoundOfFloatVariables" = some (.ref r)) :
    execStmt env (.call ["self.lowerBoundOfFloatVariables"] "np.copy" ["lowerBoundOfFloatVariables"]) st =
      .normal { st with self := { st.self with lower := some (st.heap.read r) } } := by
  simp only [execStmt, lk_copy, evalPrim, evalArr, hy, lk_tLower, store]

theorem stmt_copyUpper (env : ProcEnv α) (st : IState α) (r : Nat)
    (hy : st.locals.lookup "upperBoundOfFloatVariables" = some (.ref r)) :
    execStmt env (.call ["self.upperBoundOfFloatVariables"] "np.copy" ["upperBoundOfFloatVariables"]) st =
      .normal { st with self := { st.self with upper := some (st.heap.read r) } } := by
  simp only [execStmt, lk_copy, evalPrim, evalArr, hy, lk_tUpper, store]

/-! ### the tie theorems -/

theorem bind_one (p : String) (v : LVal α) : bindParams ["self", p] [v] = some [(p, v)] := by
  simp [bindParams]

theorem bind_two (p q : String) (v w : LVal α) : bindParams ["self", p, q] [v, w] = some [(p, v), (q, w)] := by
  simp [bindParams]

/-- **`GetImage`, source tree = model.**  The interpretation of the statement tree generated from the source text of
`Evolvent.GetImage` (which calls `self.__TransformP2D()` through ITS generated tree, call depth `d+1 ≥ 1`), run on any heap `h`, on a
fully initialised object whose bounds have at least `N` entries and whose scratch array has one entry when `N = 1` (both part of
the invariant `EvObj.Inv`), with `x` bound to any number, is `EvObj.step h o (.image x)`: the same heap, the same object, the same
output ref, and EQUAL LISTS `wrote` and `allocated` (same refs in the same order). -/
theorem getImage_src (d : Nat) (h : Heap α) (o : Obj α) (nv : Nat) (ne x : α)
    (hl : o.n ≤ o.lower.length) (hu : o.n ≤ o.upper.length) (h1 : o.n = 1 → (h.read o.scratch).length = 1) :
    runMethod (d+1) Gen.EvolventCtl.getImageParams Gen.EvolventCtl.getImage h (Self.ofObj o nv ne) [.num x] =
      some (MRes.ofStep (step h o (.image x)) nv ne) := by
  have hx : List.lookup "x" [("x", LVal.num x)] = some (.num x) := by simp [List.lookup]
  by_cases hn : o.n = 1
  · have hy := h1 hn
    have hs : o.scratch < h.size := by
      rcases Nat.lt_or_ge o.scratch h.size with h' | h'
      · exact h'
      · rw [Heap.read_of_size_le h h'] at hy; simp at hy
    have e1 := stmt_getYonX_one (envN (d+1)) { heap := h, self := Self.ofObj o nv ne, locals := [("x", LVal.num x)] } x o.m
      o.scratch hx (by simp only [Self.ofObj, hn]) rfl rfl hy
    have hs1 : o.scratch < (h.write o.scratch ((h.read o.scratch).set 0 (x - Ev.half))).size := by simpa using hs
    have e2 := call_p2d d
      { heap := h.write o.scratch ((h.read o.scratch).set 0 (x - Ev.half)), self := Self.ofObj o nv ne,
        locals := [("x", LVal.num x)], wrote := addOnce o.scratch [], allocated := [] }
      o.scratch o.n o.lower o.upper rfl rfl rfl rfl hs1
      (by simp only [Heap.read_write_same _ _ hs, List.length_set, hy, hn]) hl hu
    have e3 := stmt_retCopy (envN (d+1))
      { heap := (h.write o.scratch ((h.read o.scratch).set 0 (x - Ev.half))).write o.scratch
          (Ev.p2d o.lower o.upper ((h.read o.scratch).set 0 (x - Ev.half))),
        self := Self.ofObj o nv ne, locals := [("x", LVal.num x)], wrote := [o.scratch], allocated := [] } o.scratch rfl
    simp only [Heap.read_write_same _ _ hs, addOnce_nil, hn, Nat.succ_ne_self, ↓reduceIte,
      addOnce_of_mem (List.mem_singleton.2 rfl)] at e2
    rw [step_image_one h o x hn]
    simp only [runMethod, Gen.EvolventCtl.getImageParams, bind_one, Gen.EvolventCtl.getImage, execList, e1, addOnce_nil,
      List.nil_append, e2, e3]
    rfl
  · have e1 := stmt_getYonX_ne (envN (d+1)) { heap := h, self := Self.ofObj o nv ne, locals := [("x", LVal.num x)] } x o.n o.m
      o.scratch hx rfl rfl rfl hn
    have hs1 : h.size < ((h.alloc (List.replicate o.n 0)).1.write h.size (Ev.imageCube o.n o.m x)).size := by simp
    have hs0 : h.size < (h.alloc (List.replicate o.n (0 : α))).1.size := by simp
    have e2 := call_p2d d
      { heap := (h.alloc (List.replicate o.n 0)).1.write h.size (Ev.imageCube o.n o.m x),
        self := { Self.ofObj o nv ne with scratch := some h.size },
        locals := [("x", LVal.num x)], wrote := addOnce h.size [], allocated := [] ++ [h.size] }
      h.size o.n o.lower o.upper rfl rfl rfl rfl hs1
      (by simp only [Heap.read_write_same _ _ hs0, Ev.length_imageCube_gen]) hl hu
    have e3 := stmt_retCopy (envN (d+1))
      { heap := ((h.alloc (List.replicate o.n 0)).1.write h.size (Ev.imageCube o.n o.m x)).write h.size
          (Ev.p2d o.lower o.upper (Ev.imageCube o.n o.m x)),
        self := { Self.ofObj o nv ne with scratch := some h.size },
        locals := [("x", LVal.num x)], wrote := [h.size], allocated := [h.size] } h.size rfl
    simp only [Heap.read_write_same _ _ hs0, addOnce_nil, List.nil_append, ite_self,
      addOnce_of_mem (List.mem_singleton.2 rfl)] at e2
    rw [step_image_ne_one h o x hn]
    simp only [runMethod, Gen.EvolventCtl.getImageParams, bind_one, Gen.EvolventCtl.getImage, execList, e1, addOnce_nil,
      List.nil_append, e2, e3]
    rfl

/-- the common body of `GetInverseImage` and `GetPreimages` -/
theorem inverse_body (d : Nat) (h : Heap α) (o : Obj α) (nv : Nat) (ne : α) (arg : Nat)
    (hl : o.n ≤ o.lower.length) (hu : o.n ≤ o.upper.length) (ha : (h.read arg).length = o.n) :
    runMethod (d+1) ["self", "y"]
      [.call ["self.yValues"] "np.array" ["y", "dtype=np.double"],
       .call [] "self.__TransformD2P" [],
       .call ["x"] "self.__GetXonY" [],
       .ret "x"] h (Self.ofObj o nv ne) [.ref arg] =
      some (MRes.ofStep (step h o (.inverse arg)) nv ne) := by
  have hy : List.lookup "y" [("y", LVal.ref (α := α) arg)] = some (.ref arg) := by simp [List.lookup]
  have e1 := stmt_storeArray (envN (d+1)) { heap := h, self := Self.ofObj o nv ne, locals := [("y", LVal.ref arg)] } arg hy
  have hs0 : h.size < (h.alloc (h.read arg)).1.size := by simp
  have e2 := call_d2p d
    { heap := (h.alloc (h.read arg)).1, self := { Self.ofObj o nv ne with scratch := some h.size },
      locals := [("y", LVal.ref arg)], wrote := [], allocated := [] ++ [h.size] }
    h.size o.n o.lower o.upper rfl rfl rfl rfl hs0 (by simp only [Heap.read_alloc_new, ha]) hl hu
  have e3 := stmt_getXonY (envN (d+1))
    { heap := (h.alloc (h.read arg)).1.write h.size (Ev.d2p o.lower o.upper (h.read arg)),
      self := { Self.ofObj o nv ne with scratch := some h.size },
      locals := [("y", LVal.ref arg)], wrote := if o.n = 0 then [] else [h.size], allocated := [h.size] }
    o.n o.m h.size rfl rfl rfl
  have hw : (if (o.n == 1) = true then (if o.n = 0 then [] else [h.size]) else addOnce h.size (if o.n = 0 then [] else [h.size])) =
      [h.size] := by
    by_cases h0 : o.n = 0
    · simp [h0, addOnce_nil]
    · by_cases h1 : o.n = 1
      · simp [h1]
      · simp [h0, h1, addOnce_of_mem]
  have e4 := stmt_retX (envN (d+1))
    { heap := (h.alloc (h.read arg)).1.write h.size (Ev.d2p o.lower o.upper (h.read arg)),
      self := { Self.ofObj o nv ne with scratch := some h.size },
      locals := setLocal "x" (.num (Ev.inverseCube o.n o.m (Ev.d2p o.lower o.upper (h.read arg)))) [("y", LVal.ref arg)],
      wrote := [h.size], allocated := [h.size] }
    _ (lookup_setLocal _ _ _)
  simp only [Heap.read_alloc_new, addOnce_nil, List.nil_append] at e2
  simp only [Heap.read_write_same _ _ hs0, hw] at e3
  rw [step_inverse]
  simp only [runMethod, bind_one, execList, e1, List.nil_append, e2, e3, e4, Heap.read_alloc_new]
  rfl

/-- **`GetInverseImage`, source tree = model.**  The interpretation of the statement tree generated from the source text of
`Evolvent.GetInverseImage` (call depth `d+1 ≥ 1` for `self.__TransformD2P()`), run on any heap, on a fully initialised object whose
bounds have at least `N` entries, with `y` bound to a ref of an array with `N` entries (`Setup.ArgsOK`), is
`EvObj.step h o (.inverse arg)`: same heap, object, number, and equal lists `wrote`, `allocated`. -/
theorem getInverseImage_src (d : Nat) (h : Heap α) (o : Obj α) (nv : Nat) (ne : α) (arg : Nat)
    (hl : o.n ≤ o.lower.length) (hu : o.n ≤ o.upper.length) (ha : (h.read arg).length = o.n) :
    runMethod (d+1) Gen.EvolventCtl.getInverseImageParams Gen.EvolventCtl.getInverseImage h (Self.ofObj o nv ne) [.ref arg] =
      some (MRes.ofStep (step h o (.inverse arg)) nv ne) :=
  inverse_body d h o nv ne arg hl hu ha

/-- **`GetPreimages`, source tree = model** (the generated tree is, statement for statement, that of `GetInverseImage`). -/
theorem getPreimages_src (d : Nat) (h : Heap α) (o : Obj α) (nv : Nat) (ne : α) (arg : Nat)
    (hl : o.n ≤ o.lower.length) (hu : o.n ≤ o.upper.length) (ha : (h.read arg).length = o.n) :
    runMethod (d+1) Gen.EvolventCtl.getPreimagesParams Gen.EvolventCtl.getPreimages h (Self.ofObj o nv ne) [.ref arg] =
      some (MRes.ofStep (step h o (.preimages arg)) nv ne) :=
  inverse_body d h o nv ne arg hl hu ha

/-- **`SetBounds`, source tree = model**, for every heap, object, pair of refs and call depth: the two `np.copy` stores set the
private bounds to the CONTENTS of the argument arrays at the time of the call; nothing is written, nothing is allocated in the
shared heap; the method returns `None`. -/
theorem setBounds_src (d : Nat) (h : Heap α) (o : Obj α) (nv : Nat) (ne : α) (lo hi : Nat) :
    runMethod d Gen.EvolventCtl.setBoundsParams Gen.EvolventCtl.setBounds h (Self.ofObj o nv ne) [.ref lo, .ref hi] =
      some (MRes.ofStep (step h o (.setBounds lo hi)) nv ne) := by
  have e1 := stmt_copyLower (envN d)
    { heap := h, self := Self.ofObj o nv ne,
      locals := [("lowerBoundOfFloatVariables", LVal.ref lo), ("upperBoundOfFloatVariables", LVal.ref hi)] } lo
    (by simp [List.lookup])
  have e2 := stmt_copyUpper (envN d)
    { heap := h, self := { Self.ofObj o nv ne with lower := some (h.read lo) },
      locals := [("lowerBoundOfFloatVariables", LVal.ref lo), ("upperBoundOfFloatVariables", LVal.ref hi)] } hi
    (by simp [List.lookup])
  rw [step_setBounds]
  simp only [runMethod, Gen.EvolventCtl.setBoundsParams, bind_two, Gen.EvolventCtl.setBounds, execList, e1, e2]
  rfl

/-! ### `__init__` -/

/-- `a` doubled `k` times -/
def dbl : Nat → α → α
  | 0, a => a
  | k+1, a => dbl k (a + a)

theorem dbl_succ (k : Nat) (a : α) : dbl (k+1) a = dbl k a + dbl k a := by
  induction k generalizing a with
  | zero => rfl
  | succ k ih => rw [dbl, ih (a + a)]; rfl

/-- `1.0` doubled `n` times is the model's `nexp n` -/
theorem dbl_one (n : Nat) : dbl n (1 : α) = Ev.nexp n := by
  induction n with
  | zero => rfl
  | succ n ih => rw [dbl_succ, ih]; rfl

theorem nl_dbl : numLits.lookup "self.nexpExtended + self.nexpExtended" = none := by decide
theorem ne_dbl : numExprs.lookup "self.nexpExtended + self.nexpExtended" = some .nexpDoubled := by decide
theorem nl_one : numLits.lookup "1.0" = some .one := by decide
theorem il_zero : intLits.lookup "0" = some 0 := by decide
theorem il_n : intLits.lookup "numberOfFloatVariables" = none := by decide
theorem ia_n : intAttrs.lookup "numberOfFloatVariables" = none := by decide
theorem il_m : intLits.lookup "evolventDensity" = none := by decide
theorem ia_m : intAttrs.lookup "evolventDensity" = none := by decide
theorem il_selfN : intLits.lookup "self.numberOfFloatVariables" = none := by decide
theorem ia_selfN : intAttrs.lookup "self.numberOfFloatVariables" = some .n := by decide

/-- `for i in <is>: self.nexpExtended = self.nexpExtended + self.nexpExtended` -/
theorem nexp_loop (env : ProcEnv α) : ∀ (is : List Nat) (st : IState α) (a : α), st.self.nexp = some a →
    ∃ ls, forLoop is (fun i s => execList env [.assign "self.nexpExtended" "self.nexpExtended + self.nexpExtended"]
        { s with locals := setLocal "i" (.int i) s.locals }) st =
      .normal { st with self := { st.self with nexp := some (dbl is.length a) }, locals := ls } := by
  intro is
  induction is with
  | nil =>
    intro st a ha
    refine ⟨st.locals, ?_⟩
    simp only [forLoop, List.length_nil, dbl, ← ha]
  | cons i is ih =>
    intro st a ha
    obtain ⟨ls, h⟩ := ih { st with self := { st.self with nexp := some (a + a) }, locals := setLocal "i" (.int i) st.locals }
      (a + a) rfl
    refine ⟨ls, ?_⟩
    simp only [execList, execStmt, lk_aNexp, execAssign, evalNum, nl_dbl, ne_dbl] at h ⊢
    simp only [forLoop, ha, Option.map_some, h, List.length_cons, dbl]

/-- **`__init__`, source tree = model.**  The interpretation of the statement tree generated from the source text of
`Evolvent.__init__`, run on any heap from an object with NO attribute set, with the parameters bound to two VALID refs, `N` and `m`,
ends normally (returns `None`) with the heap and the object of `EvObj.init h n m lo hi`, with `nexpValue = 0` and
`nexpExtended = Ev.nexp n` (`1.0` doubled `N` times by the loop of the source), nothing written in place and exactly one array
allocated: the scratch array. -/
theorem init_src (d : Nat) (h : Heap α) (n m lo hi : Nat) (hlo : lo < h.size) (hhi : hi < h.size) :
    runMethod d Gen.EvolventCtl.initParams Gen.EvolventCtl.init h {} [.ref lo, .ref hi, .int n, .int m] =
      some { heap := (EvObj.init h n m lo hi).1, self := Self.ofObj (EvObj.init h n m lo hi).2 0 (Ev.nexp n), out := .unit,
             wrote := [], allocated := [(EvObj.init h n m lo hi).2.scratch] } := by
  obtain ⟨ls, hloop⟩ := nexp_loop (envN d) (List.range n)
    { heap := (h.alloc (List.replicate n 0)).1,
      self := { n := some n, m := some m, lower := some (h.read lo), upper := some (h.read hi), scratch := some h.size,
                nexpValue := some 0, nexp := some 1 },
      locals := [("lowerBoundOfFloatVariables", LVal.ref lo), ("upperBoundOfFloatVariables", LVal.ref hi),
                 ("numberOfFloatVariables", LVal.int n), ("evolventDensity", LVal.int m)],
      wrote := [], allocated := [h.size] } 1 rfl
  have b : bindParams (α := α) Gen.EvolventCtl.initParams [.ref lo, .ref hi, .int n, .int m] =
      some [("lowerBoundOfFloatVariables", LVal.ref lo), ("upperBoundOfFloatVariables", LVal.ref hi),
            ("numberOfFloatVariables", LVal.int n), ("evolventDensity", LVal.int m)] := by
    simp [bindParams, Gen.EvolventCtl.initParams]
  have l1 : List.lookup "lowerBoundOfFloatVariables"
      [("lowerBoundOfFloatVariables", LVal.ref (α := α) lo), ("upperBoundOfFloatVariables", LVal.ref hi),
       ("numberOfFloatVariables", LVal.int n), ("evolventDensity", LVal.int m)] = some (.ref lo) := by simp [List.lookup]
  have l2 : List.lookup "upperBoundOfFloatVariables"
      [("lowerBoundOfFloatVariables", LVal.ref (α := α) lo), ("upperBoundOfFloatVariables", LVal.ref hi),
       ("numberOfFloatVariables", LVal.int n), ("evolventDensity", LVal.int m)] = some (.ref hi) := by simp [List.lookup]
  have l3 : List.lookup "numberOfFloatVariables"
      [("lowerBoundOfFloatVariables", LVal.ref (α := α) lo), ("upperBoundOfFloatVariables", LVal.ref hi),
       ("numberOfFloatVariables", LVal.int n), ("evolventDensity", LVal.int m)] = some (.int n) := by simp [List.lookup]
  have l4 : List.lookup "evolventDensity"
      [("lowerBoundOfFloatVariables", LVal.ref (α := α) lo), ("upperBoundOfFloatVariables", LVal.ref hi),
       ("numberOfFloatVariables", LVal.int n), ("evolventDensity", LVal.int m)] = some (.int m) := by simp [List.lookup]
  simp only [execList, execStmt, lk_aNexp, execAssign, evalNum] at hloop
  simp only [runMethod, b, Gen.EvolventCtl.init, execList, execStmt, lk_aN, lk_aM, lk_aNexpValue, lk_aNexp, execAssign, evalInt,
    il_n, ia_n, il_m, ia_m, il_zero, il_selfN, ia_selfN, l1, l2, l3, l4, evalNum, nl_one, lk_copy, lk_zeros, evalPrim, evalArr,
    lk_tLower, lk_tUpper, lk_tScratch, store, ↓reduceIte, evalColl, lk_coll, Option.map_some, Heap.alloc_snd,
    List.nil_append, hloop]
  rw [init_heap, init_obj, Heap.read_alloc_old _ _ hlo, Heap.read_alloc_old _ _ hhi, List.length_range, dbl_one]
  rfl

/-! ### one call, and whole sessions, in the vocabulary of C17 -/

/-- a public call, through the GENERATED tree of the method it names -/
def callOp (d : Nat) (h : Heap α) (self : Self α) : Op α → Option (MRes α)
  | .image x => runMethod d Gen.EvolventCtl.getImageParams Gen.EvolventCtl.getImage h self [.num x]
  | .inverse a => runMethod d Gen.EvolventCtl.getInverseImageParams Gen.EvolventCtl.getInverseImage h self [.ref a]
  | .preimages a => runMethod d Gen.EvolventCtl.getPreimagesParams Gen.EvolventCtl.getPreimages h self [.ref a]
  | .setBounds lo hi => runMethod d Gen.EvolventCtl.setBoundsParams Gen.EvolventCtl.setBounds h self [.ref lo, .ref hi]

/-- **one call under the invariant of C17.**  In every state satisfying `EvObj.Inv` (the invariant of every point of every valid
session), a call whose array arguments have `N` entries, run through the generated tree of its method, is `EvObj.step`. -/
theorem callOp_src {base n : Nat} {ret : List Nat} {h : Heap α} {o : Obj α} (hi : Inv base n ret h o) (d nv : Nat) (ne : α)
    (op : Op α) (hargs : ∀ r ∈ op.args, (h.read r).length = n) :
    callOp (d+1) h (Self.ofObj o nv ne) op = some (MRes.ofStep (step h o op) nv ne) := by
  have hl : o.n ≤ o.lower.length := by rw [hi.lower_len, hi.n_eq]; exact Nat.le_refl _
  have hu : o.n ≤ o.upper.length := by rw [hi.upper_len, hi.n_eq]; exact Nat.le_refl _
  cases op with
  | image x => exact getImage_src d h o nv ne x hl hu (fun h1 => hi.scratch_len (by rw [← hi.n_eq, h1]))
  | inverse a => exact getInverseImage_src d h o nv ne a hl hu (by rw [hi.n_eq]; exact hargs a (by simp [Op.args]))
  | preimages a => exact getPreimages_src d h o nv ne a hl hu (by rw [hi.n_eq]; exact hargs a (by simp [Op.args]))
  | setBounds lo hi' => exact setBounds_src (d+1) h o nv ne lo hi'

/-- a sequence of public calls, each through its generated tree; `none` as soon as one is stuck -/
def session (d : Nat) : List (Op α) → Heap α → Self α → List (Out α) → Option (Heap α × Self α × List (Out α))
  | [], h, self, outs => some (h, self, outs)
  | op :: ops, h, self, outs =>
    match callOp d h self op with
    | none => none
    | some r => session d ops r.heap r.self (outs ++ [r.out])

theorem session_append (d : Nat) : ∀ (ops1 ops2 : List (Op α)) (h : Heap α) (self : Self α) (outs : List (Out α)),
    session d (ops1 ++ ops2) h self outs =
      (session d ops1 h self outs).bind fun t => session d ops2 t.1 t.2.1 t.2.2 := by
  intro ops1
  induction ops1 with
  | nil => intro ops2 h self outs; rfl
  | cons op ops1 ih =>
    intro ops2 h self outs
    simp only [List.cons_append, session]
    cases callOp d h self op with
    | none => rfl
    | some r => exact ih ops2 _ _ _

/-- the constructor call of a `Setup`, through the generated tree of `__init__`, followed by a session -/
def runSetup (d : Nat) (s : Setup α) (ops : List (Op α)) : Option (Heap α × Self α × List (Out α)) :=
  (runMethod d Gen.EvolventCtl.initParams Gen.EvolventCtl.init s.heap {} [.ref s.lo, .ref s.hi, .int s.n, .int s.m]).bind
    fun r => session d ops r.heap r.self []

/-- **every valid session of C17, run through the generated trees, is the model's run.**  For every `Setup` and every call
sequence satisfying the hypotheses of the C17 theorems (`Setup.Valid`), interpreting `__init__` and then every call through the
statement tree generated from the source text of its method (call depth `d+1 ≥ 1`) is never stuck and ends in the heap, the object
and the outputs of `s.run ops`; `nexpExtended` is `Ev.nexp N` throughout.  Hence every theorem of `IOptProps/C17.lean` about
`s.run ops` is a theorem about the interpreted source trees. -/
theorem session_src (s : Setup α) (ops : List (Op α)) (hv : s.Valid ops) (d : Nat) :
    runSetup (d+1) s ops = some ((s.run ops).heap, Self.ofObj (s.run ops).obj 0 (Ev.nexp s.n), (s.run ops).outs) := by
  induction hv with
  | nil hwf =>
    simp only [runSetup, init_src (d+1) s.heap s.n s.m s.lo s.hi hwf.1 hwf.2.1, Option.bind_some, session, Setup.run_nil]
  | @snoc ops op hv' ha ih =>
    simp only [runSetup] at ih ⊢
    cases hr : runMethod (d+1) Gen.EvolventCtl.initParams Gen.EvolventCtl.init s.heap {}
        [.ref s.lo, .ref s.hi, .int s.n, .int s.m] with
    | none => rw [hr] at ih; simp at ih
    | some r =>
      rw [hr] at ih
      simp only [Option.bind_some] at ih ⊢
      rw [session_append, ih]
      simp only [Option.bind_some, session]
      rw [callOp_src hv'.inv d 0 (Ev.nexp s.n) op (fun r hr => (ha r hr).2), Setup.run_snoc]
      rfl

end EvInterp
end

/-! ## Non-vacuity, and what the ties exclude: concrete runs over `ℚ` (`TruncNat` = floor), checked by kernel evaluation -/

namespace EvInterp.Examples
open EvObj Gen.ProcSrc
open Gen.EvolventCtl

local instance : TruncNat Rat := ⟨fun x => x.floor.toNat⟩

/-- a decidable view of an outcome -/
structure View where
  cells : List (List Rat)
  n : Option Nat
  m : Option Nat
  lower : Option (List Rat)
  upper : Option (List Rat)
  scratch : Option Nat
  nexpValue : Option Nat
  nexp : Option Rat
  outArray : Option Nat
  outNumber : Option Rat
  wrote : List Nat
  allocated : List Nat
deriving DecidableEq

def viewR (r : MRes Rat) : View :=
  { cells := r.heap.cells.toList, n := r.self.n, m := r.self.m, lower := r.self.lower, upper := r.self.upper,
    scratch := r.self.scratch, nexpValue := r.self.nexpValue, nexp := r.self.nexp,
    outArray := match r.out with | .array a => some a | _ => none,
    outNumber := match r.out with | .number x => some x | _ => none,
    wrote := r.wrote, allocated := r.allocated }

/-- `none`: stuck -/
def view (r : Option (MRes Rat)) : Option View := r.map viewR

/-! ### `N = 1` -/

/-- caller arrays: `0 ↦ [0]` (lower), `1 ↦ [10]` (upper), `2 ↦ [7]` -/
def h1 : Heap Rat := { cells := #[[0], [10], [7]] }

/-- the interpreter RUN on the generated tree of `__init__` (no attribute set before): the model's `init`, scratch array at ref 3,
`nexpExtended = 2` -/
example : view (runMethod 0 initParams init h1 {} [.ref 0, .ref 1, .int 1, .int 10]) =
    some { cells := [[0], [10], [7], [0]], n := some 1, m := some 10, lower := some [0], upper := some [10], scratch := some 3,
           nexpValue := some 0, nexp := some 2, outArray := none, outNumber := none, wrote := [], allocated := [3] } ∧
    view (runMethod 0 initParams init h1 {} [.ref 0, .ref 1, .int 1, .int 10]) =
      view (some { heap := (EvObj.init h1 1 10 0 1).1, self := Self.ofObj (EvObj.init h1 1 10 0 1).2 0 2, out := .unit,
                   wrote := [], allocated := [3] }) := by decide +kernel

def o1 : Obj Rat := (EvObj.init h1 1 10 0 1).2
def g1 : Heap Rat := (EvObj.init h1 1 10 0 1).1

/-- the interpreter RUN on the generated tree of `GetImage`, `N = 1`: the scratch array (ref 3) is written IN PLACE, the result is a
fresh array (ref 4) -/
example : view (runMethod 1 getImageParams getImage g1 (Self.ofObj o1 0 2) [.num (1/4)]) =
    some { cells := [[0], [10], [7], [5/2], [5/2]], n := some 1, m := some 10, lower := some [0], upper := some [10],
           scratch := some 3, nexpValue := some 0, nexp := some 2, outArray := some 4, outNumber := none,
           wrote := [3], allocated := [4] } ∧
    view (runMethod 1 getImageParams getImage g1 (Self.ofObj o1 0 2) [.num (1/4)]) =
      view (some (MRes.ofStep (step g1 o1 (.image (1/4))) 0 2)) := by decide +kernel

/-- … of `GetInverseImage` on the caller's array `2 ↦ [7]`: a fresh scratch array (ref 4), the argument untouched -/
example : view (runMethod 1 getInverseImageParams getInverseImage g1 (Self.ofObj o1 0 2) [.ref 2]) =
    some { cells := [[0], [10], [7], [0], [1/5]], n := some 1, m := some 10, lower := some [0], upper := some [10],
           scratch := some 4, nexpValue := some 0, nexp := some 2, outArray := none, outNumber := some (7/10),
           wrote := [4], allocated := [4] } ∧
    view (runMethod 1 getInverseImageParams getInverseImage g1 (Self.ofObj o1 0 2) [.ref 2]) =
      view (some (MRes.ofStep (step g1 o1 (.inverse 2)) 0 2)) := by decide +kernel

/-- the tie theorems instantiated at these runs (their hypotheses hold) -/
example := init_src 0 h1 1 10 0 1 (by decide) (by decide)
example := getImage_src 0 g1 o1 0 2 (1/4) (by decide) (by decide) (by decide)
example := getInverseImage_src 0 g1 o1 0 2 2 (by decide) (by decide) (by decide)
example := getPreimages_src 0 g1 o1 0 2 2 (by decide) (by decide) (by decide)
example := setBounds_src 0 g1 o1 0 2 2 1

/-! ### `N = 2` -/

def h2 : Heap Rat := { cells := #[[0, 0], [1, 2], [1/3, 1/5], [-1, -1]] }
def o2 : Obj Rat := (EvObj.init h2 2 3 0 1).2
def g2 : Heap Rat := (EvObj.init h2 2 3 0 1).1

example : view (runMethod 0 initParams init h2 {} [.ref 0, .ref 1, .int 2, .int 3]) =
    some { cells := [[0, 0], [1, 2], [1/3, 1/5], [-1, -1], [0, 0]], n := some 2, m := some 3, lower := some [0, 0],
           upper := some [1, 2], scratch := some 4, nexpValue := some 0, nexp := some 4, outArray := none, outNumber := none,
           wrote := [], allocated := [4] } := by decide +kernel

/-- `GetImage`, `N = 2`: a NEW scratch array (ref 5; the old one, ref 4, is left alone), result at ref 6 -/
example : view (runMethod 1 getImageParams getImage g2 (Self.ofObj o2 0 4) [.num (1/3)]) =
    some { cells := [[0, 0], [1, 2], [1/3, 1/5], [-1, -1], [0, 0], [1/16, 15/8], [1/16, 15/8]], n := some 2, m := some 3,
           lower := some [0, 0], upper := some [1, 2], scratch := some 5, nexpValue := some 0, nexp := some 4,
           outArray := some 6, outNumber := none, wrote := [5], allocated := [5, 6] } ∧
    view (runMethod 1 getImageParams getImage g2 (Self.ofObj o2 0 4) [.num (1/3)]) =
      view (some (MRes.ofStep (step g2 o2 (.image (1/3))) 0 4)) := by decide +kernel

example : view (runMethod 1 getPreimagesParams getPreimages g2 (Self.ofObj o2 0 4) [.ref 2]) =
      view (some (MRes.ofStep (step g2 o2 (.preimages 2)) 0 4)) ∧
    (view (runMethod 1 getPreimagesParams getPreimages g2 (Self.ofObj o2 0 4) [.ref 2])).map
        (fun v => (v.outNumber, v.scratch, v.wrote, v.allocated)) = some (some (1/16), some 5, [5], [5]) := by decide +kernel

/-- `SetBounds`: the CONTENTS of the arrays 3 and 1 become the private bounds; heap untouched, nothing reported -/
example : view (runMethod 0 setBoundsParams setBounds g2 (Self.ofObj o2 0 4) [.ref 3, .ref 1]) =
      view (some (MRes.ofStep (step g2 o2 (.setBounds 3 1)) 0 4)) ∧
    (view (runMethod 0 setBoundsParams setBounds g2 (Self.ofObj o2 0 4) [.ref 3, .ref 1])).map
        (fun v => (v.lower, v.upper, v.cells.length, v.wrote, v.allocated)) =
      some (some [-1, -1], some [1, 2], 5, [], []) := by decide +kernel

example := getImage_src 0 g2 o2 0 4 (1/3) (by decide) (by decide) (by decide)
example := getPreimages_src 0 g2 o2 0 4 2 (by decide) (by decide) (by decide)

/-! ### whole sessions: the sessions of `IOptProps/C17.lean`, run through the generated trees -/

structure SView where
  cells : List (List Rat)
  scratch : Option Nat
  outs : List (Option Nat × Option Rat)
deriving DecidableEq

def viewS (t : Option (Heap Rat × Self Rat × List (Out Rat))) : Option SView :=
  t.map fun t =>
    { cells := t.1.cells.toList, scratch := t.2.1.scratch,
      outs := t.2.2.map fun o =>
        (match o with | .array a => some a | _ => none, match o with | .number x => some x | _ => none) }

example : viewS (runSetup 1 EvObj.Example.s1 EvObj.Example.ops1) =
      viewS (some ((EvObj.Example.s1.run EvObj.Example.ops1).heap, Self.ofObj (EvObj.Example.s1.run EvObj.Example.ops1).obj 0 2,
                   (EvObj.Example.s1.run EvObj.Example.ops1).outs)) ∧
    viewS (runSetup 1 EvObj.Example.s1 EvObj.Example.ops1) =
      some { cells := [[0], [10], [7], [15/2], [5/2], [15/2], [-1/4]], scratch := some 6,
             outs := [(some 4, none), (some 5, none), (none, some (1/4))] } := by decide +kernel

example : viewS (runSetup 1 EvObj.Example.s2 EvObj.Example.ops2) =
      viewS (some ((EvObj.Example.s2.run EvObj.Example.ops2).heap, Self.ofObj (EvObj.Example.s2.run EvObj.Example.ops2).obj 0 4,
                   (EvObj.Example.s2.run EvObj.Example.ops2).outs)) := by decide +kernel

example := session_src EvObj.Example.s1 EvObj.Example.ops1 EvObj.Example.valid1 0
example := session_src EvObj.Example.s2 EvObj.Example.ops2 EvObj.Example.valid2 0

/-! ### outside the fragment = stuck -/

/-- at call depth 0 `self.__TransformP2D()` cannot be called: the hypothesis `d+1` of `getImage_src` is needed -/
example : view (runMethod 0 getImageParams getImage g1 (Self.ofObj o1 0 2) [.num (1/4)]) = none := by decide +kernel

/-- on an object without attributes a query is stuck -/
example : view (runMethod 1 getImageParams getImage g1 {} [.num (1/4)]) = none := by decide +kernel

/-- a statement outside the fragment is not silently accepted: an unclassified statement, `np.copy` of an ATTRIBUTE as a
statement, `np.array` without `dtype=np.double` -/
example : view (runMethod 1 ["self"] [.other "self.yValues = None"] g1 (Self.ofObj o1 0 2) []) = none ∧
    view (runMethod 1 ["self"] [.call [] "np.copy" ["self.yValues"]] g1 (Self.ofObj o1 0 2) []) = none ∧
    view (runMethod 1 ["self", "y"] [.call ["self.yValues"] "np.array" ["y"]] g1 (Self.ofObj o1 0 2) [.ref 2]) = none := by
  decide +kernel

/-! ### seeded edits of the source are stuck or NOT equal to the model -/

/-- `GetImage` with `return self.yValues` instead of the copy (the aliasing defect `stepNoCopy` of C17) -/
def getImageNoCopy : List Stmt :=
  [
    .call [] "self.__GetYonX" ["x"],
    .call [] "self.__TransformP2D" [],
    .ret "self.yValues"]

/-- **a dropped copy on `return` is not accepted**: stuck, for `N = 1` and `N = 2` -/
theorem noCopy_stuck :
    view (runMethod 1 getImageParams getImageNoCopy g1 (Self.ofObj o1 0 2) [.num (1/4)]) = none ∧
    view (runMethod 1 getImageParams getImageNoCopy g2 (Self.ofObj o2 0 4) [.num (1/3)]) = none := by decide +kernel

/-- `GetInverseImage` with `self.yValues = y` (the caller's array becomes the scratch array) -/
def getInverseAlias : List Stmt :=
  [
    .assign "self.yValues" "y",
    .call [] "self.__TransformD2P" [],
    .call ["x"] "self.__GetXonY" [],
    .ret "x"]

/-- `GetInverseImage` with `self.yValues = np.asarray(y)` (no copy for a float64 array) -/
def getInverseAsarray : List Stmt :=
  [
    .call ["self.yValues"] "np.asarray" ["y"],
    .call [] "self.__TransformD2P" [],
    .call ["x"] "self.__GetXonY" [],
    .ret "x"]

/-- **an alias stored into `self.yValues` is not accepted**: stuck -/
theorem alias_stuck :
    view (runMethod 1 getInverseImageParams getInverseAlias g1 (Self.ofObj o1 0 2) [.ref 2]) = none ∧
    view (runMethod 1 getInverseImageParams getInverseAsarray g1 (Self.ofObj o1 0 2) [.ref 2]) = none ∧
    view (runMethod 1 getInverseImageParams getInverseAlias g2 (Self.ofObj o2 0 4) [.ref 2]) = none := by decide +kernel

/-- `SetBounds` keeping the caller's arrays -/
def setBoundsAlias : List Stmt :=
  [
    .assign "self.lowerBoundOfFloatVariables" "lowerBoundOfFloatVariables",
    .assign "self.upperBoundOfFloatVariables" "upperBoundOfFloatVariables"]

theorem setBoundsAlias_stuck :
    view (runMethod 1 setBoundsParams setBoundsAlias g2 (Self.ofObj o2 0 4) [.ref 3, .ref 1]) = none := by decide +kernel

/-- `GetImage` with `__TransformP2D` called BEFORE `__GetYonX` -/
def getImageSwapped : List Stmt :=
  [
    .call [] "self.__TransformP2D" [],
    .call [] "self.__GetYonX" ["x"],
    .ret "np.copy(self.yValues)"]

/-- **the tie is sensitive to the order `__GetYonX`; `__TransformP2D`**: on the swapped tree the interpreter is not stuck and its
result differs from the model (the cube point is returned untransformed: `[-1/4]` instead of `[5/2]`; `[-7/16, 7/16]` instead of
`[1/16, 15/8]`, and for `N = 2` the OLD scratch array is transformed instead) -/
theorem swapped_not_model :
    runMethod 1 getImageParams getImageSwapped g1 (Self.ofObj o1 0 2) [.num (1/4)] ≠
      some (MRes.ofStep (step g1 o1 (.image (1/4))) 0 2) ∧
    runMethod 1 getImageParams getImageSwapped g2 (Self.ofObj o2 0 4) [.num (1/3)] ≠
      some (MRes.ofStep (step g2 o2 (.image (1/3))) 0 4) := by
  constructor
  · intro h
    have h' := congrArg (fun o => (view o).map (·.cells)) h
    revert h'
    decide +kernel
  · intro h
    have h' := congrArg (fun o => (view o).map (·.cells)) h
    revert h'
    decide +kernel

example : (view (runMethod 1 getImageParams getImageSwapped g1 (Self.ofObj o1 0 2) [.num (1/4)])).map (·.cells) =
      some [[0], [10], [7], [-1/4], [-1/4]] ∧
    (view (runMethod 1 getImageParams getImageSwapped g2 (Self.ofObj o2 0 4) [.num (1/3)])).map (·.cells) =
      some [[0, 0], [1, 2], [1/3, 1/5], [-1, -1], [1/2, 1], [-7/16, 7/16], [-7/16, 7/16]] := by decide +kernel

/-- `GetInverseImage` without `__TransformD2P` -/
def getInverseNoD2P : List Stmt :=
  [
    .call ["self.yValues"] "np.array" ["y", "dtype=np.double"],
    .call ["x"] "self.__GetXonY" [],
    .ret "x"]

theorem noD2P_not_model :
    runMethod 1 getInverseImageParams getInverseNoD2P g1 (Self.ofObj o1 0 2) [.ref 2] ≠
      some (MRes.ofStep (step g1 o1 (.inverse 2)) 0 2) := by
  intro h
  have h' := congrArg (fun o => (view o).map (·.outNumber)) h
  revert h'
  decide +kernel

/-- `__init__` allocating the scratch array BEFORE `numberOfFloatVariables` is stored -/
def initZerosFirst : List Stmt :=
  [
    .call ["self.yValues"] "np.zeros" ["self.numberOfFloatVariables", "dtype=np.double"],
    .assign "self.numberOfFloatVariables" "numberOfFloatVariables",
    .call ["self.lowerBoundOfFloatVariables"] "np.copy" ["lowerBoundOfFloatVariables"],
    .call ["self.upperBoundOfFloatVariables"] "np.copy" ["upperBoundOfFloatVariables"],
    .assign "self.evolventDensity" "evolventDensity",
    .assign "self.nexpValue" "0",
    .assign "self.nexpExtended" "1.0",
    .forEach "i" "range(0, self.numberOfFloatVariables)" [
      .assign "self.nexpExtended" "self.nexpExtended + self.nexpExtended"]]

/-- reading an attribute that is not assigned yet is stuck -/
theorem initZerosFirst_stuck :
    view (runMethod 0 initParams initZerosFirst h1 {} [.ref 0, .ref 1, .int 1, .int 10]) = none := by decide +kernel

/-- `__init__` without the doubling loop: not the model's object (`nexpExtended = 1` instead of `Ev.nexp 2 = 4`) -/
theorem initNoLoop_not_model :
    runMethod 0 initParams (init.take 7) h2 {} [.ref 0, .ref 1, .int 2, .int 3] ≠
      some { heap := (EvObj.init h2 2 3 0 1).1, self := Self.ofObj (EvObj.init h2 2 3 0 1).2 0 (Ev.nexp 2), out := .unit,
             wrote := [], allocated := [4] } := by
  intro h
  have h' := congrArg (fun o => (view o).map (·.nexp)) h
  revert h'
  decide +kernel

/-! ### the hypotheses of the ties are needed -/

/-- **`init_src` needs valid refs, because the MODEL reads the bounds after allocating the scratch array**: with the dangling ref
`3` (= the size of the heap) as lower bound, the source copies an array that does not exist (empty content here; in Python the
caller cannot even name it), whereas `EvObj.init` reads ref 3 AFTER `alloc` and gets the new scratch array `[0]`.  Irrelevant for
real inputs (`Setup.WF`). -/
example : (view (runMethod 0 initParams init h1 {} [.ref 3, .ref 1, .int 1, .int 10])).map (·.lower) = some (some []) ∧
    (EvObj.init h1 1 10 3 1).2.lower = [0] := by decide +kernel

/-- **`getInverseImage_src` needs an argument with `N` entries**: on a shorter array (here a dangling ref, empty content) the
source raises `IndexError` (stuck), the model's `zipWith` truncates silently -/
example : view (runMethod 1 getInverseImageParams getInverseImage g2 (Self.ofObj o2 0 4) [.ref 9]) = none := by decide +kernel

end EvInterp.Examples
