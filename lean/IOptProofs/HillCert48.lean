import IOptProofs.HillDefs
/-! kernel-evaluated certificates (V), (G), (P), (L) of the Hill functions 960..979 (one block per file, identical template) -/
namespace Hill
set_option maxRecDepth 100000 in
theorem hill_block_48 : ∀ i ∈ List.range' 960 20, hillOK i = true := by decide +kernel
end Hill
