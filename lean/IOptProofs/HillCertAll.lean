import IOptProofs.HillCert0
import IOptProofs.HillCert1
import IOptProofs.HillCert2
import IOptProofs.HillCert3
import IOptProofs.HillCert4
import IOptProofs.HillCert5
import IOptProofs.HillCert6
import IOptProofs.HillCert7
import IOptProofs.HillCert8
import IOptProofs.HillCert9
import IOptProofs.HillCert10
import IOptProofs.HillCert11
import IOptProofs.HillCert12
import IOptProofs.HillCert13
import IOptProofs.HillCert14
import IOptProofs.HillCert15
import IOptProofs.HillCert16
import IOptProofs.HillCert17
import IOptProofs.HillCert18
import IOptProofs.HillCert19
import IOptProofs.HillCert20
import IOptProofs.HillCert21
import IOptProofs.HillCert22
import IOptProofs.HillCert23
import IOptProofs.HillCert24
import IOptProofs.HillCert25
import IOptProofs.HillCert26
import IOptProofs.HillCert27
import IOptProofs.HillCert28
import IOptProofs.HillCert29
import IOptProofs.HillCert30
import IOptProofs.HillCert31
import IOptProofs.HillCert32
import IOptProofs.HillCert33
import IOptProofs.HillCert34
import IOptProofs.HillCert35
import IOptProofs.HillCert36
import IOptProofs.HillCert37
import IOptProofs.HillCert38
import IOptProofs.HillCert39
import IOptProofs.HillCert40
import IOptProofs.HillCert41
import IOptProofs.HillCert42
import IOptProofs.HillCert43
import IOptProofs.HillCert44
import IOptProofs.HillCert45
import IOptProofs.HillCert46
import IOptProofs.HillCert47
import IOptProofs.HillCert48
import IOptProofs.HillCert49
/-! all 1000 Hill certificates, assembled from the 50 kernel-evaluated blocks -/
namespace Hill
theorem hill_all (i : Nat) (hi : i < 1000) : hillOK i = true := by
  by_cases h0 : i < 20
  · exact hill_block_0 i (List.mem_range'_1.2 ⟨by omega, by omega⟩)
  by_cases h1 : i < 40
  · exact hill_block_1 i (List.mem_range'_1.2 ⟨by omega, by omega⟩)
  by_cases h2 : i < 60
  · exact hill_block_2 i (List.mem_range'_1.2 ⟨by omega, by omega⟩)
  by_cases h3 : i < 80
  · exact hill_block_3 i (List.mem_range'_1.2 ⟨by omega, by omega⟩)
  by_cases h4 : i < 100
  · exact hill_block_4 i (List.mem_range'_1.2 ⟨by omega, by omega⟩)
  by_cases h5 : i < 120
  · exact hill_block_5 i (List.mem_range'_1.2 ⟨by omega, by omega⟩)
  by_cases h6 : i < 140
  · exact hill_block_6 i (List.mem_range'_1.2 ⟨by omega, by omega⟩)
  by_cases h7 : i < 160
  · exact hill_block_7 i (List.mem_range'_1.2 ⟨by omega, by omega⟩)
  by_cases h8 : i < 180
  · exact hill_block_8 i (List.mem_range'_1.2 ⟨by omega, by omega⟩)
  by_cases h9 : i < 200
  · exact hill_block_9 i (List.mem_range'_1.2 ⟨by omega, by omega⟩)
  by_cases h10 : i < 220
  · exact hill_block_10 i (List.mem_range'_1.2 ⟨by omega, by omega⟩)
  by_cases h11 : i < 240
  · exact hill_block_11 i (List.mem_range'_1.2 ⟨by omega, by omega⟩)
  by_cases h12 : i < 260
  · exact hill_block_12 i (List.mem_range'_1.2 ⟨by omega, by omega⟩)
  by_cases h13 : i < 280
  · exact hill_block_13 i (List.mem_range'_1.2 ⟨by omega, by omega⟩)
  by_cases h14 : i < 300
  · exact hill_block_14 i (List.mem_range'_1.2 ⟨by omega, by omega⟩)
  by_cases h15 : i < 320
  · exact hill_block_15 i (List.mem_range'_1.2 ⟨by omega, by omega⟩)
  by_cases h16 : i < 340
  · exact hill_block_16 i (List.mem_range'_1.2 ⟨by omega, by omega⟩)
  by_cases h17 : i < 360
  · exact hill_block_17 i (List.mem_range'_1.2 ⟨by omega, by omega⟩)
  by_cases h18 : i < 380
  · exact hill_block_18 i (List.mem_range'_1.2 ⟨by omega, by omega⟩)
  by_cases h19 : i < 400
  · exact hill_block_19 i (List.mem_range'_1.2 ⟨by omega, by omega⟩)
  by_cases h20 : i < 420
  · exact hill_block_20 i (List.mem_range'_1.2 ⟨by omega, by omega⟩)
  by_cases h21 : i < 440
  · exact hill_block_21 i (List.mem_range'_1.2 ⟨by omega, by omega⟩)
  by_cases h22 : i < 460
  · exact hill_block_22 i (List.mem_range'_1.2 ⟨by omega, by omega⟩)
  by_cases h23 : i < 480
  · exact hill_block_23 i (List.mem_range'_1.2 ⟨by omega, by omega⟩)
  by_cases h24 : i < 500
  · exact hill_block_24 i (List.mem_range'_1.2 ⟨by omega, by omega⟩)
  by_cases h25 : i < 520
  · exact hill_block_25 i (List.mem_range'_1.2 ⟨by omega, by omega⟩)
  by_cases h26 : i < 540
  · exact hill_block_26 i (List.mem_range'_1.2 ⟨by omega, by omega⟩)
  by_cases h27 : i < 560
  · exact hill_block_27 i (List.mem_range'_1.2 ⟨by omega, by omega⟩)
  by_cases h28 : i < 580
  · exact hill_block_28 i (List.mem_range'_1.2 ⟨by omega, by omega⟩)
  by_cases h29 : i < 600
  · exact hill_block_29 i (List.mem_range'_1.2 ⟨by omega, by omega⟩)
  by_cases h30 : i < 620
  · exact hill_block_30 i (List.mem_range'_1.2 ⟨by omega, by omega⟩)
  by_cases h31 : i < 640
  · exact hill_block_31 i (List.mem_range'_1.2 ⟨by omega, by omega⟩)
  by_cases h32 : i < 660
  · exact hill_block_32 i (List.mem_range'_1.2 ⟨by omega, by omega⟩)
  by_cases h33 : i < 680
  · exact hill_block_33 i (List.mem_range'_1.2 ⟨by omega, by omega⟩)
  by_cases h34 : i < 700
  · exact hill_block_34 i (List.mem_range'_1.2 ⟨by omega, by omega⟩)
  by_cases h35 : i < 720
  · exact hill_block_35 i (List.mem_range'_1.2 ⟨by omega, by omega⟩)
  by_cases h36 : i < 740
  · exact hill_block_36 i (List.mem_range'_1.2 ⟨by omega, by omega⟩)
  by_cases h37 : i < 760
  · exact hill_block_37 i (List.mem_range'_1.2 ⟨by omega, by omega⟩)
  by_cases h38 : i < 780
  · exact hill_block_38 i (List.mem_range'_1.2 ⟨by omega, by omega⟩)
  by_cases h39 : i < 800
  · exact hill_block_39 i (List.mem_range'_1.2 ⟨by omega, by omega⟩)
  by_cases h40 : i < 820
  · exact hill_block_40 i (List.mem_range'_1.2 ⟨by omega, by omega⟩)
  by_cases h41 : i < 840
  · exact hill_block_41 i (List.mem_range'_1.2 ⟨by omega, by omega⟩)
  by_cases h42 : i < 860
  · exact hill_block_42 i (List.mem_range'_1.2 ⟨by omega, by omega⟩)
  by_cases h43 : i < 880
  · exact hill_block_43 i (List.mem_range'_1.2 ⟨by omega, by omega⟩)
  by_cases h44 : i < 900
  · exact hill_block_44 i (List.mem_range'_1.2 ⟨by omega, by omega⟩)
  by_cases h45 : i < 920
  · exact hill_block_45 i (List.mem_range'_1.2 ⟨by omega, by omega⟩)
  by_cases h46 : i < 940
  · exact hill_block_46 i (List.mem_range'_1.2 ⟨by omega, by omega⟩)
  by_cases h47 : i < 960
  · exact hill_block_47 i (List.mem_range'_1.2 ⟨by omega, by omega⟩)
  by_cases h48 : i < 980
  · exact hill_block_48 i (List.mem_range'_1.2 ⟨by omega, by omega⟩)
  by_cases h49 : i < 1000
  · exact hill_block_49 i (List.mem_range'_1.2 ⟨by omega, by omega⟩)
  omega
end Hill
