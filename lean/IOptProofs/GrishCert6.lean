import IOptProofs.GrishDefs
/-! kernel-evaluated certificates (V), (G), (P) of the Grishagin functions 31..35 (one block per file, identical template;
one theorem per function so that the kernel's reduction cache is released between functions) -/
namespace Grish
set_option maxRecDepth 100000
theorem grish_ok_31 : grishOK 31 = true := by decide +kernel
theorem grish_ok_32 : grishOK 32 = true := by decide +kernel
theorem grish_ok_33 : grishOK 33 = true := by decide +kernel
theorem grish_ok_34 : grishOK 34 = true := by decide +kernel
theorem grish_ok_35 : grishOK 35 = true := by decide +kernel
theorem grish_block_6 : ∀ k ∈ List.range' 31 5, grishOK k = true := by
  intro k hk
  simp only [List.mem_range'_1] at hk
  obtain ⟨h1, h2⟩ := hk
  have : k = 31 ∨ k = 32 ∨ k = 33 ∨ k = 34 ∨ k = 35 := by omega
  rcases this with rfl | rfl | rfl | rfl | rfl
  · exact grish_ok_31
  · exact grish_ok_32
  · exact grish_ok_33
  · exact grish_ok_34
  · exact grish_ok_35
end Grish
