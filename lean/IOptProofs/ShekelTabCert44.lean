import IOptProofs.ShekelTabDefs
/-! kernel-evaluated C18 table certificates (min / max / Lipschitz tables) of the Shekel functions 880..899
(one block per file, identical template; four kernel evaluations of 5 rows each keep the memory near 1 GB) -/
namespace Shk
set_option maxRecDepth 100000 in
theorem shekel_tab_block_44_a : ∀ i ∈ List.range' 880 5, shekelTabOK i = true := by decide +kernel
set_option maxRecDepth 100000 in
theorem shekel_tab_block_44_b : ∀ i ∈ List.range' 885 5, shekelTabOK i = true := by decide +kernel
set_option maxRecDepth 100000 in
theorem shekel_tab_block_44_c : ∀ i ∈ List.range' 890 5, shekelTabOK i = true := by decide +kernel
set_option maxRecDepth 100000 in
theorem shekel_tab_block_44_d : ∀ i ∈ List.range' 895 5, shekelTabOK i = true := by decide +kernel
theorem shekel_tab_block_44 : ∀ i ∈ List.range' 880 20, shekelTabOK i = true := by
  intro i hi
  have hi' := List.mem_range'_1.1 hi
  if h1 : i < 885 then exact shekel_tab_block_44_a i (List.mem_range'_1.2 ⟨by omega, by omega⟩) else
  if h2 : i < 890 then exact shekel_tab_block_44_b i (List.mem_range'_1.2 ⟨by omega, by omega⟩) else
  if h3 : i < 895 then exact shekel_tab_block_44_c i (List.mem_range'_1.2 ⟨by omega, by omega⟩) else
  exact shekel_tab_block_44_d i (List.mem_range'_1.2 ⟨by omega, by omega⟩)
end Shk
