import IOptProofs.EvFin
/-! # Kernel evaluation of the certificate `EvCert 6` (own file: built in parallel with `EvFinCert7`) -/
namespace Ev
theorem evCert6 : EvCert 6 = true := by decide +kernel
theorem evFacts6 : EvFacts 6 := evFacts_of_cert evCert6
end Ev
