import IOptProofs.WiringInterpDefs
import IOptProofs.ProcInterp
import IOptProofs.ReportInterp
import Lean
/-!
# The glue of the library (`Solver`, the constructors, `SearchDataItem`), taken from the SOURCE TEXT, is what the model assumes
-/

set_option linter.unusedSimpArgs false

open Lean Elab Tactic Meta in
/-- close `a = b` by `Eq.refl a`; the definitional equality is checked by the KERNEL only (the elaborator's unifier is not run: it does
not terminate in reasonable time on the interpreter runs below, the kernel needs about a second).  No axiom is involved: the kernel
accepts the declaration iff `a` and `b` are definitionally equal. -/
elab "kernel_rfl" : tactic => do
  let g ← getMainGoal
  let t ← instantiateMVars (← g.getType)
  let some (_, lhs, _) := t.eq? | throwError "kernel_rfl: the goal is not an equality"
  g.assign (← mkEqRefl lhs)

namespace WiringInterp
open Gen.ProcSrc

/-! ### the parsed program -/

/-- what the parser makes of the generated trees (a readable rendering of the glue; `theProg_eq` proves that it IS `theProg`) -/
def progLit : Prog :=
  { classes := [
      ("Solver",
       { ok := true,
         params := ["problem", "parameters"],
         dflts := [("parameters", (.sym (.dflt "Solver" "parameters") []))],
         body := [
           .assign (.attr "self" [] "problem") (.atom (.path "problem" [])),
           .assign (.attr "self" [] "parameters") (.atom (.path "parameters" [])),
           .assign (.attr "self" [] "_Solver__listeners") (.atom (.emptyList)),
           .construct [.attr "self" [] "searchData"] "SearchData" [(none, .atom (.path "problem" []))],
           .record [.attr "self" [] "evolvent"] "Evolvent" [
               (none, .atom (.path "problem" ["lowerBoundOfFloatVariables"])),
               (none, .atom (.path "problem" ["upperBoundOfFloatVariables"])),
               (none, .atom (.path "problem" ["numberOfFloatVariables"])),
               (none, .atom (.path "parameters" ["evolventDensity"]))],
           .construct [.attr "self" [] "task"] "OptimizationTask" [(none, .atom (.path "problem" []))],
           .construct [.attr "self" [] "method"] "Method" [
               (none, .atom (.path "parameters" [])),
               (none, .atom (.path "self" ["task"])),
               (none, .atom (.path "self" ["evolvent"])),
               (none, .atom (.path "self" ["searchData"]))],
           .construct [.attr "self" [] "process"] "Process" [
               (some "parameters", .atom (.path "parameters" [])),
               (some "task", .atom (.path "self" ["task"])),
               (some "evolvent", .atom (.path "self" ["evolvent"])),
               (some "searchData", .atom (.path "self" ["searchData"])),
               (some "method", .atom (.path "self" ["method"])),
               (some "listeners", .atom (.path "self" ["_Solver__listeners"]))]] }),
      ("Process",
       { ok := true,
         params := ["parameters", "task", "evolvent", "searchData", "method", "listeners"],
         dflts := [],
         body := [
           .assign (.attr "self" [] "parameters") (.atom (.path "parameters" [])),
           .assign (.attr "self" [] "task") (.atom (.path "task" [])),
           .assign (.attr "self" [] "evolvent") (.atom (.path "evolvent" [])),
           .assign (.attr "self" [] "searchData") (.atom (.path "searchData" [])),
           .assign (.attr "self" [] "method") (.atom (.path "method" [])),
           .assign (.attr "self" [] "_Process__listeners") (.atom (.path "listeners" [])),
           .assign (.attr "self" [] "_Process__first_iteration") (.atom (.lit (.bool true))),
           .assign (.attr "self" [] "localMethodIterationCount") (.atom (.lit (.int 0))),
           .assign (.attr "self" [] "_Process__refinedTrial") (.atom (.lit .none))] }),
      ("Method",
       { ok := true,
         params := ["parameters", "task", "evolvent", "searchData"],
         dflts := [],
         body := [
           .assign (.attr "self" [] "stop") (.atom (.lit (.bool false))),
           .assign (.attr "self" [] "recalc") (.atom (.lit (.bool true))),
           .assign (.attr "self" [] "iterationsCount") (.atom (.lit (.int 0))),
           .assign (.attr "self" [] "best") (.atom (.lit .none)),
           .assign (.attr "self" [] "parameters") (.atom (.path "parameters" [])),
           .assign (.attr "self" [] "task") (.atom (.path "task" [])),
           .assign (.attr "self" [] "evolvent") (.atom (.path "evolvent" [])),
           .assign (.attr "self" [] "searchData") (.atom (.path "searchData" [])),
           .assign (.attr "self" [] "M")
               (.comp (some (.lit "1.0")) (.add (.atom (.path "task" ["problem", "numberOfObjectives"])) (.atom (.path "task" ["problem", "numberOfConstraints"])))),
           .assign (.attr "self" [] "Z")
               (.comp (some (.lit "np.inf")) (.add (.atom (.path "task" ["problem", "numberOfObjectives"])) (.atom (.path "task" ["problem", "numberOfConstraints"])))),
           .assign (.attr "self" [] "dimension") (.atom (.path "task" ["problem", "numberOfFloatVariables"])),
           .assign (.attr "self" ["searchData", "solution"] "solutionAccuracy") (.atom (.lit (.lit "np.inf")))] }),
      ("OptimizationTask",
       { ok := true,
         params := ["problem", "perm"],
         dflts := [("perm", .none)],
         body := [
           .assign (.attr "self" [] "problem") (.atom (.path "problem" [])),
           .ifNone (.path "perm" []) [
               .ndarray [.attr "self" [] "perm"] (.add (.atom (.path "self" ["problem", "numberOfObjectives"])) (.atom (.path "self" ["problem", "numberOfConstraints"]))),
               .forRange "i" (.path "self" ["perm", "size"]) [
                   .assign (.index (.atom (.path "self" ["perm"])) (.atom (.path "i" []))) (.atom (.path "i" []))]] [
               .assign (.attr "self" [] "perm") (.atom (.path "perm" []))]] }),
      ("Solution",
       { ok := true,
         params := ["problem", "bestTrials", "numberOfGlobalTrials", "numberOfLocalTrials", "solvingTime", "solutionAccuracy"],
         dflts := [("bestTrials", .none),
                   ("numberOfGlobalTrials", (.int 0)),
                   ("numberOfLocalTrials", (.int 0)),
                   ("solvingTime", (.lit "0.0")),
                   ("solutionAccuracy", (.lit "0.0"))],
         body := [
           .ifNone (.path "bestTrials" []) [
               .assign (.var "bestTrials") (.list1 (.ctor "Trial" [(none, .emptyList), (none, .emptyList)]))] [],
           .assign (.attr "self" [] "problem") (.atom (.path "problem" [])),
           .assign (.attr "self" [] "bestTrials") (.atom (.path "bestTrials" [])),
           .assign (.attr "self" [] "numberOfGlobalTrials") (.atom (.path "numberOfGlobalTrials" [])),
           .assign (.attr "self" [] "numberOfLocalTrials") (.atom (.path "numberOfLocalTrials" [])),
           .assign (.attr "self" [] "solvingTime") (.atom (.path "solvingTime" [])),
           .assign (.attr "self" [] "solutionAccuracy") (.atom (.path "solutionAccuracy" []))] }),
      ("SolverParameters",
       { ok := true,
         params := ["eps", "r", "itersLimit", "evolventDensity", "epsR", "refineSolution", "startPoint"],
         dflts := [("eps", (.lit "0.01")),
                   ("r", (.lit "2.0")),
                   ("itersLimit", (.int 20000)),
                   ("evolventDensity", (.int 10)),
                   ("epsR", (.lit "0.001")),
                   ("refineSolution", (.bool false)),
                   ("startPoint", (.sym (.dflt "SolverParameters" "startPoint") []))],
         body := [
           .assign (.attr "self" [] "eps") (.atom (.path "eps" [])),
           .assign (.attr "self" [] "r") (.atom (.path "r" [])),
           .assign (.attr "self" [] "itersLimit") (.atom (.path "itersLimit" [])),
           .assign (.attr "self" [] "evolventDensity") (.atom (.path "evolventDensity" [])),
           .assign (.attr "self" [] "epsR") (.atom (.path "epsR" [])),
           .assign (.attr "self" [] "refineSolution") (.atom (.path "refineSolution" [])),
           .assign (.attr "self" [] "startPoint") (.atom (.path "startPoint" []))] }),
      ("Point",
       { ok := true,
         params := ["floatVariables", "discreteVariables"],
         dflts := [],
         body := [
           .assign (.attr "self" [] "floatVariables") (.atom (.path "floatVariables" [])),
           .assign (.attr "self" [] "discreteVariables") (.atom (.path "discreteVariables" []))] }),
      ("FunctionValue",
       { ok := true,
         params := ["type", "functionID"],
         dflts := [("type", (.lit "FunctionType.OBJECTIV")), ("functionID", (.lit "''"))],
         body := [
           .assign (.attr "self" [] "type") (.atom (.path "type" [])),
           .assign (.attr "self" [] "functionID") (.atom (.path "functionID" [])),
           .assign (.attr "self" [] "value") (.atom (.lit (.lit "0.0")))] }),
      ("Trial",
       { ok := true,
         params := ["point", "functionValues"],
         dflts := [],
         body := [
           .assign (.attr "self" [] "point") (.atom (.path "point" [])),
           .assign (.attr "self" [] "functionValues") (.atom (.path "functionValues" []))] }),
      ("SearchDataItem",
       { ok := true,
         params := ["y", "x", "functionValues", "discreteValueIndex"],
         dflts := [("functionValues", .none), ("discreteValueIndex", (.int 0))],
         body := [
           .ifNone (.path "functionValues" []) [
               .assign (.var "functionValues") (.list1 (.ctor "FunctionValue" []))] [],
           .superInit (some "Trial") [
               (some "point", .atom (.path "y" [])),
               (some "functionValues", .atom (.path "functionValues" []))],
           .assign (.attr "self" [] "point") (.atom (.path "y" [])),
           .assign (.attr "self" [] "_SearchDataItem__x") (.atom (.path "x" [])),
           .assign (.attr "self" [] "_SearchDataItem__discreteValueIndex") (.atom (.path "discreteValueIndex" [])),
           .assign (.attr "self" [] "_SearchDataItem__index") (.atom (.lit (.int (-2)))),
           .assign (.attr "self" [] "_SearchDataItem__z") (.atom (.lit (.lit "sys.float_info.max"))),
           .assign (.attr "self" [] "_SearchDataItem__leftPoint") (.atom (.lit .none)),
           .assign (.attr "self" [] "_SearchDataItem__rightPoint") (.atom (.lit .none)),
           .assign (.attr "self" [] "delta") (.atom (.lit (.lit "-1.0"))),
           .assign (.attr "self" [] "globalR") (.atom (.lit (.lit "-1.0"))),
           .assign (.attr "self" [] "localR") (.atom (.lit (.lit "-1.0"))),
           .assign (.attr "self" [] "iterationNumber") (.atom (.lit (.int (-1))))] }),
      ("SearchData",
       { ok := true,
         params := ["problem", "maxlen"],
         dflts := [("maxlen", .none)],
         body := [
           .construct [.attr "self" [] "solution"] "Solution" [(none, .atom (.path "problem" []))],
           .assign (.attr "self" [] "_allTrials") (.atom (.emptyList)),
           .construct [.attr "self" [] "_RGlobalQueue"] "CharacteristicsQueue" [(none, .atom (.path "maxlen" []))],
           .assign (.attr "self" [] "_SearchData__firstDataItem") (.atom (.lit .none))] }),
      ("CharacteristicsQueue",
       { ok := true,
         params := ["maxlen"],
         dflts := [],
         body := [
           .record [.attr "self" [] "_CharacteristicsQueue__baseQueue"] "DEPQ" [(some "iterable", .atom (.lit .none)), (some "maxlen", .atom (.path "maxlen" []))]] })],
    methods := [
      (("Solver", "Solve"),
       { ok := true,
         params := [],
         dflts := [],
         body := [
           .retCall (.path "self" ["process"]) "Solve"] }),
      (("Solver", "DoGlobalIteration"),
       { ok := true,
         params := ["number"],
         dflts := [("number", (.int 1))],
         body := [
           .mcall [] (.path "self" ["process"]) "DoGlobalIteration" [(none, .atom (.path "number" []))]] }),
      (("Solver", "DoLocalRefinement"),
       { ok := true,
         params := ["number"],
         dflts := [("number", (.int 1))],
         body := [
           .mcall [] (.path "self" ["process"]) "DoLocalRefinement" [(none, .atom (.path "number" []))]] }),
      (("Solver", "GetResults"),
       { ok := true,
         params := [],
         dflts := [],
         body := [
           .retCall (.path "self" ["process"]) "GetResults"] }),
      (("Solver", "SaveProgress"),
       { ok := true,
         params := ["fileName"],
         dflts := [],
         body := [
           .mcall [] (.path "self" ["searchData"]) "SaveProgress" [(some "fileName", .atom (.path "fileName" []))]] }),
      (("Solver", "LoadProgress"),
       { ok := true,
         params := ["fileName"],
         dflts := [],
         body := [
           .mcall [] (.path "self" ["searchData"]) "LoadProgress" [(some "fileName", .atom (.path "fileName" []))]] }),
      (("Solver", "RefreshListener"),
       { ok := true,
         params := [],
         dflts := [],
         body := [] }),
      (("Solver", "AddListener"),
       { ok := true,
         params := ["listener"],
         dflts := [],
         body := [
           .mcall [] (.path "self" ["_Solver__listeners"]) "append" [(none, .atom (.path "listener" []))]] }),
      (("OptimizationTask", "Calculate"),
       { ok := true,
         params := ["dataItem", "functionIndex", "type"],
         dflts := [("type", (.lit "TypeOfCalculation.FUNCTION"))],
         body := [
           .mcall [.index (.atom (.path "dataItem" ["functionValues"])) (.index (.atom (.path "self" ["perm"])) (.atom (.path "functionIndex" [])))] (.path "self" ["problem"]) "Calculate" [
               (none, .atom (.path "dataItem" ["point"])),
               (none, .index (.atom (.path "dataItem" ["functionValues"])) (.index (.atom (.path "self" ["perm"])) (.atom (.path "functionIndex" []))))],
           .ret (.atom (.path "dataItem" []))] }),
      (("SearchDataItem", "GetX"),
       { ok := true,
         params := [],
         dflts := [],
         body := [
           .ret (.atom (.path "self" ["_SearchDataItem__x"]))] }),
      (("SearchDataItem", "GetY"),
       { ok := true,
         params := [],
         dflts := [],
         body := [
           .ret (.atom (.path "self" ["point"]))] }),
      (("SearchDataItem", "GetDiscreteValueIndex"),
       { ok := true,
         params := [],
         dflts := [],
         body := [
           .ret (.atom (.path "self" ["_SearchDataItem__discreteValueIndex"]))] }),
      (("SearchDataItem", "SetIndex"),
       { ok := true,
         params := ["index"],
         dflts := [],
         body := [
           .assign (.attr "self" [] "_SearchDataItem__index") (.atom (.path "index" []))] }),
      (("SearchDataItem", "GetIndex"),
       { ok := true,
         params := [],
         dflts := [],
         body := [
           .ret (.atom (.path "self" ["_SearchDataItem__index"]))] }),
      (("SearchDataItem", "SetZ"),
       { ok := true,
         params := ["z"],
         dflts := [],
         body := [
           .assign (.attr "self" [] "_SearchDataItem__z") (.atom (.path "z" []))] }),
      (("SearchDataItem", "GetZ"),
       { ok := true,
         params := [],
         dflts := [],
         body := [
           .ret (.atom (.path "self" ["_SearchDataItem__z"]))] }),
      (("SearchDataItem", "SetLeft"),
       { ok := true,
         params := ["point"],
         dflts := [],
         body := [
           .assign (.attr "self" [] "_SearchDataItem__leftPoint") (.atom (.path "point" []))] }),
      (("SearchDataItem", "GetLeft"),
       { ok := true,
         params := [],
         dflts := [],
         body := [
           .ret (.atom (.path "self" ["_SearchDataItem__leftPoint"]))] }),
      (("SearchDataItem", "SetRight"),
       { ok := true,
         params := ["point"],
         dflts := [],
         body := [
           .assign (.attr "self" [] "_SearchDataItem__rightPoint") (.atom (.path "point" []))] }),
      (("SearchDataItem", "GetRight"),
       { ok := true,
         params := [],
         dflts := [],
         body := [
           .ret (.atom (.path "self" ["_SearchDataItem__rightPoint"]))] })] }

/-- **the parser, run by the kernel on the generated trees, gives `progLit`** -/
theorem theProg_eq : theProg = progLit := by kernel_rfl

/-! ### `Solver.__init__` -/

/-- the oracle of the model's setting: ONE objective, no constraints (`Method.M`, `Method.Z` have one entry: the model's scalars
`State.M`, `State.Z`) -/
def oneObjective : Ctx := ⟨fun _ p => if p == ["numberOfObjectives"] then 1 else 0⟩

/-- **the object graph after `Solver(problem, parameters)`**, for the external objects `P` (the problem) and `Q` (the parameters), from
the empty heap.  Addresses are allocation order:
`0` the solver, `1` ITS listener list, `2` the `SearchData` (`3`–`7` its `Solution` with the placeholder `[Trial([], [])]`, `8` `_allTrials`,
`9`, `10` the queue), `11` the `Evolvent`, `12` the `OptimizationTask` (`13` its identity permutation), `14` the `Method` (`15` `M`, `16` `Z`),
`17` the `Process`. -/
def expectedWiring (P Q : Root) : List Obj := [
  /- 0 -/ { cls := "Solver",
            fields := [("problem", .sym P []), ("parameters", .sym Q []), ("_Solver__listeners", .ref 1), ("searchData", .ref 2),
                       ("evolvent", .ref 11), ("task", .ref 12), ("method", .ref 14), ("process", .ref 17)] },
  /- 1 -/ { cls := "list" },
  /- 2 -/ { cls := "SearchData",
            fields := [("solution", .ref 3), ("_allTrials", .ref 8), ("_RGlobalQueue", .ref 9),
                       ("_SearchData__firstDataItem", .none)] },
  /- 3 -/ { cls := "Solution",
            fields := [("problem", .sym P []), ("bestTrials", .ref 7), ("numberOfGlobalTrials", .int 0),
                       ("numberOfLocalTrials", .int 0), ("solvingTime", .lit "0.0"),
                       ("solutionAccuracy", .lit "np.inf")] },           -- `0.0` overwritten by `Method.__init__`
  /- 4 -/ { cls := "list" },
  /- 5 -/ { cls := "list" },
  /- 6 -/ { cls := "Trial", fields := [("point", .ref 4), ("functionValues", .ref 5)] },
  /- 7 -/ { cls := "list", elems := [.ref 6] },
  /- 8 -/ { cls := "list" },
  /- 9 -/ { cls := "CharacteristicsQueue", fields := [("_CharacteristicsQueue__baseQueue", .ref 10)] },
  /- 10 -/ { cls := "DEPQ", fields := [("iterable", .none), ("maxlen", .none)] },
  /- 11 -/ { cls := "Evolvent",
             fields := [("#0", .sym P ["lowerBoundOfFloatVariables"]), ("#1", .sym P ["upperBoundOfFloatVariables"]),
                        ("#2", .sym P ["numberOfFloatVariables"]), ("#3", .sym Q ["evolventDensity"])] },
  /- 12 -/ { cls := "OptimizationTask", fields := [("problem", .sym P []), ("perm", .ref 13)] },
  /- 13 -/ { cls := "ndarray", elems := [.int 0] },
  /- 14 -/ { cls := "Method",
             fields := [("stop", .bool false), ("recalc", .bool true), ("iterationsCount", .int 0), ("best", .none),
                        ("parameters", .sym Q []), ("task", .ref 12), ("evolvent", .ref 11), ("searchData", .ref 2),
                        ("M", .ref 15), ("Z", .ref 16), ("dimension", .sym P ["numberOfFloatVariables"])] },
  /- 15 -/ { cls := "list", elems := [.lit "1.0"] },
  /- 16 -/ { cls := "list", elems := [.lit "np.inf"] },
  /- 17 -/ { cls := "Process",
             fields := [("parameters", .sym Q []), ("task", .ref 12), ("evolvent", .ref 11), ("searchData", .ref 2),
                        ("method", .ref 14), ("_Process__listeners", .ref 1), ("_Process__first_iteration", .bool true),
                        ("localMethodIterationCount", .int 0), ("_Process__refinedTrial", .none)] }]

/-- the world after `Solver(problem, parameters)` -/
def wired (P Q : Root) : World := { heap := expectedWiring P Q }

/-- **`Solver.__init__`, source trees = the wiring the model assumes.**  Evaluating `Solver(P, Q)` from the empty heap - the generated
tree of `Solver.__init__`, and through it the generated trees of `SearchData.__init__`, `Solution.__init__`, `Trial.__init__`,
`CharacteristicsQueue.__init__`, `OptimizationTask.__init__`, `Method.__init__`, `Process.__init__` - for ANY external problem `P` and
parameters object `Q` (one objective, no constraints), at any call depth `≥ 4`, returns the solver at address `0` and leaves exactly the
heap `expectedWiring P Q`; no call leaves the fragment. -/
theorem solver_init_wiring (P Q : Root) (d : Nat) :
    new theProg oneObjective (d + 4) "Solver" [.sym P [], .sym Q []] [] {} = some (.ref 0, wired P Q) := by
  rw [theProg_eq]; kernel_rfl

/-- … the same with keyword arguments -/
theorem solver_init_wiring_kw (P Q : Root) (d : Nat) :
    new theProg oneObjective (d + 4) "Solver" [] [("parameters", .sym Q []), ("problem", .sym P [])] {} = some (.ref 0, wired P Q) := by
  rw [theProg_eq]; kernel_rfl

/-- … and with the parameters left out: `Q` is THE default object `SolverParameters()` made once when `solver.py` was loaded
(shared by every such solver: the allow-listed site of `IOptProps/SharedState.lean`) -/
theorem solver_init_wiring_default (P : Root) (d : Nat) :
    new theProg oneObjective (d + 4) "Solver" [.sym P []] [] {} = some (.ref 0, wired P (.dflt "Solver" "parameters")) := by
  rw [theProg_eq]; kernel_rfl

/-- call depth 3 is not enough (`Solver` → `SearchData` → `Solution` → `Trial`): the hypothesis `d + 4` is needed -/
example : new theProg oneObjective 3 "Solver" [.sym (.user 0) [], .sym (.user 1) []] [] {} = none := by
  rw [theProg_eq]; decide +kernel

/-! #### the readable corollaries -/

/-- follow attributes (mangled names) from a value -/
abbrev World.at (w : World) (v : Val) (path : List String) : Option Val := readFields w v path

/-- **ONE search state, ONE evolvent, ONE task, ONE method, ONE parameter record, ONE listener list.**  With `S` the solver:
`S.process.method` is `S.method`; `S.method.searchData`, `S.process.searchData` and `S.searchData` are the same object, likewise the
evolvent and the task; `parameters` of the solver, of the method and of the process are the CALLER's object `Q` itself;
`S.task.problem` is the caller's `P`; `S.process.__listeners` is `S.__listeners` (the same list OBJECT, not a copy). -/
theorem solver_init_sharing (P Q : Root) :
    let W := wired P Q
    let S := Val.ref 0
    (W.at S ["process", "method"] = some (.ref 14) ∧ W.at S ["method"] = some (.ref 14)) ∧
    (W.at S ["method", "searchData"] = some (.ref 2) ∧ W.at S ["process", "searchData"] = some (.ref 2) ∧
      W.at S ["searchData"] = some (.ref 2)) ∧
    (W.at S ["method", "evolvent"] = some (.ref 11) ∧ W.at S ["process", "evolvent"] = some (.ref 11) ∧
      W.at S ["evolvent"] = some (.ref 11)) ∧
    (W.at S ["method", "task"] = some (.ref 12) ∧ W.at S ["process", "task"] = some (.ref 12) ∧ W.at S ["task"] = some (.ref 12)) ∧
    (W.at S ["method", "parameters"] = some (.sym Q []) ∧ W.at S ["process", "parameters"] = some (.sym Q []) ∧
      W.at S ["parameters"] = some (.sym Q [])) ∧
    (W.at S ["task", "problem"] = some (.sym P []) ∧ W.at S ["problem"] = some (.sym P []) ∧
      W.at S ["searchData", "solution", "problem"] = some (.sym P [])) ∧
    (W.at S ["process", "_Process__listeners"] = some (.ref 1) ∧ W.at S ["_Solver__listeners"] = some (.ref 1)) := by
  refine ⟨⟨?_, ?_⟩, ⟨?_, ?_, ?_⟩, ⟨?_, ?_, ?_⟩, ⟨?_, ?_, ?_⟩, ⟨?_, ?_, ?_⟩, ⟨?_, ?_, ?_⟩, ⟨?_, ?_⟩⟩ <;> kernel_rfl

/-- **exactly one object of each kind** is allocated: one `SearchData`, one `Evolvent`, one `OptimizationTask`, one `Method`, one
`Process` (and one `Solution`, one `Solver`) -/
theorem solver_init_counts (P Q : Root) :
    let W := wired P Q
    W.count "SearchData" = 1 ∧ W.count "Evolvent" = 1 ∧ W.count "OptimizationTask" = 1 ∧ W.count "Method" = 1 ∧
    W.count "Process" = 1 ∧ W.count "Solution" = 1 ∧ W.count "Solver" = 1 ∧ W.heap.length = 18 := by
  refine ⟨?_, ?_, ?_, ?_, ?_, ?_, ?_, ?_⟩ <;> kernel_rfl

/-- **what reaches the evolvent** (the content of `IOptModel/Solver.lean`, property C20): the bounds and the dimension of the caller's
problem and `parameters.evolventDensity` of the caller's parameters object, in this order -/
theorem solver_init_evolvent (P Q : Root) :
    (wired P Q).heap[11]? = some
      { cls := "Evolvent",
        fields := [("#0", .sym P ["lowerBoundOfFloatVariables"]), ("#1", .sym P ["upperBoundOfFloatVariables"]),
                   ("#2", .sym P ["numberOfFloatVariables"]), ("#3", .sym Q ["evolventDensity"])] } := by
  kernel_rfl

/-- **the initial values the constructors store**: `__first_iteration = True`, `__refinedTrial = None`,
`localMethodIterationCount = 0`; `recalc = True`, `best = None`, `iterationsCount = 0`, `stop = False`, `M = [1.0]`, `Z = [inf]`;
`solutionAccuracy = inf` (the model's `minDelta = none`), `numberOfGlobalTrials = numberOfLocalTrials = 0`, `bestTrials` a list holding
the placeholder `Trial([], [])`; the search data empty (`_allTrials = []`, `__firstDataItem = None`); the permutation of the task is
the identity `[0]`. -/
theorem solver_init_flags (P Q : Root) :
    let W := wired P Q
    let S := Val.ref 0
    (W.at S ["process", "_Process__first_iteration"] = some (.bool true) ∧
      W.at S ["process", "_Process__refinedTrial"] = some .none ∧
      W.at S ["process", "localMethodIterationCount"] = some (.int 0)) ∧
    (W.at S ["method", "recalc"] = some (.bool true) ∧ W.at S ["method", "best"] = some .none ∧
      W.at S ["method", "iterationsCount"] = some (.int 0) ∧ W.at S ["method", "stop"] = some (.bool false) ∧
      W.at S ["method", "M"] = some (.ref 15) ∧ W.heap[15]? = some { cls := "list", elems := [.lit "1.0"] } ∧
      W.at S ["method", "Z"] = some (.ref 16) ∧ W.heap[16]? = some { cls := "list", elems := [.lit "np.inf"] } ∧
      W.at S ["method", "dimension"] = some (.sym P ["numberOfFloatVariables"])) ∧
    (W.at S ["searchData", "solution", "solutionAccuracy"] = some (.lit "np.inf") ∧
      W.at S ["searchData", "solution", "numberOfGlobalTrials"] = some (.int 0) ∧
      W.at S ["searchData", "solution", "numberOfLocalTrials"] = some (.int 0) ∧
      W.at S ["searchData", "solution", "bestTrials"] = some (.ref 7) ∧ W.heap[7]? = some { cls := "list", elems := [.ref 6] } ∧
      W.heap[6]? = some { cls := "Trial", fields := [("point", .ref 4), ("functionValues", .ref 5)] }) ∧
    (W.at S ["searchData", "_allTrials"] = some (.ref 8) ∧ W.heap[8]? = some { cls := "list" } ∧
      W.at S ["searchData", "_SearchData__firstDataItem"] = some .none) ∧
    (W.at S ["task", "perm"] = some (.ref 13) ∧ W.heap[13]? = some { cls := "ndarray", elems := [.int 0] }) := by
  refine ⟨⟨?_, ?_, ?_⟩, ⟨?_, ?_, ?_, ?_, ?_, ?_, ?_, ?_, ?_⟩, ⟨?_, ?_, ?_, ?_, ?_, ?_⟩, ⟨?_, ?_, ?_⟩, ⟨?_, ?_⟩⟩ <;> kernel_rfl

/-! ### the facade: `AddListener`, and the delegation to THE process object -/

/-- the wired world in which the listener list (address `1`) holds `ls` and the calls `tr` have left the fragment so far: the states
reached from `wired P Q` by facade calls (`solver_*_delegates`, `solver_AddListener_wired`) -/
def wiredL (P Q : Root) (ls : List Val) (tr : List Call) : World :=
  { heap := (expectedWiring P Q).set 1 { cls := "list", elems := ls }, trace := tr }

theorem wiredL_nil (P Q : Root) : wiredL P Q [] [] = wired P Q := by kernel_rfl

/-- `AddListener(l)` (generated tree), whatever was added and whatever facade calls were made before: `l` is appended to the list
object at address `1`; nothing else changes -/
theorem solver_AddListener_wired (c : Ctx) (d : Nat) (P Q : Root) (ls : List Val) (tr : List Call) (l : Val) :
    callMethod theProg c d "Solver" "AddListener" (.ref 0) [l] [] (wiredL P Q ls tr) = some (wiredL P Q (ls ++ [l]) tr, none) := by
  rw [theProg_eq]; kernel_rfl

/-- `AddListener` called for each element of a list, in order -/
def addListeners (pg : Prog) (c : Ctx) (d : Nat) (self : Val) : List Val → World → Option World
  | [], w => some w
  | l :: rest, w =>
    match callMethod pg c d "Solver" "AddListener" self [l] [] w with
    | some (w', _) => addListeners pg c d self rest w'
    | none => none

/-- **`n` calls of `AddListener` ⇒ the `n` listeners, in call order, in the list object that the process reads.**  The process holds
the SAME list object as the solver (`solver_init_sharing`), so what `for listener in self.__listeners` of `process.py` iterates over
is `ls ++ new`: the listeners added before any facade call and those added after. -/
theorem solver_addListener_shared (c : Ctx) (d : Nat) (P Q : Root) (tr : List Call) (new : List Val) :
    ∀ ls : List Val, addListeners theProg c d (.ref 0) new (wiredL P Q ls tr) = some (wiredL P Q (ls ++ new) tr) := by
  induction new with
  | nil => intro ls; simp [addListeners]
  | cons l rest ih =>
    intro ls
    rw [addListeners, solver_AddListener_wired]
    simp only []
    rw [ih, List.append_assoc]; rfl

/-- … and that IS the list of the process: `S.process.__listeners` is the object at address `1`, whose elements are `ls` -/
theorem wiredL_process_listeners (P Q : Root) (ls : List Val) (tr : List Call) :
    (wiredL P Q ls tr).at (.ref 0) ["process", "_Process__listeners"] = some (.ref 1) ∧
    (wiredL P Q ls tr).at (.ref 0) ["_Solver__listeners"] = some (.ref 1) ∧
    (wiredL P Q ls tr).heap[1]? = some { cls := "list", elems := ls } := by
  refine ⟨?_, ?_, ?_⟩ <;> kernel_rfl

/-- **`Solver.Solve()` is ONE call `Solve()` on THE process object, and returns its result** (whatever listeners were added,
whatever calls were made before): the heap is untouched, the call is sent to address `17` = `S.process`, without arguments, and the
value returned is the value of that call. -/
theorem solver_Solve_delegates (c : Ctx) (d : Nat) (P Q : Root) (ls : List Val) (tr : List Call) :
    callMethod theProg c d "Solver" "Solve" (.ref 0) [] [] (wiredL P Q ls tr) =
      some (wiredL P Q ls (tr ++ [{ recv := .ref 17, meth := "Solve" }]), some (.res tr.length)) := by
  rw [theProg_eq]; kernel_rfl

/-- **`Solver.GetResults()` is ONE call `GetResults()` on THE process object, and returns its result** -/
theorem solver_GetResults_delegates (c : Ctx) (d : Nat) (P Q : Root) (ls : List Val) (tr : List Call) :
    callMethod theProg c d "Solver" "GetResults" (.ref 0) [] [] (wiredL P Q ls tr) =
      some (wiredL P Q ls (tr ++ [{ recv := .ref 17, meth := "GetResults" }]), some (.res tr.length)) := by
  rw [theProg_eq]; kernel_rfl

/-- **`Solver.DoGlobalIteration(number)` is ONE call `DoGlobalIteration(number)` on THE process object** (same argument; the value
is dropped: the facade returns `None`) -/
theorem solver_DoGlobalIteration_delegates (c : Ctx) (d : Nat) (P Q : Root) (ls : List Val) (tr : List Call) (number : Val) :
    callMethod theProg c d "Solver" "DoGlobalIteration" (.ref 0) [number] [] (wiredL P Q ls tr) =
      some (wiredL P Q ls (tr ++ [{ recv := .ref 17, meth := "DoGlobalIteration", args := [number] }]), none) := by
  rw [theProg_eq]; kernel_rfl

/-- … `number` given by keyword; and left out: the default of the FACADE, `1` (`solver_DoGlobalIterationDefaults`), is passed on -/
theorem solver_DoGlobalIteration_delegates_kw_default (c : Ctx) (d : Nat) (P Q : Root) (ls : List Val) (tr : List Call) (number : Val) :
    callMethod theProg c d "Solver" "DoGlobalIteration" (.ref 0) [] [("number", number)] (wiredL P Q ls tr) =
      some (wiredL P Q ls (tr ++ [{ recv := .ref 17, meth := "DoGlobalIteration", args := [number] }]), none) ∧
    callMethod theProg c d "Solver" "DoGlobalIteration" (.ref 0) [] [] (wiredL P Q ls tr) =
      some (wiredL P Q ls (tr ++ [{ recv := .ref 17, meth := "DoGlobalIteration", args := [.int 1] }]), none) := by
  rw [theProg_eq]; constructor <;> kernel_rfl

/-- **`Solver.DoLocalRefinement(number)` is ONE call `DoLocalRefinement(number)` on THE process object**; default `1` -/
theorem solver_DoLocalRefinement_delegates (c : Ctx) (d : Nat) (P Q : Root) (ls : List Val) (tr : List Call) (number : Val) :
    callMethod theProg c d "Solver" "DoLocalRefinement" (.ref 0) [number] [] (wiredL P Q ls tr) =
      some (wiredL P Q ls (tr ++ [{ recv := .ref 17, meth := "DoLocalRefinement", args := [number] }]), none) ∧
    callMethod theProg c d "Solver" "DoLocalRefinement" (.ref 0) [] [] (wiredL P Q ls tr) =
      some (wiredL P Q ls (tr ++ [{ recv := .ref 17, meth := "DoLocalRefinement", args := [.int 1] }]), none) := by
  rw [theProg_eq]; constructor <;> kernel_rfl

/-- `SaveProgress` / `LoadProgress` go to THE `SearchData` (address `2`, the one the method and the process hold); `RefreshListener`
does nothing -/
theorem solver_progress_delegates (c : Ctx) (d : Nat) (P Q : Root) (ls : List Val) (tr : List Call) (fileName : Val) :
    callMethod theProg c d "Solver" "SaveProgress" (.ref 0) [fileName] [] (wiredL P Q ls tr) =
      some (wiredL P Q ls (tr ++ [{ recv := .ref 2, meth := "SaveProgress", kwargs := [("fileName", fileName)] }]), none) ∧
    callMethod theProg c d "Solver" "LoadProgress" (.ref 0) [fileName] [] (wiredL P Q ls tr) =
      some (wiredL P Q ls (tr ++ [{ recv := .ref 2, meth := "LoadProgress", kwargs := [("fileName", fileName)] }]), none) ∧
    callMethod theProg c d "Solver" "RefreshListener" (.ref 0) [] [] (wiredL P Q ls tr) = some (wiredL P Q ls tr, none) := by
  rw [theProg_eq]; refine ⟨?_, ?_, ?_⟩ <;> kernel_rfl

/-- a wrong number of arguments is not silently accepted -/
example : callMethod theProg oneObjective 0 "Solver" "Solve" (.ref 0) [.int 1] [] (wired (.user 0) (.user 1)) = none ∧
    callMethod theProg oneObjective 0 "Solver" "DoGlobalIteration" (.ref 0) [.int 1, .int 2] [] (wired (.user 0) (.user 1)) = none ∧
    callMethod theProg oneObjective 0 "Solver" "DoGlobalIteration" (.ref 0) [] [("n", .int 2)] (wired (.user 0) (.user 1)) = none := by
  rw [theProg_eq]; decide +kernel

/-! ### `SearchDataItem`: what the constructor stores, and the accessors -/

/-- **the object graph after `SearchDataItem(y, x)`** (the defaults `functionValues=None`, `discreteValueIndex=0`): address `0` the
item, `1` its fresh `FunctionValue()` (value `0.0`), `2` the fresh list `[FunctionValue()]` -/
def expectedItem (y x : Val) : List Obj := [
  { cls := "SearchDataItem",
    fields := [("point", y), ("functionValues", .ref 2), ("_SearchDataItem__x", x), ("_SearchDataItem__discreteValueIndex", .int 0),
               ("_SearchDataItem__index", .int (-2)), ("_SearchDataItem__z", .lit "sys.float_info.max"),
               ("_SearchDataItem__leftPoint", .none), ("_SearchDataItem__rightPoint", .none), ("delta", .lit "-1.0"),
               ("globalR", .lit "-1.0"), ("localR", .lit "-1.0"), ("iterationNumber", .int (-1))] },
  { cls := "FunctionValue", fields := [("type", .lit "FunctionType.OBJECTIV"), ("functionID", .lit "''"), ("value", .lit "0.0")] },
  { cls := "list", elems := [.ref 1] }]

/-- **`SearchDataItem.__init__`, source tree** (through `super().__init__` = the generated tree of `Trial.__init__`, and
`FunctionValue.__init__`): for ANY point `y` and coordinate `x` -/
theorem searchDataItem_init (c : Ctx) (d : Nat) (y x : Val) :
    new theProg c (d + 2) "SearchDataItem" [y, x] [] {} = some (.ref 0, { heap := expectedItem y x }) := by
  rw [theProg_eq]; kernel_rfl

/-- **the getters after `__init__` return what the constructor stored**: `GetX() = x`, `GetY() = y`, `GetDiscreteValueIndex() = 0`,
`GetIndex() = -2`, `GetZ() = sys.float_info.max`, `GetLeft() = GetRight() = None`; none of them changes the world -/
theorem searchDataItem_getters_after_init (c : Ctx) (d : Nat) (y x : Val) :
    let W : World := { heap := expectedItem y x }
    callMethod theProg c d "SearchDataItem" "GetX" (.ref 0) [] [] W = some (W, some x) ∧
    callMethod theProg c d "SearchDataItem" "GetY" (.ref 0) [] [] W = some (W, some y) ∧
    callMethod theProg c d "SearchDataItem" "GetDiscreteValueIndex" (.ref 0) [] [] W = some (W, some (.int 0)) ∧
    callMethod theProg c d "SearchDataItem" "GetIndex" (.ref 0) [] [] W = some (W, some (.int (-2))) ∧
    callMethod theProg c d "SearchDataItem" "GetZ" (.ref 0) [] [] W = some (W, some (.lit "sys.float_info.max")) ∧
    callMethod theProg c d "SearchDataItem" "GetLeft" (.ref 0) [] [] W = some (W, some .none) ∧
    callMethod theProg c d "SearchDataItem" "GetRight" (.ref 0) [] [] W = some (W, some .none) := by
  rw [theProg_eq]; refine ⟨?_, ?_, ?_, ?_, ?_, ?_, ?_⟩ <;> kernel_rfl

/-! #### the accessors on ANY item object of ANY world -/

/-- attribute `f` (mangled name) of the heap object at `a` -/
def World.getAttr (w : World) (a : Nat) (f : String) : Option Val := (w.heap[a]?).bind fun o => o.fields.lookup f

/-- the world in which attribute `f` of the object at `a` is `v` -/
def World.setAttr (w : World) (a : Nat) (f : String) (v : Val) : World :=
  match w.heap[a]? with
  | some o => { w with heap := w.heap.set a { o with fields := setField o.fields f v } }
  | none => w

theorem lookup_setField_self (fs : List (String × Val)) (k : String) (v : Val) : (setField fs k v).lookup k = some v := by
  induction fs with
  | nil => simp [setField, List.lookup]
  | cons kv t ih =>
    obtain ⟨k', v'⟩ := kv
    by_cases h : k' = k
    · subst h; simp [setField, List.lookup]
    · have h1 : (k' == k) = false := by simpa using h
      have h2 : (k == k') = false := by simpa using fun e => h e.symm
      simp [setField, h1, List.lookup, h2, ih]

theorem lookup_setField_ne (fs : List (String × Val)) {k g : String} (v : Val) (h : g ≠ k) :
    (setField fs k v).lookup g = fs.lookup g := by
  induction fs with
  | nil =>
    have h2 : (g == k) = false := by simpa using h
    simp [setField, List.lookup, h2]
  | cons kv t ih =>
    obtain ⟨k', v'⟩ := kv
    by_cases hk : k' = k
    · subst hk
      have h2 : (g == k') = false := by simpa using h
      simp [setField, List.lookup, h2]
    · have h1 : (k' == k) = false := by simpa using hk
      simp only [setField, h1, Bool.false_eq_true, ↓reduceIte, List.lookup]
      cases g == k' <;> simp [ih]

/-- `get f` after `set f v` is `v` -/
theorem getAttr_setAttr_self (w : World) (a : Nat) (f : String) (v : Val) (h : a < w.heap.length) :
    (w.setAttr a f v).getAttr a f = some v := by
  unfold World.setAttr World.getAttr
  rw [List.getElem?_eq_getElem h]
  simp [List.getElem?_set, h, lookup_setField_self]

/-- `get g` after `set f v` is unchanged for another attribute … -/
theorem getAttr_setAttr_ne (w : World) (a : Nat) {f g : String} (v : Val) (h : g ≠ f) :
    (w.setAttr a f v).getAttr a g = w.getAttr a g := by
  unfold World.setAttr World.getAttr
  cases ho : w.heap[a]? with
  | none => simp [ho]
  | some o =>
    have ha : a < w.heap.length := by
      rcases Nat.lt_or_ge a w.heap.length with h' | h'
      · exact h'
      · rw [List.getElem?_eq_none h'] at ho; cases ho
    simp [ha, lookup_setField_ne _ _ h]

/-- … and for another object -/
theorem getAttr_setAttr_other (w : World) {a b : Nat} (f g : String) (v : Val) (h : b ≠ a) :
    (w.setAttr a f v).getAttr b g = w.getAttr b g := by
  unfold World.setAttr World.getAttr
  cases ho : w.heap[a]? with
  | none => rfl
  | some o => simp [List.getElem?_set_ne (Ne.symm h)]

/-- a method whose parsed body is `return self.f` reads attribute `f`, on any world (stuck iff the object has no such attribute) -/
theorem getter_run_eq (pg : Prog) (c : Ctx) (d : Nat) (cls meth f : String) (hf : (f == "size") = false)
    (hlk : pg.methods.lookup (cls, meth) =
      some { ok := true, params := [], dflts := [], body := [.ret (.atom (.path "self" [f]))] })
    (w : World) (a : Nat) :
    callMethod pg c d cls meth (.ref a) [] [] w = (w.getAttr a f).map fun v => (w, some v) := by
  unfold World.getAttr
  cases ho : w.heap[a]? with
  | none =>
    simp [callMethod, hlk, bindParams, bindRest, runBody, execList, execStmt, evalExpr, evalAtom, evalPure, readFields, readField,
      ho, List.lookup]
  | some o =>
    cases hv : o.fields.lookup f <;>
    simp [callMethod, hlk, bindParams, bindRest, runBody, execList, execStmt, evalExpr, evalAtom, evalPure, readFields, readField,
      ho, hv, hf, List.lookup]

/-- a method whose parsed body is `self.f = p` (for its one parameter `p`) writes attribute `f` and nothing else, on any world -/
theorem setter_run (pg : Prog) (c : Ctx) (d : Nat) (cls meth f p : String) (hp : (p == "self") = false)
    (hlk : pg.methods.lookup (cls, meth) =
      some { ok := true, params := [p], dflts := [], body := [.assign (.attr "self" [] f) (.atom (.path p []))] })
    (w : World) (a : Nat) (v : Val) (ha : a < w.heap.length) :
    callMethod pg c d cls meth (.ref a) [v] [] w = some (w.setAttr a f v, none) := by
  have ho : w.heap[a]? = some w.heap[a] := List.getElem?_eq_getElem ha
  simp [callMethod, hlk, bindParams, bindRest, runBody, execList, execStmt, evalExpr, evalAtom, evalPure, readFields, storeTo,
    World.store, World.setAttr, ho, hp, List.lookup]

/-- getter ↦ the attribute it reads -/
def itemGetters : List (String × String) := [
  ("GetX", "_SearchDataItem__x"), ("GetY", "point"), ("GetDiscreteValueIndex", "_SearchDataItem__discreteValueIndex"),
  ("GetIndex", "_SearchDataItem__index"), ("GetZ", "_SearchDataItem__z"), ("GetLeft", "_SearchDataItem__leftPoint"),
  ("GetRight", "_SearchDataItem__rightPoint")]

/-- setter ↦ the attribute it writes -/
def itemSetters : List (String × String) := [
  ("SetIndex", "_SearchDataItem__index"), ("SetZ", "_SearchDataItem__z"), ("SetLeft", "_SearchDataItem__leftPoint"),
  ("SetRight", "_SearchDataItem__rightPoint")]

/-- the seven attributes are pairwise distinct, and each setter writes the attribute its getter reads -/
theorem itemGetters_distinct : (itemGetters.map (·.2)).Nodup ∧
    itemSetters.map (·.2) = ["GetIndex", "GetZ", "GetLeft", "GetRight"].filterMap (fun g => List.lookup g itemGetters) := by
  decide +kernel

/-- **the getters of `SearchDataItem` are plain attribute reads** (generated trees), on ANY world and ANY object: the value of the
attribute is returned and the world is unchanged (no such attribute: stuck) -/
theorem searchDataItem_getter_eq (c : Ctx) (d : Nat) {g f : String} (hg : (g, f) ∈ itemGetters) (w : World) (a : Nat) :
    callMethod theProg c d "SearchDataItem" g (.ref a) [] [] w = (w.getAttr a f).map fun v => (w, some v) := by
  rw [theProg_eq]
  simp only [itemGetters, List.mem_cons, Prod.mk.injEq, List.not_mem_nil, or_false] at hg
  rcases hg with ⟨rfl, rfl⟩ | ⟨rfl, rfl⟩ | ⟨rfl, rfl⟩ | ⟨rfl, rfl⟩ | ⟨rfl, rfl⟩ | ⟨rfl, rfl⟩ | ⟨rfl, rfl⟩ <;>
    exact getter_run_eq _ c d _ _ _ (by decide +kernel) (by kernel_rfl) w a

theorem searchDataItem_getter (c : Ctx) (d : Nat) {g f : String} (hg : (g, f) ∈ itemGetters)
    (w : World) (a : Nat) (v : Val) (hv : w.getAttr a f = some v) :
    callMethod theProg c d "SearchDataItem" g (.ref a) [] [] w = some (w, some v) := by
  rw [searchDataItem_getter_eq c d hg, hv]; rfl

/-- **the setters of `SearchDataItem` are plain attribute writes** (generated trees): one attribute of one object changes -/
theorem searchDataItem_setter (c : Ctx) (d : Nat) {s f : String} (hs : (s, f) ∈ itemSetters)
    (w : World) (a : Nat) (v : Val) (ha : a < w.heap.length) :
    callMethod theProg c d "SearchDataItem" s (.ref a) [v] [] w = some (w.setAttr a f v, none) := by
  rw [theProg_eq]
  simp only [itemSetters, List.mem_cons, Prod.mk.injEq, List.not_mem_nil, or_false] at hs
  rcases hs with ⟨rfl, rfl⟩ | ⟨rfl, rfl⟩ | ⟨rfl, rfl⟩ | ⟨rfl, rfl⟩
  · exact setter_run _ c d _ _ _ "index" (by decide +kernel) (by kernel_rfl) w a v ha
  · exact setter_run _ c d _ _ _ "z" (by decide +kernel) (by kernel_rfl) w a v ha
  · exact setter_run _ c d _ _ _ "point" (by decide +kernel) (by kernel_rfl) w a v ha
  · exact setter_run _ c d _ _ _ "point" (by decide +kernel) (by kernel_rfl) w a v ha

/-- **`GetF(SetF(v, it)) = v`**: for the four pairs `Index`, `Z`, `Left`, `Right` -/
theorem searchDataItem_get_set (c : Ctx) (d : Nat) {s g f : String} (hs : (s, f) ∈ itemSetters) (hg : (g, f) ∈ itemGetters)
    (w : World) (a : Nat) (v : Val) (ha : a < w.heap.length) :
    ∃ w', callMethod theProg c d "SearchDataItem" s (.ref a) [v] [] w = some (w', none) ∧
      callMethod theProg c d "SearchDataItem" g (.ref a) [] [] w' = some (w', some v) :=
  ⟨_, searchDataItem_setter c d hs w a v ha, searchDataItem_getter c d hg _ a v (getAttr_setAttr_self w a f v ha)⟩

/-- **`SetF` changes attribute `F` only**: every getter `G` of another attribute, on the same or on any other object `b`, returns after
`SetF(v)` what it returned before -/
theorem searchDataItem_set_other (c : Ctx) (d : Nat) {s g f f' : String} (hs : (s, f) ∈ itemSetters) (hg : (g, f') ∈ itemGetters)
    (w : World) (a b : Nat) (v u : Val) (ha : a < w.heap.length) (hne : f' ≠ f ∨ b ≠ a)
    (hu : callMethod theProg c d "SearchDataItem" g (.ref b) [] [] w = some (w, some u)) :
    ∃ w', callMethod theProg c d "SearchDataItem" s (.ref a) [v] [] w = some (w', none) ∧
      callMethod theProg c d "SearchDataItem" g (.ref b) [] [] w' = some (w', some u) := by
  refine ⟨_, searchDataItem_setter c d hs w a v ha, ?_⟩
  have hread : w.getAttr b f' = some u := by
    rw [searchDataItem_getter_eq c d hg] at hu
    cases hv : w.getAttr b f' with
    | none => rw [hv] at hu; cases hu
    | some u' => rw [hv] at hu; simp only [Option.map_some, Option.some.injEq, Prod.mk.injEq, true_and] at hu; rw [hu]
  apply searchDataItem_getter c d hg
  rcases hne with h | h
  · by_cases hb : b = a
    · subst hb; rw [getAttr_setAttr_ne _ _ _ h]; exact hread
    · rw [getAttr_setAttr_other _ _ _ _ hb]; exact hread
  · rw [getAttr_setAttr_other _ _ _ _ h]; exact hread

end WiringInterp

/-! ## The facade over the control semantics of `process.py`: `Solver.X` IS `Process.X` IS the model -/

namespace Facade
open Gen.ProcSrc WiringInterp

/-- the four facade bodies, parsed: one call of the SAME-NAMED method of `self.process`, with the same argument (`number`) or none;
`Solve` and `GetResults` return its value -/
theorem parseFacade_trees :
    parseFacade Gen.Wiring.solver_Solve = some ("Solve", [], true) ∧
    parseFacade Gen.Wiring.solver_GetResults = some ("GetResults", [], true) ∧
    parseFacade Gen.Wiring.solver_DoGlobalIteration = some ("DoGlobalIteration", ["number"], false) ∧
    parseFacade Gen.Wiring.solver_DoLocalRefinement = some ("DoLocalRefinement", ["number"], false) := by
  decide +kernel

theorem lk_Solve : processProcs.lookup "Solve" = some (solveParams, solveDefaults, solve) := by kernel_rfl
theorem lk_DoGlobalIteration : processProcs.lookup "DoGlobalIteration" =
    some (doGlobalIterationParams, doGlobalIterationDefaults, doGlobalIteration) := by kernel_rfl
theorem lk_DoLocalRefinement : processProcs.lookup "DoLocalRefinement" =
    some (doLocalRefinementParams, doLocalRefinementDefaults, doLocalRefinement) := by kernel_rfl
theorem lk_GetResults : processProcs.lookup "GetResults" = some (getResultsParams, getResultsDefaults, getResults) := by
  kernel_rfl

/-- **the default of the facade**: `Solver.DoGlobalIteration()` binds `number` to `1`, as `solver_DoGlobalIterationDefaults` says (and
`Solver.DoLocalRefinement()` likewise) -/
theorem facade_default_number :
    ProcInterp.bindArgs Gen.Wiring.solver_DoGlobalIterationParams Gen.Wiring.solver_DoGlobalIterationDefaults [] [] =
      some [("number", 1)] ∧
    ReportInterp.bindArgs Gen.Wiring.solver_DoLocalRefinementParams Gen.Wiring.solver_DoLocalRefinementDefaults [] [] =
      some [("number", 1)] ∧
    ProcInterp.bindArgs Gen.Wiring.solver_SolveParams Gen.Wiring.solver_SolveDefaults [] [] = some [] ∧
    ReportInterp.bindArgs Gen.Wiring.solver_GetResultsParams Gen.Wiring.solver_GetResultsDefaults [] [] = some [] := by
  decide +kernel

section
variable {α : Type} [Add α] [Sub α] [Mul α] [Div α] [Neg α] [LT α] [LE α]
  [DecidableLT α] [DecidableLE α] [OfNat α 0] [OfNat α 1] [OfNat α 2] [OfNat α 4] [Fns α]
open AGP Proc

theorem bind_solve (ints : List (String × Nat)) : ProcInterp.bindArgs solveParams solveDefaults [] ints = some [] := by
  simp [ProcInterp.bindArgs, solveParams, solveDefaults, ProcInterp.bindAll]

theorem bind_dgi_number (number : Nat) :
    ProcInterp.bindArgs doGlobalIterationParams doGlobalIterationDefaults ["number"] [("number", number)] =
      some [("number", number)] := by
  simp [ProcInterp.bindArgs, doGlobalIterationParams, doGlobalIterationDefaults, ProcInterp.bindAll, ProcInterp.ev_number]

/-- **`Solver.Solve`, source tree = model.**  Running the generated tree of `Solver.Solve` - its one callee resolved through the table
of the GENERATED trees of `process.py` and run by `ProcInterp` (which calls `self.DoGlobalIteration()` through ITS tree, depth `d+1`),
with the model's `while`-fuel - returns the value of that call, and the object afterwards is `Proc.solve p f refine ps`. -/
theorem solver_Solve_src (c : ProcInterp.Ctx α) (d : Nat) (ps : PState α) :
    runP c (d + 1) (c.p.itersLimit + 1) Gen.Wiring.solver_Solve [] (ProcInterp.Glob.ofP ps) =
      some (.done (ProcInterp.Glob.ofP (Proc.solve c.p c.f c.refine ps)), true) := by
  simp only [runP, exec, parseFacade_trees.1, procHandler, lk_Solve, bind_solve, ProcInterp.solve_src, Option.map_some]

/-- **`Solver.DoGlobalIteration(number)`, source tree = model**: `Proc.doGlobalIteration p f number ps []` (same final state, same
exception or none); the facade returns nothing -/
theorem solver_DoGlobalIteration_src (c : ProcInterp.Ctx α) (depth fuel number : Nat) (ps : PState α) :
    runP c depth fuel Gen.Wiring.solver_DoGlobalIteration [("number", number)] (ProcInterp.Glob.ofP ps) =
      some (ProcInterp.POut.ofRes (Proc.doGlobalIteration c.p c.f number ps []), false) := by
  simp only [runP, exec, parseFacade_trees.2.2.1, procHandler, lk_DoGlobalIteration, bind_dgi_number,
    ProcInterp.doGlobalIteration_src, Option.map_some]

theorem bind_getRes (ints : List (String × Int)) : ReportInterp.bindArgs getResultsParams getResultsDefaults [] ints = some [] :=
  ReportInterp.bind_getRes ints

theorem bind_dlr_number (number : Int) :
    ReportInterp.bindArgs doLocalRefinementParams doLocalRefinementDefaults ["number"] [("number", number)] =
      some [("number", number)] := by
  have h : ReportInterp.intLits.lookup "number" = none := by decide
  simp [ReportInterp.bindArgs, doLocalRefinementParams, doLocalRefinementDefaults, ReportInterp.bindAll, ReportInterp.evalInt, h,
    List.lookup]

/-- **`Solver.GetResults`, source tree = model**: from a slot as `Method.UpdateOptimum` or a previous `GetResults()` left it, the facade
returns the `Solution` object with `bestTrials[0]` = the model's reported trial `Proc.reportedId ps s`; the state is unchanged -/
theorem solver_GetResults_src (c : ReportInterp.Ctx α) (depth : Nat) (ps : PState α) (s : State α) (slot : Nat)
    (hm : ps.m = some s) (hres : ReportInterp.Resolved ps s) (hslot : slot = s.best ∨ slot = reportedId ps s) :
    runR c depth Gen.Wiring.solver_GetResults [] ⟨ps, slot⟩ =
      some (.done ⟨ps, reportedId ps s⟩ (some .solution), true) := by
  simp only [runR, exec, parseFacade_trees.2.1, reportHandler, lk_GetResults, bind_getRes,
    ReportInterp.getResults_src c depth [] ps s slot hm hres hslot, Option.map_some]

/-- **`Solver.DoLocalRefinement(number)`, source tree = model**: `Proc.doLocalRefinement ps lr` for the `LocalResult` the oracles give
from the point of the reported trial -/
theorem solver_DoLocalRefinement_src (c : ReportInterp.Ctx α) (d : Nat) (number : Int) (ps : PState α) (s : State α) (slot : Nat)
    (hm : ps.m = some s) (hres : ReportInterp.Resolved ps s) (hslot : slot = s.best ∨ slot = reportedId ps s)
    {b : Item α} (hb : findItem s.items (reportedId ps s) = some b) :
    runR c (d + 1) Gen.Wiring.solver_DoLocalRefinement [("number", number)] ⟨ps, slot⟩ =
      some (.done ⟨Proc.doLocalRefinement ps (c.lr b.point), reportedId ps s⟩ none, false) := by
  simp only [runR, exec, parseFacade_trees.2.2.2, reportHandler, lk_DoLocalRefinement, bind_dlr_number,
    ReportInterp.doLocalRefinement_src c d number ps s slot hm hres hslot hb, Option.map_some]

end
end Facade
