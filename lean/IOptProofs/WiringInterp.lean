import IOptProofs.WiringInterpDefs
import IOptProofs.ProcInterp
import IOptProofs.ReportInterp
import Lean
import IOptModel.Solver
import Mathlib.Algebra.Order.Field.Basic
import Mathlib.Tactic.NormNum
/-!
# The glue of the library (`Solver`, the constructors, `SearchDataItem`), taken from the SOURCE TEXT, is what the model assumes

`IOptGen/WiringSrc.lean` (regenerated on every run) holds the statement trees of the facade `Solver`, of the constructors of
`Process`, `Method`, `OptimizationTask`, `Solution`, `SolverParameters`, `Point`, `FunctionValue`, `Trial`, `SearchDataItem` and of the
accessors of `SearchDataItem`; `IOptProofs/WiringInterpDefs.lean` parses them (`theProg`) and interprets the parsed form over an object
graph.  All evaluation below is done by the KERNEL (`decide +kernel`, and `kernel_rfl` for statements with variables).  Here:

* `theProg_eq`: the parser, run on the generated trees, gives the literal `progLit` (a readable rendering of the glue; every other
  theorem starts by rewriting with it, so ANY change of a glue tree makes this file fail).
* `solver_init_wiring` (`_kw`, `_default`, `_general`): `Solver(P, Q)` from the empty heap, for ANY external problem `P` and parameters `Q`,
  gives exactly the 18 objects of `expectedWiring P Q` (`expectedWiringN P Q n` for a problem with `n` functions; the model has `n = 1`).
  Corollaries: `solver_init_sharing` (ONE search data / evolvent / task / method / parameters object / listener list, the caller's own
  `P`, `Q`), `solver_init_counts`, `solver_init_evolvent` (which bounds and which density reach the evolvent), `solver_init_flags` (the
  initial values), `model_fresh_state`, `two_solvers_disjoint`.
* `optimizationTask_init_general`: `OptimizationTask(P)` builds the identity permutation, for every number of functions, in every world
  (the loop lemma `perm_loop`, `fill_identity`); `optimizationTask_Calculate`: `Calculate` is one call of the caller's problem.
* `solver_AddListener_wired`, `solver_addListener_shared`, `solver_AddListener_general`, `wiredL_process_listeners`: listeners added
  before or after any facade call end up, in call order, in the list object the process reads.
* `solver_Solve_delegates`, `solver_GetResults_delegates`, `solver_DoGlobalIteration_delegates` (`_kw_default`),
  `solver_DoLocalRefinement_delegates`, `solver_progress_delegates`: each facade method is ONE call of the same-named method on THE
  process object (address 17) with the same argument, returning its result where the source returns it.
* `Facade.solver_Solve_src`, `solver_DoGlobalIteration_src`, `solver_GetResults_src`, `solver_DoLocalRefinement_src`: the facade trees,
  with the callee resolved through the GENERATED trees of `process.py` and run by `ProcInterp` / `ReportInterp`, are `Proc.solve`,
  `Proc.doGlobalIteration`, the reported trial, `Proc.doLocalRefinement`; `facade_default_number`: the default `number = 1`.
* `defaults_meet_hypotheses` (`solverParameters_defaults_parsed`, `parsedDefaults_eq`, `solverParameters_init_defaults`): the default
  strings are `eps = 1/100, r = 2, itersLimit = 20000, evolventDensity = 10, epsR = 1/1000, refineSolution = false`, which satisfy
  `1 < r`, `0 < eps`, `1 ≤ itersLimit`, `1 ≤ density`.
* `solution_fresh_bestTrials` / `solution_mutableDefault_shared`: a fresh placeholder list per `Solution`; a mutable default would be shared.
* `searchDataItem_init`, `searchDataItem_getters_after_init`, `searchDataItem_getter_eq`, `searchDataItem_setter`,
  `searchDataItem_get_set`, `searchDataItem_set_other`, `itemGetters_distinct`: the accessors are plain reads / writes of seven distinct
  attributes, on any object of any world; `model_unevaluated_items`: the initial record and the model's unevaluated item.
* sensitivity: `copy_of_parameters_stuck`, `copy_of_listeners_stuck`, `fresh_list_for_process_differs`, `second_searchData_differs`,
  `evolvent_without_density_differs`, `solve_fresh_process_not_delegation`, `setLeft_wrong_field_breaks_law`.
-/

set_option linter.unusedSimpArgs false
set_option linter.unusedSectionVars false

open Lean Elab Tactic Meta in
/-- close `a = b` by `Eq.refl a`; the definitional equality is checked by the KERNEL only (the elaborator's unifier is not run: it does
not terminate in reasonable time on the interpreter runs below, the kernel needs about a second).  Nothing is assumed: the kernel
accepts the declaration iff `a` and `b` are definitionally equal. -/
elab "kernel_rfl" : tactic => do
  let g ← getMainGoal
  let t := (← instantiateMVars (← g.getType)).consumeMData
  let some (_, lhs, _) := t.eq? | throwError "kernel_rfl: the goal is not an equality{indentExpr t}"
  g.assign (← mkEqRefl lhs)

namespace WiringInterp
open Gen.ProcSrc

/-! ### the parsed program -/

/-- what the parser makes of the generated trees (a readable rendering of the glue; `theProg_eq` proves that it IS `theProg`) -/
def progLit : Prog :=
  { classes := [
      ("Solver",
       { ok := true,
         params := ["problem", "parameters"],
         dflts := [("parameters", (.sym (.dflt "Solver" "parameters") []))],
         body := [
           .assign (.attr "self" [] "problem") (.atom (.path "problem" [])),
           .assign (.attr "self" [] "parameters") (.atom (.path "parameters" [])),
           .assign (.attr "self" [] "_Solver__listeners") (.atom (.emptyList)),
           .construct [.attr "self" [] "searchData"] "SearchData" [(none, .atom (.path "problem" []))],
           .record [.attr "self" [] "evolvent"] "Evolvent" [
               (none, .atom (.path "problem" ["lowerBoundOfFloatVariables"])),
               (none, .atom (.path "problem" ["upperBoundOfFloatVariables"])),
               (none, .atom (.path "problem" ["numberOfFloatVariables"])),
               (none, .atom (.path "parameters" ["evolventDensity"]))],
           .construct [.attr "self" [] "task"] "OptimizationTask" [(none, .atom (.path "problem" []))],
           .construct [.attr "self" [] "method"] "Method" [
               (none, .atom (.path "parameters" [])),
               (none, .atom (.path "self" ["task"])),
               (none, .atom (.path "self" ["evolvent"])),
               (none, .atom (.path "self" ["searchData"]))],
           .construct [.attr "self" [] "process"] "Process" [
               (some "parameters", .atom (.path "parameters" [])),
               (some "task", .atom (.path "self" ["task"])),
               (some "evolvent", .atom (.path "self" ["evolvent"])),
               (some "searchData", .atom (.path "self" ["searchData"])),
               (some "method", .atom (.path "self" ["method"])),
               (some "listeners", .atom (.path "self" ["_Solver__listeners"]))]] }),
      ("Process",
       { ok := true,
         params := ["parameters", "task", "evolvent", "searchData", "method", "listeners"],
         dflts := [],
         body := [
           .assign (.attr "self" [] "parameters") (.atom (.path "parameters" [])),
           .assign (.attr "self" [] "task") (.atom (.path "task" [])),
           .assign (.attr "self" [] "evolvent") (.atom (.path "evolvent" [])),
           .assign (.attr "self" [] "searchData") (.atom (.path "searchData" [])),
           .assign (.attr "self" [] "method") (.atom (.path "method" [])),
           .assign (.attr "self" [] "_Process__listeners") (.atom (.path "listeners" [])),
           .assign (.attr "self" [] "_Process__first_iteration") (.atom (.lit (.bool true))),
           .assign (.attr "self" [] "localMethodIterationCount") (.atom (.lit (.int 0))),
           .assign (.attr "self" [] "_Process__refinedTrial") (.atom (.lit .none))] }),
      ("Method",
       { ok := true,
         params := ["parameters", "task", "evolvent", "searchData"],
         dflts := [],
         body := [
           .assign (.attr "self" [] "stop") (.atom (.lit (.bool false))),
           .assign (.attr "self" [] "recalc") (.atom (.lit (.bool true))),
           .assign (.attr "self" [] "iterationsCount") (.atom (.lit (.int 0))),
           .assign (.attr "self" [] "best") (.atom (.lit .none)),
           .assign (.attr "self" [] "parameters") (.atom (.path "parameters" [])),
           .assign (.attr "self" [] "task") (.atom (.path "task" [])),
           .assign (.attr "self" [] "evolvent") (.atom (.path "evolvent" [])),
           .assign (.attr "self" [] "searchData") (.atom (.path "searchData" [])),
           .assign (.attr "self" [] "M")
               (.comp (some (.lit "1.0")) (.add (.atom (.path "task" ["problem", "numberOfObjectives"])) (.atom (.path "task" ["problem", "numberOfConstraints"])))),
           .assign (.attr "self" [] "Z")
               (.comp (some (.lit "np.inf")) (.add (.atom (.path "task" ["problem", "numberOfObjectives"])) (.atom (.path "task" ["problem", "numberOfConstraints"])))),
           .assign (.attr "self" [] "dimension") (.atom (.path "task" ["problem", "numberOfFloatVariables"])),
           .assign (.attr "self" ["searchData", "solution"] "solutionAccuracy") (.atom (.lit (.lit "np.inf")))] }),
      ("OptimizationTask",
       { ok := true,
         params := ["problem", "perm"],
         dflts := [("perm", .none)],
         body := [
           .assign (.attr "self" [] "problem") (.atom (.path "problem" [])),
           .ifNone (.path "perm" []) [
               .ndarray [.attr "self" [] "perm"] (.add (.atom (.path "self" ["problem", "numberOfObjectives"])) (.atom (.path "self" ["problem", "numberOfConstraints"]))),
               .forRange "i" (.path "self" ["perm", "size"]) [
                   .assign (.index (.atom (.path "self" ["perm"])) (.atom (.path "i" []))) (.atom (.path "i" []))]] [
               .assign (.attr "self" [] "perm") (.atom (.path "perm" []))]] }),
      ("Solution",
       { ok := true,
         params := ["problem", "bestTrials", "numberOfGlobalTrials", "numberOfLocalTrials", "solvingTime", "solutionAccuracy"],
         dflts := [("bestTrials", .none),
                   ("numberOfGlobalTrials", (.int 0)),
                   ("numberOfLocalTrials", (.int 0)),
                   ("solvingTime", (.lit "0.0")),
                   ("solutionAccuracy", (.lit "0.0"))],
         body := [
           .ifNone (.path "bestTrials" []) [
               .assign (.var "bestTrials") (.list1 (.ctor "Trial" [(none, .emptyList), (none, .emptyList)]))] [],
           .assign (.attr "self" [] "problem") (.atom (.path "problem" [])),
           .assign (.attr "self" [] "bestTrials") (.atom (.path "bestTrials" [])),
           .assign (.attr "self" [] "numberOfGlobalTrials") (.atom (.path "numberOfGlobalTrials" [])),
           .assign (.attr "self" [] "numberOfLocalTrials") (.atom (.path "numberOfLocalTrials" [])),
           .assign (.attr "self" [] "solvingTime") (.atom (.path "solvingTime" [])),
           .assign (.attr "self" [] "solutionAccuracy") (.atom (.path "solutionAccuracy" []))] }),
      ("SolverParameters",
       { ok := true,
         params := ["eps", "r", "itersLimit", "evolventDensity", "epsR", "refineSolution", "startPoint"],
         dflts := [("eps", (.lit "0.01")),
                   ("r", (.lit "2.0")),
                   ("itersLimit", (.int 20000)),
                   ("evolventDensity", (.int 10)),
                   ("epsR", (.lit "0.001")),
                   ("refineSolution", (.bool false)),
                   ("startPoint", (.sym (.dflt "SolverParameters" "startPoint") []))],
         body := [
           .assign (.attr "self" [] "eps") (.atom (.path "eps" [])),
           .assign (.attr "self" [] "r") (.atom (.path "r" [])),
           .assign (.attr "self" [] "itersLimit") (.atom (.path "itersLimit" [])),
           .assign (.attr "self" [] "evolventDensity") (.atom (.path "evolventDensity" [])),
           .assign (.attr "self" [] "epsR") (.atom (.path "epsR" [])),
           .assign (.attr "self" [] "refineSolution") (.atom (.path "refineSolution" [])),
           .assign (.attr "self" [] "startPoint") (.atom (.path "startPoint" []))] }),
      ("Point",
       { ok := true,
         params := ["floatVariables", "discreteVariables"],
         dflts := [],
         body := [
           .assign (.attr "self" [] "floatVariables") (.atom (.path "floatVariables" [])),
           .assign (.attr "self" [] "discreteVariables") (.atom (.path "discreteVariables" []))] }),
      ("FunctionValue",
       { ok := true,
         params := ["type", "functionID"],
         dflts := [("type", (.lit "FunctionType.OBJECTIV")), ("functionID", (.lit "''"))],
         body := [
           .assign (.attr "self" [] "type") (.atom (.path "type" [])),
           .assign (.attr "self" [] "functionID") (.atom (.path "functionID" [])),
           .assign (.attr "self" [] "value") (.atom (.lit (.lit "0.0")))] }),
      ("Trial",
       { ok := true,
         params := ["point", "functionValues"],
         dflts := [],
         body := [
           .assign (.attr "self" [] "point") (.atom (.path "point" [])),
           .assign (.attr "self" [] "functionValues") (.atom (.path "functionValues" []))] }),
      ("SearchDataItem",
       { ok := true,
         params := ["y", "x", "functionValues", "discreteValueIndex"],
         dflts := [("functionValues", .none), ("discreteValueIndex", (.int 0))],
         body := [
           .ifNone (.path "functionValues" []) [
               .assign (.var "functionValues") (.list1 (.ctor "FunctionValue" []))] [],
           .superInit (some "Trial") [
               (some "point", .atom (.path "y" [])),
               (some "functionValues", .atom (.path "functionValues" []))],
           .assign (.attr "self" [] "point") (.atom (.path "y" [])),
           .assign (.attr "self" [] "_SearchDataItem__x") (.atom (.path "x" [])),
           .assign (.attr "self" [] "_SearchDataItem__discreteValueIndex") (.atom (.path "discreteValueIndex" [])),
           .assign (.attr "self" [] "_SearchDataItem__index") (.atom (.lit (.int (-2)))),
           .assign (.attr "self" [] "_SearchDataItem__z") (.atom (.lit (.lit "sys.float_info.max"))),
           .assign (.attr "self" [] "_SearchDataItem__leftPoint") (.atom (.lit .none)),
           .assign (.attr "self" [] "_SearchDataItem__rightPoint") (.atom (.lit .none)),
           .assign (.attr "self" [] "delta") (.atom (.lit (.lit "-1.0"))),
           .assign (.attr "self" [] "globalR") (.atom (.lit (.lit "-1.0"))),
           .assign (.attr "self" [] "localR") (.atom (.lit (.lit "-1.0"))),
           .assign (.attr "self" [] "iterationNumber") (.atom (.lit (.int (-1))))] }),
      ("SearchData",
       { ok := true,
         params := ["problem", "maxlen"],
         dflts := [("maxlen", .none)],
         body := [
           .construct [.attr "self" [] "solution"] "Solution" [(none, .atom (.path "problem" []))],
           .assign (.attr "self" [] "_allTrials") (.atom (.emptyList)),
           .construct [.attr "self" [] "_RGlobalQueue"] "CharacteristicsQueue" [(none, .atom (.path "maxlen" []))],
           .assign (.attr "self" [] "_SearchData__firstDataItem") (.atom (.lit .none))] }),
      ("CharacteristicsQueue",
       { ok := true,
         params := ["maxlen"],
         dflts := [],
         body := [
           .record [.attr "self" [] "_CharacteristicsQueue__baseQueue"] "DEPQ" [(some "iterable", .atom (.lit .none)), (some "maxlen", .atom (.path "maxlen" []))]] })],
    methods := [
      (("Solver", "Solve"),
       { ok := true,
         params := [],
         dflts := [],
         body := [
           .retCall (.path "self" ["process"]) "Solve"] }),
      (("Solver", "DoGlobalIteration"),
       { ok := true,
         params := ["number"],
         dflts := [("number", (.int 1))],
         body := [
           .mcall [] (.path "self" ["process"]) "DoGlobalIteration" [(none, .atom (.path "number" []))]] }),
      (("Solver", "DoLocalRefinement"),
       { ok := true,
         params := ["number"],
         dflts := [("number", (.int 1))],
         body := [
           .mcall [] (.path "self" ["process"]) "DoLocalRefinement" [(none, .atom (.path "number" []))]] }),
      (("Solver", "GetResults"),
       { ok := true,
         params := [],
         dflts := [],
         body := [
           .retCall (.path "self" ["process"]) "GetResults"] }),
      (("Solver", "SaveProgress"),
       { ok := true,
         params := ["fileName"],
         dflts := [],
         body := [
           .mcall [] (.path "self" ["searchData"]) "SaveProgress" [(some "fileName", .atom (.path "fileName" []))]] }),
      (("Solver", "LoadProgress"),
       { ok := true,
         params := ["fileName"],
         dflts := [],
         body := [
           .mcall [] (.path "self" ["searchData"]) "LoadProgress" [(some "fileName", .atom (.path "fileName" []))]] }),
      (("Solver", "RefreshListener"),
       { ok := true,
         params := [],
         dflts := [],
         body := [] }),
      (("Solver", "AddListener"),
       { ok := true,
         params := ["listener"],
         dflts := [],
         body := [
           .mcall [] (.path "self" ["_Solver__listeners"]) "append" [(none, .atom (.path "listener" []))]] }),
      (("OptimizationTask", "Calculate"),
       { ok := true,
         params := ["dataItem", "functionIndex", "type"],
         dflts := [("type", (.lit "TypeOfCalculation.FUNCTION"))],
         body := [
           .mcall [.index (.atom (.path "dataItem" ["functionValues"])) (.index (.atom (.path "self" ["perm"])) (.atom (.path "functionIndex" [])))] (.path "self" ["problem"]) "Calculate" [
               (none, .atom (.path "dataItem" ["point"])),
               (none, .index (.atom (.path "dataItem" ["functionValues"])) (.index (.atom (.path "self" ["perm"])) (.atom (.path "functionIndex" []))))],
           .ret (.atom (.path "dataItem" []))] }),
      (("SearchDataItem", "GetX"),
       { ok := true,
         params := [],
         dflts := [],
         body := [
           .ret (.atom (.path "self" ["_SearchDataItem__x"]))] }),
      (("SearchDataItem", "GetY"),
       { ok := true,
         params := [],
         dflts := [],
         body := [
           .ret (.atom (.path "self" ["point"]))] }),
      (("SearchDataItem", "GetDiscreteValueIndex"),
       { ok := true,
         params := [],
         dflts := [],
         body := [
           .ret (.atom (.path "self" ["_SearchDataItem__discreteValueIndex"]))] }),
      (("SearchDataItem", "SetIndex"),
       { ok := true,
         params := ["index"],
         dflts := [],
         body := [
           .assign (.attr "self" [] "_SearchDataItem__index") (.atom (.path "index" []))] }),
      (("SearchDataItem", "GetIndex"),
       { ok := true,
         params := [],
         dflts := [],
         body := [
           .ret (.atom (.path "self" ["_SearchDataItem__index"]))] }),
      (("SearchDataItem", "SetZ"),
       { ok := true,
         params := ["z"],
         dflts := [],
         body := [
           .assign (.attr "self" [] "_SearchDataItem__z") (.atom (.path "z" []))] }),
      (("SearchDataItem", "GetZ"),
       { ok := true,
         params := [],
         dflts := [],
         body := [
           .ret (.atom (.path "self" ["_SearchDataItem__z"]))] }),
      (("SearchDataItem", "SetLeft"),
       { ok := true,
         params := ["point"],
         dflts := [],
         body := [
           .assign (.attr "self" [] "_SearchDataItem__leftPoint") (.atom (.path "point" []))] }),
      (("SearchDataItem", "GetLeft"),
       { ok := true,
         params := [],
         dflts := [],
         body := [
           .ret (.atom (.path "self" ["_SearchDataItem__leftPoint"]))] }),
      (("SearchDataItem", "SetRight"),
       { ok := true,
         params := ["point"],
         dflts := [],
         body := [
           .assign (.attr "self" [] "_SearchDataItem__rightPoint") (.atom (.path "point" []))] }),
      (("SearchDataItem", "GetRight"),
       { ok := true,
         params := [],
         dflts := [],
         body := [
           .ret (.atom (.path "self" ["_SearchDataItem__rightPoint"]))] })] }

/-- **the parser, run by the kernel on the generated trees, gives `progLit`** -/
theorem theProg_eq : theProg = progLit := by kernel_rfl


/-! ### basic lemmas -/

theorem lookup_setField_self (fs : List (String × Val)) (k : String) (v : Val) : (setField fs k v).lookup k = some v := by
  induction fs with
  | nil => simp [setField, List.lookup]
  | cons kv t ih =>
    obtain ⟨k', v'⟩ := kv
    by_cases h : k' = k
    · subst h; simp [setField, List.lookup]
    · have h1 : (k' == k) = false := by simpa using h
      have h2 : (k == k') = false := by simpa using fun e => h e.symm
      simp [setField, h1, List.lookup, h2, ih]

theorem lookup_setField_ne (fs : List (String × Val)) {k g : String} (v : Val) (h : g ≠ k) :
    (setField fs k v).lookup g = fs.lookup g := by
  induction fs with
  | nil =>
    have h2 : (g == k) = false := by simpa using h
    simp [setField, List.lookup, h2]
  | cons kv t ih =>
    obtain ⟨k', v'⟩ := kv
    by_cases hk : k' = k
    · subst hk
      have h2 : (g == k') = false := by simpa using h
      simp [setField, List.lookup, h2]
    · have h1 : (k' == k) = false := by simpa using hk
      simp only [setField, h1, Bool.false_eq_true, ↓reduceIte, List.lookup]
      cases g == k' <;> simp [ih]

theorem get_app0 {β : Type} (h : List β) (o : β) (t : List β) : (h ++ o :: t)[h.length]? = some o := by
  simp
theorem get_app1 {β : Type} (h : List β) (o1 o2 : β) (t : List β) : (h ++ o1 :: o2 :: t)[h.length + 1]? = some o2 := by
  rw [List.getElem?_append_right (by omega)]; simp
theorem set_app0 {β : Type} (h : List β) (o o' : β) (t : List β) : (h ++ o :: t).set h.length o' = h ++ o' :: t := by
  rw [List.set_append_right _ _ (Nat.le_refl _)]; simp
theorem set_app1 {β : Type} (h : List β) (o1 o2 o' : β) (t : List β) :
    (h ++ o1 :: o2 :: t).set (h.length + 1) o' = h ++ o1 :: o' :: t := by
  rw [List.set_append_right _ _ (by omega)]; simp

theorem execList_append (c : Ctx) (env : InitEnv) (l1 l2 : List CStmt) (st : St) :
    execList c env (l1 ++ l2) st =
      match execList c env l1 st with
      | .normal st' => execList c env l2 st'
      | o => o := by
  induction l1 generalizing st with
  | nil => simp [execList]
  | cons s rest ih =>
    simp only [List.cons_append, execList]
    cases execStmt c env s st with
    | normal st' => simp only []; exact ih st'
    | returned st' v => rfl
    | stuck => rfl

/-- `C(args)` at depth `d+1` is the body of `C.__init__` run at depth `d` on the fresh object -/
theorem new_eq (pg : Prog) (c : Ctx) (d : Nat) (cls : String) (ps : List Val) (ks : List (String × Val)) (w : World) (cd : CDef)
    (hlk : pg.classes.lookup cls = some cd) (l : Locals) (hb : bindParams cd (.ref w.heap.length) ps ks = some l) :
    new pg c (d + 1) cls ps ks w =
      match execList c (envN pg c d) cd.body ⟨{ w with heap := w.heap ++ [{ cls := cls }] }, l⟩ with
      | .normal st => some (.ref w.heap.length, st.w)
      | .returned st _ => some (.ref w.heap.length, st.w)
      | .stuck => none := by
  unfold new construct
  rw [envN]
  simp only [hlk, runInit, hb]
  cases execList c (envN pg c d) cd.body _ <;> rfl

/-! ### `Solver.__init__` -/

/-- the oracle of the model's setting: ONE objective, no constraints (`Method.M`, `Method.Z` have one entry: the model's scalars
`State.M`, `State.Z`) -/
def oneObjective : Ctx := ⟨fun _ p => if p == ["numberOfObjectives"] then 1 else 0⟩

/-- **the object graph after `Solver(problem, parameters)`**, for the external objects `P` (the problem) and `Q` (the parameters), from
the empty heap.  Addresses are allocation order:
`0` the solver, `1` ITS listener list, `2` the `SearchData` (`3`–`7` its `Solution` with the placeholder `[Trial([], [])]`, `8` `_allTrials`,
`9`, `10` the queue), `11` the `Evolvent`, `12` the `OptimizationTask` (`13` its identity permutation), `14` the `Method` (`15` `M`, `16` `Z`),
`17` the `Process`. -/
def expectedWiring (P Q : Root) : List Obj := [
  /- 0 -/ { cls := "Solver",
            fields := [("problem", .sym P []), ("parameters", .sym Q []), ("_Solver__listeners", .ref 1), ("searchData", .ref 2),
                       ("evolvent", .ref 11), ("task", .ref 12), ("method", .ref 14), ("process", .ref 17)] },
  /- 1 -/ { cls := "list" },
  /- 2 -/ { cls := "SearchData",
            fields := [("solution", .ref 3), ("_allTrials", .ref 8), ("_RGlobalQueue", .ref 9),
                       ("_SearchData__firstDataItem", .none)] },
  /- 3 -/ { cls := "Solution",
            fields := [("problem", .sym P []), ("bestTrials", .ref 7), ("numberOfGlobalTrials", .int 0),
                       ("numberOfLocalTrials", .int 0), ("solvingTime", .lit "0.0"),
                       ("solutionAccuracy", .lit "np.inf")] },           -- `0.0` overwritten by `Method.__init__`
  /- 4 -/ { cls := "list" },
  /- 5 -/ { cls := "list" },
  /- 6 -/ { cls := "Trial", fields := [("point", .ref 4), ("functionValues", .ref 5)] },
  /- 7 -/ { cls := "list", elems := [.ref 6] },
  /- 8 -/ { cls := "list" },
  /- 9 -/ { cls := "CharacteristicsQueue", fields := [("_CharacteristicsQueue__baseQueue", .ref 10)] },
  /- 10 -/ { cls := "DEPQ", fields := [("iterable", .none), ("maxlen", .none)] },
  /- 11 -/ { cls := "Evolvent",
             fields := [("#0", .sym P ["lowerBoundOfFloatVariables"]), ("#1", .sym P ["upperBoundOfFloatVariables"]),
                        ("#2", .sym P ["numberOfFloatVariables"]), ("#3", .sym Q ["evolventDensity"])] },
  /- 12 -/ { cls := "OptimizationTask", fields := [("problem", .sym P []), ("perm", .ref 13)] },
  /- 13 -/ { cls := "ndarray", elems := [.int 0] },
  /- 14 -/ { cls := "Method",
             fields := [("stop", .bool false), ("recalc", .bool true), ("iterationsCount", .int 0), ("best", .none),
                        ("parameters", .sym Q []), ("task", .ref 12), ("evolvent", .ref 11), ("searchData", .ref 2),
                        ("M", .ref 15), ("Z", .ref 16), ("dimension", .sym P ["numberOfFloatVariables"])] },
  /- 15 -/ { cls := "list", elems := [.lit "1.0"] },
  /- 16 -/ { cls := "list", elems := [.lit "np.inf"] },
  /- 17 -/ { cls := "Process",
             fields := [("parameters", .sym Q []), ("task", .ref 12), ("evolvent", .ref 11), ("searchData", .ref 2),
                        ("method", .ref 14), ("_Process__listeners", .ref 1), ("_Process__first_iteration", .bool true),
                        ("localMethodIterationCount", .int 0), ("_Process__refinedTrial", .none)] }]

/-- the world after `Solver(problem, parameters)` -/
def wired (P Q : Root) : World := { heap := expectedWiring P Q }

/-- **`Solver.__init__`, source trees = the wiring the model assumes.**  Evaluating `Solver(P, Q)` from the empty heap - the generated
tree of `Solver.__init__`, and through it the generated trees of `SearchData.__init__`, `Solution.__init__`, `Trial.__init__`,
`CharacteristicsQueue.__init__`, `OptimizationTask.__init__`, `Method.__init__`, `Process.__init__` - for ANY external problem `P` and
parameters object `Q` (one objective, no constraints), at any call depth `≥ 4`, returns the solver at address `0` and leaves exactly the
heap `expectedWiring P Q`; no call leaves the fragment. -/
theorem solver_init_wiring (P Q : Root) (d : Nat) :
    new theProg oneObjective (d + 4) "Solver" [.sym P [], .sym Q []] [] {} = some (.ref 0, wired P Q) := by
  rw [theProg_eq]; kernel_rfl

/-- … the same with keyword arguments -/
theorem solver_init_wiring_kw (P Q : Root) (d : Nat) :
    new theProg oneObjective (d + 4) "Solver" [] [("parameters", .sym Q []), ("problem", .sym P [])] {} = some (.ref 0, wired P Q) := by
  rw [theProg_eq]; kernel_rfl

/-- … and with the parameters left out: `Q` is THE default object `SolverParameters()` made once when `solver.py` was loaded
(shared by every such solver: the allow-listed site of `IOptProps/SharedState.lean`) -/
theorem solver_init_wiring_default (P : Root) (d : Nat) :
    new theProg oneObjective (d + 4) "Solver" [.sym P []] [] {} = some (.ref 0, wired P (.dflt "Solver" "parameters")) := by
  rw [theProg_eq]; kernel_rfl

/-- call depth 3 is not enough (`Solver` → `SearchData` → `Solution` → `Trial`): the hypothesis `d + 4` is needed -/
example : new theProg oneObjective 3 "Solver" [.sym (.user 0) [], .sym (.user 1) []] [] {} = none := by
  rw [theProg_eq]; decide +kernel


/-! #### any number of objectives and constraints -/

/-- the body of the loop of `OptimizationTask.__init__`, parsed -/
def permBody : List CStmt := [.assign (.index (.atom (.path "self" ["perm"])) (.atom (.path "i" []))) (.atom (.path "i" []))]

theorem perm_step (c : Ctx) (env : InitEnv) (s a : Nat) (S : Obj) (E : List Val) (i : Nat) (w : World) (l : Locals)
    (hl : l.lookup "self" = some (.ref s)) (hli : l.lookup "i" = some (.int i)) (hS : w.heap[s]? = some S)
    (hperm : S.fields.lookup "perm" = some (.ref a)) (hA : w.heap[a]? = some ⟨"ndarray", [], E⟩) (hi : i < E.length) :
    execList c env permBody ⟨w, l⟩ =
      .normal ⟨{ w with heap := w.heap.set a ⟨"ndarray", [], E.set i (.int i)⟩ }, l⟩ := by
  have h1 : ("perm" == "size") = false := by decide +kernel
  have h2 : ("ndarray" == "list") = false := by decide +kernel
  simp [permBody, execList, execStmt, evalExpr, evalAtom, evalPure, readFields, readField, storeTo, toInt, isSeq, hl, hli, hS, hperm,
    hA, hi, h1, h2]

/-- the loop `for i in range(…): self.perm[i] = i` over any list of indices inside the array -/
theorem perm_loop (c : Ctx) (env : InitEnv) (s a : Nat) (S : Obj) (hsa : s ≠ a) (hperm : S.fields.lookup "perm" = some (.ref a)) :
    ∀ (is : List Nat) (w : World) (l : Locals) (E : List Val),
      l.lookup "self" = some (.ref s) → w.heap[s]? = some S → w.heap[a]? = some ⟨"ndarray", [], E⟩ → (∀ i ∈ is, i < E.length) →
      ∃ l', forLoop "i" (fun st => execList c env permBody st) is ⟨w, l⟩ =
        .normal ⟨{ w with heap := w.heap.set a ⟨"ndarray", [], is.foldl (fun E i => E.set i (.int i)) E⟩ }, l'⟩ := by
  intro is
  induction is with
  | nil =>
    intro w l E _ _ hA _
    refine ⟨l, ?_⟩
    have : w.heap.set a ⟨"ndarray", [], E⟩ = w.heap := by
      apply List.ext_getElem?
      intro n
      by_cases hn : a = n
      · subst hn
        have ha : a < w.heap.length := by
          rcases Nat.lt_or_ge a w.heap.length with h' | h'
          · exact h'
          · rw [List.getElem?_eq_none h'] at hA; cases hA
        rw [List.getElem?_set_self ha, hA]
      · rw [List.getElem?_set_ne hn]
    simp only [forLoop, List.foldl_nil, this]
  | cons i rest ih =>
    intro w l E hl hS hA hin
    have hi : i < E.length := hin i (by simp)
    have ha : a < w.heap.length := by
      rcases Nat.lt_or_ge a w.heap.length with h' | h'
      · exact h'
      · rw [List.getElem?_eq_none h'] at hA; cases hA
    have hne : ("self" : String) ≠ "i" := by decide
    have hl' : (setField l "i" (.int i)).lookup "self" = some (.ref s) := by rw [lookup_setField_ne _ _ hne]; exact hl
    have hli : (setField l "i" (.int i)).lookup "i" = some (.int i) := lookup_setField_self _ _ _
    have hstep := perm_step c env s a S E i w (setField l "i" (.int i)) hl' hli hS hperm hA hi
    obtain ⟨l', hrest⟩ := ih { w with heap := w.heap.set a ⟨"ndarray", [], E.set i (.int i)⟩ } (setField l "i" (.int i))
      (E.set i (.int i)) hl' (by simp only []; rw [List.getElem?_set_ne (Ne.symm hsa)]; exact hS)
      (by simp only []; rw [List.getElem?_set_self ha]) (by intro j hj; rw [List.length_set]; exact hin j (by simp [hj]))
    refine ⟨l', ?_⟩
    rw [forLoop]
    simp only [hstep]
    rw [hrest]
    simp only [List.set_set, List.foldl_cons]

/-- filling an array of length `n` at the positions `0 … n-1` with the position gives the identity permutation -/
theorem fill_identity (n : Nat) :
    (List.range n).foldl (fun E i => E.set i (Val.int i)) (List.replicate n Val.none) = (List.range n).map fun i : Nat => Val.int (i : Int) := by
  have key : ∀ k, k ≤ n → (List.range k).foldl (fun E i => E.set i (Val.int i)) (List.replicate n Val.none) =
      ((List.range k).map fun i : Nat => Val.int (i : Int)) ++ List.replicate (n - k) Val.none := by
    intro k
    induction k with
    | zero => intro _; simp
    | succ k ih =>
      intro hk
      rw [List.range_succ, List.foldl_append, ih (by omega)]
      simp only [List.foldl_cons, List.foldl_nil, List.map_append, List.map_cons, List.map_nil]
      have hlen : ((List.range k).map fun i : Nat => Val.int (i : Int)).length = k := by simp
      have : n - k = (n - (k + 1)) + 1 := by omega
      rw [this, List.replicate_succ, List.set_append_right _ _ (by rw [hlen]), hlen]
      simp
  have := key n (Nat.le_refl n)
  simpa using this

/-- the number of functions of the problem, as the oracle gives it -/
def nFunctions (c : Ctx) (P : Root) : Nat := (c.extInt P ["numberOfObjectives"] + c.extInt P ["numberOfConstraints"]).toNat

/-- **`OptimizationTask.__init__` builds the identity permutation, for every number of functions and in every world**: `OptimizationTask(P)`
(generated tree: `np.ndarray(shape=numberOfObjectives + numberOfConstraints)`, then `for i in range(self.perm.size): self.perm[i] = i`)
allocates the task and ONE array, `perm[i] = i` for all `i` -/
theorem optimizationTask_init_general (c : Ctx) (d : Nat) (P : Root) (w : World) :
    new theProg c (d + 1) "OptimizationTask" [.sym P []] [] w =
      some (.ref w.heap.length, { w with heap := w.heap ++ [
        { cls := "OptimizationTask", fields := [("problem", .sym P []), ("perm", .ref (w.heap.length + 1))] },
        { cls := "ndarray", elems := (List.range (nFunctions c P)).map fun i : Nat => Val.int (i : Int) }] }) := by
  rw [theProg_eq]
  have hlk : progLit.classes.lookup "OptimizationTask" = some
      { ok := true, params := ["problem", "perm"], dflts := [("perm", .none)],
        body := [
          .assign (.attr "self" [] "problem") (.atom (.path "problem" [])),
          .ifNone (.path "perm" []) [
            .ndarray [.attr "self" [] "perm"] (.add (.atom (.path "self" ["problem", "numberOfObjectives"]))
              (.atom (.path "self" ["problem", "numberOfConstraints"]))),
            .forRange "i" (.path "self" ["perm", "size"]) permBody] [
            .assign (.attr "self" [] "perm") (.atom (.path "perm" []))]] } := by kernel_rfl
  obtain ⟨h, tr⟩ := w
  have e1 : ("problem" == "self") = false := by decide +kernel
  have e2 : ("perm" == "self") = false := by decide +kernel
  have e3 : ("perm" == "problem") = false := by decide +kernel
  have e4 : ("problem" == "size") = false := by decide +kernel
  have e5 : ("perm" == "size") = false := by decide +kernel
  have e6 : ("OptimizationTask" == "ndarray") = false := by decide +kernel
  have e7 : ("numberOfObjectives" == "size") = false := by decide +kernel
  have e8 : ("problem" == "perm") = false := by decide +kernel
  -- the loop, on the heap reached just before it
  have hloop := perm_loop c (envN progLit c d) h.length (h.length + 1)
    { cls := "OptimizationTask", fields := [("problem", .sym P []), ("perm", .ref (h.length + 1))] } (by omega)
    (by simp [List.lookup, e8])
    (List.range (nFunctions c P))
    { heap := h ++ [{ cls := "OptimizationTask", fields := [("problem", .sym P []), ("perm", .ref (h.length + 1))] },
                    { cls := "ndarray", elems := List.replicate (nFunctions c P) Val.none }], trace := tr }
    [("self", .ref h.length), ("problem", .sym P []), ("perm", .none)] (List.replicate (nFunctions c P) Val.none)
    (by simp [List.lookup]) (get_app0 _ _ _) (get_app1 _ _ _ _) (by intro i hi; simpa using hi)
  obtain ⟨l', hl'⟩ := hloop
  simp only [set_app1, fill_identity] at hl'
  simp [new, construct, envN, hlk, runInit, bindParams, bindRest, execList, execStmt, evalExpr, evalAtom, evalPure, readFields,
    readField, storeTo, bindTargets, World.store, World.alloc, toInt, List.lookup, e1, e2, e3, e4, e5, e6, e7, e8, get_app0, set_app0,
    setField]
  have hmx : (max (c.extInt P ["numberOfObjectives"] + c.extInt P ["numberOfConstraints"]) 0).toNat = nFunctions c P := by
    unfold nFunctions; omega
  rw [hmx]
  change (match (match (match (match forLoop "i" _ (List.range (nFunctions c P))
    ⟨⟨h ++ [_, { cls := "ndarray", elems := List.replicate (nFunctions c P) Val.none }], tr⟩, _⟩ with
      | Out.normal st' => Out.normal st' | o => o) with | Out.normal st' => Out.normal st' | o => o) with
      | Out.normal st => some st.w | Out.returned st v => some st.w | Out.stuck => none) with
      | some w' => some (Val.ref h.length, w') | none => none) = _
  rw [hl']

/-- the object graph after `Solver(P, Q)` for a problem with `n` functions (objectives + constraints): as `expectedWiring`, with
`perm = [0, …, n-1]`, `M = [1.0] * n`, `Z = [inf] * n` -/
def expectedWiringN (P Q : Root) (n : Nat) : List Obj :=
  ((expectedWiring P Q).set 13 { cls := "ndarray", elems := (List.range n).map fun i : Nat => Val.int (i : Int) }
    |>.set 15 { cls := "list", elems := List.replicate n (.lit "1.0") })
    |>.set 16 { cls := "list", elems := List.replicate n (.lit "np.inf") }

theorem expectedWiringN_one (P Q : Root) : expectedWiringN P Q 1 = expectedWiring P Q := by kernel_rfl

/-- the world after `Solver(problem, parameters)` for a problem with `n` functions -/
def wiredN (P Q : Root) (n : Nat) : World := { heap := expectedWiringN P Q n }

theorem wired_eq_wiredN (P Q : Root) : wired P Q = wiredN P Q 1 := by kernel_rfl

/-- the parsed body of `Solver.__init__` -/
def solverBody : List CStmt := ((progLit.classes.lookup "Solver").map (·.body)).getD []

/-- the parsed `Solver.__init__` -/
def solverDef : CDef :=
  { ok := true, params := ["problem", "parameters"], dflts := [("parameters", .sym (.dflt "Solver" "parameters") [])],
    body := solverBody }

/-- the heap just before `self.task = OptimizationTask(problem)` -/
def heapBeforeTask (P Q : Root) : List Obj :=
  (((expectedWiring P Q).take 12).set 0
    { cls := "Solver", fields := [("problem", .sym P []), ("parameters", .sym Q []), ("_Solver__listeners", .ref 1),
                                  ("searchData", .ref 2), ("evolvent", .ref 11)] }).set 3
    { cls := "Solution",
      fields := [("problem", .sym P []), ("bestTrials", .ref 7), ("numberOfGlobalTrials", .int 0),
                 ("numberOfLocalTrials", .int 0), ("solvingTime", .lit "0.0"), ("solutionAccuracy", .lit "0.0")] }

/-- **`Solver.__init__`, source trees = the wiring, for EVERY number of objectives and constraints** (whatever the oracle `c` says about
the caller's problem): the same object graph, with `perm` the identity on `n = numberOfObjectives + numberOfConstraints` indices and
`M`, `Z` of length `n`.  (`solver_init_wiring` is the case `n = 1` of the model.) -/
theorem solver_init_wiring_general (c : Ctx) (P Q : Root) (d : Nat) :
    new theProg c (d + 4) "Solver" [.sym P [], .sym Q []] [] {} =
      some (.ref 0, wiredN P Q (nFunctions c P)) := by
  show _ = some (Val.ref 0, ({ heap := expectedWiringN P Q (nFunctions c P) } : World))
  have hT := optimizationTask_init_general c (d + 2) P { heap := heapBeforeTask P Q }
  rw [theProg_eq] at hT ⊢
  generalize nFunctions c P = n at hT ⊢
  have hlk : progLit.classes.lookup "Solver" = some solverDef := by kernel_rfl
  have hbind : bindParams solverDef (.ref ({} : World).heap.length) [.sym P [], .sym Q []] [] =
      some [("self", .ref 0), ("problem", .sym P []), ("parameters", .sym Q [])] := by kernel_rfl
  have hb : solverDef.body = solverBody.take 5 ++ ([solverBody.getD 5 .stuck] ++ solverBody.drop 6) := by kernel_rfl
  rw [show d + 4 = d + 3 + 1 from rfl, new_eq progLit c (d + 3) "Solver" _ _ {} solverDef hlk _ hbind, hb, execList_append]
  -- the statements before `self.task = OptimizationTask(problem)`
  have hA : execList c (envN progLit c (d + 3)) (solverBody.take 5)
      ⟨{ heap := ({} : World).heap ++ [{ cls := "Solver" }] }, [("self", .ref 0), ("problem", .sym P []), ("parameters", .sym Q [])]⟩ =
      .normal ⟨{ heap := heapBeforeTask P Q }, [("self", .ref 0), ("problem", .sym P []), ("parameters", .sym Q [])]⟩ := by
    kernel_rfl
  rw [hA]
  simp only []
  rw [execList_append]
  have hs : solverBody.getD 5 .stuck =
      .construct [.attr "self" [] "task"] "OptimizationTask" [(none, .atom (.path "problem" []))] := by kernel_rfl
  have hargs : evalArgs c (envN progLit c (d + 3)) [("self", .ref 0), ("problem", .sym P []), ("parameters", .sym Q [])]
      [(none, .atom (.path "problem" []))] { heap := heapBeforeTask P Q } = some ([.sym P []], [], { heap := heapBeforeTask P Q }) := by
    kernel_rfl
  have hT' : construct (envN progLit c (d + 3)) "OptimizationTask" [.sym P []] [] { heap := heapBeforeTask P Q } = _ := hT
  rw [hs]
  simp only [execList, execStmt, hargs, hT']
  kernel_rfl

/-! #### the readable corollaries -/

/-- follow attributes (mangled names) from a value -/
abbrev World.at (w : World) (v : Val) (path : List String) : Option Val := readFields w v path

/-- **ONE search state, ONE evolvent, ONE task, ONE method, ONE parameter record, ONE listener list.**  With `S` the solver:
`S.process.method` is `S.method`; `S.method.searchData`, `S.process.searchData` and `S.searchData` are the same object, likewise the
evolvent and the task; `parameters` of the solver, of the method and of the process are the CALLER's object `Q` itself;
`S.task.problem` is the caller's `P`; `S.process.__listeners` is `S.__listeners` (the same list OBJECT, not a copy). -/
theorem solver_init_sharing (P Q : Root) (n : Nat) :
    let W := wiredN P Q n
    let S := Val.ref 0
    (W.at S ["process", "method"] = some (.ref 14) ∧ W.at S ["method"] = some (.ref 14)) ∧
    (W.at S ["method", "searchData"] = some (.ref 2) ∧ W.at S ["process", "searchData"] = some (.ref 2) ∧
      W.at S ["searchData"] = some (.ref 2)) ∧
    (W.at S ["method", "evolvent"] = some (.ref 11) ∧ W.at S ["process", "evolvent"] = some (.ref 11) ∧
      W.at S ["evolvent"] = some (.ref 11)) ∧
    (W.at S ["method", "task"] = some (.ref 12) ∧ W.at S ["process", "task"] = some (.ref 12) ∧ W.at S ["task"] = some (.ref 12)) ∧
    (W.at S ["method", "parameters"] = some (.sym Q []) ∧ W.at S ["process", "parameters"] = some (.sym Q []) ∧
      W.at S ["parameters"] = some (.sym Q [])) ∧
    (W.at S ["task", "problem"] = some (.sym P []) ∧ W.at S ["problem"] = some (.sym P []) ∧
      W.at S ["searchData", "solution", "problem"] = some (.sym P [])) ∧
    (W.at S ["process", "_Process__listeners"] = some (.ref 1) ∧ W.at S ["_Solver__listeners"] = some (.ref 1)) := by
  refine ⟨⟨?_, ?_⟩, ⟨?_, ?_, ?_⟩, ⟨?_, ?_, ?_⟩, ⟨?_, ?_, ?_⟩, ⟨?_, ?_, ?_⟩, ⟨?_, ?_, ?_⟩, ⟨?_, ?_⟩⟩ <;> kernel_rfl

/-- **exactly one object of each kind** is allocated: one `SearchData`, one `Evolvent`, one `OptimizationTask`, one `Method`, one
`Process` (and one `Solution`, one `Solver`) -/
theorem solver_init_counts (P Q : Root) (n : Nat) :
    let W := wiredN P Q n
    W.count "SearchData" = 1 ∧ W.count "Evolvent" = 1 ∧ W.count "OptimizationTask" = 1 ∧ W.count "Method" = 1 ∧
    W.count "Process" = 1 ∧ W.count "Solution" = 1 ∧ W.count "Solver" = 1 ∧ W.heap.length = 18 := by
  refine ⟨?_, ?_, ?_, ?_, ?_, ?_, ?_, ?_⟩ <;> kernel_rfl

/-- **what reaches the evolvent** (the content of `IOptModel/Solver.lean`, property C20): the bounds and the dimension of the caller's
problem and `parameters.evolventDensity` of the caller's parameters object, in this order -/
theorem solver_init_evolvent (P Q : Root) (n : Nat) :
    (wiredN P Q n).heap[11]? = some
      { cls := "Evolvent",
        fields := [("#0", .sym P ["lowerBoundOfFloatVariables"]), ("#1", .sym P ["upperBoundOfFloatVariables"]),
                   ("#2", .sym P ["numberOfFloatVariables"]), ("#3", .sym Q ["evolventDensity"])] } := by
  kernel_rfl

/-- **the initial values the constructors store**: `__first_iteration = True`, `__refinedTrial = None`,
`localMethodIterationCount = 0`; `recalc = True`, `best = None`, `iterationsCount = 0`, `stop = False`, `M = [1.0] * n`, `Z = [inf] * n` (`n = 1`: the model's scalars `M = 1`, `Z`);
`solutionAccuracy = inf` (the model's `minDelta = none`), `numberOfGlobalTrials = numberOfLocalTrials = 0`, `bestTrials` a list holding
the placeholder `Trial([], [])`; the search data empty (`_allTrials = []`, `__firstDataItem = None`); the permutation of the task is
the identity `[0, …, n-1]`.  (For `n = 1`, `wired P Q = wiredN P Q 1`.) -/
theorem solver_init_flags (P Q : Root) (n : Nat) :
    let W := wiredN P Q n
    let S := Val.ref 0
    (W.at S ["process", "_Process__first_iteration"] = some (.bool true) ∧
      W.at S ["process", "_Process__refinedTrial"] = some .none ∧
      W.at S ["process", "localMethodIterationCount"] = some (.int 0)) ∧
    (W.at S ["method", "recalc"] = some (.bool true) ∧ W.at S ["method", "best"] = some .none ∧
      W.at S ["method", "iterationsCount"] = some (.int 0) ∧ W.at S ["method", "stop"] = some (.bool false) ∧
      W.at S ["method", "M"] = some (.ref 15) ∧ W.heap[15]? = some { cls := "list", elems := List.replicate n (.lit "1.0") } ∧
      W.at S ["method", "Z"] = some (.ref 16) ∧ W.heap[16]? = some { cls := "list", elems := List.replicate n (.lit "np.inf") } ∧
      W.at S ["method", "dimension"] = some (.sym P ["numberOfFloatVariables"])) ∧
    (W.at S ["searchData", "solution", "solutionAccuracy"] = some (.lit "np.inf") ∧
      W.at S ["searchData", "solution", "numberOfGlobalTrials"] = some (.int 0) ∧
      W.at S ["searchData", "solution", "numberOfLocalTrials"] = some (.int 0) ∧
      W.at S ["searchData", "solution", "bestTrials"] = some (.ref 7) ∧ W.heap[7]? = some { cls := "list", elems := [.ref 6] } ∧
      W.heap[6]? = some { cls := "Trial", fields := [("point", .ref 4), ("functionValues", .ref 5)] }) ∧
    (W.at S ["searchData", "_allTrials"] = some (.ref 8) ∧ W.heap[8]? = some { cls := "list" } ∧
      W.at S ["searchData", "_SearchData__firstDataItem"] = some .none) ∧
    (W.at S ["task", "perm"] = some (.ref 13) ∧ W.heap[13]? = some { cls := "ndarray", elems := (List.range n).map fun i : Nat => Val.int (i : Int) }) := by
  refine ⟨⟨?_, ?_, ?_⟩, ⟨?_, ?_, ?_, ?_, ?_, ?_, ?_, ?_, ?_⟩, ⟨?_, ?_, ?_, ?_, ?_, ?_⟩, ⟨?_, ?_, ?_⟩, ⟨?_, ?_⟩⟩ <;> kernel_rfl

/-! ### the facade: `AddListener`, and the delegation to THE process object -/

/-- the wired world in which the listener list (address `1`) holds `ls` and the calls `tr` have left the fragment so far: the states
reached from `wiredN P Q n` by facade calls (`solver_*_delegates`, `solver_AddListener_wired`) -/
def wiredL (P Q : Root) (n : Nat) (ls : List Val) (tr : List Call) : World :=
  { heap := (expectedWiringN P Q n).set 1 { cls := "list", elems := ls }, trace := tr }

theorem wiredL_nil (P Q : Root) (n : Nat) : wiredL P Q n [] [] = wiredN P Q n := by kernel_rfl

/-- `AddListener(l)` (generated tree), whatever was added and whatever facade calls were made before: `l` is appended to the list
object at address `1`; nothing else changes -/
theorem solver_AddListener_wired (c : Ctx) (d : Nat) (P Q : Root) (n : Nat) (ls : List Val) (tr : List Call) (l : Val) :
    callMethod theProg c d "Solver" "AddListener" (.ref 0) [l] [] (wiredL P Q n ls tr) = some (wiredL P Q n (ls ++ [l]) tr, none) := by
  rw [theProg_eq]; kernel_rfl

/-- `AddListener` called for each element of a list, in order -/
def addListeners (pg : Prog) (c : Ctx) (d : Nat) (self : Val) : List Val → World → Option World
  | [], w => some w
  | l :: rest, w =>
    match callMethod pg c d "Solver" "AddListener" self [l] [] w with
    | some (w', _) => addListeners pg c d self rest w'
    | none => none

/-- **`n` calls of `AddListener` ⇒ the `n` listeners, in call order, in the list object that the process reads.**  The process holds
the SAME list object as the solver (`solver_init_sharing`), so what `for listener in self.__listeners` of `process.py` iterates over
is `ls ++ new`: the listeners added before any facade call and those added after. -/
theorem solver_addListener_shared (c : Ctx) (d : Nat) (P Q : Root) (n : Nat) (tr : List Call) (new : List Val) :
    ∀ ls : List Val, addListeners theProg c d (.ref 0) new (wiredL P Q n ls tr) = some (wiredL P Q n (ls ++ new) tr) := by
  induction new with
  | nil => intro ls; simp [addListeners]
  | cons l rest ih =>
    intro ls
    rw [addListeners, solver_AddListener_wired]
    simp only []
    rw [ih, List.append_assoc]; rfl

/-- … and that IS the list of the process: `S.process.__listeners` is the object at address `1`, whose elements are `ls` -/
theorem wiredL_process_listeners (P Q : Root) (n : Nat) (ls : List Val) (tr : List Call) :
    (wiredL P Q n ls tr).at (.ref 0) ["process", "_Process__listeners"] = some (.ref 1) ∧
    (wiredL P Q n ls tr).at (.ref 0) ["_Solver__listeners"] = some (.ref 1) ∧
    (wiredL P Q n ls tr).heap[1]? = some { cls := "list", elems := ls } := by
  refine ⟨?_, ?_, ?_⟩ <;> kernel_rfl

/-- **`AddListener(l)` on ANY world**: if the solver object at `s` holds the list object `L` at address `a` as its `__listeners`,
the generated tree of `AddListener` appends `l` to THAT object and changes nothing else - whatever else has happened to the heap
(iterations done, flags changed, other solvers created).  Every object that holds address `a` (the process, after
`solver_init_sharing`) sees the new listener. -/
theorem solver_AddListener_general (c : Ctx) (d : Nat) (w : World) (s a : Nat) (L : Obj) (l : Val)
    (hs : w.getAttr s "_Solver__listeners" = some (.ref a)) (hL : w.heap[a]? = some L) (hc : L.cls = "list") :
    callMethod theProg c d "Solver" "AddListener" (.ref s) [l] [] w =
      some ({ w with heap := w.heap.set a { L with elems := L.elems ++ [l] } }, none) := by
  rw [theProg_eq]
  have hlk : progLit.methods.lookup ("Solver", "AddListener") = some
      { ok := true, params := ["listener"], dflts := [],
        body := [.mcall [] (.path "self" ["_Solver__listeners"]) "append" [(none, .atom (.path "listener" []))]] } := by kernel_rfl
  unfold World.getAttr at hs
  cases hS : w.heap[s]? with
  | none => rw [hS] at hs; cases hs
  | some S =>
    rw [hS] at hs
    simp only [Option.bind_some] at hs
    have hsz : ("_Solver__listeners" == "size") = false := by decide +kernel
    have hsl : ("listener" == "self") = false := by decide +kernel
    simp [callMethod, hlk, bindParams, bindRest, runBody, execList, execStmt, evalArgs, evalExpr, evalAtom, evalPure, readFields,
      readField, methodCall, bindTargets, isSeq, hS, hs, hL, hc, hsz, hsl, List.lookup]

/-- **`Solver.Solve()` is ONE call `Solve()` on THE process object, and returns its result** (whatever listeners were added,
whatever calls were made before): the heap is untouched, the call is sent to address `17` = `S.process`, without arguments, and the
value returned is the value of that call. -/
theorem solver_Solve_delegates (c : Ctx) (d : Nat) (P Q : Root) (n : Nat) (ls : List Val) (tr : List Call) :
    callMethod theProg c d "Solver" "Solve" (.ref 0) [] [] (wiredL P Q n ls tr) =
      some (wiredL P Q n ls (tr ++ [{ recv := .ref 17, meth := "Solve" }]), some (.res tr.length)) := by
  rw [theProg_eq]; kernel_rfl

/-- **`Solver.GetResults()` is ONE call `GetResults()` on THE process object, and returns its result** -/
theorem solver_GetResults_delegates (c : Ctx) (d : Nat) (P Q : Root) (n : Nat) (ls : List Val) (tr : List Call) :
    callMethod theProg c d "Solver" "GetResults" (.ref 0) [] [] (wiredL P Q n ls tr) =
      some (wiredL P Q n ls (tr ++ [{ recv := .ref 17, meth := "GetResults" }]), some (.res tr.length)) := by
  rw [theProg_eq]; kernel_rfl

/-- **`Solver.DoGlobalIteration(number)` is ONE call `DoGlobalIteration(number)` on THE process object** (same argument; the value
is dropped: the facade returns `None`) -/
theorem solver_DoGlobalIteration_delegates (c : Ctx) (d : Nat) (P Q : Root) (n : Nat) (ls : List Val) (tr : List Call) (number : Val) :
    callMethod theProg c d "Solver" "DoGlobalIteration" (.ref 0) [number] [] (wiredL P Q n ls tr) =
      some (wiredL P Q n ls (tr ++ [{ recv := .ref 17, meth := "DoGlobalIteration", args := [number] }]), none) := by
  rw [theProg_eq]; kernel_rfl

/-- … `number` given by keyword; and left out: the default of the FACADE, `1` (`solver_DoGlobalIterationDefaults`), is passed on -/
theorem solver_DoGlobalIteration_delegates_kw_default (c : Ctx) (d : Nat) (P Q : Root) (n : Nat) (ls : List Val) (tr : List Call) (number : Val) :
    callMethod theProg c d "Solver" "DoGlobalIteration" (.ref 0) [] [("number", number)] (wiredL P Q n ls tr) =
      some (wiredL P Q n ls (tr ++ [{ recv := .ref 17, meth := "DoGlobalIteration", args := [number] }]), none) ∧
    callMethod theProg c d "Solver" "DoGlobalIteration" (.ref 0) [] [] (wiredL P Q n ls tr) =
      some (wiredL P Q n ls (tr ++ [{ recv := .ref 17, meth := "DoGlobalIteration", args := [.int 1] }]), none) := by
  rw [theProg_eq]; constructor <;> kernel_rfl

/-- **`Solver.DoLocalRefinement(number)` is ONE call `DoLocalRefinement(number)` on THE process object**; default `1` -/
theorem solver_DoLocalRefinement_delegates (c : Ctx) (d : Nat) (P Q : Root) (n : Nat) (ls : List Val) (tr : List Call) (number : Val) :
    callMethod theProg c d "Solver" "DoLocalRefinement" (.ref 0) [number] [] (wiredL P Q n ls tr) =
      some (wiredL P Q n ls (tr ++ [{ recv := .ref 17, meth := "DoLocalRefinement", args := [number] }]), none) ∧
    callMethod theProg c d "Solver" "DoLocalRefinement" (.ref 0) [] [] (wiredL P Q n ls tr) =
      some (wiredL P Q n ls (tr ++ [{ recv := .ref 17, meth := "DoLocalRefinement", args := [.int 1] }]), none) := by
  rw [theProg_eq]; constructor <;> kernel_rfl

/-- `SaveProgress` / `LoadProgress` go to THE `SearchData` (address `2`, the one the method and the process hold); `RefreshListener`
does nothing -/
theorem solver_progress_delegates (c : Ctx) (d : Nat) (P Q : Root) (n : Nat) (ls : List Val) (tr : List Call) (fileName : Val) :
    callMethod theProg c d "Solver" "SaveProgress" (.ref 0) [fileName] [] (wiredL P Q n ls tr) =
      some (wiredL P Q n ls (tr ++ [{ recv := .ref 2, meth := "SaveProgress", kwargs := [("fileName", fileName)] }]), none) ∧
    callMethod theProg c d "Solver" "LoadProgress" (.ref 0) [fileName] [] (wiredL P Q n ls tr) =
      some (wiredL P Q n ls (tr ++ [{ recv := .ref 2, meth := "LoadProgress", kwargs := [("fileName", fileName)] }]), none) ∧
    callMethod theProg c d "Solver" "RefreshListener" (.ref 0) [] [] (wiredL P Q n ls tr) = some (wiredL P Q n ls tr, none) := by
  rw [theProg_eq]; refine ⟨?_, ?_, ?_⟩ <;> kernel_rfl

/-- a wrong number of arguments is not silently accepted -/
example : callMethod theProg oneObjective 0 "Solver" "Solve" (.ref 0) [.int 1] [] (wired (.user 0) (.user 1)) = none ∧
    callMethod theProg oneObjective 0 "Solver" "DoGlobalIteration" (.ref 0) [.int 1, .int 2] [] (wired (.user 0) (.user 1)) = none ∧
    callMethod theProg oneObjective 0 "Solver" "DoGlobalIteration" (.ref 0) [] [("n", .int 2)] (wired (.user 0) (.user 1)) = none := by
  rw [theProg_eq]; decide +kernel

/-! ### `SearchDataItem`: what the constructor stores, and the accessors -/

/-- **the object graph after `SearchDataItem(y, x)`** (the defaults `functionValues=None`, `discreteValueIndex=0`): address `0` the
item, `1` its fresh `FunctionValue()` (value `0.0`), `2` the fresh list `[FunctionValue()]` -/
def expectedItem (y x : Val) : List Obj := [
  { cls := "SearchDataItem",
    fields := [("point", y), ("functionValues", .ref 2), ("_SearchDataItem__x", x), ("_SearchDataItem__discreteValueIndex", .int 0),
               ("_SearchDataItem__index", .int (-2)), ("_SearchDataItem__z", .lit "sys.float_info.max"),
               ("_SearchDataItem__leftPoint", .none), ("_SearchDataItem__rightPoint", .none), ("delta", .lit "-1.0"),
               ("globalR", .lit "-1.0"), ("localR", .lit "-1.0"), ("iterationNumber", .int (-1))] },
  { cls := "FunctionValue", fields := [("type", .lit "FunctionType.OBJECTIV"), ("functionID", .lit "''"), ("value", .lit "0.0")] },
  { cls := "list", elems := [.ref 1] }]

/-- **`SearchDataItem.__init__`, source tree** (through `super().__init__` = the generated tree of `Trial.__init__`, and
`FunctionValue.__init__`): for ANY point `y` and coordinate `x` -/
theorem searchDataItem_init (c : Ctx) (d : Nat) (y x : Val) :
    new theProg c (d + 2) "SearchDataItem" [y, x] [] {} = some (.ref 0, { heap := expectedItem y x }) := by
  rw [theProg_eq]; kernel_rfl

/-- **the getters after `__init__` return what the constructor stored**: `GetX() = x`, `GetY() = y`, `GetDiscreteValueIndex() = 0`,
`GetIndex() = -2`, `GetZ() = sys.float_info.max`, `GetLeft() = GetRight() = None`; none of them changes the world -/
theorem searchDataItem_getters_after_init (c : Ctx) (d : Nat) (y x : Val) :
    let W : World := { heap := expectedItem y x }
    callMethod theProg c d "SearchDataItem" "GetX" (.ref 0) [] [] W = some (W, some x) ∧
    callMethod theProg c d "SearchDataItem" "GetY" (.ref 0) [] [] W = some (W, some y) ∧
    callMethod theProg c d "SearchDataItem" "GetDiscreteValueIndex" (.ref 0) [] [] W = some (W, some (.int 0)) ∧
    callMethod theProg c d "SearchDataItem" "GetIndex" (.ref 0) [] [] W = some (W, some (.int (-2))) ∧
    callMethod theProg c d "SearchDataItem" "GetZ" (.ref 0) [] [] W = some (W, some (.lit "sys.float_info.max")) ∧
    callMethod theProg c d "SearchDataItem" "GetLeft" (.ref 0) [] [] W = some (W, some .none) ∧
    callMethod theProg c d "SearchDataItem" "GetRight" (.ref 0) [] [] W = some (W, some .none) := by
  rw [theProg_eq]; refine ⟨?_, ?_, ?_, ?_, ?_, ?_, ?_⟩ <;> kernel_rfl

/-! #### the accessors on ANY item object of ANY world -/

/-- `get f` after `set f v` is `v` -/
theorem getAttr_setAttr_self (w : World) (a : Nat) (f : String) (v : Val) (h : a < w.heap.length) :
    (w.setAttr a f v).getAttr a f = some v := by
  unfold World.setAttr World.getAttr
  rw [List.getElem?_eq_getElem h]
  simp [List.getElem?_set, h, lookup_setField_self]

/-- `get g` after `set f v` is unchanged for another attribute … -/
theorem getAttr_setAttr_ne (w : World) (a : Nat) {f g : String} (v : Val) (h : g ≠ f) :
    (w.setAttr a f v).getAttr a g = w.getAttr a g := by
  unfold World.setAttr World.getAttr
  cases ho : w.heap[a]? with
  | none => simp [ho]
  | some o =>
    have ha : a < w.heap.length := by
      rcases Nat.lt_or_ge a w.heap.length with h' | h'
      · exact h'
      · rw [List.getElem?_eq_none h'] at ho; cases ho
    simp [ha, lookup_setField_ne _ _ h]

/-- … and for another object -/
theorem getAttr_setAttr_other (w : World) {a b : Nat} (f g : String) (v : Val) (h : b ≠ a) :
    (w.setAttr a f v).getAttr b g = w.getAttr b g := by
  unfold World.setAttr World.getAttr
  cases ho : w.heap[a]? with
  | none => rfl
  | some o => simp [List.getElem?_set_ne (Ne.symm h)]

/-- a method whose parsed body is `return self.f` reads attribute `f`, on any world (stuck iff the object has no such attribute) -/
theorem getter_run_eq (pg : Prog) (c : Ctx) (d : Nat) (cls meth f : String) (hf : (f == "size") = false)
    (hlk : pg.methods.lookup (cls, meth) =
      some { ok := true, params := [], dflts := [], body := [.ret (.atom (.path "self" [f]))] })
    (w : World) (a : Nat) :
    callMethod pg c d cls meth (.ref a) [] [] w = (w.getAttr a f).map fun v => (w, some v) := by
  unfold World.getAttr
  cases ho : w.heap[a]? with
  | none =>
    simp [callMethod, hlk, bindParams, bindRest, runBody, execList, execStmt, evalExpr, evalAtom, evalPure, readFields, readField,
      ho, List.lookup]
  | some o =>
    cases hv : o.fields.lookup f <;>
    simp [callMethod, hlk, bindParams, bindRest, runBody, execList, execStmt, evalExpr, evalAtom, evalPure, readFields, readField,
      ho, hv, hf, List.lookup]

/-- a method whose parsed body is `self.f = p` (for its one parameter `p`) writes attribute `f` and nothing else, on any world -/
theorem setter_run (pg : Prog) (c : Ctx) (d : Nat) (cls meth f p : String) (hp : (p == "self") = false)
    (hlk : pg.methods.lookup (cls, meth) =
      some { ok := true, params := [p], dflts := [], body := [.assign (.attr "self" [] f) (.atom (.path p []))] })
    (w : World) (a : Nat) (v : Val) (ha : a < w.heap.length) :
    callMethod pg c d cls meth (.ref a) [v] [] w = some (w.setAttr a f v, none) := by
  have ho : w.heap[a]? = some w.heap[a] := List.getElem?_eq_getElem ha
  simp [callMethod, hlk, bindParams, bindRest, runBody, execList, execStmt, evalExpr, evalAtom, evalPure, readFields, storeTo,
    World.store, World.setAttr, ho, hp, List.lookup]

/-- getter ↦ the attribute it reads -/
def itemGetters : List (String × String) := [
  ("GetX", "_SearchDataItem__x"), ("GetY", "point"), ("GetDiscreteValueIndex", "_SearchDataItem__discreteValueIndex"),
  ("GetIndex", "_SearchDataItem__index"), ("GetZ", "_SearchDataItem__z"), ("GetLeft", "_SearchDataItem__leftPoint"),
  ("GetRight", "_SearchDataItem__rightPoint")]

/-- setter ↦ the attribute it writes -/
def itemSetters : List (String × String) := [
  ("SetIndex", "_SearchDataItem__index"), ("SetZ", "_SearchDataItem__z"), ("SetLeft", "_SearchDataItem__leftPoint"),
  ("SetRight", "_SearchDataItem__rightPoint")]

/-- the seven attributes are pairwise distinct, and each setter writes the attribute its getter reads -/
theorem itemGetters_distinct : (itemGetters.map (·.2)).Nodup ∧
    itemSetters.map (·.2) = ["GetIndex", "GetZ", "GetLeft", "GetRight"].filterMap (fun g => List.lookup g itemGetters) := by
  decide +kernel

/-- **the getters of `SearchDataItem` are plain attribute reads** (generated trees), on ANY world and ANY object: the value of the
attribute is returned and the world is unchanged (no such attribute: stuck) -/
theorem searchDataItem_getter_eq (c : Ctx) (d : Nat) {g f : String} (hg : (g, f) ∈ itemGetters) (w : World) (a : Nat) :
    callMethod theProg c d "SearchDataItem" g (.ref a) [] [] w = (w.getAttr a f).map fun v => (w, some v) := by
  rw [theProg_eq]
  simp only [itemGetters, List.mem_cons, Prod.mk.injEq, List.not_mem_nil, or_false] at hg
  rcases hg with ⟨rfl, rfl⟩ | ⟨rfl, rfl⟩ | ⟨rfl, rfl⟩ | ⟨rfl, rfl⟩ | ⟨rfl, rfl⟩ | ⟨rfl, rfl⟩ | ⟨rfl, rfl⟩ <;>
    exact getter_run_eq _ c d _ _ _ (by decide +kernel) (by kernel_rfl) w a

theorem searchDataItem_getter (c : Ctx) (d : Nat) {g f : String} (hg : (g, f) ∈ itemGetters)
    (w : World) (a : Nat) (v : Val) (hv : w.getAttr a f = some v) :
    callMethod theProg c d "SearchDataItem" g (.ref a) [] [] w = some (w, some v) := by
  rw [searchDataItem_getter_eq c d hg, hv]; rfl

/-- **the setters of `SearchDataItem` are plain attribute writes** (generated trees): one attribute of one object changes -/
theorem searchDataItem_setter (c : Ctx) (d : Nat) {s f : String} (hs : (s, f) ∈ itemSetters)
    (w : World) (a : Nat) (v : Val) (ha : a < w.heap.length) :
    callMethod theProg c d "SearchDataItem" s (.ref a) [v] [] w = some (w.setAttr a f v, none) := by
  rw [theProg_eq]
  simp only [itemSetters, List.mem_cons, Prod.mk.injEq, List.not_mem_nil, or_false] at hs
  rcases hs with ⟨rfl, rfl⟩ | ⟨rfl, rfl⟩ | ⟨rfl, rfl⟩ | ⟨rfl, rfl⟩
  · exact setter_run _ c d _ _ _ "index" (by decide +kernel) (by kernel_rfl) w a v ha
  · exact setter_run _ c d _ _ _ "z" (by decide +kernel) (by kernel_rfl) w a v ha
  · exact setter_run _ c d _ _ _ "point" (by decide +kernel) (by kernel_rfl) w a v ha
  · exact setter_run _ c d _ _ _ "point" (by decide +kernel) (by kernel_rfl) w a v ha

/-- **`GetF(SetF(v, it)) = v`**: for the four pairs `Index`, `Z`, `Left`, `Right` -/
theorem searchDataItem_get_set (c : Ctx) (d : Nat) {s g f : String} (hs : (s, f) ∈ itemSetters) (hg : (g, f) ∈ itemGetters)
    (w : World) (a : Nat) (v : Val) (ha : a < w.heap.length) :
    ∃ w', callMethod theProg c d "SearchDataItem" s (.ref a) [v] [] w = some (w', none) ∧
      callMethod theProg c d "SearchDataItem" g (.ref a) [] [] w' = some (w', some v) :=
  ⟨_, searchDataItem_setter c d hs w a v ha, searchDataItem_getter c d hg _ a v (getAttr_setAttr_self w a f v ha)⟩

/-- **`SetF` changes attribute `F` only**: every getter `G` of another attribute, on the same or on any other object `b`, returns after
`SetF(v)` what it returned before -/
theorem searchDataItem_set_other (c : Ctx) (d : Nat) {s g f f' : String} (hs : (s, f) ∈ itemSetters) (hg : (g, f') ∈ itemGetters)
    (w : World) (a b : Nat) (v u : Val) (ha : a < w.heap.length) (hne : f' ≠ f ∨ b ≠ a)
    (hu : callMethod theProg c d "SearchDataItem" g (.ref b) [] [] w = some (w, some u)) :
    ∃ w', callMethod theProg c d "SearchDataItem" s (.ref a) [v] [] w = some (w', none) ∧
      callMethod theProg c d "SearchDataItem" g (.ref b) [] [] w' = some (w', some u) := by
  refine ⟨_, searchDataItem_setter c d hs w a v ha, ?_⟩
  have hread : w.getAttr b f' = some u := by
    rw [searchDataItem_getter_eq c d hg] at hu
    cases hv : w.getAttr b f' with
    | none => rw [hv] at hu; cases hu
    | some u' => rw [hv] at hu; simp only [Option.map_some, Option.some.injEq, Prod.mk.injEq, true_and] at hu; rw [hu]
  apply searchDataItem_getter c d hg
  rcases hne with h | h
  · by_cases hb : b = a
    · subst hb; rw [getAttr_setAttr_ne _ _ _ h]; exact hread
    · rw [getAttr_setAttr_other _ _ _ _ hb]; exact hread
  · rw [getAttr_setAttr_other _ _ _ _ h]; exact hread

/-! #### the initial item and the model's unevaluated item -/

section
variable {α : Type} [Add α] [Sub α] [Mul α] [Div α] [Neg α] [LT α] [LE α]
  [DecidableLT α] [DecidableLE α] [OfNat α 0] [OfNat α 1] [OfNat α 2] [OfNat α 4] [Fns α]

/-- **what the model assumes about a never-evaluated item is what `SearchDataItem.__init__` stores.**
Source (`searchDataItem_init`) ↔ model (`AGP.Item` of `IOptModel/Method.lean`, `SD.Item` of `IOptModel/SearchData.lean`):
* `__index = -2` ↔ `ev = false` (`GetIndex()` is `0` for an evaluated item, `-2` otherwise: `MethodInterpDefs`);
* `__z = sys.float_info.max` ↔ `z = Fns.big` (`IOptModel/Arith.lean`: the double `0x7FEFFFFFFFFFFFFF`);
* `__leftPoint = __rightPoint = None` ↔ `SD.Item.left = SD.Item.right = none`;
* `functionValues = [FunctionValue()]` with `value = 0.0` ↔ `hv = 0`;
* `delta = -1.0` where the model has `delta := 0`, and `globalR = -1.0` where the model has `R := none`: NOT the same values, and it
  cannot matter: every item is created by `Method.FirstIteration` or `Method.CalculateIterationPoint`, and both attributes are
  overwritten before anything reads them - `left.delta = 0`, `middle.delta = …`, `right.delta = …` (`FirstIteration`, the three lines after
  the constructors), `oldpoint.delta = …`, `newpoint.delta = …` (first lines of `RenewSearchData`); `CalculateGlobalR` is called on all three
  items in `FirstIteration` and on both in `RenewSearchData` before they are inserted (it stores `-inf` = the model's `none` for the item
  without left neighbour).  `MethodInterp` ties these two functions;
* `localR`, `iterationNumber`, `__discreteValueIndex`: not in the model (never read by the single-queue method).
The statement: the two end items of the model's first iteration have exactly the values on the right. -/
theorem model_unevaluated_items (p : AGP.Params α) (z : α) :
    ((AGP.firstIteration p z).items.map fun it => (it.id, it.ev)) = [(0, false), (2, true), (1, false)] ∧
    (∀ it ∈ (AGP.firstIteration p z).items, it.ev = false → it.z = Fns.big ∧ it.hv = 0) ∧
    (({ x := (0 : Nat), globalR := (0 : Nat), localR := (0 : Nat) } : SD.Item Nat Nat).left = none ∧
     ({ x := (0 : Nat), globalR := (0 : Nat), localR := (0 : Nat) } : SD.Item Nat Nat).right = none) := by
  refine ⟨rfl, ?_, rfl, rfl⟩
  intro it hit hev
  simp only [AGP.firstIteration, List.mem_cons, List.not_mem_nil, or_false] at hit
  rcases hit with rfl | rfl | rfl
  · exact ⟨rfl, rfl⟩
  · simp at hev
  · exact ⟨rfl, rfl⟩

/-- **the initial values of `Process` / `Method` and the model's fresh state** (`solver_init_flags` ↔ `({} : Proc.PState α)` and
`AGP.firstIteration`): `__first_iteration = True` ↔ `m = none` (`ProcInterp.Glob.ofP`), `__refinedTrial = None` ↔ `refined = none`,
`numberOfLocalTrials = 0` ↔ `nLocal = 0`; and the values `Method.__init__` stores are the ones the model's first iteration starts from:
`M = 1`, `recalc = true`, `iterationsCount` becomes `1`, `solutionAccuracy = inf` ↔ `minDelta = none` -/
theorem model_fresh_state (p : AGP.Params α) (z : α) :
    (ProcInterp.Glob.ofP ({} : Proc.PState α)).first = true ∧ ({} : Proc.PState α).m.isNone = true ∧
    ({} : Proc.PState α).refined = none ∧ ({} : Proc.PState α).nLocal = 0 ∧ ({} : Proc.PState α).log = [] ∧
    (AGP.firstIteration p z).M = 1 ∧ (AGP.firstIteration p z).recalc = true ∧ (AGP.firstIteration p z).iters = 1 ∧
    (AGP.firstIteration p z).minDelta = none ∧ (AGP.firstIteration p z).nTrials = 1 :=
  ⟨rfl, rfl, rfl, rfl, rfl, rfl, rfl, rfl, rfl, rfl⟩

end

/-! ### two solvers share nothing -/

/-- shift the heap references of a value / of an object by `b` -/
def Val.shift (b : Nat) : Val → Val
  | .ref a => .ref (a + b)
  | v => v

def Obj.shift (b : Nat) (o : Obj) : Obj :=
  { o with fields := o.fields.map fun kv => (kv.1, kv.2.shift b), elems := o.elems.map (Val.shift b) }

/-- **a second `Solver(P', Q')` leaves every object of the first untouched and builds a disjoint copy of the graph**: the heap is the
first graph followed by the second graph with all its references shifted by 18 - no object of one solver (search data, listener list,
method, solution, placeholder trial, `M`, `Z`, …) is referenced from the other; only what the CALLER shares (`P = P'`, `Q = Q'`, the
default parameters object) is common. -/
theorem two_solvers_disjoint (P Q P' Q' : Root) (d : Nat) :
    (match new theProg oneObjective (d + 4) "Solver" [.sym P [], .sym Q []] [] {} with
     | some (_, w1) => new theProg oneObjective (d + 4) "Solver" [.sym P' [], .sym Q' []] [] w1
     | none => none) =
      some (.ref 18, { heap := expectedWiring P Q ++ (expectedWiring P' Q').map (Obj.shift 18) }) := by
  rw [theProg_eq]; kernel_rfl

/-! ### the defaults of `SolverParameters` meet the standing hypotheses of the headline theorems -/

/-- the default string of parameter `p` of `SolverParameters.__init__` (the defaults belong to the TRAILING parameters) -/
def solverParametersDefault (p : String) : Option String :=
  let ps := Gen.Wiring.solverParameters_initParams.drop 1
  ((ps.drop (ps.length - Gen.Wiring.solverParameters_initDefaults.length)).zip Gen.Wiring.solverParameters_initDefaults).lookup p

/-- a natural-number literal -/
def parseNat (s : String) : Option Nat := if (chars s).isEmpty then none else digitsToNat (chars s) 0

/-- **the default strings, parsed** (`parseDecimal`: mantissa and number of digits after the point): `eps = 1/10^2`, `r = 20/10^1`,
`itersLimit = 20000`, `evolventDensity = 10`, `epsR = 1/10^3`, `refineSolution = False` -/
theorem solverParameters_defaults_parsed :
    (solverParametersDefault "eps").bind parseDecimal = some (1, 2) ∧
    (solverParametersDefault "r").bind parseDecimal = some (20, 1) ∧
    (solverParametersDefault "epsR").bind parseDecimal = some (1, 3) ∧
    (solverParametersDefault "itersLimit").bind parseNat = some 20000 ∧
    (solverParametersDefault "evolventDensity").bind parseNat = some 10 ∧
    (solverParametersDefault "refineSolution").bind evalLit = some (.bool false) := by
  decide +kernel

/-- the number a decimal literal stands for -/
def decVal (α : Type) [DivisionRing α] (mk : Int × Nat) : α := (mk.1 : α) / (10 : α) ^ mk.2

/-- the numeric parameters of `SolverParameters` -/
structure ParamDefaults (α : Type) where
  eps : α
  r : α
  epsR : α
  itersLimit : Nat
  evolventDensity : Nat
  refineSolution : Bool

/-- the defaults of `SolverParameters.__init__`, read from the GENERATED default strings -/
def parsedDefaults (α : Type) [DivisionRing α] : Option (ParamDefaults α) :=
  match (solverParametersDefault "eps").bind parseDecimal, (solverParametersDefault "r").bind parseDecimal,
        (solverParametersDefault "epsR").bind parseDecimal, (solverParametersDefault "itersLimit").bind parseNat,
        (solverParametersDefault "evolventDensity").bind parseNat, (solverParametersDefault "refineSolution").bind evalLit with
  | some e, some r, some er, some il, some dn, some (.bool b) =>
    some { eps := decVal α e, r := decVal α r, epsR := decVal α er, itersLimit := il, evolventDensity := dn, refineSolution := b }
  | _, _, _, _, _, _ => none

/-- **the defaults are `eps = 1/100, r = 2, itersLimit = 20000, evolventDensity = 10, epsR = 1/1000, refineSolution = false`** -/
theorem parsedDefaults_eq (α : Type) [Field α] [CharZero α] :
    parsedDefaults α = some { eps := 1 / 100, r := 2, epsR := 1 / 1000, itersLimit := 20000, evolventDensity := 10,
                              refineSolution := false } := by
  obtain ⟨h1, h2, h3, h4, h5, h6⟩ := solverParameters_defaults_parsed
  simp only [parsedDefaults, h1, h2, h3, h4, h5, h6, decVal]
  norm_num

/-- **`defaults_meet_hypotheses`: the theorems are not vacuous for the configuration users get by default.**  The parameter record
`AGP.Params` built from the parsed defaults (any dimension `n ≥ 1`, any evolvent) satisfies the standing hypotheses of the headline
theorems: `1 < r` and `0 < n` (`IOptProps/C01.lean`, `C06.lean`, …), `0 < eps` (`C01solve.lean`), `1 ≤ itersLimit` (`C03.lean`,
`C03_stop_exact`), and the evolvent density is `≥ 1` (`C20.lean`). -/
theorem defaults_meet_hypotheses (α : Type) [Field α] [LinearOrder α] [IsStrictOrderedRing α] :
    ∃ dp : ParamDefaults α, parsedDefaults α = some dp ∧
      dp.eps = 1 / 100 ∧ dp.r = 2 ∧ dp.itersLimit = 20000 ∧ dp.evolventDensity = 10 ∧ dp.epsR = 1 / 1000 ∧
      dp.refineSolution = false ∧
      ∀ (n : Nat) (image : α → List α), 0 < n →
        let p : AGP.Params α := { n := n, r := dp.r, eps := dp.eps, itersLimit := dp.itersLimit, image := image }
        1 < p.r ∧ 0 < p.n ∧ 0 < p.eps ∧ 0 < p.itersLimit ∧ 1 ≤ p.itersLimit ∧ 1 ≤ dp.evolventDensity := by
  refine ⟨_, parsedDefaults_eq α, rfl, rfl, rfl, rfl, rfl, rfl, ?_⟩
  intro n image hn
  refine ⟨?_, hn, ?_, ?_, ?_, ?_⟩ <;> norm_num

/-- … and the `Solver.Config` of the model with the default parameters (what `Solver.mk` turns into the evolvent of density 10) -/
example : ∀ dp : ParamDefaults ℚ, parsedDefaults ℚ = some dp →
    let cfg : Solver.Config ℚ := { n := 2, lower := [0, 0], upper := [1, 1], eps := dp.eps, r := dp.r,
                                   itersLimit := dp.itersLimit, evolventDensity := dp.evolventDensity }
    cfg.evolventDensity = 10 ∧ (1 : ℚ) < cfg.r ∧ (0 : ℚ) < cfg.eps ∧ 1 ≤ cfg.itersLimit := by
  intro dp h
  rw [parsedDefaults_eq] at h
  cases h
  norm_num

/-- **the object `SolverParameters()` holds exactly these defaults** (generated tree of `SolverParameters.__init__` run on the default
values): literals are stored as written; `startPoint` is THE shared default list (never read by the library) -/
theorem solverParameters_init_defaults (c : Ctx) (d : Nat) :
    new theProg c (d + 1) "SolverParameters" [] [] {} = some (.ref 0, { heap := [
      { cls := "SolverParameters",
        fields := [("eps", .lit "0.01"), ("r", .lit "2.0"), ("itersLimit", .int 20000), ("evolventDensity", .int 10),
                   ("epsR", .lit "0.001"), ("refineSolution", .bool false),
                   ("startPoint", .sym (.dflt "SolverParameters" "startPoint") [])] }] }) := by
  rw [theProg_eq]; kernel_rfl

/-- arguments given by the user override the defaults, by position or by keyword -/
example : new theProg oneObjective 1 "SolverParameters" [.lit "0.001"] [("itersLimit", .int 500), ("refineSolution", .bool true)] {} =
    some (.ref 0, { heap := [
      { cls := "SolverParameters",
        fields := [("eps", .lit "0.001"), ("r", .lit "2.0"), ("itersLimit", .int 500), ("evolventDensity", .int 10),
                   ("epsR", .lit "0.001"), ("refineSolution", .bool true),
                   ("startPoint", .sym (.dflt "SolverParameters" "startPoint") [])] }] }) := by
  rw [theProg_eq]; decide +kernel

/-! ### `Solution`: a FRESH placeholder list per object -/

/-- `Solution(P)` evaluated twice -/
def solutionTwice (pg : Prog) (c : Ctx) (d : Nat) (P : Root) : Option (Val × Val × World) :=
  match new pg c d "Solution" [.sym P []] [] {} with
  | some (s1, w1) =>
    match new pg c d "Solution" [.sym P []] [] w1 with
    | some (s2, w2) => some (s1, s2, w2)
    | none => none
  | none => none

/-- **every `Solution` gets its OWN list `[Trial([], [])]`** (the default is `None`, `solution_initDefaults`, and the list is allocated
in the body): two `Solution(P)` have different `bestTrials` objects (addresses `4` and `9`) holding different `Trial`s (`3`, `8`) -/
theorem solution_fresh_bestTrials (c : Ctx) (d : Nat) (P : Root) :
    solutionTwice theProg c (d + 2) P = some (.ref 0, .ref 5, { heap := [
      { cls := "Solution",
        fields := [("problem", .sym P []), ("bestTrials", .ref 4), ("numberOfGlobalTrials", .int 0), ("numberOfLocalTrials", .int 0),
                   ("solvingTime", .lit "0.0"), ("solutionAccuracy", .lit "0.0")] },
      { cls := "list" }, { cls := "list" },
      { cls := "Trial", fields := [("point", .ref 1), ("functionValues", .ref 2)] },
      { cls := "list", elems := [.ref 3] },
      { cls := "Solution",
        fields := [("problem", .sym P []), ("bestTrials", .ref 9), ("numberOfGlobalTrials", .int 0), ("numberOfLocalTrials", .int 0),
                   ("solvingTime", .lit "0.0"), ("solutionAccuracy", .lit "0.0")] },
      { cls := "list" }, { cls := "list" },
      { cls := "Trial", fields := [("point", .ref 6), ("functionValues", .ref 7)] },
      { cls := "list", elems := [.ref 8] }] }) := by
  rw [theProg_eq]; kernel_rfl

/-- the edit "mutable default argument": `bestTrials=[Trial([], [])]` in the signature, no `if bestTrials is None` in the body -/
def solutionMutableDefault : ClassDef :=
  ⟨Gen.Wiring.solution_initParams, ["[Trial([], [])]", "0", "0", "0.0", "0.0"], Gen.Wiring.solution_init.drop 1⟩

/-- **the semantics distinguishes the two**: with the mutable default both `Solution` objects hold THE SAME list (the one made when the
`def` was executed): writing `bestTrials[0]` of one solver would change the other -/
theorem solution_mutableDefault_shared (c : Ctx) (d : Nat) (P : Root) :
    solutionTwice (theProg.withClass "Solution" solutionMutableDefault) c (d + 2) P = some (.ref 0, .ref 1, { heap := [
      { cls := "Solution",
        fields := [("problem", .sym P []), ("bestTrials", .sym (.dflt "Solution" "bestTrials") []), ("numberOfGlobalTrials", .int 0),
                   ("numberOfLocalTrials", .int 0), ("solvingTime", .lit "0.0"), ("solutionAccuracy", .lit "0.0")] },
      { cls := "Solution",
        fields := [("problem", .sym P []), ("bestTrials", .sym (.dflt "Solution" "bestTrials") []), ("numberOfGlobalTrials", .int 0),
                   ("numberOfLocalTrials", .int 0), ("solvingTime", .lit "0.0"), ("solutionAccuracy", .lit "0.0")] }] }) := by
  rw [theProg_eq]; kernel_rfl

/-! ### `OptimizationTask.Calculate` -/

/-- the world after `OptimizationTask(P)` and `SearchDataItem(y, x)`: `0` the task, `1` its permutation `[0]`, `2` the item, `3` its value
holder, `4` the list `functionValues` -/
def taskItemHeap (P : Root) (y x : Val) : List Obj := [
  { cls := "OptimizationTask", fields := [("problem", .sym P []), ("perm", .ref 1)] },
  { cls := "ndarray", elems := [.int 0] },
  { cls := "SearchDataItem",
    fields := [("point", y), ("functionValues", .ref 4), ("_SearchDataItem__x", x), ("_SearchDataItem__discreteValueIndex", .int 0),
               ("_SearchDataItem__index", .int (-2)), ("_SearchDataItem__z", .lit "sys.float_info.max"),
               ("_SearchDataItem__leftPoint", .none), ("_SearchDataItem__rightPoint", .none), ("delta", .lit "-1.0"),
               ("globalR", .lit "-1.0"), ("localR", .lit "-1.0"), ("iterationNumber", .int (-1))] },
  { cls := "FunctionValue", fields := [("type", .lit "FunctionType.OBJECTIV"), ("functionID", .lit "''"), ("value", .lit "0.0")] },
  { cls := "list", elems := [.ref 3] }]

theorem taskItemHeap_built (d : Nat) (P : Root) (y x : Val) :
    (match new theProg oneObjective (d + 2) "OptimizationTask" [.sym P []] [] {} with
     | some (_, w1) => new theProg oneObjective (d + 2) "SearchDataItem" [y, x] [] w1
     | none => none) = some (.ref 2, { heap := taskItemHeap P y x }) := by
  rw [theProg_eq]; kernel_rfl

/-- **`OptimizationTask.Calculate(dataItem, 0)`, source tree**: with the identity permutation that `OptimizationTask.__init__` builds,
it is ONE call `Calculate(dataItem.point, dataItem.functionValues[0])` on the CALLER's problem `P` - "evaluate the objective at the
item's point, handing it the item's value holder" - whose result is stored back in slot `0` of `dataItem.functionValues`; the item
itself is returned.  (The primitive `CalculateFunctionals` / `recordTrial` of `MethodInterp`.) -/
theorem optimizationTask_Calculate (c : Ctx) (d : Nat) (P : Root) (y x : Val) (tr : List Call) :
    callMethod theProg c d "OptimizationTask" "Calculate" (.ref 0) [.ref 2, .int 0] [] { heap := taskItemHeap P y x, trace := tr } =
      some ({ heap := (taskItemHeap P y x).set 4 { cls := "list", elems := [.res tr.length] },
              trace := tr ++ [{ recv := .sym P [], meth := "Calculate", args := [y, .ref 3] }] },
            some (.ref 2)) := by
  rw [theProg_eq]; kernel_rfl

/-- an index outside the permutation is not silently accepted -/
example : callMethod theProg oneObjective 0 "OptimizationTask" "Calculate" (.ref 0) [.ref 2, .int 1] []
    { heap := taskItemHeap (.user 0) (.lit "y") (.lit "0.5") } = none := by
  rw [theProg_eq]; decide +kernel

/-! ### sensitivity: seeded edits of the glue are stuck, or give another object graph -/

/-- `Solver(P, Q)` with `Solver.__init__` replaced by an edited body -/
def newSolverWith (body : List Stmt) (P Q : Root) : Option (Val × World) :=
  new (theProg.withClass "Solver" ⟨Gen.Wiring.solver_initParams, Gen.Wiring.solver_initDefaults, body⟩) oneObjective 4 "Solver"
    [.sym P [], .sym Q []] [] {}

/-- the unedited body through the same route: the expected wiring (so the examples below differ by the edit only) -/
example : newSolverWith Gen.Wiring.solver_init (.user 0) (.user 1) = some (.ref 0, wired (.user 0) (.user 1)) := by
  unfold newSolverWith; rw [theProg_eq]; decide +kernel

/-- **"the method gets a COPY of the parameters object"**: `Method(copy.copy(parameters), …)`, `copy.deepcopy(parameters)` are stuck
(a copy inserted into the wiring cannot be silently accepted) -/
theorem copy_of_parameters_stuck :
    newSolverWith (Gen.Wiring.solver_init.set 6
      (.call ["self.method"] "Method" ["copy.copy(parameters)", "self.task", "self.evolvent", "self.searchData"]))
      (.user 0) (.user 1) = none ∧
    newSolverWith (Gen.Wiring.solver_init.set 6
      (.call ["self.method"] "Method" ["copy.deepcopy(parameters)", "self.task", "self.evolvent", "self.searchData"]))
      (.user 0) (.user 1) = none ∧
    newSolverWith (Gen.Wiring.solver_init.set 1 (.call ["self.parameters"] "copy.copy" ["parameters"])) (.user 0) (.user 1) = none := by
  unfold newSolverWith; rw [theProg_eq]; decide +kernel

/-- **"Process copies the listener list"**: `listeners=list(self.__listeners)`, `listeners=self.__listeners[:]`,
`listeners=self.__listeners.copy()` in `Solver.__init__` are stuck; so is `self.__listeners = list(listeners)` in `Process.__init__` -/
theorem copy_of_listeners_stuck :
    newSolverWith (Gen.Wiring.solver_init.set 7
      (.call ["self.process"] "Process" ["parameters=parameters", "task=self.task", "evolvent=self.evolvent",
        "searchData=self.searchData", "method=self.method", "listeners=list(self.__listeners)"])) (.user 0) (.user 1) = none ∧
    newSolverWith (Gen.Wiring.solver_init.set 7
      (.call ["self.process"] "Process" ["parameters=parameters", "task=self.task", "evolvent=self.evolvent",
        "searchData=self.searchData", "method=self.method", "listeners=self.__listeners[:]"])) (.user 0) (.user 1) = none ∧
    newSolverWith (Gen.Wiring.solver_init.set 7
      (.call ["self.process"] "Process" ["parameters=parameters", "task=self.task", "evolvent=self.evolvent",
        "searchData=self.searchData", "method=self.method", "listeners=self.__listeners.copy()"])) (.user 0) (.user 1) = none ∧
    new (theProg.withClass "Process" ⟨Gen.Wiring.process_initParams, Gen.Wiring.process_initDefaults,
        Gen.Wiring.process_init.set 5 (.assign "self.__listeners" "list(listeners)")⟩) oneObjective 4 "Solver"
      [.sym (.user 0) [], .sym (.user 1) []] [] {} = none := by
  unfold newSolverWith; rw [theProg_eq]; decide +kernel

/-- … and a copy that CAN be written in the fragment - a fresh list for the process - is not stuck but gives another graph: the
process reads a list (address `17`) that `AddListener` never touches -/
theorem fresh_list_for_process_differs :
    newSolverWith (Gen.Wiring.solver_init.take 7 ++ [
      .assign "copied" "[]",
      .call ["self.process"] "Process" ["parameters=parameters", "task=self.task", "evolvent=self.evolvent",
        "searchData=self.searchData", "method=self.method", "listeners=copied"]]) (.user 0) (.user 1) ≠
      some (.ref 0, wired (.user 0) (.user 1)) ∧
    ((newSolverWith (Gen.Wiring.solver_init.take 7 ++ [
      .assign "copied" "[]",
      .call ["self.process"] "Process" ["parameters=parameters", "task=self.task", "evolvent=self.evolvent",
        "searchData=self.searchData", "method=self.method", "listeners=copied"]]) (.user 0) (.user 1)).bind fun r =>
        r.2.at (.ref 0) ["process", "_Process__listeners"]) = some (.ref 17) := by
  unfold newSolverWith; rw [theProg_eq]; decide +kernel

/-- **a second `SearchData`**: `self.searchData = SearchData(problem)` written twice (the method would still get the second one, but
two are allocated), or a second `SearchData(problem)` handed to `Method` (method and process then search in DIFFERENT containers):
not stuck, and NOT the expected wiring -/
theorem second_searchData_differs :
    newSolverWith (Gen.Wiring.solver_init.take 4 ++ [.call ["self.searchData"] "SearchData" ["problem"]] ++
      Gen.Wiring.solver_init.drop 4) (.user 0) (.user 1) ≠ some (.ref 0, wired (.user 0) (.user 1)) ∧
    ((newSolverWith (Gen.Wiring.solver_init.take 4 ++ [.call ["self.searchData"] "SearchData" ["problem"]] ++
      Gen.Wiring.solver_init.drop 4) (.user 0) (.user 1)).map fun r => r.2.count "SearchData") = some 2 ∧
    newSolverWith (Gen.Wiring.solver_init.take 6 ++ [
      .call ["other"] "SearchData" ["problem"],
      .call ["self.method"] "Method" ["parameters", "self.task", "self.evolvent", "other"]] ++
      Gen.Wiring.solver_init.drop 7) (.user 0) (.user 1) ≠ some (.ref 0, wired (.user 0) (.user 1)) ∧
    ((newSolverWith (Gen.Wiring.solver_init.take 6 ++ [
      .call ["other"] "SearchData" ["problem"],
      .call ["self.method"] "Method" ["parameters", "self.task", "self.evolvent", "other"]] ++
      Gen.Wiring.solver_init.drop 7) (.user 0) (.user 1)).map fun r =>
        (r.2.at (.ref 0) ["method", "searchData"], r.2.at (.ref 0) ["process", "searchData"])) =
      some (some (.ref 14), some (.ref 2)) := by
  unfold newSolverWith; rw [theProg_eq]; decide +kernel

/-- the evolvent built WITHOUT the configured density (defect F4: `Evolvent(lower, upper, n)`): not the expected wiring -/
theorem evolvent_without_density_differs :
    newSolverWith (Gen.Wiring.solver_init.set 4
      (.call ["self.evolvent"] "Evolvent" ["problem.lowerBoundOfFloatVariables", "problem.upperBoundOfFloatVariables",
        "problem.numberOfFloatVariables"])) (.user 0) (.user 1) ≠ some (.ref 0, wired (.user 0) (.user 1)) := by
  unfold newSolverWith; rw [theProg_eq]; decide +kernel

/-- **"Solve builds a fresh Process"**: `Solver.Solve` = `self.process = Process(…); return self.process.Solve()` -/
def solveFreshProcess : List Stmt := [
  .call ["self.process"] "Process" ["parameters=self.parameters", "task=self.task", "evolvent=self.evolvent",
    "searchData=self.searchData", "method=self.method", "listeners=self.__listeners"],
  .ret "self.process.Solve()"]

/-- … is NOT the delegation: it is not a facade body (`parseFacade`), and in the object graph the call goes to a NEW process object
(address `18`, with `__first_iteration = True` again), not to THE process (address `17`) -/
theorem solve_fresh_process_not_delegation :
    Facade.parseFacade solveFreshProcess = none ∧
    (callMethod (theProg.withMethod "Solver" "Solve" ⟨Gen.Wiring.solver_SolveParams, Gen.Wiring.solver_SolveDefaults, solveFreshProcess⟩)
      oneObjective 1 "Solver" "Solve" (.ref 0) [] [] (wired (.user 0) (.user 1))).map (fun r => (r.1.trace, r.1.heap.length)) =
      some ([{ recv := .ref 18, meth := "Solve" }], 19) := by
  rw [theProg_eq]; decide +kernel

/-- a facade method that calls ANOTHER method of the process, or does something before delegating, is not a facade body -/
example : Facade.parseFacade [.ret "self.process.GetResults()"] = some ("GetResults", [], true) ∧
    Facade.parseFacade [.call [] "self.method.FirstIteration" [], .ret "self.process.Solve()"] = none ∧
    Facade.parseFacade [.ret "self.method.Solve()"] = none ∧
    Facade.parseFacade [.call ["x"] "self.process.DoGlobalIteration" ["number"]] = none := by
  decide +kernel

/-- **`SetLeft` assigning `__rightPoint`**: the law `GetLeft(SetLeft(v)) = v` fails (and `GetRight` changes) -/
theorem setLeft_wrong_field_breaks_law :
    let pg := theProg.withMethod "SearchDataItem" "SetLeft"
      ⟨Gen.Wiring.searchDataItem_SetLeftParams, Gen.Wiring.searchDataItem_SetLeftDefaults, [.assign "self.__rightPoint" "point"]⟩
    let W : World := { heap := expectedItem (.lit "y") (.lit "0.5") }
    ((callMethod pg oneObjective 0 "SearchDataItem" "SetLeft" (.ref 0) [.ref 7] [] W).bind fun r =>
      (callMethod pg oneObjective 0 "SearchDataItem" "GetLeft" (.ref 0) [] [] r.1).map (·.2)) = some (some .none) ∧
    ((callMethod pg oneObjective 0 "SearchDataItem" "SetLeft" (.ref 0) [.ref 7] [] W).bind fun r =>
      (callMethod pg oneObjective 0 "SearchDataItem" "GetRight" (.ref 0) [] [] r.1).map (·.2)) = some (some (.ref 7)) := by
  rw [theProg_eq]; decide +kernel

/-- statements outside the fragment are not silently accepted -/
example : newSolverWith [.other "self.parameters.r = 3"] (.user 0) (.user 1) = none ∧
    newSolverWith [.assign "parameters.r" "3"] (.user 0) (.user 1) = none ∧             -- a store into the caller's object
    newSolverWith [.assign "self.perm[i]" "0"] (.user 0) (.user 1) = none ∧
    newSolverWith [.forEach "l" "self.__listeners" []] (.user 0) (.user 1) = none := by
  unfold newSolverWith; rw [theProg_eq]; decide +kernel

end WiringInterp

/-! ## The facade over the control semantics of `process.py`: `Solver.X` IS `Process.X` IS the model -/

namespace Facade
open Gen.ProcSrc WiringInterp

/-- the four facade bodies, parsed: one call of the SAME-NAMED method of `self.process`, with the same argument (`number`) or none;
`Solve` and `GetResults` return its value -/
theorem parseFacade_trees :
    parseFacade Gen.Wiring.solver_Solve = some ("Solve", [], true) ∧
    parseFacade Gen.Wiring.solver_GetResults = some ("GetResults", [], true) ∧
    parseFacade Gen.Wiring.solver_DoGlobalIteration = some ("DoGlobalIteration", ["number"], false) ∧
    parseFacade Gen.Wiring.solver_DoLocalRefinement = some ("DoLocalRefinement", ["number"], false) := by
  decide +kernel

theorem lk_Solve : processProcs.lookup "Solve" = some (solveParams, solveDefaults, solve) := by kernel_rfl
theorem lk_DoGlobalIteration : processProcs.lookup "DoGlobalIteration" =
    some (doGlobalIterationParams, doGlobalIterationDefaults, doGlobalIteration) := by kernel_rfl
theorem lk_DoLocalRefinement : processProcs.lookup "DoLocalRefinement" =
    some (doLocalRefinementParams, doLocalRefinementDefaults, doLocalRefinement) := by kernel_rfl
theorem lk_GetResults : processProcs.lookup "GetResults" = some (getResultsParams, getResultsDefaults, getResults) := by
  kernel_rfl

/-- **the default of the facade**: `Solver.DoGlobalIteration()` binds `number` to `1`, as `solver_DoGlobalIterationDefaults` says (and
`Solver.DoLocalRefinement()` likewise) -/
theorem facade_default_number :
    ProcInterp.bindArgs Gen.Wiring.solver_DoGlobalIterationParams Gen.Wiring.solver_DoGlobalIterationDefaults [] [] =
      some [("number", 1)] ∧
    ReportInterp.bindArgs Gen.Wiring.solver_DoLocalRefinementParams Gen.Wiring.solver_DoLocalRefinementDefaults [] [] =
      some [("number", 1)] ∧
    ProcInterp.bindArgs Gen.Wiring.solver_SolveParams Gen.Wiring.solver_SolveDefaults [] [] = some [] ∧
    ReportInterp.bindArgs Gen.Wiring.solver_GetResultsParams Gen.Wiring.solver_GetResultsDefaults [] [] = some [] := by
  decide +kernel

section
variable {α : Type} [Add α] [Sub α] [Mul α] [Div α] [Neg α] [LT α] [LE α]
  [DecidableLT α] [DecidableLE α] [OfNat α 0] [OfNat α 1] [OfNat α 2] [OfNat α 4] [Fns α]
open AGP Proc

theorem bind_solve (ints : List (String × Nat)) : ProcInterp.bindArgs solveParams solveDefaults [] ints = some [] := by
  simp [ProcInterp.bindArgs, solveParams, solveDefaults, ProcInterp.bindAll]

theorem bind_dgi_number (number : Nat) :
    ProcInterp.bindArgs doGlobalIterationParams doGlobalIterationDefaults ["number"] [("number", number)] =
      some [("number", number)] := by
  simp [ProcInterp.bindArgs, doGlobalIterationParams, doGlobalIterationDefaults, ProcInterp.bindAll, ProcInterp.ev_number]

/-- **`Solver.Solve`, source tree = model.**  Running the generated tree of `Solver.Solve` - its one callee resolved through the table
of the GENERATED trees of `process.py` and run by `ProcInterp` (which calls `self.DoGlobalIteration()` through ITS tree, depth `d+1`),
with the model's `while`-fuel - returns the value of that call, and the object afterwards is `Proc.solve p f refine ps`. -/
theorem solver_Solve_src (c : ProcInterp.Ctx α) (d : Nat) (ps : PState α) :
    runP c (d + 1) (c.p.itersLimit + 1) Gen.Wiring.solver_Solve [] (ProcInterp.Glob.ofP ps) =
      some (.done (ProcInterp.Glob.ofP (Proc.solve c.p c.f c.refine ps)), true) := by
  simp only [runP, exec, parseFacade_trees.1, procHandler, lk_Solve, bind_solve, ProcInterp.solve_src, Option.map_some]

/-- **`Solver.DoGlobalIteration(number)`, source tree = model**: `Proc.doGlobalIteration p f number ps []` (same final state, same
exception or none); the facade returns nothing -/
theorem solver_DoGlobalIteration_src (c : ProcInterp.Ctx α) (depth fuel number : Nat) (ps : PState α) :
    runP c depth fuel Gen.Wiring.solver_DoGlobalIteration [("number", number)] (ProcInterp.Glob.ofP ps) =
      some (ProcInterp.POut.ofRes (Proc.doGlobalIteration c.p c.f number ps []), false) := by
  simp only [runP, exec, parseFacade_trees.2.2.1, procHandler, lk_DoGlobalIteration, bind_dgi_number,
    ProcInterp.doGlobalIteration_src, Option.map_some]

theorem bind_getRes (ints : List (String × Int)) : ReportInterp.bindArgs getResultsParams getResultsDefaults [] ints = some [] :=
  ReportInterp.bind_getRes ints

theorem bind_dlr_number (number : Int) :
    ReportInterp.bindArgs doLocalRefinementParams doLocalRefinementDefaults ["number"] [("number", number)] =
      some [("number", number)] := by
  have h : ReportInterp.intLits.lookup "number" = none := by decide
  simp [ReportInterp.bindArgs, doLocalRefinementParams, doLocalRefinementDefaults, ReportInterp.bindAll, ReportInterp.evalInt, h,
    List.lookup]

/-- **`Solver.GetResults`, source tree = model**: from a slot as `Method.UpdateOptimum` or a previous `GetResults()` left it, the facade
returns the `Solution` object with `bestTrials[0]` = the model's reported trial `Proc.reportedId ps s`; the state is unchanged -/
theorem solver_GetResults_src (c : ReportInterp.Ctx α) (depth : Nat) (ps : PState α) (s : State α) (slot : Nat)
    (hm : ps.m = some s) (hres : ReportInterp.Resolved ps s) (hslot : slot = s.best ∨ slot = reportedId ps s) :
    runR c depth Gen.Wiring.solver_GetResults [] ⟨ps, slot⟩ =
      some (.done ⟨ps, reportedId ps s⟩ (some .solution), true) := by
  simp only [runR, exec, parseFacade_trees.2.1, reportHandler, lk_GetResults, bind_getRes,
    ReportInterp.getResults_src c depth [] ps s slot hm hres hslot, Option.map_some]

/-- **`Solver.DoLocalRefinement(number)`, source tree = model**: `Proc.doLocalRefinement ps lr` for the `LocalResult` the oracles give
from the point of the reported trial -/
theorem solver_DoLocalRefinement_src (c : ReportInterp.Ctx α) (d : Nat) (number : Int) (ps : PState α) (s : State α) (slot : Nat)
    (hm : ps.m = some s) (hres : ReportInterp.Resolved ps s) (hslot : slot = s.best ∨ slot = reportedId ps s)
    {b : Item α} (hb : findItem s.items (reportedId ps s) = some b) :
    runR c (d + 1) Gen.Wiring.solver_DoLocalRefinement [("number", number)] ⟨ps, slot⟩ =
      some (.done ⟨Proc.doLocalRefinement ps (c.lr b.point), reportedId ps s⟩ none, false) := by
  simp only [runR, exec, parseFacade_trees.2.2.2, reportHandler, lk_DoLocalRefinement, bind_dlr_number,
    ReportInterp.doLocalRefinement_src c d number ps s slot hm hres hslot hb, Option.map_some]

end
end Facade

/-! ### non-vacuity: the facade trees RUN over the toy instance of `ProcInterp` / `ReportInterp` (`ℚ`, one dimension) -/

namespace Facade.Examples
open AGP Proc ProcToy Facade

/-- the facade trees run: `Solver.Solve()` gives the model's `solve` and returns the value; `Solver.DoGlobalIteration(3)` gives the model's
`doGlobalIteration 3` and returns nothing; an objective raising at its third call: the exception leaves the facade -/
example :
    (runP (ProcInterp.Examples.C 5 F) 1 6 Gen.Wiring.solver_Solve [] (ProcInterp.Glob.ofP {})).map
        (fun r => (ProcInterp.Examples.view r.1, r.2)) =
      some (ProcInterp.Examples.view (.done (ProcInterp.Glob.ofP (Proc.solve (P 5 (1/100)) F noRefine {}))), true) ∧
    (runP (ProcInterp.Examples.C 5 F) 0 0 Gen.Wiring.solver_DoGlobalIteration [("number", 3)] (ProcInterp.Glob.ofP {})).map
        (fun r => (ProcInterp.Examples.view r.1, r.2)) =
      some (ProcInterp.Examples.view (ProcInterp.POut.ofRes (Proc.doGlobalIteration (P 5 (1/100)) F 3 {} [])), false) ∧
    (runP (ProcInterp.Examples.C 5 (failAt 2)) 0 0 Gen.Wiring.solver_DoGlobalIteration [("number", 3)] (ProcInterp.Glob.ofP {})).map
        (fun r => (ProcInterp.Examples.view r.1).map (·.exc)) = some (some (some Raise.objective)) := by
  decide +kernel

/-- the tie theorems instantiated (their hypotheses hold) -/
example := solver_Solve_src (ProcInterp.Examples.C 5 (failAt 3) ProcInterp.Examples.someRefine) 0 {}
example := solver_DoGlobalIteration_src (ProcInterp.Examples.C 5 (failAt 2)) 0 0 3 {}
example := solver_GetResults_src ReportInterp.Examples.C 0 ReportInterp.Examples.PS1 ReportInterp.Examples.S1 9
  ReportInterp.Examples.hm1 ReportInterp.Examples.res1 (.inl (by decide +kernel))
example := solver_GetResults_src ReportInterp.Examples.C 0 ReportInterp.Examples.PS1 ReportInterp.Examples.S1 6
  ReportInterp.Examples.hm1 ReportInterp.Examples.res1 (.inr (by decide +kernel))

/-- `Solver.GetResults()` / `Solver.DoLocalRefinement(20)` run: the slot is re-pointed from `Method.best` = 9 to the refined trial 6 -/
example :
    (runR ReportInterp.Examples.C 0 Gen.Wiring.solver_GetResults [] ⟨ReportInterp.Examples.PS1, 9⟩).map
        (fun r => (ReportInterp.Examples.view r.1, r.2)) =
      some (some (ReportInterp.Examples.viewG ⟨ReportInterp.Examples.PS1, 6⟩ (some .solution)), true) ∧
    (runR ReportInterp.Examples.C 1 Gen.Wiring.solver_DoLocalRefinement [("number", 20)] ⟨ReportInterp.Examples.PS1, 9⟩).map
        (fun r => ((ReportInterp.Examples.view r.1).map fun v => (v.slot, v.refined, v.nLocal), r.2)) =
      some (some (6, some 6, 11), false) := by
  decide +kernel

/-- a facade body over a method that `process.py` does not have, or with an argument that is not bound, is not accepted -/
example : (runP (ProcInterp.Examples.C 5 F) 1 6 [.ret "self.process.Run()"] [] (ProcInterp.Glob.ofP {})).isNone = true ∧
    (runP (ProcInterp.Examples.C 5 F) 1 6 Gen.Wiring.solver_DoGlobalIteration [] (ProcInterp.Glob.ofP {})).isNone = true := by
  decide +kernel

end Facade.Examples
