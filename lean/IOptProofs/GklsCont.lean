import IOptProofs.GklsMain
import Mathlib.Topology.LocallyFinite
import Mathlib.Topology.Algebra.Order.Field
import Mathlib.Topology.Order.OrderClosed
import Mathlib.Topology.MetricSpace.Pseudo.Defs
/-!
# GKLS: points on the spheres, the quadratic bound at the centres, continuity of the ideal function

* `exists_on_sphere`: every sphere `‖x - M_i‖ = ρ_i` contains a point of the box (non-vacuity of the splice).
* `cubicVal_sub_le`: `0 < cubic - f_i ≤ C_i ‖x - M_i‖²` in ball `i`.
* `ideal_continuousOn`: the function with guard threshold `0` (`constsP 0`) is continuous on the box.
-/

namespace Gkls
open Prob

/-! ### Any precision -/

section good
variable {D : GklsData ℝ} (hD : Good D)
include hD

theorem paraboloid_outsideP (p : ℝ) (x : List ℝ) (hdom : InDomainP p x)
    (hout : ∀ i, 1 ≤ i → i < 10 → rhoi D i < dist x (Mi D i)) :
    gkls (constsP p) D x = dist x (Mi D 0) ^ 2 + fi D 0 :=
  gkls_of_noneP p D x hdom (findBall_outside hD x hout)

theorem value_insideP (p : ℝ) (x : List ℝ) (hx : x.length = D.dim) (hdom : InDomainP p x) (i : Nat)
    (h1i : 1 ≤ i) (hi : i < 10) (hin : dist x (Mi D i) ≤ rhoi D i) :
    gkls (constsP p) D x = if dist x (Mi D i) < p then fi D i else cubicVal D i x :=
  gkls_of_someP p D x hdom i (findBall_inside hD x hx i h1i hi hin)

end good

/-! ### A point of the box on every sphere -/

/-- the point `m + c (t - m)` on the segment from `m` to `t` -/
def segPt (c : ℝ) (m t : List ℝ) : List ℝ := List.zipWith (fun a b => a + c * (b - a)) m t

theorem sqDist_segPt (c : ℝ) (m t : List ℝ) : sqDist (segPt c m t) m = c ^ 2 * sqDist t m := by
  induction m generalizing t with
  | nil => simp [segPt]
  | cons a m ih =>
    cases t with
    | nil => simp [segPt]
    | cons b t =>
      have := ih t
      simp only [segPt] at this ⊢
      simp only [List.zipWith_cons_cons, sqDist_cons, this]
      ring

theorem segPt_inBox (c : ℝ) (hc0 : 0 ≤ c) (hc1 : c ≤ 1) (m t : List ℝ) (hm : InBox m) (ht : InBox t) :
    InBox (segPt c m t) := by
  intro z hz
  unfold segPt at hz
  rw [List.mem_iff_getElem] at hz
  obtain ⟨j, hj, rfl⟩ := hz
  rw [List.getElem_zipWith]
  simp only [List.length_zipWith, lt_min_iff] at hj
  obtain ⟨a1, a2⟩ := hm m[j] (List.getElem_mem hj.1)
  obtain ⟨b1, b2⟩ := ht t[j] (List.getElem_mem hj.2)
  constructor <;> nlinarith

/-- every sphere `‖x - M_i‖ = ρ_i` (`i ≥ 1`) contains a point of the box (on the segment towards `T`) -/
theorem exists_on_sphere {D : GklsData ℝ} (hD : Good D) (i : Nat) (h1i : 1 ≤ i) (hi : i < 10) :
    ∃ x : List ℝ, x.length = D.dim ∧ InBox x ∧ dist x (Mi D i) = rhoi D i := by
  have hρ := hD.rho_pos i hi
  have hlt := vertex_outside hD i h1i hi
  have hd : 0 < dist (Mi D 0) (Mi D i) := lt_trans hρ hlt
  refine ⟨segPt (rhoi D i / dist (Mi D 0) (Mi D i)) (Mi D i) (Mi D 0), ?_, ?_, ?_⟩
  · simp [segPt, hD.len_M i hi, hD.len_M 0 (by omega)]
  · exact segPt_inBox _ (by positivity) ((div_le_one hd).mpr hlt.le) _ _ (Mi_inBox hD i hi)
      (Mi_inBox hD 0 (by omega))
  · unfold dist
    rw [sqDist_segPt, Real.sqrt_mul (sq_nonneg _), Real.sqrt_sq (by positivity)]
    exact div_mul_cancel₀ _ hd.ne'

/-! ### The quadratic bound at the centre -/

/-- `|cubic - f| ≤ (ρ² + 4dρ + 3|a|)/ρ² · t²` for `0 < t ≤ ρ` -/
theorem cubic_abs_le (ρ a s t d f : ℝ) (hρ : 0 < ρ) (ht : 0 < t) (htρ : t ≤ ρ) (hs : |s| ≤ t * d) :
    |(2 / ρ / ρ * s / t - 2 * a / ρ / ρ / ρ) * t * t * t + (1 - 4 * s / t / ρ + 3 * a / ρ / ρ) * t * t + f - f|
      ≤ (ρ ^ 2 + 4 * d * ρ + 3 * |a|) / ρ ^ 2 * t ^ 2 := by
  have hσ : |s / t| ≤ d := by
    rw [abs_div, abs_of_pos ht, div_le_iff₀ ht]
    linarith [mul_comm t d]
  obtain ⟨hσ1, hσ2⟩ := abs_le.mp hσ
  have hd : 0 ≤ d := le_trans (abs_nonneg _) hσ
  have h1 : s / t * ρ ≤ d * ρ := mul_le_mul_of_nonneg_right hσ2 hρ.le
  have h2 : -(d * ρ) ≤ s / t * ρ := by
    have := mul_le_mul_of_nonneg_right hσ1 hρ.le
    linarith
  obtain ⟨ha1, ha2⟩ := abs_le.mp (le_refl |a|)
  have hdρ : 0 ≤ d * ρ := mul_nonneg hd hρ.le
  have hu : 0 < t / ρ := div_pos ht hρ
  have hu1 : t / ρ ≤ 1 := (div_le_one hρ).mpr htρ
  have hP : |ρ ^ 2 - 4 * (s / t) * ρ + 3 * a| ≤ ρ ^ 2 + 4 * d * ρ + 3 * |a| := by
    rw [abs_le]; constructor <;> nlinarith [sq_nonneg ρ]
  have hQ : |ρ ^ 2 - 2 * (s / t) * ρ + a| ≤ ρ ^ 2 + 4 * d * ρ + 3 * |a| := by
    rw [abs_le]; constructor <;> nlinarith [sq_nonneg ρ, abs_nonneg a]
  rw [cubic_sub ρ a s t f hρ ht, abs_mul, abs_of_nonneg (by positivity : 0 ≤ t * t / (ρ * ρ))]
  have hcomb : |(1 - t / ρ) * (ρ ^ 2 - 4 * (s / t) * ρ + 3 * a) + t / ρ * (ρ ^ 2 - 2 * (s / t) * ρ + a)|
      ≤ ρ ^ 2 + 4 * d * ρ + 3 * |a| := by
    refine le_trans (abs_add_le _ _) ?_
    rw [abs_mul, abs_mul, abs_of_nonneg (sub_nonneg.mpr hu1), abs_of_pos hu]
    have e1 := mul_le_mul_of_nonneg_left hP (sub_nonneg.mpr hu1)
    have e2 := mul_le_mul_of_nonneg_left hQ hu.le
    nlinarith
  calc t * t / (ρ * ρ) * _ ≤ t * t / (ρ * ρ) * (ρ ^ 2 + 4 * d * ρ + 3 * |a|) :=
        mul_le_mul_of_nonneg_left hcomb (by positivity)
    _ = (ρ ^ 2 + 4 * d * ρ + 3 * |a|) / ρ ^ 2 * t ^ 2 := by field_simp

/-- the constant of the quadratic bound for ball `i` -/
noncomputable def quadC (D : GklsData ℝ) (i : Nat) : ℝ :=
  (rhoi D i ^ 2 + 4 * dist (Mi D 0) (Mi D i) * rhoi D i + 3 * |cubA D i|) / rhoi D i ^ 2

/-- in ball `i` the cubic branch satisfies `|cubic - f_i| ≤ C_i ‖x - M_i‖²` (also at the centre, where the
expression evaluates to `f_i` because `0/0 = 0`) -/
theorem cubicVal_sub_le {D : GklsData ℝ} (hD : Good D) (x : List ℝ) (hx : x.length = D.dim) (i : Nat)
    (_h1i : 1 ≤ i) (hi : i < 10) (hin : dist x (Mi D i) ≤ rhoi D i) :
    |cubicVal D i x - fi D i| ≤ quadC D i * dist x (Mi D i) ^ 2 := by
  rcases (dist_nonneg x (Mi D i)).eq_or_lt with h0 | hpos
  · unfold cubicVal
    rw [← h0]
    simp
  · unfold cubicVal quadC
    have hlen0 := hD.len_M 0 (by omega)
    have hleni := hD.len_M i hi
    have hcs := abs_dotFrom_le x (Mi D 0) (Mi D i) (by rw [hx, hlen0]) (by rw [hlen0, hleni])
    exact cubic_abs_le (rhoi D i) (cubA D i) (dotFrom (Mi D i) x (Mi D 0)) (dist x (Mi D i))
      (dist (Mi D 0) (Mi D i)) (fi D i) (hD.rho_pos i hi) hpos hin hcs

/-! ### Continuity of the ideal function (guard threshold `0`) on the box -/

section cont
open Topology Filter

theorem continuous_sqDist_ofFn : ∀ (n : Nat) (m : List ℝ),
    Continuous (fun v : Fin n → ℝ => sqDist (List.ofFn v) m)
  | 0, m => by simp only [List.ofFn_zero, sqDist_nil_left]; exact continuous_const
  | n + 1, [] => by simp only [sqDist_nil_right]; exact continuous_const
  | n + 1, b :: m => by
    simp only [List.ofFn_succ, sqDist_cons]
    have h0 : Continuous (fun v : Fin (n + 1) → ℝ => v 0 - b) := (continuous_apply 0).sub continuous_const
    exact (h0.mul h0).add
      ((continuous_sqDist_ofFn n m).comp (continuous_pi fun i => continuous_apply i.succ))

theorem continuous_dotFrom_ofFn : ∀ (n : Nat) (m t : List ℝ),
    Continuous (fun v : Fin n → ℝ => dotFrom m (List.ofFn v) t)
  | 0, m, t => by simp only [List.ofFn_zero, dotFrom_nil_x]; exact continuous_const
  | n + 1, [], t => by simp only [dotFrom_nil_m]; exact continuous_const
  | n + 1, c :: m, [] => by simp only [dotFrom_nil_t]; exact continuous_const
  | n + 1, c :: m, b :: t => by
    simp only [List.ofFn_succ, dotFrom_cons]
    have h0 : Continuous (fun v : Fin (n + 1) → ℝ => v 0 - c) := (continuous_apply 0).sub continuous_const
    exact (h0.mul continuous_const).add
      ((continuous_dotFrom_ofFn n m t).comp (continuous_pi fun i => continuous_apply i.succ))

theorem continuous_dist_ofFn (n : Nat) (m : List ℝ) :
    Continuous (fun v : Fin n → ℝ => dist (List.ofFn v) m) :=
  Real.continuous_sqrt.comp (continuous_sqDist_ofFn n m)

/-- the box `[-1,1]^n` as a set of coordinate functions -/
def boxSet (n : Nat) : Set (Fin n → ℝ) := {v | ∀ j, -1 ≤ v j ∧ v j ≤ 1}

theorem isClosed_boxSet (n : Nat) : IsClosed (boxSet n) := by
  unfold boxSet
  simp only [Set.ofPred_forall]
  exact isClosed_iInter fun j =>
    (isClosed_le continuous_const (continuous_apply j)).inter (isClosed_le (continuous_apply j) continuous_const)

theorem inBox_ofFn {n : Nat} {v : Fin n → ℝ} (hv : v ∈ boxSet n) : InBox (List.ofFn v) := by
  intro c hc
  rw [List.mem_ofFn] at hc
  obtain ⟨j, rfl⟩ := hc
  exact hv j

variable {D : GklsData ℝ} (hD : Good D)
include hD

/-- the cubic branch of ball `i` is continuous on the ball (including the centre) -/
theorem cubicVal_continuousOn (i : Nat) (h1i : 1 ≤ i) (hi : i < 10) :
    ContinuousOn (fun v : Fin D.dim → ℝ => cubicVal D i (List.ofFn v))
      {v | dist (List.ofFn v) (Mi D i) ≤ rhoi D i} := by
  intro v hv
  have hs := continuous_dotFrom_ofFn D.dim (Mi D i) (Mi D 0)
  have ht := continuous_dist_ofFn D.dim (Mi D i)
  by_cases h0 : dist (List.ofFn v) (Mi D i) = 0
  · -- the centre: squeeze with the quadratic bound
    have hbound : ∀ w ∈ {v : Fin D.dim → ℝ | dist (List.ofFn v) (Mi D i) ≤ rhoi D i},
        |cubicVal D i (List.ofFn w) - fi D i| ≤ quadC D i * dist (List.ofFn w) (Mi D i) ^ 2 :=
      fun w hw => cubicVal_sub_le hD (List.ofFn w) (by simp) i h1i hi hw
    have hval : cubicVal D i (List.ofFn v) = fi D i := by
      have := hbound v hv
      rw [h0] at this
      simp only [ne_eq, OfNat.ofNat_ne_zero, not_false_eq_true, zero_pow, mul_zero, abs_nonpos_iff,
        sub_eq_zero] at this
      exact this
    unfold ContinuousWithinAt
    show Tendsto _ _ (𝓝 (cubicVal D i (List.ofFn v)))
    rw [hval]
    have hc : Continuous (fun w : Fin D.dim → ℝ => quadC D i * dist (List.ofFn w) (Mi D i) ^ 2) :=
      continuous_const.mul (ht.pow 2)
    have hlim : Tendsto (fun w : Fin D.dim → ℝ => quadC D i * dist (List.ofFn w) (Mi D i) ^ 2)
        (𝓝[{v | dist (List.ofFn v) (Mi D i) ≤ rhoi D i}] v) (𝓝 0) := by
      have := hc.continuousWithinAt (s := {v | dist (List.ofFn v) (Mi D i) ≤ rhoi D i}) (x := v)
      unfold ContinuousWithinAt at this
      simpa [h0] using this
    rw [tendsto_iff_dist_tendsto_zero]
    refine squeeze_zero' (Eventually.of_forall fun w => _root_.dist_nonneg) ?_ hlim
    filter_upwards [self_mem_nhdsWithin] with w hw
    rw [Real.dist_eq]
    exact hbound w hw
  · -- away from the centre every operation is continuous
    apply ContinuousAt.continuousWithinAt
    unfold cubicVal
    have hsa := hs.continuousAt (x := v)
    have hta := ht.continuousAt (x := v)
    exact ((((((continuousAt_const.mul hsa).div hta h0).sub continuousAt_const).mul hta).mul hta).mul hta).add
      (((((continuousAt_const.sub (((continuousAt_const.mul hsa).div hta h0).div continuousAt_const
        (hD.rho_pos i hi).ne')).add continuousAt_const).mul hta).mul hta)) |>.add continuousAt_const

/-- **Continuity of the ideal GKLS function** (guard threshold `0`) on the box `[-1,1]^n` -/
theorem ideal_continuousOn :
    ContinuousOn (fun v : Fin D.dim → ℝ => gkls (constsP 0) D (List.ofFn v)) (boxSet D.dim) := by
  -- the pieces
  set S0 : Set (Fin D.dim → ℝ) :=
    {v | v ∈ boxSet D.dim ∧ ∀ i, 1 ≤ i → i < 10 → rhoi D i ≤ dist (List.ofFn v) (Mi D i)} with hS0
  set Sb : Fin 9 → Set (Fin D.dim → ℝ) := fun k =>
    {v | v ∈ boxSet D.dim ∧ dist (List.ofFn v) (Mi D (k.val + 1)) ≤ rhoi D (k.val + 1)} with hSb
  have hdomP : ∀ v ∈ boxSet D.dim, InDomainP 0 (List.ofFn v) := fun v hv =>
    (inBox_ofFn hv).inDomainP (le_refl 0)
  have hlen : ∀ v : Fin D.dim → ℝ, (List.ofFn v).length = D.dim := fun v => by simp
  -- closedness
  have hcl0 : IsClosed S0 := by
    rw [hS0]
    have : {v : Fin D.dim → ℝ | v ∈ boxSet D.dim ∧
        ∀ i, 1 ≤ i → i < 10 → rhoi D i ≤ dist (List.ofFn v) (Mi D i)} =
        boxSet D.dim ∩ ⋂ i, ⋂ (_ : 1 ≤ i), ⋂ (_ : i < 10),
          {v | rhoi D i ≤ dist (List.ofFn v) (Mi D i)} := by
      ext v; simp
    rw [this]
    exact (isClosed_boxSet _).inter (isClosed_iInter fun i => isClosed_iInter fun _ => isClosed_iInter fun _ =>
      isClosed_le continuous_const (continuous_dist_ofFn _ _))
  have hclb : ∀ k, IsClosed (Sb k) := fun k =>
    (isClosed_boxSet _).inter (isClosed_le (continuous_dist_ofFn _ _) continuous_const)
  -- continuity on the paraboloid piece
  have hc0 : ContinuousOn (fun v : Fin D.dim → ℝ => gkls (constsP 0) D (List.ofFn v)) S0 := by
    have hpar : Continuous (fun v : Fin D.dim → ℝ => dist (List.ofFn v) (Mi D 0) ^ 2 + fi D 0) :=
      ((continuous_dist_ofFn _ _).pow 2).add continuous_const
    refine hpar.continuousOn.congr ?_
    intro v hv
    obtain ⟨hvB, hvout⟩ := hv
    simp only
    by_cases hstrict : ∀ i, 1 ≤ i → i < 10 → rhoi D i < dist (List.ofFn v) (Mi D i)
    · exact paraboloid_outsideP hD 0 _ (hdomP v hvB) hstrict
    · push Not at hstrict
      obtain ⟨i, h1i, hi, hle⟩ := hstrict
      have heq : dist (List.ofFn v) (Mi D i) = rhoi D i := le_antisymm hle (hvout i h1i hi)
      rw [value_insideP hD 0 _ (hlen v) (hdomP v hvB) i h1i hi hle,
        if_neg (not_lt.mpr (dist_nonneg _ _))]
      exact cubicVal_on_sphere hD _ (hlen v) i h1i hi heq
  -- continuity on every ball
  have hcb : ∀ k, ContinuousOn (fun v : Fin D.dim → ℝ => gkls (constsP 0) D (List.ofFn v)) (Sb k) := by
    intro k
    have h1i : 1 ≤ k.val + 1 := by omega
    have hi : k.val + 1 < 10 := by omega
    refine ((cubicVal_continuousOn hD (k.val + 1) h1i hi).mono (fun v hv => hv.2)).congr ?_
    intro v hv
    simp only
    rw [value_insideP hD 0 _ (hlen v) (hdomP v hv.1) (k.val + 1) h1i hi hv.2,
      if_neg (not_lt.mpr (dist_nonneg _ _))]
  -- glue
  have hcU : ContinuousOn (fun v : Fin D.dim → ℝ => gkls (constsP 0) D (List.ofFn v)) (⋃ k, Sb k) :=
    LocallyFinite.continuousOn_iUnion (locallyFinite_of_finite _) hclb hcb
  have hall := hc0.union_of_isClosed hcU hcl0 (isClosed_iUnion_of_finite hclb)
  refine hall.mono ?_
  intro v hv
  by_cases hout : ∀ i, 1 ≤ i → i < 10 → rhoi D i ≤ dist (List.ofFn v) (Mi D i)
  · exact Or.inl ⟨hv, hout⟩
  · push Not at hout
    obtain ⟨i, h1i, hi, hlt⟩ := hout
    refine Or.inr (Set.mem_iUnion.mpr ⟨⟨i - 1, by omega⟩, hv, ?_⟩)
    simp only
    rw [show i - 1 + 1 = i by omega]
    exact hlt.le

end cont

end Gkls
