import IOptProofs.Process
/-!
# Counting invariants, `Solve` as a whole, and sequences of user operations
-/

set_option linter.unusedSectionVars false

section
variable {α : Type} [Add α] [Sub α] [Mul α] [Div α] [Neg α] [LT α] [LE α]
  [DecidableLT α] [DecidableLE α] [OfNat α 0] [OfNat α 1] [OfNat α 2] [OfNat α 4] [Fns α]

namespace Proc
open AGP AGP.Ctl

/-- `len(_allTrials)`: the id the next trial will get (2 before the first iteration: ids 0, 1 are the end points) -/
def PState.nextId (ps : PState α) : Nat := match ps.m with | none => 2 | some s => s.nextId

theorem oneIteration_ok_id {p : Params α} {f : Nat → List α → Option α} {ps ps' : PState α} {id : Nat}
    (h : oneIteration p f ps = .ok (ps', id)) : id = ps.nextId ∧ ps'.nextId = ps.nextId + 1 := by
  obtain ⟨-, -, pt, z, -, -, h⟩ := oneIteration_ok h
  rcases h with ⟨hm, -, hm', hid, -⟩ | ⟨s, pr, hm, hpr, -, hm', hid, -⟩
  · simp [PState.nextId, hm, hm', hid, (firstIteration_fields p z).2.2.1]
  · simp [PState.nextId, hm, hm', hid, (commit_fields p pr z).2.2.1, (prepare_ok_fields hpr).2.2.1]

theorem oneIteration_error_counters {p : Params α} {f : Nat → List α → Option α} {ps ps' : PState α} {e : Raise}
    (h : oneIteration p f ps = .error (ps', e)) :
    ps'.iters = ps.iters ∧ ps'.nTrials = ps.nTrials ∧ ps'.nextId = ps.nextId ∧ ps'.evals = ps.evals ∧
    ps'.nLocal = ps.nLocal ∧ ps'.calls = ps.calls + (if e = .objective then 1 else 0) ∧
    (e = .objective → ∃ pt, f ps.calls pt = none) := by
  obtain ⟨he, hl, h⟩ := oneIteration_error h
  rcases h with ⟨rfl, hc, pt, hz, ⟨hm, -, hm', -⟩ | ⟨s, pr, hm, hpr, -, hm', -⟩⟩ | ⟨-, hc, -, s, s', hm, hpr, hm'⟩
  · simp [PState.iters, PState.nTrials, PState.nextId, hm, hm', he, hl, hc]; exact ⟨pt, hz⟩
  · have := prepare_ok_fields hpr
    simp [PState.iters, PState.nTrials, PState.nextId, hm, hm', he, hl, hc, this]; exact ⟨pt, hz⟩
  · have := prepare_error_fields hpr
    simp [PState.iters, PState.nTrials, PState.nextId, hm, hm', he, hl, hc, this]

/-- ids handed out and records made by `k` passes: ids are consecutive, every record is a genuine
evaluation of the objective, made at the call index that follows the previous one -/
theorem iterN_ids_evals {p : Params α} {f : Nat → List α → Option α} {k : Nat} {ps ps' : PState α} {ids : List Nat}
    (h : iterN p f k ps = .ok (ps', ids)) :
    ids = List.range' ps.nextId k ∧ ps'.nextId = ps.nextId + k ∧
    ∃ new : List (List α × α), ps'.evals = ps.evals ++ new ∧ new.length = k ∧
      ∀ i pt z, new[i]? = some (pt, z) → f (ps.calls + i) pt = some z := by
  induction k generalizing ps ids with
  | zero =>
    simp only [iterN, Except.ok.injEq, Prod.mk.injEq] at h
    obtain ⟨rfl, rfl⟩ := h
    exact ⟨rfl, rfl, [], by simp, rfl, by simp⟩
  | succ k ih =>
    rw [iterN] at h
    split at h
    · cases h
    · next ps1 id h1 =>
      split at h
      · cases h
      · next ps2 ids2 h2 =>
        cases h
        obtain ⟨hid, hn1⟩ := oneIteration_ok_id h1
        obtain ⟨hc1, -, pt, z, hz, he1, -⟩ := oneIteration_ok h1
        obtain ⟨hids, hn2, new, he2, hlen, hgen⟩ := ih h2
        refine ⟨?_, by omega, (pt, z) :: new, by simp [he2, he1], by simp [hlen], ?_⟩
        · rw [hids, hid, hn1]; simp [List.range'_succ]
        · intro i pt' z' hi
          cases i with
          | zero => simp at hi; obtain ⟨rfl, rfl⟩ := hi; simpa using hz
          | succ i =>
            simp only [List.getElem?_cons_succ] at hi
            have := hgen i pt' z' hi
            rw [hc1] at this
            rw [← this]; congr 1; omega

/-! ### the bookkeeping invariant -/

/-- the counters agree with the record of evaluations -/
structure Consistent (ps : PState α) : Prop where
  trials : ps.nTrials = ps.evals.length
  iters : ps.iters = ps.nTrials
  nextId : ps.nextId = ps.nTrials + 2
  calls : ps.evals.length ≤ ps.calls

theorem Consistent.fresh : Consistent ({} : PState α) := ⟨rfl, rfl, rfl, Nat.le_refl _⟩

theorem Consistent.of_core {ps ps' : PState α} (hc : ps'.core = ps.core) (h : Consistent ps) : Consistent ps' := by
  obtain ⟨h1, h2, h3, h4, -⟩ := PState.core_eq_iff.1 hc
  obtain ⟨a, b, c, d⟩ := h
  constructor <;> simp only [PState.nTrials, PState.iters, PState.nextId, h1, h2, h4] at * <;> assumption

theorem Consistent.oneIteration_ok {p : Params α} {f : Nat → List α → Option α} {ps ps' : PState α} {id : Nat}
    (hc : Consistent ps) (h : oneIteration p f ps = .ok (ps', id)) : Consistent ps' := by
  obtain ⟨-, c1, c2, -, c4, c5, -⟩ := oneIteration_ok_counters h
  obtain ⟨-, c6⟩ := oneIteration_ok_id h
  obtain ⟨a, b, c, d⟩ := hc
  constructor <;> omega

theorem Consistent.oneIteration_error {p : Params α} {f : Nat → List α → Option α} {ps ps' : PState α} {e : Raise}
    (hc : Consistent ps) (h : oneIteration p f ps = .error (ps', e)) : Consistent ps' := by
  obtain ⟨c1, c2, c3, c4, -, c5, -⟩ := oneIteration_error_counters h
  obtain ⟨a, b, c, d⟩ := hc
  constructor
  · rw [c2, c4]; exact a
  · rw [c1, c2]; exact b
  · rw [c3, c2]; exact c
  · rw [c4, c5]; omega

theorem Consistent.iterN_ok {p : Params α} {f : Nat → List α → Option α} {k : Nat} {ps ps' : PState α} {ids : List Nat}
    (hc : Consistent ps) (h : iterN p f k ps = .ok (ps', ids)) : Consistent ps' := by
  induction k generalizing ps ids with
  | zero => simp only [iterN, Except.ok.injEq, Prod.mk.injEq] at h; obtain ⟨rfl, -⟩ := h; exact hc
  | succ k ih =>
    rw [iterN] at h
    split at h
    · cases h
    · next ps1 id h1 =>
      split at h
      · cases h
      · next ps2 ids2 h2 => cases h; exact ih (hc.oneIteration_ok h1) h2

/-- a raising batch: some `j < k` passes succeed, pass `j+1` raises -/
theorem iterN_error {p : Params α} {f : Nat → List α → Option α} {k : Nat} {ps pe : PState α} {e : Raise}
    (h : iterN p f k ps = .error (pe, e)) :
    ∃ j psj ids, j < k ∧ iterN p f j ps = .ok (psj, ids) ∧ oneIteration p f psj = .error (pe, e) := by
  induction k generalizing ps with
  | zero => simp [iterN] at h
  | succ k ih =>
    rw [iterN] at h
    split at h
    · next x h1 => cases h; exact ⟨0, ps, [], by omega, rfl, h1⟩
    · next ps1 id h1 =>
      split at h
      · next x h2 =>
        cases h
        obtain ⟨j, psj, ids, hj, hr, he⟩ := ih h2
        refine ⟨j + 1, psj, id :: ids, by omega, ?_, he⟩
        rw [iterN, h1]; simp only []; rw [hr]
      · cases h

/-! ### `DoGlobalIteration` as a whole -/

theorem doGlobalIteration_ok {p : Params α} {f : Nat → List α → Option α} {k : Nat} {ps : PState α} {saved : List Nat}
    (h : (doGlobalIteration p f k ps saved).raised = none) :
    ∃ ps' ids, iterN p f k ps = .ok (ps', ids) ∧
      (doGlobalIteration p f k ps saved).s = ps'.appendLog [Event.endIteration (saved ++ ids)] := by
  rw [doGlobalIteration_eq] at h ⊢
  cases hi : iterN p f k ps with
  | error x => rw [hi] at h; simp at h
  | ok x => obtain ⟨ps', ids⟩ := x; exact ⟨ps', ids, rfl, rfl⟩

theorem doGlobalIteration_raised {p : Params α} {f : Nat → List α → Option α} {k : Nat} {ps : PState α} {saved : List Nat}
    {e : Raise} (h : (doGlobalIteration p f k ps saved).raised = some e) :
    iterN p f k ps = .error ((doGlobalIteration p f k ps saved).s, e) := by
  rw [doGlobalIteration_eq] at h ⊢
  cases hi : iterN p f k ps with
  | error x => rw [hi] at h; obtain ⟨pe, e'⟩ := x; simp at h; subst h; rfl
  | ok x => rw [hi] at h; simp at h

/-- 1 if the raise is the objective's, else 0: the number of failed calls of the objective in one operation -/
def isObjective : Option Raise → Nat
  | some .objective => 1
  | _ => 0

theorem isObjective_le_one (r : Option Raise) : isObjective r ≤ 1 := by
  unfold isObjective; split <;> omega

theorem Consistent.dgi {p : Params α} {f : Nat → List α → Option α} {k : Nat} {ps : PState α} {saved : List Nat}
    (hc : Consistent ps) :
    Consistent (doGlobalIteration p f k ps saved).s ∧
    (doGlobalIteration p f k ps saved).s.calls + ps.evals.length =
      ps.calls + (doGlobalIteration p f k ps saved).s.evals.length + isObjective (doGlobalIteration p f k ps saved).raised ∧
    (isObjective (doGlobalIteration p f k ps saved).raised = 1 →
      ∃ pt, f ((doGlobalIteration p f k ps saved).s.calls - 1) pt = none) := by
  cases hr : (doGlobalIteration p f k ps saved).raised with
  | none =>
    obtain ⟨ps', ids, hi, hs⟩ := doGlobalIteration_ok hr
    have hc' := hc.iterN_ok hi
    obtain ⟨-, -, c3, c4, -⟩ := iterN_counters hi
    rw [hs]
    refine ⟨hc'.of_core (PState.appendLog_core _ _), ?_, by simp [isObjective]⟩
    simp [isObjective]; omega
  | some e =>
    have hi := doGlobalIteration_raised hr
    obtain ⟨j, psj, ids, -, hj, he⟩ := iterN_error hi
    have hcj := hc.iterN_ok hj
    obtain ⟨-, -, c3, c4, -⟩ := iterN_counters hj
    obtain ⟨-, -, -, e4, -, e5, e6⟩ := oneIteration_error_counters he
    refine ⟨hcj.oneIteration_error he, ?_, ?_⟩
    · rw [e5, e4]
      cases e <;> simp [isObjective] <;> omega
    · intro h1
      have : e = .objective := by cases e <;> simp [isObjective] at h1 ⊢
      obtain ⟨pt, hpt⟩ := e6 this
      refine ⟨pt, ?_⟩
      rw [e5, this]; simpa using hpt

/-! ### `DoLocalRefinement` -/

/-- the optional refinement step of `Solve` -/
def refineStep (refine : PState α → Option (LocalResult α)) (ps : PState α) : PState α :=
  match refine ps with
  | some lr => doLocalRefinement ps lr
  | none => ps

theorem doLocalRefinement_fields (ps : PState α) (lr : LocalResult α) :
    (doLocalRefinement ps lr).log = ps.log ∧ (doLocalRefinement ps lr).evals = ps.evals ∧
    (doLocalRefinement ps lr).calls = ps.calls ∧ (doLocalRefinement ps lr).iters = ps.iters ∧
    (doLocalRefinement ps lr).nTrials = ps.nTrials ∧ (doLocalRefinement ps lr).nextId = ps.nextId ∧
    (doLocalRefinement ps lr).minDelta = ps.minDelta ∧ stopNow p (doLocalRefinement ps lr) = stopNow p ps ∧
    ((doLocalRefinement ps lr).m = none ↔ ps.m = none) := by
  unfold doLocalRefinement
  cases hm : ps.m with
  | none => simp [hm]
  | some s => simp [PState.iters, PState.nTrials, PState.nextId, PState.minDelta, stopNow, stopCond, hm]

theorem refineStep_fields (refine : PState α → Option (LocalResult α)) (ps : PState α) :
    (refineStep refine ps).log = ps.log ∧ (refineStep refine ps).evals = ps.evals ∧
    (refineStep refine ps).calls = ps.calls ∧ (refineStep refine ps).iters = ps.iters ∧
    (refineStep refine ps).nTrials = ps.nTrials ∧ (refineStep refine ps).nextId = ps.nextId ∧
    (refineStep refine ps).minDelta = ps.minDelta ∧ stopNow p (refineStep refine ps) = stopNow p ps ∧
    ((refineStep refine ps).m = none ↔ ps.m = none) := by
  unfold refineStep
  split
  · exact doLocalRefinement_fields ps _
  · simp

theorem Consistent.refine {refine : PState α → Option (LocalResult α)} {ps : PState α} (hc : Consistent ps) :
    Consistent (refineStep refine ps) := by
  obtain ⟨-, h2, h3, h4, h5, h6, -⟩ := refineStep_fields (p := ⟨0, 0, 0, 0, fun _ => []⟩) refine ps
  obtain ⟨a, b, c, d⟩ := hc
  constructor
  · rw [h5, h2]; exact a
  · rw [h4, h5]; exact b
  · rw [h6, h5]; exact c
  · rw [h2, h3]; exact d

/-! ### `Solve` as a whole -/

theorem solve_eq (p : Params α) (f : Nat → List α → Option α) (refine : PState α → Option (LocalResult α)) (ps : PState α) :
    solve p f refine ps =
      (refineStep refine (solveLoop p f (p.itersLimit + 1) ps).1).appendLog
        [Event.methodStop (stopNow p (refineStep refine (solveLoop p f (p.itersLimit + 1) ps).1))] := by
  rfl

theorem RunPrefix.iters_le {p : Params α} {f : Nat → List α → Option α} {ps psj : PState α} {j : Nat} {ids : List Nat}
    (h : RunPrefix p f ps j psj ids) : psj.iters = ps.iters + j ∧ (0 < j → ps.iters + j ≤ p.itersLimit) := by
  refine ⟨(iterN_counters h.run).1, fun hj => ?_⟩
  obtain ⟨psi, idsi, hi, hst⟩ := h.notStop (j - 1) (by omega)
  have h1 := (iterN_counters hi).1
  have : ¬ (p.itersLimit ≤ psi.iters) := by
    intro hle
    have := (stopNow_iff p psi).2 (.inr hle)
    rw [hst] at this; cases this
  omega

/-- bookkeeping of the `while` loop of `Solve` -/
theorem Consistent.solveLoop_pres {p : Params α} {f : Nat → List α → Option α} {fuel : Nat} {ps : PState α}
    (hc : Consistent ps) (hfuel : remaining p ps < fuel) :
    Consistent (solveLoop p f fuel ps).1 ∧
    (solveLoop p f fuel ps).1.calls + ps.evals.length =
      ps.calls + (solveLoop p f fuel ps).1.evals.length + isObjective (solveRaise p f fuel ps) ∧
    (isObjective (solveRaise p f fuel ps) = 1 → ∃ pt, f ((solveLoop p f fuel ps).1.calls - 1) pt = none) ∧
    (solveLoop p f fuel ps).1.nTrials ≤ max ps.nTrials p.itersLimit ∧
    ps.evals.length ≤ (solveLoop p f fuel ps).1.evals.length := by
  obtain ⟨j, psj, ids, hpre, hcase⟩ := solveLoop_spec p f fuel ps hfuel
  have hcj := hc.iterN_ok hpre.run
  obtain ⟨c1, c2, c3, c4, -⟩ := iterN_counters hpre.run
  have hle := hpre.iters_le
  have hb : psj.nTrials ≤ max ps.nTrials p.itersLimit := by
    have := hc.iters
    rcases Nat.eq_zero_or_pos j with rfl | hj
    · rw [c2]; simp; omega
    · have := hle.2 hj
      rw [c2]; omega
  rcases hcase with ⟨hst, hsr, ps', hsl, hc', -⟩ | ⟨hst, pe, e, ps', herr, hsr, hsl, hc', -⟩
  · obtain ⟨-, h2, -, h4, -⟩ := PState.core_eq_iff.1 hc'
    rw [hsl, hsr]
    refine ⟨hcj.of_core hc', ?_, by simp [isObjective], ?_, ?_⟩
    · simp only [h4, h2, isObjective]; omega
    · have : ps'.nTrials = psj.nTrials := by simp [PState.nTrials, (PState.core_eq_iff.1 hc').1]
      rw [this]; exact hb
    · simp only [h2]; omega
  · obtain ⟨e1, e2, -, e4, -, e5, e6⟩ := oneIteration_error_counters herr
    obtain ⟨-, h2, -, h4, -⟩ := PState.core_eq_iff.1 hc'
    rw [hsl, hsr]
    refine ⟨(hcj.oneIteration_error herr).of_core hc', ?_, ?_, ?_, ?_⟩
    · simp only [h4, h2, e4, e5]
      cases e <;> simp [isObjective] <;> omega
    · intro h1
      have : e = .objective := by cases e <;> simp [isObjective] at h1 ⊢
      obtain ⟨pt, hpt⟩ := e6 this
      refine ⟨pt, ?_⟩
      simp only [h4, e5, this]; simpa using hpt
    · have : ps'.nTrials = pe.nTrials := by simp [PState.nTrials, (PState.core_eq_iff.1 hc').1]
      rw [this, e2]; exact hb
    · simp only [h2, e4]; omega

/-- bookkeeping of `Solve` -/
theorem Consistent.solve_pres {p : Params α} {f : Nat → List α → Option α} {refine : PState α → Option (LocalResult α)}
    {ps : PState α} (hc : Consistent ps) :
    Consistent (solve p f refine ps) ∧
    (solve p f refine ps).calls + ps.evals.length =
      ps.calls + (solve p f refine ps).evals.length + isObjective (solveRaise p f (p.itersLimit + 1) ps) ∧
    (isObjective (solveRaise p f (p.itersLimit + 1) ps) = 1 → ∃ pt, f ((solve p f refine ps).calls - 1) pt = none) ∧
    (solve p f refine ps).nTrials ≤ max ps.nTrials p.itersLimit ∧
    ps.evals.length ≤ (solve p f refine ps).evals.length := by
  have hfuel : remaining p ps < p.itersLimit + 1 := Nat.lt_succ_of_le (remaining_le p ps)
  obtain ⟨h1, h2, h3, h4, h5⟩ := hc.solveLoop_pres (f := f) hfuel
  obtain ⟨-, r2, r3, -, r5, -⟩ := refineStep_fields (p := p) refine (solveLoop p f (p.itersLimit + 1) ps).1
  rw [solve_eq]
  refine ⟨(h1.refine).of_core (PState.appendLog_core _ _), ?_, ?_, ?_, ?_⟩
  · simp only [PState.appendLog_calls, PState.appendLog_evals, r2, r3]; exact h2
  · simp only [PState.appendLog_calls, r3]; exact h3
  · have : ((refineStep refine (solveLoop p f (p.itersLimit + 1) ps).1).appendLog
        [Event.methodStop (stopNow p (refineStep refine (solveLoop p f (p.itersLimit + 1) ps).1))]).nTrials =
        (refineStep refine (solveLoop p f (p.itersLimit + 1) ps).1).nTrials := rfl
    rw [this, r5]; exact h4
  · simp only [PState.appendLog_evals, r2]; exact h5

/-! ### sequences of user operations -/

/-- what a user can do with a solver -/
inductive Op where
  /-- `DoGlobalIteration(k)` (an exception propagates to the caller, who may go on using the solver) -/
  | iter (k : Nat)
  /-- `Solve()` -/
  | solve
deriving Repr, DecidableEq

/-- the state after one operation -/
def runOp (p : Params α) (f : Nat → List α → Option α) (refine : PState α → Option (LocalResult α)) : Op → PState α → PState α
  | .iter k, ps => (doGlobalIteration p f k ps []).s
  | .solve, ps => solve p f refine ps

/-- the exception raised inside one operation (propagated by `DoGlobalIteration`, caught and printed by `Solve`) -/
def opRaise (p : Params α) (f : Nat → List α → Option α) : Op → PState α → Option Raise
  | .iter k, ps => (doGlobalIteration p f k ps []).raised
  | .solve, ps => solveRaise p f (p.itersLimit + 1) ps

/-- the state after a sequence of operations -/
def runOps (p : Params α) (f : Nat → List α → Option α) (refine : PState α → Option (LocalResult α)) : List Op → PState α → PState α
  | [], ps => ps
  | op :: ops, ps => runOps p f refine ops (runOp p f refine op ps)

/-- the number of calls of the objective that raised during a sequence of operations -/
def failedCalls (p : Params α) (f : Nat → List α → Option α) (refine : PState α → Option (LocalResult α)) : List Op → PState α → Nat
  | [], _ => 0
  | op :: ops, ps => isObjective (opRaise p f op ps) + failedCalls p f refine ops (runOp p f refine op ps)

theorem runOps_append (p : Params α) (f : Nat → List α → Option α) (refine : PState α → Option (LocalResult α))
    (ops1 ops2 : List Op) (ps : PState α) :
    runOps p f refine (ops1 ++ ops2) ps = runOps p f refine ops2 (runOps p f refine ops1 ps) := by
  induction ops1 generalizing ps with
  | nil => rfl
  | cons op ops ih => simp [runOps, ih]

theorem Consistent.runOp_pres {p : Params α} {f : Nat → List α → Option α} {refine : PState α → Option (LocalResult α)}
    {ps : PState α} (hc : Consistent ps) (op : Op) :
    Consistent (runOp p f refine op ps) ∧
    (runOp p f refine op ps).calls + ps.evals.length =
      ps.calls + (runOp p f refine op ps).evals.length + isObjective (opRaise p f op ps) ∧
    (isObjective (opRaise p f op ps) = 1 → ∃ pt, f ((runOp p f refine op ps).calls - 1) pt = none) := by
  cases op with
  | iter k => exact hc.dgi
  | solve => obtain ⟨h1, h2, h3, -⟩ := hc.solve_pres (p := p) (f := f) (refine := refine); exact ⟨h1, h2, h3⟩

theorem Consistent.runOps_pres {p : Params α} {f : Nat → List α → Option α} {refine : PState α → Option (LocalResult α)}
    {ps : PState α} (hc : Consistent ps) (ops : List Op) :
    Consistent (runOps p f refine ops ps) ∧
    (runOps p f refine ops ps).calls + ps.evals.length =
      ps.calls + (runOps p f refine ops ps).evals.length + failedCalls p f refine ops ps := by
  induction ops generalizing ps with
  | nil => exact ⟨hc, by simp [runOps, failedCalls]⟩
  | cons op ops ih =>
    obtain ⟨h1, h2, -⟩ := hc.runOp_pres (p := p) (f := f) (refine := refine) op
    obtain ⟨i1, i2⟩ := ih h1
    refine ⟨i1, ?_⟩
    simp only [runOps, failedCalls]
    omega

/-- a total objective (never raises) produces no failed call -/
theorem opRaise_total {p : Params α} {f : Nat → List α → Option α} (hf : ∀ j pt, f j pt ≠ none)
    {ps : PState α} (hc : Consistent ps) (op : Op) : isObjective (opRaise p f op ps) = 0 := by
  have h := (hc.runOp_pres (p := p) (f := f) (refine := fun _ => none) op).2.2
  have := isObjective_le_one (opRaise p f op ps)
  rcases Nat.lt_or_ge (isObjective (opRaise p f op ps)) 1 with h1 | h1
  · omega
  · obtain ⟨pt, hpt⟩ := h (by omega)
    exact absurd hpt (hf _ _)

theorem failedCalls_total {p : Params α} {f : Nat → List α → Option α} {refine : PState α → Option (LocalResult α)}
    (hf : ∀ j pt, f j pt ≠ none) {ps : PState α} (hc : Consistent ps) (ops : List Op) :
    failedCalls p f refine ops ps = 0 := by
  induction ops generalizing ps with
  | nil => rfl
  | cons op ops ih =>
    simp only [failedCalls, opRaise_total hf hc op, Nat.zero_add]
    exact ih (hc.runOp_pres op).1

end Proc
end
