import IOptModel.Method
import IOptProofs.Laws
import Mathlib.Data.List.Chain
import Mathlib.Data.List.Basic
/-!
# List-level lemmas about the containers used by the AGP model

`insertBefore`, `findItem`, `leftOf`, the sorted queue (`SD.qinsertRaw`, `refillQueue`), the order
`keyLe` on queue keys and `recalcItems`.
-/

namespace AGP

/-! ## Neighbouring elements of a list -/

/-- `a` and `b` are neighbouring elements (in this order) of `l` -/
def Neighbours {β : Type} (l : List β) (a b : β) : Prop := ∃ l₁ l₂, l = l₁ ++ a :: b :: l₂

theorem isChain_iff_neighbours {β : Type} {R : β → β → Prop} {l : List β} :
    l.IsChain R ↔ ∀ a b, Neighbours l a b → R a b := by
  rw [List.isChain_iff_forall_rel_of_append_cons_cons]
  constructor
  · rintro h a b ⟨l₁, l₂, e⟩; exact h e
  · intro h a b l₁ l₂ e; exact h a b ⟨l₁, l₂, e⟩

theorem Neighbours.mem_left {β : Type} {l : List β} {a b : β} (h : Neighbours l a b) : a ∈ l := by
  obtain ⟨l₁, l₂, rfl⟩ := h; simp

theorem Neighbours.mem_right {β : Type} {l : List β} {a b : β} (h : Neighbours l a b) : b ∈ l := by
  obtain ⟨l₁, l₂, rfl⟩ := h; simp

/-- replacing the neighbouring pair `(a, b)` by `(a, n, b')` in a chain -/
theorem isChain_insert {β : Type} {R : β → β → Prop} {pre post : List β} {a b n b' : β}
    (h : (pre ++ a :: b :: post).IsChain R) (h1 : R a n) (h2 : R n b')
    (h3 : ∀ z, R b z → R b' z) : (pre ++ a :: n :: b' :: post).IsChain R := by
  rw [List.isChain_append_cons_cons] at h ⊢
  refine ⟨h.1, h1, ?_⟩
  rw [List.isChain_cons_cons]
  exact ⟨h2, h.2.2.imp_head (fun {z} => h3 z)⟩

/-- every non-head element of a list has a left neighbour -/
theorem exists_neighbour_of_mem {β : Type} {l : List β} {f b : β} {t : List β} (hl : l = f :: t)
    (hb : b ∈ t) : ∃ a, Neighbours l a b := by
  subst hl
  obtain ⟨s, u, rfl⟩ := List.append_of_mem hb
  rcases List.eq_nil_or_concat s with rfl | ⟨s', a, rfl⟩
  · exact ⟨f, [], u, by simp⟩
  · exact ⟨a, f :: s', u, by simp⟩

section Items
variable {α : Type}

/-! ## `insertBefore`, `findItem`, `leftOf` on a decomposed list -/

theorem insertBefore_append (new old' b : Item α) (l₁ post : List (Item α))
    (hid : old'.id = b.id) (hpre : ∀ c ∈ l₁, c.id ≠ b.id) :
    insertBefore new old' (l₁ ++ b :: post) = l₁ ++ new :: old' :: post := by
  induction l₁ with
  | nil => simp [insertBefore, hid]
  | cons c t ih =>
    have hc : c.id ≠ old'.id := by rw [hid]; exact hpre c (by simp)
    simp only [List.cons_append, insertBefore, beq_iff_eq, hc, if_false]
    rw [ih (fun c hc => hpre c (by simp [hc]))]

theorem findItem_append (b : Item α) (l₁ post : List (Item α)) (hpre : ∀ c ∈ l₁, c.id ≠ b.id) :
    findItem (l₁ ++ b :: post) b.id = some b := by
  unfold findItem
  induction l₁ with
  | nil => simp
  | cons c t ih =>
    have hc : (c.id == b.id) = false := by simpa using hpre c (by simp)
    simp only [List.cons_append, List.find?_cons, hc]
    exact ih (fun c hc => hpre c (by simp [hc]))

theorem leftOf_append (a b : Item α) (pre post : List (Item α))
    (hpre : ∀ c ∈ pre ++ [a], c.id ≠ b.id) :
    leftOf (pre ++ a :: b :: post) b.id = some a := by
  induction pre with
  | nil => simp [leftOf]
  | cons c t ih =>
    have iht := ih (fun c hc => hpre c (by simp at hc ⊢; tauto))
    cases t with
    | nil =>
      have ha : a.id ≠ b.id := hpre a (by simp)
      simp only [List.nil_append, List.cons_append] at iht ⊢
      rw [leftOf]
      simp only [beq_iff_eq, ha, if_false]
      exact iht
    | cons d t' =>
      have hd : d.id ≠ b.id := hpre d (by simp)
      simp only [List.cons_append] at iht ⊢
      rw [leftOf]
      simp only [beq_iff_eq, hd, if_false]
      exact iht

theorem ids_ne_of_nodup {l₁ post : List (Item α)} {b : Item α}
    (h : ((l₁ ++ b :: post).map (·.id)).Nodup) : ∀ c ∈ l₁, c.id ≠ b.id := by
  intro c hc e
  rw [List.map_append, List.map_cons] at h
  have := (List.nodup_append.1 h).2.2 c.id (List.mem_map_of_mem hc) b.id (by simp)
  exact this e

end Items

/-! ## The order on queue keys -/

section Keys
variable {α : Type} [LinearOrder α]

theorem keyLe_refl (a : Option α) : keyLe a a = true := by
  cases a <;> simp [keyLe]

theorem keyLe_total (a b : Option α) : keyLe a b = true ∨ keyLe b a = true := by
  cases a <;> cases b <;> simp [keyLe, le_total]

theorem keyLe_of_not {a b : Option α} (h : keyLe a b ≠ true) : keyLe b a = true := by
  rcases keyLe_total a b with h' | h'
  · exact absurd h' h
  · exact h'

theorem keyLe_trans {a b c : Option α} (h1 : keyLe a b = true) (h2 : keyLe b c = true) :
    keyLe a c = true := by
  cases a <;> cases b <;> cases c <;> simp_all [keyLe]
  exact le_trans h1 h2

@[simp] theorem keyLe_some_some (a b : α) : (keyLe (some a) (some b) = true) ↔ a ≤ b := by
  simp [keyLe]

@[simp] theorem keyLe_some_none (a : α) : keyLe (some a) none = false := rfl

@[simp] theorem keyLe_none (a : Option α) : keyLe none a = true := by cases a <;> rfl

/-- the queue is in non-increasing key order -/
def QSorted (q : List (Option α × Nat)) : Prop := q.Pairwise (fun a b => keyLe b.1 a.1 = true)

theorem qinsertRaw_perm (k : Option α) (v : Nat) (q : List (Option α × Nat)) :
    (SD.qinsertRaw keyLe k v q).Perm ((k, v) :: q) := by
  induction q with
  | nil => simp [SD.qinsertRaw]
  | cons h t ih =>
    obtain ⟨k', v'⟩ := h
    simp only [SD.qinsertRaw]
    split
    · exact (List.Perm.cons _ ih).trans (List.Perm.swap _ _ _)
    · exact List.Perm.refl _

theorem qinsertRaw_sorted (k : Option α) (v : Nat) (q : List (Option α × Nat)) (hq : QSorted q) :
    QSorted (SD.qinsertRaw keyLe k v q) := by
  induction q with
  | nil => simp [SD.qinsertRaw, QSorted]
  | cons h t ih =>
    obtain ⟨k', v'⟩ := h
    unfold QSorted at hq ih ⊢
    rw [List.pairwise_cons] at hq
    simp only [SD.qinsertRaw]
    split
    · rename_i hle
      rw [List.pairwise_cons]
      refine ⟨?_, ih hq.2⟩
      intro x hx
      rcases List.mem_cons.1 ((qinsertRaw_perm k v t).mem_iff.1 hx) with hx | hx
      · subst hx; simpa using hle
      · exact hq.1 x hx
    · rename_i hle
      have hk : keyLe k' k = true := keyLe_of_not hle
      rw [List.pairwise_cons, List.pairwise_cons]
      refine ⟨?_, hq⟩
      intro x hx
      rcases List.mem_cons.1 hx with rfl | hx
      · exact hk
      · exact keyLe_trans (hq.1 x hx) hk

theorem qinsert_perm (q : List (Option α × Nat)) (k : Option α) (v : Nat) :
    (qinsert q k v).Perm ((k, v) :: q) := qinsertRaw_perm k v q

theorem qinsert_sorted (q : List (Option α × Nat)) (k : Option α) (v : Nat) (hq : QSorted q) :
    QSorted (qinsert q k v) := qinsertRaw_sorted k v q hq

/-- the key under which an item is queued -/
def qkey (it : Item α) : Option α × Nat := (it.R, it.id)

theorem foldl_qinsert_perm (l : List (Item α)) (acc : List (Option α × Nat)) :
    (l.foldl (fun q it => qinsert q it.R it.id) acc).Perm (acc ++ l.map qkey) := by
  induction l generalizing acc with
  | nil => simp
  | cons it t ih =>
    simp only [List.foldl_cons, List.map_cons]
    refine (ih _).trans ?_
    refine ((qinsert_perm acc it.R it.id).append_right _).trans ?_
    simp only [List.cons_append]
    exact List.perm_middle.symm

theorem foldl_qinsert_sorted (l : List (Item α)) (acc : List (Option α × Nat)) (h : QSorted acc) :
    QSorted (l.foldl (fun q it => qinsert q it.R it.id) acc) := by
  induction l generalizing acc with
  | nil => simpa
  | cons it t ih =>
    simp only [List.foldl_cons]
    exact ih _ (qinsert_sorted acc it.R it.id h)

theorem refillQueue_perm (l : List (Item α)) : (refillQueue l).Perm (l.map qkey) := by
  simpa [refillQueue] using foldl_qinsert_perm l []

theorem refillQueue_sorted (l : List (Item α)) : QSorted (refillQueue l) :=
  foldl_qinsert_sorted l [] (by simp [QSorted])

end Keys

end AGP
