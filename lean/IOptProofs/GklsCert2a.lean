import IOptProofs.GklsClass
/-!
# Kernel-decided certificates of the regenerated GKLS data sets of dimension 2, function numbers 1..50

`Gkls.Cert 2 k` = well-formedness `WF` + class clauses `ClassOK` + identity (`dim = 2`, `number = k`).
One lemma per block of five function numbers (`decide +kernel`: exact integer arithmetic in the kernel).
-/

namespace Gkls
set_option maxRecDepth 100000

theorem cert2_0 : ∀ k ∈ List.range' 1 5, Cert 2 k = true := by decide +kernel
theorem cert2_1 : ∀ k ∈ List.range' 6 5, Cert 2 k = true := by decide +kernel
theorem cert2_2 : ∀ k ∈ List.range' 11 5, Cert 2 k = true := by decide +kernel
theorem cert2_3 : ∀ k ∈ List.range' 16 5, Cert 2 k = true := by decide +kernel
theorem cert2_4 : ∀ k ∈ List.range' 21 5, Cert 2 k = true := by decide +kernel
theorem cert2_5 : ∀ k ∈ List.range' 26 5, Cert 2 k = true := by decide +kernel
theorem cert2_6 : ∀ k ∈ List.range' 31 5, Cert 2 k = true := by decide +kernel
theorem cert2_7 : ∀ k ∈ List.range' 36 5, Cert 2 k = true := by decide +kernel
theorem cert2_8 : ∀ k ∈ List.range' 41 5, Cert 2 k = true := by decide +kernel
theorem cert2_9 : ∀ k ∈ List.range' 46 5, Cert 2 k = true := by decide +kernel

end Gkls
