import IOptProofs.EvInvFin
import IOptProofs.EvDimFacts
/-!
# Integer layer: the backward step inverts the forward step (worker a2)

`Ev.Inv.Valid`, closure of `step` under validity, and `invStep_step` (task item (1)).
-/

namespace Ev.Inv
def Valid (n : Nat) (s : St) : Prop := s.it < n ∧ s.iw.length = n ∧ pm1 s.iw = true

theorem pm1_iff {l : List Int} : pm1 l = true ↔ ∀ x ∈ l, x = 1 ∨ x = -1 := by
  simp [pm1]

theorem valid_init (n : Nat) (hn : 0 < n) : Valid n (St.init n) := by
  refine ⟨hn, by simp [St.init], ?_⟩
  rw [pm1_iff]; intro x hx
  simp [St.init] at hx; exact Or.inl hx.2

@[simp] theorem length_swap0 (l : List Int) (it : Nat) : (swap0 l it).length = l.length := by
  simp [swap0]
theorem getElem?_swap0 (l : List Int) (it : Nat) (hit : it < l.length) (i : Nat) :
    (swap0 l it)[i]? = if i = it then l[0]? else if i = 0 then l[it]? else l[i]? := by
  unfold swap0 getI
  grind

theorem swap0_swap0 (l : List Int) (it : Nat) (hit : it < l.length) : swap0 (swap0 l it) it = l := by
  apply List.ext_getElem?
  intro i
  have h' : it < (swap0 l it).length := by rw [length_swap0]; exact hit
  rw [getElem?_swap0 _ _ h']
  simp only [getElem?_swap0 _ _ hit]
  grind

theorem mem_swap0 (l : List Int) (it : Nat) (hit : it < l.length) (x : Int) (hx : x ∈ swap0 l it) :
    x ∈ l := by
  rw [List.mem_iff_getElem?] at hx ⊢
  obtain ⟨i, hi⟩ := hx
  rw [getElem?_swap0 _ _ hit] at hi
  grind

theorem pm1_swap0 (l : List Int) (it : Nat) (hit : it < l.length) (h : pm1 l = true) :
    pm1 (swap0 l it) = true := by
  rw [pm1_iff] at h ⊢
  exact fun x hx => h x (mem_swap0 l it hit x hx)

theorem zipWith_mul_cancel : ∀ (a w : List Int), a.length = w.length → pm1 w = true →
    List.zipWith (· * ·) (List.zipWith (· * ·) a w) w = a
  | [], [], _, _ => rfl
  | x :: a, y :: w, hl, hw => by
    simp only [pm1, List.all_cons, Bool.and_eq_true, Bool.or_eq_true, beq_iff_eq] at hw
    have ih := zipWith_mul_cancel a w (by simpa using hl) hw.2
    simp only [List.zipWith_cons_cons, ih, List.cons.injEq, and_true]
    rcases hw.1 with h | h <;> simp [h]

theorem pm1_zipWith_mul : ∀ (a w : List Int), pm1 a = true → pm1 w = true →
    pm1 (List.zipWith (· * ·) a w) = true
  | [], _, _, _ => by simp [pm1]
  | _ :: _, [], _, _ => by simp [pm1]
  | x :: a, y :: w, ha, hw => by
    simp only [pm1, List.all_cons, Bool.and_eq_true, Bool.or_eq_true, beq_iff_eq] at ha hw
    have ih := pm1_zipWith_mul a w ha.2 hw.2
    simp only [pm1, List.zipWith_cons_cons, List.all_cons, Bool.and_eq_true, Bool.or_eq_true,
      beq_iff_eq]
    exact ⟨by rcases ha.1 with h | h <;> rcases hw.1 with h' | h' <;> simp [h, h'], ih⟩

theorem pm1_zipWith_mulneg : ∀ (w v : List Int), pm1 w = true → pm1 v = true →
    pm1 (List.zipWith (fun w v => w * (-v)) w v) = true
  | [], _, _, _ => by simp [pm1]
  | _ :: _, [], _, _ => by simp [pm1]
  | x :: a, y :: w, ha, hw => by
    simp only [pm1, List.all_cons, Bool.and_eq_true, Bool.or_eq_true, beq_iff_eq] at ha hw
    have ih := pm1_zipWith_mulneg a w ha.2 hw.2
    simp only [pm1, List.zipWith_cons_cons, List.all_cons, Bool.and_eq_true, Bool.or_eq_true,
      beq_iff_eq]
    exact ⟨by rcases ha.1 with h | h <;> rcases hw.1 with h' | h' <;> simp [h, h'], ih⟩

/-- unpacked finite facts about `node` -/
theorem node_facts {n d : Nat} (hn : Ev.DimOK n) (hd : d < 2^n) :
    (node n d).1 < n ∧ (node n d).2.1.length = n ∧ (node n d).2.2.length = n ∧
    pm1 (node n d).2.1 = true ∧ pm1 (node n d).2.2 = true ∧
    numbr n (node n d).2.1 = (d, (node n d).1, (node n d).2.2) := by
  have h : nodeOK n d = true := nodeOK_of_dimOK hn hd
  simpa [nodeOK, and_assoc] using h

/-- (1) `__CalculateNumbr` inverts `__CalculateNode`: for `d < 2^n`, with `(l, iu, iv) = node n d`,
`numbr n iu = (d, l, iv)` -/
theorem numbr_node {n d : Nat} (hn : Ev.DimOK n) (hd : d < 2^n) :
    numbr n (node n d).2.1 = (d, (node n d).1, (node n d).2.2) :=
  (node_facts hn hd).2.2.2.2.2

theorem relabel_lt {n l it : Nat} (hl : l < n) (hit : it < n) (hn : 0 < n) : relabel l it < n := by
  unfold relabel; split
  · exact hit
  · split
    · exact hn
    · exact hl

theorem step_fst (n : Nat) (s : St) (d : Nat) : (step n s d).1 =
    ⟨relabel (node n d).1 s.it,
      List.zipWith (fun w v => w * (-v)) s.iw (swap0 (node n d).2.2 s.it)⟩ := rfl

theorem step_snd (n : Nat) (s : St) (d : Nat) : (step n s d).2 =
    List.zipWith (· * ·) (swap0 (node n d).2.1 s.it) s.iw := rfl

theorem step_valid {n : Nat} (hn : Ev.DimOK n) {s : St} (hs : Valid n s) {d : Nat}
    (hd : d < 2^n) : Valid n (step n s d).1 := by
  obtain ⟨hl, hu, hv, pu, pv, _⟩ := node_facts hn hd
  obtain ⟨hit, hwl, hw⟩ := hs
  rw [step_fst]
  refine ⟨relabel_lt hl hit (by omega), ?_, ?_⟩
  · simp [hwl, hv]
  · exact pm1_zipWith_mulneg _ _ hw (pm1_swap0 _ _ (by rw [hv]; exact hit) pv)

theorem step_snd_length {n : Nat} (hn : Ev.DimOK n) {s : St} (hs : Valid n s) {d : Nat}
    (hd : d < 2^n) : (step n s d).2.length = n := by
  obtain ⟨hl, hu, hv, pu, pv, _⟩ := node_facts hn hd
  obtain ⟨hit, hwl, hw⟩ := hs
  simp [step_snd, hwl, hu]

theorem step_snd_pm1 {n : Nat} (hn : Ev.DimOK n) {s : St} (hs : Valid n s) {d : Nat}
    (hd : d < 2^n) : pm1 (step n s d).2 = true := by
  obtain ⟨hl, hu, hv, pu, pv, _⟩ := node_facts hn hd
  obtain ⟨hit, hwl, hw⟩ := hs
  rw [step_snd]
  exact pm1_zipWith_mul _ _ (pm1_swap0 _ _ (by rw [hu]; exact hit) pu) hw

/-- (1) the backward step fed with the forward offsets recovers the digit and the state -/
theorem invStep_step {n : Nat} (hn : Ev.DimOK n) {s : St} (hs : Valid n s) {d : Nat}
    (hd : d < 2^n) : invStep n s (step n s d).2 = ((step n s d).1, d) := by
  obtain ⟨hl, hu, hv, pu, pv, hnum⟩ := node_facts hn hd
  obtain ⟨hit, hwl, hw⟩ := hs
  have h1 : List.zipWith (· * ·) (step n s d).2 s.iw = swap0 (node n d).2.1 s.it := by
    rw [step_snd]
    exact zipWith_mul_cancel _ _ (by simp [hu, hwl]) hw
  unfold invStep
  simp only [h1, swap0_swap0 _ _ (by rw [hu]; exact hit : s.it < (node n d).2.1.length), hnum]
  simp [step_fst]
end Ev.Inv
