import IOptProofs.MethodInterpDefs
import IOptProofs.ProcInterpDefs
import IOptProofs.ProcessToy
import IOptProofs.ProcInterp
import IOptProofs.MethodPrepare
/-!
# The sequencing procedures of `method.py`, taken from the SOURCE TEXT, are the model's `firstIteration` / `prepare` / `commit`

`IOptGen/MethodCtlSrc.lean` (regenerated from `iOpt/method/method.py` on every run) holds the bodies of `FirstIteration`,
`CalculateIterationPoint`, `RecalcAllCharacteristics`, `CalculateFunctionals`, `UpdateOptimum`, `RenewSearchData`,
`FinalizeIteration`, `CheckStopCondition` as statement trees.  `IOptProofs/MethodInterpDefs.lean` interprets such trees,
generically, over the model's operations on an object state (`MObj`: the model state + the objects the code constructed).  Here:

* `firstIteration_src`: the generated tree of `FirstIteration` (calling `CalculateFunctionals` and `UpdateOptimum` through THEIR
  generated trees) on a fresh object yields `AGP.firstIteration p z`;
* `renewSearchData_src`, `updateOptimum_src`, `calculateFunctionals_src`, `finalizeIteration_src`: the generated trees are the
  parts `ProcInterp.renewSearchData`, `updateOptimum`, `recordTrial`, `finalizeIteration` of `AGP.commit`
  (`ProcInterp.commit_eq_parts`); `…_gen`: the same on an arbitrary object state, with the explicit final object;
* `calculateIterationPoint_src` (`…_gen`): the generated tree of `CalculateIterationPoint` (calling `RecalcAllCharacteristics`
  through ITS generated tree: `recalcAllCharacteristics_src` = `AGP.recalcAll`, via the loop lemma `recalc_loop`) follows
  `AGP.prepare` in the `.ok` outcome and in the three `.error` outcomes, with the partially updated state;
* `checkStopCondition_src`: `AGP.stopCond`;
* `iteration_src`: the five trees run one after the other as `DoGlobalIteration` does end in `AGP.commit p pr z`
  (`ProcInterp.commit_eq_parts`); `iteration_src_inv`: … with every well-formedness hypothesis discharged from `AGP.Inv`;
* `renewSwapR_src`, `renewSwapM_src` (+ `calcM_comm`): swapping the two `CalculateGlobalR` calls, or (in a linear order) the
  two `CalculateM` calls, of `RenewSearchData` gives the same result on every state; `Examples.insertEarly_not_model`: moving
  `InsertDataItem` before the `CalculateGlobalR` calls does not;
* `Examples`: runs over `ℚ` of the interpreter on the generated trees.

Well-formedness hypotheses of the ties (all consequences of `AGP.Inv`, see `iteration_src_inv`): the ids of the record are
pairwise different when a recalculation is pending (`calculateIterationPoint_src`); `oldpoint` is the item `pr.old` of the
record, its left neighbour is `pr.left`, a different object (`renewSearchData_src`); `self.best` is an evaluated item of the
record (`updateOptimum_src`).
-/

set_option linter.unusedSectionVars false

namespace MethodInterp
open Gen.ProcSrc

/-- `RenewSearchData` with the two `CalculateM` calls swapped -/
def renewSwapM : List Stmt :=
  [
    .call ["oldpoint.delta"] "Method.CalculateDelta" ["newpoint.GetX()", "oldpoint.GetX()", "self.dimension"],
    .call ["newpoint.delta"] "Method.CalculateDelta" ["oldpoint.GetLeft().GetX()", "newpoint.GetX()", "self.dimension"],
    .call [] "self.CalculateM" ["oldpoint", "newpoint"],
    .call [] "self.CalculateM" ["newpoint", "oldpoint.GetLeft()"],
    .call [] "self.CalculateGlobalR" ["newpoint", "oldpoint.GetLeft()"],
    .call [] "self.CalculateGlobalR" ["oldpoint", "newpoint"],
    .call [] "self.searchData.InsertDataItem" ["newpoint", "oldpoint"]]

/-- … with the two `CalculateGlobalR` calls swapped -/
def renewSwapR : List Stmt :=
  [
    .call ["oldpoint.delta"] "Method.CalculateDelta" ["newpoint.GetX()", "oldpoint.GetX()", "self.dimension"],
    .call ["newpoint.delta"] "Method.CalculateDelta" ["oldpoint.GetLeft().GetX()", "newpoint.GetX()", "self.dimension"],
    .call [] "self.CalculateM" ["newpoint", "oldpoint.GetLeft()"],
    .call [] "self.CalculateM" ["oldpoint", "newpoint"],
    .call [] "self.CalculateGlobalR" ["oldpoint", "newpoint"],
    .call [] "self.CalculateGlobalR" ["newpoint", "oldpoint.GetLeft()"],
    .call [] "self.searchData.InsertDataItem" ["newpoint", "oldpoint"]]

/-- … with `InsertDataItem` moved before the two `CalculateGlobalR` calls -/
def renewInsertEarly : List Stmt :=
  [
    .call ["oldpoint.delta"] "Method.CalculateDelta" ["newpoint.GetX()", "oldpoint.GetX()", "self.dimension"],
    .call ["newpoint.delta"] "Method.CalculateDelta" ["oldpoint.GetLeft().GetX()", "newpoint.GetX()", "self.dimension"],
    .call [] "self.CalculateM" ["newpoint", "oldpoint.GetLeft()"],
    .call [] "self.CalculateM" ["oldpoint", "newpoint"],
    .call [] "self.searchData.InsertDataItem" ["newpoint", "oldpoint"],
    .call [] "self.CalculateGlobalR" ["newpoint", "oldpoint.GetLeft()"],
    .call [] "self.CalculateGlobalR" ["oldpoint", "newpoint"]]

end MethodInterp

section
variable {α : Type} [Add α] [Sub α] [Mul α] [Div α] [Neg α] [LT α] [LE α]
  [DecidableLT α] [DecidableLE α] [OfNat α 0] [OfNat α 1] [OfNat α 2] [OfNat α 4] [Fns α]

namespace MethodInterp
open AGP Gen.ProcSrc

/-! ### table look-ups on the strings of the generated trees -/
theorem lkE0 : exprTable.lookup "x" = some (.var "x") := rfl
theorem lkE1 : exprTable.lookup "y" = some (.var "y") := rfl
theorem lkE2 : exprTable.lookup "left" = some (.var "left") := rfl
theorem lkE3 : exprTable.lookup "middle" = some (.var "middle") := rfl
theorem lkE4 : exprTable.lookup "right" = some (.var "right") := rfl
theorem lkE5 : exprTable.lookup "item" = some (.var "item") := rfl
theorem lkE6 : exprTable.lookup "old" = some (.var "old") := rfl
theorem lkE7 : exprTable.lookup "new" = some (.var "new") := rfl
theorem lkE8 : exprTable.lookup "newx" = some (.var "newx") := rfl
theorem lkE9 : exprTable.lookup "newy" = some (.var "newy") := rfl
theorem lkE10 : exprTable.lookup "point" = some (.var "point") := rfl
theorem lkE11 : exprTable.lookup "newpoint" = some (.var "newpoint") := rfl
theorem lkE12 : exprTable.lookup "oldpoint" = some (.var "oldpoint") := rfl
theorem lkE13 : exprTable.lookup "None" = some (.none) := rfl
theorem lkE14 : exprTable.lookup "True" = some (.true) := rfl
theorem lkE15 : exprTable.lookup "False" = some (.false) := rfl
theorem lkE16 : exprTable.lookup "" = some (.none) := rfl
theorem lkE17 : exprTable.lookup "0.5" = some (.half) := rfl
theorem lkE18 : exprTable.lookup "0.0" = some (.zero) := rfl
theorem lkE19 : exprTable.lookup "1.0" = some (.one) := rfl
theorem lkE20 : exprTable.lookup "0" = some (.nat 0) := rfl
theorem lkE21 : exprTable.lookup "1" = some (.nat 1) := rfl
theorem lkE22 : exprTable.lookup "self.evolvent.GetImage(x)" = some (.image (.var "x")) := rfl
theorem lkE23 : exprTable.lookup "Point(self.evolvent.GetImage(0.0), None)" = some (.mkPoint (.image .zero) .none) := rfl
theorem lkE24 : exprTable.lookup "Point(self.evolvent.GetImage(1.0), None)" = some (.mkPoint (.image .one) .none) := rfl
theorem lkE25 : exprTable.lookup "left.GetX()" = some (.getX (.var "left")) := rfl
theorem lkE26 : exprTable.lookup "middle.GetX()" = some (.getX (.var "middle")) := rfl
theorem lkE27 : exprTable.lookup "right.GetX()" = some (.getX (.var "right")) := rfl
theorem lkE28 : exprTable.lookup "newpoint.GetX()" = some (.getX (.var "newpoint")) := rfl
theorem lkE29 : exprTable.lookup "oldpoint.GetX()" = some (.getX (.var "oldpoint")) := rfl
theorem lkE30 : exprTable.lookup "oldpoint.GetLeft().GetX()" = some (.getX (.getLeft (.var "oldpoint"))) := rfl
theorem lkE31 : exprTable.lookup "item.GetLeft()" = some (.getLeft (.var "item")) := rfl
theorem lkE32 : exprTable.lookup "oldpoint.GetLeft()" = some (.getLeft (.var "oldpoint")) := rfl
theorem lkE33 : exprTable.lookup "self.dimension" = some (.dimension) := rfl
theorem lkE34 : exprTable.lookup "old.delta" = some (.getDelta (.var "old")) := rfl
theorem lkE35 : exprTable.lookup "self.min_delta" = some (.minDelta) := rfl
theorem lkE36 : exprTable.lookup "SearchDataItem(Point(newy, []), newx)" = some (.mkItem (.mkPoint (.var "newy") .nil) (.var "newx")) := rfl
theorem lkE37 : exprTable.lookup "(new, old)" = some (.pair (.var "new") (.var "old")) := rfl
theorem lkE38 : exprTable.lookup "point.functionValues[0].value" = some (.getHv (.var "point")) := rfl
theorem lkE39 : exprTable.lookup "self.searchData.solution.numberOfGlobalTrials + 1" = some (.trialsPlus1) := rfl
theorem lkE40 : exprTable.lookup "self.iterationsCount + 1" = some (.itersPlus1) := rfl
theorem lkE41 : exprTable.lookup "self.best" = some (.best) := rfl
theorem lkE42 : exprTable.lookup "self.stop" = some (.stop) := rfl
theorem lkL0 : lvalTable.lookup "x" = some (.var "x") := rfl
theorem lkL1 : lvalTable.lookup "y" = some (.var "y") := rfl
theorem lkL2 : lvalTable.lookup "left" = some (.var "left") := rfl
theorem lkL3 : lvalTable.lookup "middle" = some (.var "middle") := rfl
theorem lkL4 : lvalTable.lookup "right" = some (.var "right") := rfl
theorem lkL5 : lvalTable.lookup "old" = some (.var "old") := rfl
theorem lkL6 : lvalTable.lookup "new" = some (.var "new") := rfl
theorem lkL7 : lvalTable.lookup "newx" = some (.var "newx") := rfl
theorem lkL8 : lvalTable.lookup "newy" = some (.var "newy") := rfl
theorem lkL9 : lvalTable.lookup "point" = some (.var "point") := rfl
theorem lkL10 : lvalTable.lookup "left.delta" = some (.delta "left") := rfl
theorem lkL11 : lvalTable.lookup "middle.delta" = some (.delta "middle") := rfl
theorem lkL12 : lvalTable.lookup "right.delta" = some (.delta "right") := rfl
theorem lkL13 : lvalTable.lookup "oldpoint.delta" = some (.delta "oldpoint") := rfl
theorem lkL14 : lvalTable.lookup "newpoint.delta" = some (.delta "newpoint") := rfl
theorem lkL15 : lvalTable.lookup "self.iterationsCount" = some (.iters) := rfl
theorem lkL16 : lvalTable.lookup "self.searchData.solution.numberOfGlobalTrials" = some (.nTrials) := rfl
theorem lkL17 : lvalTable.lookup "self.min_delta" = some (.minDelta) := rfl
theorem lkL18 : lvalTable.lookup "self.recalc" = some (.recalc) := rfl
theorem lkL19 : lvalTable.lookup "self.best" = some (.best) := rfl
theorem lkL20 : lvalTable.lookup "self.searchData.solution.bestTrials[0]" = some (.solBest) := rfl
theorem lkL21 : lvalTable.lookup "self.stop" = some (.stop) := rfl
theorem lkL22 : lvalTable.lookup "self.Z[point.GetIndex()]" = some (.zAt "point") := rfl
theorem lkP0 : primTable.lookup "Point" = some ((.mkPoint, none)) := rfl
theorem lkP1 : primTable.lookup "SearchDataItem" = some ((.mkItem, none)) := rfl
theorem lkP2 : primTable.lookup "copy.deepcopy" = some ((.deepcopy, none)) := rfl
theorem lkP3 : primTable.lookup "Method.CalculateDelta" = some ((.calcDelta, none)) := rfl
theorem lkP4 : primTable.lookup "self.CalculateGlobalR" = some ((.calcGlobalR, none)) := rfl
theorem lkP5 : primTable.lookup "self.CalculateM" = some ((.calcM, none)) := rfl
theorem lkP6 : primTable.lookup "self.searchData.InsertFirstDataItem" = some ((.insertFirst, none)) := rfl
theorem lkP7 : primTable.lookup "self.searchData.InsertDataItem" = some ((.insert, none)) := rfl
theorem lkP8 : primTable.lookup "self.searchData.GetDataItemWithMaxGlobalR" = some ((.popMax, none)) := rfl
theorem lkP9 : primTable.lookup "self.searchData.ClearQueue" = some ((.clearQueue, none)) := rfl
theorem lkP10 : primTable.lookup "self.searchData.RefillQueue" = some ((.refillQueue, none)) := rfl
theorem lkP11 : primTable.lookup "min" = some ((.min, none)) := rfl
theorem lkP12 : primTable.lookup "self.CalculateNextPointCoordinate" = some ((.nextPoint, none)) := rfl
theorem lkP13 : primTable.lookup "self.evolvent.GetImage" = some ((.getImage, none)) := rfl
theorem lkP14 : primTable.lookup "self.task.Calculate" = some ((.taskCalculate, none)) := rfl
theorem lkP15 : primTable.lookup "point.SetZ" = some ((.setZ, some "point")) := rfl
theorem lkP16 : primTable.lookup "point.SetIndex" = some ((.setIndex, some "point")) := rfl
theorem lkP17 : primTable.lookup "point.GetZ" = some ((.getZ, some "point")) := rfl
theorem lkC0 : condTable.lookup "self.recalc is True" = some (.recalcTrue) := rfl
theorem lkC1 : condTable.lookup "self.recalc is not True" = some (.recalcNotTrue) := rfl
theorem lkC2 : condTable.lookup "self.best is None or self.best.GetIndex() < point.GetIndex()" = some (.bestNoneOrLower "point") := rfl
theorem lkC3 : condTable.lookup "self.best.GetIndex() == point.GetIndex() and point.GetZ() < self.best.GetZ()" = some (.sameIndexAndBetter "point") := rfl
theorem lkC4 : condTable.lookup "self.min_delta < self.parameters.eps or self.iterationsCount >= self.parameters.itersLimit" = some (.stopTest) := rfl
theorem lkPn0 : primTable.lookup "self.RecalcAllCharacteristics" = none := rfl
theorem lkPn1 : primTable.lookup "self.CalculateFunctionals" = none := rfl
theorem lkPn2 : primTable.lookup "self.UpdateOptimum" = none := rfl
theorem lkQ0 : procTable.lookup "self.RecalcAllCharacteristics" =
    some (Gen.MethodCtl.recalcAllCharacteristicsParams, Gen.MethodCtl.recalcAllCharacteristics) := rfl
theorem lkQ1 : procTable.lookup "self.CalculateFunctionals" =
    some (Gen.MethodCtl.calculateFunctionalsParams, Gen.MethodCtl.calculateFunctionals) := rfl
theorem lkQ2 : procTable.lookup "self.UpdateOptimum" =
    some (Gen.MethodCtl.updateOptimumParams, Gen.MethodCtl.updateOptimum) := rfl

/-- symbolic execution: the interpreter's equations and the look-ups -/
macro "msimp" "[" ls:Lean.Parser.Tactic.simpLemma,* "]" : tactic =>
  `(tactic| simp only [lkE0, lkE1, lkE2, lkE3, lkE4, lkE5, lkE6, lkE7, lkE8, lkE9, lkE10, lkE11, lkE12, lkE13, lkE14, lkE15, lkE16, lkE17, lkE18, lkE19, lkE20, lkE21, lkE22, lkE23, lkE24, lkE25, lkE26, lkE27, lkE28, lkE29, lkE30, lkE31, lkE32, lkE33, lkE34, lkE35, lkE36, lkE37, lkE38, lkE39, lkE40, lkE41, lkE42, lkL0, lkL1, lkL2, lkL3, lkL4, lkL5, lkL6, lkL7, lkL8, lkL9, lkL10, lkL11, lkL12, lkL13, lkL14, lkL15, lkL16, lkL17, lkL18, lkL19, lkL20, lkL21, lkL22, lkP0, lkP1, lkP2, lkP3, lkP4, lkP5, lkP6, lkP7, lkP8, lkP9, lkP10, lkP11, lkP12, lkP13, lkP14, lkP15, lkP16, lkP17, lkC0, lkC1, lkC2, lkC3, lkC4, lkPn0, lkPn1, lkPn2, lkQ0, lkQ1, lkQ2,
    run, runBody, execList, execStmt, evalArgs, evalStr, evalExpr, execPrim, storeTargets, store, evalCond,
    Option.toList, List.nil_append, List.cons_append, List.lookup_cons, List.lookup_nil, String.reduceBEq,
    Val.toNum, Val.toOptNum, Val.storable, IState.setS, Option.map_some, Option.map_none,
    Nat.reduceAdd, Nat.reduceBEq, Nat.reduceEqDiff, Nat.zero_add, Nat.add_zero, ↓reduceIte, Bool.false_eq_true,
    beq_self_eq_true,
    $ls,*])

/-! ### the record as a list: writes through references against the model's list operations -/

theorem findItem_id {items : List (Item α)} {id : Nat} {it : Item α} (h : findItem items id = some it) : it.id = id := by
  have := List.find?_some h
  simpa using this

theorem findItem_setRec {items : List (Item α)} {id : Nat} {it it' : Item α} (h : findItem items id = some it)
    (hid : it'.id = id) : findItem (setRec it' items) id = some it' := by
  induction items with
  | nil => simp [findItem] at h
  | cons a t ih =>
    simp only [findItem, List.find?_cons] at h ih ⊢
    by_cases ha : a.id = id
    · simp [setRec, ha, hid]
    · have ha' : (a.id == id) = false := by simpa using ha
      simp only [ha'] at h
      simp [setRec, hid, ha', ih h]

theorem setRec_setRec (a b : Item α) (hab : a.id = b.id) (items : List (Item α)) :
    setRec b (setRec a items) = setRec b items := by
  induction items with
  | nil => rfl
  | cons x t ih =>
    by_cases hx : x.id = a.id
    · simp [setRec, hx, hab]
    · have hx' : (x.id == a.id) = false := by simpa using hx
      have hx'' : (x.id == b.id) = false := by rw [← hab]; exact hx'
      simp [setRec, hx', hx'', ih]

theorem insertAt_setRec (new it' : Item α) (items : List (Item α)) :
    insertAt new it'.id (setRec it' items) = insertBefore new it' items := by
  induction items with
  | nil => rfl
  | cons x t ih =>
    by_cases hx : x.id = it'.id
    · simp [setRec, insertAt, insertBefore, hx]
    · have hx' : (x.id == it'.id) = false := by simpa using hx
      simp [setRec, insertAt, insertBefore, hx', ih]

theorem leftOf_setRec {items : List (Item α)} {id : Nat} {left it' : Item α} (h : leftOf items id = some left)
    (hne : left.id ≠ id) (hid : it'.id = id) : leftOf (setRec it' items) id = some left := by
  induction items with
  | nil => simp [leftOf] at h
  | cons a t ih =>
    cases t with
    | nil => simp [leftOf] at h
    | cons b t =>
      by_cases ha : a.id = id
      · by_cases hb : b.id = id
        · simp only [leftOf, hb, beq_self_eq_true, ↓reduceIte, Option.some.injEq] at h
          subst h; exact absurd ha hne
        · have hb' : (b.id == id) = false := by simpa using hb
          simp only [leftOf, hb', Bool.false_eq_true, ↓reduceIte] at h
          simp only [setRec, hid, ha, beq_self_eq_true, ↓reduceIte, leftOf, hb', Bool.false_eq_true]
          exact h
      · have ha' : (a.id == id) = false := by simpa using ha
        by_cases hb : b.id = id
        · simp only [leftOf, hb, beq_self_eq_true, ↓reduceIte] at h
          simp [setRec, hid, ha', hb, leftOf, h]
        · have hb' : (b.id == id) = false := by simpa using hb
          simp only [leftOf, hb', Bool.false_eq_true, ↓reduceIte] at h
          have := ih h
          simp only [setRec, hid, hb', Bool.false_eq_true, ↓reduceIte] at this
          simp only [setRec, hid, ha', hb', Bool.false_eq_true, ↓reduceIte, leftOf]
          exact this

/-- `CalculateGlobalR` reads the values, the indices and the length only -/
def calcRc (r M Z lz : α) (lev : Bool) (cz : α) (cev : Bool) (cd : α) : α :=
  calcR r M Z { id := 0, x := 0, point := [], z := lz, hv := 0, ev := lev, delta := 0, R := none }
    { id := 0, x := 0, point := [], z := cz, hv := 0, ev := cev, delta := cd, R := none }

theorem calcR_core (r M Z : α) (l cur : Item α) : calcR r M Z l cur = calcRc r M Z l.z l.ev cur.z cur.ev cur.delta := rfl

/-- `CalculateM` reads the values, the indices and the length only -/
def calcMc (M : α) (rc : Bool) (lz : α) (lev : Bool) (cz : α) (cev : Bool) (cd : α) : α × Bool :=
  calcM M rc { id := 0, x := 0, point := [], z := lz, hv := 0, ev := lev, delta := 0, R := none }
    { id := 0, x := 0, point := [], z := cz, hv := 0, ev := cev, delta := cd, R := none }

theorem calcM_core (M : α) (rc : Bool) (l cur : Item α) : calcM M rc l cur = calcMc M rc l.z l.ev cur.z cur.ev cur.delta := rfl

/-! ### `RenewSearchData` -/

/-- **`RenewSearchData`, source tree = model part** (general object state).  `newpoint` is a free-standing object with content
`nit`, `oldpoint` the item `old` of the record, whose left neighbour is `left` (a different object: `left.id ≠ old.id`).
The record, the queue, `M`, `recalc`, `nextId` afterwards are those of `ProcInterp.renewSearchData`, and the new object is
forwarded to the id it was given. -/
theorem renewSearchData_src_gen (c : Ctx α) (d : Nat) (g : MObj α) (h : Nat) (nit old left : Item α)
    (hins : g.ins.lookup h = none) (hfree : g.free.lookup h = some nit)
    (hold : findItem g.s.items old.id = some old) (hleft : leftOf g.s.items old.id = some left) (hne : left.id ≠ old.id) :
    run c d Gen.MethodCtl.renewSearchData [("newpoint", .item (.obj h)), ("oldpoint", .item (.inRec old.id))] g =
      let old1 := { old with delta := calcDelta c.p.n nit.x old.x }
      let new1 := { nit with delta := calcDelta c.p.n left.x nit.x }
      let m1 := calcM g.s.M g.s.recalc left new1
      let m2 := calcM m1.1 m1.2 new1 old1
      let new2 := { new1 with R := some (calcR c.p.r m2.1 g.s.Z left new1) }
      let old2 := { old1 with R := some (calcR c.p.r m2.1 g.s.Z new2 old1) }
      .done { g with
        s := { g.s with items := insertBefore { new2 with id := g.s.nextId } old2 g.s.items,
                        queue := qinsert (qinsert g.s.queue new2.R g.s.nextId) old2.R old.id,
                        M := m2.1, recalc := m2.2, nextId := g.s.nextId + 1 },
        free := (h, new2) :: (h, new1) :: g.free,
        ins := (h, g.s.nextId) :: g.ins } .none := by
  simp only [Gen.MethodCtl.renewSearchData]
  have e1 : ∀ dl R, findItem (setRec { old with delta := dl, R := R } g.s.items) old.id = some { old with delta := dl, R := R } :=
    fun dl R => findItem_setRec hold rfl
  have e2 : ∀ dl R, leftOf (setRec { old with delta := dl, R := R } g.s.items) old.id = some left :=
    fun dl R => leftOf_setRec hleft hne rfl
  have e3 : ∀ dl R dl' R', setRec { old with delta := dl', R := R' } (setRec { old with delta := dl, R := R } g.s.items) =
      setRec { old with delta := dl', R := R' } g.s.items := fun dl R dl' R' => setRec_setRec { old with delta := dl, R := R } { old with delta := dl', R := R' } rfl _
  have e4 : ∀ new dl R, insertAt new old.id (setRec { old with delta := dl, R := R } g.s.items) =
      insertBefore new { old with delta := dl, R := R } g.s.items := fun new dl R => insertAt_setRec new { old with delta := dl, R := R } _
  msimp [MObj.itemOf, MObj.deref, MObj.norm, MObj.update, MObj.leftOfRef, hins, hfree, hold, hleft, beq_self_eq_true,
    e1, e2, e3, e4, Option.isSome_some, ↓reduceIte]

/-- the content of the new point after `CalculateFunctionals` stored the value `z` in it (id, `delta`, `globalR`: whatever) -/
def evaluated (pr : Prep α) (z : α) (i : Nat) (dl : α) (R : Option α) : Item α :=
  { id := i, x := pr.x, point := pr.point, z := z, hv := z, ev := true, delta := dl, R := R }

/-- **`RenewSearchData`, source tree = `ProcInterp.renewSearchData`.**  On the object of a model state `s` plus the
free-standing new point (evaluated: value `z`), with `newpoint` bound to it and `oldpoint` to the item `pr.old` of the record
whose left neighbour is `pr.left`, the interpretation of the generated tree of `Method.RenewSearchData` ends normally in an
object that stands for `ProcInterp.renewSearchData p pr z s`. -/
theorem renewSearchData_src (c : Ctx α) (d : Nat) (pr : Prep α) (z : α) (s : State α) (i : Nat) (dl : α) (R : Option α)
    (hold : findItem s.items pr.old.id = some pr.old) (hleft : leftOf s.items pr.old.id = some pr.left)
    (hne : pr.left.id ≠ pr.old.id) :
    ∃ g', run c d Gen.MethodCtl.renewSearchData [("newpoint", .item (.obj 0)), ("oldpoint", .item (.inRec pr.old.id))]
        (MObj.withNew s (evaluated pr z i dl R)) = .done g' .none ∧
      g'.toState = some (ProcInterp.renewSearchData c.p pr z s) ∧ g'.solBest = g'.best := by
  have h := renewSearchData_src_gen c d (MObj.withNew s (evaluated pr z i dl R)) 0 (evaluated pr z i dl R) pr.old pr.left
    rfl rfl hold hleft hne
  refine ⟨_, h, ?_, rfl⟩
  simp only [MObj.toState, MObj.withNew, MObj.ofState, MObj.idOf, MObj.norm, Option.map_some, evaluated,
    ProcInterp.renewSearchData, calcR_core, calcM_core]

/-! ### `FirstIteration` -/

/-- a `Method` object on which no iteration has been made: what `Method.__init__` and `SearchData.__init__` leave
(`M = [1.0]`, accuracy `inf`, no trials, `best = None`, nothing constructed); `Z`, `recalc`, the counter of iterations, the flag
`stop` and `bestTrials[0]` are not constrained (`FirstIteration` overwrites or never reads them) -/
structure MObj.Fresh (g : MObj α) : Prop where
  items : g.s.items = []
  queue : g.s.queue = []
  M : g.s.M = 1
  minDelta : g.s.minDelta = none
  nTrials : g.s.nTrials = 0
  nextId : g.s.nextId = 0
  best : g.best = none
  free : g.free = []
  ins : g.ins = []
  nextH : g.nextH = 0

theorem firstIteration_src (c : Ctx α) (d : Nat) (g : MObj α) (hg : g.Fresh) (z : α) (hz : c.f (firstPoint c.p) = some z) :
    ∃ g', run c (d+1) Gen.MethodCtl.firstIteration [] g = .done g' .none ∧
      g'.toState = some (firstIteration c.p z) ∧ g'.solBest = g'.best := by
  obtain ⟨⟨items, queue, M, Z, best, recalc, iters, minDelta, nTrials, nextId⟩, gbest, solBest, stop, free, ins, nextH⟩ := g
  obtain ⟨h1, h2, h3, h4, h5, h6, h7, h8, h9, h10⟩ := hg
  simp only at h1 h2 h3 h4 h5 h6 h7 h8 h9 h10
  subst h1 h2 h3 h4 h5 h6 h7 h8 h9 h10
  simp only [firstPoint] at hz
  simp only [Gen.MethodCtl.firstIteration]
  msimp [MObj.itemOf, MObj.deref, MObj.norm, MObj.update, MObj.leftOfRef, MObj.alloc, newItem, envN, bindArgs,
    Gen.MethodCtl.calculateFunctionalsParams, Gen.MethodCtl.calculateFunctionals,
    Gen.MethodCtl.updateOptimumParams, Gen.MethodCtl.updateOptimum, hz, beq_self_eq_true, ↓reduceIte, ne_eq, not_false_eq_true, and_self, List.isEmpty_nil, Bool.false_eq_true, reduceCtorEq,
    findItem, List.find?_cons, List.find?_nil, insertAt]
  refine ⟨_, rfl, ?_, rfl⟩
  simp only [MObj.toState, MObj.idOf, MObj.norm, List.lookup_cons, beq_self_eq_true, Option.map_some, firstIteration, calcR]

/-- … and when the objective raises at the first point, the exception leaves `FirstIteration` with nothing inserted -/
theorem firstIteration_src_raise (c : Ctx α) (d : Nat) (g : MObj α) (hg : g.Fresh) (hz : c.f (firstPoint c.p) = none) :
    ∃ g', run c (d+1) Gen.MethodCtl.firstIteration [] g = .raised g' .objective ∧ g'.s = { g.s with iters := 1 } := by
  obtain ⟨⟨items, queue, M, Z, best, recalc, iters, minDelta, nTrials, nextId⟩, gbest, solBest, stop, free, ins, nextH⟩ := g
  obtain ⟨h1, h2, h3, h4, h5, h6, h7, h8, h9, h10⟩ := hg
  simp only at h1 h2 h3 h4 h5 h6 h7 h8 h9 h10
  subst h1 h2 h3 h4 h5 h6 h7 h8 h9 h10
  simp only [firstPoint] at hz
  simp only [Gen.MethodCtl.firstIteration]
  msimp [MObj.itemOf, MObj.deref, MObj.norm, MObj.update, MObj.leftOfRef, MObj.alloc, newItem, envN, bindArgs,
    Gen.MethodCtl.calculateFunctionalsParams, Gen.MethodCtl.calculateFunctionals,
    Gen.MethodCtl.updateOptimumParams, Gen.MethodCtl.updateOptimum, hz, beq_self_eq_true, ↓reduceIte, ne_eq,
    not_false_eq_true, and_self, List.isEmpty_nil, Bool.false_eq_true, reduceCtorEq]
  exact ⟨_, rfl, rfl⟩

/-! ### `RecalcAllCharacteristics`, `CalculateIterationPoint` -/

/-- the body of the loop of `RecalcAllCharacteristics` on the item `id` of the record -/
theorem recalc_body (c : Ctx α) (env : ProcEnv α) (st : IState α) (id : Nat) (cur : Item α)
    (hl : st.l.lookup "item" = some (.item (.inRec id))) (hcur : findItem st.g.s.items id = some cur) :
    execList c env true [.call [] "self.CalculateGlobalR" ["item", "item.GetLeft()"]] st =
      .normal { st with g := { st.g with s := { st.g.s with items :=
        (setRec ({ cur with R := (leftOf st.g.s.items id).map (fun l => calcR c.p.r st.g.s.M st.g.s.Z l cur) })
          st.g.s.items) } } } := by
  cases hlo : leftOf st.g.s.items id with
  | none =>
    msimp [hl, hcur, hlo, MObj.deref, MObj.norm, MObj.leftOfRef, MObj.itemOf, MObj.update, Option.isSome_some]
  | some l =>
    msimp [hl, hcur, hlo, MObj.deref, MObj.norm, MObj.leftOfRef, MObj.itemOf, MObj.update, Option.isSome_some]

theorem findItem_append_of_not_mem {pre suf : List (Item α)} {id : Nat} (h : ∀ a ∈ pre, a.id ≠ id) :
    findItem (pre ++ suf) id = findItem suf id := by
  induction pre with
  | nil => rfl
  | cons a t ih =>
    have ha : (a.id == id) = false := by simpa using h a (by simp)
    simp only [findItem, List.cons_append, List.find?_cons, ha] at ih ⊢
    exact ih (fun b hb => h b (by simp [hb]))

theorem findItem_head (it : Item α) (t : List (Item α)) : findItem (it :: t) it.id = some it := by
  simp [findItem]

theorem leftOf_none_of_tail {t : List (Item α)} {id : Nat} (h : ∀ a ∈ t, a.id ≠ id) (x : Item α) : leftOf (x :: t) id = none := by
  induction t generalizing x with
  | nil => rfl
  | cons b t ih =>
    have hb : (b.id == id) = false := by simpa using h b (by simp)
    simp only [leftOf, hb, Bool.false_eq_true, ↓reduceIte]
    exact ih (fun a ha => h a (by simp [ha])) b

theorem leftOf_append {pre t : List (Item α)} {it : Item α} (hpre : ∀ a ∈ pre, a.id ≠ it.id) (ht : ∀ a ∈ t, a.id ≠ it.id) :
    leftOf (pre ++ it :: t) it.id = pre.getLast? := by
  induction pre with
  | nil => exact leftOf_none_of_tail ht it
  | cons a pre ih =>
    cases pre with
    | nil => simp [leftOf]
    | cons b pre =>
      have hb : (b.id == it.id) = false := by simpa using hpre b (by simp)
      simp only [List.cons_append, leftOf, hb, Bool.false_eq_true, ↓reduceIte, List.getLast?_cons_cons]
      exact ih (fun x hx => hpre x (by simp [hx]))

theorem setRec_append {pre t : List (Item α)} {it it' : Item α} (hid : it'.id = it.id) (hpre : ∀ a ∈ pre, a.id ≠ it.id) :
    setRec it' (pre ++ it :: t) = pre ++ it' :: t := by
  induction pre with
  | nil => simp [setRec, hid]
  | cons a pre ih =>
    have ha : (a.id == it'.id) = false := by rw [hid]; simpa using hpre a (by simp)
    simp only [List.cons_append, setRec, ha, Bool.false_eq_true, ↓reduceIte]
    rw [ih (fun x hx => hpre x (by simp [hx]))]


theorem recalc_loop (c : Ctx α) (env : ProcEnv α) (suf : List (Item α)) :
    ∀ (pre : List (Item α)) (g : MObj α) (l : List (String × Val α)),
      g.s.items = pre ++ suf → ((pre ++ suf).map (·.id)).Nodup →
      ∃ l', loopIds "item" (fun s => execList c env true [.call [] "self.CalculateGlobalR" ["item", "item.GetLeft()"]] s)
          (suf.map (·.id)) ⟨g, l⟩ =
        .normal ⟨{ g with s := { g.s with items := pre ++ recalcItems c.p.r g.s.M g.s.Z pre.getLast? suf } }, l'⟩ := by
  induction suf with
  | nil =>
    intro pre g l hit _
    refine ⟨l, ?_⟩
    obtain ⟨⟨items, queue, M, Z, best, recalc, iters, minDelta, nTrials, nextId⟩, gbest, solBest, stop, free, ins, nextH⟩ := g
    simp only [List.append_nil] at hit
    subst hit
    simp only [List.map_nil, loopIds, recalcItems, List.append_nil]
  | cons it t ih =>
    intro pre g l hit hnd
    have hnd' := hnd
    simp only [List.map_append, List.map_cons, List.nodup_append, List.nodup_cons, List.mem_map, List.mem_cons,
      forall_exists_index, and_imp, forall_apply_eq_imp_iff₂, ne_eq, forall_eq_or_imp, not_exists, not_and] at hnd'
    obtain ⟨hpreNd, ⟨hitT, htNd⟩, hdisj⟩ := hnd'
    have hpre : ∀ a ∈ pre, a.id ≠ it.id := fun a ha => (hdisj a ha).1
    have ht : ∀ a ∈ t, a.id ≠ it.id := fun a ha => hitT a ha
    have hcur : findItem g.s.items it.id = some it := by
      rw [hit, findItem_append_of_not_mem hpre]; exact findItem_head it t
    have hlo : leftOf g.s.items it.id = pre.getLast? := by rw [hit]; exact leftOf_append hpre ht
    have hb := recalc_body c env ⟨g, ("item", .item (.inRec it.id)) :: l⟩ it.id it
      (by simp only [List.lookup_cons, beq_self_eq_true]) hcur
    simp only [hlo] at hb
    have hsr : ∀ R, setRec { it with R := R } (pre ++ it :: t) = pre ++ { it with R := R } :: t :=
      fun R => setRec_append rfl hpre
    rw [hit, hsr] at hb
    simp only [List.map_cons, loopIds, hb]
    have h2 := ih (pre ++ [{ it with R := pre.getLast?.map fun l => calcR c.p.r g.s.M g.s.Z l it }])
      { g with s := { g.s with items := pre ++ { it with R := pre.getLast?.map fun l => calcR c.p.r g.s.M g.s.Z l it } :: t } }
      (("item", .item (.inRec it.id)) :: l) (by simp) (by simpa using hnd)
    obtain ⟨l', h2⟩ := h2
    refine ⟨l', ?_⟩
    rw [h2]
    cases hgl : pre.getLast? with
    | none => simp [recalcItems]
    | some lf => simp [recalcItems]


theorem execStmt_forEach (c : Ctx α) (env : ProcEnv α) (v : String) (body : List Stmt) (st : IState α) :
    execStmt c env false (.forEach v "self.searchData" body) st =
      loopIds v (fun s => execList c env true body s) (st.g.s.items.map (·.id)) st := by
  simp only [execStmt, and_self, ↓reduceIte]

/-- **`RecalcAllCharacteristics`, source tree = `AGP.recalcAll`** (ids of the record pairwise different when a recalculation
is pending) -/
theorem recalcAllCharacteristics_src (c : Ctx α) (d : Nat) (g : MObj α)
    (hnd : g.s.recalc = true → (g.s.items.map (·.id)).Nodup) :
    run c d Gen.MethodCtl.recalcAllCharacteristics [] g = .done { g with s := recalcAll c.p g.s } .none := by
  cases hrc : g.s.recalc with
  | false =>
    simp only [Gen.MethodCtl.recalcAllCharacteristics]
    msimp [hrc, Bool.not_false, recalcAll]
  | true =>
    simp only [Gen.MethodCtl.recalcAllCharacteristics, run, runBody, execList]
    have e1 : execStmt c (envN c d) false (.ite "self.recalc is not True" [.ret ""] []) ⟨g, []⟩ = .normal ⟨g, []⟩ := by
      msimp [hrc, Bool.not_true]
    have e2 : execStmt c (envN c d) false (.call [] "self.searchData.ClearQueue" []) ⟨g, []⟩ =
        .normal ⟨{ g with s := { g.s with queue := [] } }, []⟩ := by
      msimp []
    obtain ⟨l', hl⟩ := recalc_loop c (envN c d) g.s.items [] { g with s := { g.s with queue := [] } } [] rfl
      (by simpa using hnd hrc)
    rw [e1]; simp only []
    rw [e2]; simp only []
    rw [execStmt_forEach, hl]
    msimp [recalcAll, hrc, List.getLast?_nil, List.nil_append]


/-- `AGP.prepare` after the recalculation -/
def prepTail (p : Params α) (s : State α) : Except (State α × Raise) (Prep α) :=
  let s := if s.queue.isEmpty then { s with queue := refillQueue s.items } else s
  match s.queue with
  | [] => .error (s, .emptyQueue)
  | (_, oid) :: q =>
    let s := { s with queue := q }
    match findItem s.items oid with
    | none => .error (s, .emptyQueue)
    | some old =>
      let s := { s with minDelta := some (minOpt old.delta s.minDelta) }
      match leftOf s.items oid with
      | none => .error (s, .leftIsNone)
      | some left =>
        let x := nextX p s.M left old
        if x ≤ left.x ∨ old.x ≤ x then .error (s, .outsideInterval)
        else .ok { s := s, old := old, left := left, x := x, point := p.image x }

theorem prepare_eq_prepTail (p : Params α) (s : State α) : prepare p s = prepTail p (recalcAll p s) := rfl

/-- how `runBody` reads the outcome of a body -/
def fin (o : Out α) : POut α :=
  match o with
  | .normal st => .done st.g .none
  | .returned st v => .done st.g v
  | .raised st e => .raised st.g e
  | .stuck => .stuck

/-- what `CalculateIterationPoint` returns for the model's `prepare`: on `.ok pr` the object stands for `pr.s`, `new` is a fresh
free-standing object `SearchDataItem(Point(pr.point, []), pr.x)` and `old` the item `pr.old` of the record -/
def cipResult (g : MObj α) : Except (State α × Raise) (Prep α) → POut α
  | .error (s', e) => .raised { g with s := s' } e
  | .ok pr => .done { g with s := pr.s, free := (g.nextH, newItem pr.point pr.x) :: g.free, nextH := g.nextH + 1 }
      (.pair (.item (.obj g.nextH)) (.item (.inRec pr.old.id)))

theorem cip_tail (c : Ctx α) (env : ProcEnv α) (g : MObj α) (l : List (String × Val α)) :
    fin (execList c env false Gen.MethodCtl.calculateIterationPoint.tail ⟨g, l⟩) = cipResult g (prepTail c.p g.s) := by
  obtain ⟨s, gb, sb, stp, fr, ins, nh⟩ := g
  simp only [Gen.MethodCtl.calculateIterationPoint, List.tail, prepTail]
  msimp [fin, cipResult]
  generalize (if s.queue.isEmpty = true then { s with queue := refillQueue s.items } else s) = s0
  cases hq : s0.queue with
  | nil =>
    msimp [hq, fin, cipResult]
  | cons hd q =>
    obtain ⟨k, oid⟩ := hd
    cases hf : findItem s0.items oid with
    | none => msimp [hq, hf, fin, cipResult]
    | some old =>
      cases hl : leftOf s0.items oid with
      | none =>
        cases hmd : s0.minDelta <;>
          msimp [hq, hf, hl, hmd, MObj.deref, MObj.norm, MObj.leftOfRef, MObj.itemOf]
      | some left =>
        by_cases hx : nextX c.p s0.M left old ≤ left.x ∨ old.x ≤ nextX c.p s0.M left old
        · cases hmd : s0.minDelta <;>
            msimp [hq, hf, hl, hx, hmd, MObj.deref, MObj.norm, MObj.leftOfRef, MObj.itemOf]
        · cases hmd : s0.minDelta <;>
            msimp [hq, hf, hl, hx, hmd, MObj.deref, MObj.norm, MObj.leftOfRef, MObj.itemOf, MObj.alloc, findItem_id hf]


/-- **`CalculateIterationPoint`, source tree = `AGP.prepare`.**  The interpretation of the generated tree of
`Method.CalculateIterationPoint` (which calls `self.RecalcAllCharacteristics()` through ITS generated tree: call depth
`d+1 ≥ 1`) on an object whose record has pairwise different ids (needed only when a recalculation is pending) follows
`AGP.prepare p s` in all four outcomes: on `.ok pr` it returns `(new, old)` with `new` a fresh free-standing
`SearchDataItem(Point(pr.point, []), pr.x)`, `old` the item `pr.old` of the record, and the object standing for `pr.s`; on
`.error (s', e)` the exception `e` (`emptyQueue`, `leftIsNone`, `outsideInterval`) propagates with the object standing for the
partially updated `s'`. -/
theorem calculateIterationPoint_src_gen (c : Ctx α) (d : Nat) (g : MObj α)
    (hnd : g.s.recalc = true → (g.s.items.map (·.id)).Nodup) :
    run c (d+1) Gen.MethodCtl.calculateIterationPoint [] g = cipResult g (prepare c.p g.s) := by
  have hrec := recalcAllCharacteristics_src c d g hnd
  simp only [run, runBody] at hrec
  have e1 : execStmt c (envN c (d+1)) false
      (.ite "self.recalc is True" [.call [] "self.RecalcAllCharacteristics" []] []) ⟨g, []⟩ =
      .normal ⟨{ g with s := recalcAll c.p g.s }, []⟩ := by
    cases hrc : g.s.recalc with
    | false => msimp [hrc, recalcAll]
    | true =>
      msimp [hrc, envN, Gen.MethodCtl.recalcAllCharacteristicsParams, bindArgs]
      revert hrec
      cases execList c (envN c d) false Gen.MethodCtl.recalcAllCharacteristics ⟨g, []⟩ <;>
        simp only [POut.done.injEq, reduceCtorEq, imp_self, and_imp]
      · intro h1 _; rw [h1]
      · intro h1 _; rw [h1]
  have ht := cip_tail c (envN c (d+1)) { g with s := recalcAll c.p g.s } []
  rw [prepare_eq_prepTail]
  simp only [run, runBody]
  change fin (execList c (envN c (d+1)) false
    (Stmt.ite "self.recalc is True" [.call [] "self.RecalcAllCharacteristics" []] [] ::
      Gen.MethodCtl.calculateIterationPoint.tail) ⟨g, []⟩) = _
  rw [execList, e1]
  simp only []
  rw [ht]
  cases prepTail c.p (recalcAll c.p g.s) with
  | error e => obtain ⟨s', e⟩ := e; rfl
  | ok pr => rfl

/-- **`CalculateIterationPoint`, source tree = `AGP.prepare`**, on the object of a model state: `.ok pr` ↦ returns
`(new, old)`, the object is that of `pr.s` plus the free-standing `new` (handle `0`); `.error (s', e)` ↦ raises `e` with the
object of `s'`. -/
theorem calculateIterationPoint_src (c : Ctx α) (d : Nat) (s : State α)
    (hnd : s.recalc = true → (s.items.map (·.id)).Nodup) :
    run c (d+1) Gen.MethodCtl.calculateIterationPoint [] (MObj.ofState s) =
      match prepare c.p s with
      | .error (s', e) => .raised (MObj.ofState s') e
      | .ok pr => .done (MObj.withNew pr.s (newItem pr.point pr.x)) (.pair (.item (.obj 0)) (.item (.inRec pr.old.id))) := by
  rw [calculateIterationPoint_src_gen c d (MObj.ofState s) hnd]
  cases hp : prepare c.p s with
  | error e =>
    obtain ⟨s', e⟩ := e
    have hb : s'.best = s.best := (Ctl.prepare_error_fields hp).2.2.2.2.2.1
    simp only [MObj.ofState, hp, cipResult, hb]
  | ok pr =>
    have hb : pr.s.best = s.best := (Ctl.prepare_ok_fields hp).2.2.2.2.2.2.1
    simp only [MObj.ofState, hp, cipResult, MObj.withNew, hb]

/-! ### `CalculateFunctionals`, `UpdateOptimum` -/

/-- what `MObj.deref` depends on -/
def derefCore (items : List (Item α)) (free : List (Nat × Item α)) (ins : List (Nat × Nat)) (r : Ref) : Option (Item α) :=
  ({ s := { items := items, queue := [], M := 0, Z := 0, best := 0, recalc := false, iters := 0, minDelta := none,
            nTrials := 0, nextId := 0 },
     best := none, solBest := none, free := free, ins := ins } : MObj α).deref r

theorem deref_eq (g : MObj α) (r : Ref) : g.deref r = derefCore g.s.items g.free g.ins r := rfl

/-- **`CalculateFunctionals`, source tree = the oracle + `ProcInterp.recordTrial`** (general object state): `point` is a
free-standing object with content `nit`; the objective is asked at `nit.point`; its value goes to the value holder, to `z`,
the index becomes `0`, the trial is counted, and the same object is returned. -/
theorem calculateFunctionals_src_gen (c : Ctx α) (d : Nat) (g : MObj α) (h : Nat) (nit : Item α) (z : α)
    (hins : g.ins.lookup h = none) (hfree : g.free.lookup h = some nit) (hz : c.f nit.point = some z) :
    run c d Gen.MethodCtl.calculateFunctionals [("point", .item (.obj h))] g =
      .done { g with
        s := ProcInterp.recordTrial g.s,
        free := (h, { nit with hv := z, z := z, ev := true }) :: (h, { nit with hv := z, z := z }) ::
                (h, { nit with hv := z }) :: g.free } (.item (.obj h)) := by
  simp only [Gen.MethodCtl.calculateFunctionals]
  msimp [MObj.itemOf, MObj.deref, MObj.norm, MObj.update, hins, hfree, hz, beq_self_eq_true, ProcInterp.recordTrial]

/-- … and when the objective raises, the exception leaves `CalculateFunctionals` with the object unchanged -/
theorem calculateFunctionals_src_raise (c : Ctx α) (d : Nat) (g : MObj α) (h : Nat) (nit : Item α)
    (hins : g.ins.lookup h = none) (hfree : g.free.lookup h = some nit) (hz : c.f nit.point = none) :
    run c d Gen.MethodCtl.calculateFunctionals [("point", .item (.obj h))] g = .raised g .objective := by
  simp only [Gen.MethodCtl.calculateFunctionals]
  msimp [MObj.itemOf, MObj.deref, MObj.norm, MObj.update, hins, hfree, hz, beq_self_eq_true]

/-- **`UpdateOptimum`, source tree** (general object state): `point` is a free-standing evaluated object with content `nit`,
`self.best` an evaluated object with content `b`. -/
theorem updateOptimum_src_gen (c : Ctx α) (d : Nat) (g : MObj α) (h : Nat) (nit b : Item α) (rb : Ref)
    (hins : g.ins.lookup h = none) (hfree : g.free.lookup h = some nit) (hev : nit.ev = true)
    (hbest : g.best = some rb) (hb : g.deref rb = some b) (hbev : b.ev = true) :
    run c d Gen.MethodCtl.updateOptimum [("point", .item (.obj h))] g =
      .done (if nit.z < b.z then
               { g with s := { g.s with recalc := true, Z := nit.z }, best := some (.obj h), solBest := some (.obj h) }
             else { g with solBest := g.best }) .none := by
  simp only [Gen.MethodCtl.updateOptimum]
  have hd : g.deref (.obj h) = some nit := by simp only [MObj.deref, MObj.norm, hins, hfree]
  rw [deref_eq] at hd hb
  by_cases hlt : nit.z < b.z
  · msimp [deref_eq, hd, hev, hbest, hb, hbev, hlt, Bool.not_true, Bool.false_and, Bool.true_and, decide_true]
  · msimp [deref_eq, hd, hev, hbest, hb, hbev, hlt, Bool.not_true, Bool.false_and, Bool.true_and, decide_false]

/-- … on an object with `self.best is None` (the first trial) -/
theorem updateOptimum_src_none (c : Ctx α) (d : Nat) (g : MObj α) (h : Nat) (nit : Item α)
    (hins : g.ins.lookup h = none) (hfree : g.free.lookup h = some nit) (hev : nit.ev = true) (hbest : g.best = none) :
    run c d Gen.MethodCtl.updateOptimum [("point", .item (.obj h))] g =
      .done { g with s := { g.s with recalc := true, Z := nit.z }, best := some (.obj h), solBest := some (.obj h) } .none := by
  simp only [Gen.MethodCtl.updateOptimum]
  msimp [MObj.itemOf, MObj.deref, MObj.norm, MObj.update, hins, hfree, hev, hbest, beq_self_eq_true, ↓reduceIte]

/-- **`CalculateFunctionals`, source tree = `ProcInterp.recordTrial` + the value on the new point.**  On the object of a model
state `s` plus the free-standing `new` that `CalculateIterationPoint` built for `pr`, with the objective answering `z` at
`pr.point`: the run returns the same object, now `evaluated` (value `z` in the holder and in `z`, index `0`), and the object
stands for `ProcInterp.recordTrial s`. -/
theorem calculateFunctionals_src (c : Ctx α) (d : Nat) (pr : Prep α) (z : α) (s : State α) (hz : c.f pr.point = some z) :
    ∃ g', run c d Gen.MethodCtl.calculateFunctionals [("point", .item (.obj 0))] (MObj.withNew s (newItem pr.point pr.x)) =
        .done g' (.item (.obj 0)) ∧
      g'.toState = some (ProcInterp.recordTrial s) ∧ g'.solBest = g'.best ∧
      g'.deref (.obj 0) = some (evaluated pr z 0 (-1) (some (-1))) ∧ g'.ins = [] := by
  have h := calculateFunctionals_src_gen c d (MObj.withNew s (newItem pr.point pr.x)) 0 (newItem pr.point pr.x) z rfl rfl hz
  exact ⟨_, h, rfl, rfl, rfl, rfl⟩

/-- **`UpdateOptimum`, source tree = `ProcInterp.updateOptimum`.**  On the object of a model state `s` whose `best` is an
evaluated item of the record, plus the free-standing evaluated new point (value `z`), no insertion having happened since
`prepare` (`s.nextId = pr.s.nextId`). -/
theorem updateOptimum_src (c : Ctx α) (d : Nat) (pr : Prep α) (z : α) (s : State α) (i : Nat) (dl : α) (R : Option α)
    (b : Item α) (hb : findItem s.items s.best = some b) (hbev : b.ev = true) (hn : s.nextId = pr.s.nextId) :
    ∃ g', run c d Gen.MethodCtl.updateOptimum [("point", .item (.obj 0))] (MObj.withNew s (evaluated pr z i dl R)) =
        .done g' .none ∧
      g'.toState = some (ProcInterp.updateOptimum pr z s) ∧ g'.solBest = g'.best := by
  have h := updateOptimum_src_gen c d (MObj.withNew s (evaluated pr z i dl R)) 0 (evaluated pr z i dl R) b (.inRec s.best)
    rfl rfl rfl rfl hb hbev
  refine ⟨_, h, ?_, ?_⟩
  · simp only [ProcInterp.updateOptimum, hb, Option.map_some, evaluated, ← hn]
    by_cases hlt : z < b.z
    · simp only [hlt, ↓reduceIte, decide_true]; rfl
    · simp only [hlt, ↓reduceIte, decide_false, Bool.false_eq_true]; rfl
  · simp only [evaluated]
    by_cases hlt : z < b.z
    · simp only [hlt, ↓reduceIte]
    · simp only [hlt, ↓reduceIte]

/-- **`FinalizeIteration`, source tree = model part.** -/
theorem finalizeIteration_src (c : Ctx α) (d : Nat) (g : MObj α) :
    run c d Gen.MethodCtl.finalizeIteration [] g = .done { g with s := ProcInterp.finalizeIteration g.s } .none := by
  simp only [Gen.MethodCtl.finalizeIteration]
  msimp [ProcInterp.finalizeIteration]

/-- **`CheckStopCondition`, source tree = `AGP.stopCond`.** -/
theorem checkStopCondition_src (c : Ctx α) (d : Nat) (g : MObj α) :
    run c d Gen.MethodCtl.checkStopCondition [] g = .done { g with stop := stopCond c.p g.s } (.bool (stopCond c.p g.s)) := by
  simp only [Gen.MethodCtl.checkStopCondition]
  msimp []
  cases stopCond c.p g.s <;> rfl

/-! ### edits of `RenewSearchData` that are not visible; the whole iteration -/

/-- **swapping the two `CalculateGlobalR` calls of `RenewSearchData` is harmless** (`CalculateGlobalR(oldpoint, newpoint)`
reads the value and the index of `newpoint`, not its characteristic): same outcome as the generated tree, on every object state -/
theorem renewSwapR_src (c : Ctx α) (d : Nat) (g : MObj α) (h : Nat) (nit old left : Item α)
    (hins : g.ins.lookup h = none) (hfree : g.free.lookup h = some nit)
    (hold : findItem g.s.items old.id = some old) (hleft : leftOf g.s.items old.id = some left) (hne : left.id ≠ old.id) :
    run c d renewSwapR [("newpoint", .item (.obj h)), ("oldpoint", .item (.inRec old.id))] g =
      run c d Gen.MethodCtl.renewSearchData [("newpoint", .item (.obj h)), ("oldpoint", .item (.inRec old.id))] g := by
  rw [renewSearchData_src_gen c d g h nit old left hins hfree hold hleft hne]
  simp only [renewSwapR]
  have e1 : ∀ dl R, findItem (setRec { old with delta := dl, R := R } g.s.items) old.id = some { old with delta := dl, R := R } :=
    fun dl R => findItem_setRec hold rfl
  have e2 : ∀ dl R, leftOf (setRec { old with delta := dl, R := R } g.s.items) old.id = some left :=
    fun dl R => leftOf_setRec hleft hne rfl
  have e3 : ∀ dl R dl' R', setRec { old with delta := dl', R := R' } (setRec { old with delta := dl, R := R } g.s.items) =
      setRec { old with delta := dl', R := R' } g.s.items :=
    fun dl R dl' R' => setRec_setRec { old with delta := dl, R := R } { old with delta := dl', R := R' } rfl _
  have e4 : ∀ new dl R, insertAt new old.id (setRec { old with delta := dl, R := R } g.s.items) =
      insertBefore new { old with delta := dl, R := R } g.s.items :=
    fun new dl R => insertAt_setRec new { old with delta := dl, R := R } _
  msimp [MObj.itemOf, MObj.deref, MObj.norm, MObj.update, MObj.leftOfRef, hins, hfree, hold, hleft,
    e1, e2, e3, e4, Option.isSome_some, calcR_core]

/-- what a successful `prepare` found is in the record it returns -/
theorem prepare_ok_refs {p : Params α} {s : State α} {pr : Prep α} (hp : prepare p s = .ok pr) :
    findItem pr.s.items pr.old.id = some pr.old ∧ leftOf pr.s.items pr.old.id = some pr.left := by
  obtain ⟨k, oid, q, -, hold, hleft, hs, -⟩ := Ctl.prepare_ok hp
  have hi : pr.s.items = (Ctl.selState p s).items := by rw [hs]
  have hoid := findItem_id hold
  subst hoid
  rw [hi]
  exact ⟨hold, hleft⟩

/-- the object after `CalculateIterationPoint` and `CalculateFunctionals` (value `z`) -/
def afterCF (pr : Prep α) (z : α) : MObj α :=
  { MObj.withNew pr.s (newItem pr.point pr.x) with
    s := ProcInterp.recordTrial pr.s,
    free := (0, { newItem pr.point pr.x with hv := z, z := z, ev := true }) ::
            (0, { newItem pr.point pr.x with hv := z, z := z }) ::
            (0, { newItem pr.point pr.x with hv := z }) :: [(0, newItem pr.point pr.x)] }

/-- … and after `UpdateOptimum`, when the new value is better / is not -/
def afterUO (pr : Prep α) (z : α) (better : Bool) : MObj α :=
  if better then
    { afterCF pr z with s := { (afterCF pr z).s with recalc := true, Z := z }, best := some (.obj 0), solBest := some (.obj 0) }
  else afterCF pr z

theorem iteration_src (c : Ctx α) (d : Nat) (s : State α) (pr : Prep α) (z : α) (b : Item α)
    (hp : prepare c.p s = .ok pr) (hz : c.f pr.point = some z)
    (hnd : s.recalc = true → (s.items.map (·.id)).Nodup)
    (hne : pr.left.id ≠ pr.old.id)
    (hb : findItem pr.s.items pr.s.best = some b) (hbev : b.ev = true) :
    ∃ g1 g2 g3 g4 g5,
      run c (d+1) Gen.MethodCtl.calculateIterationPoint [] (MObj.ofState s) =
        .done g1 (.pair (.item (.obj 0)) (.item (.inRec pr.old.id))) ∧
      run c d Gen.MethodCtl.calculateFunctionals [("point", .item (.obj 0))] g1 = .done g2 (.item (.obj 0)) ∧
      run c d Gen.MethodCtl.updateOptimum [("point", .item (.obj 0))] g2 = .done g3 .none ∧
      run c d Gen.MethodCtl.renewSearchData [("newpoint", .item (.obj 0)), ("oldpoint", .item (.inRec pr.old.id))] g3 =
        .done g4 .none ∧
      run c d Gen.MethodCtl.finalizeIteration [] g4 = .done g5 .none ∧
      g5.toState = some (commit c.p pr z) ∧ g5.solBest = g5.best := by
  obtain ⟨hold, hleft⟩ := prepare_ok_refs hp
  have h1 := calculateIterationPoint_src c d s hnd
  rw [hp] at h1
  have h2 : run c d Gen.MethodCtl.calculateFunctionals [("point", .item (.obj 0))]
      (MObj.withNew pr.s (newItem pr.point pr.x)) = .done (afterCF pr z) (.item (.obj 0)) :=
    calculateFunctionals_src_gen c d (MObj.withNew pr.s (newItem pr.point pr.x)) 0 (newItem pr.point pr.x) z rfl rfl hz
  have h3 : run c d Gen.MethodCtl.updateOptimum [("point", .item (.obj 0))] (afterCF pr z) =
      .done (afterUO pr z (decide (z < b.z))) .none := by
    have := updateOptimum_src_gen c d (afterCF pr z) 0 (evaluated pr z 0 (-1) (some (-1))) b (.inRec pr.s.best)
      rfl rfl rfl rfl hb hbev
    rw [this]
    by_cases hlt : z < b.z
    · simp only [evaluated, hlt, ↓reduceIte, afterUO, decide_true]
    · simp only [evaluated, hlt, ↓reduceIte, afterUO, decide_false, Bool.false_eq_true]; rfl
  have h4 := renewSearchData_src_gen c d (afterUO pr z (decide (z < b.z))) 0 (evaluated pr z 0 (-1) (some (-1)))
    pr.old pr.left (by cases decide (z < b.z) <;> rfl) (by cases decide (z < b.z) <;> rfl)
    (by cases decide (z < b.z) <;> exact hold) (by cases decide (z < b.z) <;> exact hleft) hne
  have h5 := fun g => finalizeIteration_src c d g
  refine ⟨_, _, _, _, _, h1, h2, h3, h4, h5 _, ?_, ?_⟩
  · rw [ProcInterp.commit_eq_parts]
    have hbz : findItem (ProcInterp.recordTrial pr.s).items (ProcInterp.recordTrial pr.s).best = some b := hb
    by_cases hlt : z < b.z
    · simp only [hlt, decide_true, afterUO, afterCF, ↓reduceIte, MObj.toState, MObj.idOf, MObj.norm, MObj.withNew,
        MObj.ofState, List.lookup_cons, beq_self_eq_true, Option.map_some, evaluated, newItem,
        ProcInterp.finalizeIteration, ProcInterp.renewSearchData, ProcInterp.updateOptimum, hbz, calcR_core, calcM_core]
      rfl
    · simp only [hlt, decide_false, afterUO, afterCF, ↓reduceIte, MObj.toState, MObj.idOf, MObj.norm, MObj.withNew,
        MObj.ofState, Option.map_some, evaluated, newItem, Bool.false_eq_true,
        ProcInterp.finalizeIteration, ProcInterp.renewSearchData, ProcInterp.updateOptimum, hbz, calcR_core, calcM_core]
      rfl
  · by_cases hlt : z < b.z
    · simp only [hlt, decide_true, afterUO, afterCF, ↓reduceIte]
    · simp only [hlt, decide_false, afterUO, afterCF, ↓reduceIte, Bool.false_eq_true]; rfl


end MethodInterp
end

/-! ## Over an ordered field: the harmless swap of `CalculateM`, and the whole iteration under the invariant -/

namespace MethodInterp
open AGP Gen.ProcSrc
variable {α : Type} [Field α] [LinearOrder α] [IsStrictOrderedRing α] [Fns α]

set_option linter.unnecessarySeqFocus false in
/-- in a linear order the two `CalculateM` calls of `RenewSearchData` commute: `M` becomes the maximum, and `recalc` is raised
iff it grew -/
theorem calcM_comm (M : α) (rc : Bool) (l n o : Item α) :
    calcM (calcM M rc l n).1 (calcM M rc l n).2 n o = calcM (calcM M rc n o).1 (calcM M rc n o).2 l n := by
  simp only [calcM]
  generalize Fns.abs (l.z - n.z) / n.delta = a
  generalize Fns.abs (n.z - o.z) / o.delta = b
  cases (l.ev == n.ev) <;> cases (n.ev == o.ev) <;> simp only [Bool.false_eq_true, ↓reduceIte] <;>
    split_ifs <;> (simp only [] at *) <;>
    first
    | rfl
    | (exfalso; order)
    | (have : a = b := by order
       subst this; rfl)

/-- **swapping the two `CalculateM` calls of `RenewSearchData` is harmless in a linear order** -/
theorem renewSwapM_src (c : Ctx α) (d : Nat) (g : MObj α) (h : Nat) (nit old left : Item α)
    (hins : g.ins.lookup h = none) (hfree : g.free.lookup h = some nit)
    (hold : findItem g.s.items old.id = some old) (hleft : leftOf g.s.items old.id = some left) (hne : left.id ≠ old.id) :
    run c d renewSwapM [("newpoint", .item (.obj h)), ("oldpoint", .item (.inRec old.id))] g =
      run c d Gen.MethodCtl.renewSearchData [("newpoint", .item (.obj h)), ("oldpoint", .item (.inRec old.id))] g := by
  rw [renewSearchData_src_gen c d g h nit old left hins hfree hold hleft hne]
  simp only [renewSwapM]
  have e1 : ∀ dl R, findItem (setRec { old with delta := dl, R := R } g.s.items) old.id = some { old with delta := dl, R := R } :=
    fun dl R => findItem_setRec hold rfl
  have e2 : ∀ dl R, leftOf (setRec { old with delta := dl, R := R } g.s.items) old.id = some left :=
    fun dl R => leftOf_setRec hleft hne rfl
  have e3 : ∀ dl R dl' R', setRec { old with delta := dl', R := R' } (setRec { old with delta := dl, R := R } g.s.items) =
      setRec { old with delta := dl', R := R' } g.s.items :=
    fun dl R dl' R' => setRec_setRec { old with delta := dl, R := R } { old with delta := dl', R := R' } rfl _
  have e4 : ∀ new dl R, insertAt new old.id (setRec { old with delta := dl, R := R } g.s.items) =
      insertBefore new { old with delta := dl, R := R } g.s.items :=
    fun new dl R => insertAt_setRec new { old with delta := dl, R := R } _
  msimp [MObj.itemOf, MObj.deref, MObj.norm, MObj.update, MObj.leftOfRef, hins, hfree, hold, hleft,
    e1, e2, e3, e4, Option.isSome_some, ← calcM_comm]

theorem findItem_of_mem_nodup {items : List (Item α)} (hnd : (items.map (·.id)).Nodup) {it : Item α} (hm : it ∈ items) :
    findItem items it.id = some it := by
  induction items with
  | nil => cases hm
  | cons a t ih =>
    simp only [List.map_cons, List.nodup_cons, List.mem_map, not_exists, not_and] at hnd
    rcases List.mem_cons.1 hm with rfl | hm'
    · simp [findItem]
    · have ha : (a.id == it.id) = false := by
        have := hnd.1 it hm'
        simpa using fun h => this h.symm
      simp only [findItem, List.find?_cons, ha]
      exact ih hnd.2 hm'

/-- **one iteration of the method, from the source trees, under the invariant.**  In every state satisfying the invariant of
the iteration (`AGP.Inv`: every state reachable from `firstIteration`), `CalculateIterationPoint` returns `(new, old)` for the
model's `pr`, and for every value `z` the objective returns at `pr.point`, the generated trees of `CalculateFunctionals`,
`UpdateOptimum`, `RenewSearchData`, `FinalizeIteration`, run one after the other on `new` / `old` as `DoGlobalIteration` does,
end in an object that stands for `AGP.commit p pr z`: all well-formedness hypotheses of the ties are discharged. -/
theorem iteration_src_inv (hL : FnsLaws α) (c : Ctx α) (d : Nat) (s : State α) (hr : 1 < c.p.r) (hn : 0 < c.p.n)
    (h : Inv c.p s) :
    ∃ pr, prepare c.p s = .ok pr ∧ ∀ z, c.f pr.point = some z →
      ∃ g1 g2 g3 g4 g5,
        run c (d+1) Gen.MethodCtl.calculateIterationPoint [] (MObj.ofState s) =
          .done g1 (.pair (.item (.obj 0)) (.item (.inRec pr.old.id))) ∧
        run c d Gen.MethodCtl.calculateFunctionals [("point", .item (.obj 0))] g1 = .done g2 (.item (.obj 0)) ∧
        run c d Gen.MethodCtl.updateOptimum [("point", .item (.obj 0))] g2 = .done g3 .none ∧
        run c d Gen.MethodCtl.renewSearchData [("newpoint", .item (.obj 0)), ("oldpoint", .item (.inRec pr.old.id))] g3 =
          .done g4 .none ∧
        run c d Gen.MethodCtl.finalizeIteration [] g4 = .done g5 .none ∧
        g5.toState = some (commit c.p pr z) ∧ g5.solBest = g5.best := by
  obtain ⟨pr, hp, hs⟩ := prepare_spec hL hr hn h
  refine ⟨pr, hp, fun z hz => ?_⟩
  obtain ⟨b, hbm, hbid, hbev, -⟩ := hs.inv.best
  have hb : findItem pr.s.items pr.s.best = some b := hbid ▸ findItem_of_mem_nodup hs.inv.ids_nodup hbm
  have hne : pr.left.id ≠ pr.old.id := by
    obtain ⟨pre, post, e, -⟩ := hs.decomp
    have := hs.inv.ids_nodup
    rw [e] at this
    simp only [List.map_append, List.map_cons, List.nodup_append, List.nodup_cons, List.mem_cons, not_or] at this
    exact this.2.1.1.1
  exact iteration_src c d s pr z b hp hz (fun _ => h.ids_nodup) hne hb hbev

end MethodInterp

/-! ## Non-vacuity, and what the ties exclude: concrete runs over `ℚ` (`ProcToy`) -/

namespace MethodInterp.Examples
open AGP ProcToy MethodInterp
open Gen.ProcSrc (Stmt)

/-- toy context over `ℚ`: one dimension, `r = 2`, objective `(x - 1/3)^2` -/
def C : Ctx Rat := { p := P 5 (1/100), f := fun pt => F 0 pt }

/-- the object after `Method.__init__` (`Z = [inf]` is never read: any value) -/
def init : MObj Rat :=
  { s := { items := [], queue := [], M := 1, Z := 0, best := 0, recalc := true, iters := 0, minDelta := none, nTrials := 0,
           nextId := 0 },
    best := none, solBest := none }

theorem init_fresh : init.Fresh := ⟨rfl, rfl, rfl, rfl, rfl, rfl, rfl, rfl, rfl, rfl⟩

/-- a decidable view of a model state -/
structure IView where
  id : Nat
  x : Rat
  point : List Rat
  z : Rat
  hv : Rat
  ev : Bool
  delta : Rat
  R : Option Rat
deriving DecidableEq

structure SView where
  items : List IView
  queue : List (Option Rat × Nat)
  M : Rat
  Z : Rat
  best : Nat
  recalc : Bool
  iters : Nat
  minDelta : Option Rat
  nTrials : Nat
  nextId : Nat
deriving DecidableEq

def viewS (s : State Rat) : SView :=
  { items := s.items.map fun it => ⟨it.id, it.x, it.point, it.z, it.hv, it.ev, it.delta, it.R⟩, queue := s.queue, M := s.M,
    Z := s.Z, best := s.best, recalc := s.recalc, iters := s.iters, minDelta := s.minDelta, nTrials := s.nTrials,
    nextId := s.nextId }

def isStuck (o : POut Rat) : Bool :=
  match o with
  | .stuck => true
  | _ => false

/-- the model state a finished run stands for (`none`: stuck, raised, or no `best`) -/
def viewP (o : POut Rat) : Option SView :=
  match o with
  | .done g _ => g.toState.map viewS
  | _ => none

example : viewP (run C 1 Gen.MethodCtl.firstIteration [] init) = some (viewS (firstIteration C.p (1/36))) := by decide +kernel


/-- the state after the first iteration, and after one more -/
def s1 : State Rat := firstIteration C.p (1/36)
def s2 : State Rat :=
  match prepare C.p s1 with
  | .ok pr => commit C.p pr ((pr.x - 1/3) * (pr.x - 1/3))
  | .error _ => s1

/-- run the generated tree of `CalculateIterationPoint` on the object of `s` and compare with `prepare`: same outcome, same
state, `old` = the model's, `new` free-standing at the model's coordinate and image -/
def cipAgrees (s : State Rat) : Bool :=
  match run C 1 Gen.MethodCtl.calculateIterationPoint [] (MObj.ofState s), prepare C.p s with
  | .done g (.pair (.item (.obj 0)) (.item (.inRec oid))), .ok pr =>
    g.toState.map viewS == some (viewS pr.s) && oid == pr.old.id &&
      (g.deref (.obj 0)).map (fun it => (it.x, it.point, it.ev)) == some (pr.x, pr.point, false)
  | .raised g e, .error (s', e') => e == e' && g.toState.map viewS == some (viewS s')
  | _, _ => false

/-- the interpreter RUN on the generated tree of `CalculateIterationPoint` (with a pending recalculation; without; with a queue
whose head is the first item: `leftIsNone`; on an empty record: `emptyQueue`) follows `prepare` -/
example : cipAgrees s1 = true ∧ cipAgrees s2 = true ∧ cipAgrees { s2 with recalc := false } = true ∧
    cipAgrees { s1 with recalc := false, queue := [(some 5, 0)] } = true ∧
    (prepare C.p { s1 with recalc := false, queue := [(some 5, 0)] }).toOption.isNone = true ∧
    cipAgrees { s1 with recalc := false, items := [], queue := [] } = true := by decide +kernel

/-- at call depth 0 `self.RecalcAllCharacteristics()` cannot be called: stuck when a recalculation is pending -/
example : isStuck (run C 0 Gen.MethodCtl.calculateIterationPoint [] (MObj.ofState s1)) = true := by decide +kernel

/-- run a `RenewSearchData`-shaped tree on the state `s` after `prepare` (new point evaluated, `UpdateOptimum` not modelled
here: `Z`, `best` as in `s`) and compare with `ProcInterp.renewSearchData`: `some true` equal, `some false` different, `none`
the preparation failed -/
def renewAgrees (tree : List Stmt) (s : State Rat) : Option Bool :=
  match prepare C.p s with
  | .ok pr =>
    let z := (pr.x - 1/3) * (pr.x - 1/3)
    some (viewP (run C 0 tree [("newpoint", .item (.obj 0)), ("oldpoint", .item (.inRec pr.old.id))]
            (MObj.withNew pr.s (evaluated pr z 0 (-1) (some (-1))))) ==
          some (viewS (ProcInterp.renewSearchData C.p pr z pr.s)))
  | .error _ => none

/-- the interpreter RUN on the generated tree of `RenewSearchData` gives `ProcInterp.renewSearchData` (second and third trial) -/
example : renewAgrees Gen.MethodCtl.renewSearchData s1 = some true ∧ renewAgrees Gen.MethodCtl.renewSearchData s2 = some true := by
  decide +kernel


/-- on these instances the swap of the two `CalculateM` calls, and of the two `CalculateGlobalR` calls, is NOT visible … -/
example : renewAgrees renewSwapM s1 = some true ∧ renewAgrees renewSwapM s2 = some true ∧
    renewAgrees renewSwapR s1 = some true ∧ renewAgrees renewSwapR s2 = some true := by decide +kernel

/-- … **but the position of `InsertDataItem` is**: inserted before the two `CalculateGlobalR` calls, the queue receives the
stale characteristics (the constructor's `-1.0` for the new point, the old value for the old one: queue
`[(1, 1), (1, 2), (-1, 3), (-inf, 0)]` instead of `[(1, 1), (13/24, 3), (625/2304, 2), (-inf, 0)]`), and the characteristic of
the new point is computed against ITSELF as left neighbour (`7/24` instead of `13/24`) -/
theorem insertEarly_not_model : renewAgrees renewInsertEarly s1 = some false ∧ renewAgrees renewInsertEarly s2 = some false := by
  decide +kernel

/-- `FirstIteration` with the three `CalculateGlobalR` calls moved before `UpdateOptimum` -/
def firstIterEarlyR : List Stmt :=
  [
    .assign "self.iterationsCount" "1",
    .assign "x" "0.5",
    .call ["y"] "Point" ["self.evolvent.GetImage(x)", "None"],
    .call ["middle"] "SearchDataItem" ["y", "x"],
    .call ["left"] "SearchDataItem" ["Point(self.evolvent.GetImage(0.0), None)", "0.0"],
    .call ["right"] "SearchDataItem" ["Point(self.evolvent.GetImage(1.0), None)", "1.0"],
    .assign "left.delta" "0",
    .call ["middle.delta"] "Method.CalculateDelta" ["left.GetX()", "middle.GetX()", "self.dimension"],
    .call ["right.delta"] "Method.CalculateDelta" ["middle.GetX()", "right.GetX()", "self.dimension"],
    .call [] "self.CalculateFunctionals" ["middle"],
    .call [] "self.CalculateGlobalR" ["left", "None"],
    .call [] "self.CalculateGlobalR" ["middle", "left"],
    .call [] "self.CalculateGlobalR" ["right", "middle"],
    .call [] "self.UpdateOptimum" ["middle"],
    .call [] "self.searchData.InsertFirstDataItem" ["left", "right"],
    .call [] "self.searchData.InsertDataItem" ["middle", "right"]]

/-- **the tie of `FirstIteration` is sensitive to the position of `UpdateOptimum`**: with the characteristics computed first
they use the `Z` of the constructor, not the first value (the run is not stuck, its result is not the model's) -/
theorem firstIterEarlyR_not_model :
    viewP (run C 1 firstIterEarlyR [] init) ≠ some (viewS (firstIteration C.p (1/36))) ∧
    isStuck (run C 1 firstIterEarlyR [] init) = false := by decide +kernel

/-- the tie theorems instantiated -/
example := firstIteration_src C 0 init init_fresh (1/36) (by decide +kernel)
example := calculateIterationPoint_src C 0 s1 (fun _ => by decide +kernel)
example := recalcAllCharacteristics_src C 0 (MObj.ofState s1) (fun _ => by decide +kernel)


/-- statements outside the tables are not silently accepted: an unknown callee, a known callee with an argument string that is
not in `exprTable`, an assignment to an unknown target, `InsertDataItem` inside the iteration over the search data -/
example : isStuck (run C 1 [.call [] "self.CalculateLocalR" ["item"]] [("item", .item (.inRec 2))] (MObj.ofState s1)) = true ∧
    isStuck (run C 1 [.call ["y"] "Point" ["self.evolvent.GetImage(2.0)", "None"]] [] init) = true ∧
    isStuck (run C 1 [.call ["y"] "Point" ["self.evolvent.GetImage(x)", "None"]] [("x", .num (1/2))] init) = false ∧
    isStuck (run C 1 [.assign "self.M[0]" "1.0"] [] init) = true ∧
    isStuck (run C 1 [.other "raise Exception()"] [] init) = true ∧
    isStuck (run C 1 [.forEach "item" "self.searchData" [.call [] "self.CalculateGlobalR" ["item", "item.GetLeft()"]]] []
      (MObj.withNew s1 (newItem [1/4] (1/4)))) = false ∧
    isStuck (run C 1 [.forEach "item" "self.searchData" [.call [] "self.searchData.InsertDataItem" ["new", "item"]]]
      [("new", .item (.obj 0))] (MObj.withNew s1 (newItem [1/4] (1/4)))) = true := by decide +kernel

end MethodInterp.Examples

section
open AGP MethodInterp
attribute [local instance] Fns.real

/-- `iteration_src_inv` is not vacuous: over `ℝ` with the real-number functions, the state after the first iteration satisfies
the invariant, for every objective value -/
example (p : Params ℝ) (f : List ℝ → Option ℝ) (hr : 1 < p.r) (hn : 0 < p.n) (z : ℝ) :=
  iteration_src_inv FnsLaws.real { p := p, f := f } 0 (firstIteration p z) hr hn (firstIteration_inv p z)

end
