import IOptModel.Method
import IOptGen.MethodCtlSrc
/-!
# A semantics for the statement trees of `IOptGen/MethodCtlSrc.lean` in terms of the model's primitive operations

`IOptGen/MethodCtlSrc.lean` is regenerated from the SOURCE TEXT of `iOpt/method/method.py` on every run: the bodies of
`FirstIteration`, `CalculateIterationPoint`, `RecalcAllCharacteristics`, `CalculateFunctionals`, `UpdateOptimum`,
`RenewSearchData`, `FinalizeIteration`, `CheckStopCondition` as statement trees (`Gen.ProcSrc.Stmt`).  This file gives such trees
a meaning by structural recursion over the tree, GENERIC in the tree: the interpreter never looks at which function it is
executing.  Source strings are opaque keys of small tables (`exprTable`: every expression string that is understood, with its
reading as an `Expr`; `lvalTable`: assignment targets; `primTable`: callees interpreted by an operation of the model;
`condTable`: conditions; `procTable`: callees interpreted through their own GENERATED tree; the literal `"self.searchData"` as
the collection of a `for`).  Whatever is not in a table makes the result `stuck`.
`IOptProofs/MethodInterp.lean` proves that the interpretation of the generated trees IS `AGP.firstIteration`, `AGP.prepare`
and the parts of `AGP.commit`.

## Objects
The Python code manipulates `SearchDataItem` OBJECTS.  The interpreter state is the model state `AGP.State α` (the record:
items in traversal order, the queue, `M`, `Z`, …) plus a small heap of the objects the interpreted code has constructed:
* `Ref.obj h`: the object created by the `h`-th constructor call; it is FREE-STANDING (content in `MObj.free`) until
  `InsertFirstDataItem` / `InsertDataItem` puts it into the record, which hands out the model's id (`len(_allTrials)`), and
  from then on the handle is forwarded to that id (`MObj.ins`);
* `Ref.inRec id`: the item of the record with this id (what the queue, the iteration over the search data, … return).
Writes through a reference (`oldpoint.delta = …`, `CalculateGlobalR(curr, …)`) update the object where it currently lives.
`X.GetLeft()` is read as the model's `leftOf` on the current record (an r-value: it can be an argument, not be stored).
`self.best` and `solution.bestTrials[0]` are references (or `None`); the model's `best : Nat` is obtained by `MObj.toState`
(a free-standing object is counted as having the id it gets if it is inserted next, the convention of `ProcInterp.updateOptimum`).

No Mathlib, no proofs: everything here is executable.
-/

section
variable {α : Type} [Add α] [Sub α] [Mul α] [Div α] [Neg α] [LT α] [LE α]
  [DecidableLT α] [DecidableLE α] [OfNat α 0] [OfNat α 1] [OfNat α 2] [OfNat α 4] [Fns α]

namespace MethodInterp
open AGP Gen.ProcSrc

/-! ### values and the object state -/

/-- a reference to a `SearchDataItem` object -/
inductive Ref where
  /-- the object made by the `h`-th constructor call of the interpreted code -/
  | obj (h : Nat)
  /-- the item of the record with this (model) id -/
  | inRec (id : Nat)
deriving DecidableEq, Repr

/-- Python values -/
inductive Val (α : Type) where
  | num (x : α)
  /-- `np.inf` -/
  | inf
  | nat (n : Nat)
  | bool (b : Bool)
  | none
  /-- `[]` -/
  | nil
  /-- a `Point` / an image under the evolvent: the float coordinates -/
  | point (y : List α)
  | item (r : Ref)
  /-- r-value: the content of the item that `GetLeft()` returned (cannot be stored in a variable) -/
  | itemVal (it : Item α)
  /-- r-value: `SearchDataItem(y, x)` inside an expression, not yet an object (cannot be stored) -/
  | tmpItem (y : List α) (x : α)
  | pair (a b : Val α)

/-- what a float-typed position accepts: a float, or the integer literal `0` -/
def Val.toNum : Val α → Option α
  | .num x => some x
  | .nat 0 => some 0
  | _ => Option.none

/-- a float or `inf` (`none`) -/
def Val.toOptNum : Val α → Option (Option α)
  | .num x => some (some x)
  | .inf => some Option.none
  | _ => Option.none

def Val.storable : Val α → Bool
  | .itemVal _ => false
  | .tmpItem _ _ => false
  | _ => true

/-- the `Method` object with everything it owns, and the objects constructed by the interpreted code -/
structure MObj (α : Type) where
  /-- the model state (its field `best` is not used here: see `best` below and `toState`) -/
  s : State α
  /-- `self.best` -/
  best : Option Ref
  /-- `self.searchData.solution.bestTrials[0]` -/
  solBest : Option Ref
  /-- `self.stop` -/
  stop : Bool := false
  /-- content of the free-standing objects (newest binding first) -/
  free : List (Nat × Item α) := []
  /-- the objects that have been inserted into the record: handle ↦ id -/
  ins : List (Nat × Nat) := []
  /-- number of constructor calls so far -/
  nextH : Nat := 0

/-- the object of a model state: `best` and `bestTrials[0]` refer to the item with id `s.best` -/
def MObj.ofState (s : State α) : MObj α := { s := s, best := some (.inRec s.best), solBest := some (.inRec s.best) }

/-- … together with one free-standing object (handle `0`), e.g. the `new` of `CalculateIterationPoint` -/
def MObj.withNew (s : State α) (it : Item α) : MObj α := { MObj.ofState s with free := [(0, it)], nextH := 1 }

/-- forward a handle to the record if its object has been inserted -/
def MObj.norm (g : MObj α) : Ref → Ref
  | .inRec id => .inRec id
  | .obj h =>
    match g.ins.lookup h with
    | some id => .inRec id
    | Option.none => .obj h

/-- the current content of an object -/
def MObj.deref (g : MObj α) (r : Ref) : Option (Item α) :=
  match g.norm r with
  | .inRec id => findItem g.s.items id
  | .obj h => g.free.lookup h

/-- replace the (first) item of the list that has the id of `it'` -/
def setRec (it' : Item α) : List (Item α) → List (Item α)
  | [] => []
  | it :: t => if it.id == it'.id then it' :: t else it :: setRec it' t

/-- write the content of an object (`it'` is the old content with some fields changed, same id) -/
def MObj.update (g : MObj α) (r : Ref) (it' : Item α) : MObj α :=
  match g.norm r with
  | .inRec _ => { g with s := { g.s with items := setRec it' g.s.items } }
  | .obj h => { g with free := (h, it') :: g.free }

/-- `r.GetLeft()`: the left neighbour in the record (`None` for a free-standing object and for the first item) -/
def MObj.leftOfRef (g : MObj α) (r : Ref) : Option (Item α) :=
  match g.norm r with
  | .inRec id => leftOf g.s.items id
  | .obj _ => Option.none

/-- the content behind a value that denotes an item -/
def MObj.itemOf (g : MObj α) : Val α → Option (Item α)
  | .item r => g.deref r
  | .itemVal it => some it
  | _ => Option.none

/-- the model id a reference stands for; a free-standing object is counted as having the id it gets if inserted next -/
def MObj.idOf (g : MObj α) (r : Ref) : Option Nat :=
  match g.norm r with
  | .inRec id => some id
  | .obj h => if (g.free.lookup h).isSome then some g.s.nextId else Option.none

/-- the model state an object stands for (`none`: `self.best is None`, or a dangling reference) -/
def MObj.toState (g : MObj α) : Option (State α) :=
  match g.best with
  | Option.none => Option.none
  | some r => (g.idOf r).map fun b => { g.s with best := b }

/-- what `SearchDataItem(y, x)` constructs: index `-2`, `z = float_info.max`, value holder `0.0`, `delta = globalR = -1.0`;
the id is a placeholder until insertion -/
def newItem (y : List α) (x : α) : Item α :=
  { id := 0, x := x, point := y, z := Fns.big, hv := 0, ev := false, delta := -1, R := some (-1) }

def MObj.alloc (g : MObj α) (it : Item α) : MObj α × Ref :=
  ({ g with free := (g.nextH, it) :: g.free, nextH := g.nextH + 1 }, .obj g.nextH)

/-- insert `new` immediately before the (first) item with id `rid` -/
def insertAt (new : Item α) (rid : Nat) : List (Item α) → List (Item α)
  | [] => []
  | it :: t => if it.id == rid then new :: it :: t else it :: insertAt new rid t

/-- interpreter state: the object and the Python locals of one activation (newest binding first) -/
structure IState (α : Type) where
  g : MObj α
  l : List (String × Val α)

/-- the parameters and the objective oracle (point ↦ value, or `none`: the objective raises) -/
structure Ctx (α : Type) where
  p : Params α
  f : List α → Option α

/-! ### expressions -/

/-- the reading of an expression string -/
inductive Expr where
  | var (n : String)
  /-- `0.5`, `0.0`, `1.0` -/
  | half | zero | one
  | nat (n : Nat)
  | none | true | false | nil
  /-- `e.GetX()`, `e.delta`, `e.functionValues[0].value`, `e.GetLeft()` -/
  | getX (e : Expr) | getDelta (e : Expr) | getHv (e : Expr) | getLeft (e : Expr)
  /-- `self.evolvent.GetImage(e)` -/
  | image (e : Expr)
  /-- `Point(e, d)` -/
  | mkPoint (e d : Expr)
  /-- `SearchDataItem(y, x)` -/
  | mkItem (y x : Expr)
  /-- `self.min_delta`, `self.dimension`, `self.best`, `self.stop` -/
  | minDelta | dimension | best | stop
  /-- `self.iterationsCount + 1`, `self.searchData.solution.numberOfGlobalTrials + 1` -/
  | itersPlus1 | trialsPlus1
  | pair (a b : Expr)
deriving Repr

/-- every expression string that is understood (arguments, right-hand sides, `return` values) -/
def exprTable : List (String × Expr) := [
  ("x", .var "x"), ("y", .var "y"), ("left", .var "left"), ("middle", .var "middle"), ("right", .var "right"),
  ("item", .var "item"), ("old", .var "old"), ("new", .var "new"), ("newx", .var "newx"), ("newy", .var "newy"),
  ("point", .var "point"), ("newpoint", .var "newpoint"), ("oldpoint", .var "oldpoint"),
  ("None", .none), ("True", .true), ("False", .false), ("", .none),
  ("0.5", .half), ("0.0", .zero), ("1.0", .one), ("0", .nat 0), ("1", .nat 1),
  ("self.evolvent.GetImage(x)", .image (.var "x")),
  ("Point(self.evolvent.GetImage(0.0), None)", .mkPoint (.image .zero) .none),
  ("Point(self.evolvent.GetImage(1.0), None)", .mkPoint (.image .one) .none),
  ("left.GetX()", .getX (.var "left")), ("middle.GetX()", .getX (.var "middle")), ("right.GetX()", .getX (.var "right")),
  ("newpoint.GetX()", .getX (.var "newpoint")), ("oldpoint.GetX()", .getX (.var "oldpoint")),
  ("oldpoint.GetLeft().GetX()", .getX (.getLeft (.var "oldpoint"))),
  ("item.GetLeft()", .getLeft (.var "item")), ("oldpoint.GetLeft()", .getLeft (.var "oldpoint")),
  ("self.dimension", .dimension), ("old.delta", .getDelta (.var "old")), ("self.min_delta", .minDelta),
  ("SearchDataItem(Point(newy, []), newx)", .mkItem (.mkPoint (.var "newy") .nil) (.var "newx")),
  ("(new, old)", .pair (.var "new") (.var "old")),
  ("point.functionValues[0].value", .getHv (.var "point")),
  ("self.searchData.solution.numberOfGlobalTrials + 1", .trialsPlus1),
  ("self.iterationsCount + 1", .itersPlus1),
  ("self.best", .best), ("self.stop", .stop)]

def evalExpr (c : Ctx α) (st : IState α) : Expr → Option (Val α)
  | .var n => st.l.lookup n
  | .half => some (.num half)
  | .zero => some (.num 0)
  | .one => some (.num 1)
  | .nat n => some (.nat n)
  | .none => some .none
  | .true => some (.bool true)
  | .false => some (.bool false)
  | .nil => some .nil
  | .getX e =>
    match evalExpr c st e with
    | some v => (st.g.itemOf v).map fun it => .num it.x
    | Option.none => Option.none
  | .getDelta e =>
    match evalExpr c st e with
    | some v => (st.g.itemOf v).map fun it => .num it.delta
    | Option.none => Option.none
  | .getHv e =>
    match evalExpr c st e with
    | some v => (st.g.itemOf v).map fun it => .num it.hv
    | Option.none => Option.none
  | .getLeft e =>
    match evalExpr c st e with
    | some (.item r) =>
      if (st.g.deref r).isSome then
        some (match st.g.leftOfRef r with
              | some l => .itemVal l
              | Option.none => .none)
      else Option.none
    | _ => Option.none
  | .image e =>
    match evalExpr c st e with
    | some v => v.toNum.map fun x => .point (c.p.image x)
    | Option.none => Option.none
  | .mkPoint e d =>
    match evalExpr c st e, evalExpr c st d with
    | some (.point y), some .none => some (.point y)
    | some (.point y), some .nil => some (.point y)
    | _, _ => Option.none
  | .mkItem y x =>
    match evalExpr c st y, evalExpr c st x with
    | some (.point yv), some xv => xv.toNum.map fun xx => .tmpItem yv xx
    | _, _ => Option.none
  | .minDelta =>
    some (match st.g.s.minDelta with
          | some d => .num d
          | Option.none => .inf)
  | .dimension => some (.nat c.p.n)
  | .best =>
    some (match st.g.best with
          | some r => .item r
          | Option.none => .none)
  | .stop => some (.bool st.g.stop)
  | .itersPlus1 => some (.nat (st.g.s.iters + 1))
  | .trialsPlus1 => some (.nat (st.g.s.nTrials + 1))
  | .pair a b =>
    match evalExpr c st a, evalExpr c st b with
    | some va, some vb => some (.pair va vb)
    | _, _ => Option.none

/-- an expression string: looked up, then evaluated -/
def evalStr (c : Ctx α) (st : IState α) (e : String) : Option (Val α) :=
  match exprTable.lookup e with
  | some ex => evalExpr c st ex
  | Option.none => Option.none

def evalArgs (c : Ctx α) (st : IState α) : List String → Option (List (Val α))
  | [] => some []
  | e :: es =>
    match evalStr c st e, evalArgs c st es with
    | some v, some vs => some (v :: vs)
    | _, _ => Option.none

/-! ### assignment targets -/

inductive LVal where
  | var (n : String)
  /-- `n.delta` for a local `n` holding an item -/
  | delta (n : String)
  | iters | nTrials | minDelta | recalc | best | solBest | stop
  /-- `self.Z[n.GetIndex()]` for a local `n` holding an item -/
  | zAt (n : String)
deriving Repr

def lvalTable : List (String × LVal) := [
  ("x", .var "x"), ("y", .var "y"), ("left", .var "left"), ("middle", .var "middle"), ("right", .var "right"),
  ("old", .var "old"), ("new", .var "new"), ("newx", .var "newx"), ("newy", .var "newy"), ("point", .var "point"),
  ("left.delta", .delta "left"), ("middle.delta", .delta "middle"), ("right.delta", .delta "right"),
  ("oldpoint.delta", .delta "oldpoint"), ("newpoint.delta", .delta "newpoint"),
  ("self.iterationsCount", .iters), ("self.searchData.solution.numberOfGlobalTrials", .nTrials),
  ("self.min_delta", .minDelta), ("self.recalc", .recalc), ("self.best", .best),
  ("self.searchData.solution.bestTrials[0]", .solBest), ("self.stop", .stop),
  ("self.Z[point.GetIndex()]", .zAt "point")]

def IState.setS (st : IState α) (s : State α) : IState α := { st with g := { st.g with s := s } }

def store (st : IState α) : LVal → Val α → Option (IState α)
  | .var n, v => if v.storable then some { st with l := (n, v) :: st.l } else Option.none
  | .delta n, v =>
    match st.l.lookup n, v.toNum with
    | some (.item r), some x =>
      match st.g.deref r with
      | some it => some { st with g := st.g.update r { it with delta := x } }
      | Option.none => Option.none
    | _, _ => Option.none
  | .iters, .nat n => some (st.setS { st.g.s with iters := n })
  | .nTrials, .nat n => some (st.setS { st.g.s with nTrials := n })
  | .minDelta, v =>
    match v.toOptNum with
    | some d => some (st.setS { st.g.s with minDelta := d })
    | Option.none => Option.none
  | .recalc, .bool b => some (st.setS { st.g.s with recalc := b })
  | .best, .item r => some { st with g := { st.g with best := some r } }
  | .best, .none => some { st with g := { st.g with best := Option.none } }
  | .solBest, .item r => some { st with g := { st.g with solBest := some r } }
  | .solBest, .none => some { st with g := { st.g with solBest := Option.none } }
  | .stop, .bool b => some { st with g := { st.g with stop := b } }
  | .zAt n, .num z =>
    match st.l.lookup n with
    | some (.item r) =>
      match st.g.deref r with
      | some it => if it.ev then some (st.setS { st.g.s with Z := z }) else Option.none   -- `Z` has the single index `0`
      | Option.none => Option.none
    | _ => Option.none
  | _, _ => Option.none

/-! ### primitives -/

inductive Prim where
  | mkPoint | mkItem | deepcopy | calcDelta | calcGlobalR | calcM | insertFirst | insert | popMax | clearQueue | refillQueue
  | min | nextPoint | getImage | taskCalculate | setZ | setIndex | getZ
deriving Repr, DecidableEq

/-- the callees interpreted by an operation of the model; for a method call on a local, the receiver expression (it becomes
the first argument) -/
def primTable : List (String × (Prim × Option String)) := [
  ("Point", (.mkPoint, Option.none)),
  ("SearchDataItem", (.mkItem, Option.none)),
  ("copy.deepcopy", (.deepcopy, Option.none)),
  ("Method.CalculateDelta", (.calcDelta, Option.none)),
  ("self.CalculateGlobalR", (.calcGlobalR, Option.none)),
  ("self.CalculateM", (.calcM, Option.none)),
  ("self.searchData.InsertFirstDataItem", (.insertFirst, Option.none)),
  ("self.searchData.InsertDataItem", (.insert, Option.none)),
  ("self.searchData.GetDataItemWithMaxGlobalR", (.popMax, Option.none)),
  ("self.searchData.ClearQueue", (.clearQueue, Option.none)),
  ("self.searchData.RefillQueue", (.refillQueue, Option.none)),
  ("min", (.min, Option.none)),
  ("self.CalculateNextPointCoordinate", (.nextPoint, Option.none)),
  ("self.evolvent.GetImage", (.getImage, Option.none)),
  ("self.task.Calculate", (.taskCalculate, Option.none)),
  ("point.SetZ", (.setZ, some "point")),
  ("point.SetIndex", (.setIndex, some "point")),
  ("point.GetZ", (.getZ, some "point"))]

/-- outcome of a primitive -/
inductive PRes (α : Type) where
  | ok (g : MObj α) (v : Val α)
  | raised (g : MObj α) (e : Raise)
  | stuck

/-- `inLoop`: inside `for … in self.searchData` (the record must not change shape there) -/
def execPrim (c : Ctx α) (inLoop : Bool) : Prim → List (Val α) → MObj α → PRes α
  | .mkPoint, [.point y, .none], g => .ok g (.point y)
  | .mkPoint, [.point y, .nil], g => .ok g (.point y)
  | .mkItem, [.point y, xv], g =>
    match xv.toNum with
    | some x => let (g', r) := g.alloc (newItem y x); .ok g' (.item r)
    | Option.none => .stuck
  | .deepcopy, [.tmpItem y x], g => let (g', r) := g.alloc (newItem y x); .ok g' (.item r)
  | .calcDelta, [a, b, .nat n], g =>
    match a.toNum, b.toNum with
    | some lx, some rx => .ok g (.num (calcDelta n lx rx))
    | _, _ => .stuck
  | .calcGlobalR, [.item r, lv], g =>
    match g.deref r with
    | Option.none => .stuck
    | some cur =>
      match lv with
      | .none => .ok (g.update r { cur with R := Option.none }) .none
      | _ =>
        match g.itemOf lv with
        | some l => .ok (g.update r { cur with R := some (calcR c.p.r g.s.M g.s.Z l cur) }) .none
        | Option.none => .stuck
  | .calcM, [cv, lv], g =>
    match g.itemOf cv with
    | Option.none => .stuck
    | some cur =>
      match lv with
      | .none => .ok g .none
      | _ =>
        match g.itemOf lv with
        | some l =>
          let mr := calcM g.s.M g.s.recalc l cur
          .ok { g with s := { g.s with M := mr.1, recalc := mr.2 } } .none
        | Option.none => .stuck
  | .insertFirst, [.item (.obj hl), .item (.obj hr)], g =>
    match g.ins.lookup hl, g.ins.lookup hr, g.free.lookup hl, g.free.lookup hr with
    | Option.none, Option.none, some l, some r =>
      if inLoop = false ∧ hl ≠ hr ∧ g.s.items.isEmpty = true then
        let n := g.s.nextId
        .ok { g with s := { g.s with items := [{ l with id := n }, { r with id := n + 1 }], nextId := n + 2 },
                     ins := (hr, n + 1) :: (hl, n) :: g.ins } .none
      else .stuck
    | _, _, _, _ => .stuck
  | .insert, [.item (.obj h), .item rr], g =>
    match g.ins.lookup h, g.free.lookup h, g.norm rr with
    | Option.none, some nit, .inRec rid =>
      match findItem g.s.items rid with
      | some rit =>
        if inLoop = false then
          let n := g.s.nextId
          .ok { g with s := { g.s with items := insertAt { nit with id := n } rid g.s.items,
                                       queue := qinsert (qinsert g.s.queue nit.R n) rit.R rid,
                                       nextId := n + 1 },
                       ins := (h, n) :: g.ins } .none
        else .stuck
      | Option.none => .stuck
    | _, _, _ => .stuck
  | .popMax, [], g =>
    let s := g.s
    let s := if s.queue.isEmpty then { s with queue := refillQueue s.items } else s
    match s.queue with
    | [] => .raised { g with s := s } .emptyQueue
    | (_, oid) :: q =>
      let s := { s with queue := q }
      match findItem s.items oid with
      | Option.none => .raised { g with s := s } .emptyQueue
      | some _ => .ok { g with s := s } (.item (.inRec oid))
  | .clearQueue, [], g => .ok { g with s := { g.s with queue := [] } } .none
  | .refillQueue, [], g => .ok { g with s := { g.s with queue := refillQueue g.s.items } } .none
  | .min, [a, b], g =>
    match a.toNum, b.toOptNum with
    | some x, some ob => .ok g (.num (minOpt x ob))
    | _, _ => .stuck
  | .nextPoint, [.item r], g =>
    match g.deref r with
    | Option.none => .stuck
    | some old =>
      match g.leftOfRef r with
      | Option.none => .raised g .leftIsNone
      | some left =>
        let x := nextX c.p g.s.M left old
        if x ≤ left.x ∨ old.x ≤ x then .raised g .outsideInterval else .ok g (.num x)
  | .getImage, [v], g =>
    match v.toNum with
    | some x => .ok g (.point (c.p.image x))
    | Option.none => .stuck
  | .taskCalculate, [.item r, .nat 0], g =>
    match g.deref r with
    | Option.none => .stuck
    | some it =>
      match c.f it.point with
      | Option.none => .raised g .objective
      | some z => .ok (g.update r { it with hv := z }) (.item r)
  | .setZ, [.item r, v], g =>
    match g.deref r, v.toNum with
    | some it, some z => .ok (g.update r { it with z := z }) .none
    | _, _ => .stuck
  | .setIndex, [.item r, .nat 0], g =>
    match g.deref r with
    | some it => .ok (g.update r { it with ev := true }) .none
    | Option.none => .stuck
  | .getZ, [.item r], g =>
    match g.deref r with
    | some it => .ok g (.num it.z)
    | Option.none => .stuck
  | _, _, _ => .stuck

/-! ### conditions -/

inductive Cond where
  | recalcTrue | recalcNotTrue
  /-- `self.best is None or self.best.GetIndex() < n.GetIndex()` for a local `n` -/
  | bestNoneOrLower (n : String)
  /-- `self.best.GetIndex() == n.GetIndex() and n.GetZ() < self.best.GetZ()` -/
  | sameIndexAndBetter (n : String)
  | stopTest
deriving Repr

def condTable : List (String × Cond) := [
  ("self.recalc is True", .recalcTrue),
  ("self.recalc is not True", .recalcNotTrue),
  ("self.best is None or self.best.GetIndex() < point.GetIndex()", .bestNoneOrLower "point"),
  ("self.best.GetIndex() == point.GetIndex() and point.GetZ() < self.best.GetZ()", .sameIndexAndBetter "point"),
  ("self.min_delta < self.parameters.eps or self.iterationsCount >= self.parameters.itersLimit", .stopTest)]

/-- `GetIndex()`: `0` for an evaluated item, `-2` otherwise; so `a.GetIndex() < b.GetIndex()` is `!a.ev && b.ev` -/
def evalCond (c : Ctx α) (st : IState α) : Cond → Option Bool
  | .recalcTrue => some st.g.s.recalc
  | .recalcNotTrue => some (!st.g.s.recalc)
  | .bestNoneOrLower n =>
    match st.g.best with
    | Option.none => some true
    | some rb =>
      match st.g.deref rb, st.l.lookup n with
      | some b, some (.item r) =>
        match st.g.deref r with
        | some pt => some (!b.ev && pt.ev)
        | Option.none => Option.none
      | _, _ => Option.none
  | .sameIndexAndBetter n =>
    match st.g.best, st.l.lookup n with
    | some rb, some (.item r) =>
      match st.g.deref rb, st.g.deref r with
      | some b, some pt => some (b.ev == pt.ev && decide (pt.z < b.z))
      | _, _ => Option.none
    | _, _ => Option.none
  | .stopTest => some (stopCond c.p st.g.s)

/-! ### control -/

/-- outcome of a statement (list) -/
inductive Out (α : Type) where
  | normal (st : IState α)
  | returned (st : IState α) (v : Val α)
  | raised (st : IState α) (e : Raise)
  | stuck

/-- outcome of a whole function -/
inductive POut (α : Type) where
  | done (g : MObj α) (v : Val α)
  | raised (g : MObj α) (e : Raise)
  | stuck

/-- the functions of `method.py` interpreted through their own generated tree: callee ↦ (parameters, body) -/
def procTable : List (String × (List String × List Stmt)) := [
  ("self.RecalcAllCharacteristics", (Gen.MethodCtl.recalcAllCharacteristicsParams, Gen.MethodCtl.recalcAllCharacteristics)),
  ("self.CalculateFunctionals", (Gen.MethodCtl.calculateFunctionalsParams, Gen.MethodCtl.calculateFunctionals)),
  ("self.UpdateOptimum", (Gen.MethodCtl.updateOptimumParams, Gen.MethodCtl.updateOptimum))]

/-- what a call of a function of `procTable` does: (argument values, object) ↦ outcome -/
abbrev ProcEnv (α : Type) := String → Option (List (Val α) → MObj α → POut α)

/-- bind the value of a call to its targets: none (value dropped) or one -/
def storeTargets (st : IState α) (v : Val α) : List String → Out α
  | [] => .normal st
  | [t] =>
    match lvalTable.lookup t with
    | some lv =>
      match store st lv v with
      | some st' => .normal st'
      | Option.none => .stuck
    | Option.none => .stuck
  | _ => .stuck

/-- `for v in self.searchData: body` over the ids of the record in traversal order -/
def loopIds (v : String) (b : IState α → Out α) : List Nat → IState α → Out α
  | [], st => .normal st
  | id :: ids, st =>
    match b { st with l := (v, .item (.inRec id)) :: st.l } with
    | .normal st' => loopIds v b ids st'
    | o => o

mutual
def execStmt (c : Ctx α) (env : ProcEnv α) (inLoop : Bool) : Stmt → IState α → Out α
  | .call ts callee args, st =>
    match primTable.lookup callee with
    | some (pr, recv) =>
      match evalArgs c st (recv.toList ++ args) with
      | Option.none => .stuck
      | some vs =>
        match execPrim c inLoop pr vs st.g with
        | .ok g v => storeTargets { st with g := g } v ts
        | .raised g e => .raised { st with g := g } e
        | .stuck => .stuck
    | Option.none =>
      match env callee with
      | Option.none => .stuck
      | some h =>
        if inLoop then .stuck else
        match evalArgs c st args with
        | Option.none => .stuck
        | some vs =>
          match h vs st.g with
          | .done g v => storeTargets { st with g := g } v ts
          | .raised g e => .raised { st with g := g } e
          | .stuck => .stuck
  | .assign t v, st =>
    match lvalTable.lookup t, evalStr c st v with
    | some lv, some x =>
      match store st lv x with
      | some st' => .normal st'
      | Option.none => .stuck
    | _, _ => .stuck
  | .forEach v coll body, st =>
    if coll = "self.searchData" ∧ inLoop = false then
      loopIds v (fun s => execList c env true body s) (st.g.s.items.map (·.id)) st
    else .stuck
  | .ite cond thn els, st =>
    match condTable.lookup cond with
    | some cd =>
      match evalCond c st cd with
      | some true => execList c env inLoop thn st
      | some false => execList c env inLoop els st
      | Option.none => .stuck
    | Option.none => .stuck
  | .ret v, st =>
    match evalStr c st v with
    | some x => .returned st x
    | Option.none => .stuck
  | .forRange _ _ _, _ => .stuck
  | .while _ _, _ => .stuck
  | .tryExcept _ _ _, _ => .stuck
  | .other _, _ => .stuck

/-- a statement list: stops at the first outcome that is not `normal` -/
def execList (c : Ctx α) (env : ProcEnv α) (inLoop : Bool) : List Stmt → IState α → Out α
  | [], st => .normal st
  | s :: rest, st =>
    match execStmt c env inLoop s st with
    | .normal st' => execList c env inLoop rest st'
    | o => o
end

/-- a function body run on the given locals; falling off the end returns `None` -/
def runBody (c : Ctx α) (env : ProcEnv α) (body : List Stmt) (locals : List (String × Val α)) (g : MObj α) : POut α :=
  match execList c env false body { g := g, l := locals } with
  | .normal st => .done st.g .none
  | .returned st v => .done st.g v
  | .raised st e => .raised st.g e
  | .stuck => .stuck

/-- bind the argument values to the parameters after `self`, in order -/
def bindArgs : List String → List (Val α) → Option (List (String × Val α))
  | [], [] => some []
  | x :: xs, v :: vs =>
    match bindArgs xs vs with
    | some rest => if v.storable then some ((x, v) :: rest) else Option.none
    | Option.none => Option.none
  | _, _ => Option.none

/-- the functions callable at call depth `d` -/
def envN (c : Ctx α) : Nat → ProcEnv α
  | 0 => fun _ => Option.none
  | d+1 => fun name =>
    match procTable.lookup name with
    | Option.none => Option.none
    | some (params, body) =>
      some fun vs g =>
        match params with
        | "self" :: ps =>
          match bindArgs ps vs with
          | some locals => runBody c (envN c d) body locals g
          | Option.none => .stuck
        | _ => .stuck

/-- run a function body at call depth `depth` with the parameters (after `self`) bound to `args` -/
def run (c : Ctx α) (depth : Nat) (body : List Stmt) (locals : List (String × Val α)) (g : MObj α) : POut α :=
  runBody c (envN c depth) body locals g

end MethodInterp
end
