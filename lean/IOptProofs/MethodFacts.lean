import IOptProofs.MethodRun
/-!
# Readable consequences of the invariant used by the property files
-/
set_option linter.unusedSectionVars false

namespace AGP
variable {α : Type} [Field α] [LinearOrder α] [IsStrictOrderedRing α] [Fns α]
variable {p : Params α} {s : State α}

theorem shape_aux (h : InvItems p s) {f l : Item α} {mid : List (Item α)} (hl : s.items = f :: (mid ++ [l]))
    (hf : f.x = 0) (hfev : f.ev = false) :
    ∃ left mid right, s.items = left :: mid ++ [right] ∧ left.x = 0 ∧ right.x = 1 ∧
      left.ev = false ∧ right.ev = false ∧ mid ≠ [] ∧ ∀ m ∈ mid, m.ev = true := by
  have hpw := h.pairwise
  have hlast : (f :: (mid ++ [l])).getLast? = some l := by
    rw [← List.cons_append, List.getLast?_append]; simp
  have hl1 : l.x = 1 := h.last1 l (by rw [hl]; exact hlast)
  have hlev : l.ev = false := by
    have := (h.ev_iff l (by simp [hl])).not
    rw [Bool.not_eq_true] at this
    exact this.2 (by rw [hl1]; simp)
  rw [hl] at hpw
  have hmid : ∀ m ∈ mid, m.ev = true := by
    intro m hm
    have hmi : m ∈ s.items := by rw [hl]; simp [hm]
    refine (h.ev_iff m hmi).2 ⟨?_, ?_⟩
    · have := (List.pairwise_cons.1 hpw).1 m (by simp [hm])
      rw [hf] at this; exact this
    · have := (List.pairwise_append.1 (List.pairwise_cons.1 hpw).2).2.2 m hm l (by simp)
      rw [hl1] at this; exact this
  refine ⟨f, mid, l, by rw [hl]; simp, hf, hl1, hfev, hlev, ?_, hmid⟩
  rintro rfl
  obtain ⟨bi, hbi, _, hbe, _⟩ := h.best
  rw [hl] at hbi
  simp at hbi
  rcases hbi with rfl | rfl
  · rw [hfev] at hbe; exact absurd hbe Bool.false_ne_true
  · rw [hlev] at hbe; exact absurd hbe Bool.false_ne_true

/-- The search information is `left :: mid ++ [right]` with unevaluated ends at 0 and 1 and every
other item evaluated. -/
theorem InvItems.shape (h : InvItems p s) :
    ∃ left mid right, s.items = left :: mid ++ [right] ∧ left.x = 0 ∧ right.x = 1 ∧
      left.ev = false ∧ right.ev = false ∧ mid ≠ [] ∧ ∀ m ∈ mid, m.ev = true := by
  have hne := h.items_ne_nil
  have hpw := h.pairwise
  cases hl : s.items with
  | nil => exact absurd hl hne
  | cons f t =>
    have hf : f.x = 0 := h.head0 f (by simp [hl])
    have hfev : f.ev = false := by
      have := (h.ev_iff f (by simp [hl])).not
      rw [Bool.not_eq_true] at this
      exact this.2 (by rw [hf]; simp)
    rcases List.eq_nil_or_concat t with rfl | ⟨mid, l, ht⟩
    rotate_left
    · rw [List.concat_eq_append] at ht; subst ht
      rw [← hl]; exact shape_aux h hl hf hfev
    · -- single item: impossible, it would have x = 0 = 1
      have := h.last1 f (by simp [hl])
      rw [hf] at this; exact absurd this zero_ne_one

theorem mem_evalsOf {l : List (Item α)} {e : List α × α} :
    e ∈ evalsOf l ↔ ∃ it ∈ l, it.ev = true ∧ e = (it.point, it.z) := by
  unfold evalsOf
  rw [List.mem_filterMap]
  constructor
  · rintro ⟨it, hit, h⟩
    by_cases hev : it.ev = true
    · rw [if_pos hev] at h; exact ⟨it, hit, hev, (Option.some.inj h).symm⟩
    · rw [if_neg hev] at h; exact absurd h (by simp)
  · rintro ⟨it, hit, hev, rfl⟩
    exact ⟨it, hit, by rw [if_pos hev]⟩

/-- every point of `[0,1]` lies in the closed interval between two neighbouring items -/
theorem InvItems.cover (h : InvItems p s) {x : α} (h0 : 0 ≤ x) (h1 : x ≤ 1) :
    ∃ a b, Neighbours s.items a b ∧ a.x ≤ x ∧ x ≤ b.x := by
  obtain ⟨f, mid, l, e, hf, hl, _⟩ := h.shape
  have key : ∀ (t : List (Item α)) (f : Item α), t ≠ [] → f.x ≤ x → (∀ l ∈ (f :: t).getLast?, x ≤ l.x) →
      ∃ a b, Neighbours (f :: t) a b ∧ a.x ≤ x ∧ x ≤ b.x := by
    intro t
    induction t with
    | nil => intro f hne; exact absurd rfl hne
    | cons g t ih =>
      intro f _ hfx hlast
      by_cases hg : x ≤ g.x
      · exact ⟨f, g, ⟨[], t, rfl⟩, hfx, hg⟩
      · have hgx : g.x ≤ x := (not_le.1 hg).le
        cases t with
        | nil => exact absurd (hlast g (by simp)) hg
        | cons g' t' =>
          obtain ⟨a, b, ⟨l₁, l₂, e'⟩, ha, hb⟩ := ih g (List.cons_ne_nil _ _) hgx (by
            intro l hl; exact hlast l (by rw [List.getLast?_cons_cons]; exact hl))
          exact ⟨a, b, ⟨f :: l₁, l₂, by rw [e']; rfl⟩, ha, hb⟩
  rw [e]
  refine key (mid ++ [l]) f (by simp) (by rw [hf]; exact h0) ?_
  intro l' hl'
  have : (f :: (mid ++ [l])).getLast? = some l := by
    rw [← List.cons_append, List.getLast?_append]; simp
  rw [this] at hl'
  cases hl'
  rw [hl]; exact h1

/-- Runs of every length exist, for every sequence of objective values (the iteration never gets
stuck): non-vacuity of `Reach`. -/
theorem exists_reach (hL : FnsLaws α) (hr : 1 < p.r) (hn : 0 < p.n) (zs : Nat → α) (k : Nat) :
    ∃ s log, Reach p s log ∧ log.map (·.2) = (List.range (k + 1)).map zs := by
  induction k with
  | zero => exact ⟨_, _, Reach.first p (zs 0), by simp⟩
  | succ k ih =>
    obtain ⟨s, log, hre, hlog⟩ := ih
    obtain ⟨pr, hp, _⟩ := prepare_spec hL hr hn (hre.inv hL hr hn)
    refine ⟨_, _, hre.step (zs (k + 1)) hp, ?_⟩
    rw [List.map_append, hlog, List.range_succ (n := k + 1), List.map_append]
    simp

/-- Runs of every length driven by an objective `f` exist: every logged value is `f` of the logged
point. -/
theorem exists_reach_obj (hL : FnsLaws α) (hr : 1 < p.r) (hn : 0 < p.n) (f : List α → α) (k : Nat) :
    ∃ s log, Reach p s log ∧ log.length = k + 1 ∧ ∀ e ∈ log, e.2 = f e.1 := by
  induction k with
  | zero => exact ⟨_, _, Reach.first p (f (firstPoint p)), by simp, by simp⟩
  | succ k ih =>
    obtain ⟨s, log, hre, hlen, hlog⟩ := ih
    obtain ⟨pr, hp, _⟩ := prepare_spec hL hr hn (hre.inv hL hr hn)
    refine ⟨_, _, hre.step (f pr.point) hp, by simp [hlen], ?_⟩
    intro e he
    rcases List.mem_append.1 he with he | he
    · exact hlog e he
    · simp at he; subst he; rfl

/-- neighbours are preserved (up to the stored characteristics) between lists that agree up to the
stored characteristics -/
theorem neighbours_transfer {l l' : List (Item α)} (h : l'.map eraseR = l.map eraseR) {a b : Item α}
    (hab : Neighbours l a b) : ∃ a' b', Neighbours l' a' b' ∧ eraseR a' = eraseR a ∧ eraseR b' = eraseR b := by
  obtain ⟨l₁, l₂, rfl⟩ := hab
  rw [List.map_append, List.map_cons, List.map_cons] at h
  obtain ⟨l₁', r', rfl, h1, h2⟩ := List.map_eq_append_iff.1 h
  obtain ⟨a', r'', rfl, ha, h3⟩ := List.map_eq_cons_iff.1 h2
  obtain ⟨b', l₂', rfl, hb, h4⟩ := List.map_eq_cons_iff.1 h3
  exact ⟨a', b', ⟨l₁', l₂', rfl⟩, ha, hb⟩

/-- The invariant, clause by clause, in readable form:
1. shape, order and ids of the item list; 2. stored lengths; 3. `M`; 4. `Z` and `best`;
5. characteristics and queue when no recalculation is pending; 6. counters and value holders. -/
theorem Inv.readable (hL : FnsLaws α) (hn : 0 < p.n) (h : Inv p s) :
    -- 1
    ((∃ left mid right, s.items = left :: mid ++ [right] ∧ left.x = 0 ∧ right.x = 1 ∧
        left.ev = false ∧ right.ev = false ∧ mid ≠ [] ∧ (∀ m ∈ mid, m.ev = true)) ∧
      s.items.Pairwise (fun a b => a.x < b.x) ∧ (s.items.map (·.id)).Nodup ∧
      (∀ it ∈ s.items, it.id < s.nextId) ∧ s.nextId = s.items.length) ∧
    -- 2
    (∀ a b, Neighbours s.items a b →
      b.delta = Fns.root (b.x - a.x) p.n ∧ 0 < b.delta ∧ b.delta ^ p.n = b.x - a.x) ∧
    -- 3
    (1 ≤ s.M ∧ ∀ a b, Neighbours s.items a b → a.ev = true → b.ev = true →
      |b.z - a.z| ≤ s.M * b.delta) ∧
    -- 4
    ((∀ it ∈ s.items, it.ev = true → s.Z ≤ it.z) ∧
      ∃ it, findItem s.items s.best = some it ∧ it.ev = true ∧ it.z = s.Z) ∧
    -- 5
    (s.recalc = false →
      (∀ f ∈ s.items.head?, f.R = none) ∧
      (∀ a b, Neighbours s.items a b → b.R = some (calcR p.r s.M s.Z a b)) ∧
      s.queue.Pairwise (fun e e' => keyLe e'.1 e.1 = true) ∧
      s.queue.Perm (s.items.map (fun it => (it.R, it.id)))) ∧
    -- 6
    (s.iters = s.nTrials ∧ s.nTrials = (s.items.filter (·.ev)).length ∧
      ∀ it ∈ s.items, it.ev = true → it.hv = it.z) := by
  have hI := h.toInvItems
  refine ⟨⟨hI.shape, hI.pairwise, hI.ids_nodup, hI.ids_lt, hI.nextId_eq⟩, ?_, ⟨hI.M_ge, ?_⟩,
    ⟨hI.Z_le, ?_⟩, ?_, ⟨hI.iters_eq, ?_, hI.hv_eq⟩⟩
  · intro a b hab
    exact ⟨hI.nb_delta hab, hI.nb_delta_pos hL hn hab, hI.nb_delta_pow hL hn hab⟩
  · intro a b hab ha hb
    have := hI.nb_slope hab ha hb
    rwa [div_le_iff₀ (hI.nb_delta_pos hL hn hab)] at this
  · obtain ⟨bi, hbi, hid, hbe, hz⟩ := hI.best
    have := findItem_of_mem hI.ids_nodup hbi
    rw [hid] at this
    exact ⟨bi, this, hbe, hz⟩
  · intro hrc
    have F := hI.fresh hrc
    have Q := h.queue hrc
    exact ⟨F.headR, isChain_iff_neighbours.1 F.chainR, Q.sorted, Q.perm⟩
  · rw [hI.nTrials_eq, List.countP_eq_length_filter]

end AGP
