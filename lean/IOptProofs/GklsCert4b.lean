import IOptProofs.GklsClass
/-!
# Kernel-decided certificates of the regenerated GKLS data sets of dimension 4, function numbers 51..100

`Gkls.Cert 4 k` = well-formedness `WF` + class clauses `ClassOK` + identity (`dim = 4`, `number = k`).
One lemma per block of five function numbers (`decide +kernel`: exact integer arithmetic in the kernel).
-/

namespace Gkls
set_option maxRecDepth 100000

theorem cert4_10 : ∀ k ∈ List.range' 51 5, Cert 4 k = true := by decide +kernel
theorem cert4_11 : ∀ k ∈ List.range' 56 5, Cert 4 k = true := by decide +kernel
theorem cert4_12 : ∀ k ∈ List.range' 61 5, Cert 4 k = true := by decide +kernel
theorem cert4_13 : ∀ k ∈ List.range' 66 5, Cert 4 k = true := by decide +kernel
theorem cert4_14 : ∀ k ∈ List.range' 71 5, Cert 4 k = true := by decide +kernel
theorem cert4_15 : ∀ k ∈ List.range' 76 5, Cert 4 k = true := by decide +kernel
theorem cert4_16 : ∀ k ∈ List.range' 81 5, Cert 4 k = true := by decide +kernel
theorem cert4_17 : ∀ k ∈ List.range' 86 5, Cert 4 k = true := by decide +kernel
theorem cert4_18 : ∀ k ∈ List.range' 91 5, Cert 4 k = true := by decide +kernel
theorem cert4_19 : ∀ k ∈ List.range' 96 5, Cert 4 k = true := by decide +kernel

end Gkls
