import IOptProofs.ComposeRun
import IOptProofs.ProcessField
import IOptProofs.ProcessRefine
import IOptProps.C01
import IOptProps.C03
/-!
# Compositions (worker m), part 4: the last iteration of a `Solve` that stopped by accuracy

For a pure total objective `g`, if `Solve` on a fresh solver ends with `min_delta < eps`, then its last
iteration selected an interval of Hölder length `< eps` in a reachable state `s` (so the certificate
theorems `C01_cert_step*` apply to that step), and the final method state is the result of committing
that trial (up to the local refinement, which changes neither `Z` nor `M`).
-/
set_option linter.unusedSectionVars false

namespace Proc
open AGP AGP.Ctl
variable {α : Type} [Field α] [LinearOrder α] [IsStrictOrderedRing α] [Fns α]
variable {p : Params α}

/-- the objective of the process made from a plain function: never raises, ignores the call index -/
def pureObj (g : List α → α) : Nat → List α → Option α := fun _ pt => some (g pt)

theorem pureObj_ne_none (g : List α → α) : ∀ i pt, pureObj g i pt ≠ none := by
  intro i pt h; cases h

/-- The estimate `M` in force when the LAST interval was selected by `Solve` on a fresh solver: the `M`
of the method state after `numberOfGlobalTrials - 1` passes of the canonical sequence. -/
def mBeforeLast (p : Params α) (f : Nat → List α → Option α) (refine : PState α → Option (LocalResult α)) :
    Option α :=
  (stateAt p f {} ((solve p f refine {}).nTrials - 1)).bind fun ps => ps.m.map (·.M)

/-- every record of a run driven by `pureObj g` is a value of `g` -/
theorem iterN_pureObj_evals {g : List α → α} {k : Nat} {ps' : PState α} {ids : List Nat}
    (h : iterN p (pureObj g) k {} = .ok (ps', ids)) : ∀ e ∈ ps'.evals, e.2 = g e.1 := by
  obtain ⟨-, -, new, hnew, -, hgen⟩ := iterN_ids_evals h
  intro e he
  rw [hnew] at he
  simp only [List.nil_append] at he
  obtain ⟨i, hi, rfl⟩ := List.mem_iff_getElem.1 he
  have := hgen i new[i].1 new[i].2 (by rw [List.getElem?_eq_getElem hi])
  simp only [pureObj, Option.some.injEq] at this
  exact this.symm

theorem minOpt_lt_cases {a eps : α} {o : Option α} (h : minOpt a o < eps) (ho : ∀ b, o = some b → ¬ b < eps) :
    a < eps := by
  cases o with
  | none => exact h
  | some b =>
    simp only [minOpt] at h
    split at h
    · exact absurd h (ho b rfl)
    · exact h

/-- **The last iteration of a `Solve` that stopped by accuracy.** -/
theorem solve_last_step (hL : FnsLaws α) (hr : 1 < p.r) (hn : 0 < p.n) (g : List α → α)
    (refine : PState α → Option (LocalResult α))
    (hacc : ∃ d, (solve p (pureObj g) refine {}).minDelta = some d ∧ d < p.eps) :
    ∃ K psk idsk s pr sf,
      (solve p (pureObj g) refine {}).nTrials = K + 1 ∧
      iterN p (pureObj g) K {} = .ok (psk, idsk) ∧ psk.m = some s ∧ Reach p s psk.evals ∧
      (∀ e ∈ psk.evals, e.2 = g e.1) ∧
      prepare p s = .ok pr ∧ pr.old.delta < p.eps ∧ 0 < p.eps ∧
      Reach p (commit p pr (g pr.point)) (solve p (pureObj g) refine {}).evals ∧
      (solve p (pureObj g) refine {}).m = some sf ∧
      sf.Z = (commit p pr (g pr.point)).Z ∧ sf.M = (commit p pr (g pr.point)).M ∧
      ((∀ ps, refine ps = none) → sf = commit p pr (g pr.point)) ∧
      mBeforeLast p (pureObj g) refine = some s.M := by
  obtain ⟨d, hd, hdlt⟩ := hacc
  have hne := pureObj_ne_none g
  have hnr := solve_fresh_no_raise (p := p) hL hr hn hne
  have hfuel : remaining p ({} : PState α) < p.itersLimit + 1 := Nat.lt_succ_of_le (remaining_le p _)
  obtain ⟨K, psK, ids, hrun, heq, -, hmin⟩ := solveLoop_stop_exact hfuel hnr
  obtain ⟨-, r2, -, -, r5, -, r7, -, -⟩ :=
    refineStep_fields (p := p) refine (solveLoop p (pureObj g) (p.itersLimit + 1) {}).1
  -- the reported quantities of `solve` are those of `psK`
  have hmd : (solve p (pureObj g) refine {}).minDelta = psK.minDelta := by
    rw [solve_eq]; show (refineStep refine _).minDelta = _
    rw [r7, heq]; rfl
  have hnt : (solve p (pureObj g) refine {}).nTrials = K := by
    rw [solve_eq]; show (refineStep refine _).nTrials = _
    rw [r5, heq]; show psK.nTrials = K
    rw [(iterN_counters hrun).2.1]; exact Nat.zero_add K
  have hev : (solve p (pureObj g) refine {}).evals = psK.evals := by
    rw [solve_eq]; show (refineStep refine _).evals = _
    rw [r2, heq]; rfl
  rw [hmd] at hd
  -- K ≥ 1, split off the last pass
  cases K with
  | zero =>
    simp only [iterN, Except.ok.injEq, Prod.mk.injEq] at hrun
    obtain ⟨rfl, -⟩ := hrun
    cases hd
  | succ K =>
    obtain ⟨psk, idsk, id, hk, h1, -⟩ := iterN_succ_ok hrun
    have hok := iterN_procOK (procOK_fresh p) hk
    have hokK := iterN_procOK (procOK_fresh p) hrun
    obtain ⟨-, -, -, hmdK, -⟩ := oneIteration_ok_counters h1
    obtain ⟨-, -, pt, z, hz, -, hcase⟩ := oneIteration_ok h1
    have hzg : z = g pt := by
      simp only [pureObj, Option.some.injEq] at hz; exact hz.symm
    rcases hcase with ⟨hm, -, hm', -, -⟩ | ⟨s, pr, hm, hpr, hpt, hm', -, -⟩
    · -- the last pass was the first iteration: `min_delta` is still `inf`
      exfalso
      simp only [PState.minDelta, hm', (firstIteration_fields p z).2.2.2] at hd
      cases hd
    · have hre : Reach p s psk.evals := by
        unfold ProcOK at hok; rw [hm] at hok; exact hok
      have hs := prepare_spec' hL hr hn (hre.inv hL hr hn) hpr
      -- the selected length is below eps
      have hnd : nextDelta p psk = some pr.old.delta := by simp [nextDelta, hm, hpr]
      rw [hnd] at hmdK
      simp only [stepMin] at hmdK
      rw [hmdK] at hd
      have hdm : d = minOpt pr.old.delta psk.minDelta := (Option.some.inj hd).symm
      have hnotK : ¬ Crit p (pureObj g) {} K := hmin K (Nat.lt_succ_self K)
      have hpskmd : psk.minDelta = foldMin none (deltas p (pureObj g) {} K) := (iterN_counters hk).2.2.2.2.2.2
      have hlt : pr.old.delta < p.eps := by
        apply minOpt_lt_cases (o := psk.minDelta) (by rw [← hdm]; exact hdlt)
        intro b hb hblt
        apply hnotK
        left
        exact ⟨b, by show foldMin none (deltas p (pureObj g) {} K) = some b; rw [← hpskmd]; exact hb, hblt⟩
      have hpos : 0 < pr.old.delta := hs.inv.nb_delta_pos hL hn hs.neighbours
      subst hzg
      rw [hpt] at hm'
      -- the final method state
      have hreK : Reach p (commit p pr (g pr.point)) psK.evals := by
        unfold ProcOK at hokK; rw [hm'] at hokK; exact hokK
      have hXm : ((solveLoop p (pureObj g) (p.itersLimit + 1) {}).1).m = some (commit p pr (g pr.point)) := by
        rw [heq]; exact hm'
      have hsolve_m : (solve p (pureObj g) refine {}).m =
          (refineStep refine (solveLoop p (pureObj g) (p.itersLimit + 1) {}).1).m := by
        rw [solve_eq]; rfl
      have hmb : mBeforeLast p (pureObj g) refine = some s.M := by
        simp [mBeforeLast, hnt, stateAt, hk, hm]
      have hsf : ∃ sf, (refineStep refine (solveLoop p (pureObj g) (p.itersLimit + 1) {}).1).m = some sf ∧
          sf.Z = (commit p pr (g pr.point)).Z ∧ sf.M = (commit p pr (g pr.point)).M ∧
          ((∀ ps, refine ps = none) → sf = commit p pr (g pr.point)) := by
        unfold refineStep
        split
        · next lr hlr =>
          rw [doLocalRefinement_some lr hXm]
          exact ⟨_, rfl, rfl, rfl, fun hno => by rw [hno] at hlr; cases hlr⟩
        · exact ⟨_, hXm, rfl, rfl, fun _ => rfl⟩
      obtain ⟨sf, hsfm, hZ, hM, hno⟩ := hsf
      exact ⟨K, psk, idsk, s, pr, sf, hnt, hk, hm, hre, iterN_pureObj_evals hk, hpr, hlt,
        lt_trans hpos hlt, by rw [hev]; exact hreK, by rw [hsolve_m]; exact hsfm, hZ, hM, hno, hmb⟩

end Proc

namespace Proc
open AGP AGP.Ctl
variable {α : Type} [Field α] [LinearOrder α] [IsStrictOrderedRing α] [Fns α]
variable {p : Params α} {f : Nat → List α → Option α}

/-- every selected Hölder length of a run from a fresh solver is positive and at most 1 -/
theorem deltaAt_fresh_range (hL : FnsLaws α) (hr : 1 < p.r) (hn : 0 < p.n) {j : Nat} {d : α}
    (h : deltaAt p f {} j = some d) : 0 < d ∧ d ≤ 1 := by
  unfold deltaAt stateAt at h
  cases hi : iterN p f j {} with
  | error e => rw [hi] at h; simp at h
  | ok x =>
    obtain ⟨psj, ids⟩ := x
    rw [hi] at h
    simp only [Option.bind_some, nextDelta] at h
    have hok := iterN_procOK (procOK_fresh p) hi
    cases hm : psj.m with
    | none => rw [hm] at h; simp at h
    | some s =>
      rw [hm] at h
      simp only at h
      have hre : Reach p s psj.evals := by unfold ProcOK at hok; rw [hm] at hok; exact hok
      cases hp : prepare p s with
      | error e => rw [hp] at h; simp at h
      | ok pr =>
        rw [hp] at h
        simp only [Option.some.injEq] at h
        subst h
        have hs := prepare_spec' hL hr hn (hre.inv hL hr hn) hp
        have hab := hs.neighbours
        have hpos := hs.inv.nb_delta_pos hL hn hab
        have hpow := hs.inv.nb_delta_pow hL hn hab
        have h1 := (hs.inv.x_range _ hab.mem_right).2
        have h0 := (hs.inv.x_range _ hab.mem_left).1
        refine ⟨hpos, ?_⟩
        have : pr.old.delta ^ p.n ≤ 1 := by rw [hpow]; linarith
        exact (pow_le_one_iff_of_nonneg hpos.le (by omega)).1 this

/-- With `eps > 1`, a budget of at least 2 iterations and an objective that never raises, `Solve` on a
fresh solver stops by accuracy (used for non-vacuity examples over ℝ, where nothing can be computed). -/
theorem solve_accuracy_of_big_eps (hL : FnsLaws α) (hr : 1 < p.r) (hn : 0 < p.n)
    (htot : ∀ i pt, f i pt ≠ none) (heps : 1 < p.eps) (hlim : 2 ≤ p.itersLimit)
    (refine : PState α → Option (LocalResult α)) :
    ∃ d, (solve p f refine {}).minDelta = some d ∧ d < p.eps := by
  have hnr := solve_fresh_no_raise (p := p) hL hr hn htot
  obtain ⟨K, hK, -, -, -, h2⟩ := C03.C03_accuracy_is_min p f refine hnr
  obtain ⟨K', hK', -, h1, -, hor, -⟩ := C03.C03_stop_exact p f refine (by omega) hnr
  have hKK : K' = K := by rw [← hK', hK]
  subst hKK
  have hK2 : 2 ≤ K' := by
    rcases hor with h | ⟨d, hd, -⟩
    · omega
    · rcases Nat.lt_or_ge K' 2 with hlt | hge
      · have : K' = 1 := by omega
        subst this
        have : C03.delta p f 1 = none := deltaAt_fresh_zero p f
        rw [this] at hd; cases hd
      · exact hge
  obtain ⟨m, hm, hmem, -⟩ := h2 hK2
  obtain ⟨i, -, hi⟩ := mem_deltas.1 hmem
  exact ⟨m, hm, lt_of_le_of_lt (deltaAt_fresh_range hL hr hn hi).2 heps⟩

end Proc
