import IOptProofs.ProcessStop
/-!
# Batching: `DoGlobalIteration(a+b)` versus `DoGlobalIteration(a); DoGlobalIteration(b)`, and `Solve` after batches
-/

set_option linter.unusedSectionVars false

section
variable {α : Type} [Add α] [Sub α] [Mul α] [Div α] [Neg α] [LT α] [LE α]
  [DecidableLT α] [DecidableLE α] [OfNat α 0] [OfNat α 1] [OfNat α 2] [OfNat α 4] [Fns α]

namespace Proc
open AGP AGP.Ctl

/-- `BeforeMethodStart` is notified by the first pass ever made -/
def firstMark (ps : PState α) (k : Nat) : List Event :=
  if ps.m.isNone && decide (0 < k) then [Event.beforeStart] else []

theorem firstMark_cases (ps : PState α) (k : Nat) : firstMark ps k = [] ∨ firstMark ps k = [Event.beforeStart] := by
  unfold firstMark; split <;> simp

theorem firstMark_congr {ps ps' : PState α} (h : ps.core = ps'.core) (k : Nat) : firstMark ps k = firstMark ps' k := by
  unfold firstMark; rw [(PState.core_eq_iff.1 h).1]

/-- the only event emitted inside the loop of `DoGlobalIteration` is `BeforeMethodStart`, by the first pass ever -/
theorem iterN_log {p : Params α} {f : Nat → List α → Option α} {k : Nat} {ps ps' : PState α} {ids : List Nat}
    (h : iterN p f k ps = .ok (ps', ids)) : ps'.log = ps.log ++ firstMark ps k := by
  cases k with
  | zero =>
    simp only [iterN, Except.ok.injEq, Prod.mk.injEq] at h
    obtain ⟨rfl, -⟩ := h
    simp [firstMark]
  | succ k =>
    rw [iterN] at h
    split at h
    · cases h
    · next ps1 id h1 =>
      split at h
      · cases h
      · next ps2 ids2 h2 =>
        cases h
        have hm1 := (oneIteration_ok_counters h1).1
        rw [(iterN_ok_some hm1 h2).2]
        obtain ⟨-, -, pt, z, -, -, hh⟩ := oneIteration_ok h1
        rcases hh with ⟨hm, -, -, -, hl⟩ | ⟨s, pr, hm, -, -, -, -, hl⟩
        · rw [hl]; simp [firstMark, hm]
        · rw [hl]; simp [firstMark, hm]

/-- two consecutive batches against one batch -/
theorem batch_split {p : Params α} {f : Nat → List α → Option α} {a b : Nat} {ps : PState α}
    (h1 : (doGlobalIteration p f a ps []).raised = none) :
    (doGlobalIteration p f (a + b) ps []).s.core =
      (doGlobalIteration p f b (doGlobalIteration p f a ps []).s []).s.core ∧
    (doGlobalIteration p f (a + b) ps []).raised =
      (doGlobalIteration p f b (doGlobalIteration p f a ps []).s []).raised ∧
    ((doGlobalIteration p f b (doGlobalIteration p f a ps []).s []).raised = none →
      ∃ ids1 ids2 pre1 pre2, ids1.length = a ∧ ids2.length = b ∧
        (pre1 = [] ∨ pre1 = [Event.beforeStart]) ∧ (pre2 = [] ∨ pre2 = [Event.beforeStart]) ∧
        (doGlobalIteration p f a ps []).s.log = ps.log ++ pre1 ++ [Event.endIteration ids1] ∧
        (doGlobalIteration p f b (doGlobalIteration p f a ps []).s []).s.log =
          ps.log ++ pre1 ++ [Event.endIteration ids1] ++ pre2 ++ [Event.endIteration ids2] ∧
        (doGlobalIteration p f (a + b) ps []).s.log =
          ps.log ++ pre1 ++ pre2 ++ [Event.endIteration (ids1 ++ ids2)]) := by
  obtain ⟨ps1, ids1, hi1, hs1⟩ := doGlobalIteration_ok h1
  rw [hs1]
  have hl1 := iterN_log hi1
  rw [doGlobalIteration_eq p f (a + b), iterN_add, hi1]
  simp only [List.nil_append]
  rw [doGlobalIteration_eq p f b]
  cases hi2 : iterN p f b ps1 with
  | error x =>
    obtain ⟨pe, e⟩ := x
    obtain ⟨pe', hi2', hce⟩ := iterN_congr_error (ps := ps1) (ps' := ps1.appendLog [Event.endIteration ids1]) (PState.appendLog_core _ _).symm hi2
    rw [hi2']
    exact ⟨hce.symm, rfl, by simp⟩
  | ok x =>
    obtain ⟨ps2, ids2⟩ := x
    obtain ⟨ps2', hi2', hc2⟩ := iterN_congr_ok (ps := ps1) (ps' := ps1.appendLog [Event.endIteration ids1]) (PState.appendLog_core _ _).symm hi2
    rw [hi2']
    refine ⟨?_, rfl, fun _ => ?_⟩
    · simp only [List.nil_append]; exact hc2.symm
    · have hl2 := iterN_log hi2
      have hl2' := iterN_log hi2'
      refine ⟨ids1, ids2, firstMark ps a, firstMark ps1 b, (iterN_counters hi1).2.2.2.2.1,
        (iterN_counters hi2).2.2.2.2.1, firstMark_cases _ _, firstMark_cases _ _, ?_, ?_, ?_⟩
      · simp [hl1]
      · rw [firstMark_congr (PState.appendLog_core ps1 _)] at hl2'
        simp [hl2', hl1]
      · simp [hl2, hl1]

/-- any list of batch sizes: if the canonical sequence makes `Σ k_j` passes without raising, the batches
end in the same state up to the event log -/
theorem batches_sum {p : Params α} {f : Nat → List α → Option α} {refine : PState α → Option (LocalResult α)}
    (ks : List Nat) {ps ps' : PState α} {ids : List Nat}
    (h : iterN p f ks.sum ps = .ok (ps', ids)) :
    (runOps p f refine (ks.map Op.iter) ps).core = ps'.core := by
  induction ks generalizing ps ps' ids with
  | nil =>
    simp only [List.sum_nil, iterN, Except.ok.injEq, Prod.mk.injEq] at h
    obtain ⟨rfl, -⟩ := h; rfl
  | cons k ks ih =>
    rw [List.sum_cons, iterN_add] at h
    split at h
    · cases h
    · next ps1 ids1 h1 =>
      split at h
      · cases h
      · next ps2 ids2 h2 =>
        cases h
        simp only [List.map_cons, runOps, runOp]
        rw [doGlobalIteration_eq, h1]
        simp only [List.nil_append]
        obtain ⟨ps2', h2', hc2⟩ := iterN_congr_ok (ps := ps1) (ps' := ps1.appendLog [Event.endIteration ids1]) (PState.appendLog_core _ _).symm h2
        exact (ih (ps := ps1.appendLog [Event.endIteration ids1]) h2').trans hc2

/-- the new records made by a batch are appended to the old ones -/
theorem iterN_evals_prefix {p : Params α} {f : Nat → List α → Option α} {k : Nat} {ps ps' : PState α} {ids : List Nat}
    (h : iterN p f k ps = .ok (ps', ids)) : ps.evals <+: ps'.evals := by
  obtain ⟨-, -, new, hnew, -⟩ := iterN_ids_evals h
  exact ⟨new, hnew.symm⟩

/-- an objective that ignores the call index -/
def PureObjective (f : Nat → List α → Option α) : Prop := ∀ i j pt, f i pt = f j pt

/-- with a pure objective the call counter is irrelevant for one pass -/
theorem oneIteration_pure {p : Params α} {f : Nat → List α → Option α} (hf : PureObjective f) (ps : PState α) (c : Nat) :
    oneIteration p f { ps with calls := c } =
    match oneIteration p f ps with
    | .ok (ps', id) => .ok ({ ps' with calls := c + 1 }, id)
    | .error (ps', e) => .error ({ ps' with calls := c + (ps'.calls - ps.calls) }, e) := by
  rw [oneIteration_eq, oneIteration_eq]
  cases hm : ps.m with
  | none =>
    simp only []
    rw [hf c ps.calls]
    cases f ps.calls (firstPoint p) <;> simp
  | some s =>
    simp only []
    cases prepare p s with
    | error x => obtain ⟨s', e⟩ := x; simp
    | ok pr =>
      simp only []
      rw [hf c ps.calls]
      cases f ps.calls pr.point <;> simp

/-- with a pure objective, the passes from two states that differ only in the call counter make the same
trials: same method state, same ids, same records -/
theorem iterN_pure {p : Params α} {f : Nat → List α → Option α} (hf : PureObjective f) {k : Nat} {ps ps' : PState α}
    {ids : List Nat} (c : Nat) (h : iterN p f k ps = .ok (ps', ids)) :
    iterN p f k { ps with calls := c } = .ok ({ ps' with calls := c + k }, ids) := by
  induction k generalizing ps ids c with
  | zero =>
    simp only [iterN, Except.ok.injEq, Prod.mk.injEq] at h
    obtain ⟨rfl, rfl⟩ := h; rfl
  | succ k ih =>
    rw [iterN] at h
    split at h
    · cases h
    · next ps1 id h1 =>
      split at h
      · cases h
      · next ps2 ids2 h2 =>
        cases h
        rw [iterN, oneIteration_pure hf, h1]
        simp only []
        rw [ih (c + 1) h2]
        simp only [Except.ok.injEq, Prod.mk.injEq, and_true]
        congr 1; omega

/-! ### `Solve` after batches, `Solve` twice -/

theorem solveLoop_of_stop {p : Params α} {f : Nat → List α → Option α} {ps : PState α} (fuel : Nat)
    (h : stopNow p ps = true) : solveLoop p f (fuel + 1) ps = (ps, false) := by
  rw [solveLoop_succ, h]; rfl

/-- `Solve` started in a state `ps1` that is (up to the log) the state after `n` passes of the canonical sequence
from `ps` goes on along that same sequence, one pass at a time, up to the first state `n + j` in which the
criterion holds or the next pass raises. -/
theorem solveLoop_after {p : Params α} {f : Nat → List α → Option α} {n : Nat} {ps ps0 ps1 : PState α} {ids0 : List Nat}
    (h0 : iterN p f n ps = .ok (ps0, ids0)) (hc : ps1.core = ps0.core) :
    ∃ j psj ids, iterN p f (n + j) ps = .ok (psj, ids0 ++ ids) ∧
      (∀ i, i < j → ∃ psi idsi, iterN p f (n + i) ps = .ok (psi, idsi) ∧ stopNow p psi = false) ∧
      ((stopNow p psj = true ∧ ∃ X, X.core = psj.core ∧ solveLoop p f (p.itersLimit + 1) ps1 = (X, false)) ∨
       (stopNow p psj = false ∧ ∃ pe e X, oneIteration p f psj = .error (pe, e) ∧ X.core = pe.core ∧
          solveLoop p f (p.itersLimit + 1) ps1 = (X, true))) := by
  have hfuel : remaining p ps1 < p.itersLimit + 1 := Nat.lt_succ_of_le (remaining_le p _)
  obtain ⟨j, psj', ids, hpre', hcase⟩ := solveLoop_spec p f _ ps1 hfuel
  obtain ⟨psj, hpre, hcj⟩ := hpre'.congr hc
  refine ⟨j, psj, ids, ?_, ?_, ?_⟩
  · rw [iterN_add, h0]; simp only []; rw [hpre.run]
  · intro i hi
    obtain ⟨psi, idsi, hri, hst⟩ := hpre.notStop i hi
    refine ⟨psi, ids0 ++ idsi, ?_, hst⟩
    rw [iterN_add, h0]; simp only []; rw [hri]
  · rcases hcase with ⟨hst, -, X, hsl, hcX, -⟩ | ⟨hst, pe', e, X, herr', -, hsl, hcX, -⟩
    · left
      exact ⟨by rw [stopNow_congr hcj]; exact hst, X, hcX.trans hcj.symm, hsl⟩
    · right
      obtain ⟨pe, herr, hce⟩ := oneIteration_congr_error hcj.symm herr'
      exact ⟨by rw [stopNow_congr hcj]; exact hst, pe, e, X, herr, hcX.trans hce.symm, hsl⟩

/-- a second `Solve` on a solver whose first `Solve` ended normally: no pass is made -/
theorem solve_solve {p : Params α} {f : Nat → List α → Option α} {refine refine2 : PState α → Option (LocalResult α)}
    {ps : PState α} (hnr : (solveLoop p f (p.itersLimit + 1) ps).2 = false) :
    solve p f refine2 (solve p f refine ps) =
      (refineStep refine2 (solve p f refine ps)).appendLog [Event.methodStop true] := by
  have hfuel : remaining p ps < p.itersLimit + 1 := Nat.lt_succ_of_le (remaining_le p _)
  have hst : stopNow p (solve p f refine ps) = true := by
    rw [solve_eq]
    show stopNow p (refineStep refine _) = true
    rw [(refineStep_fields (p := p) refine _).2.2.2.2.2.2.2.1]
    rcases solveLoop_end p f _ ps hfuel with h | h
    · rw [hnr] at h; cases h
    · exact h
  rw [solve_eq p f refine2, solveLoop_of_stop _ hst]
  simp only []
  rw [(refineStep_fields (p := p) refine2 _).2.2.2.2.2.2.2.1, hst]

end Proc
end
