import IOptProofs.ShekelTabDefs
/-! kernel-evaluated C18 table certificates (min / max / Lipschitz tables) of the Shekel functions 620..639
(one block per file, identical template; four kernel evaluations of 5 rows each keep the memory near 1 GB) -/
namespace Shk
set_option maxRecDepth 100000 in
theorem shekel_tab_block_31_a : ∀ i ∈ List.range' 620 5, shekelTabOK i = true := by decide +kernel
set_option maxRecDepth 100000 in
theorem shekel_tab_block_31_b : ∀ i ∈ List.range' 625 5, shekelTabOK i = true := by decide +kernel
set_option maxRecDepth 100000 in
theorem shekel_tab_block_31_c : ∀ i ∈ List.range' 630 5, shekelTabOK i = true := by decide +kernel
set_option maxRecDepth 100000 in
theorem shekel_tab_block_31_d : ∀ i ∈ List.range' 635 5, shekelTabOK i = true := by decide +kernel
theorem shekel_tab_block_31 : ∀ i ∈ List.range' 620 20, shekelTabOK i = true := by
  intro i hi
  have hi' := List.mem_range'_1.1 hi
  if h1 : i < 625 then exact shekel_tab_block_31_a i (List.mem_range'_1.2 ⟨by omega, by omega⟩) else
  if h2 : i < 630 then exact shekel_tab_block_31_b i (List.mem_range'_1.2 ⟨by omega, by omega⟩) else
  if h3 : i < 635 then exact shekel_tab_block_31_c i (List.mem_range'_1.2 ⟨by omega, by omega⟩) else
  exact shekel_tab_block_31_d i (List.mem_range'_1.2 ⟨by omega, by omega⟩)
end Shk
