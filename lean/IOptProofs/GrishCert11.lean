import IOptProofs.GrishDefs
/-! kernel-evaluated certificates (V), (G), (P) of the Grishagin functions 56..60 (one block per file, identical template;
one theorem per function so that the kernel's reduction cache is released between functions) -/
namespace Grish
set_option maxRecDepth 100000
theorem grish_ok_56 : grishOK 56 = true := by decide +kernel
theorem grish_ok_57 : grishOK 57 = true := by decide +kernel
theorem grish_ok_58 : grishOK 58 = true := by decide +kernel
theorem grish_ok_59 : grishOK 59 = true := by decide +kernel
theorem grish_ok_60 : grishOK 60 = true := by decide +kernel
theorem grish_block_11 : ∀ k ∈ List.range' 56 5, grishOK k = true := by
  intro k hk
  simp only [List.mem_range'_1] at hk
  obtain ⟨h1, h2⟩ := hk
  have : k = 56 ∨ k = 57 ∨ k = 58 ∨ k = 59 ∨ k = 60 := by omega
  rcases this with rfl | rfl | rfl | rfl | rfl
  · exact grish_ok_56
  · exact grish_ok_57
  · exact grish_ok_58
  · exact grish_ok_59
  · exact grish_ok_60
end Grish
