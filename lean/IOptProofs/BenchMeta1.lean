import IOptProofs.BenchMeta
/-! kernel-evaluated blocks of the metadata checks (`BenchMeta.rowOK`, `BenchMeta.openRowOK`);
generator-friendly: one `decide +kernel` per block, blocks cover `[0, ∞)` whatever the table size -/
namespace BenchMeta
open Gen
set_option maxRecDepth 100000
theorem meta_block_0 : checkBlock rowOK metaRowsPacked.toList 0 500 = true := by decide +kernel
theorem meta_block_500 : checkBlock rowOK metaRowsPacked.toList 500 500 = true := by decide +kernel
theorem meta_block_1000 : checkBlock rowOK metaRowsPacked.toList 1000 500 = true := by decide +kernel
theorem meta_block_1500 : checkBlock rowOK metaRowsPacked.toList 1500 500 = true := by decide +kernel
theorem meta_block_2000 : checkBlock rowOK metaRowsPacked.toList 2000 500 = true := by decide +kernel
end BenchMeta
