import IOptProofs.BenchShekel4Defs
/-! kernel-evaluated C10 certificates of the three Shekel4 functions (4-dimensional branch and bound) -/
namespace Shk4
set_option maxRecDepth 100000
theorem shekel4_cert_1 : shekel4OK 1 = true := by decide +kernel
theorem shekel4_cert_2 : shekel4OK 2 = true := by decide +kernel
theorem shekel4_cert_3 : shekel4OK 3 = true := by decide +kernel
end Shk4
