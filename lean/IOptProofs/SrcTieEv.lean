import IOptModel.Evolvent
import IOptGen.EvolventSrc
/-!
# The numeric layer of the evolvent model equals the translation of the CURRENT source text

`IOptGen/EvolventSrc.lean` is regenerated on every run by `harness/src2lean.py` from the source text of
`iOpt/evolvent/evolvent.py`.  The affine maps cube ↔ box, the one-dimensional special cases and the end rule
(`x ≥ 1` takes the last digit at every level — the place of the repaired defect F6) of the hand-written
model are these translations; all over the raw numeric classes, hence also for the `Float` instance.
(The integer layer — `__CalculateNode`, `__CalculateNumbr` — is tied by the complete regenerated tables,
`IOptProofs/EvNodeTable.lean`.)
-/
set_option linter.unusedSectionVars false

namespace SrcTie
open Ev Gen.EvSrc

variable {α : Type} [Add α] [Sub α] [Mul α] [Div α] [Neg α] [LT α] [LE α]
  [DecidableLT α] [DecidableLE α] [OfNat α 0] [OfNat α 1] [OfNat α 2] [OfNat α 4] [NatCast α] [TruncNat α]

/-- `__TransformP2D`, coordinate by coordinate -/
theorem p2d_src (lower upper y : List α) :
    p2d lower upper y = List.zipWith (fun yi (lu : α × α) => transformP2D_coord yi lu.1 lu.2) y (lower.zip upper) := rfl

/-- `__TransformD2P`, coordinate by coordinate -/
theorem d2p_src (lower upper y : List α) :
    d2p lower upper y = List.zipWith (fun yi (lu : α × α) => transformD2P_coord yi lu.1 lu.2) y (lower.zip upper) := rfl

/-- `__GetYonX` for N = 1 -/
theorem imageCube_dim1_src (m : Nat) (x : α) : imageCube 1 m x = [getYonX_dim1 x] := rfl

/-- `__GetXonY` for N = 1 -/
theorem inverseCube_dim1_src (m : Nat) (y0 : α) (t : List α) : inverseCube 1 m (y0 :: t) = getXonY_dim1 y0 := rfl

/-- the end rule of `__GetYonX` (N ≥ 2): the flag handed to the level loop is the source's condition -/
theorem endRule_src (n m : Nat) (x : α) (hn : (n == 1) = false) :
    imageCube n m x = yLoop n (endRule x) m x Ev.half (St.init n) (List.replicate n 0) := by
  simp only [imageCube, hn, endRule, ge_iff_le]
  rfl

end SrcTie
