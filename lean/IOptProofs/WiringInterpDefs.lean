import IOptGen.WiringSrc
import IOptGen.SearchDataCtlSrc
import IOptProofs.ProcInterpDefs
import IOptProofs.ReportInterpDefs
/-!
# An object-graph semantics for the GLUE of the library: `Solver`, the constructors, `SearchDataItem`

`IOptGen/WiringSrc.lean` (namespace `Gen.Wiring`, regenerated from the SOURCE TEXT of `iOpt/solver.py`, `solution.py`,
`solver_parametrs.py`, `trial.py`, `method/optim_task.py`, `method/process.py`, `method/method.py`, `method/search_data.py` on every
run) holds the statement trees (`Gen.ProcSrc.Stmt`), parameter lists and default-value strings of the facade `Solver`, of the
constructors and of the accessors of `SearchDataItem`.  This file gives such trees a meaning, GENERIC in the tree (neither stage ever
looks at which function it is working on), in two stages:

1. a PARSER (`parseStmt`, `parseDef`, `theProg`): source strings ↦ syntax (`Atom`, `CExpr`, `LVal`, `CStmt`), by structural recursion
   over the tree.  Whatever it does not recognise becomes `CStmt.stuck` / `Atom.bad` / `LVal.bad`.
2. an INTERPRETER (`execStmt`, `execList`, `envN`, `new`, `callMethod`) of the parsed form over an object graph, by structural
   recursion (call depth bounded by `envN`).

(The split is there because kernel evaluation of string operations is slow: the parser is run once, `WiringInterp.theProg_eq`.)
`IOptProofs/WiringInterp.lean` proves what the generated trees do.

## The object graph
* A `World` is a heap `address ↦ (class name, fields, elements)` of the objects ALLOCATED BY THE INTERPRETED CODE (address = index,
  allocation order) plus the trace of the method calls that leave the fragment (`Call`: receiver, method name, arguments).
* `Val`: `ref a` (an object of the heap), `none`, `bool`, `int`, `lit s` (an uninterpreted source literal: `"0.01"`, `"np.inf"`, …),
  `sym root path` (an object that exists OUTSIDE the heap, or an attribute chain read from one: `root` is a user object
  (`Root.user a`: the problem, the caller's parameters, a listener) or the value of a default argument, which Python computes ONCE
  when the `def` is executed (`Root.dflt cls param`: the same object at every call)), `res k` (what the `k`-th traced call returned).
  External objects are never written (a store into one is `stuck`); reading an attribute of one gives the symbolic chain; where an
  integer is needed (`range(…)`, `shape=…`) it comes from the oracle `Ctx.extInt`.
* `self.f = e` stores into the object `self` refers to; attribute names with two leading underscores are name-mangled with the
  class whose text is parsed (`mangle`), as Python does.  `[]` allocates a fresh list OBJECT, `xs.append(v)` mutates it: aliasing of
  a list is visible.  `C(args…)` (positional or `kw=`) for a class of `classTable` allocates a NEW object and runs the GENERATED
  `__init__` tree of `C`; `super().__init__(…)` runs the tree of the base class (`superTable`) on the same object; `Evolvent(…)`,
  `DEPQ(…)` (`opaqueCtors`) allocate an object that records the arguments it was given (`"#i"` for the `i`-th positional one);
  `np.ndarray(shape=n, dtype=int)` allocates an array of `n` unset elements; `a.size` of an array is its length.
* a default value that is not an immutable literal (`[]`, `SolverParameters()`, …) is THE object `sym (dflt cls param) []`, the same
  at every call: a mutable default argument is shared, an allocation inside the body is not.
* every other call `path.m(args)` is a method call that leaves the fragment: it is appended to the trace with the receiver VALUE
  (so that one can see WHICH object it is sent to) and returns `res k`.
* whatever is not listed is `stuck`: in particular `copy.copy(…)`, `copy.deepcopy(…)`, `list(xs)`, `xs[:]`, `xs.copy()`, and every
  method of a list other than `append`.

## Strings interpreted (the trusted base of this file)
generic syntax: dotted paths of identifiers (`parsePath`); `kw=expr` arguments (`splitKw`); integer literals (`parseInt`); decimal
literals (`isFloatLitC`, kept as `lit`); `X is None`; `path.m()` in `return`; and the tables `constTable`, `exprTable`, `classTable`,
`methodTable`, `superTable`, `opaqueCtors`, and the names `"None"`, `"True"`, `"False"`, `"[]"`, `"self"`, `"super().__init__"`,
`"np.ndarray"`, `"shape"`, `"dtype=int"`, `"append"`, `"size"`, `"list"`, `"ndarray"`; in `Facade`: `"self.process."`, `"()"` and the
table `processProcs`.

No Mathlib, no proofs: everything here is executable.
-/

namespace WiringInterp
open Gen.ProcSrc

/-! ### values, objects, world -/

/-- where an object that was not allocated by the interpreted code comes from -/
inductive Root where
  /-- an object made by the user (the problem, the parameters, a listener, …) -/
  | user (a : Nat)
  /-- the value of the default of parameter `param` of `cls.__init__`, computed once when the `def` was executed -/
  | dflt (cls param : String)
deriving DecidableEq, Repr

inductive Val where
  /-- an object of the heap -/
  | ref (a : Nat)
  | none
  | bool (b : Bool)
  | int (i : Int)
  /-- an uninterpreted source literal -/
  | lit (s : String)
  /-- an external object (`path = []`) or the attribute chain `path` read from it -/
  | sym (r : Root) (path : List String)
  /-- the value returned by the `k`-th traced method call -/
  | res (k : Nat)
deriving DecidableEq, Repr

/-- an object: class name, attributes in order of first assignment, elements (lists and arrays) -/
structure Obj where
  cls : String
  fields : List (String × Val) := []
  elems : List Val := []
deriving DecidableEq, Repr

/-- a method call that leaves the fragment -/
structure Call where
  recv : Val
  meth : String
  args : List Val := []
  kwargs : List (String × Val) := []
deriving DecidableEq, Repr

structure World where
  heap : List Obj := []
  trace : List Call := []
deriving DecidableEq, Repr

/-- the oracle: the integer an attribute chain of an external object stands for -/
structure Ctx where
  extInt : Root → List String → Int

abbrev Locals := List (String × Val)

/-- insert or overwrite, keeping the position of an existing key (Python `dict` order) -/
def setField (fs : List (String × Val)) (k : String) (v : Val) : List (String × Val) :=
  match fs with
  | [] => [(k, v)]
  | (k', v') :: t => if k' == k then (k', v) :: t else (k', v') :: setField t k v

def World.alloc (w : World) (o : Obj) : Val × World := (.ref w.heap.length, { w with heap := w.heap ++ [o] })

/-- `obj.f = v` for the heap object at `a` -/
def World.store (w : World) (a : Nat) (f : String) (v : Val) : Option World :=
  match w.heap[a]? with
  | some o => some { w with heap := w.heap.set a { o with fields := setField o.fields f v } }
  | none => none

/-! ### syntax -/

/-- the characters of a source string, read bytewise (the strings of the generated trees are ASCII; a byte ≥ 128 becomes a character
that is part of no identifier or number, so such a string is outside the fragment).  `String.toList` would do, but its kernel
evaluation is quadratic in the length. -/
def chars (s : String) : List Char := s.toByteArray.data.toList.map fun b => Char.ofNat b.toNat

def isIdentChar (c : Char) : Bool := c.isAlphanum || c == '_'

def isIdent (cs : List Char) : Bool :=
  match cs with
  | [] => false
  | c :: _ => !c.isDigit && cs.all isIdentChar

/-- split at every `sep` (`acc`: the current piece, reversed) -/
def splitOnChar (sep : Char) : List Char → List Char → List (List Char)
  | acc, [] => [acc.reverse]
  | acc, c :: cs => if c == sep then acc.reverse :: splitOnChar sep [] cs else splitOnChar sep (c :: acc) cs

/-- a dotted path of identifiers -/
def parsePathC (cs : List Char) : Option (List String) :=
  let parts := splitOnChar '.' [] cs
  if parts.all isIdent then some (parts.map String.ofList) else none

def parsePath (s : String) : Option (List String) := parsePathC (chars s)

/-- `pre` is a prefix of `cs`: the rest -/
def stripPrefix : List Char → List Char → Option (List Char)
  | [], cs => some cs
  | _ :: _, [] => none
  | p :: ps, c :: cs => if p == c then stripPrefix ps cs else none

def stripSuffix (suf cs : List Char) : Option (List Char) := (stripPrefix suf.reverse cs.reverse).map List.reverse

/-- `name=expr` with `name` an identifier (and not `name==…`) -/
def splitKw (s : String) : Option (String × String) :=
  match splitOnChar '=' [] (chars s) with
  | name :: rest1 :: rest =>
    if isIdent name && !rest1.isEmpty then
      some (String.ofList name, String.ofList (rest1 ++ (rest.map fun p => '=' :: p).flatten))
    else none
  | _ => none

def digitsToNat : List Char → Nat → Option Nat
  | [], acc => some acc
  | c :: cs, acc => if c.isDigit then digitsToNat cs (acc * 10 + (c.toNat - '0'.toNat)) else none

/-- an integer literal: optional `-`, then digits -/
def parseInt (cs : List Char) : Option Int :=
  match cs with
  | [] => none
  | '-' :: ds => if ds.isEmpty then none else (digitsToNat ds 0).map fun n => - (n : Int)
  | ds => (digitsToNat ds 0).map fun n => (n : Int)

/-- a decimal literal `[-]ddd[.ddd]`: (mantissa, number of digits after the point): the value is `mantissa / 10 ^ scale` -/
def parseDecimalC (cs : List Char) : Option (Int × Nat) :=
  let (neg, cs) := match cs with
    | '-' :: t => (true, t)
    | t => (false, t)
  let r : Option (Nat × Nat) :=
    match splitOnChar '.' [] cs with
    | [ip] => if ip.isEmpty then none else (digitsToNat ip 0).map fun n => (n, 0)
    | [ip, fp] =>
      if ip.isEmpty || fp.isEmpty then none
      else match digitsToNat ip 0, digitsToNat fp 0 with
        | some a, some b => some (a * 10 ^ fp.length + b, fp.length)
        | _, _ => none
    | _ => none
  r.map fun (m, k) => (if neg then - (m : Int) else (m : Int), k)

def parseDecimal (s : String) : Option (Int × Nat) := parseDecimalC (chars s)

/-- a decimal literal with a point -/
def isFloatLitC (cs : List Char) : Bool := cs.contains '.' && (parseDecimalC cs).isSome

/-- Python's private-name mangling: `__x` (not ending in `__`) in the text of class `cls` is `_cls__x` -/
def mangle (cls f : String) : String :=
  match chars f with
  | '_' :: '_' :: rest =>
    match rest.reverse with
    | '_' :: '_' :: _ => f
    | _ => "_" ++ cls ++ f
  | _ => f

/-! ### tables -/

/-- named constants that are kept as uninterpreted literals -/
def constTable : List String := ["np.inf", "sys.float_info.max", "''", "FunctionType.OBJECTIV", "TypeOfCalculation.FUNCTION"]

/-- expressions that are not atoms -/
inductive Expr where
  /-- a literal, `[]`, or a dotted path -/
  | atom (s : String)
  /-- `base[idx]` -/
  | index (base idx : Expr)
  /-- `a + b` on integers -/
  | add (a b : Expr)
  /-- `[e]`: a fresh one-element list -/
  | list1 (e : Expr)
  /-- `C(args)` in expression position (the arguments are atoms) -/
  | ctor (cls : String) (args : List String)
  /-- `[elem for _ in range(count)]` with `elem` a literal -/
  | comp (elem : String) (count : Expr)
deriving Repr

/-- the non-atomic expressions of the glue, by their source text -/
def exprTable : List (String × Expr) := [
  ("[Trial([], [])]", .list1 (.ctor "Trial" ["[]", "[]"])),
  ("[FunctionValue()]", .list1 (.ctor "FunctionValue" [])),
  ("[1.0 for _ in range(task.problem.numberOfObjectives + task.problem.numberOfConstraints)]",
    .comp "1.0" (.add (.atom "task.problem.numberOfObjectives") (.atom "task.problem.numberOfConstraints"))),
  ("[np.inf for _ in range(task.problem.numberOfObjectives + task.problem.numberOfConstraints)]",
    .comp "np.inf" (.add (.atom "task.problem.numberOfObjectives") (.atom "task.problem.numberOfConstraints"))),
  ("self.problem.numberOfObjectives + self.problem.numberOfConstraints",
    .add (.atom "self.problem.numberOfObjectives") (.atom "self.problem.numberOfConstraints")),
  ("self.perm[i]", .index (.atom "self.perm") (.atom "i")),
  ("dataItem.functionValues[self.perm[functionIndex]]",
    .index (.atom "dataItem.functionValues") (.index (.atom "self.perm") (.atom "functionIndex")))]

def exprOf (s : String) : Expr := (exprTable.lookup s).getD (.atom s)

/-- a class whose constructor is interpreted through its generated tree -/
structure ClassDef where
  params : List String
  defaults : List String
  body : List Stmt

/-- the classes: name ↦ (parameters, default strings, body of `__init__`), all GENERATED (the defaults of `SearchData.__init__`
and `CharacteristicsQueue.__init__`, `maxlen=None` / none, are not generated as definitions and are written here) -/
def classTable : List (String × ClassDef) := [
  ("Solver", ⟨Gen.Wiring.solver_initParams, Gen.Wiring.solver_initDefaults, Gen.Wiring.solver_init⟩),
  ("Process", ⟨Gen.Wiring.process_initParams, Gen.Wiring.process_initDefaults, Gen.Wiring.process_init⟩),
  ("Method", ⟨Gen.Wiring.method_initParams, Gen.Wiring.method_initDefaults, Gen.Wiring.method_init⟩),
  ("OptimizationTask", ⟨Gen.Wiring.optimizationTask_initParams, Gen.Wiring.optimizationTask_initDefaults, Gen.Wiring.optimizationTask_init⟩),
  ("Solution", ⟨Gen.Wiring.solution_initParams, Gen.Wiring.solution_initDefaults, Gen.Wiring.solution_init⟩),
  ("SolverParameters", ⟨Gen.Wiring.solverParameters_initParams, Gen.Wiring.solverParameters_initDefaults, Gen.Wiring.solverParameters_init⟩),
  ("Point", ⟨Gen.Wiring.point_initParams, Gen.Wiring.point_initDefaults, Gen.Wiring.point_init⟩),
  ("FunctionValue", ⟨Gen.Wiring.functionValue_initParams, Gen.Wiring.functionValue_initDefaults, Gen.Wiring.functionValue_init⟩),
  ("Trial", ⟨Gen.Wiring.trial_initParams, Gen.Wiring.trial_initDefaults, Gen.Wiring.trial_init⟩),
  ("SearchDataItem", ⟨Gen.Wiring.searchDataItem_initParams, Gen.Wiring.searchDataItem_initDefaults, Gen.Wiring.searchDataItem_init⟩),
  ("SearchData", ⟨Gen.SearchDataCtl.searchData_initParams, Gen.SearchDataCtl.searchData_initDefaults, Gen.SearchDataCtl.searchData_init⟩),
  ("CharacteristicsQueue", ⟨Gen.SearchDataCtl.characteristicsQueue_initParams, Gen.SearchDataCtl.characteristicsQueue_initDefaults, Gen.SearchDataCtl.characteristicsQueue_init⟩)]

/-- class ↦ base class (for `super().__init__`) -/
def superTable : List (String × String) := [("SearchDataItem", "Trial")]

/-- constructors that only record their arguments (tied elsewhere: `EvInterp`; `depq` is third party) -/
def opaqueCtors : List String := ["Evolvent", "DEPQ"]

/-- the methods interpreted through their generated tree: (class, method) ↦ (parameters, defaults, body) -/
def methodTable : List ((String × String) × ClassDef) := [
  (("Solver", "Solve"), ⟨Gen.Wiring.solver_SolveParams, Gen.Wiring.solver_SolveDefaults, Gen.Wiring.solver_Solve⟩),
  (("Solver", "DoGlobalIteration"), ⟨Gen.Wiring.solver_DoGlobalIterationParams, Gen.Wiring.solver_DoGlobalIterationDefaults, Gen.Wiring.solver_DoGlobalIteration⟩),
  (("Solver", "DoLocalRefinement"), ⟨Gen.Wiring.solver_DoLocalRefinementParams, Gen.Wiring.solver_DoLocalRefinementDefaults, Gen.Wiring.solver_DoLocalRefinement⟩),
  (("Solver", "GetResults"), ⟨Gen.Wiring.solver_GetResultsParams, Gen.Wiring.solver_GetResultsDefaults, Gen.Wiring.solver_GetResults⟩),
  (("Solver", "SaveProgress"), ⟨Gen.Wiring.solver_SaveProgressParams, Gen.Wiring.solver_SaveProgressDefaults, Gen.Wiring.solver_SaveProgress⟩),
  (("Solver", "LoadProgress"), ⟨Gen.Wiring.solver_LoadProgressParams, Gen.Wiring.solver_LoadProgressDefaults, Gen.Wiring.solver_LoadProgress⟩),
  (("Solver", "RefreshListener"), ⟨Gen.Wiring.solver_RefreshListenerParams, Gen.Wiring.solver_RefreshListenerDefaults, Gen.Wiring.solver_RefreshListener⟩),
  (("Solver", "AddListener"), ⟨Gen.Wiring.solver_AddListenerParams, Gen.Wiring.solver_AddListenerDefaults, Gen.Wiring.solver_AddListener⟩),
  (("OptimizationTask", "Calculate"), ⟨Gen.Wiring.optimizationTask_CalculateParams, Gen.Wiring.optimizationTask_CalculateDefaults, Gen.Wiring.optimizationTask_Calculate⟩),
  (("SearchDataItem", "GetX"), ⟨Gen.Wiring.searchDataItem_GetXParams, Gen.Wiring.searchDataItem_GetXDefaults, Gen.Wiring.searchDataItem_GetX⟩),
  (("SearchDataItem", "GetY"), ⟨Gen.Wiring.searchDataItem_GetYParams, Gen.Wiring.searchDataItem_GetYDefaults, Gen.Wiring.searchDataItem_GetY⟩),
  (("SearchDataItem", "GetDiscreteValueIndex"), ⟨Gen.Wiring.searchDataItem_GetDiscreteValueIndexParams, Gen.Wiring.searchDataItem_GetDiscreteValueIndexDefaults, Gen.Wiring.searchDataItem_GetDiscreteValueIndex⟩),
  (("SearchDataItem", "SetIndex"), ⟨Gen.Wiring.searchDataItem_SetIndexParams, Gen.Wiring.searchDataItem_SetIndexDefaults, Gen.Wiring.searchDataItem_SetIndex⟩),
  (("SearchDataItem", "GetIndex"), ⟨Gen.Wiring.searchDataItem_GetIndexParams, Gen.Wiring.searchDataItem_GetIndexDefaults, Gen.Wiring.searchDataItem_GetIndex⟩),
  (("SearchDataItem", "SetZ"), ⟨Gen.Wiring.searchDataItem_SetZParams, Gen.Wiring.searchDataItem_SetZDefaults, Gen.Wiring.searchDataItem_SetZ⟩),
  (("SearchDataItem", "GetZ"), ⟨Gen.Wiring.searchDataItem_GetZParams, Gen.Wiring.searchDataItem_GetZDefaults, Gen.Wiring.searchDataItem_GetZ⟩),
  (("SearchDataItem", "SetLeft"), ⟨Gen.Wiring.searchDataItem_SetLeftParams, Gen.Wiring.searchDataItem_SetLeftDefaults, Gen.Wiring.searchDataItem_SetLeft⟩),
  (("SearchDataItem", "GetLeft"), ⟨Gen.Wiring.searchDataItem_GetLeftParams, Gen.Wiring.searchDataItem_GetLeftDefaults, Gen.Wiring.searchDataItem_GetLeft⟩),
  (("SearchDataItem", "SetRight"), ⟨Gen.Wiring.searchDataItem_SetRightParams, Gen.Wiring.searchDataItem_SetRightDefaults, Gen.Wiring.searchDataItem_SetRight⟩),
  (("SearchDataItem", "GetRight"), ⟨Gen.Wiring.searchDataItem_GetRightParams, Gen.Wiring.searchDataItem_GetRightDefaults, Gen.Wiring.searchDataItem_GetRight⟩)]

/-! ### parsing: source strings ↦ syntax trees (done once per tree; everything below the parser works on the parsed form) -/

/-- an immutable literal: `None`, `True`, `False`, an integer, a decimal, a named constant -/
def evalLitC (s : String) (cs : List Char) : Option Val :=
  if s == "None" then some .none
  else if s == "True" then some (.bool true)
  else if s == "False" then some (.bool false)
  else match parseInt cs with
    | some i => some (.int i)
    | none => if isFloatLitC cs || constTable.contains s then some (.lit s) else none

def evalLit (s : String) : Option Val := evalLitC s (chars s)

/-- a parsed atom -/
inductive Atom where
  | lit (v : Val)
  /-- `[]`: a FRESH list object -/
  | emptyList
  /-- a local, then attributes (already mangled) -/
  | path (x : String) (fs : List String)
  /-- outside the fragment -/
  | bad
deriving Repr, DecidableEq

def parseAtom (cls s : String) : Atom :=
  match evalLitC s (chars s) with
  | some v => .lit v
  | none =>
    if s == "[]" then .emptyList
    else match parsePathC (chars s) with
      | some (x :: fs) => .path x (fs.map (mangle cls))
      | _ => .bad

/-- an argument: optional keyword, value -/
abbrev AArg := Option String × Atom

def parseAArg (cls s : String) : AArg :=
  match splitKw s with
  | some (k, e) => (some k, parseAtom cls e)
  | none => (none, parseAtom cls s)

/-- parsed expressions -/
inductive CExpr where
  | atom (a : Atom)
  | index (base idx : CExpr)
  | add (a b : CExpr)
  | list1 (e : CExpr)
  | ctor (cls : String) (args : List AArg)
  /-- `[elem for _ in range(count)]`; `elem = none`: not a literal (outside the fragment) -/
  | comp (elem : Option Val) (count : CExpr)
deriving Repr

def parseE (cls : String) : Expr → CExpr
  | .atom s => .atom (parseAtom cls s)
  | .index b i => .index (parseE cls b) (parseE cls i)
  | .add a b => .add (parseE cls a) (parseE cls b)
  | .list1 e => .list1 (parseE cls e)
  | .ctor k args => .ctor k (args.map (parseAArg cls))
  | .comp elem count => .comp (evalLit elem) (parseE cls count)

/-- an expression in the text of class `cls`: an atom, else a row of `exprTable` (no key of the table is an atom) -/
def parseExpr (cls s : String) : CExpr :=
  match parseAtom cls s with
  | .bad =>
    match exprTable.lookup s with
    | some e => parseE cls e
    | none => .atom .bad
  | a => .atom a

abbrev CArg := Option String × CExpr

def parseArg (cls s : String) : CArg :=
  match splitKw s with
  | some (k, e) => (some k, parseExpr cls e)
  | none => (none, parseExpr cls s)

/-- assignment targets -/
inductive LVal where
  /-- a local variable -/
  | var (x : String)
  /-- `x.fs.f = …` -/
  | attr (x : String) (fs : List String) (f : String)
  /-- `base[idx] = …` -/
  | index (base idx : CExpr)
  | bad
deriving Repr

def parseLVal (cls t : String) : LVal :=
  match parsePath t with
  | some [x] => .var x
  | some (x :: f :: fs) => .attr x (((f :: fs).dropLast).map (mangle cls)) (mangle cls ((f :: fs).getLast?.getD f))
  | _ =>
    match exprTable.lookup t with
    | some (.index b i) => .index (parseE cls b) (parseE cls i)
    | _ => .bad

/-- parsed statements -/
inductive CStmt where
  | assign (t : LVal) (e : CExpr)
  /-- `ts = np.ndarray(shape=e, dtype=int)` -/
  | ndarray (ts : List LVal) (shape : CExpr)
  /-- `ts = C(args)` for a class of `classTable` -/
  | construct (ts : List LVal) (cls : String) (args : List CArg)
  /-- `super().__init__(args)`; `base`: the base class of the class whose text this is -/
  | superInit (base : Option String) (args : List CArg)
  /-- `ts = C(args)` for a constructor of `opaqueCtors` -/
  | record (ts : List LVal) (cls : String) (args : List CArg)
  /-- `ts = recv.m(args)` -/
  | mcall (ts : List LVal) (recv : Atom) (m : String) (args : List CArg)
  /-- `if x is None: thn else: els` -/
  | ifNone (x : Atom) (thn els : List CStmt)
  /-- `for v in range(cnt): body` -/
  | forRange (v : String) (cnt : Atom) (body : List CStmt)
  /-- `return recv.m()` -/
  | retCall (recv : Atom) (m : String)
  | ret (e : CExpr)
  /-- outside the fragment -/
  | stuck
deriving Repr

/-- `path.m` ↦ (receiver, method name) -/
def parseCallee (cls callee : String) : Option (Atom × String) :=
  match parsePath callee with
  | some (x :: f :: fs) => some (.path x (((f :: fs).dropLast).map (mangle cls)), (f :: fs).getLast?.getD f)
  | _ => none

mutual
def parseStmt (cls : String) : Stmt → CStmt
  | .assign t v => .assign (parseLVal cls t) (parseExpr cls v)
  | .call ts callee args =>
    if callee == "np.ndarray" then
      match args with
      | [a1, "dtype=int"] =>
        match splitKw a1 with
        | some ("shape", e) => .ndarray (ts.map (parseLVal cls)) (parseExpr cls e)
        | _ => .stuck
      | _ => .stuck
    else if (classTable.lookup callee).isSome then .construct (ts.map (parseLVal cls)) callee (args.map (parseArg cls))
    else if callee == "super().__init__" then
      match ts with
      | [] => .superInit (superTable.lookup cls) (args.map (parseArg cls))
      | _ => .stuck
    else if opaqueCtors.contains callee then .record (ts.map (parseLVal cls)) callee (args.map (parseArg cls))
    else
      match parseCallee cls callee with
      | some (recv, m) => .mcall (ts.map (parseLVal cls)) recv m (args.map (parseArg cls))
      | none => .stuck
  | .ite cond thn els =>
    match stripSuffix (chars " is None") (chars cond) with
    | some x => .ifNone (parseAtom cls (String.ofList x)) (parseList cls thn) (parseList cls els)
    | none => .stuck
  | .forRange v cnt body =>
    if isIdent (chars v) then .forRange v (parseAtom cls cnt) (parseList cls body) else .stuck
  | .ret e =>
    match stripSuffix (chars "()") (chars e) with
    | some callee =>
      match parseCallee cls (String.ofList callee) with
      | some (recv, m) => .retCall recv m
      | none => .stuck
    | none => .ret (parseExpr cls e)
  | .forEach _ _ _ => .stuck
  | .while _ _ => .stuck
  | .tryExcept _ _ _ => .stuck
  | .other _ => .stuck

def parseList (cls : String) : List Stmt → List CStmt
  | [] => []
  | s :: rest => parseStmt cls s :: parseList cls rest
end

/-- the value of a default: a literal, or THE object computed once when the `def` was executed -/
def evalDefault (cls p d : String) : Val :=
  match evalLit d with
  | some v => v
  | none => .sym (.dflt cls p) []

/-- a parsed function: parameters after `self`, the defaults of the trailing ones (by name), body; `ok = false`: the parameter list
is outside the fragment (no leading `self`, more defaults than parameters) -/
structure CDef where
  ok : Bool
  params : List String
  dflts : List (String × Val)
  body : List CStmt
deriving Repr

def parseDef (cls : String) (cd : ClassDef) : CDef :=
  match cd.params with
  | "self" :: rest =>
    let tail := rest.drop (rest.length - cd.defaults.length)
    { ok := decide (cd.defaults.length ≤ rest.length), params := rest,
      dflts := (tail.zip cd.defaults).map (fun pd => (pd.1, evalDefault cls pd.1 pd.2)), body := parseList cls cd.body }
  | _ => { ok := false, params := [], dflts := [], body := [] }

/-- a parsed program: the constructors and the methods -/
structure Prog where
  classes : List (String × CDef)
  methods : List ((String × String) × CDef)
deriving Repr

/-- THE program: the generated trees of `classTable` and `methodTable`, parsed -/
def theProg : Prog :=
  { classes := classTable.map fun kc => (kc.1, parseDef kc.1 kc.2),
    methods := methodTable.map fun kc => (kc.1, parseDef kc.1.1 kc.2) }

/-- the program with the constructor of `cls` replaced by (the parse of) an edited definition (for sensitivity examples) -/
def Prog.withClass (pg : Prog) (cls : String) (cd : ClassDef) : Prog :=
  { pg with classes := (cls, parseDef cls cd) :: pg.classes }

/-- the program with method `meth` of `cls` replaced by (the parse of) an edited definition -/
def Prog.withMethod (pg : Prog) (cls meth : String) (cd : ClassDef) : Prog :=
  { pg with methods := ((cls, meth), parseDef cls cd) :: pg.methods }

/-! ### expressions -/

/-- `v.f` (the attribute name already mangled) -/
def readField (w : World) (v : Val) (f : String) : Option Val :=
  match v with
  | .ref a =>
    match w.heap[a]? with
    | some o => if o.cls == "ndarray" && f == "size" then some (.int o.elems.length) else o.fields.lookup f
    | none => none
  | .sym r p => some (.sym r (p ++ [f]))
  | _ => none

def readFields (w : World) : Val → List String → Option Val
  | v, [] => some v
  | v, f :: fs =>
    match readField w v f with
    | some v' => readFields w v' fs
    | none => none

/-- a literal or a path: no effect -/
def evalPure (l : Locals) (w : World) : Atom → Option Val
  | .lit v => some v
  | .path x fs =>
    match l.lookup x with
    | some v => readFields w v fs
    | none => none
  | _ => none

/-- a literal, a path, or `[]` (a FRESH list object) -/
def evalAtom (l : Locals) (w : World) (a : Atom) : Option (Val × World) :=
  match a with
  | .emptyList => some (w.alloc { cls := "list" })
  | a => (evalPure l w a).map fun v => (v, w)

/-- arguments that are atoms: positional values, keyword values, left to right -/
def evalArgsAtom (l : Locals) : List AArg → World → Option (List Val × List (String × Val) × World)
  | [], w => some ([], [], w)
  | (kw, a) :: rest, w =>
    match evalAtom l w a with
    | some (v, w1) =>
      match evalArgsAtom l rest w1 with
      | some (ps, ks, w2) =>
        match kw with
        | some k => some (ps, (k, v) :: ks, w2)
        | none => some (v :: ps, ks, w2)
      | none => none
    | none => none

def toInt (c : Ctx) : Val → Option Int
  | .int i => some i
  | .sym r p => some (c.extInt r p)
  | _ => none

/-- what running `__init__` of a class does: (address of `self`, positional, keyword, world) ↦ world -/
abbrev InitEnv := String → Option (Nat → List Val → List (String × Val) → World → Option World)

/-- `C(args)`: allocate, then initialise -/
def construct (env : InitEnv) (cls : String) (ps : List Val) (ks : List (String × Val)) (w : World) : Option (Val × World) :=
  match env cls with
  | none => none
  | some init =>
    match init w.heap.length ps ks { w with heap := w.heap ++ [{ cls := cls }] } with
    | some w' => some (.ref w.heap.length, w')
    | none => none

def isSeq (cls : String) : Bool := cls == "list" || cls == "ndarray"

def evalExpr (c : Ctx) (env : InitEnv) (l : Locals) : CExpr → World → Option (Val × World)
  | .atom a, w => evalAtom l w a
  | .index b i, w =>
    match evalExpr c env l b w with
    | some (.ref a, w1) =>
      match evalExpr c env l i w1 with
      | some (vi, w2) =>
        match toInt c vi, w2.heap[a]? with
        | some k, some o => if isSeq o.cls && decide (0 ≤ k) then (o.elems[k.toNat]?).map fun v => (v, w2) else none
        | _, _ => none
      | none => none
    | _ => none
  | .add a b, w =>
    match evalExpr c env l a w with
    | some (va, w1) =>
      match evalExpr c env l b w1 with
      | some (vb, w2) =>
        match toInt c va, toInt c vb with
        | some i, some j => some (.int (i + j), w2)
        | _, _ => none
      | none => none
    | none => none
  | .list1 e, w =>
    match evalExpr c env l e w with
    | some (v, w1) => some (w1.alloc { cls := "list", elems := [v] })
    | none => none
  | .ctor k args, w =>
    match evalArgsAtom l args w with
    | some (ps, ks, w1) => construct env k ps ks w1
    | none => none
  | .comp elem count, w =>
    match evalExpr c env l count w, elem with
    | some (vc, w1), some ve =>
      match toInt c vc with
      | some n => some (w1.alloc { cls := "list", elems := List.replicate n.toNat ve })
      | none => none
    | _, _ => none

/-- arguments of a call statement: positional values, keyword values, left to right -/
def evalArgs (c : Ctx) (env : InitEnv) (l : Locals) : List CArg → World → Option (List Val × List (String × Val) × World)
  | [], w => some ([], [], w)
  | (kw, e) :: rest, w =>
    match evalExpr c env l e w with
    | some (v, w1) =>
      match evalArgs c env l rest w1 with
      | some (ps, ks, w2) =>
        match kw with
        | some k => some (ps, (k, v) :: ks, w2)
        | none => some (v :: ps, ks, w2)
      | none => none
    | none => none

/-! ### statements -/

structure St where
  w : World
  l : Locals

inductive Out where
  | normal (st : St)
  | returned (st : St) (v : Val)
  | stuck

/-- `target = v` -/
def storeTo (c : Ctx) (env : InitEnv) (t : LVal) (v : Val) (st : St) : Out :=
  match t with
  | .var x => .normal { st with l := setField st.l x v }
  | .attr x fs f =>
    match evalPure st.l st.w (.path x fs) with
    | some (.ref a) =>
      match st.w.store a f v with
      | some w' => .normal { st with w := w' }
      | none => .stuck
    | _ => .stuck
  | .index b i =>
    match evalExpr c env st.l b st.w with
    | some (.ref a, w1) =>
      match evalExpr c env st.l i w1 with
      | some (vi, w2) =>
        match toInt c vi, w2.heap[a]? with
        | some k, some o =>
          if isSeq o.cls && decide (0 ≤ k) && decide (k.toNat < o.elems.length) then
            .normal { st with w := { w2 with heap := w2.heap.set a { o with elems := o.elems.set k.toNat v } } }
          else .stuck
        | _, _ => .stuck
      | none => .stuck
    | _ => .stuck
  | .bad => .stuck

/-- the value of a call is bound to the targets of the call statement -/
def bindTargets (c : Ctx) (env : InitEnv) (ts : List LVal) (v : Val) (st : St) : Out :=
  match ts with
  | [] => .normal st
  | [t] => storeTo c env t v st
  | _ => .stuck

/-- `recv.m(args)`: `append` on a list object of the heap; any other method of a list or array is outside the fragment; everything
else is traced -/
def methodCall (l : Locals) (w : World) (recv : Atom) (m : String) (ps : List Val) (ks : List (String × Val)) :
    Option (Val × World) :=
  match evalPure l w recv with
  | some rv =>
    let traced : Option (Val × World) :=
      some (.res w.trace.length, { w with trace := w.trace ++ [{ recv := rv, meth := m, args := ps, kwargs := ks }] })
    match rv with
    | .ref a =>
      match w.heap[a]? with
      | some o =>
        if isSeq o.cls then
          if o.cls == "list" && m == "append" then
            match ps, ks with
            | [v], [] => some (.none, { w with heap := w.heap.set a { o with elems := o.elems ++ [v] } })
            | _, _ => none
          else none
        else traced
      | none => none
    | .sym _ _ => traced
    | _ => none
  | none => none

/-- `for v in range(n)` -/
def forLoop (v : String) (body : St → Out) : List Nat → St → Out
  | [], st => .normal st
  | i :: is, st =>
    match body { st with l := setField st.l v (.int i) } with
    | .normal st' => forLoop v body is st'
    | o => o

mutual
/-- one statement -/
def execStmt (c : Ctx) (env : InitEnv) : CStmt → St → Out
  | .assign t e, st =>
    match evalExpr c env st.l e st.w with
    | some (x, w1) => storeTo c env t x { st with w := w1 }
    | none => .stuck
  | .ndarray ts shape, st =>
    match evalExpr c env st.l shape st.w with
    | some (vn, w1) =>
      match toInt c vn with
      | some n =>
        bindTargets c env ts (w1.alloc { cls := "ndarray", elems := List.replicate n.toNat .none }).1
          { st with w := (w1.alloc { cls := "ndarray", elems := List.replicate n.toNat .none }).2 }
      | none => .stuck
    | none => .stuck
  | .construct ts cls args, st =>
    match evalArgs c env st.l args st.w with
    | some (ps, ks, w1) =>
      match construct env cls ps ks w1 with
      | some (r, w2) => bindTargets c env ts r { st with w := w2 }
      | none => .stuck
    | none => .stuck
  | .superInit base args, st =>
    match evalArgs c env st.l args st.w with
    | some (ps, ks, w1) =>
      match base, st.l.lookup "self" with
      | some b, some (.ref a) =>
        match env b with
        | some init =>
          match init a ps ks w1 with
          | some w2 => .normal { st with w := w2 }
          | none => .stuck
        | none => .stuck
      | _, _ => .stuck
    | none => .stuck
  | .record ts cls args, st =>
    match evalArgs c env st.l args st.w with
    | some (ps, ks, w1) =>
      bindTargets c env ts (w1.alloc { cls := cls, fields := (ps.zipIdx.map fun (v, i) => ("#" ++ toString i, v)) ++ ks }).1
        { st with w := (w1.alloc { cls := cls, fields := (ps.zipIdx.map fun (v, i) => ("#" ++ toString i, v)) ++ ks }).2 }
    | none => .stuck
  | .mcall ts recv m args, st =>
    match evalArgs c env st.l args st.w with
    | some (ps, ks, w1) =>
      match methodCall st.l w1 recv m ps ks with
      | some (r, w2) => bindTargets c env ts r { st with w := w2 }
      | none => .stuck
    | none => .stuck
  | .ifNone x thn els, st =>
    match evalPure st.l st.w x with
    | some v => if v == Val.none then execList c env thn st else execList c env els st
    | none => .stuck
  | .forRange v cnt body, st =>
    match evalPure st.l st.w cnt with
    | some vn =>
      match toInt c vn with
      | some n => forLoop v (fun s => execList c env body s) (List.range n.toNat) st
      | none => .stuck
    | none => .stuck
  | .retCall recv m, st =>
    match methodCall st.l st.w recv m [] [] with
    | some (r, w1) => .returned { st with w := w1 } r
    | none => .stuck
  | .ret e, st =>
    match evalExpr c env st.l e st.w with
    | some (v, w1) => .returned { st with w := w1 } v
    | none => .stuck
  | .stuck, _ => .stuck

/-- a statement list: stops at the first outcome that is not `normal` -/
def execList (c : Ctx) (env : InitEnv) : List CStmt → St → Out
  | [], st => .normal st
  | s :: rest, st =>
    match execStmt c env s st with
    | .normal st' => execList c env rest st'
    | o => o
end

/-! ### activations -/

/-- bind the parameters after `self`: positional, keyword, default (`i`: index of the parameter) -/
def bindRest (dflts : List (String × Val)) (ps : List Val) (ks : List (String × Val)) : List String → Nat → Option Locals
  | [], _ => some []
  | p :: rest, i =>
    let v : Option Val :=
      match ps[i]?, ks.lookup p with
      | some _, some _ => none                       -- given twice
      | some v, none => some v
      | none, some v => some v
      | none, none => dflts.lookup p
    match v, bindRest dflts ps ks rest (i + 1) with
    | some v, some l => some ((p, v) :: l)
    | _, _ => none

/-- the locals of an activation (first parameter `self`) -/
def bindParams (d : CDef) (self : Val) (ps : List Val) (ks : List (String × Val)) : Option Locals :=
  if d.ok && decide (ps.length ≤ d.params.length) && ks.all (fun kv => d.params.contains kv.1) then
    (bindRest d.dflts ps ks d.params 0).map fun l => ("self", self) :: l
  else none

def runInit (c : Ctx) (env : InitEnv) (d : CDef) (self : Nat) (ps : List Val) (ks : List (String × Val)) (w : World) :
    Option World :=
  match bindParams d (.ref self) ps ks with
  | none => none
  | some l =>
    match execList c env d.body ⟨w, l⟩ with
    | .normal st => some st.w
    | .returned st _ => some st.w
    | .stuck => none

/-- the constructors of the program `pg` callable at call depth `d` -/
def envN (pg : Prog) (c : Ctx) : Nat → InitEnv
  | 0 => fun _ => none
  | d+1 => fun cls =>
    match pg.classes.lookup cls with
    | some cd => some (runInit c (envN pg c d) cd)
    | none => none

/-- `C(args)` evaluated in the world `w` -/
def new (pg : Prog) (c : Ctx) (depth : Nat) (cls : String) (ps : List Val) (ks : List (String × Val)) (w : World) :
    Option (Val × World) :=
  construct (envN pg c depth) cls ps ks w

/-- run a parsed body on given locals: the world afterwards and the value returned (`none`: fell off the end) -/
def runBody (pg : Prog) (c : Ctx) (depth : Nat) (body : List CStmt) (l : Locals) (w : World) : Option (World × Option Val) :=
  match execList c (envN pg c depth) body ⟨w, l⟩ with
  | .normal st => some (st.w, none)
  | .returned st v => some (st.w, some v)
  | .stuck => none

/-- `self.meth(args)` for a method of the program -/
def callMethod (pg : Prog) (c : Ctx) (depth : Nat) (cls meth : String) (self : Val) (ps : List Val) (ks : List (String × Val))
    (w : World) : Option (World × Option Val) :=
  match pg.methods.lookup (cls, meth) with
  | some d =>
    match bindParams d self ps ks with
    | some l => runBody pg c depth d.body l w
    | none => none
  | none => none

/-- attribute `f` (mangled name) of the heap object at `a` -/
def World.getAttr (w : World) (a : Nat) (f : String) : Option Val := (w.heap[a]?).bind fun o => o.fields.lookup f

/-- the world in which attribute `f` of the object at `a` is `v` -/
def World.setAttr (w : World) (a : Nat) (f : String) (v : Val) : World :=
  match w.heap[a]? with
  | some o => { w with heap := w.heap.set a { o with fields := setField o.fields f v } }
  | none => w

/-- the number of heap objects of a class -/
def World.count (w : World) (cls : String) : Nat := (w.heap.filter fun o => o.cls == cls).length

end WiringInterp

/-! ## The facade: a body that is ONE call of a method of `self.process` -/

namespace Facade
open Gen.ProcSrc WiringInterp

/-- the only primitive: "call procedure `m` of the process table with these argument strings" -/
abbrev Handler (R : Type) := String → List String → Option R

/-- `self.process.m` ↦ `m` -/
def stripProcess (callee : String) : Option String :=
  match stripPrefix (chars "self.process.") (chars callee) with
  | some m => if isIdent m then some (String.ofList m) else none
  | none => none

/-- a facade body: either the expression statement `self.process.m(args)` (its value is dropped: `false`) or
`return self.process.m()` (its value is returned: `true`); anything else is outside the fragment.
The result: method name, argument strings, whether the value is returned. -/
def parseFacade : List Stmt → Option (String × List String × Bool)
  | [.call [] callee args] =>
    match stripProcess callee with
    | some m => some (m, args, false)
    | none => none
  | [.ret e] =>
    match stripSuffix (chars "()") (chars e) with
    | some callee =>
      match stripProcess (String.ofList callee) with
      | some m => some (m, [], true)
      | none => none
    | none => none
  | _ => none

/-- run a facade body: the callee is handed to `h` -/
def exec {R : Type} (h : Handler R) (body : List Stmt) : Option (R × Bool) :=
  match parseFacade body with
  | some (m, args, ret) => (h m args).map fun r => (r, ret)
  | none => none

/-- the methods of `Process`, by name, from the GENERATED trees of `process.py` -/
def processProcs : List (String × (List String × List String × List Stmt)) := [
  ("Solve", (solveParams, solveDefaults, solve)),
  ("DoGlobalIteration", (doGlobalIterationParams, doGlobalIterationDefaults, doGlobalIteration)),
  ("DoLocalRefinement", (doLocalRefinementParams, doLocalRefinementDefaults, doLocalRefinement)),
  ("GetResults", (getResultsParams, getResultsDefaults, getResults))]

section
variable {α : Type} [Add α] [Sub α] [Mul α] [Div α] [Neg α] [LT α] [LE α]
  [DecidableLT α] [DecidableLE α] [OfNat α 0] [OfNat α 1] [OfNat α 2] [OfNat α 4] [Fns α]

/-- the callee resolved through `processProcs`, its arguments bound as `ProcInterp` binds them, its tree run by `ProcInterp.run` -/
def procHandler (c : ProcInterp.Ctx α) (depth fuel : Nat) (ints : List (String × Nat)) (g : ProcInterp.Glob α) :
    Handler (ProcInterp.POut α) :=
  fun m args =>
    match processProcs.lookup m with
    | some (params, defaults, body) =>
      match ProcInterp.bindArgs params defaults args ints with
      | some ints' => some (ProcInterp.run c depth fuel body ints' g)
      | none => none
    | none => none

/-- a facade body run over the control semantics of `process.py` (`ProcInterp`); `ints`: the integer parameters of the facade method -/
def runP (c : ProcInterp.Ctx α) (depth fuel : Nat) (body : List Stmt) (ints : List (String × Nat)) (g : ProcInterp.Glob α) :
    Option (ProcInterp.POut α × Bool) :=
  exec (procHandler c depth fuel ints g) body

/-- the callee resolved through `processProcs`, its tree run by `ReportInterp.run` -/
def reportHandler (c : ReportInterp.Ctx α) (depth : Nat) (ints : List (String × Int)) (g : ReportInterp.Glob α) :
    Handler (ReportInterp.POut α) :=
  fun m args =>
    match processProcs.lookup m with
    | some (params, defaults, body) =>
      match ReportInterp.bindArgs params defaults args ints with
      | some ints' => some (ReportInterp.run c depth body ints' g)
      | none => none
    | none => none

/-- a facade body run over the semantics of `GetResults` / `DoLocalRefinement` (`ReportInterp`) -/
def runR (c : ReportInterp.Ctx α) (depth : Nat) (body : List Stmt) (ints : List (String × Int)) (g : ReportInterp.Glob α) :
    Option (ReportInterp.POut α × Bool) :=
  exec (reportHandler c depth ints g) body

end
end Facade
