import IOptProofs.GrishDefs
/-! kernel-evaluated certificates (V), (G), (P) of the Grishagin functions 41..45 (one block per file, identical template;
one theorem per function so that the kernel's reduction cache is released between functions) -/
namespace Grish
set_option maxRecDepth 100000
theorem grish_ok_41 : grishOK 41 = true := by decide +kernel
theorem grish_ok_42 : grishOK 42 = true := by decide +kernel
theorem grish_ok_43 : grishOK 43 = true := by decide +kernel
theorem grish_ok_44 : grishOK 44 = true := by decide +kernel
theorem grish_ok_45 : grishOK 45 = true := by decide +kernel
theorem grish_block_8 : ∀ k ∈ List.range' 41 5, grishOK k = true := by
  intro k hk
  simp only [List.mem_range'_1] at hk
  obtain ⟨h1, h2⟩ := hk
  have : k = 41 ∨ k = 42 ∨ k = 43 ∨ k = 44 ∨ k = 45 := by omega
  rcases this with rfl | rfl | rfl | rfl | rfl
  · exact grish_ok_41
  · exact grish_ok_42
  · exact grish_ok_43
  · exact grish_ok_44
  · exact grish_ok_45
end Grish
