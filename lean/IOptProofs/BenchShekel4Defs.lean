import IOptProofs.BenchShekelDefs
import IOptGen.Shekel4Tables
import IOptGen.Meta
/-!
# Shekel4: the computable side of the 4-dimensional verified interval branch-and-bound (no Mathlib)

`f(x) = -Σᵢ 1/(Σⱼ (xⱼ - aᵢⱼ)² + cᵢ)` on `[0,10]⁴`.  Same scaled-integer scheme as `BenchShekelDefs`:
coordinates and `a` are multiples of `2^-E`, `c` of `2^-2E`, sums of terms are multiples of `2^-P`.
-/

namespace Shk4
open Shk

/-- an integer box: one `(lo, hi)` per coordinate -/
abbrev Box := List (Nat × Nat)
/-- a term `(aᵢ·2^E, cᵢ·2^(2E))` -/
abbrev Term4 := List Nat × Nat

/-- lower bound of `Σⱼ (Xⱼ - aⱼ)²` over the box -/
def nearSq : Box → List Nat → Nat
  | (lo, hi) :: b, a :: as => Nat.add (sq (near lo hi a)) (nearSq b as)
  | _, _ => 0

/-- upper bound of `Σⱼ (Xⱼ - aⱼ)²` over the box -/
def farSq : Box → List Nat → Nat
  | (lo, hi) :: b, a :: as => Nat.add (sq (far lo hi a)) (farSq b as)
  | _, _ => 0

def t4Up (A : Nat) (t : Term4) (b : Box) : Nat := divUp A (Nat.add (nearSq b t.1) t.2)
def t4Dn (A : Nat) (t : Term4) (b : Box) : Nat := Nat.div A (Nat.add (farSq b t.1) t.2)

def s4Up (A : Nat) : List Term4 → Box → Nat
  | [], _ => 0
  | t :: ts, b => Nat.add (t4Up A t b) (s4Up A ts b)

def s4Dn (A : Nat) : List Term4 → Box → Nat
  | [], _ => 0
  | t :: ts, b => Nat.add (t4Dn A t b) (s4Dn A ts b)

/-- the largest side -/
def width : Box → Nat
  | [] => 0
  | (lo, hi) :: b => if Nat.ble (width b) (Nat.sub hi lo) then Nat.sub hi lo else width b

/-- bisect the first side of length at least `w` -/
def splitW (w : Nat) : Box → Box × Box
  | [] => ([], [])
  | (lo, hi) :: b =>
    if Nat.ble w (Nat.sub hi lo) then
      ((lo, Nat.div (Nat.add lo hi) 2) :: b, (Nat.div (Nat.add lo hi) 2, hi) :: b)
    else ((lo, hi) :: (splitW w b).1, (lo, hi) :: (splitW w b).2)

def forceBox : Box → (Box → Bool) → Bool
  | [], k => k []
  | (lo, hi) :: b, k => forceNat lo fun lo => forceNat hi fun hi => forceBox b fun b => k ((lo, hi) :: b)

def forceList : List Nat → (List Nat → Bool) → Bool
  | [], k => k []
  | a :: as, k => forceNat a fun a => forceList as fun as => k (a :: as)

def forceTerms4 : List Term4 → (List Term4 → Bool) → Bool
  | [], k => k []
  | (a, c) :: ts, k => forceList a fun a => forceNat c fun c => forceTerms4 ts fun ts => k ((a, c) :: ts)

/-- branch and bound: `true` means that every point of the box either is accepted by `acc` or has
`f ≥ -T/2^P` -/
def bnb4 (A : Nat) (ts : List Term4) (T : Nat) (acc : Box → Bool) : Nat → Box → Bool
  | 0, b => acc b || Nat.ble (s4Up A ts b) T
  | fuel + 1, b =>
    acc b || Nat.ble (s4Up A ts b) T ||
      (Nat.blt 1 (width b) &&
        forceBox (splitW (width b) b).1 fun l => forceBox (splitW (width b) b).2 fun r =>
          (bnb4 A ts T acc fuel l && bnb4 A ts T acc fuel r))

/-- the box lies strictly inside the zone, coordinate by coordinate -/
def inZone : Box → Box → Bool
  | [], [] => true
  | (zl, zh) :: z, (lo, hi) :: b => Nat.blt zl lo && Nat.blt hi zh && inZone z b
  | _, _ => false

/-- the scaled terms -/
def terms4 (E : Nat) (a : List (List Dy)) (c : List Dy) : List Term4 :=
  List.zip (a.map fun ai => ai.map (scale E)) (c.map fun d => scale E d * 2 ^ E)

def tab4OK (E : Nat) (a : List (List Dy)) (c : List Dy) : Bool :=
  a.all (fun ai => ai.all (scaleOK E)) && c.all (fun d => scaleOK E d && decide (0 < d.1))

/-- radius of the location clause, per coordinate: `25/1024` (so the Euclidean distance in dimension 4 is
below `2·25/1024 < 0.05`) -/
def radius4 (E : Nat) : Nat := 25 * 2 ^ (E - 10)

def exp4For (a : List (List Dy)) (c p : List Dy) : Nat := max (maxExp (a.flatten ++ c ++ p)) 10

/-- the certificate with the common exponent given -/
def shekel4CertE (E : Nat) (a : List (List Dy)) (c : List Dy) (v : Dy) (p : List Dy) : Bool :=
  forceNat (2 ^ (2 * E + P)) fun A =>
  forceNat (10 * 2 ^ E) fun X10 =>
  forceNat (radius4 E) fun R =>
  tab4OK E a c && p.all (scaleOK E) &&
  forceList (p.map (scale E)) fun X =>
  X.all (fun Xj => Nat.ble Xj X10) &&
  forceTerms4 (terms4 E a c) fun ts =>
  forceNat (s4Up A ts (X.map fun Xj => (Xj, Xj))) fun up =>
  forceNat (s4Dn A ts (X.map fun Xj => (Xj, Xj))) fun dn =>
  decide (v.toRat - 1 / 10000 ≤ -(up : Rat) / 2 ^ P) && decide (-(dn : Rat) / 2 ^ P ≤ v.toRat + 1 / 10000) &&
  decide (0 ≤ (-(v.toRat - 2 / 1000 * qmax1 (qabs v.toRat)) * 2 ^ P).floor) &&
  forceNat (-(v.toRat - 2 / 1000 * qmax1 (qabs v.toRat)) * 2 ^ P).floor.toNat
    (fun T => bnb4 A ts T (fun _ => false) 300 (X.map fun _ => (0, X10))) &&
  Nat.blt 0 dn &&
  bnb4 A ts (Nat.sub dn 1) (inZone (X.map fun Xj => (Nat.sub Xj R, Nat.add Xj R))) 300 (X.map fun _ => (0, X10))

/-- **The C10 certificate of one Shekel4 function** with rows `a`, `c`, declared value `v` at the declared
point `p` -/
def shekel4Cert (a : List (List Dy)) (c : List Dy) (v : Dy) (p : List Dy) : Bool :=
  forceNat (exp4For a c p) fun E => shekel4CertE E a c v p

/-- the first metadata row of family `fam` with argument `arg` (among the first `n` rows) -/
def findRow (fam arg : Nat) : List Nat → Nat → Option Nat
  | [], _ => none
  | _ :: _, 0 => none
  | x :: t, n + 1 =>
    if Dy.word (x + (n - n)) 0 == fam && Dy.word (x + (n - n)) 1 == arg then some x else findRow fam arg t n

/-- rows `a[0..m)`, `c[0..m)` of the generated table -/
def s4A (m : Nat) : List (List Dy) := (List.range m).map Gen.shekel4A
def s4C (m : Nat) : List Dy := (List.range m).map Gen.shekel4C

/-- the certificate of `Shekel4(n)`, n = 1, 2, 3: coefficients from `Gen.shekel4Rows` (first `maxI[n-1]`
rows), declared point and value from the metadata row of family 2 with argument `n` -/
def shekel4OK (n : Nat) : Bool :=
  match findRow 2 n Gen.metaRowsPacked.toList 1000000 with
  | none => false
  | some row =>
    shekel4Cert (s4A (Gen.shekel4MaxI[n - 1]!)) (s4C (Gen.shekel4MaxI[n - 1]!))
      (Gen.metaDecode row).optValue (Gen.metaDecode row).optPoint

end Shk4
