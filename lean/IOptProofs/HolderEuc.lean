import IOptProofs.HolderCover
import Mathlib.Analysis.InnerProductSpace.PiL2
/-!
# `Ev.dist2` is the distance of `EuclideanSpace ℝ (Fin n)`; Lipschitz objectives on a box  (worker h)
-/

namespace Ev

/-- a coordinate list as a point of Mathlib's Euclidean space -/
noncomputable def toEuc (n : Nat) (a : List ℝ) : EuclideanSpace ℝ (Fin n) :=
  WithLp.toLp 2 (fun i : Fin n => getR a i)

/-- `dist2` is the Euclidean distance of Mathlib's `EuclideanSpace ℝ (Fin n)` -/
theorem dist2_eq_dist {n : Nat} {a b : List ℝ} (ha : a.length = n) (hb : b.length = n) :
    dist2 a b = dist (toEuc n a) (toEuc n b) := by
  rw [EuclideanSpace.dist_eq]
  unfold dist2
  congr 1
  rw [sqDist_eq_sum ha hb, ← Fin.sum_univ_eq_sum_range (fun i => (getR a i - getR b i)^2) n]
  apply Finset.sum_congr rfl
  intro i _
  simp only [toEuc, Real.dist_eq, sq_abs]

/-- `b` is a point of the box `[lower, upper]` -/
def InBox (lower upper b : List ℝ) : Prop :=
  b.length = lower.length ∧
  ∀ i (_ : i < b.length) (_ : i < lower.length) (_ : i < upper.length),
    lower[i] ≤ b[i] ∧ b[i] ≤ upper[i]

/-- `__TransformP2D` maps the cube into the box -/
theorem p2d_inBox {n : Nat} {lower upper y : List ℝ} (hl : lower.length = n) (hu : upper.length = n)
    (hle : ∀ i (h1 : i < lower.length) (h2 : i < upper.length), lower[i] ≤ upper[i])
    (hy : InCube n y) : InBox lower upper (p2d lower upper y) := by
  have hlen : (p2d lower upper y).length = n := by rw [Num.length_p2d, hl, hu, hy.1]; simp
  refine ⟨by rw [hlen, hl], ?_⟩
  intro i h0 h1 h2
  have hi : i < y.length := by rw [hy.1, ← hlen]; exact h0
  rw [Num.getElem_p2d lower upper y i h0 hi h1 h2]
  have hb := abs_le.1 (hy.2 _ (List.getElem_mem hi))
  have hd : 0 ≤ upper[i] - lower[i] := sub_nonneg.2 (hle i h1 h2)
  constructor <;> nlinarith [hb.1, hb.2]

/-- an objective that is `Lb`-Lipschitz on the box `[lower, upper]` is, after normalisation of the
box to unit side (`fb ∘ __TransformP2D`), `Lb·max_i(upper_i - lower_i)`-Lipschitz on the cube -/
theorem lipCube_of_lipBox {n : Nat} {lower upper : List ℝ} (hl : lower.length = n)
    (hu : upper.length = n)
    (hle : ∀ i (h1 : i < lower.length) (h2 : i < upper.length), lower[i] ≤ upper[i])
    {fb : List ℝ → ℝ} {Lb : ℝ} (hLb : 0 ≤ Lb)
    (hfb : ∀ b b', InBox lower upper b → InBox lower upper b' → |fb b - fb b'| ≤ Lb * dist2 b b') :
    LipCube n (fun y => fb (p2d lower upper y)) (Lb * maxSide lower upper) := by
  intro a b ha hb
  have h1 := hfb _ _ (p2d_inBox hl hu hle ha) (p2d_inBox hl hu hle hb)
  have h2 : dist2 (p2d lower upper a) (p2d lower upper b) ≤ maxSide lower upper * dist2 a b := by
    apply dist2_p2d_le hl hu ha.1 hb.1 (maxSide_nonneg _ _)
    intro i hi
    have h1 : i < lower.length := by rw [hl]; exact hi
    have h2 : i < upper.length := by rw [hu]; exact hi
    rw [abs_of_nonneg]
    · exact le_maxSide h1 h2
    · rw [getR_eq_getElem h1, getR_eq_getElem h2]
      exact sub_nonneg.2 (hle i h1 h2)
  calc _ ≤ Lb * dist2 (p2d lower upper a) (p2d lower upper b) := h1
    _ ≤ Lb * (maxSide lower upper * dist2 a b) := mul_le_mul_of_nonneg_left h2 hLb
    _ = _ := by ring

end Ev
