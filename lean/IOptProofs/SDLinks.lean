import IOptProofs.SDQueue

/-!
# The doubly linked list of `SearchData` (helper lemmas for C19)

The list structure only depends on `s.trials` and `s.first`; everything is therefore phrased on the
array of items.  `Rep tr first t` says that the id list `t` is the linked list stored in `tr`
(`t` enumerates every id once, neighbour links are mutually consistent, coordinates are sorted).
Under `Rep` the model's `traversal` is `t`, and every operation transforms `t` in a simple way.
-/

namespace SD

variable {χ κ : Type}

theorem append_cons_inj_left {α : Type} {a : α} {l1 l2 r1 r2 : List α} (h1 : a ∉ l1) (h2 : a ∉ l2)
    (e : l1 ++ a :: r1 = l2 ++ a :: r2) : l1 = l2 := by
  induction l1 generalizing l2 with
  | nil =>
    cases l2 with
    | nil => rfl
    | cons b l2 =>
      simp only [List.nil_append, List.cons_append, List.cons.injEq] at e
      exact absurd (by rw [e.1]; exact List.mem_cons_self) h2
  | cons b l1 ih =>
    cases l2 with
    | nil =>
      simp only [List.nil_append, List.cons_append, List.cons.injEq] at e
      exact absurd (by rw [← e.1]; exact List.mem_cons_self) h1
    | cons c l2 =>
      simp only [List.cons_append, List.cons.injEq] at e
      rw [e.1, ih (fun h => h1 (List.mem_cons_of_mem _ h)) (fun h => h2 (List.mem_cons_of_mem _ h)) e.2]

/-! ## link view of the array -/

/-- `(left, right)` of item `i` -/
def linkOf (tr : Array (Item χ κ)) (i : Nat) : Option (Option Nat × Option Nat) :=
  tr[i]?.map fun it => (it.left, it.right)

/-- coordinate of item `i` -/
def xOf (tr : Array (Item χ κ)) (i : Nat) : Option χ := tr[i]?.map (·.x)

def headOr (t : List Nat) (nxt : Option Nat) : Option Nat :=
  match t with
  | [] => nxt
  | a :: _ => some a

def lastOr : List Nat → Option Nat → Option Nat
  | [], prev => prev
  | a :: t, _ => lastOr t (some a)

@[simp] theorem headOr_nil (nxt : Option Nat) : headOr [] nxt = nxt := rfl
@[simp] theorem headOr_cons (a : Nat) (t : List Nat) (nxt : Option Nat) : headOr (a :: t) nxt = some a := rfl
@[simp] theorem lastOr_nil (prev : Option Nat) : lastOr [] prev = prev := rfl
@[simp] theorem lastOr_cons (a : Nat) (t : List Nat) (prev : Option Nat) :
    lastOr (a :: t) prev = lastOr t (some a) := rfl

theorem headOr_none (t : List Nat) : headOr t none = t.head? := by cases t <;> rfl

theorem headOr_append (t1 t2 : List Nat) (nxt : Option Nat) :
    headOr (t1 ++ t2) nxt = headOr t1 (headOr t2 nxt) := by cases t1 <;> rfl

theorem lastOr_append_singleton (t : List Nat) (a : Nat) (prev : Option Nat) :
    lastOr (t ++ [a]) prev = some a := by
  induction t generalizing prev with
  | nil => rfl
  | cons b t ih => simp [ih]

/-- the segment `t` of the linked list, with `prev` left of it and `nxt` right of it:
every item's `left`/`right` point to its neighbours in the list -/
def Seg (tr : Array (Item χ κ)) : Option Nat → List Nat → Option Nat → Prop
  | _, [], _ => True
  | prev, a :: rest, nxt => linkOf tr a = some (prev, headOr rest nxt) ∧ Seg tr (some a) rest nxt

@[simp] theorem Seg_nil (tr : Array (Item χ κ)) (prev nxt : Option Nat) : Seg tr prev [] nxt = True := rfl

theorem Seg_cons (tr : Array (Item χ κ)) (prev nxt : Option Nat) (a : Nat) (rest : List Nat) :
    Seg tr prev (a :: rest) nxt ↔
      linkOf tr a = some (prev, headOr rest nxt) ∧ Seg tr (some a) rest nxt := Iff.rfl

theorem Seg_append (tr : Array (Item χ κ)) (prev nxt : Option Nat) (t1 t2 : List Nat) :
    Seg tr prev (t1 ++ t2) nxt ↔
      Seg tr prev t1 (headOr t2 nxt) ∧ Seg tr (lastOr t1 prev) t2 nxt := by
  induction t1 generalizing prev with
  | nil => simp
  | cons a t1 ih =>
    simp only [List.cons_append, Seg_cons, ih, headOr_append, lastOr_cons, and_assoc]

theorem Seg_congr {tr tr' : Array (Item χ κ)} {prev nxt : Option Nat} {t : List Nat}
    (h : ∀ a ∈ t, linkOf tr' a = linkOf tr a) : Seg tr' prev t nxt ↔ Seg tr prev t nxt := by
  induction t generalizing prev with
  | nil => simp
  | cons a t ih =>
    simp only [Seg_cons, h a (List.mem_cons_self), ih (fun b hb => h b (List.mem_cons_of_mem _ hb))]

theorem Seg.mem_lt {tr : Array (Item χ κ)} {prev nxt : Option Nat} {t : List Nat}
    (h : Seg tr prev t nxt) : ∀ a ∈ t, a < tr.size := by
  induction t generalizing prev with
  | nil => simp
  | cons a t ih =>
    intro b hb
    rcases List.mem_cons.1 hb with rfl | hb
    · have := h.1
      unfold linkOf at this
      by_contra hlt
      rw [Array.getElem?_eq_none (by omega)] at this
      simp at this
    · exact ih h.2 b hb

theorem linkOf_eq_some {tr : Array (Item χ κ)} {a : Nat} {p q : Option Nat} :
    linkOf tr a = some (p, q) ↔ ∃ ia, tr[a]? = some ia ∧ ia.left = p ∧ ia.right = q := by
  unfold linkOf
  cases tr[a]? with
  | none => simp
  | some ia => simp

/-- `Seg` from its pointwise reading: consecutive ids are linked both ways, the first id's `left`
is `prev`, the last id's `right` is `nxt`. -/
theorem Seg_of_clauses {tr : Array (Item χ κ)} (T : List Nat) (prev nxt : Option Nat)
    (hcons : ∀ A a b B, T = A ++ a :: b :: B →
      ∃ ia ib, tr[a]? = some ia ∧ tr[b]? = some ib ∧ ia.right = some b ∧ ib.left = some a)
    (hhead : ∀ a B, T = a :: B → ∃ ia, tr[a]? = some ia ∧ ia.left = prev)
    (hlast : ∀ A a, T = A ++ [a] → ∃ ia, tr[a]? = some ia ∧ ia.right = nxt) :
    Seg tr prev T nxt := by
  induction T generalizing prev with
  | nil => trivial
  | cons a rest ih =>
    obtain ⟨ia, hia, hleft⟩ := hhead a rest rfl
    refine ⟨?_, ih (some a) ?_ ?_ ?_⟩
    · rw [linkOf_eq_some]
      refine ⟨ia, hia, hleft, ?_⟩
      cases rest with
      | nil =>
        obtain ⟨ia', hia', hr⟩ := hlast [] a rfl
        rw [hia] at hia'; cases hia'
        exact hr
      | cons b rest' =>
        obtain ⟨ia', ib, hia', -, hr, -⟩ := hcons [] a b rest' rfl
        rw [hia] at hia'; cases hia'
        exact hr
    · intro A x y B hT
      exact hcons (a :: A) x y B (by rw [hT]; rfl)
    · intro b B hT
      obtain ⟨-, ib, -, hib, -, hl⟩ := hcons [] a b B (by rw [hT]; rfl)
      exact ⟨ib, hib, hl⟩
    · intro A z hT
      exact hlast (a :: A) z (by rw [hT]; rfl)

/-! ## the walk -/

/-- `walk` on the array -/
def walkA (tr : Array (Item χ κ)) : Nat → Option Nat → List Nat
  | 0, _ => []
  | _, none => []
  | fuel+1, some i => i :: walkA tr fuel (tr[i]?.bind (·.right))

theorem walk_eq_walkA (s : State χ κ) (fuel : Nat) (o : Option Nat) :
    walk s fuel o = walkA s.trials fuel o := by
  induction fuel generalizing o with
  | zero => cases o <;> rfl
  | succ n ih =>
    cases o with
    | none => rfl
    | some i => simp only [walk, walkA, ih]

theorem walkA_none (tr : Array (Item χ κ)) (fuel : Nat) : walkA tr fuel none = [] := by
  cases fuel <;> rfl

theorem right_of_linkOf {tr : Array (Item χ κ)} {a : Nat} {l r : Option Nat}
    (h : linkOf tr a = some (l, r)) : tr[a]?.bind (·.right) = r := by
  unfold linkOf at h
  cases hg : tr[a]? with
  | none => rw [hg] at h; simp at h
  | some it =>
    rw [hg] at h
    simp only [Option.map_some, Option.some.injEq, Prod.mk.injEq] at h
    simp [h.2]

theorem walkA_seg {tr : Array (Item χ κ)} {prev nxt : Option Nat} {t : List Nat}
    (h : Seg tr prev t nxt) (k : Nat) :
    walkA tr (t.length + k) (headOr t nxt) = t ++ walkA tr k nxt := by
  induction t generalizing prev with
  | nil => simp
  | cons a t ih =>
    have e : (a :: t).length + k = (t.length + k) + 1 := by simp; omega
    rw [e, headOr_cons, walkA, right_of_linkOf h.1, ih h.2]
    rfl

theorem traversal_eq_walkA (s : State χ κ) : traversal s = walkA s.trials s.trials.size s.first :=
  walk_eq_walkA s _ _

theorem traversal_congr {s s' : State χ κ} (h1 : s'.trials = s.trials) (h2 : s'.first = s.first) :
    traversal s' = traversal s := by
  rw [traversal_eq_walkA, traversal_eq_walkA, h1, h2]

/-! ## the representation invariant -/

section
variable [LinearOrder χ]

/-- coordinates of `a` and `b` (when present) are ordered -/
def xle (tr : Array (Item χ κ)) (a b : Nat) : Prop :=
  ∀ xa xb, xOf tr a = some xa → xOf tr b = some xb → xa ≤ xb

omit [LinearOrder χ] in
/-- the link part of the representation invariant: `t` enumerates every id once, starts at
`first`, and the `left`/`right` pointers are exactly the neighbours in `t` -/
structure RepL (tr : Array (Item χ κ)) (first : Option Nat) (t : List Nat) : Prop where
  first_eq : first = t.head?
  ne_nil : t ≠ []
  perm : t.Perm (List.range tr.size)
  seg : Seg tr none t none

omit [LinearOrder χ] in
theorem RepL.length_eq {tr : Array (Item χ κ)} {first : Option Nat} {t : List Nat}
    (h : RepL tr first t) : t.length = tr.size := by
  rw [h.perm.length_eq, List.length_range]

omit [LinearOrder χ] in
theorem RepL.nodup {tr : Array (Item χ κ)} {first : Option Nat} {t : List Nat}
    (h : RepL tr first t) : t.Nodup := h.perm.nodup_iff.2 List.nodup_range

omit [LinearOrder χ] in
theorem RepL.mem_iff {tr : Array (Item χ κ)} {first : Option Nat} {t : List Nat}
    (h : RepL tr first t) {a : Nat} : a ∈ t ↔ a < tr.size := by
  rw [h.perm.mem_iff, List.mem_range]

omit [LinearOrder χ] in
theorem RepL.walk_eq {tr : Array (Item χ κ)} {first : Option Nat} {t : List Nat}
    (h : RepL tr first t) : walkA tr tr.size first = t := by
  have := walkA_seg h.seg 0
  rw [walkA_none, List.append_nil, Nat.add_zero, h.length_eq, headOr_none, ← h.first_eq] at this
  exact this

omit [LinearOrder χ] in
theorem RepL.traversal_eq {s : State χ κ} {t : List Nat} (h : RepL s.trials s.first t) :
    traversal s = t := by
  rw [traversal_eq_walkA]; exact h.walk_eq

/-- `t` is the linked list stored in `(tr, first)` -/
structure Rep (tr : Array (Item χ κ)) (first : Option Nat) (t : List Nat) : Prop where
  first_eq : first = t.head?
  ne_nil : t ≠ []
  perm : t.Perm (List.range tr.size)
  seg : Seg tr none t none
  sorted : t.Pairwise (xle tr)

theorem Rep.repL {tr : Array (Item χ κ)} {first : Option Nat} {t : List Nat}
    (h : Rep tr first t) : RepL tr first t := ⟨h.first_eq, h.ne_nil, h.perm, h.seg⟩

omit [LinearOrder χ] in
theorem RepL.split_facts {tr : Array (Item χ κ)} {first : Option Nat} {pre' post : List Nat}
    {l r : Nat} (h : RepL tr first (pre' ++ l :: r :: post)) :
    l < tr.size ∧ r < tr.size ∧ l ≠ r := by
  refine ⟨h.mem_iff.1 (by simp), h.mem_iff.1 (by simp), ?_⟩
  have hnd := h.nodup
  rw [List.nodup_append] at hnd
  have h2 := hnd.2.1
  rw [List.nodup_cons] at h2
  intro e
  exact h2.1 (by rw [e]; simp)

theorem Rep.split_facts {tr : Array (Item χ κ)} {first : Option Nat} {pre' post : List Nat}
    {l r : Nat} (h : Rep tr first (pre' ++ l :: r :: post)) :
    l < tr.size ∧ r < tr.size ∧ l ≠ r := h.repL.split_facts

theorem Rep.length_eq {tr : Array (Item χ κ)} {first : Option Nat} {t : List Nat}
    (h : Rep tr first t) : t.length = tr.size := by
  rw [h.perm.length_eq, List.length_range]

theorem Rep.nodup {tr : Array (Item χ κ)} {first : Option Nat} {t : List Nat}
    (h : Rep tr first t) : t.Nodup := h.perm.nodup_iff.2 List.nodup_range

theorem Rep.mem_iff {tr : Array (Item χ κ)} {first : Option Nat} {t : List Nat}
    (h : Rep tr first t) {a : Nat} : a ∈ t ↔ a < tr.size := by
  rw [h.perm.mem_iff, List.mem_range]

theorem Rep.walk_eq {tr : Array (Item χ κ)} {first : Option Nat} {t : List Nat}
    (h : Rep tr first t) : walkA tr tr.size first = t := by
  have := walkA_seg h.seg 0
  rw [walkA_none, List.append_nil, Nat.add_zero, h.length_eq, headOr_none, ← h.first_eq] at this
  exact this

/-- well-formedness of the container -/
def WF (s : State χ κ) : Prop := Rep s.trials s.first (traversal s)

theorem Rep.traversal_eq {s : State χ κ} {t : List Nat} (h : Rep s.trials s.first t) :
    traversal s = t := by
  rw [traversal_eq_walkA]; exact h.walk_eq

theorem Rep.wf {s : State χ κ} {t : List Nat} (h : Rep s.trials s.first t) : WF s := by
  unfold WF; rw [h.traversal_eq]; exact h

theorem WF_congr {s s' : State χ κ} (h1 : s'.trials = s.trials) (h2 : s'.first = s.first) :
    WF s' ↔ WF s := by
  have ht : traversal s' = traversal s := traversal_congr h1 h2
  unfold WF
  rw [ht, h1, h2]

/-! ## the initial state -/

theorem Rep_insertFirst (m : Option Nat) (d : Bool) (l r : Item χ κ) (hl : l.left = none)
    (hr : r.right = none) (hx : l.x ≤ r.x) :
    let s := insertFirst ({ maxlen := m, dual := d } : State χ κ) l r
    Rep s.trials s.first [0, 1] := by
  intro s
  have htr : s.trials = #[{ l with right := some 1 }, { r with left := some 0 }] := rfl
  refine ⟨rfl, by simp, ?_, ?_, ?_⟩
  · rw [htr]; exact List.Perm.refl _
  · rw [htr]
    simp [Seg, linkOf, hl, hr]
  · rw [htr]
    simp [xle, xOf, hx]

/-! ## insertion -/

/-- the array after `InsertDataItem(new, r)` where `l` is the old left neighbour of `r` -/
def insTrials (tr : Array (Item χ κ)) (new : Item χ κ) (l r : Nat) : Array (Item χ κ) :=
  ((tr.push { new with left := some l, right := some r }).modify r
      (fun it => { it with left := some tr.size })).modify l
      (fun it => { it with right := some tr.size })

omit [LinearOrder χ] in
theorem insTrials_size (tr : Array (Item χ κ)) (new : Item χ κ) (l r : Nat) :
    (insTrials tr new l r).size = tr.size + 1 := by
  simp [insTrials]

omit [LinearOrder χ] in
theorem insTrials_getElem? (tr : Array (Item χ κ)) (new : Item χ κ) (l r i : Nat)
    (hl : l < tr.size) (hr : r < tr.size) (hlr : l ≠ r) :
    (insTrials tr new l r)[i]? =
      if i = tr.size then some { new with left := some l, right := some r }
      else if i = l then tr[i]?.map (fun it => { it with right := some tr.size })
      else if i = r then tr[i]?.map (fun it => { it with left := some tr.size })
      else tr[i]? := by
  unfold insTrials
  rw [Array.getElem?_modify, Array.getElem?_modify, Array.getElem?_push]
  by_cases h1 : i = tr.size
  · subst h1
    have : l ≠ tr.size := by omega
    have : r ≠ tr.size := by omega
    simp [*]
  · by_cases h2 : i = l
    · subst h2
      have : r ≠ i := fun h => hlr h.symm
      simp [*]
    · have : l ≠ i := fun h => h2 h.symm
      by_cases h3 : i = r
      · subst h3; simp [*]
      · have : r ≠ i := fun h => h3 h.symm
        simp [*]

omit [LinearOrder χ] in
theorem insTrials_xOf (tr : Array (Item χ κ)) (new : Item χ κ) (l r i : Nat)
    (hl : l < tr.size) (hr : r < tr.size) (hlr : l ≠ r) :
    xOf (insTrials tr new l r) i = if i = tr.size then some new.x else xOf tr i := by
  unfold xOf
  rw [insTrials_getElem? tr new l r i hl hr hlr]
  by_cases h1 : i = tr.size
  · simp [h1]
  · by_cases h2 : i = l
    · subst h2
      rw [if_neg h1, if_pos rfl, if_neg h1]
      cases tr[i]? <;> rfl
    · by_cases h3 : i = r
      · subst h3
        rw [if_neg h1, if_neg h2, if_pos rfl, if_neg h1]
        cases tr[i]? <;> rfl
      · simp [h1, h2, h3]

omit [LinearOrder χ] in
theorem insTrials_linkOf (tr : Array (Item χ κ)) (new : Item χ κ) (l r i : Nat)
    (hl : l < tr.size) (hr : r < tr.size) (hlr : l ≠ r) :
    linkOf (insTrials tr new l r) i =
      if i = tr.size then some (some l, some r)
      else if i = l then (linkOf tr i).map (fun p => (p.1, some tr.size))
      else if i = r then (linkOf tr i).map (fun p => (some tr.size, p.2))
      else linkOf tr i := by
  unfold linkOf
  rw [insTrials_getElem? tr new l r i hl hr hlr]
  by_cases h1 : i = tr.size
  · simp [h1]
  · by_cases h2 : i = l
    · subst h2
      rw [if_neg h1, if_pos rfl, if_neg h1, if_pos rfl]
      cases tr[i]? <;> rfl
    · by_cases h3 : i = r
      · subst h3
        rw [if_neg h1, if_neg h2, if_pos rfl, if_neg h1, if_neg h2, if_pos rfl]
        cases tr[i]? <;> rfl
      · simp [h1, h2, h3]

omit [LinearOrder χ] in
/-- The list transformation of an insertion (links only; no order assumption): the new id goes
between `l` and `r`. -/
theorem RepL_insTrials {tr : Array (Item χ κ)} {first : Option Nat} {pre' post : List Nat}
    {l r : Nat} (new : Item χ κ)
    (h : RepL tr first (pre' ++ l :: r :: post)) :
    RepL (insTrials tr new l r) first (pre' ++ l :: tr.size :: r :: post) := by
  have hnd := h.nodup
  have hmem : ∀ a ∈ pre' ++ l :: r :: post, a < tr.size := fun a ha => h.mem_iff.1 ha
  have hl : l < tr.size := hmem l (by simp)
  have hr : r < tr.size := hmem r (by simp)
  rw [List.nodup_append] at hnd
  obtain ⟨hnd1, hnd2, hnd3⟩ := hnd
  rw [List.nodup_cons, List.nodup_cons] at hnd2
  obtain ⟨hl2, hr2, hnd4⟩ := hnd2
  have hlr : l ≠ r := fun e => hl2 (by rw [e]; simp)
  have hlpost : l ∉ post := fun e => hl2 (by simp [e])
  have hlpre : l ∉ pre' := fun e => hnd3 l e l (by simp) rfl
  have hrpre : r ∉ pre' := fun e => hnd3 r e r (by simp) rfl
  have hLink := insTrials_linkOf tr new l r
  refine ⟨?_, by simp, ?_, ?_⟩
  · rw [h.first_eq]; cases pre' <;> rfl
  · rw [insTrials_size, List.range_succ]
    have h1 : (pre' ++ l :: tr.size :: r :: post).Perm (tr.size :: (pre' ++ l :: r :: post)) := by
      have : pre' ++ l :: tr.size :: r :: post = (pre' ++ [l]) ++ tr.size :: (r :: post) := by simp
      rw [this]
      refine List.perm_middle.trans ?_
      simp
    refine h1.trans ?_
    refine (List.Perm.cons _ h.perm).trans ?_
    exact (List.perm_append_singleton _ _).symm
  · -- links
    have hseg := h.seg
    rw [Seg_append, Seg_cons, Seg_cons] at hseg
    obtain ⟨hs1, hs2, hs3, hs4⟩ := hseg
    rw [Seg_append, Seg_cons, Seg_cons, Seg_cons]
    refine ⟨?_, ?_, ?_, ?_, ?_⟩
    · rw [Seg_congr (tr := tr)]
      · exact hs1
      · intro a ha
        have : a < tr.size := hmem a (by simp [ha])
        have h1 : a ≠ l := fun e => hlpre (e ▸ ha)
        have h2 : a ≠ r := fun e => hrpre (e ▸ ha)
        rw [hLink a hl hr hlr, if_neg (by omega), if_neg h1, if_neg h2]
    · rw [hLink l hl hr hlr, if_neg (by omega), if_pos rfl, hs2]; rfl
    · rw [hLink _ hl hr hlr, if_pos rfl]; rfl
    · rw [hLink r hl hr hlr, if_neg (by omega), if_neg (fun e => hlr e.symm), if_pos rfl, hs3]; rfl
    · rw [Seg_congr (tr := tr)]
      · exact hs4
      · intro a ha
        have : a < tr.size := hmem a (by simp [ha])
        have h1 : a ≠ l := fun e => hlpost (e ▸ ha)
        have h2 : a ≠ r := fun e => hr2 (e ▸ ha)
        rw [hLink a hl hr hlr, if_neg (by omega), if_neg h1, if_neg h2]

/-- The list transformation of an insertion: the new id goes between `l` and `r`. -/
theorem Rep_insTrials {tr : Array (Item χ κ)} {first : Option Nat} {pre' post : List Nat}
    {l r : Nat} (new : Item χ κ)
    (h : Rep tr first (pre' ++ l :: r :: post))
    (hA : ∀ a ∈ pre' ++ [l], ∀ xa, xOf tr a = some xa → xa ≤ new.x)
    (hB : ∀ b ∈ r :: post, ∀ xb, xOf tr b = some xb → new.x ≤ xb) :
    Rep (insTrials tr new l r) first (pre' ++ l :: tr.size :: r :: post) := by
  have hL := RepL_insTrials new h.repL
  have hmem : ∀ a ∈ pre' ++ l :: r :: post, a < tr.size := fun a ha => h.mem_iff.1 ha
  obtain ⟨hl, hr, hlr⟩ := h.split_facts
  have hX := insTrials_xOf tr new l r
  refine ⟨hL.first_eq, hL.ne_nil, hL.perm, hL.seg, ?_⟩
  · -- sortedness
    have hold : ∀ a, a < tr.size → xOf (insTrials tr new l r) a = xOf tr a := by
      intro a ha; rw [hX a hl hr hlr, if_neg (by omega)]
    have hnew : xOf (insTrials tr new l r) tr.size = some new.x := by
      rw [hX _ hl hr hlr, if_pos rfl]
    have hs : (pre' ++ l :: r :: post).Pairwise (xle (insTrials tr new l r)) := by
      refine List.Pairwise.imp_of_mem ?_ h.sorted
      intro a b ha hb hab xa xb hxa hxb
      rw [hold a (hmem a ha)] at hxa
      rw [hold b (hmem b hb)] at hxb
      exact hab xa xb hxa hxb
    have e1 : pre' ++ l :: r :: post = (pre' ++ [l]) ++ (r :: post) := by simp
    have e2 : pre' ++ l :: tr.size :: r :: post = (pre' ++ [l]) ++ tr.size :: (r :: post) := by simp
    rw [e1, List.pairwise_append] at hs
    obtain ⟨hsA, hsB, hsAB⟩ := hs
    rw [e2, List.pairwise_append]
    refine ⟨hsA, List.pairwise_cons.2 ⟨?_, hsB⟩, ?_⟩
    · intro b hb xa xb hxa hxb
      rw [hnew] at hxa
      cases hxa
      rw [hold b (hmem b (by rw [e1]; exact List.mem_append_right _ hb))] at hxb
      exact hB b hb xb hxb
    · intro a ha b hb
      rcases List.mem_cons.1 hb with rfl | hb
      · intro xa xb hxa hxb
        rw [hnew] at hxb
        cases hxb
        rw [hold a (hmem a (by rw [e1]; exact List.mem_append_left _ ha))] at hxa
        exact hA a ha xa hxa
      · exact hsAB a ha b hb

/-- the queue after an insertion: the new entry, then (when a hint was given) the right neighbour -/
def insQ [LinearOrder κ] (m : Option Nat) (flag : Bool) (k : κ) (ni : Nat) (kr : κ) (r : Nat) (q : List (κ × Nat)) :
    List (κ × Nat) :=
  if flag then qinsert leB m kr r (qinsert leB m k ni q) else qinsert leB m k ni q

theorem insert_eq [LinearOrder κ] (s : State χ κ) (new : Item χ κ) (hint : Option Nat) (r l : Nat)
    (rit : Item χ κ)
    (hr : hint = some r ∨ (hint = none ∧ find ltB s new.x = some r))
    (hrit : s.trials[r]? = some rit) (hl : rit.left = some l) :
    insert ltB leB s new hint = .ok { s with
      trials := insTrials s.trials new l r
      gq := insQ s.maxlen hint.isSome new.globalR s.trials.size rit.globalR r s.gq
      lq := if s.dual then insQ s.maxlen hint.isSome new.localR s.trials.size rit.localR r s.lq
            else s.lq } := by
  rcases hr with rfl | ⟨rfl, hf⟩
  · simp only [insert, hrit, hl]
    cases s.dual <;> rfl
  · simp only [insert, hf, hrit, hl]
    cases s.dual <;> rfl

section insq
variable [LinearOrder κ]

omit [LinearOrder χ] in
theorem insQ_sorted (m : Option Nat) (flag : Bool) (k : κ) (ni : Nat) (kr : κ) (r : Nat)
    {q : List (κ × Nat)} (h : QSorted q) : QSorted (insQ m flag k ni kr r q) := by
  unfold insQ
  cases flag
  · exact qinsert_sorted m k ni h
  · exact qinsert_sorted m kr r (qinsert_sorted m k ni h)

omit [LinearOrder χ] in
theorem mem_insQ {m : Option Nat} {flag : Bool} {k : κ} {ni : Nat} {kr : κ} {r : Nat}
    {q : List (κ × Nat)} {e : κ × Nat} (h : e ∈ insQ m flag k ni kr r q) :
    e = (k, ni) ∨ e = (kr, r) ∨ e ∈ q := by
  unfold insQ at h
  cases flag
  · rcases mem_qinsert h with h | h
    · exact Or.inl h
    · exact Or.inr (Or.inr h)
  · rcases mem_qinsert h with h | h
    · exact Or.inr (Or.inl h)
    · rcases mem_qinsert h with h | h
      · exact Or.inl h
      · exact Or.inr (Or.inr h)

end insq

/-! ## `find` -/

/-- the test used by `find`: the coordinate of item `i` is `> x` -/
def gtB (tr : Array (Item χ κ)) (x : χ) (i : Nat) : Bool :=
  match tr[i]? with
  | some it => decide (x < it.x)
  | none => false

theorem find_eq (s : State χ κ) (x : χ) : find ltB s x = (traversal s).find? (gtB s.trials x) := rfl

theorem gtB_iff {tr : Array (Item χ κ)} {x : χ} {i : Nat} :
    gtB tr x i = true ↔ ∃ xi, xOf tr i = some xi ∧ x < xi := by
  unfold gtB xOf
  cases tr[i]? <;> simp

theorem le_of_gtB_false {tr : Array (Item χ κ)} {x : χ} {i : Nat} (h : gtB tr x i = false) :
    ∀ xi, xOf tr i = some xi → xi ≤ x := by
  intro xi hxi
  by_contra hlt
  have : gtB tr x i = true := gtB_iff.2 ⟨xi, hxi, lt_of_not_ge hlt⟩
  rw [h] at this
  cases this

theorem gtB_false_of_le {tr : Array (Item χ κ)} {x : χ} {i : Nat}
    (h : ∀ xi, xOf tr i = some xi → xi ≤ x) : gtB tr x i = false := by
  cases hg : gtB tr x i with
  | false => rfl
  | true =>
    obtain ⟨xi, hxi, hlt⟩ := gtB_iff.1 hg
    exact absurd (h xi hxi) (not_le_of_gt hlt)

/-- `find` returns the first id of the list whose coordinate is `> x` -/
theorem find_some_iff {s : State χ κ} {t : List Nat} (h : Rep s.trials s.first t) (x : χ) (r : Nat) :
    find ltB s x = some r ↔
      ∃ pre post, t = pre ++ r :: post ∧ (∃ xr, xOf s.trials r = some xr ∧ x < xr) ∧
        ∀ a ∈ pre, ∀ xa, xOf s.trials a = some xa → xa ≤ x := by
  rw [find_eq, h.traversal_eq, List.find?_eq_some_iff_append]
  constructor
  · rintro ⟨hr, pre, post, ht, hpre⟩
    refine ⟨pre, post, ht, gtB_iff.1 hr, ?_⟩
    intro a ha
    exact le_of_gtB_false (by simpa using hpre a ha)
  · rintro ⟨pre, post, ht, hr, hpre⟩
    refine ⟨gtB_iff.2 hr, pre, post, ht, ?_⟩
    intro a ha
    simp [gtB_false_of_le (hpre a ha)]

theorem find_none_iff {s : State χ κ} {t : List Nat} (h : Rep s.trials s.first t) (x : χ) :
    find ltB s x = none ↔ ∀ a, ∀ xa, xOf s.trials a = some xa → xa ≤ x := by
  rw [find_eq, h.traversal_eq, List.find?_eq_none]
  constructor
  · intro hall a xa hxa
    have ha : a ∈ t := by
      rw [h.mem_iff]
      by_contra hlt
      unfold xOf at hxa
      rw [Array.getElem?_eq_none (by omega)] at hxa
      cases hxa
    exact le_of_gtB_false (by simpa using hall a ha) xa hxa
  · intro hall a _
    simp [gtB_false_of_le (hall a)]

omit [LinearOrder χ] in
theorem xOf_isSome_of_lt {tr : Array (Item χ κ)} {i : Nat} (h : i < tr.size) :
    ∃ xi, xOf tr i = some xi := by
  unfold xOf
  rw [Array.getElem?_eq_getElem h]
  exact ⟨_, rfl⟩

/-- `insert` with a correct (or no) hint succeeds and splices the new id into the list. -/
theorem insert_rep [LinearOrder κ] {s : State χ κ} {t : List Nat} (h : Rep s.trials s.first t)
    (new : Item χ κ) (hint : Option Nat)
    (hfirst : ∀ f xf, s.first = some f → xOf s.trials f = some xf → xf ≤ new.x)
    (hcover : ∃ j xj, xOf s.trials j = some xj ∧ new.x < xj)
    (hhint : hint = none ∨ hint = find ltB s new.x) :
    ∃ pre' l r post rit s',
      t = pre' ++ l :: r :: post ∧ find ltB s new.x = some r ∧ s.trials[r]? = some rit ∧
      insert ltB leB s new hint = .ok s' ∧
      s' = { s with
        trials := insTrials s.trials new l r
        gq := insQ s.maxlen hint.isSome new.globalR s.trials.size rit.globalR r s.gq
        lq := if s.dual then insQ s.maxlen hint.isSome new.localR s.trials.size rit.localR r s.lq
              else s.lq } ∧
      Rep s'.trials s'.first (pre' ++ l :: s.trials.size :: r :: post) := by
  -- `find` succeeds
  have hfind : ∃ r, find ltB s new.x = some r := by
    cases hf : find ltB s new.x with
    | some r => exact ⟨r, rfl⟩
    | none =>
      obtain ⟨j, xj, hxj, hlt⟩ := hcover
      exact absurd ((find_none_iff h new.x).1 hf j xj hxj) (not_le_of_gt hlt)
  obtain ⟨r, hfind⟩ := hfind
  obtain ⟨pre, post, ht, ⟨xr, hxr, hxlt⟩, hpre⟩ := (find_some_iff h new.x r).1 hfind
  -- the found item is not the first one
  have hne : pre ≠ [] := by
    rintro rfl
    have hf : s.first = some r := by rw [h.first_eq, ht]; rfl
    exact absurd (hfirst r xr hf hxr) (not_le_of_gt hxlt)
  obtain ⟨pre', l, rfl⟩ : ∃ pre' l, pre = pre' ++ [l] :=
    ⟨pre.dropLast, pre.getLast hne, (List.dropLast_concat_getLast hne).symm⟩
  have ht' : t = pre' ++ l :: r :: post := by rw [ht]; simp
  -- the left link of `r`
  have hseg := h.seg
  rw [ht', Seg_append, Seg_cons, Seg_cons] at hseg
  obtain ⟨-, -, hlr, -⟩ := hseg
  obtain ⟨rit, hrit, hleft⟩ : ∃ rit, s.trials[r]? = some rit ∧ rit.left = some l := by
    unfold linkOf at hlr
    cases hg : s.trials[r]? with
    | none => rw [hg] at hlr; cases hlr
    | some rit =>
      rw [hg] at hlr
      simp only [Option.map_some, Option.some.injEq, Prod.mk.injEq] at hlr
      exact ⟨rit, rfl, hlr.1⟩
  have hins := insert_eq (κ := κ) s new hint r l rit
    (by
      rcases hhint with rfl | rfl
      · exact Or.inr ⟨rfl, hfind⟩
      · exact Or.inl hfind)
    hrit hleft
  refine ⟨pre', l, r, post, rit, _, ht', hfind, hrit, hins, rfl, ?_⟩
  show Rep (insTrials s.trials new l r) s.first _
  refine Rep_insTrials new (ht' ▸ h) hpre ?_
  -- everything from `r` on is above the new coordinate
  intro b hb xb hxb
  rcases List.mem_cons.1 hb with rfl | hb
  · rw [hxr] at hxb; cases hxb; exact le_of_lt hxlt
  · have hs := h.sorted
    rw [ht', List.pairwise_append] at hs
    have hs2 := hs.2.1
    rw [List.pairwise_cons, List.pairwise_cons] at hs2
    exact le_trans (le_of_lt hxlt) (hs2.2.1 b hb xr xb hxr hxb)

/-! ### arbitrary hints -/

/-- An ARBITRARY hint `r` that is a non-first item of the list is trusted: `insert` succeeds and
splices the new id immediately before `r`; the links stay consistent (the order may be lost). -/
theorem insert_hint_links [LinearOrder κ] {s : State χ κ} {A B : List Nat} {l r : Nat}
    (h : RepL s.trials s.first (A ++ l :: r :: B)) (new : Item χ κ) :
    ∃ s', insert ltB leB s new (some r) = .ok s' ∧ s'.first = s.first ∧
      s'.trials = insTrials s.trials new l r ∧
      RepL s'.trials s'.first (A ++ l :: s.trials.size :: r :: B) := by
  have hseg := h.seg
  rw [Seg_append, Seg_cons, Seg_cons] at hseg
  obtain ⟨-, -, hlr, -⟩ := hseg
  obtain ⟨rit, hrit, hleft, -⟩ := linkOf_eq_some.1 hlr
  have hins := insert_eq (κ := κ) s new (some r) r l rit (Or.inl rfl) hrit hleft
  exact ⟨_, hins, rfl, rfl, RepL_insTrials new h⟩

/-- hinting the FIRST item raises (`newDataItem.GetLeft()` is `None`) -/
theorem insert_hint_first_err [LinearOrder κ] {s : State χ κ} {B : List Nat} {r : Nat}
    (h : RepL s.trials s.first (r :: B)) (new : Item χ κ) :
    insert ltB leB s new (some r) = .error .attributeError := by
  have hseg := h.seg
  rw [Seg_cons] at hseg
  obtain ⟨rit, hrit, hleft, -⟩ := linkOf_eq_some.1 hseg.1
  simp [insert, hrit, hleft]

/-- a hint that is not a stored id raises -/
theorem insert_hint_oob_err [LinearOrder κ] {s : State χ κ} {r : Nat} (hr : s.trials.size ≤ r)
    (new : Item χ κ) : insert ltB leB s new (some r) = .error .attributeError := by
  have : s.trials[r]? = none := Array.getElem?_eq_none hr
  simp [insert, this]

/-! ## operations that do not touch the links -/

theorem Rep_of_view_eq {tr tr' : Array (Item χ κ)} {first : Option Nat} {t : List Nat}
    (hsz : tr'.size = tr.size) (hl : ∀ a, linkOf tr' a = linkOf tr a)
    (hx : ∀ a, xOf tr' a = xOf tr a) (h : Rep tr first t) : Rep tr' first t := by
  refine ⟨h.first_eq, h.ne_nil, hsz ▸ h.perm, (Seg_congr (fun a _ => hl a)).2 h.seg, ?_⟩
  refine List.Pairwise.imp ?_ h.sorted
  intro a b hab xa xb hxa hxb
  rw [hx] at hxa hxb
  exact hab xa xb hxa hxb

omit [LinearOrder χ] in
theorem modify_char_view (tr : Array (Item χ κ)) (i : Nat) (f : Item χ κ → Item χ κ)
    (hf : ∀ it, (f it).left = it.left ∧ (f it).right = it.right ∧ (f it).x = it.x) :
    (tr.modify i f).size = tr.size ∧ (∀ a, linkOf (tr.modify i f) a = linkOf tr a) ∧
      (∀ a, xOf (tr.modify i f) a = xOf tr a) := by
  refine ⟨Array.size_modify, ?_, ?_⟩
  · intro a
    unfold linkOf
    rw [Array.getElem?_modify]
    split
    · cases tr[a]? with
      | none => rfl
      | some it => simp [(hf it).1, (hf it).2.1]
    · rfl
  · intro a
    unfold xOf
    rw [Array.getElem?_modify]
    split
    · cases tr[a]? with
      | none => rfl
      | some it => simp [(hf it).2.2]
    · rfl

theorem Rep_setGlobalR {s : State χ κ} {t : List Nat} (i : Nat) (k : κ)
    (h : Rep s.trials s.first t) : Rep (setGlobalR s i k).trials (setGlobalR s i k).first t := by
  obtain ⟨h1, h2, h3⟩ := modify_char_view s.trials i (fun it => { it with globalR := k })
    (fun _ => ⟨rfl, rfl, rfl⟩)
  exact Rep_of_view_eq h1 h2 h3 h

theorem Rep_setLocalR {s : State χ κ} {t : List Nat} (i : Nat) (k : κ)
    (h : Rep s.trials s.first t) : Rep (setLocalR s i k).trials (setLocalR s i k).first t := by
  obtain ⟨h1, h2, h3⟩ := modify_char_view s.trials i (fun it => { it with localR := k })
    (fun _ => ⟨rfl, rfl, rfl⟩)
  exact Rep_of_view_eq h1 h2 h3 h

/-! ## `refill` -/

section refill
variable [LinearOrder κ]

/-- one step of the `RefillQueue` loop -/
def refillStep (acc : State χ κ) (i : Nat) : State χ κ :=
  match acc.trials[i]? with
  | some it => { acc with gq := qIns leB acc acc.gq it.globalR i,
                          lq := if acc.dual then qIns leB acc acc.lq it.localR i else acc.lq }
  | none => acc

omit [LinearOrder χ] in
theorem refill_def (s : State χ κ) :
    refill leB s = (traversal s).foldl refillStep (clearQueue s) := rfl

/-- entries `(c item_i, i)` for the ids of `t`, for a characteristic `c` -/
def entriesOf (c : Item χ κ → κ) (tr : Array (Item χ κ)) (t : List Nat) : List (κ × Nat) :=
  t.filterMap fun i => tr[i]?.map fun it => (c it, i)

omit [LinearOrder χ] in
theorem refill_fold (t : List Nat) (acc : State χ κ) :
    t.foldl refillStep acc = { acc with
      gq := qinsertAll acc.maxlen (entriesOf Item.globalR acc.trials t) acc.gq
      lq := if acc.dual then qinsertAll acc.maxlen (entriesOf Item.localR acc.trials t) acc.lq else acc.lq } := by
  induction t generalizing acc with
  | nil =>
    obtain ⟨tr, f, g, l, m, d⟩ := acc
    cases d <;> simp [entriesOf, qinsertAll_nil]
  | cons i t ih =>
    rw [List.foldl_cons, ih]
    unfold refillStep
    cases hg : acc.trials[i]? with
    | none => simp [entriesOf, hg]
    | some it =>
      cases hd : acc.dual <;>
        simp [entriesOf, hg, qinsertAll_cons, qIns]

omit [LinearOrder χ] in
theorem refill_eq (s : State χ κ) :
    refill leB s = { s with
      gq := qinsertAll s.maxlen (entriesOf Item.globalR s.trials (traversal s)) []
      lq := if s.dual then qinsertAll s.maxlen (entriesOf Item.localR s.trials (traversal s)) [] else [] } := by
  rw [refill_def, refill_fold]
  rfl

omit [LinearOrder χ] [LinearOrder κ] in
theorem mem_entriesOf {c : Item χ κ → κ} {tr : Array (Item χ κ)} {t : List Nat} {e : κ × Nat} :
    e ∈ entriesOf c tr t ↔ e.2 ∈ t ∧ ∃ it, tr[e.2]? = some it ∧ e.1 = c it := by
  unfold entriesOf
  rw [List.mem_filterMap]
  constructor
  · rintro ⟨i, hi, he⟩
    cases hg : tr[i]? with
    | none => rw [hg] at he; cases he
    | some it =>
      rw [hg] at he
      simp only [Option.map_some, Option.some.injEq] at he
      subst he
      exact ⟨hi, it, hg, rfl⟩
  · rintro ⟨hi, it, hg, hk⟩
    refine ⟨e.2, hi, ?_⟩
    rw [hg]
    simp [← hk]

omit [LinearOrder χ] [LinearOrder κ] in
theorem entriesOf_map_snd {c : Item χ κ → κ} {tr : Array (Item χ κ)} {t : List Nat}
    (h : ∀ a ∈ t, a < tr.size) : (entriesOf c tr t).map Prod.snd = t := by
  induction t with
  | nil => rfl
  | cons a t ih =>
    have ha : a < tr.size := h a List.mem_cons_self
    unfold entriesOf at ih ⊢
    rw [List.filterMap_cons, Array.getElem?_eq_getElem ha]
    simp only [Option.map_some, List.map_cons]
    rw [ih (fun b hb => h b (List.mem_cons_of_mem _ hb))]

omit [LinearOrder χ] [LinearOrder κ] in
theorem entriesOf_ne_nil {c : Item χ κ → κ} {tr : Array (Item χ κ)} {t : List Nat}
    (h : ∀ a ∈ t, a < tr.size) (ht : t ≠ []) : entriesOf c tr t ≠ [] := by
  intro he
  have := entriesOf_map_snd (c := c) h
  rw [he] at this
  exact ht this.symm

end refill

/-! ## the pops -/

section pops
variable [LinearOrder κ]

/-- the queue a request works on -/
def selq (glob : Bool) (s : State χ κ) : List (κ × Nat) := if glob then s.gq else s.lq

def setq (glob : Bool) (s : State χ κ) (q : List (κ × Nat)) : State χ κ :=
  if glob then { s with gq := q } else { s with lq := q }

/-- the characteristic a queue refers to -/
def curOf (glob : Bool) (it : Item χ κ) : κ := if glob then it.globalR else it.localR

omit [LinearOrder χ] [LinearOrder κ] in
@[simp] theorem setq_trials (glob : Bool) (s : State χ κ) (q : List (κ × Nat)) :
    (setq glob s q).trials = s.trials := by cases glob <;> rfl
omit [LinearOrder χ] [LinearOrder κ] in
@[simp] theorem setq_first (glob : Bool) (s : State χ κ) (q : List (κ × Nat)) :
    (setq glob s q).first = s.first := by cases glob <;> rfl
omit [LinearOrder χ] [LinearOrder κ] in
@[simp] theorem setq_maxlen (glob : Bool) (s : State χ κ) (q : List (κ × Nat)) :
    (setq glob s q).maxlen = s.maxlen := by cases glob <;> rfl
omit [LinearOrder χ] [LinearOrder κ] in
@[simp] theorem setq_dual (glob : Bool) (s : State χ κ) (q : List (κ × Nat)) :
    (setq glob s q).dual = s.dual := by cases glob <;> rfl
omit [LinearOrder χ] [LinearOrder κ] in
@[simp] theorem selq_setq (glob : Bool) (s : State χ κ) (q : List (κ × Nat)) :
    selq glob (setq glob s q) = q := by cases glob <;> rfl

omit [LinearOrder χ] in
theorem popCurrent_cons {glob : Bool} {fuel : Nat} {s : State χ κ} {k : κ} {i : Nat}
    {t : List (κ × Nat)} {it : Item χ κ} (hq : selq glob s = (k, i) :: t)
    (hit : s.trials[i]? = some it) :
    popCurrent leB neB glob (fuel + 1) s =
      if k ≠ curOf glob it then popCurrent leB neB glob fuel (setq glob s t)
      else .ok (setq glob s t, i, k) := by
  cases glob
  · simp only [selq, Bool.false_eq_true, if_false] at hq
    simp [popCurrent, hq, setq, curOf, hit]
  · simp only [selq, if_true] at hq
    simp [popCurrent, hq, setq, curOf, hit]

omit [LinearOrder χ] in
theorem popCurrent_nil {glob : Bool} {fuel : Nat} {s : State χ κ} {k : κ} {i : Nat}
    {t : List (κ × Nat)} {it : Item χ κ} (hq : selq glob s = [])
    (hq' : selq glob (refill leB s) = (k, i) :: t) (hit : (refill leB s).trials[i]? = some it) :
    popCurrent leB neB glob (fuel + 1) s =
      if k ≠ curOf glob it then popCurrent leB neB glob fuel (setq glob (refill leB s) t)
      else .ok (setq glob (refill leB s) t, i, k) := by
  cases glob
  · simp only [selq, Bool.false_eq_true, if_false] at hq hq'
    simp [popCurrent, hq, hq', setq, curOf, hit]
  · simp only [selq, if_true] at hq hq'
    simp [popCurrent, hq, hq', setq, curOf, hit]

omit [LinearOrder χ] [LinearOrder κ] in
theorem setq_setq (glob : Bool) (s : State χ κ) (q q' : List (κ × Nat)) :
    setq glob (setq glob s q) q' = setq glob s q' := by cases glob <;> rfl

omit [LinearOrder χ] [LinearOrder κ] in
theorem setq_selq (glob : Bool) (s : State χ κ) : setq glob s (selq glob s) = s := by
  cases glob <;> rfl

/-- the queue entry `e = (k, i)` is current: `k` is the present characteristic of item `i` -/
def IsCur (glob : Bool) (tr : Array (Item χ κ)) (e : κ × Nat) : Prop :=
  ∃ it, tr[e.2]? = some it ∧ e.1 = curOf glob it

omit [LinearOrder χ] in
/-- stale entries in front of a current one are discarded, the current one is returned -/
theorem popCurrent_scan_found {glob : Bool} {k : κ} {i : Nat} {post : List (κ × Nat)}
    (pre : List (κ × Nat)) (s : State χ κ) (fuel : Nat)
    (hq : selq glob s = pre ++ (k, i) :: post)
    (hpre : ∀ e ∈ pre, e.2 < s.trials.size ∧ ¬ IsCur glob s.trials e)
    (hcur : IsCur glob s.trials (k, i)) (hfuel : pre.length + 1 ≤ fuel) :
    popCurrent leB neB glob fuel s = .ok (setq glob s post, i, k) := by
  induction pre generalizing s fuel with
  | nil =>
    obtain ⟨fuel, rfl⟩ : ∃ f, fuel = f + 1 := ⟨fuel - 1, by simp at hfuel; omega⟩
    obtain ⟨it, hit, hk⟩ := hcur
    rw [popCurrent_cons hq hit, if_neg (by simpa using hk)]
  | cons e pre ih =>
    obtain ⟨fuel, rfl⟩ : ∃ f, fuel = f + 1 := ⟨fuel - 1, by simp at hfuel; omega⟩
    obtain ⟨k', i'⟩ := e
    obtain ⟨hlt, hstale⟩ := hpre (k', i') List.mem_cons_self
    have hit : s.trials[i']? = some s.trials[i'] := Array.getElem?_eq_getElem hlt
    have hne : k' ≠ curOf glob s.trials[i'] := fun h => hstale ⟨_, hit, h⟩
    rw [popCurrent_cons (t := pre ++ (k, i) :: post) hq hit, if_pos hne,
      ih (setq glob s (pre ++ (k, i) :: post)) fuel (selq_setq _ _ _)
        (by simpa using fun e he => hpre e (List.mem_cons_of_mem _ he))
        (by simpa using hcur) (by simp at hfuel; omega), setq_setq]

omit [LinearOrder χ] in
/-- a queue of stale entries is discarded entirely -/
theorem popCurrent_scan_stale {glob : Bool} (q : List (κ × Nat)) (s : State χ κ) (fuel : Nat)
    (hq : selq glob s = q)
    (hall : ∀ e ∈ q, e.2 < s.trials.size ∧ ¬ IsCur glob s.trials e) (hfuel : q.length ≤ fuel) :
    popCurrent leB neB glob fuel s = popCurrent leB neB glob (fuel - q.length) (setq glob s []) := by
  induction q generalizing s fuel with
  | nil =>
    have : setq glob s [] = s := by rw [← hq, setq_selq]
    rw [this]; rfl
  | cons e q ih =>
    obtain ⟨fuel, rfl⟩ : ∃ f, fuel = f + 1 := ⟨fuel - 1, by simp at hfuel; omega⟩
    obtain ⟨k', i'⟩ := e
    obtain ⟨hlt, hstale⟩ := hall (k', i') List.mem_cons_self
    have hit : s.trials[i']? = some s.trials[i'] := Array.getElem?_eq_getElem hlt
    have hne : k' ≠ curOf glob s.trials[i'] := fun h => hstale ⟨_, hit, h⟩
    rw [popCurrent_cons hq hit, if_pos hne,
      ih (setq glob s q) fuel (selq_setq _ _ _)
        (by simpa using fun e he => hall e (List.mem_cons_of_mem _ he))
        (by simp at hfuel; omega), setq_setq]
    simp

omit [LinearOrder χ] in
theorem refill_trials (s : State χ κ) : (refill leB s).trials = s.trials := by rw [refill_eq]
omit [LinearOrder χ] in
theorem refill_first (s : State χ κ) : (refill leB s).first = s.first := by rw [refill_eq]
omit [LinearOrder χ] in
theorem refill_maxlen (s : State χ κ) : (refill leB s).maxlen = s.maxlen := by rw [refill_eq]
omit [LinearOrder χ] in
theorem refill_dual (s : State χ κ) : (refill leB s).dual = s.dual := by rw [refill_eq]

omit [LinearOrder χ] in
theorem refill_selq (glob : Bool) (s : State χ κ) (hd : glob = false → s.dual = true) :
    selq glob (refill leB s) =
      qinsertAll s.maxlen (entriesOf (curOf glob) s.trials (traversal s)) [] := by
  rw [refill_eq]
  cases glob
  · simp only [selq, Bool.false_eq_true, if_false, hd rfl, if_true]; rfl
  · simp only [selq, if_true]; rfl

/-- after a refill the head of the queue is a current entry with a globally maximal key -/
theorem refill_head {s : State χ κ} {t : List Nat} (h : Rep s.trials s.first t) (glob : Bool)
    (hd : glob = false → s.dual = true) (hm : s.maxlen ≠ some 0) :
    ∃ k i rest, selq glob (refill leB s) = (k, i) :: rest ∧ IsCur glob s.trials (k, i) ∧
      ∀ (j : Nat) (jt : Item χ κ), s.trials[j]? = some jt → curOf glob jt ≤ k := by
  have hlt : ∀ a ∈ t, a < s.trials.size := fun a ha => h.mem_iff.1 ha
  obtain ⟨e, rest, hq, hmem, hmax⟩ :=
    qinsertAll_nil_head (m := s.maxlen) (entriesOf_ne_nil (c := curOf glob) hlt h.ne_nil) hm
  obtain ⟨k, i⟩ := e
  refine ⟨k, i, rest, ?_, ?_, ?_⟩
  · rw [refill_selq glob s hd, h.traversal_eq, hq]
  · exact (mem_entriesOf.1 hmem).2
  · intro j jt hj
    have hjlt : j < s.trials.size := by
      by_contra hge
      rw [Array.getElem?_eq_none (by omega)] at hj
      cases hj
    exact hmax (curOf glob jt, j) (mem_entriesOf.2 ⟨h.mem_iff.2 hjlt, jt, hj, rfl⟩)

omit [LinearOrder χ] [LinearOrder κ] in
theorem list_first_or_none {α : Type} (P : α → Prop) (q : List α) :
    (∃ pre a post, q = pre ++ a :: post ∧ (∀ e ∈ pre, ¬ P e) ∧ P a) ∨ ∀ e ∈ q, ¬ P e := by
  induction q with
  | nil => right; simp
  | cons b q ih =>
    by_cases hb : P b
    · left; exact ⟨[], b, q, rfl, by simp, hb⟩
    · rcases ih with ⟨pre, a, post, rfl, hpre, ha⟩ | hall
      · left
        refine ⟨b :: pre, a, post, rfl, ?_, ha⟩
        intro e he
        rcases List.mem_cons.1 he with rfl | he
        · exact hb
        · exact hpre e he
      · right
        intro e he
        rcases List.mem_cons.1 he with rfl | he
        · exact hb
        · exact hall e he

/-- Specification of the dual-queue request `popCurrent`: it terminates with `.ok`, the returned
entry is current, and it is either the first current entry of the starting queue (everything in
front of it is stale and discarded) or — when no entry of the starting queue is current — the head
of the refilled queue, a global maximum. -/
theorem popCurrent_spec {s : State χ κ} {t : List Nat} (h : Rep s.trials s.first t) (glob : Bool)
    (fuel : Nat) (hids : ∀ e ∈ selq glob s, e.2 < s.trials.size)
    (hd : glob = false → s.dual = true) (hm : s.maxlen ≠ some 0)
    (hfuel : (selq glob s).length + 1 ≤ fuel) :
    ∃ s' i k,
      popCurrent leB neB glob fuel s = .ok (s', i, k) ∧ IsCur glob s.trials (k, i) ∧
      ((∃ pre, selq glob s = pre ++ (k, i) :: selq glob s' ∧ (∀ e ∈ pre, ¬ IsCur glob s.trials e) ∧
          s' = setq glob s (selq glob s')) ∨
       ((∀ e ∈ selq glob s, ¬ IsCur glob s.trials e) ∧
          selq glob (refill leB s) = (k, i) :: selq glob s' ∧
          s' = setq glob (refill leB s) (selq glob s') ∧
          ∀ (j : Nat) (jt : Item χ κ), s.trials[j]? = some jt → curOf glob jt ≤ k)) := by
  rcases list_first_or_none (IsCur glob s.trials) (selq glob s) with
    ⟨pre, ⟨k, i⟩, post, hq, hpre, hcur⟩ | hall
  · -- a current entry is found in the queue
    have hrun := popCurrent_scan_found (glob := glob) pre s fuel hq
      (fun e he => ⟨hids e (by rw [hq]; exact List.mem_append_left _ he), hpre e he⟩) hcur
      (by rw [hq] at hfuel; simp at hfuel; omega)
    refine ⟨setq glob s post, i, k, hrun, hcur, Or.inl ⟨pre, ?_, hpre, ?_⟩⟩
    · rw [selq_setq]; exact hq
    · rw [selq_setq]
  · -- the whole queue is stale: it is emptied, refilled, and the head is returned
    have hrun := popCurrent_scan_stale (glob := glob) (selq glob s) s fuel rfl
      (fun e he => ⟨hids e he, hall e he⟩) (by omega)
    obtain ⟨f', hf'⟩ : ∃ f', fuel - (selq glob s).length = f' + 1 :=
      ⟨fuel - (selq glob s).length - 1, by omega⟩
    rw [hf'] at hrun
    have htr0 : (setq glob s []).trials = s.trials := setq_trials _ _ _
    have hfi0 : (setq glob s []).first = s.first := setq_first _ _ _
    have hrefill : refill leB (setq glob s []) = refill leB s := by
      rw [refill_eq, refill_eq, traversal_congr (s := s) (s' := setq glob s []) htr0 hfi0]
      cases glob <;> simp [setq]
    have h0 : Rep (setq glob s []).trials (setq glob s []).first t := by
      rw [htr0, hfi0]; exact h
    obtain ⟨k, i, rest, hq', hcur, hmax⟩ :=
      refill_head h0 glob (by rw [setq_dual]; exact hd) (by rw [setq_maxlen]; exact hm)
    rw [htr0] at hcur hmax
    obtain ⟨it, hit, hk⟩ := hcur
    have hit' : (refill leB (setq glob s [])).trials[i]? = some it := by
      rw [refill_trials, htr0]; exact hit
    rw [popCurrent_nil (selq_setq _ _ _) hq' hit', if_neg (by simpa using hk), hrefill] at hrun
    rw [hrefill] at hq'
    refine ⟨setq glob (refill leB s) rest, i, k, hrun, ⟨it, hit, hk⟩, Or.inr ⟨hall, ?_, ?_, hmax⟩⟩
    · rw [selq_setq]; exact hq'
    · rw [selq_setq]

omit [LinearOrder χ] in
theorem popMaxGlobal_cons {s : State χ κ} {k : κ} {i : Nat} {t : List (κ × Nat)}
    (hq : s.gq = (k, i) :: t) : popMaxGlobal leB s = .ok ({ s with gq := t }, i, k) := by
  simp [popMaxGlobal, hq]

omit [LinearOrder χ] in
theorem popMaxGlobal_nil {s : State χ κ} {k : κ} {i : Nat} {t : List (κ × Nat)}
    (hq : s.gq = []) (hq' : (refill leB s).gq = (k, i) :: t) :
    popMaxGlobal leB s = .ok ({ refill leB s with gq := t }, i, k) := by
  simp [popMaxGlobal, hq, hq']

/-- Specification of the base-class request `popMaxGlobal`: the head of the queue is removed and
returned; an empty queue is refilled first, and then the result is a global maximum. -/
theorem popMaxGlobal_spec {s : State χ κ} {t : List Nat} (h : Rep s.trials s.first t)
    (hm : s.maxlen ≠ some 0) :
    ∃ s' i k, popMaxGlobal leB s = .ok (s', i, k) ∧
      ((s.gq = (k, i) :: s'.gq ∧ s' = { s with gq := s'.gq }) ∨
       (s.gq = [] ∧ (refill leB s).gq = (k, i) :: s'.gq ∧ s' = { refill leB s with gq := s'.gq } ∧
          IsCur true s.trials (k, i) ∧
          ∀ (j : Nat) (jt : Item χ κ), s.trials[j]? = some jt → jt.globalR ≤ k)) := by
  cases hq : s.gq with
  | cons e q =>
    obtain ⟨k, i⟩ := e
    exact ⟨_, i, k, popMaxGlobal_cons hq, Or.inl ⟨rfl, rfl⟩⟩
  | nil =>
    obtain ⟨k, i, rest, hq', hcur, hmax⟩ := refill_head h true (by simp) hm
    exact ⟨_, i, k, popMaxGlobal_nil hq hq', Or.inr ⟨rfl, hq', rfl, hcur, hmax⟩⟩

end pops

/-! ## coordinates -/

/-- the stored coordinates in insertion order -/
def storedXs (tr : Array (Item χ κ)) : List χ := (List.range tr.size).filterMap (xOf tr)

/-- the coordinates along the id list `t` -/
def coordsOf (tr : Array (Item χ κ)) (t : List Nat) : List χ := t.filterMap (xOf tr)

omit [LinearOrder χ] in
theorem range_filterMap_getElem? {α : Type} (l : List α) :
    (List.range l.length).filterMap (fun i => l[i]?) = l := by
  induction l with
  | nil => rfl
  | cons a l ih =>
    rw [List.length_cons, List.range_succ_eq_map, List.filterMap_cons]
    simp only [List.getElem?_cons_zero, List.filterMap_map]
    congr 1

omit [LinearOrder χ] in
theorem filterMap_congr' {α β : Type} {f g : α → Option β} {l : List α}
    (h : ∀ a ∈ l, f a = g a) : l.filterMap f = l.filterMap g := by
  induction l with
  | nil => rfl
  | cons a l ih =>
    rw [List.filterMap_cons, List.filterMap_cons, h a List.mem_cons_self,
      ih (fun b hb => h b (List.mem_cons_of_mem _ hb))]

omit [LinearOrder χ] in
theorem storedXs_eq (tr : Array (Item χ κ)) : storedXs tr = tr.toList.map (·.x) := by
  unfold storedXs xOf
  have : (fun i : Nat => Option.map (fun it : Item χ κ => it.x) tr[i]?) =
      fun i => (tr.toList[i]?).map (fun it : Item χ κ => it.x) := by
    funext i; rw [Array.getElem?_toList]
  rw [this, ← List.map_filterMap, ← Array.length_toList, range_filterMap_getElem?]

omit [LinearOrder χ] in
theorem storedXs_insTrials (tr : Array (Item χ κ)) (new : Item χ κ) (l r : Nat)
    (hl : l < tr.size) (hr : r < tr.size) (hlr : l ≠ r) :
    storedXs (insTrials tr new l r) = storedXs tr ++ [new.x] := by
  unfold storedXs
  rw [insTrials_size, List.range_succ, List.filterMap_append]
  congr 1
  · apply filterMap_congr'
    intro i hi
    rw [insTrials_xOf tr new l r i hl hr hlr, if_neg (by have := List.mem_range.1 hi; omega)]
  · simp [insTrials_xOf tr new l r _ hl hr hlr]

omit [LinearOrder χ] in
theorem storedXs_of_view_eq {tr tr' : Array (Item χ κ)} (hsz : tr'.size = tr.size)
    (hx : ∀ a, xOf tr' a = xOf tr a) : storedXs tr' = storedXs tr := by
  unfold storedXs
  rw [hsz]
  exact filterMap_congr' (fun a _ => hx a)

theorem Rep.coords_perm {tr : Array (Item χ κ)} {first : Option Nat} {t : List Nat}
    (h : Rep tr first t) : (coordsOf tr t).Perm (storedXs tr) :=
  h.perm.filterMap _

theorem Rep.coords_sorted {tr : Array (Item χ κ)} {first : Option Nat} {t : List Nat}
    (h : Rep tr first t) : (coordsOf tr t).Pairwise (· ≤ ·) := by
  unfold coordsOf
  rw [List.pairwise_filterMap]
  refine List.Pairwise.imp ?_ h.sorted
  intro a b hab xa hxa xb hxb
  exact hab xa xb hxa hxb

theorem Rep.coords_length {tr : Array (Item χ κ)} {first : Option Nat} {t : List Nat}
    (h : Rep tr first t) : (coordsOf tr t).length = tr.size := by
  rw [h.coords_perm.length_eq, storedXs_eq]
  simp

/-- distinct stored coordinates are strictly increasing along the list -/
theorem Rep.coords_strict {tr : Array (Item χ κ)} {first : Option Nat} {t : List Nat}
    (h : Rep tr first t) (hnd : (storedXs tr).Nodup) : (coordsOf tr t).Pairwise (· < ·) := by
  have hnd' : (coordsOf tr t).Nodup := h.coords_perm.nodup_iff.2 hnd
  have := List.Pairwise.and h.coords_sorted hnd'
  exact this.imp (fun ⟨h1, h2⟩ => lt_of_le_of_ne h1 h2)

end
end SD

