import IOptProofs.EvDims
import IOptProofs.EvGenCert
import IOptProofs.EvFinCert
import IOptProofs.EvFinCert6
import IOptProofs.EvFinCert7
import IOptProofs.EvInvFin
import IOptProofs.EvInvFin6
import IOptProofs.EvInvFin7
/-!
# The finite facts for every dimension covered by `Ev.DimOK` (= every `n ≥ 2`)

The ONLY place where the finite facts are handed to the evolvent development: `evFacts_of_dimOK`,
`Inv.nodeOK_of_dimOK`, `Inv.numbrOK_of_dimOK`.  They come from the general proofs `Ev.evFacts_all`,
`Ev.Inv.nodeOK_all`, `Ev.Inv.numbrOK_all` (`EvGen*.lean`, no enumeration).

For `n = 2, …, 7` the kernel-evaluated certificates (`evFacts2..7`, `nodeOK2..7`, `numbrOK2..7`) establish
the same facts independently; `evFacts_of_mem` keeps that route available.
-/

namespace Ev

/-- the finite facts by kernel-evaluated certificates, `n = 2, …, 7` (independent of the general proof) -/
theorem evFacts_of_mem {n : Nat} (hn : n ∈ [2, 3, 4, 5, 6, 7]) : EvFacts n := by
  simp only [List.mem_cons, List.not_mem_nil, or_false] at hn
  rcases hn with rfl | rfl | rfl | rfl | rfl | rfl
  · exact evFacts2
  · exact evFacts3
  · exact evFacts4
  · exact evFacts5
  · exact evFacts6
  · exact evFacts7

/-- the finite facts (F1)-(F3) about one level of the evolvent, for every dimension covered by `DimOK` -/
theorem evFacts_of_dimOK {n : Nat} (hn : DimOK n) : EvFacts n := evFacts_all n hn.two_le

namespace Inv

theorem nodeOK_of_dimOK {n : Nat} (hn : DimOK n) {d : Nat} (hd : d < 2^n) : nodeOK n d = true :=
  nodeOK_all n hn.two_le d hd

theorem numbrOK_of_dimOK {n : Nat} (hn : DimOK n) {u : List Int} (hu : u ∈ allSigns n) :
    numbrOK n u = true :=
  numbrOK_all n hn.two_le u hu

end Inv
end Ev
