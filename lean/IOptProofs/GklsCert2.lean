import IOptProofs.GklsCert2a
import IOptProofs.GklsCert2b
import Mathlib.Tactic.IntervalCases
/-!
# All 100 regenerated GKLS data sets of dimension 2 pass the certificate
-/

namespace Gkls

/-- every data set of dimension 2 passes the certificate -/
theorem cert2 : ∀ k ∈ List.range' 1 100, Cert 2 k = true := by
  apply range_blocks5
  intro b hb
  interval_cases b
  · exact cert2_0
  · exact cert2_1
  · exact cert2_2
  · exact cert2_3
  · exact cert2_4
  · exact cert2_5
  · exact cert2_6
  · exact cert2_7
  · exact cert2_8
  · exact cert2_9
  · exact cert2_10
  · exact cert2_11
  · exact cert2_12
  · exact cert2_13
  · exact cert2_14
  · exact cert2_15
  · exact cert2_16
  · exact cert2_17
  · exact cert2_18
  · exact cert2_19

end Gkls
