import IOptProofs.GklsClass
import Mathlib.Tactic.IntervalCases
/-!
# Kernel-decided certificates of the 100 regenerated GKLS data sets of dimension 2

`Gkls.Cert 2 k` = well-formedness `WF` + class clauses `ClassOK` + identity (`dim = 2`, `number = k`).
One lemma per block of ten function numbers (`decide +kernel`: exact integer arithmetic in the kernel).
-/

namespace Gkls
set_option maxRecDepth 100000

theorem cert2_0 : ∀ k ∈ List.range' 1 10, Cert 2 k = true := by decide +kernel
theorem cert2_1 : ∀ k ∈ List.range' 11 10, Cert 2 k = true := by decide +kernel
theorem cert2_2 : ∀ k ∈ List.range' 21 10, Cert 2 k = true := by decide +kernel
theorem cert2_3 : ∀ k ∈ List.range' 31 10, Cert 2 k = true := by decide +kernel
theorem cert2_4 : ∀ k ∈ List.range' 41 10, Cert 2 k = true := by decide +kernel
theorem cert2_5 : ∀ k ∈ List.range' 51 10, Cert 2 k = true := by decide +kernel
theorem cert2_6 : ∀ k ∈ List.range' 61 10, Cert 2 k = true := by decide +kernel
theorem cert2_7 : ∀ k ∈ List.range' 71 10, Cert 2 k = true := by decide +kernel
theorem cert2_8 : ∀ k ∈ List.range' 81 10, Cert 2 k = true := by decide +kernel
theorem cert2_9 : ∀ k ∈ List.range' 91 10, Cert 2 k = true := by decide +kernel

/-- every data set of dimension 2 passes the certificate -/
theorem cert2 : ∀ k ∈ List.range' 1 100, Cert 2 k = true := by
  apply range_blocks
  intro b hb
  interval_cases b
  · exact cert2_0
  · exact cert2_1
  · exact cert2_2
  · exact cert2_3
  · exact cert2_4
  · exact cert2_5
  · exact cert2_6
  · exact cert2_7
  · exact cert2_8
  · exact cert2_9

end Gkls
