import IOptProofs.BenchShekelDefs
/-! kernel-evaluated C10 certificates of the Shekel functions 600..649 (one block per file, identical template) -/
namespace Shk
set_option maxRecDepth 100000 in
theorem shekel_block_12 : ∀ i ∈ List.range' 600 50, shekelOK i = true := by decide +kernel
end Shk
