import IOptProofs.EvGenBits
import IOptProofs.EvInvFin
/-!
# Evolvent for every dimension, part 2: `__CalculateNode` and `__CalculateNumbr` are mutually inverse

Closed form of `Ev.node n d` through the bit list of `d` (`node_zero`, `node_last`, `node_generic`,
`node_boundary`), and from it, for EVERY `n ≥ 2`:

* `nodeOK_all`  : `Ev.Inv.nodeOK n d = true` for all `d < 2^n`;
* `numbrOK_all` : `Ev.Inv.numbrOK n u = true` for all sign vectors `u` of length `n`.
-/

namespace Ev.All

open Ev.Inv

/-! ### list helpers -/

theorem getI_set_eq {a : List Int} {j : Nat} (x : Int) (h : j < a.length) : getI (a.set j x) j = x := by
  simp [getI, h]

theorem getI_set_ne {a : List Int} {i j : Nat} (x : Int) (h : i ≠ j) :
    getI (a.set j x) i = getI a i := by
  simp [getI, List.getD, List.getElem?_set_ne (Ne.symm h)]

theorem set_getI_self {a : List Int} {j : Nat} (h : j < a.length) : a.set j (getI a j) = a := by
  rw [getI_eq_getElem h]; exact List.set_getElem_self h

theorem pm1_of_forall {l : List Int} (h : ∀ x ∈ l, x = 1 ∨ x = -1) : pm1 l = true := by
  simpa [pm1] using h

theorem forall_of_pm1 {l : List Int} (h : pm1 l = true) : ∀ x ∈ l, x = 1 ∨ x = -1 := by
  simpa [pm1] using h

theorem pm1_set {l : List Int} (h : pm1 l = true) (j : Nat) {x : Int} (hx : x = 1 ∨ x = -1) :
    pm1 (l.set j x) = true := by
  apply pm1_of_forall
  intro y hy
  rcases List.mem_or_eq_of_mem_set hy with h1 | h1
  · exact forall_of_pm1 h y h1
  · rw [h1]; exact hx

theorem getI_pm1 {l : List Int} (h : pm1 l = true) {i : Nat} (hi : i < l.length) :
    getI l i = 1 ∨ getI l i = -1 := forall_of_pm1 h _ (getI_mem hi)

theorem pm1_gray (bs : List Bool) : pm1 (gray (-1) bs) = true :=
  pm1_of_forall (gray_sign _ _ (Or.inr rfl))

theorem pm1_replicate (n : Nat) {x : Int} (hx : x = 1 ∨ x = -1) : pm1 (List.replicate n x) = true := by
  apply pm1_of_forall; intro y hy; rw [List.eq_of_mem_replicate hy]; exact hx

/-! ### closed form of `node` -/

theorem node_zero (n : Nat) : node n 0 = (n-1, List.replicate n (-1), List.replicate n (-1)) := by
  simp [node]

theorem node_last {n : Nat} (hn : 1 ≤ n) : node n (2^n - 1) =
    (n-1, (1 : Int) :: List.replicate (n-1) (-1), ((1 : Int) :: List.replicate (n-1) (-1)).set (n-1) 1) := by
  have : 1 < 2^n := Nat.one_lt_two_pow (by omega)
  have h0 : ¬ (2^n - 1 = 0) := by omega
  simp [node, h0]

theorem node_generic {n d : Nat} (h0 : d ≠ 0) (hL : d ≠ 2^n - 1) (hd : d < 2^n) :
    node n d =
      ((bl 0 (bitsM n d) 0 1).1, gray (-1) (bitsM n d),
        ((gray (-1) (bitsM n d)).set (bl 0 (bitsM n d) 0 1).1
            (getI (gray (-1) (bitsM n d)) (bl 0 (bitsM n d) 0 1).1 * (bl 0 (bitsM n d) 0 1).2)).set (n-1)
          (- getI ((gray (-1) (bitsM n d)).set (bl 0 (bitsM n d) 0 1).1
            (getI (gray (-1) (bitsM n d)) (bl 0 (bitsM n d) 0 1).1 * (bl 0 (bitsM n d) 0 1).2)) (n-1))) := by
  unfold node
  rw [if_neg (by simpa using h0), if_neg (by simpa using hL), nodeLoop_spec n 0 d (-1) 0 1 [] hd]
  simp

/-- the `u` of every digit is the Gray code of its bits -/
theorem node_u {n d : Nat} (hn : 1 ≤ n) (hd : d < 2^n) : (node n d).2.1 = gray (-1) (bitsM n d) := by
  by_cases h0 : d = 0
  · subst h0
    rw [node_zero, bitsM_zero]
    exact (gray_replicate_aux n false).symm
  · by_cases hL : d = 2^n - 1
    · subst hL
      rw [node_last hn, bitsM_last]
      obtain ⟨m, rfl⟩ : ∃ m, n = m + 1 := ⟨n - 1, by omega⟩
      rw [gray_replicate]; simp
    · rw [node_generic h0 hL hd]

/-- the generic digits: bits `p b (!b)^(k+1)` -/
theorem node_boundary {n d : Nat} (hd : d < 2^n) {p : List Bool} {b : Bool} {k : Nat}
    (hb : bitsM n d = p ++ b :: List.replicate (k+1) (!b)) :
    node n d = (p.length, gray (-1) (bitsM n d),
      ((gray (-1) (bitsM n d)).set p.length (getI (gray (-1) (bitsM n d)) p.length * (-sg b))).set (n-1)
        (- getI (gray (-1) (bitsM n d)) (n-1))) ∧ n = p.length + k + 2 ∧ d ≠ 0 ∧ d ≠ 2^n - 1 := by
  have hlen : n = p.length + k + 2 := by
    have := congrArg List.length hb
    simp at this; omega
  have h0 : d ≠ 0 := by
    rintro rfl
    rw [bitsM_zero] at hb
    have h1 : false ∈ p ++ b :: List.replicate (k+1) (!b) → False := by
      intro _
      have hm : b ∈ List.replicate n false := by rw [hb]; simp
      have hm' : (!b) ∈ List.replicate n false := by rw [hb]; simp
      have e1 := List.eq_of_mem_replicate hm
      have e2 := List.eq_of_mem_replicate hm'
      rw [e1] at e2; simp at e2
    apply h1; rw [← hb]; simp; omega
  have hL : d ≠ 2^n - 1 := by
    rintro rfl
    rw [bitsM_last] at hb
    have hm : b ∈ List.replicate n true := by rw [hb]; simp
    have hm' : (!b) ∈ List.replicate n true := by rw [hb]; simp
    have e1 := List.eq_of_mem_replicate hm
    have e2 := List.eq_of_mem_replicate hm'
    rw [e1] at e2; simp at e2
  refine ⟨?_, hlen, h0, hL⟩
  rw [node_generic h0 hL hd]
  have hbl : bl 0 (bitsM n d) 0 1 = (p.length, -sg b) := by rw [hb, bl_boundary]; simp
  rw [hbl]
  simp only
  congr 3
  rw [getI_set_ne _ (by omega)]

/-! ### `numbr` on a Gray code -/

theorem numbr_gray (bs : List Bool) :
    numbr bs.length (gray (-1) bs) =
      if valM bs = 0 then (valM bs, bs.length - 1, gray (-1) bs)
      else if valM bs = 2^bs.length - 1 then
        (valM bs, bs.length - 1, (gray (-1) bs).set (bs.length - 1) (- getI (gray (-1) bs) (bs.length - 1)))
      else if last0 0 bs 0 = bs.length - 1 then
        (valM bs, last1 0 bs 0,
          ((gray (-1) bs).set (bs.length - 1) (- getI (gray (-1) bs) (bs.length - 1))).set (last1 0 bs 0)
            (- getI ((gray (-1) bs).set (bs.length - 1) (- getI (gray (-1) bs) (bs.length - 1))) (last1 0 bs 0)))
      else (valM bs, last0 0 bs 0,
          (gray (-1) bs).set (bs.length - 1) (- getI (gray (-1) bs) (bs.length - 1))) := by
  unfold numbr
  rw [numbrLoop_spec bs 0 (-1) 0 0 0 (Or.inr rfl)]
  simp only [Nat.zero_add, beq_iff_eq]

theorem numbr_node_all {n d : Nat} (hn : 2 ≤ n) (hd : d < 2^n) :
    numbr n (node n d).2.1 = (d, (node n d).1, (node n d).2.2) := by
  have hu := node_u (by omega : 1 ≤ n) hd
  have hv := valM_bitsM n d hd
  have hlen := length_bitsM n d
  have hng := numbr_gray (bitsM n d)
  rw [hlen, hv] at hng
  rw [hu, hng]
  have h1 : 1 < 2^n := Nat.one_lt_two_pow (by omega)
  by_cases h0 : d = 0
  · subst h0
    rw [if_pos rfl, node_zero, bitsM_zero]
    simp only [Prod.mk.injEq, true_and]
    exact gray_replicate_aux n false
  · rw [if_neg h0]
    by_cases hL : d = 2^n - 1
    · subst hL
      rw [if_pos rfl, node_last (by omega), bitsM_last]
      obtain ⟨m, rfl⟩ : ∃ m, n = m + 2 := ⟨n - 2, by omega⟩
      rw [gray_replicate]
      simp only [Prod.mk.injEq, true_and]
      have e : (-(-1 : Int) * sg true) = 1 := rfl
      rw [e]
      congr 1
      show - getI ((1 : Int) :: List.replicate (m+1) (-1)) (m + 1) = 1
      rw [getI_cons_succ, getI_replicate (by omega)]; rfl
    · rw [if_neg hL]
      rcases const_or_boundary (bitsM n d) with ⟨b, e⟩ | ⟨p, b, k, e⟩
      · exfalso
        rw [hlen] at e
        cases b
        · exact h0 ((bitsM_eq_false_iff hd).1 e)
        · have := (bitsM_eq_true_iff hd).1 e; omega
      · obtain ⟨hnode, hlen', -, -⟩ := node_boundary hd e
        rw [hnode]
        have hgl : (gray (-1) (bitsM n d)).length = n := by rw [length_gray, hlen]
        cases b
        · -- trailing ones
          have hl0 : last0 0 (bitsM n d) 0 = p.length := by
            rw [e]; simp only [Bool.not_false]; rw [last0_boundary]; omega
          rw [hl0, if_neg (by omega)]
          simp only [sg_false, Int.neg_neg, Int.mul_one, Prod.mk.injEq, true_and]
          rw [set_getI_self (by omega)]
        · -- trailing zeros
          have hl0 : last0 0 (bitsM n d) 0 = n - 1 := by
            rw [e]; simp only [Bool.not_true]
            rw [List.replicate_succ', ← List.cons_append, ← List.append_assoc, last0_append]
            simp [last0]; omega
          have hl1 : last1 0 (bitsM n d) 0 = p.length := by
            rw [e]; simp only [Bool.not_true]; rw [last1_boundary]; omega
          rw [hl0, if_pos rfl, hl1]
          simp only [sg_true, Prod.mk.injEq, true_and]
          rw [getI_set_ne _ (by omega), List.set_comm _ _ (by omega)]
          congr 2
          omega

/-! ### well-formedness of `node` -/

theorem node_wf {n d : Nat} (hn : 2 ≤ n) (hd : d < 2^n) :
    (node n d).1 < n ∧ (node n d).2.1.length = n ∧ (node n d).2.2.length = n ∧
    pm1 (node n d).2.1 = true ∧ pm1 (node n d).2.2 = true := by
  have hu := node_u (by omega : 1 ≤ n) hd
  have hlen := length_bitsM n d
  refine ⟨?_, by rw [hu, length_gray, hlen], ?_, by rw [hu]; exact pm1_gray _, ?_⟩
  all_goals
    by_cases h0 : d = 0
    · subst h0; rw [node_zero]
      first | (simp only; omega) | exact pm1_replicate _ (Or.inr rfl) | simp
    · by_cases hL : d = 2^n - 1
      · subst hL; rw [node_last (by omega)]
        first
          | (simp only; omega)
          | (simp; omega)
          | exact pm1_set (pm1_of_forall (by
              intro x hx
              rcases List.mem_cons.1 hx with rfl | hx
              · exact Or.inl rfl
              · exact Or.inr (List.eq_of_mem_replicate hx))) _ (Or.inl rfl)
      · rcases const_or_boundary (bitsM n d) with ⟨b, e⟩ | ⟨p, b, k, e⟩
        · exfalso
          rw [hlen] at e
          cases b
          · exact h0 ((bitsM_eq_false_iff hd).1 e)
          · have := (bitsM_eq_true_iff hd).1 e; omega
        · obtain ⟨hnode, hlen', -, -⟩ := node_boundary hd e
          rw [hnode]
          have hgl : (gray (-1) (bitsM n d)).length = n := by rw [length_gray, hlen]
          first
            | (simp only; omega)
            | (simp only [List.length_set]; exact hgl)
            | (apply pm1_set (pm1_set (pm1_gray _) _ ?_) _ ?_
               · rcases getI_pm1 (pm1_gray (bitsM n d)) (i := p.length) (by omega) with h | h <;>
                   rw [h] <;> cases b <;> simp
               · rcases getI_pm1 (pm1_gray (bitsM n d)) (i := n - 1) (by omega) with h | h <;>
                   rw [h] <;> simp)

/-- **`__CalculateNumbr` inverts `__CalculateNode` in every dimension `n ≥ 2`** -/
theorem nodeOK_all {n : Nat} (hn : 2 ≤ n) {d : Nat} (hd : d < 2^n) : nodeOK n d = true := by
  obtain ⟨h1, h2, h3, h4, h5⟩ := node_wf hn hd
  have h6 := numbr_node_all hn hd
  simp only [nodeOK, Bool.and_eq_true, decide_eq_true_eq, beq_iff_eq]
  exact ⟨⟨⟨⟨⟨h1, h2⟩, h3⟩, h4⟩, h5⟩, h6⟩

/-- **`__CalculateNode` inverts `__CalculateNumbr` in every dimension `n ≥ 2`** -/
theorem numbrOK_all {n : Nat} (hn : 2 ≤ n) {u : List Int} (hl : u.length = n) (hp : pm1 u = true) :
    numbrOK n u = true := by
  obtain ⟨bs, hbl, hg⟩ := exists_gray u (-1) (Or.inr rfl) (forall_of_pm1 hp)
  have hbn : bs.length = n := by rw [hbl, hl]
  have hd : valM bs < 2^n := by rw [← hbn]; exact valM_lt bs
  have hb : bitsM n (valM bs) = bs := by rw [← hbn]; exact bitsM_valM bs
  have hu : (node n (valM bs)).2.1 = u := by rw [node_u (by omega) hd, hb, hg]
  have h := numbr_node_all hn hd
  rw [hu] at h
  simp only [numbrOK, Bool.and_eq_true, decide_eq_true_eq, beq_iff_eq]
  rw [h]
  refine ⟨hd, ?_⟩
  simp only
  rw [← hu]

theorem pm1_of_mem_allSigns : ∀ {n : Nat} {u : List Int}, u ∈ allSigns n → u.length = n ∧ pm1 u = true
  | 0, u, h => by
    simp [allSigns] at h; subst h; exact ⟨rfl, rfl⟩
  | n+1, u, h => by
    simp only [allSigns, List.mem_flatMap, List.mem_cons, List.not_mem_nil, or_false] at h
    obtain ⟨t, ht, rfl | rfl⟩ := h
    · have := pm1_of_mem_allSigns ht
      exact ⟨by simp [this.1], by simpa [pm1] using this.2⟩
    · have := pm1_of_mem_allSigns ht
      exact ⟨by simp [this.1], by simpa [pm1] using this.2⟩

end Ev.All

/-- `Ev.Inv.nodeOK` for every `n ≥ 2`, in the shape of the certificates `nodeOK2 … nodeOK7` -/
theorem Ev.Inv.nodeOK_all (n : Nat) (h : 2 ≤ n) : ∀ d < 2^n, Ev.Inv.nodeOK n d = true :=
  fun _ hd => Ev.All.nodeOK_all h hd

/-- `Ev.Inv.numbrOK` for every `n ≥ 2`, in the shape of the certificates `numbrOK2 … numbrOK7` -/
theorem Ev.Inv.numbrOK_all (n : Nat) (h : 2 ≤ n) : ∀ u ∈ Ev.Inv.allSigns n, Ev.Inv.numbrOK n u = true :=
  fun _ hu => Ev.All.numbrOK_all h (Ev.All.pm1_of_mem_allSigns hu).1 (Ev.All.pm1_of_mem_allSigns hu).2
