import IOptProofs.GrishDefs
import IOptProofs.GrishReal
import IOptProofs.EnclSoundSum
import Mathlib.Tactic.IntervalCases
/-!
# Grishagin checker, soundness part 1: the trigonometric data `trigs`

For `t = num/2^k ∈ [0,1]` the components of `trigs num k` denote `sin (i+1)πt`, `cos (i+1)πt`
(`i = 0..6`) within `2^-42`.
-/

namespace Grish
open Encl Complex

/-- component `i` (0-based) of a `V7` -/
def V7.get (p : V7) : ℕ → ℕ
  | 0 => p.a1
  | 1 => p.a2
  | 2 => p.a3
  | 3 => p.a4
  | 4 => p.a5
  | 5 => p.a6
  | 6 => p.a7
  | _ => 0

/-- the powers `z^(m+1)` of the biased complex number `(X1, U1)` by repeated multiplication -/
def zpow (X1 U1 : ℕ) : ℕ → ℕ × ℕ
  | 0 => (X1, U1)
  | m + 1 => (cmulRe (zpow X1 U1 m).1 X1 (zpow X1 U1 m).2 U1, cmulIm (zpow X1 U1 m).1 X1 (zpow X1 U1 m).2 U1)

/-- the trigonometric data assembled from a sequence of biased complex numbers -/
def tdOf (z : ℕ → ℕ × ℕ) : TD :=
  TD.mk ⟨(z 0).2, (z 1).2, (z 2).2, (z 3).2, (z 4).2, (z 5).2, (z 6).2⟩
        ⟨(z 0).1, (z 1).1, (z 2).1, (z 3).1, (z 4).1, (z 5).1, (z 6).1⟩

theorem tdOf_zpow (X1 U1 : ℕ) :
    (fun X1 U1 =>
      (fun X2 U2 =>
      (fun X3 U3 =>
      (fun X4 U4 =>
      (fun X5 U5 =>
      (fun X6 U6 =>
      (fun X7 U7 => TD.mk ⟨U1, U2, U3, U4, U5, U6, U7⟩ ⟨X1, X2, X3, X4, X5, X6, X7⟩)
        (cmulRe X6 X1 U6 U1) (cmulIm X6 X1 U6 U1))
        (cmulRe X5 X1 U5 U1) (cmulIm X5 X1 U5 U1))
        (cmulRe X4 X1 U4 U1) (cmulIm X4 X1 U4 U1))
        (cmulRe X3 X1 U3 U1) (cmulIm X3 X1 U3 U1))
        (cmulRe X2 X1 U2 U1) (cmulIm X2 X1 U2 U1))
        (cmulRe X1 X1 U1 U1) (cmulIm X1 X1 U1 U1)) X1 U1 = tdOf (zpow X1 U1) := by
  simp only [tdOf, zpow]

theorem trigs_eq (num k : ℕ) :
    trigs num k = tdOf (zpow (trigC num (Nat.add k 1)) (trigS num (Nat.add k 1))) := by
  unfold trigs
  rw [trig_eq]
  exact tdOf_zpow _ _

theorem tdOf_get (z : ℕ → ℕ × ℕ) (i : ℕ) (hi : i < 7) :
    (tdOf z).s.get i = (z i).2 ∧ (tdOf z).c.get i = (z i).1 := by
  interval_cases i <;> exact ⟨rfl, rfl⟩

theorem trigs_get (num k i : ℕ) (hi : i < 7) :
    (trigs num k).s.get i = (zpow (trigC num (Nat.add k 1)) (trigS num (Nat.add k 1)) i).2 ∧
    (trigs num k).c.get i = (zpow (trigC num (Nat.add k 1)) (trigS num (Nat.add k 1)) i).1 := by
  rw [trigs_eq]
  exact tdOf_get _ i hi

theorem zpow_spec {X1 U1 : ℕ} {θ : ℝ} (hw : ‖exp ((θ : ℂ) * I) - dZ X1 U1‖ ≤ 330973 / 2 ^ 64) :
    ∀ m : ℕ, m ≤ 15 →
      ‖exp ((((m + 1 : ℕ) * θ : ℝ) : ℂ) * I) - dZ (zpow X1 U1 m).1 (zpow X1 U1 m).2‖
        ≤ ((m + 1 : ℕ) : ℝ) * 330976 / 2 ^ 64 := by
  intro m
  induction m with
  | zero =>
    intro _
    simp only [zpow, Nat.zero_add, Nat.cast_one, one_mul]
    refine hw.trans ?_
    norm_num
  | succ m ih =>
    intro hm
    have := (rec_step (i := m + 1) (by omega) hw (ih (by omega))).2
    exact this

/-- the error radius of every component: `7·330976/2^64 ≤ 2^-42` -/
theorem trigs_spec {num k : ℕ} (h : num ≤ 2 ^ k) (i : ℕ) (hi : i < 7) :
    |sn i (num / 2 ^ k) - dT ((trigs num k).s.get i)| ≤ 1 / 2 ^ 42 ∧
    |cs i (num / 2 ^ k) - dT ((trigs num k).c.get i)| ≤ 1 / 2 ^ 42 := by
  have h' : num ≤ 2 ^ (Nat.add k 1) := by
    show num ≤ 2 ^ (k + 1)
    rw [pow_succ]; omega
  have hw := trig_spec h'
  have hθ : 2 * Real.pi * ((num : ℝ) / 2 ^ (Nat.add k 1)) = Real.pi * ((num : ℝ) / 2 ^ k) := by
    show 2 * Real.pi * ((num : ℝ) / 2 ^ (k + 1)) = _
    rw [pow_succ]; field_simp
  rw [hθ] at hw
  have hz := zpow_spec hw i (by omega)
  obtain ⟨e1, e2⟩ := trigs_get num k i hi
  rw [e1, e2]
  have rad : ((i + 1 : ℕ) : ℝ) * 330976 / 2 ^ 64 ≤ 1 / 2 ^ 42 := by
    have : ((i + 1 : ℕ) : ℝ) ≤ 7 := by exact_mod_cast (by omega : i + 1 ≤ 7)
    rw [div_le_div_iff₀ (by positivity) (by positivity)]
    calc ((i + 1 : ℕ) : ℝ) * 330976 * 2 ^ 42 ≤ 7 * 330976 * 2 ^ 42 := by gcongr
      _ ≤ 1 * 2 ^ 64 := by norm_num
  constructor
  · have := (abs_im_le_norm _).trans (hz.trans rad)
    rwa [sub_im, exp_ofReal_mul_I_im, dZ_im] at this
  · have := (abs_re_le_norm _).trans (hz.trans rad)
    rwa [sub_re, exp_ofReal_mul_I_re, dZ_re] at this

end Grish
