import IOptModel.World
/-!
# Helper lemmas for C12: the step of a solver whose pointers stay in its own region is LOCAL

`lstep i c op` is the step of `IOptModel/World.lean` written on one component alone (reads, writes and allocations
address `c.heap` directly).  `step_local`: if the component of solver `i` is `Closed` (every pointer stored in its fields or
in its objects is owned by `i`), then the global step in ANY surrounding world `X` is the local step, embedded:
`step repaired (X.setComp i c) i op = (lstep i c op).map fun (c', o) => (X.setComp i c', o)`.
Closedness is preserved by the local step (`lstep_closed`).
-/

namespace World
variable {V : Type}

/-! ### function update, `setComp` -/

@[simp] theorem upd_same {β : Type} (f : Nat → β) (k : Nat) (v : β) : upd f k v k = v := by simp [upd]

theorem upd_other {β : Type} (f : Nat → β) {j k : Nat} (v : β) (h : j ≠ k) : upd f k v j = f j := by simp [upd, h]

@[simp] theorem upd_upd {β : Type} (f : Nat → β) (k : Nat) (v v' : β) : upd (upd f k v) k v' = upd f k v' := by
  funext j; simp only [upd]; split <;> rfl

@[simp] theorem upd_eta {β : Type} (f : Nat → β) (k : Nat) : upd f k (f k) = f := by
  funext j; simp only [upd]; split
  · next h => rw [h]
  · rfl

namespace State

@[simp] theorem setComp_solver_same (w : State V) (k : Nat) (c : Comp V) : (w.setComp k c).solver k = c := by
  simp [setComp]

theorem setComp_solver_other (w : State V) {j k : Nat} (c : Comp V) (h : j ≠ k) :
    (w.setComp k c).solver j = w.solver j := by simp [setComp, upd_other _ _ h]

@[simp] theorem setComp_modHeap (w : State V) (k : Nat) (c : Comp V) : (w.setComp k c).modHeap = w.modHeap := rfl

@[simp] theorem setComp_setComp (w : State V) (k : Nat) (c c' : Comp V) :
    (w.setComp k c).setComp k c' = w.setComp k c' := by simp [setComp]

@[simp] theorem setComp_self (w : State V) (k : Nat) : w.setComp k (w.solver k) = w := by
  cases w; simp [setComp]

end State

/-! ### the local mirror of the model -/

def lread (c : Comp V) (r : Ref) : Option (Cell V) := c.heap[r.idx]?
def lwrite (c : Comp V) (r : Ref) (x : Cell V) : Comp V := { c with heap := c.heap.set r.idx x }
def lalloc (i : Nat) (c : Comp V) (x : Cell V) : Comp V × Ref :=
  ({ c with heap := c.heap ++ [x] }, ⟨some i, c.heap.length⟩)

theorem read_local (X : State V) (i : Nat) (c : Comp V) {r : Ref} (h : r.owner = some i) :
    (X.setComp i c).read r = lread c r := by
  simp [State.read, h, lread]

theorem write_local (X : State V) (i : Nat) (c : Comp V) {r : Ref} (h : r.owner = some i) (x : Cell V) :
    (X.setComp i c).write r x = X.setComp i (lwrite c r x) := by
  simp [State.write, h, lwrite]

theorem alloc_local (X : State V) (i : Nat) (c : Comp V) (x : Cell V) :
    (X.setComp i c).alloc i x = (X.setComp i (lalloc i c x).1, (lalloc i c x).2) := by
  simp [State.alloc, lalloc]

section
variable [OfNat V 0]

def lNewItem (i : Nat) (c : Comp V) : Comp V × Ref × List Ref :=
  let (c, h) := lalloc i c (.holder 0)
  let (c, fl) := lalloc i c (.list (some h))
  let (c, n) := lalloc i c (.item fl)
  (c, n, [h, fl, n])

def lCalculate (c : Comp V) (sol n : Ref) (z : V) : Option (Comp V × List Ref) := do
  let fl ← Cell.fv? (lread c n)
  let h ← Cell.head? (lread c fl)
  let _ ← Cell.value? (lread c h)
  let c := lwrite c h (.holder z)
  let c := lwrite c fl (.list (some h))
  let (l, k) ← Cell.sol? (lread c sol)
  some (lwrite c sol (.solution l (k + 1)), [h, fl, sol])

def lStoreBest (c : Comp V) (sol b : Ref) : Option (Comp V × List Ref) := do
  let (l, _) ← Cell.sol? (lread c sol)
  let _ ← Cell.head? (lread c l)
  some (lwrite c l (.list (some b)), [l])

def lstep (i : Nat) (c : Comp V) : Op V → Option (Comp V × Out)
  | .construct =>
    match c.st with
    | some _ => none
    | none =>
      let (c, e) := lalloc i c (.list none)
      let (c, t) := lalloc i c (.item e)
      let (c, l) := lalloc i c (.list (some t))
      let (c, s) := lalloc i c (.solution l 0)
      some ({ c with st := some { solution := s } }, { allocated := [e, t, l, s] })
  | .first z => do
    let s ← c.st
    if s.started then none else
    let (c, middle, a1) := lNewItem i c
    let (c, left, a2) := lNewItem i c
    let (c, right, a3) := lNewItem i c
    let (c, w1) ← lCalculate c s.solution middle z
    let (c, w2) ← lStoreBest c s.solution middle
    some ({ c with st := some { s with items := [left, right, middle], best := some middle, started := true } },
          { wrote := w1 ++ w2, allocated := a1 ++ a2 ++ a3 })
  | .iter z better => do
    let s ← c.st
    if !s.started then none else
    let b ← s.best
    let (c, n, a) := lNewItem i c
    let (c, w1) ← lCalculate c s.solution n z
    let b' := if better then n else b
    let (c, w2) ← lStoreBest c s.solution b'
    some ({ c with st := some { s with items := s.items ++ [n], best := some b' } },
          { wrote := w1 ++ w2, allocated := a })
  | .results => do
    let s ← c.st
    some ({ c with handed := c.handed ++ [s.solution] }, { returned := some s.solution })

/-- the local step, total: an inapplicable operation leaves the component unchanged -/
def lstepW (i : Nat) (c : Comp V) (op : Op V) : Comp V :=
  match lstep i c op with
  | some (c', _) => c'
  | none => c

end

/-! ### closedness -/

/-- every pointer stored in the fields of solver `i` or in an object it allocated is owned by `i` -/
structure Closed (i : Nat) (c : Comp V) : Prop where
  heap : ∀ x ∈ c.heap, ∀ r ∈ x.refs, r.owner = some i
  sol : ∀ s, c.st = some s → s.solution.owner = some i
  items : ∀ s, c.st = some s → ∀ r ∈ s.items, r.owner = some i
  best : ∀ s, c.st = some s → ∀ b, s.best = some b → b.owner = some i
  handed : ∀ r ∈ c.handed, r.owner = some i

theorem closed_default (i : Nat) : Closed i ({} : Comp V) := by
  constructor <;> simp

theorem Closed.read {i : Nat} {c : Comp V} (hc : Closed i c) {r : Ref} {x : Cell V} (h : lread c r = some x) :
    ∀ r' ∈ x.refs, r'.owner = some i :=
  hc.heap x (List.mem_of_getElem? h)

theorem Closed.fv {i : Nat} {c : Comp V} (hc : Closed i c) {r fl : Ref} (h : Cell.fv? (lread c r) = some fl) :
    fl.owner = some i := by
  cases hr : lread c r with
  | none => simp [hr, Cell.fv?] at h
  | some x =>
    cases x <;> simp [hr, Cell.fv?] at h
    subst h
    exact hc.read hr _ (by simp [Cell.refs])

theorem Closed.head {i : Nat} {c : Comp V} (hc : Closed i c) {r h' : Ref} (h : Cell.head? (lread c r) = some h') :
    h'.owner = some i := by
  cases hr : lread c r with
  | none => simp [hr, Cell.head?] at h
  | some x =>
    cases x with
    | list o =>
      cases o with
      | none => simp [hr, Cell.head?] at h
      | some y =>
        simp [hr, Cell.head?] at h
        subst h
        exact hc.read hr _ (by simp [Cell.refs])
    | _ => simp [hr, Cell.head?] at h

theorem Closed.solRef {i : Nat} {c : Comp V} (hc : Closed i c) {r : Ref} {p : Ref × Nat}
    (h : Cell.sol? (lread c r) = some p) : p.1.owner = some i := by
  cases hr : lread c r with
  | none => simp [hr, Cell.sol?] at h
  | some x =>
    cases x <;> simp [hr, Cell.sol?] at h
    subst h
    exact hc.read hr _ (by simp [Cell.refs])

theorem Closed.lwrite {i : Nat} {c : Comp V} (hc : Closed i c) (r : Ref) {x : Cell V}
    (hx : ∀ r' ∈ x.refs, r'.owner = some i) : Closed i (lwrite c r x) := by
  refine ⟨?_, hc.sol, hc.items, hc.best, hc.handed⟩
  intro y hy
  rcases List.mem_or_eq_of_mem_set hy with h | h
  · exact hc.heap y h
  · subst h; exact hx

theorem Closed.lalloc {i : Nat} {c : Comp V} (hc : Closed i c) {x : Cell V}
    (hx : ∀ r' ∈ x.refs, r'.owner = some i) : Closed i (lalloc i c x).1 := by
  refine ⟨?_, hc.sol, hc.items, hc.best, hc.handed⟩
  intro y hy
  simp only [World.lalloc, List.mem_append, List.mem_singleton] at hy
  rcases hy with h | h
  · exact hc.heap y h
  · subst h; exact hx

@[simp] theorem lalloc_owner (i : Nat) (c : Comp V) (x : Cell V) : (lalloc i c x).2.owner = some i := rfl
@[simp] theorem lalloc_st (i : Nat) (c : Comp V) (x : Cell V) : (lalloc i c x).1.st = c.st := rfl
@[simp] theorem lalloc_handed (i : Nat) (c : Comp V) (x : Cell V) : (lalloc i c x).1.handed = c.handed := rfl
@[simp] theorem lwrite_st (c : Comp V) (r : Ref) (x : Cell V) : (lwrite c r x).st = c.st := rfl
@[simp] theorem lwrite_handed (c : Comp V) (r : Ref) (x : Cell V) : (lwrite c r x).handed = c.handed := rfl

/-! ### what a local operation leaves alone -/

/-- `c'` extends `c`: nothing is freed, and every old cell whose index is not the index of a ref in `ws` is unchanged -/
def HeapFrame (c c' : Comp V) (ws : List Ref) : Prop :=
  c.heap.length ≤ c'.heap.length ∧
  ∀ k, k < c.heap.length → (∀ r ∈ ws, r.idx ≠ k) → c'.heap[k]? = c.heap[k]?

theorem HeapFrame.of_heap_eq {c c' : Comp V} (h : c'.heap = c.heap) : HeapFrame c c' [] :=
  ⟨by rw [h]; exact Nat.le_refl _, fun k _ _ => by rw [h]⟩

theorem HeapFrame.trans {c c1 c2 : Comp V} {ws1 ws2 : List Ref} (h1 : HeapFrame c c1 ws1) (h2 : HeapFrame c1 c2 ws2) :
    HeapFrame c c2 (ws1 ++ ws2) := by
  refine ⟨Nat.le_trans h1.1 h2.1, fun k hk hws => ?_⟩
  rw [h2.2 k (Nat.lt_of_lt_of_le hk h1.1) (fun r hr => hws r (List.mem_append_right _ hr)),
      h1.2 k hk (fun r hr => hws r (List.mem_append_left _ hr))]

theorem heapFrame_lalloc (i : Nat) (c : Comp V) (x : Cell V) : HeapFrame c (lalloc i c x).1 [] := by
  refine ⟨by simp [lalloc], fun k hk _ => ?_⟩
  simp [lalloc, List.getElem?_append_left hk]

theorem heapFrame_lwrite (c : Comp V) (r : Ref) (x : Cell V) : HeapFrame c (lwrite c r x) [r] := by
  refine ⟨by simp [lwrite], fun k _ hws => ?_⟩
  have : r.idx ≠ k := hws r (by simp)
  simp [lwrite, List.getElem?_set_ne this]

@[simp] theorem lalloc_length (i : Nat) (c : Comp V) (x : Cell V) : (lalloc i c x).1.heap.length = c.heap.length + 1 := by
  simp [lalloc]
@[simp] theorem lalloc_idx (i : Nat) (c : Comp V) (x : Cell V) : (lalloc i c x).2.idx = c.heap.length := rfl
@[simp] theorem lwrite_length (c : Comp V) (r : Ref) (x : Cell V) : (lwrite c r x).heap.length = c.heap.length := by
  simp [lwrite]

end World
