import IOptProofs.GklsEval
/-!
# Structure of the GKLS function on well-formed data (`Gkls.Good D`)

The generic forms of the headline theorems of `IOptProps/C14.lean`: paraboloid outside the balls, value at
the minimisers, continuity across the spheres, lower bound inside a ball, global minimum.
-/

namespace Gkls
open Prob

/-! ### The cubic: pure real arithmetic -/

/-- the cubic branch minus `f`, factored: `t²/ρ² · ((1 - t/ρ)·P + (t/ρ)·Q)` with
`P = ρ² - 4σρ + 3a`, `Q = ρ² - 2σρ + a`, `σ = s/t` -/
theorem cubic_sub (ρ a s t f : ℝ) (hρ : 0 < ρ) (ht : 0 < t) :
    (2 / ρ / ρ * s / t - 2 * a / ρ / ρ / ρ) * t * t * t + (1 - 4 * s / t / ρ + 3 * a / ρ / ρ) * t * t + f - f
      = t * t / (ρ * ρ) *
        ((1 - t / ρ) * (ρ ^ 2 - 4 * (s / t) * ρ + 3 * a) + t / ρ * (ρ ^ 2 - 2 * (s / t) * ρ + a)) := by
  field_simp
  ring

/-- on the sphere `t = ρ` the cubic equals `ρ² - 2s + a + f` -/
theorem cubic_at_rho (ρ a s f : ℝ) (hρ : 0 < ρ) :
    (2 / ρ / ρ * s / ρ - 2 * a / ρ / ρ / ρ) * ρ * ρ * ρ + (1 - 4 * s / ρ / ρ + 3 * a / ρ / ρ) * ρ * ρ + f
      = ρ ^ 2 - 2 * s + a + f := by
  field_simp
  ring

/-- for `0 < t ≤ ρ` the cubic is strictly above `f` -/
theorem cubic_gt (ρ a s t d f : ℝ) (hρ : 0 < ρ) (ht : 0 < t) (htρ : t ≤ ρ)
    (hs : |s| ≤ t * d) (h1a : 0 ≤ ρ ^ 2 + a) (h1b : 4 * d ^ 2 * ρ ^ 2 < (ρ ^ 2 + a) ^ 2)
    (h2a : 0 ≤ ρ ^ 2 + 3 * a) (h2b : 16 * d ^ 2 * ρ ^ 2 ≤ (ρ ^ 2 + 3 * a) ^ 2) :
    f < (2 / ρ / ρ * s / t - 2 * a / ρ / ρ / ρ) * t * t * t + (1 - 4 * s / t / ρ + 3 * a / ρ / ρ) * t * t + f := by
  have hσ : |s / t| ≤ d := by
    rw [abs_div, abs_of_pos ht, div_le_iff₀ ht]
    linarith [mul_comm t d]
  obtain ⟨_, hσ2⟩ := abs_le.mp hσ
  have hσρ : s / t * ρ ≤ d * ρ := mul_le_mul_of_nonneg_right hσ2 hρ.le
  have hQ0 : 2 * d * ρ < ρ ^ 2 + a := by
    have h := abs_lt_of_sq_lt_sq (a := 2 * d * ρ) (b := ρ ^ 2 + a) (by nlinarith) h1a
    exact (abs_lt.mp h).2
  have hP0 : 4 * d * ρ ≤ ρ ^ 2 + 3 * a := by
    have h := abs_le_of_sq_le_sq (a := 4 * d * ρ) (b := ρ ^ 2 + 3 * a) (by nlinarith) h2a
    exact (abs_le.mp h).2
  have hP : 0 ≤ ρ ^ 2 - 4 * (s / t) * ρ + 3 * a := by nlinarith
  have hQ : 0 < ρ ^ 2 - 2 * (s / t) * ρ + a := by nlinarith
  have hu : 0 < t / ρ := div_pos ht hρ
  have hu1 : t / ρ ≤ 1 := (div_le_one hρ).mpr htρ
  have hb : 0 < (1 - t / ρ) * (ρ ^ 2 - 4 * (s / t) * ρ + 3 * a) + t / ρ * (ρ ^ 2 - 2 * (s / t) * ρ + a) := by
    have h1 := mul_nonneg (sub_nonneg.mpr hu1) hP
    have h2 := mul_pos hu hQ
    linarith
  have hsub := cubic_sub ρ a s t f hρ ht
  have hpos : 0 < t * t / (ρ * ρ) *
      ((1 - t / ρ) * (ρ ^ 2 - 4 * (s / t) * ρ + 3 * a) + t / ρ * (ρ ^ 2 - 2 * (s / t) * ρ + a)) :=
    mul_pos (by positivity) hb
  linarith

/-! ### Generic structure theorems -/

theorem prec_pos : (0 : ℝ) < 1e-10 := by norm_num

section good
variable {D : GklsData ℝ} (hD : Good D)
include hD

/-- every minimiser passes the domain check -/
theorem Mi_inBox (i : Nat) (hi : i < 10) : InBox (Mi D i) := hD.in_box i hi

/-- outside all balls the function is the paraboloid -/
theorem paraboloid_outside (x : List ℝ) (hdom : InDomain x)
    (hout : ∀ i, 1 ≤ i → i < 10 → rhoi D i < dist x (Mi D i)) :
    gkls consts D x = dist x (Mi D 0) ^ 2 + fi D 0 :=
  gkls_of_none D x hdom (findBall_outside hD x hout)

/-- inside ball `i` the function is the guard value or the cubic -/
theorem value_inside (x : List ℝ) (hx : x.length = D.dim) (hdom : InDomain x) (i : Nat) (h1i : 1 ≤ i)
    (hi : i < 10) (hin : dist x (Mi D i) ≤ rhoi D i) :
    gkls consts D x = if dist x (Mi D i) < 1e-10 then fi D i else cubicVal D i x :=
  gkls_of_some D x hdom i (findBall_inside hD x hx i h1i hi hin)

/-- the vertex is outside every ball -/
theorem vertex_outside (i : Nat) (h1i : 1 ≤ i) (hi : i < 10) : rhoi D i < dist (Mi D 0) (Mi D i) :=
  lt_dist_of_sq_lt (hD.vertex_out i hi h1i)

/-- `F M_i = f_i` for every `i = 0..9` -/
theorem value_at_minimiser (i : Nat) (hi : i < 10) : gkls consts D (Mi D i) = fi D i := by
  have hdom : InDomain (Mi D i) := (Mi_inBox hD i hi).inDomain
  rcases Nat.eq_zero_or_pos i with h0 | h0
  · subst h0
    rw [paraboloid_outside hD (Mi D 0) hdom (fun j h1j hj => vertex_outside hD j h1j hj)]
    simp
  · rw [value_inside hD (Mi D i) (hD.len_M i hi) hdom i h0 hi (by simpa using (hD.rho_pos i hi).le)]
    rw [if_pos (by rw [dist_self]; exact prec_pos)]

/-- the cubic branch is strictly above `f_i` at every point of ball `i` other than the centre -/
theorem cubicVal_gt (x : List ℝ) (hx : x.length = D.dim) (i : Nat) (h1i : 1 ≤ i) (hi : i < 10)
    (hpos : 0 < dist x (Mi D i)) (hin : dist x (Mi D i) ≤ rhoi D i) : fi D i < cubicVal D i x := by
  unfold cubicVal
  have hlen0 := hD.len_M 0 (by omega)
  have hleni := hD.len_M i hi
  have hcs := abs_dotFrom_le x (Mi D 0) (Mi D i) (by rw [hx, hlen0]) (by rw [hlen0, hleni])
  obtain ⟨h1a, h1b⟩ := hD.cubic1 i hi h1i
  obtain ⟨h2a, h2b⟩ := hD.cubic2 i hi h1i
  rw [← dist_sq (Mi D 0) (Mi D i)] at h1b h2b
  exact cubic_gt (rhoi D i) (cubA D i) (dotFrom (Mi D i) x (Mi D 0)) (dist x (Mi D i))
    (dist (Mi D 0) (Mi D i)) (fi D i) (hD.rho_pos i hi) hpos hin hcs h1a h1b h2a h2b

/-- on the sphere of ball `i` the cubic branch equals the paraboloid -/
theorem cubicVal_on_sphere (x : List ℝ) (hx : x.length = D.dim) (i : Nat) (_h1i : 1 ≤ i) (hi : i < 10)
    (hb : dist x (Mi D i) = rhoi D i) : cubicVal D i x = dist x (Mi D 0) ^ 2 + fi D 0 := by
  have hlen0 := hD.len_M 0 (by omega)
  have hleni := hD.len_M i hi
  unfold cubicVal
  rw [hb, cubic_at_rho _ _ _ _ (hD.rho_pos i hi), ← hb, dist_sq, dist_sq,
    sqDist_expand x (Mi D 0) (Mi D i) (by rw [hx, hlen0]) (by rw [hlen0, hleni])]
  unfold cubA
  ring

/-- the function is continuous across the sphere of ball `i`: on the sphere it equals the paraboloid -/
theorem splice (x : List ℝ) (hx : x.length = D.dim) (hdom : InDomain x) (i : Nat) (h1i : 1 ≤ i) (hi : i < 10)
    (hb : dist x (Mi D i) = rhoi D i) : gkls consts D x = dist x (Mi D 0) ^ 2 + fi D 0 := by
  rw [value_inside hD x hx hdom i h1i hi hb.le, if_neg (by rw [hb]; exact not_lt.mpr (hD.rho_ge_prec i hi))]
  exact cubicVal_on_sphere hD x hx i h1i hi hb

/-- in ball `i`: `F x ≥ f_i`, with equality only in the guard region `‖x - M_i‖ < 10⁻¹⁰` -/
theorem ball_lower_bound (x : List ℝ) (hx : x.length = D.dim) (hdom : InDomain x) (i : Nat) (h1i : 1 ≤ i)
    (hi : i < 10) (hin : dist x (Mi D i) ≤ rhoi D i) :
    fi D i ≤ gkls consts D x ∧ (gkls consts D x = fi D i → dist x (Mi D i) < 1e-10) := by
  rw [value_inside hD x hx hdom i h1i hi hin]
  by_cases hg : dist x (Mi D i) < 1e-10
  · rw [if_pos hg]
    exact ⟨le_refl _, fun _ => hg⟩
  · rw [if_neg hg]
    have hpos : 0 < dist x (Mi D i) := lt_of_lt_of_le prec_pos (not_lt.mp hg)
    have hgt := cubicVal_gt hD x hx i h1i hi hpos hin
    exact ⟨hgt.le, fun h => absurd h (ne_of_gt hgt)⟩

/-- every prescribed value is at least `-1` -/
theorem fi_ge (i : Nat) (h1i : 1 ≤ i) (hi : i < 10) : -1 ≤ fi D i := by
  rcases Nat.lt_or_ge i 2 with h | h
  · have : i = 1 := by omega
    subst this
    rw [hD.f_one]
  · exact (hD.f_gt i hi h).le

/-- global minimum: `F ≥ -1` on the domain, `F M_1 = -1`, and `F x = -1` only within `10⁻¹⁰` of `M_1` -/
theorem global_min :
    (∀ x : List ℝ, x.length = D.dim → InDomain x → -1 ≤ gkls consts D x) ∧
    gkls consts D (Mi D 1) = -1 ∧
    (∀ x : List ℝ, x.length = D.dim → InDomain x → gkls consts D x = -1 → dist x (Mi D 1) < 1e-10) := by
  have key : ∀ x : List ℝ, x.length = D.dim → InDomain x →
      -1 ≤ gkls consts D x ∧ (gkls consts D x = -1 → dist x (Mi D 1) < 1e-10) := by
    intro x hx hdom
    by_cases h : ∃ i, 1 ≤ i ∧ i < 10 ∧ dist x (Mi D i) ≤ rhoi D i
    · obtain ⟨i, h1i, hi, hin⟩ := h
      obtain ⟨hlb, heq⟩ := ball_lower_bound hD x hx hdom i h1i hi hin
      have hfi := fi_ge hD i h1i hi
      refine ⟨le_trans hfi hlb, fun hm1 => ?_⟩
      have hfi1 : fi D i = -1 := le_antisymm (by rw [← hm1]; exact hlb) hfi
      have hi1 : i = 1 := by
        by_contra hne
        have := hD.f_gt i hi (by omega)
        linarith
      subst hi1
      exact heq (by rw [hm1, hfi1])
    · have hout : ∀ i, 1 ≤ i → i < 10 → rhoi D i < dist x (Mi D i) := by
        intro i h1i hi
        by_contra hc
        exact h ⟨i, h1i, hi, not_lt.mp hc⟩
      rw [paraboloid_outside hD x hdom hout, hD.f_zero]
      have : 0 ≤ dist x (Mi D 0) ^ 2 := sq_nonneg _
      refine ⟨by linarith, fun hm1 => ?_⟩
      linarith
  refine ⟨fun x hx hdom => (key x hx hdom).1, ?_, fun x hx hdom => (key x hx hdom).2⟩
  rw [value_at_minimiser hD 1 (by omega), hD.f_one]

end good
end Gkls
