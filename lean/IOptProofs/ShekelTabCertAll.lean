import IOptProofs.ShekelTabCert0
import IOptProofs.ShekelTabCert1
import IOptProofs.ShekelTabCert2
import IOptProofs.ShekelTabCert3
import IOptProofs.ShekelTabCert4
import IOptProofs.ShekelTabCert5
import IOptProofs.ShekelTabCert6
import IOptProofs.ShekelTabCert7
import IOptProofs.ShekelTabCert8
import IOptProofs.ShekelTabCert9
import IOptProofs.ShekelTabCert10
import IOptProofs.ShekelTabCert11
import IOptProofs.ShekelTabCert12
import IOptProofs.ShekelTabCert13
import IOptProofs.ShekelTabCert14
import IOptProofs.ShekelTabCert15
import IOptProofs.ShekelTabCert16
import IOptProofs.ShekelTabCert17
import IOptProofs.ShekelTabCert18
import IOptProofs.ShekelTabCert19
import IOptProofs.ShekelTabCert20
import IOptProofs.ShekelTabCert21
import IOptProofs.ShekelTabCert22
import IOptProofs.ShekelTabCert23
import IOptProofs.ShekelTabCert24
import IOptProofs.ShekelTabCert25
import IOptProofs.ShekelTabCert26
import IOptProofs.ShekelTabCert27
import IOptProofs.ShekelTabCert28
import IOptProofs.ShekelTabCert29
import IOptProofs.ShekelTabCert30
import IOptProofs.ShekelTabCert31
import IOptProofs.ShekelTabCert32
import IOptProofs.ShekelTabCert33
import IOptProofs.ShekelTabCert34
import IOptProofs.ShekelTabCert35
import IOptProofs.ShekelTabCert36
import IOptProofs.ShekelTabCert37
import IOptProofs.ShekelTabCert38
import IOptProofs.ShekelTabCert39
import IOptProofs.ShekelTabCert40
import IOptProofs.ShekelTabCert41
import IOptProofs.ShekelTabCert42
import IOptProofs.ShekelTabCert43
import IOptProofs.ShekelTabCert44
import IOptProofs.ShekelTabCert45
import IOptProofs.ShekelTabCert46
import IOptProofs.ShekelTabCert47
import IOptProofs.ShekelTabCert48
import IOptProofs.ShekelTabCert49
/-! all 1000 Shekel C18 table certificates, assembled from the 50 kernel-evaluated blocks -/
namespace Shk
theorem shekel_tab_part_0 : ∀ i, 0 ≤ i → i < 200 → shekelTabOK i = true := by
  intro i hlo hi
  if h0 : i < 20 then exact shekel_tab_block_0 i (List.mem_range'_1.2 ⟨by omega, by omega⟩) else
  if h1 : i < 40 then exact shekel_tab_block_1 i (List.mem_range'_1.2 ⟨by omega, by omega⟩) else
  if h2 : i < 60 then exact shekel_tab_block_2 i (List.mem_range'_1.2 ⟨by omega, by omega⟩) else
  if h3 : i < 80 then exact shekel_tab_block_3 i (List.mem_range'_1.2 ⟨by omega, by omega⟩) else
  if h4 : i < 100 then exact shekel_tab_block_4 i (List.mem_range'_1.2 ⟨by omega, by omega⟩) else
  if h5 : i < 120 then exact shekel_tab_block_5 i (List.mem_range'_1.2 ⟨by omega, by omega⟩) else
  if h6 : i < 140 then exact shekel_tab_block_6 i (List.mem_range'_1.2 ⟨by omega, by omega⟩) else
  if h7 : i < 160 then exact shekel_tab_block_7 i (List.mem_range'_1.2 ⟨by omega, by omega⟩) else
  if h8 : i < 180 then exact shekel_tab_block_8 i (List.mem_range'_1.2 ⟨by omega, by omega⟩) else
  if h9 : i < 200 then exact shekel_tab_block_9 i (List.mem_range'_1.2 ⟨by omega, by omega⟩) else
  omega
theorem shekel_tab_part_1 : ∀ i, 200 ≤ i → i < 400 → shekelTabOK i = true := by
  intro i hlo hi
  if h10 : i < 220 then exact shekel_tab_block_10 i (List.mem_range'_1.2 ⟨by omega, by omega⟩) else
  if h11 : i < 240 then exact shekel_tab_block_11 i (List.mem_range'_1.2 ⟨by omega, by omega⟩) else
  if h12 : i < 260 then exact shekel_tab_block_12 i (List.mem_range'_1.2 ⟨by omega, by omega⟩) else
  if h13 : i < 280 then exact shekel_tab_block_13 i (List.mem_range'_1.2 ⟨by omega, by omega⟩) else
  if h14 : i < 300 then exact shekel_tab_block_14 i (List.mem_range'_1.2 ⟨by omega, by omega⟩) else
  if h15 : i < 320 then exact shekel_tab_block_15 i (List.mem_range'_1.2 ⟨by omega, by omega⟩) else
  if h16 : i < 340 then exact shekel_tab_block_16 i (List.mem_range'_1.2 ⟨by omega, by omega⟩) else
  if h17 : i < 360 then exact shekel_tab_block_17 i (List.mem_range'_1.2 ⟨by omega, by omega⟩) else
  if h18 : i < 380 then exact shekel_tab_block_18 i (List.mem_range'_1.2 ⟨by omega, by omega⟩) else
  if h19 : i < 400 then exact shekel_tab_block_19 i (List.mem_range'_1.2 ⟨by omega, by omega⟩) else
  omega
theorem shekel_tab_part_2 : ∀ i, 400 ≤ i → i < 600 → shekelTabOK i = true := by
  intro i hlo hi
  if h20 : i < 420 then exact shekel_tab_block_20 i (List.mem_range'_1.2 ⟨by omega, by omega⟩) else
  if h21 : i < 440 then exact shekel_tab_block_21 i (List.mem_range'_1.2 ⟨by omega, by omega⟩) else
  if h22 : i < 460 then exact shekel_tab_block_22 i (List.mem_range'_1.2 ⟨by omega, by omega⟩) else
  if h23 : i < 480 then exact shekel_tab_block_23 i (List.mem_range'_1.2 ⟨by omega, by omega⟩) else
  if h24 : i < 500 then exact shekel_tab_block_24 i (List.mem_range'_1.2 ⟨by omega, by omega⟩) else
  if h25 : i < 520 then exact shekel_tab_block_25 i (List.mem_range'_1.2 ⟨by omega, by omega⟩) else
  if h26 : i < 540 then exact shekel_tab_block_26 i (List.mem_range'_1.2 ⟨by omega, by omega⟩) else
  if h27 : i < 560 then exact shekel_tab_block_27 i (List.mem_range'_1.2 ⟨by omega, by omega⟩) else
  if h28 : i < 580 then exact shekel_tab_block_28 i (List.mem_range'_1.2 ⟨by omega, by omega⟩) else
  if h29 : i < 600 then exact shekel_tab_block_29 i (List.mem_range'_1.2 ⟨by omega, by omega⟩) else
  omega
theorem shekel_tab_part_3 : ∀ i, 600 ≤ i → i < 800 → shekelTabOK i = true := by
  intro i hlo hi
  if h30 : i < 620 then exact shekel_tab_block_30 i (List.mem_range'_1.2 ⟨by omega, by omega⟩) else
  if h31 : i < 640 then exact shekel_tab_block_31 i (List.mem_range'_1.2 ⟨by omega, by omega⟩) else
  if h32 : i < 660 then exact shekel_tab_block_32 i (List.mem_range'_1.2 ⟨by omega, by omega⟩) else
  if h33 : i < 680 then exact shekel_tab_block_33 i (List.mem_range'_1.2 ⟨by omega, by omega⟩) else
  if h34 : i < 700 then exact shekel_tab_block_34 i (List.mem_range'_1.2 ⟨by omega, by omega⟩) else
  if h35 : i < 720 then exact shekel_tab_block_35 i (List.mem_range'_1.2 ⟨by omega, by omega⟩) else
  if h36 : i < 740 then exact shekel_tab_block_36 i (List.mem_range'_1.2 ⟨by omega, by omega⟩) else
  if h37 : i < 760 then exact shekel_tab_block_37 i (List.mem_range'_1.2 ⟨by omega, by omega⟩) else
  if h38 : i < 780 then exact shekel_tab_block_38 i (List.mem_range'_1.2 ⟨by omega, by omega⟩) else
  if h39 : i < 800 then exact shekel_tab_block_39 i (List.mem_range'_1.2 ⟨by omega, by omega⟩) else
  omega
theorem shekel_tab_part_4 : ∀ i, 800 ≤ i → i < 1000 → shekelTabOK i = true := by
  intro i hlo hi
  if h40 : i < 820 then exact shekel_tab_block_40 i (List.mem_range'_1.2 ⟨by omega, by omega⟩) else
  if h41 : i < 840 then exact shekel_tab_block_41 i (List.mem_range'_1.2 ⟨by omega, by omega⟩) else
  if h42 : i < 860 then exact shekel_tab_block_42 i (List.mem_range'_1.2 ⟨by omega, by omega⟩) else
  if h43 : i < 880 then exact shekel_tab_block_43 i (List.mem_range'_1.2 ⟨by omega, by omega⟩) else
  if h44 : i < 900 then exact shekel_tab_block_44 i (List.mem_range'_1.2 ⟨by omega, by omega⟩) else
  if h45 : i < 920 then exact shekel_tab_block_45 i (List.mem_range'_1.2 ⟨by omega, by omega⟩) else
  if h46 : i < 940 then exact shekel_tab_block_46 i (List.mem_range'_1.2 ⟨by omega, by omega⟩) else
  if h47 : i < 960 then exact shekel_tab_block_47 i (List.mem_range'_1.2 ⟨by omega, by omega⟩) else
  if h48 : i < 980 then exact shekel_tab_block_48 i (List.mem_range'_1.2 ⟨by omega, by omega⟩) else
  if h49 : i < 1000 then exact shekel_tab_block_49 i (List.mem_range'_1.2 ⟨by omega, by omega⟩) else
  omega
theorem shekel_tab_all : ∀ i < 1000, shekelTabOK i = true := by
  intro i hi
  if h0 : i < 200 then exact shekel_tab_part_0 i (by omega) h0 else
  if h1 : i < 400 then exact shekel_tab_part_1 i (by omega) h1 else
  if h2 : i < 600 then exact shekel_tab_part_2 i (by omega) h2 else
  if h3 : i < 800 then exact shekel_tab_part_3 i (by omega) h3 else
  if h4 : i < 1000 then exact shekel_tab_part_4 i (by omega) h4 else
  omega
end Shk
