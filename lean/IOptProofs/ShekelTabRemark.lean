import IOptProofs.ShekelTab
/-!
# Shekel tables: why the location clause is stated against the true minimum, not against `f(pmin)`

The tabulated locations are multiples of `1e-3`, and for a few rows the true minimiser is a little more than
`5e-4` away from the tabulated one (e.g. row 913: `5.014e-4`).  For those rows the sublevel set
`{x : f x ≤ f pmin}` sticks out of `[pmin - 1e-3, pmin + 1e-3]`: there is a point of the box farther than `1e-3`
from `pmin` with a value *below* `f pmin` (by at most `5.1e-8`).  So "every `x` with `f x ≤ f(pmin)` lies within
`1e-3` of `pmin`" is false for these rows, while "every global minimiser lies within `1e-3` of `pmin`"
(`ShekelTables.minimiser_near`) holds for all 1000 rows.  This file certifies the five such rows.
-/

namespace Shk

/-- some point at distance `(W+1)/2^E > 1e-3` from the tabulated minimum location has a smaller value -/
noncomputable def sublevelOutCert (k a c : List Dy) (pn px : Dy) : Bool :=
  force (expForTab k a c pn px) fun E =>
  force (2 ^ (3 * E + P)) fun A =>
  force (scale E pn) fun X =>
  force (10 * 2 ^ E) fun X10 =>
  force (2 ^ E / 1000) fun W =>
  tabOK E k a c && scaleOK E pn && Nat.ble X X10 &&
  forceTerms (nterms E k a c) fun ts =>
  force (sUpR A ts X X) fun up =>
  (Nat.ble (W + 1) X && Nat.blt up (sDnR A ts (X - (W + 1)) (X - (W + 1)))) ||
  (Nat.ble (X + (W + 1)) X10 && Nat.blt up (sDnR A ts (X + (W + 1)) (X + (W + 1))))

noncomputable def sublevelOut (i : Nat) : Bool :=
  force Gen.shekelRows[i]! fun row =>
    sublevelOutCert (Dy.slice row 0 10) (Dy.slice row 10 10) (Dy.slice row 20 10) (Dy.get row 31) (Dy.get row 33)

theorem sublevelOutCert_sound (k a c : List Dy) (pn px : Dy) (h : sublevelOutCert k a c pn px = true) :
    ∃ x : ℝ, 0 ≤ x ∧ x ≤ 10 ∧ 1e-3 < |x - dyR pn| ∧
      Prob.shekel (k.map dyR) (a.map dyR) (c.map dyR) x < Prob.shekel (k.map dyR) (a.map dyR) (c.map dyR) (dyR pn) := by
  simp only [sublevelOutCert, force_eq, forceTerms_eq, Bool.and_eq_true, Bool.or_eq_true] at h
  set E := expForTab k a c pn px
  obtain ⟨⟨⟨htab, hpn⟩, hX10⟩, hcase⟩ := h
  set ts := nterms E k a c
  have hts := nterms_pos E k a c htab
  have hf : Prob.shekel (k.map dyR) (a.map dyR) (c.map dyR) = fR E ts :=
    funext fun x => fR_eq_shekel E k a c htab x
  rw [hf]
  have hs : (0 : ℝ) < 2 ^ E := by positivity
  have hP := two_pow_pos' P
  have hpX : dyR pn * 2 ^ E = (scale E pn : ℝ) := by rw [dyR_eq_scale E pn hpn]; field_simp
  have hp : dyR pn = (scale E pn : ℝ) / 2 ^ E := by rw [← hpX]; field_simp
  have hWlt : (2 : ℝ) ^ E < (((2 ^ E / 1000 : Nat) : ℝ) + 1) * 1000 := by
    have := Nat.lt_mul_div_succ (2 ^ E) (show 0 < 1000 by norm_num)
    have h' : ((2 ^ E : Nat) : ℝ) < ((1000 * (2 ^ E / 1000 + 1) : Nat) : ℝ) := by exact_mod_cast this
    push_cast at h'
    linarith
  have hup := sUp_sound E _ _ (dyR pn) hpX.ge hpX.le ts hts
  rw [← sUpR_eq] at hup
  have hXle : scale E pn ≤ 10 * 2 ^ E := Nat.le_of_ble_eq_true hX10
  -- the value at an integer point `Y` beats the value at `pmin`
  have key : ∀ Y : Nat, sUpR (2 ^ (3 * E + P)) ts (scale E pn) (scale E pn) < sDnR (2 ^ (3 * E + P)) ts Y Y →
      fR E ts ((Y : ℝ) / 2 ^ E) < fR E ts (dyR pn) := by
    intro Y hY
    have hm : (Y : ℝ) / 2 ^ E * 2 ^ E = Y := by field_simp
    have hdn := sDn_sound E Y Y ((Y : ℝ) / 2 ^ E) hm.ge hm.le ts hts
    rw [← sDnR_eq] at hdn
    have hlt : (sUpR (2 ^ (3 * E + P)) ts (scale E pn) (scale E pn) : ℝ) / 2 ^ P
        < (sDnR (2 ^ (3 * E + P)) ts Y Y : ℝ) / 2 ^ P :=
      div_lt_div_of_pos_right (by exact_mod_cast hY) hP
    unfold fR
    linarith
  rcases hcase with ⟨hW, hlt⟩ | ⟨hW, hlt⟩
  · have hWX : 2 ^ E / 1000 + 1 ≤ scale E pn := Nat.le_of_ble_eq_true hW
    refine ⟨((scale E pn - (2 ^ E / 1000 + 1) : Nat) : ℝ) / 2 ^ E, by positivity, ?_, ?_, key _ (lt_of_blt hlt)⟩
    · rw [div_le_iff₀ hs]
      have : ((scale E pn - (2 ^ E / 1000 + 1) : Nat) : ℝ) ≤ ((10 * 2 ^ E : Nat) : ℝ) := by
        exact_mod_cast (Nat.sub_le _ _).trans hXle
      push_cast at this; exact this
    · rw [hp, Nat.cast_sub hWX, ← sub_div, abs_div, abs_of_pos hs, lt_div_iff₀ hs]
      push_cast
      rw [show ((scale E pn : ℝ) - ((((2 ^ E / 1000 : Nat) : ℝ)) + 1) - (scale E pn : ℝ))
        = -((((2 ^ E / 1000 : Nat) : ℝ)) + 1) by ring, abs_neg, abs_of_pos (by positivity)]
      norm_num at hWlt ⊢
      linarith
  · have hWX : scale E pn + (2 ^ E / 1000 + 1) ≤ 10 * 2 ^ E := Nat.le_of_ble_eq_true hW
    refine ⟨((scale E pn + (2 ^ E / 1000 + 1) : Nat) : ℝ) / 2 ^ E, by positivity, ?_, ?_, key _ (lt_of_blt hlt)⟩
    · rw [div_le_iff₀ hs]
      have : ((scale E pn + (2 ^ E / 1000 + 1) : Nat) : ℝ) ≤ ((10 * 2 ^ E : Nat) : ℝ) := by exact_mod_cast hWX
      push_cast at this ⊢; exact this
    · rw [hp, ← sub_div, abs_div, abs_of_pos hs, lt_div_iff₀ hs]
      push_cast
      rw [show ((scale E pn : ℝ) + ((((2 ^ E / 1000 : Nat) : ℝ)) + 1) - (scale E pn : ℝ))
        = ((((2 ^ E / 1000 : Nat) : ℝ)) + 1) by ring, abs_of_pos (by positivity)]
      norm_num at hWlt ⊢
      linarith

/-- if `sublevelOut i = true`, some point of the box farther than `1e-3` from the tabulated location of the
minimum has a value below the value at that location -/
theorem sublevelOut_sound (i : Nat) (h : sublevelOut i = true) :
    ∃ x : ℝ, 0 ≤ x ∧ x ≤ 10 ∧ 1e-3 < |x - dyR (Gen.shekelMinPoint i)| ∧
      shekelFn i x < shekelFn i (dyR (Gen.shekelMinPoint i)) := by
  unfold sublevelOut at h
  rw [force_eq] at h
  exact sublevelOutCert_sound _ _ _ _ _ h

set_option maxRecDepth 100000 in
/-- the five rows where this happens (found by a numerical scan; certified here) -/
theorem sublevelOut_rows : ∀ i ∈ [492, 640, 797, 913, 970], sublevelOut i = true := by decide +kernel

end Shk
