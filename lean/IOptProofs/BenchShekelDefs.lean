import IOptGen.ShekelTables
/-!
# Shekel: the computable side of the verified interval branch-and-bound (no Mathlib)

`f(x) = -Σᵢ 1/(kᵢ (x - aᵢ)² + cᵢ)` on `[0,10]`.

All table entries of one function are scaled to natural numbers with one common denominator `2^E`
(exactly: `tabOK` checks that no bit is lost); a point `x` of `[0,10]` is `X / 2^E`, `X : Nat`.
For an integer box `[lo, hi]` every term `1/(k (x-a)² + c)` is bounded above using the smallest and below
using the largest possible `|x-a|`; the only rounding is the final integer division, outward, to multiples
of `2^-P`.

Kernel-evaluation notes (measured).  The functions are written with `Nat.add`, `Nat.mul`, `Nat.sub`,
`Nat.div`, `Nat.ble` applied directly (the kernel evaluates these on literals in one GMP step, without
unfolding type-class instances) and the table data are forced to literals once per function (`forceNat`,
`forceTerms`): this is 15-20 times faster than the same computation over `Int` with `+ * /` notation
(1 ms instead of 20-40 ms per box).
-/

namespace Shk

/-- fixed-point precision of the sums: multiples of `2^-P` -/
def P : Nat := 40

/-- a term `(k·2^E, a·2^E, c·2^(3E))` -/
abbrev NTerm := Nat × Nat × Nat

/-- `⌈A / n⌉` -/
def divUp (A n : Nat) : Nat := Nat.div (Nat.sub (Nat.add A n) 1) n
def sq (d : Nat) : Nat := Nat.mul d d
/-- a lower bound of `|X - a|` for `X ∈ [lo, hi]` (exact: at most one summand is non-zero) -/
def near (lo hi a : Nat) : Nat := Nat.add (Nat.sub lo a) (Nat.sub a hi)
/-- an upper bound of `|X - a|` for `X ∈ [lo, hi]` -/
def far (lo hi a : Nat) : Nat := Nat.add (Nat.sub hi a) (Nat.sub a lo)
/-- `k d² + c`, scaled by `2^(3E)` -/
def den (t : NTerm) (d : Nat) : Nat := Nat.add (Nat.mul t.1 (sq d)) t.2.2
/-- upper bound of the term on the box, in units of `2^-P`; `A = 2^(3E+P)` -/
def tUp (A : Nat) (t : NTerm) (lo hi : Nat) : Nat := divUp A (den t (near lo hi t.2.1))
/-- lower bound of the term on the box, in units of `2^-P` -/
def tDn (A : Nat) (t : NTerm) (lo hi : Nat) : Nat := Nat.div A (den t (far lo hi t.2.1))

def sUp (A : Nat) : List NTerm → Nat → Nat → Nat
  | [], _, _ => 0
  | t :: ts, lo, hi => Nat.add (tUp A t lo hi) (sUp A ts lo hi)

def sDn (A : Nat) : List NTerm → Nat → Nat → Nat
  | [], _, _ => 0
  | t :: ts, lo, hi => Nat.add (tDn A t lo hi) (sDn A ts lo hi)

/-- evaluate `n` to a literal before continuing (`forceNat n k = k n`) -/
def forceNat (n : Nat) (k : Nat → Bool) : Bool := match n with | 0 => k 0 | m + 1 => k (m + 1)

def forceTerms : List NTerm → (List NTerm → Bool) → Bool
  | [], k => k []
  | (a, b, c) :: ts, k => forceNat a fun a => forceNat b fun b => forceNat c fun c =>
      forceTerms ts fun ts => k ((a, b, c) :: ts)

/-- branch and bound for a LOWER bound of `f = -Σ terms`: `true` means `f ≥ -T/2^P` on `[lo,hi]/2^E` -/
def bnb (A : Nat) (ts : List NTerm) (T : Nat) : Nat → Nat → Nat → Bool
  | 0, lo, hi => Nat.ble (sUp A ts lo hi) T
  | fuel + 1, lo, hi =>
    Nat.ble (sUp A ts lo hi) T ||
      (Nat.blt (Nat.add lo 1) hi && forceNat (Nat.div (Nat.add lo hi) 2) fun m =>
        (bnb A ts T fuel lo m && bnb A ts T fuel m hi))

/-- branch and bound for an UPPER bound of `f`: `true` means `f ≤ -T/2^P` on `[lo,hi]/2^E` -/
def bnbUp (A : Nat) (ts : List NTerm) (T : Nat) : Nat → Nat → Nat → Bool
  | 0, lo, hi => Nat.ble T (sDn A ts lo hi)
  | fuel + 1, lo, hi =>
    Nat.ble T (sDn A ts lo hi) ||
      (Nat.blt (Nat.add lo 1) hi && forceNat (Nat.div (Nat.add lo hi) 2) fun m =>
        (bnbUp A ts T fuel lo m && bnbUp A ts T fuel m hi))

/-! ### scaling the tables -/

/-- the exponent needed by one double (0 for zero) -/
def expOf (d : Dy) : Nat := if d.1 = 0 then 0 else d.2

/-- common exponent of a list of doubles -/
def maxExp (ds : List Dy) : Nat := ds.foldl (fun e d => max e (expOf d)) 0

/-- `d · 2^E` as a natural number (exact when `0 ≤ d` and `expOf d ≤ E`) -/
def scale (E : Nat) (d : Dy) : Nat := if d.1 = 0 then 0 else d.1.toNat * 2 ^ (E - d.2)

/-- the double is non-negative and scaling by `2^E` loses no bit -/
def scaleOK (E : Nat) (d : Dy) : Bool := decide (0 ≤ d.1) && decide (expOf d ≤ E)

/-- the scaled terms of a function given by its three coefficient lists -/
def nterms (E : Nat) (k a c : List Dy) : List NTerm :=
  List.zip (k.map (scale E)) (List.zip (a.map (scale E)) (c.map fun d => scale E d * 2 ^ (2 * E)))

/-- the tables scale exactly, and all `k, c > 0` -/
def tabOK (E : Nat) (k a c : List Dy) : Bool :=
  k.all (fun d => scaleOK E d && decide (0 < d.1)) && a.all (scaleOK E) &&
  c.all (fun d => scaleOK E d && decide (0 < d.1))

/-- the radius of the location clause: `51/1024 < 0.05` (0.5 % of the side 10) -/
def radius (E : Nat) : Nat := 51 * 2 ^ (E - 10)

def qabs (q : Rat) : Rat := if q < 0 then -q else q
def qmax1 (q : Rat) : Rat := if q < 1 then 1 else q

/-- the common exponent used for function `i` (at least 10, so that the radius is exact) -/
def expFor (k a c : List Dy) (p : Dy) : Nat := max (maxExp (k ++ a ++ c)) (max (expOf p) 10)

/-- the certificate with the common exponent `E` given -/
def shekelCertE (E : Nat) (k a c : List Dy) (v p : Dy) : Bool :=
  forceNat (2 ^ (3 * E + P)) fun A =>
  forceNat (scale E p) fun X =>
  forceNat (10 * 2 ^ E) fun X10 =>
  forceNat (radius E) fun R =>
  tabOK E k a c && scaleOK E p && Nat.ble X X10 &&
  forceTerms (nterms E k a c) fun ts =>
  forceNat (sUp A ts X X) fun up =>
  forceNat (sDn A ts X X) fun dn =>
  -- value clause
  decide (v.toRat - 1 / 10000 ≤ -(up : Rat) / 2 ^ P) && decide (-(dn : Rat) / 2 ^ P ≤ v.toRat + 1 / 10000) &&
  -- global clause
  decide (0 ≤ (-(v.toRat - 2 / 1000 * qmax1 (qabs v.toRat)) * 2 ^ P).floor) &&
  forceNat (-(v.toRat - 2 / 1000 * qmax1 (qabs v.toRat)) * 2 ^ P).floor.toNat (fun T => bnb A ts T 64 0 X10) &&
  -- location clause
  Nat.blt 0 dn &&
  (Nat.blt X R || bnb A ts (Nat.sub dn 1) 64 0 (Nat.sub X R)) &&
  (Nat.blt X10 (Nat.add X R) || bnb A ts (Nat.sub dn 1) 64 (Nat.add X R) X10)

/-- **The C10 certificate of one Shekel function** with coefficient lists `k a c`, declared minimum
value `v` and point `p`: tables scale exactly with positive `k, c`; value clause `|f(p) - v| ≤ 1e-4`;
global clause `f ≥ v - 2e-3·max(1,|v|)` on `[0,10]`; location clause `f > f(p)` on `[0,10]` outside
`(p - 51/1024, p + 51/1024)`. -/
def shekelCert (k a c : List Dy) (v p : Dy) : Bool :=
  forceNat (expFor k a c p) fun E => shekelCertE E k a c v p

/-- the certificate of function `i` of the generated tables (the packed row is evaluated once;
`Dy.slice row 0 10 = Gen.shekelK i` etc. by definition) -/
def shekelOK (i : Nat) : Bool :=
  forceNat Gen.shekelRows[i]! fun row =>
    shekelCert (Dy.slice row 0 10) (Dy.slice row 10 10) (Dy.slice row 20 10) (Dy.get row 30) (Dy.get row 31)

end Shk
