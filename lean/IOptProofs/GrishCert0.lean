import IOptProofs.GrishDefs
/-! kernel-evaluated certificates (V), (G), (P) of the Grishagin functions 1..5 (one block per file, identical template;
one theorem per function so that the kernel's reduction cache is released between functions) -/
namespace Grish
set_option maxRecDepth 100000
theorem grish_ok_1 : grishOK 1 = true := by decide +kernel
theorem grish_ok_2 : grishOK 2 = true := by decide +kernel
theorem grish_ok_3 : grishOK 3 = true := by decide +kernel
theorem grish_ok_4 : grishOK 4 = true := by decide +kernel
theorem grish_ok_5 : grishOK 5 = true := by decide +kernel
theorem grish_block_0 : ∀ k ∈ List.range' 1 5, grishOK k = true := by
  intro k hk
  simp only [List.mem_range'_1] at hk
  obtain ⟨h1, h2⟩ := hk
  have : k = 1 ∨ k = 2 ∨ k = 3 ∨ k = 4 ∨ k = 5 := by omega
  rcases this with rfl | rfl | rfl | rfl | rfl
  · exact grish_ok_1
  · exact grish_ok_2
  · exact grish_ok_3
  · exact grish_ok_4
  · exact grish_ok_5
end Grish
