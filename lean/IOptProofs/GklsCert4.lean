import IOptProofs.GklsCert4a
import IOptProofs.GklsCert4b
import Mathlib.Tactic.IntervalCases
/-!
# All 100 regenerated GKLS data sets of dimension 4 pass the certificate
-/

namespace Gkls

/-- every data set of dimension 4 passes the certificate -/
theorem cert4 : ∀ k ∈ List.range' 1 100, Cert 4 k = true := by
  apply range_blocks5
  intro b hb
  interval_cases b
  · exact cert4_0
  · exact cert4_1
  · exact cert4_2
  · exact cert4_3
  · exact cert4_4
  · exact cert4_5
  · exact cert4_6
  · exact cert4_7
  · exact cert4_8
  · exact cert4_9
  · exact cert4_10
  · exact cert4_11
  · exact cert4_12
  · exact cert4_13
  · exact cert4_14
  · exact cert4_15
  · exact cert4_16
  · exact cert4_17
  · exact cert4_18
  · exact cert4_19

end Gkls
