import IOptProofs.GklsClass
import Mathlib.Tactic.IntervalCases
/-!
# Kernel-decided certificates of the 100 regenerated GKLS data sets of dimension 4

`Gkls.Cert 4 k` = well-formedness `WF` + class clauses `ClassOK` + identity (`dim = 4`, `number = k`).
One lemma per block of ten function numbers (`decide +kernel`: exact integer arithmetic in the kernel).
-/

namespace Gkls
set_option maxRecDepth 100000

theorem cert4_0 : ∀ k ∈ List.range' 1 10, Cert 4 k = true := by decide +kernel
theorem cert4_1 : ∀ k ∈ List.range' 11 10, Cert 4 k = true := by decide +kernel
theorem cert4_2 : ∀ k ∈ List.range' 21 10, Cert 4 k = true := by decide +kernel
theorem cert4_3 : ∀ k ∈ List.range' 31 10, Cert 4 k = true := by decide +kernel
theorem cert4_4 : ∀ k ∈ List.range' 41 10, Cert 4 k = true := by decide +kernel
theorem cert4_5 : ∀ k ∈ List.range' 51 10, Cert 4 k = true := by decide +kernel
theorem cert4_6 : ∀ k ∈ List.range' 61 10, Cert 4 k = true := by decide +kernel
theorem cert4_7 : ∀ k ∈ List.range' 71 10, Cert 4 k = true := by decide +kernel
theorem cert4_8 : ∀ k ∈ List.range' 81 10, Cert 4 k = true := by decide +kernel
theorem cert4_9 : ∀ k ∈ List.range' 91 10, Cert 4 k = true := by decide +kernel

/-- every data set of dimension 4 passes the certificate -/
theorem cert4 : ∀ k ∈ List.range' 1 100, Cert 4 k = true := by
  apply range_blocks
  intro b hb
  interval_cases b
  · exact cert4_0
  · exact cert4_1
  · exact cert4_2
  · exact cert4_3
  · exact cert4_4
  · exact cert4_5
  · exact cert4_6
  · exact cert4_7
  · exact cert4_8
  · exact cert4_9

end Gkls
