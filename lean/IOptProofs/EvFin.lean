import IOptProofs.EvBasic
/-!
# The finite facts about one level of the evolvent (`EvFacts n`) and their Boolean certificate

`EvFacts n` collects the facts (F1)-(F3) about `Ev.step n` over **all** valid level states
(`it < n`, `iw ∈ {±1}^n`) and all digits `d < 2^n`.

They are established by a Boolean certificate `EvCert n` that the kernel evaluates
(`IOptProofs/EvFinCert.lean`), plus the soundness theorem `evFacts_of_cert` below.  The certificate
does not enumerate the `2^n` sign vectors `iw`: `step` is equivariant under the coordinate-wise
reflections (`(step n ⟨it, w⟩ d).2 = U n it d * w`, `iw' = w * (-V n it d)` pointwise,
see `step_eq`), so every fact is first checked for the "unsigned" vectors `U`, `V` (which depend on
`it`, `d` only) and then transported to an arbitrary sign vector `w` by the generic lemmas here.
-/

namespace Ev

/-- Facts (F1)-(F3) about one level of the `n`-dimensional evolvent, over all valid states. -/
structure EvFacts (n : Nat) : Prop where
  /-- (F1) closure: the next state is valid and the offset is a sign vector -/
  closed : ∀ s d, validState n s → d < 2^n →
    validState n (step n s d).1 ∧ signVec n (step n s d).2
  /-- (F2) the map digit ↦ offset is injective on `d < 2^n` ... -/
  inj : ∀ s d d', validState n s → d < 2^n → d' < 2^n →
    (step n s d).2 = (step n s d').2 → d = d'
  /-- (F2) ... and onto `{±1}^n` -/
  surj : ∀ s o, validState n s → signVec n o → ∃ d, d < 2^n ∧ (step n s d).2 = o
  /-- (F3) self-similarity at the first digit: the first child of the first child starts in the
  same corner -/
  self0 : ∀ s, validState n s → (step n (step n s 0).1 0).2 = (step n s 0).2
  /-- (F3) self-similarity at the last digit -/
  selfL : ∀ s, validState n s →
    (step n (step n s (2^n-1)).1 (2^n-1)).2 = (step n s (2^n-1)).2
  /-- (F3) gluing: consecutive children `d`, `d+1` differ in exactly one coordinate `c`; the exit
  corner `X` of child `d` and the entry corner `E` of child `d+1` agree off `c` and point at each
  other on `c`. -/
  glue : ∀ s d, validState n s → d + 1 < 2^n → ∃ c, c < n ∧
    getI (step n s d).2 c ≠ getI (step n s (d+1)).2 c ∧
    getI (step n (step n s d).1 (2^n-1)).2 c = getI (step n s (d+1)).2 c ∧
    getI (step n (step n s (d+1)).1 0).2 c = getI (step n s d).2 c ∧
    ∀ i, i < n → i ≠ c →
      getI (step n s d).2 i = getI (step n s (d+1)).2 i ∧
      getI (step n (step n s d).1 (2^n-1)).2 i = getI (step n (step n s (d+1)).1 0).2 i

/-! ## the unsigned level data -/

/-- offset vector of digit `d` in a state with `it`, before multiplication by `iw` -/
def U (n it d : Nat) : List Int := swap0 (node n d).2.1 it
/-- the vector `iv` of digit `d` in a state with `it` (after the swap) -/
def V (n it d : Nat) : List Int := swap0 (node n d).2.2 it
/-- next `it` -/
def T (n it d : Nat) : Nat := relabel (node n d).1 it

theorem step_eq (n : Nat) (s : St) (d : Nat) :
    step n s d = (⟨T n s.it d, List.zipWith (fun w v => w * (-v)) s.iw (V n s.it d)⟩,
                  List.zipWith (· * ·) (U n s.it d) s.iw) := rfl

/-- second-level offset (digit `d`, then digit `e`) before multiplication by `iw` -/
def X0 (n it d e : Nat) : List Int :=
  List.zipWith (fun u v => u * (-v)) (U n (T n it d) e) (V n it d)

/-! ## the certificate -/

def sgnB (x : Int) : Bool := x == 1 || x == -1
def signVecB (n : Nat) (o : List Int) : Bool := o.length == n && o.all sgnB

/-- all `2^n` sign vectors -/
def signVecs : Nat → List (List Int)
  | 0 => [[]]
  | n+1 => (signVecs n).flatMap (fun v => [1 :: v, (-1) :: v])

def closedB (n it : Nat) : Bool :=
  (List.range (2^n)).all fun d =>
    signVecB n (U n it d) && signVecB n (V n it d) && decide (T n it d < n)

/-- candidate inverse of `U n it` (the code's own `__CalculateNumbr`; any function would do) -/
def decU (n it : Nat) (v : List Int) : Nat := (numbr n (swap0 v it)).1

def injB (n it : Nat) : Bool := (List.range (2^n)).all fun d => decU n it (U n it d) == d

def surjB (n it : Nat) : Bool :=
  (signVecs n).all fun v => decide (decU n it v < 2^n) && U n it (decU n it v) == v

def selfB (n it : Nat) : Bool :=
  X0 n it 0 0 == U n it 0 && X0 n it (2^n-1) (2^n-1) == U n it (2^n-1)

def glueAt (n : Nat) (a b X E : List Int) (c : Nat) : Bool :=
  getI a c != getI b c && getI X c == getI b c && getI E c == getI a c &&
  (List.range n).all fun i => i == c || (getI a i == getI b i && getI X i == getI E i)

def glueB (n it : Nat) : Bool :=
  (List.range (2^n - 1)).all fun d =>
    (List.range n).any
      (glueAt n (U n it d) (U n it (d+1)) (X0 n it d (2^n-1)) (X0 n it (d+1) 0))

def itOK (n it : Nat) : Bool :=
  closedB n it && injB n it && surjB n it && selfB n it && glueB n it

/-- the Boolean certificate for dimension `n`: `n · 2^n` cheap checks -/
def EvCert (n : Nat) : Bool := (List.range n).all (itOK n)

/-! ## soundness -/

theorem sgnB_iff (x : Int) : sgnB x = true ↔ (x = 1 ∨ x = -1) := by
  simp [sgnB]

theorem signVecB_iff (n : Nat) (o : List Int) : signVecB n o = true ↔ signVec n o := by
  simp [signVecB, signVec, sgnB_iff]

theorem mem_signVecs {n : Nat} {o : List Int} (h : signVec n o) : o ∈ signVecs n := by
  induction n generalizing o with
  | zero =>
    have : o = [] := List.eq_nil_of_length_eq_zero h.1
    subst this; simp [signVecs]
  | succ n ih =>
    cases o with
    | nil => exact absurd h.1 (by simp)
    | cons x t =>
      have ht : signVec n t :=
        ⟨by simpa using h.1, fun w hw => h.2 w (List.mem_cons_of_mem _ hw)⟩
      have hx := h.2 x (List.mem_cons_self)
      simp only [signVecs, List.mem_flatMap, List.mem_cons, List.cons.injEq, List.not_mem_nil,
        or_false]
      refine ⟨t, ih ht, ?_⟩
      rcases hx with hx | hx
      · exact Or.inl ⟨hx, rfl⟩
      · exact Or.inr ⟨hx, rfl⟩

theorem signVec_zipWith {n : Nat} {f : Int → Int → Int} {a b : List Int}
    (hf : ∀ x y, (x = 1 ∨ x = -1) → (y = 1 ∨ y = -1) → (f x y = 1 ∨ f x y = -1))
    (ha : signVec n a) (hb : signVec n b) : signVec n (List.zipWith f a b) := by
  apply signVec_of_getI
  · simp [List.length_zipWith, ha.1, hb.1]
  · intro i hi
    rw [getI_zipWith (by rw [ha.1]; exact hi) (by rw [hb.1]; exact hi)]
    exact hf _ _ (signVec_getI ha hi) (signVec_getI hb hi)

theorem sign_mul {x y : Int} (hx : x = 1 ∨ x = -1) (hy : y = 1 ∨ y = -1) :
    x * y = 1 ∨ x * y = -1 := by
  rcases hx with rfl | rfl <;> rcases hy with rfl | rfl <;> simp

theorem sign_mul_neg {x y : Int} (hx : x = 1 ∨ x = -1) (hy : y = 1 ∨ y = -1) :
    x * (-y) = 1 ∨ x * (-y) = -1 := by
  rcases hx with rfl | rfl <;> rcases hy with rfl | rfl <;> simp

/-- cancelling a sign -/
theorem mul_sign_cancel {x y w : Int} (hw : w = 1 ∨ w = -1) : x * w = y * w ↔ x = y := by
  rcases hw with rfl | rfl <;> omega

section Sound
variable {n : Nat} (hc : EvCert n = true)
include hc

theorem itOK_of_cert {it : Nat} (hit : it < n) : itOK n it = true := by
  have h := hc
  simp only [EvCert, List.all_eq_true, List.mem_range] at h
  exact h it hit

theorem cert_closed {it d : Nat} (hit : it < n) (hd : d < 2^n) :
    signVec n (U n it d) ∧ signVec n (V n it d) ∧ T n it d < n := by
  have h := itOK_of_cert hc hit
  simp only [itOK, Bool.and_eq_true] at h
  have h1 := h.1.1.1.1
  simp only [closedB, List.all_eq_true, List.mem_range, Bool.and_eq_true, signVecB_iff,
    decide_eq_true_eq] at h1
  have := h1 d hd
  exact ⟨this.1.1, this.1.2, this.2⟩

theorem cert_inj {it d d' : Nat} (hit : it < n) (hd : d < 2^n) (hd' : d' < 2^n)
    (he : U n it d = U n it d') : d = d' := by
  have h := itOK_of_cert hc hit
  simp only [itOK, Bool.and_eq_true] at h
  have h1 := h.1.1.1.2
  simp only [injB, List.all_eq_true, List.mem_range, beq_iff_eq] at h1
  rw [← h1 d hd, ← h1 d' hd', he]

theorem cert_surj {it : Nat} {v : List Int} (hit : it < n) (hv : signVec n v) :
    ∃ d, d < 2^n ∧ U n it d = v := by
  have h := itOK_of_cert hc hit
  simp only [itOK, Bool.and_eq_true] at h
  have h1 := h.1.1.2
  simp only [surjB, List.all_eq_true, Bool.and_eq_true, decide_eq_true_eq, beq_iff_eq] at h1
  exact ⟨_, h1 v (mem_signVecs hv)⟩

theorem cert_self {it : Nat} (hit : it < n) :
    X0 n it 0 0 = U n it 0 ∧ X0 n it (2^n-1) (2^n-1) = U n it (2^n-1) := by
  have h := itOK_of_cert hc hit
  simp only [itOK, Bool.and_eq_true] at h
  have h1 := h.1.2
  simpa only [selfB, Bool.and_eq_true, beq_iff_eq] using h1

theorem cert_glue {it d : Nat} (hit : it < n) (hd : d + 1 < 2^n) : ∃ c, c < n ∧
    getI (U n it d) c ≠ getI (U n it (d+1)) c ∧
    getI (X0 n it d (2^n-1)) c = getI (U n it (d+1)) c ∧
    getI (X0 n it (d+1) 0) c = getI (U n it d) c ∧
    ∀ i, i < n → i ≠ c →
      getI (U n it d) i = getI (U n it (d+1)) i ∧
      getI (X0 n it d (2^n-1)) i = getI (X0 n it (d+1) 0) i := by
  have h := itOK_of_cert hc hit
  simp only [itOK, Bool.and_eq_true] at h
  have h1 := h.2
  simp only [glueB, List.all_eq_true, List.mem_range, List.any_eq_true] at h1
  obtain ⟨c, hcn, hg⟩ := h1 d (by omega)
  simp only [glueAt, Bool.and_eq_true, bne_iff_ne, ne_eq, beq_iff_eq, List.all_eq_true,
    List.mem_range, Bool.or_eq_true] at hg
  refine ⟨c, hcn, hg.1.1.1, hg.1.1.2, hg.1.2, fun i hi hic => ?_⟩
  rcases hg.2 i hi with h | h
  · exact absurd h hic
  · exact h

/-- coordinates of the level offset -/
theorem getI_step_snd {s : St} (hs : validState n s) {d : Nat} (hd : d < 2^n) {i : Nat}
    (hi : i < n) : getI (step n s d).2 i = getI (U n s.it d) i * getI s.iw i := by
  have hU := (cert_closed hc hs.1 hd).1
  rw [step_eq, getI_zipWith (by rw [hU.1]; exact hi) (by rw [hs.2.1]; exact hi)]

/-- (F1) -/
theorem step_closed {s : St} (hs : validState n s) {d : Nat} (hd : d < 2^n) :
    validState n (step n s d).1 ∧ signVec n (step n s d).2 := by
  obtain ⟨hU, hV, hT⟩ := cert_closed hc hs.1 hd
  have hw : signVec n s.iw := hs.2
  rw [step_eq]
  refine ⟨⟨hT, ?_⟩, ?_⟩
  · exact signVec_zipWith (fun x y hx hy => sign_mul_neg hx hy) hw hV
  · exact signVec_zipWith (fun x y hx hy => sign_mul hx hy) hU hw

/-- coordinates of the second-level offset -/
theorem getI_step2_snd {s : St} (hs : validState n s) {d e : Nat} (hd : d < 2^n) (he : e < 2^n)
    {i : Nat} (hi : i < n) :
    getI (step n (step n s d).1 e).2 i = getI (X0 n s.it d e) i * getI s.iw i := by
  have hs' := (step_closed hc hs hd).1
  rw [getI_step_snd hc hs' he hi]
  obtain ⟨_, hV, hT⟩ := cert_closed hc hs.1 hd
  have hU' := (cert_closed hc hT he).1
  have e1 : (step n s d).1.it = T n s.it d := rfl
  have e2 : (step n s d).1.iw = List.zipWith (fun w v => w * (-v)) s.iw (V n s.it d) := rfl
  rw [e1, e2, X0, getI_zipWith (by rw [hs.2.1]; exact hi) (by rw [hV.1]; exact hi),
    getI_zipWith (by rw [hU'.1]; exact hi) (by rw [hV.1]; exact hi)]
  rw [Int.mul_left_comm, Int.mul_comm]

theorem evFacts_of_cert : EvFacts n where
  closed := fun s d hs hd => step_closed hc hs hd
  inj := by
    intro s d d' hs hd hd' he
    apply cert_inj hc hs.1 hd hd'
    have hU := (cert_closed hc hs.1 hd).1
    have hU' := (cert_closed hc hs.1 hd').1
    apply ext_getI hU.1 hU'.1
    intro i hi
    have := congrArg (fun l => getI l i) he
    simp only [getI_step_snd hc hs hd hi, getI_step_snd hc hs hd' hi] at this
    exact (mul_sign_cancel (signVec_getI hs.2 hi)).1 this
  surj := by
    intro s o hs ho
    have hv : signVec n (List.zipWith (· * ·) o s.iw) :=
      signVec_zipWith (fun x y hx hy => sign_mul hx hy) ho hs.2
    obtain ⟨d, hd, hU⟩ := cert_surj hc hs.1 hv
    refine ⟨d, hd, ?_⟩
    apply ext_getI (step_closed hc hs hd).2.1 ho.1
    intro i hi
    rw [getI_step_snd hc hs hd hi, hU,
      getI_zipWith (by rw [ho.1]; exact hi) (by rw [hs.2.1]; exact hi)]
    rcases signVec_getI hs.2 hi with h | h <;> rw [h] <;> omega
  self0 := by
    intro s hs
    have h0 : 0 < 2^n := Nat.two_pow_pos n
    apply ext_getI (step_closed hc (step_closed hc hs h0).1 h0).2.1 (step_closed hc hs h0).2.1
    intro i hi
    rw [getI_step2_snd hc hs h0 h0 hi, getI_step_snd hc hs h0 hi, (cert_self hc hs.1).1]
  selfL := by
    intro s hs
    have h0 : 2^n - 1 < 2^n := Nat.sub_lt (Nat.two_pow_pos n) Nat.one_pos
    apply ext_getI (step_closed hc (step_closed hc hs h0).1 h0).2.1 (step_closed hc hs h0).2.1
    intro i hi
    rw [getI_step2_snd hc hs h0 h0 hi, getI_step_snd hc hs h0 hi, (cert_self hc hs.1).2]
  glue := by
    intro s d hs hd
    have h0 : 0 < 2^n := Nat.two_pow_pos n
    have hL : 2^n - 1 < 2^n := Nat.sub_lt h0 Nat.one_pos
    have hd0 : d < 2^n := by omega
    obtain ⟨c, hcn, g1, g2, g3, g4⟩ := cert_glue hc hs.1 hd
    refine ⟨c, hcn, ?_, ?_, ?_, fun i hi hic => ⟨?_, ?_⟩⟩
    · rw [getI_step_snd hc hs hd0 hcn, getI_step_snd hc hs hd hcn]
      intro h; exact g1 ((mul_sign_cancel (signVec_getI hs.2 hcn)).1 h)
    · rw [getI_step2_snd hc hs hd0 hL hcn, getI_step_snd hc hs hd hcn, g2]
    · rw [getI_step2_snd hc hs hd h0 hcn, getI_step_snd hc hs hd0 hcn, g3]
    · rw [getI_step_snd hc hs hd0 hi, getI_step_snd hc hs hd hi, (g4 i hi hic).1]
    · rw [getI_step2_snd hc hs hd0 hL hi, getI_step2_snd hc hs hd h0 hi, (g4 i hi hic).2]

end Sound

end Ev
