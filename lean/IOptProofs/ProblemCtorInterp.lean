import IOptProofs.ProblemCtorInterpDefs
import IOptProofs.BenchMeta

namespace PCInterp
open Gen Gen.ProcSrc Gen.ProblemCtors BenchMeta

theorem execList_append (sup : String → Option (Store → Option Store)) (a b : List Stmt) (st : Store) :
    execList sup (a ++ b) st = (execList sup a st).bind (execList sup b) := by
  induction a generalizing st with
  | nil => simp [execList]
  | cons s t ih =>
    simp only [List.cons_append, execList]
    cases execStmt sup s st with
    | none => rfl
    | some st' => simpa using ih st'

/-- the store after the scalar assignments and the allocation of the names array -/
def S (n : Nat) (nm : String) (names : List Val) : Store :=
  [("dimension", .int n), ("self.numberOfFloatVariables", .int n), ("self.numberOfDisreteVariables", .lit "0"),
   ("self.numberOfObjectives", .lit "1"), ("self.numberOfConstraints", .lit "0"), ("self.floatVariableNames", .arr names),
   ("self.discreteVariableNames", .arr []), ("self.lowerBoundOfFloatVariables", .arr []),
   ("self.upperBoundOfFloatVariables", .arr []), ("self.discreteVariableValues", .arr []), ("self.knownOptimum", .arr []),
   ("self.name", .cls nm), ("self.dimension", .int n)]

theorem rastrigin_pre (n : Nat) :
    execList supers (rastrigin_init.take 8) [("dimension", .int n)] = some (S n "Rastrigin" (List.replicate n .unset)) := by
  simp [rastrigin_init, execList, execStmt, execCall, supers, superCallees, problem_init, evalExpr, lookup, storeTo, setKey,
    elemTable, elemAttrTable, plainTargets, numLits, classNames, shapeTable, dtypes, evalNat, Val.toNat?, S]

theorem xsquared_pre (n : Nat) :
    execList supers (xSquared_init.take 8) [("dimension", .int n)] = some (S n "XSquared" (List.replicate n .unset)) := by
  simp [xSquared_init, execList, execStmt, execCall, supers, superCallees, problem_init, evalExpr, lookup, storeTo, setKey,
    elemTable, elemAttrTable, plainTargets, numLits, classNames, shapeTable, dtypes, evalNat, Val.toNat?, S]


/-! ### the names loop -/

/-- the body of `for i in range(self.dimension): self.floatVariableNames[i] = i`, as `execStmt` runs it -/
def namesBody (i : Nat) (s : Store) : Option Store :=
  (execList supers [.assign "self.floatVariableNames[i]" "i"] (setKey s "i" (.int i))).map (eraseKey · "i")

theorem setKey_i (n : Nat) (nm : String) (cells : List Val) (k : Nat) :
    setKey (S n nm cells) "i" (.int k) = S n nm cells ++ [("i", .int k)] := by
  simp [setKey, S]
theorem evalExpr_i (n : Nat) (nm : String) (cells : List Val) (k : Nat) :
    evalExpr (S n nm cells ++ [("i", .int k)]) "i" = some (.int k) := by
  simp [evalExpr, lookup, S]
theorem storeTo_names (n : Nat) (nm : String) (cells : List Val) (k : Nat) (v : Val) (hk : k < cells.length) :
    storeTo (S n nm cells ++ [("i", .int k)]) "self.floatVariableNames[i]" v
      = some (S n nm (cells.set k v) ++ [("i", .int k)]) := by
  simp [lookup, storeTo, setKey, elemTable, evalNat, Val.toNat?, Val.asArr, evalExpr, setCell, S, hk]
theorem eraseKey_i (n : Nat) (nm : String) (cells : List Val) (k : Nat) :
    eraseKey (S n nm cells ++ [("i", .int k)]) "i" = S n nm cells := by
  simp [eraseKey, S]

theorem namesBody_S (n : Nat) (nm : String) (cells : List Val) (k : Nat) (hk : k < cells.length) :
    namesBody k (S n nm cells) = some (S n nm (cells.set k (.int k))) := by
  simp only [namesBody, execList, execStmt, setKey_i, evalExpr_i, Option.bind_some, storeTo_names n nm cells k _ hk,
    Option.map_some, eraseKey_i]

/-- the names array after `k` iterations -/
def namesAfter (n k : Nat) : List Val := (List.range k).map .int ++ List.replicate (n - k) .unset

theorem namesAfter_length (n k : Nat) (h : k ≤ n) : (namesAfter n k).length = n := by
  simp [namesAfter]; omega

theorem namesAfter_set (n k : Nat) (h : k < n) : (namesAfter n k).set k (.int k) = namesAfter n (k + 1) := by
  unfold namesAfter
  have : n - k = (n - (k + 1)) + 1 := by omega
  rw [this, List.replicate_succ, List.set_append_right _ _ (by simp), List.range_succ, List.map_append, List.append_assoc]
  simp

theorem names_loop (n : Nat) (nm : String) : ∀ k, k ≤ n →
    forIter namesBody k (S n nm (List.replicate n .unset)) = some (S n nm (namesAfter n k))
  | 0, _ => by simp [forIter, namesAfter]
  | k + 1, h => by
    rw [forIter, names_loop n nm k (by omega), Option.bind_some,
      namesBody_S n nm _ k (by rw [namesAfter_length n k (by omega)]; omega), namesAfter_set n k (by omega)]

theorem names_stmt (n : Nat) (nm : String) :
    execStmt supers (.forRange "i" "self.dimension" [.assign "self.floatVariableNames[i]" "i"])
      (S n nm (List.replicate n .unset)) = some (S n nm ((List.range n).map .int)) := by
  have h : evalCount (S n nm (List.replicate n .unset)) "self.dimension" = some n := by
    simp [evalCount, countTable, evalNat, evalExpr, lookup, S, Val.toNat?]
  have := names_loop n nm n (Nat.le_refl n)
  simp only [namesAfter, Nat.sub_self, List.replicate_zero, List.append_nil] at this
  rw [execStmt, h, Option.bind_some]
  exact this

/-! ### the bounds and the known optimum -/

/-- the store during the second half of the constructor: bounds `lo`, `hi`, known optimum `ko`, locals `loc` -/
def G (n : Nat) (nm : String) (names : List Val) (lo hi ko : Val) (loc : Store) : Store :=
  [("dimension", .int n), ("self.numberOfFloatVariables", .int n), ("self.numberOfDisreteVariables", .lit "0"),
   ("self.numberOfObjectives", .lit "1"), ("self.numberOfConstraints", .lit "0"), ("self.floatVariableNames", .arr names),
   ("self.discreteVariableNames", .arr []), ("self.lowerBoundOfFloatVariables", lo),
   ("self.upperBoundOfFloatVariables", hi), ("self.discreteVariableValues", .arr []), ("self.knownOptimum", ko),
   ("self.name", .cls nm), ("self.dimension", .int n)] ++ loc

theorem S_eq_G (n : Nat) (nm : String) (names : List Val) : S n nm names = G n nm names (.arr []) (.arr []) (.arr []) [] := rfl

set_option linter.unusedSimpArgs false

/-- evaluate ONE statement on a store of shape `G` -/
local macro "step" : tactic => `(tactic|
  simp [execStmt, execCall, supers, superCallees, evalExpr, lookup, storeTo, setKey, elemTable, elemAttrTable, plainTargets,
    numLits, classNames, shapeTable, dtypes, evalNat, Val.toNat?, G, fillTable, ctorTable, evalArgs, Val.asArr, Val.asObj,
    setCell, natLits])

variable (n : Nat) (nm : String) (names : List Val) (lo hi ko p q x : Val) (c : List Val)

theorem s_nd_lower : execStmt supers (.call ["self.lowerBoundOfFloatVariables"] "np.ndarray" ["shape=self.dimension", "dtype=np.double"])
    (G n nm names lo hi ko []) = some (G n nm names (.arr (List.replicate n .unset)) hi ko []) := by step
theorem s_nd_upper : execStmt supers (.call ["self.upperBoundOfFloatVariables"] "np.ndarray" ["shape=self.dimension", "dtype=np.double"])
    (G n nm names lo hi ko []) = some (G n nm names lo (.arr (List.replicate n .unset)) ko []) := by step
theorem s_fill_lower_m22 : execStmt supers (.call [] "self.lowerBoundOfFloatVariables.fill" ["-2.2"])
    (G n nm names (.arr c) hi ko []) = some (G n nm names (.arr (List.replicate c.length (.lit "-2.2"))) hi ko []) := by step
theorem s_fill_lower_m1 : execStmt supers (.call [] "self.lowerBoundOfFloatVariables.fill" ["-1"])
    (G n nm names (.arr c) hi ko []) = some (G n nm names (.arr (List.replicate c.length (.lit "-1"))) hi ko []) := by step
theorem s_fill_upper_18 : execStmt supers (.call [] "self.upperBoundOfFloatVariables.fill" ["1.8"])
    (G n nm names lo (.arr c) ko []) = some (G n nm names lo (.arr (List.replicate c.length (.lit "1.8"))) ko []) := by step
theorem s_fill_upper_1 : execStmt supers (.call [] "self.upperBoundOfFloatVariables.fill" ["1"])
    (G n nm names lo (.arr c) ko []) = some (G n nm names lo (.arr (List.replicate c.length (.lit "1"))) ko []) := by step
theorem s_nd_ko : execStmt supers (.call ["self.knownOptimum"] "np.ndarray" ["shape=1", "dtype=Trial"])
    (G n nm names lo hi ko []) = some (G n nm names lo hi (.arr [.unset]) []) := by step
theorem s_nd_pointfv : execStmt supers (.call ["pointfv"] "np.ndarray" ["shape=self.dimension", "dtype=np.double"])
    (G n nm names lo hi ko []) = some (G n nm names lo hi ko [("pointfv", .arr (List.replicate n .unset))]) := by step
theorem s_fill_pointfv : execStmt supers (.call [] "pointfv.fill" ["0"])
    (G n nm names lo hi ko [("pointfv", .arr c)])
      = some (G n nm names lo hi ko [("pointfv", .arr (List.replicate c.length (.lit "0")))]) := by step
theorem s_point : execStmt supers (.call ["KOpoint"] "Point" ["pointfv", "[]"])
    (G n nm names lo hi ko [("pointfv", p)])
      = some (G n nm names lo hi ko [("pointfv", p), ("KOpoint", .obj "Point" [p, .arr []])]) := by step
theorem s_nd_kofunv : execStmt supers (.call ["KOfunV"] "np.ndarray" ["shape=1", "dtype=FunctionValue"])
    (G n nm names lo hi ko [("pointfv", p), ("KOpoint", q)])
      = some (G n nm names lo hi ko [("pointfv", p), ("KOpoint", q), ("KOfunV", .arr [.unset])]) := by step
theorem s_fv : execStmt supers (.call ["KOfunV[0]"] "FunctionValue" [])
    (G n nm names lo hi ko [("pointfv", p), ("KOpoint", q), ("KOfunV", .arr [x])])
      = some (G n nm names lo hi ko [("pointfv", p), ("KOpoint", q), ("KOfunV", .arr [.obj "FunctionValue" [.unset]])]) := by
  step
theorem s_fv_value : execStmt supers (.assign "KOfunV[0].value" "0")
    (G n nm names lo hi ko [("pointfv", p), ("KOpoint", q), ("KOfunV", .arr [.obj "FunctionValue" [x]])])
      = some (G n nm names lo hi ko [("pointfv", p), ("KOpoint", q), ("KOfunV", .arr [.obj "FunctionValue" [.lit "0"]])]) := by
  step
theorem s_trial : execStmt supers (.call ["self.knownOptimum[0]"] "Trial" ["KOpoint", "KOfunV"])
    (G n nm names lo hi (.arr [x]) [("pointfv", p), ("KOpoint", q), ("KOfunV", ko)])
      = some (G n nm names lo hi (.arr [.obj "Trial" [q, ko]]) [("pointfv", p), ("KOpoint", q), ("KOfunV", ko)]) := by step

/-- the final store -/
def F (n : Nat) (nm : String) (names : List Val) (l h : String) : Store :=
  G n nm names (.arr (List.replicate n (.lit l))) (.arr (List.replicate n (.lit h)))
    (.arr [.obj "Trial" [.obj "Point" [.arr (List.replicate n (.lit "0")), .arr []], .arr [.obj "FunctionValue" [.lit "0"]]]])
    [("pointfv", .arr (List.replicate n (.lit "0"))),
     ("KOpoint", .obj "Point" [.arr (List.replicate n (.lit "0")), .arr []]),
     ("KOfunV", .arr [.obj "FunctionValue" [.lit "0"]])]

theorem rastrigin_post :
    execList supers (rastrigin_init.drop 9) (S n "Rastrigin" names) = some (F n "Rastrigin" names "-2.2" "1.8") := by
  simp only [rastrigin_init, List.drop, execList, S_eq_G, Option.bind_some, List.length_replicate, F,
    s_nd_lower, s_nd_upper, s_fill_lower_m22, s_fill_upper_18, s_nd_ko, s_nd_pointfv, s_fill_pointfv, s_point, s_nd_kofunv,
    s_fv, s_fv_value, s_trial]

theorem xsquared_post :
    execList supers (xSquared_init.drop 9) (S n "XSquared" names) = some (F n "XSquared" names "-1" "1") := by
  simp only [xSquared_init, List.drop, execList, S_eq_G, Option.bind_some, List.length_replicate, F,
    s_nd_lower, s_nd_upper, s_fill_lower_m1, s_fill_upper_1, s_nd_ko, s_nd_pointfv, s_fill_pointfv, s_point, s_nd_kofunv,
    s_fv, s_fv_value, s_trial]

/-! ### the whole constructors -/

/-- **The final store of `Rastrigin(n)`**, for every `n`: names `0 … n-1`, bounds `n` copies of the literals `-2.2` / `1.8`,
one known optimum: the point of `n` copies of `0` with value `0`. -/
theorem rastrigin_run (n : Nat) :
    run rastrigin_init [("dimension", .int n)] = some (F n "Rastrigin" ((List.range n).map .int) "-2.2" "1.8") := by
  have hsplit : rastrigin_init = rastrigin_init.take 8 ++
      ([.forRange "i" "self.dimension" [.assign "self.floatVariableNames[i]" "i"]] ++ rastrigin_init.drop 9) := rfl
  rw [run, hsplit, execList_append, rastrigin_pre, Option.bind_some, execList_append]
  simp only [execList, names_stmt, Option.bind_some]
  exact rastrigin_post n _

theorem xsquared_run (n : Nat) :
    run xSquared_init [("dimension", .int n)] = some (F n "XSquared" ((List.range n).map .int) "-1" "1") := by
  have hsplit : xSquared_init = xSquared_init.take 8 ++
      ([.forRange "i" "self.dimension" [.assign "self.floatVariableNames[i]" "i"]] ++ xSquared_init.drop 9) := rfl
  rw [run, hsplit, execList_append, xsquared_pre, Option.bind_some, execList_append]
  simp only [execList, names_stmt, Option.bind_some]
  exact xsquared_post n _

theorem toDyList_replicate (s : String) (d : Dy) (h : lookup dyTable s = some d) :
    ∀ n, toDyList (List.replicate n (.lit s)) = some (List.replicate n d)
  | 0 => rfl
  | n + 1 => by simp [List.replicate_succ, toDyList, Val.toDy?, h, toDyList_replicate s d h n]

/-- the table `dyTable` sends the five literal strings to the constants of the model -/
theorem dyTable_model : lookup dyTable "-2.2" = some dyM2_2 ∧ lookup dyTable "1.8" = some dy1_8 ∧
    lookup dyTable "-1" = some dyM1 ∧ lookup dyTable "1" = some dy1 ∧ lookup dyTable "0" = some dyZero := by
  simp [lookup, dyTable, dyM2_2, dy1_8, dyM1, dy1, dyZero]

theorem metaOf_F_rastrigin (n : Nat) (names : List Val) (hn : names.length = n) :
    metaOf n 0 (F n "Rastrigin" names "-2.2" "1.8") = some (rastriginMeta n) := by
  simp [metaOf, F, G, lookup, natField, arrField, Val.asCls, Val.asArr, Val.asObj, Val.toNat?, familyTable, natLits,
    toDyList_replicate _ _ dyTable_model.1, toDyList_replicate _ _ dyTable_model.2.1,
    toDyList_replicate _ _ dyTable_model.2.2.2.2, Val.toDy?, dyTable_model.2.2.2.2, rastriginMeta, hn]

theorem metaOf_F_xsquared (n : Nat) (names : List Val) (hn : names.length = n) :
    metaOf n 0 (F n "XSquared" names "-1" "1") = some (xsquaredMeta n) := by
  simp [metaOf, F, G, lookup, natField, arrField, Val.asCls, Val.asArr, Val.asObj, Val.toNat?, familyTable, natLits,
    toDyList_replicate _ _ dyTable_model.2.2.1, toDyList_replicate _ _ dyTable_model.2.2.2.1,
    toDyList_replicate _ _ dyTable_model.2.2.2.2, Val.toDy?, dyTable_model.2.2.2.2, xsquaredMeta, hn]

/-- **`Rastrigin.__init__` (source tree) declares `rastriginMeta n`, for every `n`.**  Family code 5 is READ from
`self.name = Rastrigin` (`familyTable`); `arg0 = n` (the constructor argument, as the table records it) and `arg1 = 0` are
supplied from outside. -/
theorem rastrigin_init_src (n : Nat) :
    declares rastrigin_init [("dimension", .int n)] n 0 = some (rastriginMeta n) := by
  rw [declares, rastrigin_run, Option.bind_some, metaOf_F_rastrigin n _ (by simp)]

/-- **`XSquared.__init__` (source tree) declares `xsquaredMeta n`, for every `n`** (family code 6 read from `self.name`). -/
theorem xsquared_init_src (n : Nat) :
    declares xSquared_init [("dimension", .int n)] n 0 = some (xsquaredMeta n) := by
  rw [declares, xsquared_run, Option.bind_some, metaOf_F_xsquared n _ (by simp)]

end PCInterp
