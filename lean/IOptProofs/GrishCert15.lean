import IOptProofs.GrishDefs
/-! kernel-evaluated certificates (V), (G), (P) of the Grishagin functions 76..80 (one block per file, identical template;
one theorem per function so that the kernel's reduction cache is released between functions) -/
namespace Grish
set_option maxRecDepth 100000
theorem grish_ok_76 : grishOK 76 = true := by decide +kernel
theorem grish_ok_77 : grishOK 77 = true := by decide +kernel
theorem grish_ok_78 : grishOK 78 = true := by decide +kernel
theorem grish_ok_79 : grishOK 79 = true := by decide +kernel
theorem grish_ok_80 : grishOK 80 = true := by decide +kernel
theorem grish_block_15 : ∀ k ∈ List.range' 76 5, grishOK k = true := by
  intro k hk
  simp only [List.mem_range'_1] at hk
  obtain ⟨h1, h2⟩ := hk
  have : k = 76 ∨ k = 77 ∨ k = 78 ∨ k = 79 ∨ k = 80 := by omega
  rcases this with rfl | rfl | rfl | rfl | rfl
  · exact grish_ok_76
  · exact grish_ok_77
  · exact grish_ok_78
  · exact grish_ok_79
  · exact grish_ok_80
end Grish
