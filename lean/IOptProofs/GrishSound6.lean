import IOptProofs.GrishSound5
/-!
# Grishagin checker, soundness part 6: the complete row check `rowOK`
-/

namespace Grish
open Encl Finset

/-- the four real coefficient matrices of a packed table row (`β2 = -df`) -/
noncomputable def cA (row mat : ℕ) (i j : ℕ) : ℝ := dyR (ent row mat i j)

theorem allCoefOK_spec {row : ℕ} (h : allCoefOK row = true) (mat i j : ℕ) (hm : mat < 4) (hi : i < 7) (hj : j < 7) :
    coefOK (ent row mat i j) = true := by
  unfold allCoefOK at h
  rw [List.all_eq_true] at h
  have := h (49 * mat + 7 * i + j) (List.mem_range.mpr (by omega))
  unfold ent
  have e : 1 + 49 * mat + 7 * i + j = 1 + (49 * mat + 7 * i + j) := by omega
  rw [e]; exact this

/-- a non-negative dyadic table entry as `numerator.toNat / 2^k` -/
theorem dyR_toNat {d : Dy} (h : 0 ≤ d.1) : ((d.1.toNat : ℕ) : ℝ) / 2 ^ d.2 = dyR d := by
  rw [dyR_eq]
  have : ((d.1.toNat : ℕ) : ℝ) = ((d.1.toNat : ℤ) : ℝ) := by push_cast; rfl
  rw [this, Int.toNat_of_nonneg h]

theorem dyR_natAbs_neg {d : Dy} (h : d.1 < 0) : dyR d = -(((d.1.natAbs : ℕ) : ℝ) / 2 ^ d.2) := by
  rw [dyR_eq, Nat.cast_natAbs, Int.cast_abs, abs_of_neg (by exact_mod_cast h)]
  ring

theorem ctxRep_mk {row : ℕ} (h : allCoefOK row = true) (wx wy : ℕ) :
    CtxRep (mkCtx row wx wy) (cA row 0) (fun i j => ((1 : ℤ) : ℝ) * cA row 1 i j)
      (cA row 2) (fun i j => ((-1 : ℤ) : ℝ) * cA row 3 i j) := by
  have ok01 : ∀ i < 7, ∀ j < 7, coefOK (ent row 0 i j) = true ∧ coefOK (ent row 1 i j) = true :=
    fun i hi j hj => ⟨allCoefOK_spec h 0 i j (by norm_num) hi hj, allCoefOK_spec h 1 i j (by norm_num) hi hj⟩
  have ok23 : ∀ i < 7, ∀ j < 7, coefOK (ent row 2 i j) = true ∧ coefOK (ent row 3 i j) = true :=
    fun i hi j hj => ⟨allCoefOK_spec h 2 i j (by norm_num) hi hj, allCoefOK_spec h 3 i j (by norm_num) hi hj⟩
  have s1 : |((1 : ℤ) : ℝ)| = 1 := by norm_num
  have s2 : |((-1 : ℤ) : ℝ)| = 1 := by norm_num
  exact ⟨mkMat_rep row 0 1 1 s1 ok01, mkMat_rep row 2 3 (-1) s2 ok23,
    (wSum_spec row 0 1 1 s1 ok01).le, (wSum_spec row 2 3 (-1) s2 ok23).le⟩

/-- `d1² + d2²` of a packed table row -/
noncomputable def rowS (row : ℕ) (x y : ℝ) : ℝ :=
  SS (cA row 0) (fun i j => ((1 : ℤ) : ℝ) * cA row 1 i j) (cA row 2) (fun i j => ((-1 : ℤ) : ℝ) * cA row 3 i j) x y

/-- what `rowOK` certifies, in terms of `S = d1² + d2²`, the declared point `(px, py)` and value `v` of the row -/
structure RowCert (row : ℕ) : Prop where
  px0 : 0 ≤ dyR (Dy.get row 197)
  px1 : dyR (Dy.get row 197) ≤ 1
  py0 : 0 ≤ dyR (Dy.get row 198)
  py1 : dyR (Dy.get row 198) ≤ 1
  vneg : dyR (Dy.get row 199) < 0
  vge : 1 ≤ -dyR (Dy.get row 199)
  V1 : (-dyR (Dy.get row 199) - 1 / 10000) ^ 2 ≤ rowS row (dyR (Dy.get row 197)) (dyR (Dy.get row 198))
  V2 : rowS row (dyR (Dy.get row 197)) (dyR (Dy.get row 198)) ≤ (-dyR (Dy.get row 199) + 1 / 10000) ^ 2
  G : ∀ x y, 0 ≤ x → x ≤ 1 → 0 ≤ y → y ≤ 1 → rowS row x y ≤ (501 / 500 * -dyR (Dy.get row 199)) ^ 2
  P : ∃ w1 w2 : ℝ, 0 ≤ w1 ∧ w1 ≤ 1 ∧ 0 ≤ w2 ∧ w2 ≤ 1 ∧
    ∀ x y, 0 ≤ x → x ≤ 1 → 0 ≤ y → y ≤ 1 →
      ¬(|x - dyR (Dy.get row 197)| ≤ 1 / 200 ∧ |y - dyR (Dy.get row 198)| ≤ 1 / 200) →
      rowS row x y < rowS row w1 w2

theorem unit_of_le {n k : ℕ} (h : n ≤ 2 ^ k) : 0 ≤ (n : ℝ) / 2 ^ k ∧ (n : ℝ) / 2 ^ k ≤ 1 := by
  have hp : (0 : ℝ) < 2 ^ k := by positivity
  refine ⟨by positivity, ?_⟩
  rw [div_le_one hp]
  exact_mod_cast h

theorem mkCtx_swlo (row wx wy : ℕ) :
    (mkCtx row wx wy).swlo = sLo (mkCtx row wx wy).m1 (mkCtx row wx wy).m2 (trigs wx 32) (trigs wy 32) := by
  simp only [mkCtx]

theorem mkCtx_gthr (row wx wy : ℕ) :
    (mkCtx row wx wy).gthr
      = Nat.shiftLeft ((501 * (Dy.get row 199).1.natAbs) ^ 2) 328 / (500 * 2 ^ (Dy.get row 199).2) ^ 2 := by
  simp only [mkCtx]

theorem rowOK_sound {row wx wy : ℕ} (h : rowOK row wx wy = true) : RowCert row := by
  unfold rowOK at h
  simp only [Bool.and_eq_true, decide_eq_true_eq, Nat.ble_eq] at h
  obtain ⟨⟨⟨⟨⟨⟨⟨⟨⟨hcoef, hpx0⟩, hpy0⟩, hpx1⟩, hpy1⟩, hwx⟩, hwy⟩, hvneg⟩, hvge⟩, ⟨hval, hsg⟩, hbnb⟩ := h
  have hc := ctxRep_mk hcoef wx wy
  set ctx := mkCtx row wx wy with hctx
  -- the declared point
  have epx : ((ctx.pxN : ℕ) : ℝ) / 2 ^ ctx.pxK = dyR (Dy.get row 197) := dyR_toNat hpx0
  have epy : ((ctx.pyN : ℕ) : ℝ) / 2 ^ ctx.pyK = dyR (Dy.get row 198) := dyR_toNat hpy0
  have hpxle : ctx.pxN ≤ 2 ^ ctx.pxK := hpx1
  have hpyle : ctx.pyN ≤ 2 ^ ctx.pyK := hpy1
  obtain ⟨ux0, ux1⟩ := unit_of_le hpxle
  obtain ⟨uy0, uy1⟩ := unit_of_le hpyle
  rw [epx] at ux0 ux1
  rw [epy] at uy0 uy1
  -- the declared value
  set vn := (Dy.get row 199).1.natAbs with hvn
  set vk := (Dy.get row 199).2 with hvk
  have ev : dyR (Dy.get row 199) = -((vn : ℝ) / 2 ^ vk) := dyR_natAbs_neg hvneg
  have hk : (0 : ℝ) < 2 ^ vk := by positivity
  have hvge' : (2 : ℝ) ^ vk ≤ vn := by exact_mod_cast hvge
  have vpos : (1 : ℝ) ≤ (vn : ℝ) / 2 ^ vk := by rw [le_div_iff₀ hk]; linarith
  have e328 : (0 : ℝ) < 2 ^ 328 := by positivity
  -- bounds at the declared point
  obtain ⟨plo, phi⟩ := point_bounds hc.m1 hc.m2 hpxle hpyle
  rw [epx, epy] at plo phi
  -- the witness
  obtain ⟨uw0, uw1⟩ := unit_of_le hwx
  obtain ⟨uv0, uv1⟩ := unit_of_le hwy
  obtain ⟨wlo, _⟩ := point_bounds hc.m1 hc.m2 hwx hwy
  have hsw : (ctx.swlo : ℝ) ≤ rowS row (wx / 2 ^ 32) (wy / 2 ^ 32) * 2 ^ 328 := by
    rw [hctx, mkCtx_swlo]; exact wlo
  have hsg' : (ctx.swlo : ℝ) ≤ (ctx.gthr : ℝ) := by exact_mod_cast hsg
  -- the threshold of (G)
  have hg : (ctx.gthr : ℝ) ≤ (501 / 500 * ((vn : ℝ) / 2 ^ vk)) ^ 2 * 2 ^ 328 := by
    have : (ctx.gthr : ℝ) = ((Nat.shiftLeft ((501 * vn) ^ 2) 328 / (500 * 2 ^ vk) ^ 2 : ℕ) : ℝ) := by
      rw [hctx, mkCtx_gthr]
    rw [this]
    refine Nat.cast_div_le.trans (le_of_eq ?_)
    rw [shl_cast]
    push_cast
    generalize (2 : ℝ) ^ 328 = T
    field_simp
  -- the bisection
  have good := bnb_sound hc 24 0 0 0 (by norm_num) (by norm_num) hbnb
  have insq : ∀ x y : ℝ, 0 ≤ x → x ≤ 1 → 0 ≤ y → y ≤ 1 → InSq 0 0 0 x y := by
    intro x y a b c d
    unfold InSq
    simp only [pow_zero, Nat.cast_zero, zero_add, div_one]
    exact ⟨a, b, c, d⟩
  obtain ⟨T, hT⟩ : ∃ T : ℝ, T = 2 ^ 328 := ⟨_, rfl⟩
  rw [← hT] at plo phi hsw hg e328
  refine ⟨ux0, ux1, uy0, uy1, by rw [ev]; linarith [vpos], by rw [ev]; linarith, ?_, ?_, ?_, ?_⟩
  · -- (V), lower
    unfold valueOK at hval
    simp only [Bool.and_eq_true, Nat.ble_eq] at hval
    obtain ⟨⟨hv1, hv2⟩, _⟩ := hval
    have hv1' : (2 : ℝ) ^ vk ≤ 10000 * vn := by
      have : ((Nat.shiftLeft 1 vk : ℕ) : ℝ) ≤ ((10000 * vn : ℕ) : ℝ) := by exact_mod_cast hv1
      rw [shl_cast] at this; push_cast at this; linarith
    have hv1n : 2 ^ vk ≤ 10000 * vn := by exact_mod_cast hv1'
    have hv2' : (((Nat.shiftLeft ((10000 * vn - 2 ^ vk) ^ 2) 328 : ℕ)) : ℝ)
        ≤ (((sLo ctx.m1 ctx.m2 (trigs ctx.pxN ctx.pxK) (trigs ctx.pyN ctx.pyK) * (10000 * 2 ^ vk) ^ 2 : ℕ)) : ℝ) := by
      exact_mod_cast hv2
    rw [shl_cast, ← hT] at hv2'
    push_cast [Nat.cast_sub hv1n] at hv2'
    have step : (10000 * (vn : ℝ) - 2 ^ vk) ^ 2 * T
        ≤ rowS row (dyR (Dy.get row 197)) (dyR (Dy.get row 198)) * T * (10000 * 2 ^ vk) ^ 2 :=
      hv2'.trans (mul_le_mul_of_nonneg_right plo (by positivity))
    have step2 : (10000 * (vn : ℝ) - 2 ^ vk) ^ 2
        ≤ rowS row (dyR (Dy.get row 197)) (dyR (Dy.get row 198)) * (10000 * 2 ^ vk) ^ 2 := by
      have : (10000 * (vn : ℝ) - 2 ^ vk) ^ 2 * T
          ≤ (rowS row (dyR (Dy.get row 197)) (dyR (Dy.get row 198)) * (10000 * 2 ^ vk) ^ 2) * T := by
        linarith
      exact le_of_mul_le_mul_right this e328
    rw [ev]
    have : (- -((vn : ℝ) / 2 ^ vk) - 1 / 10000) ^ 2 = (10000 * (vn : ℝ) - 2 ^ vk) ^ 2 / (10000 * 2 ^ vk) ^ 2 := by
      have hb : - -((vn : ℝ) / 2 ^ vk) - 1 / 10000 = (10000 * (vn : ℝ) - 2 ^ vk) / (10000 * 2 ^ vk) := by
        field_simp
      rw [hb, div_pow]
    rw [this, div_le_iff₀ (by positivity)]
    exact step2
  · -- (V), upper
    unfold valueOK at hval
    simp only [Bool.and_eq_true, Nat.ble_eq] at hval
    obtain ⟨_, hv3⟩ := hval
    have hv3' : (((sHi ctx.m1 ctx.m2 (trigs ctx.pxN ctx.pxK) (trigs ctx.pyN ctx.pyK) * (10000 * 2 ^ vk) ^ 2 : ℕ)) : ℝ)
        ≤ (((Nat.shiftLeft ((10000 * vn + 2 ^ vk) ^ 2) 328 : ℕ)) : ℝ) := by
      exact_mod_cast hv3
    rw [shl_cast, ← hT] at hv3'
    push_cast at hv3'
    have step : rowS row (dyR (Dy.get row 197)) (dyR (Dy.get row 198)) * T * (10000 * 2 ^ vk) ^ 2
        ≤ (10000 * (vn : ℝ) + 2 ^ vk) ^ 2 * T :=
      (mul_le_mul_of_nonneg_right phi (by positivity)).trans hv3'
    have step2 : rowS row (dyR (Dy.get row 197)) (dyR (Dy.get row 198)) * (10000 * 2 ^ vk) ^ 2
        ≤ (10000 * (vn : ℝ) + 2 ^ vk) ^ 2 := by
      have : (rowS row (dyR (Dy.get row 197)) (dyR (Dy.get row 198)) * (10000 * 2 ^ vk) ^ 2) * T
          ≤ (10000 * (vn : ℝ) + 2 ^ vk) ^ 2 * T := by linarith
      exact le_of_mul_le_mul_right this e328
    rw [ev]
    have : (- -((vn : ℝ) / 2 ^ vk) + 1 / 10000) ^ 2 = (10000 * (vn : ℝ) + 2 ^ vk) ^ 2 / (10000 * 2 ^ vk) ^ 2 := by
      have hb : - -((vn : ℝ) / 2 ^ vk) + 1 / 10000 = (10000 * (vn : ℝ) + 2 ^ vk) / (10000 * 2 ^ vk) := by
        field_simp
      rw [hb, div_pow]
    rw [this, le_div_iff₀ (by positivity)]
    exact step2
  · -- (G)
    intro x y a b c d
    have g := good x y (insq x y a b c d)
    have : rowS row x y * T ≤ (ctx.gthr : ℝ) := by
      rw [hT]
      rcases g with g | g
      · exact (g.le).trans hsg'
      · exact g.1
    have := this.trans hg
    rw [ev, neg_neg]
    exact le_of_mul_le_mul_right this e328
  · -- (P)
    refine ⟨(wx : ℝ) / 2 ^ 32, (wy : ℝ) / 2 ^ 32, uw0, uw1, uv0, uv1, ?_⟩
    intro x y a b c d hout
    have g := good x y (insq x y a b c d)
    rcases g with g | g
    · rw [← hT] at g
      have : rowS row x y * T < rowS row (wx / 2 ^ 32) (wy / 2 ^ 32) * T := lt_of_lt_of_le g hsw
      exact lt_of_mul_lt_mul_right this e328.le
    · exfalso
      apply hout
      rw [← epx, ← epy]
      exact g.2

end Grish
