import IOptProofs.GrishDefs
/-! kernel-evaluated certificates (V), (G), (P) of the Grishagin functions 61..65 (one block per file, identical template;
one theorem per function so that the kernel's reduction cache is released between functions) -/
namespace Grish
set_option maxRecDepth 100000
theorem grish_ok_61 : grishOK 61 = true := by decide +kernel
theorem grish_ok_62 : grishOK 62 = true := by decide +kernel
theorem grish_ok_63 : grishOK 63 = true := by decide +kernel
theorem grish_ok_64 : grishOK 64 = true := by decide +kernel
theorem grish_ok_65 : grishOK 65 = true := by decide +kernel
theorem grish_block_12 : ∀ k ∈ List.range' 61 5, grishOK k = true := by
  intro k hk
  simp only [List.mem_range'_1] at hk
  obtain ⟨h1, h2⟩ := hk
  have : k = 61 ∨ k = 62 ∨ k = 63 ∨ k = 64 ∨ k = 65 := by omega
  rcases this with rfl | rfl | rfl | rfl | rfl
  · exact grish_ok_61
  · exact grish_ok_62
  · exact grish_ok_63
  · exact grish_ok_64
  · exact grish_ok_65
end Grish
