import IOptProofs.EvFin
/-! # Kernel evaluation of the certificate `EvCert 7` (own file: built in parallel with `EvFinCert6`)

One kernel evaluation per value of `it` keeps the peak memory low. -/
namespace Ev
theorem itOK7_0 : itOK 7 0 = true := by decide +kernel
theorem itOK7_1 : itOK 7 1 = true := by decide +kernel
theorem itOK7_2 : itOK 7 2 = true := by decide +kernel
theorem itOK7_3 : itOK 7 3 = true := by decide +kernel
theorem itOK7_4 : itOK 7 4 = true := by decide +kernel
theorem itOK7_5 : itOK 7 5 = true := by decide +kernel
theorem itOK7_6 : itOK 7 6 = true := by decide +kernel

theorem evCert7 : EvCert 7 = true := by
  simp only [EvCert, List.all_eq_true, List.mem_range]
  intro it hit
  have : it = 0 ∨ it = 1 ∨ it = 2 ∨ it = 3 ∨ it = 4 ∨ it = 5 ∨ it = 6 := by omega
  rcases this with rfl | rfl | rfl | rfl | rfl | rfl | rfl
  · exact itOK7_0
  · exact itOK7_1
  · exact itOK7_2
  · exact itOK7_3
  · exact itOK7_4
  · exact itOK7_5
  · exact itOK7_6

theorem evFacts7 : EvFacts 7 := evFacts_of_cert evCert7
end Ev
