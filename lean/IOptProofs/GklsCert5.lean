import IOptProofs.GklsClass
import Mathlib.Tactic.IntervalCases
/-!
# Kernel-decided certificates of the 100 regenerated GKLS data sets of dimension 5

`Gkls.Cert 5 k` = well-formedness `WF` + class clauses `ClassOK` + identity (`dim = 5`, `number = k`).
One lemma per block of ten function numbers (`decide +kernel`: exact integer arithmetic in the kernel).
-/

namespace Gkls
set_option maxRecDepth 100000

theorem cert5_0 : ∀ k ∈ List.range' 1 10, Cert 5 k = true := by decide +kernel
theorem cert5_1 : ∀ k ∈ List.range' 11 10, Cert 5 k = true := by decide +kernel
theorem cert5_2 : ∀ k ∈ List.range' 21 10, Cert 5 k = true := by decide +kernel
theorem cert5_3 : ∀ k ∈ List.range' 31 10, Cert 5 k = true := by decide +kernel
theorem cert5_4 : ∀ k ∈ List.range' 41 10, Cert 5 k = true := by decide +kernel
theorem cert5_5 : ∀ k ∈ List.range' 51 10, Cert 5 k = true := by decide +kernel
theorem cert5_6 : ∀ k ∈ List.range' 61 10, Cert 5 k = true := by decide +kernel
theorem cert5_7 : ∀ k ∈ List.range' 71 10, Cert 5 k = true := by decide +kernel
theorem cert5_8 : ∀ k ∈ List.range' 81 10, Cert 5 k = true := by decide +kernel
theorem cert5_9 : ∀ k ∈ List.range' 91 10, Cert 5 k = true := by decide +kernel

/-- every data set of dimension 5 passes the certificate -/
theorem cert5 : ∀ k ∈ List.range' 1 100, Cert 5 k = true := by
  apply range_blocks
  intro b hb
  interval_cases b
  · exact cert5_0
  · exact cert5_1
  · exact cert5_2
  · exact cert5_3
  · exact cert5_4
  · exact cert5_5
  · exact cert5_6
  · exact cert5_7
  · exact cert5_8
  · exact cert5_9

end Gkls
