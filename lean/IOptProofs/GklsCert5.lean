import IOptProofs.GklsCert5a
import IOptProofs.GklsCert5b
import Mathlib.Tactic.IntervalCases
/-!
# All 100 regenerated GKLS data sets of dimension 5 pass the certificate
-/

namespace Gkls

/-- every data set of dimension 5 passes the certificate -/
theorem cert5 : ∀ k ∈ List.range' 1 100, Cert 5 k = true := by
  apply range_blocks5
  intro b hb
  interval_cases b
  · exact cert5_0
  · exact cert5_1
  · exact cert5_2
  · exact cert5_3
  · exact cert5_4
  · exact cert5_5
  · exact cert5_6
  · exact cert5_7
  · exact cert5_8
  · exact cert5_9
  · exact cert5_10
  · exact cert5_11
  · exact cert5_12
  · exact cert5_13
  · exact cert5_14
  · exact cert5_15
  · exact cert5_16
  · exact cert5_17
  · exact cert5_18
  · exact cert5_19

end Gkls
