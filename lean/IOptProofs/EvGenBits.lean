import IOptProofs.EvBasic
/-!
# Evolvent for every dimension, part 1: bit lists, the Gray code and the two loops

`Ev.nodeLoop` walks over the binary digits of `iis` (most significant first); `Ev.numbrLoop` rebuilds them
from the sign vector.  Both loops are expressed here through functions on bit lists (`List Bool`,
most significant bit first):

* `bitsM f r` / `valM bs` : the `f` binary digits of `r < 2^f` and back;
* `gray k1 bs`            : the sign vector written by `nodeLoop` (reflected Gray code: `u_i = - s_{i-1} s_i`);
* `bl i bs l iq`          : the pair `(l, iq)` computed by `nodeLoop`;
* `last1`, `last0`        : the indices `l`, `l1` computed by `numbrLoop`.

Only core Lean is used.
-/

namespace Ev.All

/-- sign of a bit: `1 ↦ +1`, `0 ↦ -1` -/
def sg (b : Bool) : Int := if b then 1 else -1

@[simp] theorem sg_true : sg true = 1 := rfl
@[simp] theorem sg_false : sg false = -1 := rfl

theorem sg_cases (b : Bool) : sg b = 1 ∨ sg b = -1 := by cases b <;> simp

theorem sg_not (b : Bool) : sg (!b) = - sg b := by cases b <;> simp

theorem sg_mul_self (b : Bool) : sg b * sg b = 1 := by cases b <;> simp

/-- the `f` binary digits of `r` (for `r < 2^f`), most significant first, as the loop extracts them -/
def bitsM : Nat → Nat → List Bool
  | 0, _ => []
  | f+1, r => if 2^f ≤ r then true :: bitsM f (r - 2^f) else false :: bitsM f r

/-- value of a bit list, most significant bit first -/
def valM : List Bool → Nat
  | [] => 0
  | b :: bs => (if b then 2^bs.length else 0) + valM bs

@[simp] theorem length_bitsM : ∀ (f r : Nat), (bitsM f r).length = f
  | 0, _ => rfl
  | f+1, r => by
    unfold bitsM; split <;> simp [length_bitsM f]

theorem valM_lt : ∀ (bs : List Bool), valM bs < 2^bs.length
  | [] => by simp [valM]
  | b :: bs => by
    have := valM_lt bs
    simp only [valM, List.length_cons, Nat.pow_succ]
    split <;> omega

theorem valM_bitsM : ∀ (f r : Nat), r < 2^f → valM (bitsM f r) = r
  | 0, r, h => by simp at h; simp [bitsM, valM, h]
  | f+1, r, h => by
    rw [Nat.pow_succ] at h
    unfold bitsM; split
    · rename_i h1
      simp only [valM, length_bitsM, if_true]
      rw [valM_bitsM f (r - 2^f) (by omega)]; omega
    · rename_i h1
      simp only [valM, length_bitsM]
      rw [valM_bitsM f r (by omega)]; simp

theorem bitsM_valM : ∀ (bs : List Bool), bitsM bs.length (valM bs) = bs
  | [] => rfl
  | b :: bs => by
    have h := valM_lt bs
    have ih := bitsM_valM bs
    cases b
    · simp only [valM, List.length_cons, bitsM]
      rw [if_neg (by simp; omega)]
      simp [ih]
    · simp only [valM, List.length_cons, bitsM, if_true]
      rw [if_pos (by omega)]
      simp [ih]

theorem valM_inj {a b : List Bool} (hl : a.length = b.length) (h : valM a = valM b) : a = b := by
  rw [← bitsM_valM a, ← bitsM_valM b, hl, h]

theorem valM_append : ∀ (p q : List Bool), valM (p ++ q) = valM p * 2^q.length + valM q
  | [], q => by simp [valM]
  | b :: p, q => by
    simp only [List.cons_append, valM, valM_append p q, List.length_append, Nat.pow_add]
    split <;> simp [Nat.add_mul, Nat.add_assoc]

theorem valM_replicate_false : ∀ (k : Nat), valM (List.replicate k false) = 0
  | 0 => rfl
  | k+1 => by simp [List.replicate_succ, valM, valM_replicate_false k]

theorem valM_replicate_true : ∀ (k : Nat), valM (List.replicate k true) + 1 = 2^k
  | 0 => rfl
  | k+1 => by
    have := valM_replicate_true k
    simp only [List.replicate_succ, valM, List.length_replicate, if_true, Nat.pow_succ]
    omega

theorem bitsM_zero (f : Nat) : bitsM f 0 = List.replicate f false := by
  have := bitsM_valM (List.replicate f false)
  rwa [valM_replicate_false, List.length_replicate] at this

theorem bitsM_last (f : Nat) : bitsM f (2^f - 1) = List.replicate f true := by
  have := bitsM_valM (List.replicate f true)
  have h := valM_replicate_true f
  rw [List.length_replicate] at this
  rw [← this]; congr 1; omega

theorem bitsM_eq_false_iff {f r : Nat} (h : r < 2^f) : bitsM f r = List.replicate f false ↔ r = 0 := by
  constructor
  · intro e
    have := valM_bitsM f r h
    rw [e, valM_replicate_false] at this; exact this.symm
  · rintro rfl; exact bitsM_zero f

theorem bitsM_eq_true_iff {f r : Nat} (h : r < 2^f) : bitsM f r = List.replicate f true ↔ r + 1 = 2^f := by
  constructor
  · intro e
    have := valM_bitsM f r h
    rw [e] at this
    have h2 := valM_replicate_true f; omega
  · intro e
    have : r = 2^f - 1 := by omega
    rw [this]; exact bitsM_last f

/-- the increment on bit lists -/
theorem valM_succ (p : List Bool) (k : Nat) :
    valM (p ++ false :: List.replicate k true) + 1 = valM (p ++ true :: List.replicate k false) := by
  have h := valM_replicate_true k
  simp only [valM_append, valM, List.length_replicate, valM_replicate_false, if_true]
  simp; omega

/-- a bit list that is not all ones ends in `0 1^k` -/
theorem exists_last_false : ∀ (bs : List Bool), bs ≠ List.replicate bs.length true →
    ∃ p k, bs = p ++ false :: List.replicate k true
  | [], h => absurd rfl h
  | b :: bs, h => by
    by_cases hc : bs = List.replicate bs.length true
    · cases b
      · exact ⟨[], bs.length, by rw [List.nil_append]; congr 1⟩
      · exact absurd (by simp only [List.length_cons, List.replicate_succ]; congr 1) h
    · obtain ⟨p, k, e⟩ := exists_last_false bs hc
      exact ⟨b :: p, k, by rw [e]; rfl⟩

/-- every bit list is constant or ends in `b (!b)^k` with `k ≥ 1` -/
theorem const_or_boundary : ∀ (bs : List Bool), (∃ b, bs = List.replicate bs.length b) ∨
    ∃ p b k, bs = p ++ b :: List.replicate (k+1) (!b)
  | [] => Or.inl ⟨true, rfl⟩
  | x :: bs => by
    rcases const_or_boundary bs with ⟨b, e⟩ | ⟨p, b, k, e⟩
    · by_cases hx : x = b
      · left; refine ⟨b, ?_⟩
        rw [hx]; simp only [List.length_cons, List.replicate_succ]; congr 1
      · by_cases hne : bs = []
        · subst hne; exact Or.inl ⟨x, rfl⟩
        · right
          have hb : b = !x := by
            revert hx; cases x <;> cases b <;> simp
          obtain ⟨m, hm⟩ : ∃ m, bs.length = m + 1 := by
            cases bs with
            | nil => exact absurd rfl hne
            | cons y t => exact ⟨t.length, rfl⟩
          refine ⟨[], x, m, ?_⟩
          rw [List.nil_append, ← hm, ← hb]; congr 1
    · exact Or.inr ⟨x :: p, b, k, by rw [e]; rfl⟩

/-! ## the loop of `__CalculateNode` on bit lists -/

/-- the sign vector written by `nodeLoop`: `u_i = - s_{i-1} · s_i` (`k1 = s_{-1}`) -/
def gray : Int → List Bool → List Int
  | _, [] => []
  | k1, b :: bs => (-k1 * sg b) :: gray (sg b) bs

/-- the pair `(l, iq)` computed by `nodeLoop`: updated at index `i` when the remaining digits are
`b (!b)^k`, `k ≥ 1` -/
def bl : Nat → List Bool → Nat → Int → Nat × Int
  | _, [], l, iq => (l, iq)
  | i, b :: bs, l, iq =>
    if bs ≠ [] ∧ bs = List.replicate bs.length (!b) then bl (i+1) bs i (-sg b) else bl (i+1) bs l iq

theorem nodeLoop_spec : ∀ (f i r : Nat) (k1 : Int) (l : Nat) (iq : Int) (acc : List Int), r < 2^f →
    nodeLoop i f r (2^f) k1 l iq acc =
      ((bl i (bitsM f r) l iq).1, (bl i (bitsM f r) l iq).2, acc.reverse ++ gray k1 (bitsM f r))
  | 0, i, r, k1, l, iq, acc, _ => by simp [nodeLoop, bitsM, bl, gray]
  | f+1, i, r, k1, l, iq, acc, h => by
    have h2 : 2^(f+1) / 2 = 2^f := by rw [Nat.pow_succ]; omega
    rw [Nat.pow_succ] at h
    unfold nodeLoop
    simp only [h2]
    by_cases hr : 2^f ≤ r
    · have hb : bitsM (f+1) r = true :: bitsM f (r - 2^f) := by simp [bitsM, hr]
      rw [if_pos hr, hb, nodeLoop_spec f _ _ _ _ _ _ (by omega)]
      have hc : ((r == 2^f && r != 1) = true) ↔
          (bitsM f (r - 2^f) ≠ [] ∧
            bitsM f (r - 2^f) = List.replicate (bitsM f (r - 2^f)).length (!true)) := by
        rw [length_bitsM, Bool.not_true, bitsM_eq_false_iff (by omega)]
        have hne : bitsM f (r - 2^f) ≠ [] ↔ f ≠ 0 := by
          rw [Ne, ← List.length_eq_zero_iff, length_bitsM]
        rw [hne]
        simp only [Bool.and_eq_true, beq_iff_eq, bne_iff_ne, ne_eq]
        constructor
        · rintro ⟨e, h1⟩
          refine ⟨fun hf => h1 ?_, by omega⟩
          rw [e, hf]
        · rintro ⟨hf, e⟩
          have : 1 < 2^f := Nat.one_lt_two_pow hf
          exact ⟨by omega, by omega⟩
      simp only [bl, gray, sg_true]
      by_cases hcc : (r == 2^f && r != 1) = true
      · rw [if_pos hcc, if_pos (hc.1 hcc)]; simp
      · rw [if_neg hcc, if_neg (fun h => hcc (hc.2 h))]; simp
    · have hb : bitsM (f+1) r = false :: bitsM f r := by simp [bitsM, hr]
      have hr' : r < 2^f := by omega
      rw [if_neg hr, hb, nodeLoop_spec f _ _ _ _ _ _ hr']
      have hc : ((r + 1 == 2^f && r != 0) = true) ↔
          (bitsM f r ≠ [] ∧ bitsM f r = List.replicate (bitsM f r).length (!false)) := by
        rw [length_bitsM, Bool.not_false, bitsM_eq_true_iff hr']
        have hne : bitsM f r ≠ [] ↔ f ≠ 0 := by
          rw [Ne, ← List.length_eq_zero_iff, length_bitsM]
        rw [hne]
        simp only [Bool.and_eq_true, beq_iff_eq, bne_iff_ne, ne_eq]
        constructor
        · rintro ⟨e, h1⟩
          refine ⟨fun hf => h1 ?_, e⟩
          rw [hf] at e; simpa using e
        · rintro ⟨hf, e⟩
          have : 1 < 2^f := Nat.one_lt_two_pow hf
          exact ⟨e, by omega⟩
      simp only [bl, gray, sg_false]
      by_cases hcc : (r + 1 == 2^f && r != 0) = true
      · rw [if_pos hcc, if_pos (hc.1 hcc)]; simp
      · rw [if_neg hcc, if_neg (fun h => hcc (hc.2 h))]; simp

/-! ### closed forms of `bl` -/

theorem bl_const : ∀ (m : Nat) (b : Bool) (i l : Nat) (iq : Int),
    bl i (List.replicate m b) l iq = (l, iq)
  | 0, _, _, _, _ => rfl
  | m+1, b, i, l, iq => by
    rw [List.replicate_succ, bl, if_neg, bl_const m]
    rintro ⟨hne, e⟩
    cases m with
    | zero => exact hne rfl
    | succ m =>
      rw [List.length_replicate, List.replicate_succ, List.replicate_succ] at e
      have := (List.cons.inj e).1
      cases b <;> simp at this

theorem bl_boundary : ∀ (p : List Bool) (b : Bool) (k i l : Nat) (iq : Int),
    bl i (p ++ b :: List.replicate (k+1) (!b)) l iq = (i + p.length, -sg b)
  | [], b, k, i, l, iq => by
    rw [List.nil_append, bl, if_pos ⟨by simp, by simp⟩, bl_const]; simp
  | x :: p, b, k, i, l, iq => by
    rw [List.cons_append, bl]
    split
    · rw [bl_boundary p]; simp; omega
    · rw [bl_boundary p]; simp; omega

/-! ### the Gray code -/

@[simp] theorem length_gray : ∀ (k1 : Int) (bs : List Bool), (gray k1 bs).length = bs.length
  | _, [] => rfl
  | k1, b :: bs => by simp [gray, length_gray]

theorem gray_sign : ∀ (k1 : Int) (bs : List Bool), (k1 = 1 ∨ k1 = -1) →
    ∀ x ∈ gray k1 bs, x = 1 ∨ x = -1
  | _, [], _, x, hx => by simp [gray] at hx
  | k1, b :: bs, hk, x, hx => by
    simp only [gray, List.mem_cons] at hx
    rcases hx with rfl | hx
    · rcases hk with rfl | rfl <;> cases b <;> simp
    · exact gray_sign (sg b) bs (sg_cases b) x hx

/-- sign of the last bit of `p` (`k1` for the empty list) -/
def lastSg : Int → List Bool → Int
  | k1, [] => k1
  | _, b :: bs => lastSg (sg b) bs

theorem lastSg_cases : ∀ (k1 : Int) (p : List Bool), (k1 = 1 ∨ k1 = -1) →
    (lastSg k1 p = 1 ∨ lastSg k1 p = -1)
  | _, [], h => h
  | _, b :: bs, _ => lastSg_cases (sg b) bs (sg_cases b)

theorem gray_append : ∀ (k1 : Int) (p q : List Bool),
    gray k1 (p ++ q) = gray k1 p ++ gray (lastSg k1 p) q
  | _, [], _ => rfl
  | k1, b :: p, q => by simp [gray, lastSg, gray_append (sg b) p q]

theorem gray_replicate_aux : ∀ (m : Nat) (b : Bool),
    gray (sg b) (List.replicate m b) = List.replicate m (-1)
  | 0, _ => rfl
  | m+1, b => by
    rw [List.replicate_succ, gray, gray_replicate_aux m b, List.replicate_succ]
    congr 1
    have := sg_mul_self b
    rw [Int.neg_mul]; omega

theorem gray_replicate (k1 : Int) (m : Nat) (b : Bool) :
    gray k1 (List.replicate (m+1) b) = (-k1 * sg b) :: List.replicate m (-1) := by
  rw [List.replicate_succ, gray, gray_replicate_aux]

/-- consecutive numbers have Gray codes that differ in exactly one place: the position of the lowest
zero bit -/
theorem gray_succ (p : List Bool) (k : Nat) : ∃ (A B : List Int) (s : Int),
    A.length = p.length ∧ B.length = k ∧ (s = 1 ∨ s = -1) ∧
    gray (-1) (p ++ false :: List.replicate k true) = A ++ s :: B ∧
    gray (-1) (p ++ true :: List.replicate k false) = A ++ (-s) :: B := by
  refine ⟨gray (-1) p, gray (-1) (List.replicate k true), lastSg (-1) p, length_gray _ _, by simp,
    lastSg_cases _ _ (Or.inr rfl), ?_, ?_⟩
  · rw [gray_append, gray]; simp
  · rw [gray_append, gray]
    congr 2
    · simp
    · cases k with
      | zero => rfl
      | succ k => rw [gray_replicate, gray_replicate]; simp

/-- every sign vector is a Gray code -/
theorem exists_gray : ∀ (u : List Int) (k1 : Int), (k1 = 1 ∨ k1 = -1) → (∀ x ∈ u, x = 1 ∨ x = -1) →
    ∃ bs : List Bool, bs.length = u.length ∧ gray k1 bs = u
  | [], _, _, _ => ⟨[], rfl, rfl⟩
  | x :: u, k1, hk, hu => by
    have hx := hu x (List.mem_cons_self)
    obtain ⟨b, hb⟩ : ∃ b : Bool, -k1 * sg b = x := by
      rcases hk with rfl | rfl <;> rcases hx with rfl | rfl
      · exact ⟨false, rfl⟩
      · exact ⟨true, rfl⟩
      · exact ⟨true, rfl⟩
      · exact ⟨false, rfl⟩
    obtain ⟨bs, hl, hg⟩ := exists_gray u (sg b) (sg_cases b) (fun y hy => hu y (List.mem_cons_of_mem _ hy))
    exact ⟨b :: bs, by simp [hl], by simp [gray, hb, hg]⟩

/-! ## the loop of `__CalculateNumbr` on Gray codes -/

/-- index of the last `1` bit (`l` if there is none) -/
def last1 : Nat → List Bool → Nat → Nat
  | _, [], l => l
  | i, b :: bs, l => last1 (i+1) bs (if b then i else l)

/-- index of the last `0` bit (`l` if there is none) -/
def last0 : Nat → List Bool → Nat → Nat
  | _, [], l => l
  | i, b :: bs, l => last0 (i+1) bs (if b then l else i)

theorem numbrLoop_spec : ∀ (bs : List Bool) (i : Nat) (k1 : Int) (iis l l1 : Nat), (k1 = 1 ∨ k1 = -1) →
    numbrLoop i (gray k1 bs) (2^bs.length) k1 iis l l1 =
      (iis + valM bs, last1 i bs l, last0 i bs l1)
  | [], _, _, _, _, _, _ => by simp [gray, numbrLoop, valM, last1, last0]
  | b :: bs, i, k1, iis, l, l1, hk => by
    have h2 : 2^(bs.length+1) / 2 = 2^bs.length := by rw [Nat.pow_succ]; omega
    have hk2 : -k1 * (-k1 * sg b) = sg b := by
      rcases hk with rfl | rfl <;> simp
    rw [gray, List.length_cons, numbrLoop]
    simp only [h2, hk2]
    cases b
    · rw [if_pos (by simp), numbrLoop_spec bs _ _ _ _ _ (sg_cases false)]
      simp [valM, last1, last0]
    · rw [if_neg (by simp), numbrLoop_spec bs _ _ _ _ _ (sg_cases true)]
      simp [valM, last1, last0, Nat.add_assoc]

theorem last1_append : ∀ (p q : List Bool) (i l : Nat),
    last1 i (p ++ q) l = last1 (i + p.length) q (last1 i p l)
  | [], _, _, _ => rfl
  | b :: p, q, i, l => by
    rw [List.cons_append, last1, last1_append p q, last1, List.length_cons]
    congr 1; omega

theorem last0_append : ∀ (p q : List Bool) (i l : Nat),
    last0 i (p ++ q) l = last0 (i + p.length) q (last0 i p l)
  | [], _, _, _ => rfl
  | b :: p, q, i, l => by
    rw [List.cons_append, last0, last0_append p q, last0, List.length_cons]
    congr 1; omega

theorem last1_replicate_false : ∀ (k i l : Nat), last1 i (List.replicate k false) l = l
  | 0, _, _ => rfl
  | k+1, i, l => by rw [List.replicate_succ, last1, last1_replicate_false k]; rfl

theorem last0_replicate_true : ∀ (k i l : Nat), last0 i (List.replicate k true) l = l
  | 0, _, _ => rfl
  | k+1, i, l => by rw [List.replicate_succ, last0, last0_replicate_true k]; rfl

theorem last1_boundary (p : List Bool) (k i l : Nat) :
    last1 i (p ++ true :: List.replicate k false) l = i + p.length := by
  rw [last1_append, last1, last1_replicate_false]; rfl

theorem last0_boundary (p : List Bool) (k i l : Nat) :
    last0 i (p ++ false :: List.replicate k true) l = i + p.length := by
  rw [last0_append, last0, last0_replicate_true]; rfl

end Ev.All
