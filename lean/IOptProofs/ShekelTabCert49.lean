import IOptProofs.ShekelTabDefs
/-! kernel-evaluated C18 table certificates (min / max / Lipschitz tables) of the Shekel functions 980..999
(one block per file, identical template; four kernel evaluations of 5 rows each keep the memory near 1 GB) -/
namespace Shk
set_option maxRecDepth 100000 in
theorem shekel_tab_block_49_a : ∀ i ∈ List.range' 980 5, shekelTabOK i = true := by decide +kernel
set_option maxRecDepth 100000 in
theorem shekel_tab_block_49_b : ∀ i ∈ List.range' 985 5, shekelTabOK i = true := by decide +kernel
set_option maxRecDepth 100000 in
theorem shekel_tab_block_49_c : ∀ i ∈ List.range' 990 5, shekelTabOK i = true := by decide +kernel
set_option maxRecDepth 100000 in
theorem shekel_tab_block_49_d : ∀ i ∈ List.range' 995 5, shekelTabOK i = true := by decide +kernel
theorem shekel_tab_block_49 : ∀ i ∈ List.range' 980 20, shekelTabOK i = true := by
  intro i hi
  have hi' := List.mem_range'_1.1 hi
  if h1 : i < 985 then exact shekel_tab_block_49_a i (List.mem_range'_1.2 ⟨by omega, by omega⟩) else
  if h2 : i < 990 then exact shekel_tab_block_49_b i (List.mem_range'_1.2 ⟨by omega, by omega⟩) else
  if h3 : i < 995 then exact shekel_tab_block_49_c i (List.mem_range'_1.2 ⟨by omega, by omega⟩) else
  exact shekel_tab_block_49_d i (List.mem_range'_1.2 ⟨by omega, by omega⟩)
end Shk
