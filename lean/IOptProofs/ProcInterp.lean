import IOptProofs.ProcInterpDefs
import IOptProofs.ProcessToy

set_option linter.unusedSectionVars false

section
variable {α : Type} [Add α] [Sub α] [Mul α] [Div α] [Neg α] [LT α] [LE α]
  [DecidableLT α] [DecidableLE α] [OfNat α 0] [OfNat α 1] [OfNat α 2] [OfNat α 4] [Fns α]

namespace ProcInterp
open AGP Proc Gen.ProcSrc

theorem commit_eq_parts (p : Params α) (pr : Prep α) (z : α) :
    commit p pr z = finalizeIteration (renewSearchData p pr z (updateOptimum pr z (recordTrial pr.s))) := by
  unfold commit finalizeIteration renewSearchData updateOptimum recordTrial
  simp only []
  cases hfi : findItem pr.s.items pr.s.best with
  | none => rfl
  | some it =>
    simp only [Option.map_some]
    by_cases hz : z < it.z
    · simp only [hz, decide_true, ↓reduceIte]
    · simp only [hz, decide_false, Bool.false_eq_true, ↓reduceIte]

/-! ### table look-ups on the strings of the generated trees -/
theorem lk_before : primTable.lookup ([], "listener.BeforeMethodStart", ["self.method"]) = some .beforeMethodStart := by decide
theorem lk_first : primTable.lookup ([], "self.method.FirstIteration", []) = some .firstIteration := by decide
theorem lk_appendLast : primTable.lookup ([], "savedNewPoints.append", ["self.searchData.GetLastItem()"]) = some .appendLast := by decide
theorem lk_calcPoint : primTable.lookup (["newpoint", "oldpoint"], "self.method.CalculateIterationPoint", []) = some .calcIterationPoint := by decide
theorem lk_appendNew : primTable.lookup ([], "savedNewPoints.append", ["newpoint"]) = some .appendNew := by decide
theorem lk_calcF : primTable.lookup ([], "self.method.CalculateFunctionals", ["newpoint"]) = some .calcFunctionals := by decide
theorem lk_upd : primTable.lookup ([], "self.method.UpdateOptimum", ["newpoint"]) = some .updateOptimum := by decide
theorem lk_renew : primTable.lookup ([], "self.method.RenewSearchData", ["newpoint", "oldpoint"]) = some .renewSearchData := by decide
theorem lk_fin : primTable.lookup ([], "self.method.FinalizeIteration", []) = some .finalizeIteration := by decide
theorem lk_onEnd : primTable.lookup ([], "listener.OnEndIteration", ["savedNewPoints", "self.GetResults()"]) = some .onEndIteration := by decide
theorem lk_cFirst : condTable.lookup "self.__first_iteration is True" = some .firstIter := by decide
theorem lk_aSaved : assignTable.lookup ("savedNewPoints", "[]") = some .savedEmpty := by decide
theorem lk_aFirst : assignTable.lookup ("self.__first_iteration", "False") = some .firstFalse := by decide

/-- the body of the `for _ in range(number)` loop of a `DoGlobalIteration`-shaped function -/
def loopBodyOf : List Stmt → List Stmt
  | [_, .forRange _ _ b, _] => b
  | _ => []

/-- what one pass of the loop body must do, in terms of `Proc.oneIteration` -/
def BodySpec (c : Ctx α) (b : IState α → Out α) : Prop :=
  ∀ (ps : PState α) (l : Locals α) (sv : List Nat), l.saved = some sv →
    match oneIteration c.p c.f ps with
    | .error (ps', e) => ∃ l', b ⟨Glob.ofP ps, l⟩ = .raised ⟨Glob.ofP ps', l'⟩ e
    | .ok (ps', id) => ∃ l', b ⟨Glob.ofP ps, l⟩ = .normal ⟨Glob.ofP ps', l'⟩ ∧ l'.saved = some (sv ++ [id])

theorem body_spec (c : Ctx α) (env : ProcEnv α) (fuel : Nat) :
    BodySpec c (fun s => execList c env fuel false (loopBodyOf Gen.ProcSrc.doGlobalIteration) s) := by
  intro ps l sv hl
  simp only [loopBodyOf, Gen.ProcSrc.doGlobalIteration]
  unfold oneIteration
  cases hm : ps.m with
  | none =>
    simp only [execList, execStmt, lk_cFirst, evalCond, Glob.ofP, hm, Option.isNone_none, ↓reduceIte, and_self, lk_before,
      Prim.allowed, execPrim, IState.setPs, lk_first, Bool.not_false]
    cases hf : c.f (ps.calls + 1 - 1) (firstPoint c.p) with
    | none => simp only []; exact ⟨_, rfl⟩
    | some z =>
      simp only [lk_appendLast, Prim.allowed, Bool.not_false, ↓reduceIte, execPrim, hl, lk_aFirst, Bool.false_eq_true,
        execAssign]
      exact ⟨_, rfl, rfl⟩
  | some s =>
    simp only [execList, execStmt, lk_cFirst, evalCond, Glob.ofP, hm, Option.isNone_some, Bool.false_eq_true, ↓reduceIte,
      lk_calcPoint, Prim.allowed, execPrim, IState.setPs, Bool.not_false]
    cases hp : prepare c.p s with
    | error e => obtain ⟨s', e⟩ := e; simp only []; exact ⟨_, rfl⟩
    | ok pr =>
      simp only [lk_appendNew, Prim.allowed, Bool.not_false, ↓reduceIte, execPrim, hl, lk_calcF]
      cases hf : c.f (ps.calls + 1 - 1) pr.point with
      | none => simp only []; exact ⟨_, rfl⟩
      | some z =>
        simp only [lk_upd, lk_renew, lk_fin, Prim.allowed, Bool.not_false, ↓reduceIte, execPrim, IState.setPs,
          commit_eq_parts]
        exact ⟨_, rfl, rfl⟩

/-- what follows the loop in `DoGlobalIteration`: the `OnEndIteration` round; a raise propagates -/
def finishDgi (o : Out α) : POut α :=
  match o with
  | .normal st =>
    match st.l.saved with
    | some sv => .done { st.g with ps := { st.g.ps with log := st.g.ps.log ++ [Event.endIteration sv] } }
    | none => .stuck
  | .returned st => .done st.g
  | .raised st e => .raised st.g e
  | .stuck => .stuck

/-- `for _ in range(k)` over a body that does `Proc.oneIteration`, followed by the notification, is `Proc.doGlobalIteration k` -/
theorem loopN_spec (c : Ctx α) (b : IState α → Out α) (hb : BodySpec c b) :
    ∀ (k : Nat) (ps : PState α) (l : Locals α) (sv : List Nat), l.saved = some sv →
      finishDgi (loopN k b ⟨Glob.ofP ps, l⟩) = POut.ofRes (Proc.doGlobalIteration c.p c.f k ps sv) := by
  intro k
  induction k with
  | zero => intro ps l sv hl; simp only [loopN, finishDgi, hl, Proc.doGlobalIteration, POut.ofRes, Glob.ofP]
  | succ k ih =>
    intro ps l sv hl
    have h := hb ps l sv hl
    rw [Proc.doGlobalIteration, loopN]
    cases ho : oneIteration c.p c.f ps with
    | error pe =>
      obtain ⟨ps', e⟩ := pe
      rw [ho] at h
      obtain ⟨l', hl'⟩ := h
      simp only [hl', finishDgi, POut.ofRes]
    | ok pi =>
      obtain ⟨ps', id⟩ := pi
      rw [ho] at h
      obtain ⟨l', hl', hsv⟩ := h
      simp only [hl']
      exact ih ps' l' _ hsv

theorem ev_number (number : Nat) : evalNat [("number", number)] "number" = some number := by
  have h : intLits.lookup "number" = none := by decide
  simp only [evalNat, h, List.lookup, beq_self_eq_true]

/-- the generated tree has the shape "initialise `savedNewPoints`; `for _ in range(number)`: body; notify" -/
theorem dgi_shape : Gen.ProcSrc.doGlobalIteration =
    [.assign "savedNewPoints" "[]", .forRange "_" "number" (loopBodyOf Gen.ProcSrc.doGlobalIteration),
     .forEach "listener" "self.__listeners" [.call [] "listener.OnEndIteration" ["savedNewPoints", "self.GetResults()"]]] := rfl

/-- a function of that shape, whatever its loop body -/
theorem run_dgi_shape (c : Ctx α) (depth fuel number : Nat) (body : List Stmt) (g : Glob α) :
    run c depth fuel [.assign "savedNewPoints" "[]", .forRange "_" "number" body,
      .forEach "listener" "self.__listeners" [.call [] "listener.OnEndIteration" ["savedNewPoints", "self.GetResults()"]]]
      [("number", number)] g =
    finishDgi (loopN number (fun s => execList c (envN c fuel depth) fuel false body s)
      ⟨g, { ints := [("number", number)], saved := some [] }⟩) := by
  simp only [run, runBody, execList, execStmt, lk_aSaved, execAssign, ev_number, ↓reduceIte,
    Bool.false_eq_true, and_self, lk_onEnd, Prim.allowed, execPrim, IState.setPs, finishDgi]
  cases loopN number _ _ with
  | normal st => cases hs : st.l.saved <;> simp only [hs]
  | returned st => rfl
  | raised st e => rfl
  | stuck => rfl

/-- **`DoGlobalIteration`, source tree = model.**  The interpretation of the statement tree generated from the source text of
`Process.DoGlobalIteration`, run with `number` bound to any value on an object whose `__first_iteration` flag agrees with the
model state, is `Proc.doGlobalIteration p f number ps []`: same final state (and flag), same exception (or none), for every call
depth and every `while`-fuel (the tree has no `while` and calls no function of `process.py`). -/
theorem doGlobalIteration_src (c : Ctx α) (depth fuel number : Nat) (ps : PState α) :
    run c depth fuel Gen.ProcSrc.doGlobalIteration [("number", number)] (Glob.ofP ps) =
      POut.ofRes (Proc.doGlobalIteration c.p c.f number ps []) := by
  have h1 := run_dgi_shape c depth fuel number (loopBodyOf Gen.ProcSrc.doGlobalIteration) (Glob.ofP ps)
  rw [← dgi_shape] at h1
  rw [h1]
  exact loopN_spec c _ (body_spec c (envN c fuel depth) fuel) number ps _ [] rfl

end ProcInterp
end
